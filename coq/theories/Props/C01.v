(* C01 — query exactness.  Headline theorems only; lemmas in Proofs/StorageProofs.v; models in
   Model/Storage.v (plain-map storage), Model/Segment.v, Model/Tree.v.

   Reading of the statements.  [st_after pis] is the storage state after the ingests [pis] (Put with
   retention off); C01_run ties it to histories of st_run with queries interleaved.  For a stack p,
   [t_self_at p] is the count of that stack in a profile tree.  [pi_ab pi] is the upload's range rounded
   to 10 s slots.  Hypotheses of exactness, exactly those of the property text:
     exact_put K pi : non-empty range of at most 9 slots inside the epoch block K (valid_range), a tree
                      as built by Insert (well formed, root ""), every stack count a multiple of the span;
     key_consistent : uploads with the same canonical key text are the same series (Key.Normalized, C15);
     no_average     : no upload declares aggregation type "average" (that case: the C01_average theorems).
   The segment-level fact that a read of [a,b) assembles, from whatever buckets s_get picks, the per-slot
   amounts of the writes times their slots inside [a,b) is [seg_read_exact] of Proofs/SegRead.v (builder
   "seg"); C01_exact uses it directly, C01_exact_from keeps the reduction with that fact as a premise. *)
From Pyro Require Import Model.Base Model.Tree Model.Segment Model.Timeline Model.Storage
  Proofs.TreeProofs Proofs.SegStruct Proofs.StorageProofs Proofs.StorageCounters Proofs.C01History.
Local Open Scope Z_scope.

Theorem C01_get_readonly : forall rt sel f u st, fst (st_step rt st (OpGet sel f u)) = st.
Proof. exact st_get_readonly. Qed.
Print Assumptions C01_get_readonly.

(* S1: after any history of good uploads, for every series key kb and stack p, the trees stored under
   the series' bucket keys hold exactly the contents of the exact bucket store of Model/Segment.v driven
   by the series' own writes (per-slot amount count/span); the segment has the root of that history;
   every stored tree is well formed with root "" *)
Theorem C01_store_mirrors : forall p pis, Forall good_put pis ->
  (forall k : sid, root_of k (st_after pis) = s_root (fst (run_writes (ws (sid_key k) p pis)))) /\
  (forall kb lvl t, Z.of_N (t_self_at p (tree_get (kb, lvl, t) (st_trees (st_after pis)))) =
                    snd (run_writes (ws kb p pis)) (lvl, t)) /\
  TW (st_trees (st_after pis)).
Proof. exact Inv_after. Qed.
Print Assumptions C01_store_mirrors.

(* S2: a query returns, per stack, the sum over the matching series of what the read assembles from the
   series' exact store — for any ranges, spans and covers (ratios m/d included) *)
Theorem C01_get_sum : forall p pis sel from until, Forall good_put pis ->
  let st := st_after pis in
  let ab := s_normalize_unix (from, until) in
  let matching := st_matching sel st in
  has_average matching = false ->
  let S := sumZ (map (fun ks => series_read p pis (fst ab) (snd ab) (sid_key (fst ks))) matching) in
  match st_get sel from until st with
  | Some out => Z.of_N (t_self_at p (go_tree out)) = S
  | None => S = 0
  end.
Proof. exact get_sum. Qed.
Print Assumptions C01_get_sum.

(* S4: grouping by the table's series = filtering the uploads by the selector *)
Theorem C01_regroup : forall (g : put_input -> Z) pis sel, key_consistent pis ->
  sumZ (map (fun ks => sumZ (map g (series_puts (sid_key (fst ks)) pis))) (st_matching sel (st_after pis))) =
  sumZ (map g (filter (fun pi => sel_matches sel (pi_sid pi)) pis)).
Proof. exact regroup_puts. Qed.
Print Assumptions C01_regroup.

(* C01_exact: for every selector, range and stack, the returned count is the sum over all uploads into
   matching series of (count / span) * (number of the upload's slots inside the rounded range) —
   whatever cover the read assembled; None only when that sum is 0. *)
Theorem C01_exact : forall K pis sel from until p,
  Forall (exact_put K) pis -> key_consistent pis -> no_average pis ->
  let ab := s_normalize_unix (from, until) in
  fst ab < snd ab ->
  let S := sumZ (map (contrib p (fst ab) (snd ab)) (filter (fun pi => sel_matches sel (pi_sid pi)) pis)) in
  match st_get sel from until (st_after pis) with
  | Some out => Z.of_N (t_self_at p (go_tree out)) = S
  | None => S = 0
  end.
Proof. exact get_exact_closed. Qed.
Print Assumptions C01_exact.

(* the same reduction with the segment-level statement as an explicit premise (storage level only) *)
Theorem C01_exact_from : seg_read_exact_stmt -> forall K pis sel from until p,
  Forall (exact_put K) pis -> key_consistent pis -> no_average pis ->
  let ab := s_normalize_unix (from, until) in
  valid_range K (fst ab) (snd ab) ->
  let S := sumZ (map (contrib p (fst ab) (snd ab)) (filter (fun pi => sel_matches sel (pi_sid pi)) pis)) in
  match st_get sel from until (st_after pis) with
  | Some out => Z.of_N (t_self_at p (go_tree out)) = S
  | None => S = 0
  end.
Proof. exact get_exact. Qed.
Print Assumptions C01_exact_from.

(* histories through st_run: a query after any history of ingests and queries answers st_get on the state
   after the ingests *)
Theorem C01_run : forall ops sel from until, Forall put_or_get ops ->
  snd (st_run None (ops ++ [OpGet sel from until]) st_init) =
  snd (st_run None ops st_init) ++ [OutGet (st_get sel from until (st_after (puts_of ops)))].
Proof. exact st_run_get. Qed.
Print Assumptions C01_run.

(* metadata: when exactly one series matches, the metadata returned is that of its latest upload *)
Theorem C01_meta : forall pis sel from until ks out,
  st_matching sel (st_after pis) = [ks] -> st_get sel from until (st_after pis) = Some out ->
  exists pi, last_put (sid_key (fst ks)) pis = Some pi /\ go_meta out = pi_meta pi.
Proof. exact get_meta. Qed.
Print Assumptions C01_meta.

(* C01_exact over arbitrary histories.  [live_uploads rt ops] = the uploads of the history that the retention
   guard accepted and that no later Delete with a matching selector removed, oldest first; [live_rev] is the
   recursion of the checker's StorCorr.live_puts (C01_live_puts_checker).  hist_op K: every Put is an exact_put,
   Gets and Deletes are arbitrary, retention PASSES are excluded (partial: for histories containing
   DeleteDataBefore passes only the three C11_retention clauses are proved, not a closed form). *)
Theorem C01_history_normal : forall K rt ops, block_deletable K -> Forall (hist_op K) ops -> key_consistent (puts_of ops) ->
  st_equiv (fst (st_run rt ops st_init)) (st_after (live_uploads rt ops)) /\
  incl (live_uploads rt ops) (puts_of ops) /\ Forall (exact_put K) (live_uploads rt ops).
Proof. exact history_live. Qed.
Print Assumptions C01_history_normal.

Theorem C01_exact_history : forall K rt ops sel from until p,
  block_deletable K -> Forall (hist_op K) ops -> key_consistent (puts_of ops) -> no_average (puts_of ops) ->
  let ab := s_normalize_unix (from, until) in
  fst ab < snd ab ->
  let S := sumZ (map (StorageProofs.contrib p (fst ab) (snd ab)) (filter (fun pi => sel_matches sel (pi_sid pi)) (live_uploads rt ops))) in
  match st_get sel from until (fst (st_run rt ops st_init)) with
  | Some out => Z.of_N (t_self_at p (go_tree out)) = S
  | None => S = 0
  end.
Proof. exact exact_history. Qed.
Print Assumptions C01_exact_history.

Theorem C01_meta_history : forall K rt ops sel from until ks out,
  block_deletable K -> Forall (hist_op K) ops -> key_consistent (puts_of ops) ->
  st_matching sel (st_after (live_uploads rt ops)) = [ks] ->
  st_get sel from until (fst (st_run rt ops st_init)) = Some out ->
  exists pi, last_put (sid_key (fst ks)) (live_uploads rt ops) = Some pi /\ go_meta out = pi_meta pi.
Proof. exact meta_history. Qed.
Print Assumptions C01_meta_history.

Theorem C01_live_uploads_forward : forall rt ops, live_uploads rt ops = fold_left (live_step rt) ops [].
Proof. exact live_uploads_forward. Qed.
Print Assumptions C01_live_uploads_forward.

Theorem C01_live_puts_checker : forall rt sel rev_hs, Forall (hop_guard rt) rev_hs -> forall D,
  map (fun x => match x with (s, f, u, ss, m) => put_of s f u ss m end) (Corr.StorCorr.live_puts sel rev_hs D) =
  filter (fun pi => sel_matches sel (pi_sid pi)) (live_rev rt (flat_map op_of_hop rev_hs) D).
Proof. exact live_puts_live_rev. Qed.
Print Assumptions C01_live_puts_checker.

(* 'average' series.  Full statement of the property: the sum is divided by the number of contributing
   uploads,
     Z.of_N (t_self_at p (go_tree out)) = S / uploads_in sel a b pis.
   It is false of the code (D12, known finding average-divisor-multislot): C01_average_refuted.
   Proved instead (C01_average_partial): the divisor is the sum W of the write counters of the cover
   buckets the read assembled (cover_writes); this is the number of contributing uploads only when each
   upload meets exactly one cover bucket, e.g. when all uploads are single-slot. *)
Theorem C01_average_refuted :
  exists pis sel from until p out,
    st_get sel from until (st_after pis) = Some out /\
    let ab := s_normalize_unix (from, until) in
    Z.of_N (t_self_at p (go_tree out)) <>
    sumZ (map (contrib p (fst ab) (snd ab)) (filter (fun pi => sel_matches sel (pi_sid pi)) pis)) / uploads_in sel (fst ab) (snd ab) pis.
Proof. exact average_refuted. Qed.
Print Assumptions C01_average_refuted.

Theorem C01_average_partial : forall p pis sel from until, Forall good_put pis ->
  let st := st_after pis in
  let ab := s_normalize_unix (from, until) in
  let matching := st_matching sel st in
  let S := sumZ (map (fun ks => series_read p pis (fst ab) (snd ab) (sid_key (fst ks))) matching) in
  let W := cover_writes (fst ab) (snd ab) matching in
  match st_get sel from until st with
  | Some out => Z.of_N (t_self_at p (go_tree out)) =
                if (0 <? W)%N && has_average matching then S / Z.of_N W else S
  | None => S = 0
  end.
Proof. exact get_sum_avg. Qed.
Print Assumptions C01_average_partial.

(* I_writes at the level of a read (from SegCount.seg_counters_exact and SegCanon.cinv): for a history of
   single-slot writes, the write counters of the buckets a read of [a,b) assembles add up to the number of
   writes that fall into [a,b) *)
Theorem C01_cover_writes : forall K ws a b, Forall (valid_write K) ws -> single_slot ws -> a < b ->
  sumN (map gc_writes (s_get a b (fst (run_writes ws)))) = writes_in a b ws.
Proof. exact cover_writes_holds. Qed.
Print Assumptions C01_cover_writes.

(* C01_average_single_slot: when every upload is a single slot (what the agent sends), an 'average' query
   returns, per stack, floor(sum / number of contributing uploads), U = uploads into matching series whose
   slot lies in the rounded range (U = 0 only when the sum is an empty sum) *)
Theorem C01_average_single_slot : forall K pis sel from until p,
  Forall (single_put K) pis -> key_consistent pis ->
  let ab := s_normalize_unix (from, until) in
  fst ab < snd ab ->
  has_average (st_matching sel (st_after pis)) = true ->
  let S := sumZ (map (contrib p (fst ab) (snd ab)) (filter (fun pi => sel_matches sel (pi_sid pi)) pis)) in
  let U := Z.of_nat (length (filter (fun pi => sel_matches sel (pi_sid pi) && pi_in (fst ab) (snd ab) pi) pis)) in
  match st_get sel from until (st_after pis) with
  | Some out => Z.of_N (t_self_at p (go_tree out)) = if 0 <? U then S / U else S
  | None => S = 0
  end.
Proof. exact average_single_slot_closed. Qed.
Print Assumptions C01_average_single_slot.

(* ---- non-vacuity: two series of one application, three uploads (spans 1, 2 and 3 slots, one straddling
   a 100 s boundary), a query by application over part of the history --------------------------------- *)
Definition ex_s1 : sid := {| sid_key := [97;123;120;61;49;125]%N; sid_app := [97]%N; sid_tags := [([120], [49])]%N |}.
Definition ex_s2 : sid := {| sid_key := [97;123;120;61;50;125]%N; sid_app := [97]%N; sid_tags := [([120], [50])]%N |}.
Definition ex_sel : sid := {| sid_key := [97;123;125]%N; sid_app := [97]%N; sid_tags := [] |}.
Definition ex_meta : meta := {| m_spy := [103]%N; m_rate := 100%N; m_units := [115]%N; m_agg := [115;117;109]%N |}.
Definition ex_pis : list put_input :=
  [ {| pi_sid := ex_s1; pi_from := 1600000090; pi_until := 1600000110;
       pi_tree := t_insert [109;59;102]%N 6%N (t_insert [109;59;103]%N 2%N t_empty); pi_meta := ex_meta |};
    {| pi_sid := ex_s2; pi_from := 1600000100; pi_until := 1600000130;
       pi_tree := t_insert [109;59;102]%N 9%N t_empty; pi_meta := ex_meta |};
    {| pi_sid := ex_s1; pi_from := 1600000120; pi_until := 1600000130;
       pi_tree := t_insert [109;59;102]%N 5%N t_empty; pi_meta := ex_meta |} ].

Example C01_exact_nonvacuous :
  Forall (exact_put 63) ex_pis /\ key_consistent ex_pis /\ no_average ex_pis /\
  fst (s_normalize_unix (1600000100, 1600000125)) < snd (s_normalize_unix (1600000100, 1600000125)) /\
  (* m;f : 6/2*1 (second slot of the first upload) + 9/3*3 + 5/1*1 = 17 *)
  sumZ (map (contrib [[109]%N; [102]%N] (fst (s_normalize_unix (1600000100, 1600000125))) (snd (s_normalize_unix (1600000100, 1600000125))))
            (filter (fun pi => sel_matches ex_sel (pi_sid pi)) ex_pis)) = 17 /\
  match st_get ex_sel 1600000100 1600000125 (st_after ex_pis) with
  | Some out => t_self_at [[109]%N; [102]%N] (go_tree out) = 17%N /\ t_self_at [[109]%N; [103]%N] (go_tree out) = 1%N
  | None => False
  end.
Proof.
  split; [|split; [|split; [|split; [|split]]]].
  - unfold ex_pis. repeat (apply Forall_cons; [apply exact_putb_ok; vm_compute; reflexivity|]). apply Forall_nil.
  - intros pi pi' H1 H2. cbn in H1, H2.
    destruct H1 as [<-|[<-|[<-|[]]]], H2 as [<-|[<-|[<-|[]]]]; cbn; intros E; try reflexivity; discriminate E.
  - intros pi H. cbn in H. destruct H as [<-|[<-|[<-|[]]]]; cbn; discriminate.
  - vm_compute. reflexivity.
  - vm_compute. reflexivity.
  - vm_compute. split; reflexivity.
Qed.

Example C01_average_nonvacuous :
  good_put d12_put /\
  match st_get d12_sid 1600000000 1600000020 (st_after [d12_put]), st_get d12_sid 1600000000 1600000100 (st_after [d12_put]) with
  | Some o1, Some o2 => t_self_at [[97]%N; [98]%N] (go_tree o1) = 4%N /\ t_self_at [[97]%N; [98]%N] (go_tree o2) = 8%N
  | _, _ => False
  end.
Proof. split; [apply good_putb_ok; vm_compute; reflexivity|]. vm_compute. split; reflexivity. Qed.

Definition avg_put (f : Z) (v : N) : put_input :=
  {| pi_sid := d12_sid; pi_from := f; pi_until := f + 10; pi_tree := t_insert [97;59;98]%N v t_empty;
     pi_meta := {| m_spy := []; m_rate := 100%N; m_units := []; m_agg := average_bytes |} |}.

Example C01_average_single_slot_nonvacuous :
  let pis := [avg_put 1600000000 8%N; avg_put 1600000010 3%N; avg_put 1600000010 4%N] in
  Forall (single_put 63) pis /\ has_average (st_matching d12_sid (st_after pis)) = true /\
  match st_get d12_sid 1600000000 1600000020 (st_after pis) with
  | Some out => t_self_at [[97]%N; [98]%N] (go_tree out) = 5%N       (* (8 + 3 + 4) / 3 *)
  | None => False
  end.
Proof.
  cbv zeta. split; [|split; vm_compute; reflexivity].
  repeat (apply Forall_cons; [split; [apply exact_putb_ok; vm_compute; reflexivity|vm_compute; reflexivity]|]). apply Forall_nil.
Qed.

(* a history with a refused ingest (retention guard at 1600000050), a delete and later ingests *)
Example C01_exact_history_nonvacuous :
  let mk := fun (s : sid) (f u : Z) (v : N) =>
    {| pi_sid := s; pi_from := f; pi_until := u; pi_tree := t_insert [109;59;102]%N v t_empty; pi_meta := ex_meta |} in
  let ops := [OpPut (mk ex_s1 1600000090 1600000110 6%N); OpPut (mk ex_s2 1600000100 1600000130 9%N);
              OpPut (mk ex_s1 1600000000 1600000010 7%N);          (* refused: starts before the threshold *)
              OpGet ex_sel 1600000090 1600000130; OpDelete ex_s1;
              OpPut (mk ex_s1 1600000120 1600000130 5%N)] in
  Forall (hist_op 63) ops /\ key_consistent (puts_of ops) /\ no_average (puts_of ops) /\ block_deletable 63 /\
  map pi_from (live_uploads (Some 1600000050) ops) = [1600000100; 1600000120] /\
  match st_get ex_sel 1600000090 1600000130 (fst (st_run (Some 1600000050) ops st_init)) with
  | Some out => t_self_at [[109]%N; [102]%N] (go_tree out) = 14%N      (* 9 + 5; the deleted 6 is gone *)
  | None => False
  end.
Proof.
  cbv zeta. split; [|split; [|split; [|split; [|split]]]].
  - repeat (apply Forall_cons; [first [exact I | apply exact_putb_ok; vm_compute; reflexivity]|]). apply Forall_nil.
  - intros pi pi' H1 H2. cbn in H1, H2.
    destruct H1 as [<-|[<-|[<-|[<-|[]]]]], H2 as [<-|[<-|[<-|[<-|[]]]]]; cbn; intros E; try reflexivity; discriminate E.
  - intros pi H. cbn in H. destruct H as [<-|[<-|[<-|[<-|[]]]]]; cbn; discriminate.
  - vm_compute. discriminate.
  - vm_compute. reflexivity.
  - vm_compute. reflexivity.
Qed.
