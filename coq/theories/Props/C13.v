(* C13 — timeline.  Headline theorems only; lemmas in Proofs/TimelineProofs.v; model Model/Timeline.v.
   Times are 10 s slots since year 1; st_get calls tl_generate on the range rounded by s_normalize_unix. *)
From Pyro Require Import Model.Base Model.Segment Model.Timeline Proofs.SegStruct Proofs.TimelineProofs.
Local Open Scope Z_scope.

Theorem C13_shape_start : forall a b, tl_st (tl_generate a b) = a.
Proof. exact tl_generate_start. Qed.
Print Assumptions C13_shape_start.

(* one entry per bucket: (b - a) / 10^lvl entries (truncating division, as Go's) *)
Theorem C13_shape_length : forall a b,
  length (tl_samples (tl_generate a b)) = Z.to_nat (Z.quot (b - a) (pow10 (tl_lvl (tl_generate a b)))).
Proof. exact tl_generate_length. Qed.
Print Assumptions C13_shape_length.

(* GenerateTimeline compares int64 nanoseconds: durations[l] < totalDuration/1024; in slots this is exactly
   1024 * 10^l < b - a *)
Theorem C13_level_test : forall a b l, a <= b ->
  (pow10 l * ns_per_slot <? Z.quot ((b - a) * ns_per_slot) 1024) = (1024 * pow10 l <? b - a).
Proof. exact level_test. Qed.
Print Assumptions C13_level_test.

(* bucket size = 10^lvl slots with lvl the largest l <= 8 such that 1024 * 10^l slots < range, 0 (10 s
   buckets) when there is none — i.e. 10 s buckets up to 10240 slots = 102400 s, about 28 h *)
Theorem C13_shape : forall a b, a <= b ->
  let lvl := tl_lvl (tl_generate a b) in
  (lvl <= 8)%nat /\
  (forall l, (l <= 8)%nat -> 1024 * pow10 l < b - a -> (l <= lvl)%nat) /\
  (lvl = O \/ 1024 * pow10 lvl < b - a).
Proof. exact tl_generate_level. Qed.
Print Assumptions C13_shape.

(* populating from any number of segments keeps start, end, bucket size and the number of entries *)
Theorem C13_populate_shape : forall (segs : list segment) tl,
  let tl' := fold_left (fun tl s => tl_populate s tl) segs tl in
  tl_st tl' = tl_st tl /\ tl_et tl' = tl_et tl /\ tl_lvl tl' = tl_lvl tl /\
  length (tl_samples tl') = length (tl_samples tl).
Proof. exact tl_populate_all_shape. Qed.
Print Assumptions C13_populate_shape.

Example C13_shape_nonvacuous :
  (* 10240 slots: still 10 s buckets, 10240 entries; 10241 slots: 100 s buckets, 1024 entries *)
  tl_lvl (tl_generate 6373559600 (6373559600 + 10240)) = 0%nat /\
  length (tl_samples (tl_generate 6373559600 (6373559600 + 10240))) = 10240%nat /\
  tl_lvl (tl_generate 6373559600 (6373559600 + 10241)) = 1%nat /\
  length (tl_samples (tl_generate 6373559600 (6373559600 + 10241))) = 1024%nat /\
  tl_lvl (tl_generate 0 (1024 * 100000000 + 1)) = 8%nat /\ tl_lvl (tl_generate 0 (1024 * 10000000000 + 1)) = 8%nat.
Proof. vm_compute. repeat split. Qed.
