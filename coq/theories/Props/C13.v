(* C13 — timeline.  Headline theorems only; lemmas in Proofs/TimelineProofs.v; model Model/Timeline.v.
   Times are 10 s slots since year 1; st_get calls tl_generate on the range rounded by s_normalize_unix. *)
From Pyro Require Import Model.Base Model.Tree Model.Segment Model.Timeline Model.Storage Proofs.SegmentProofs Proofs.SegStruct
  Proofs.TimelineProofs Proofs.StorageProofs Proofs.StorageCounters Proofs.TimelineCoarse Proofs.SegCountShare Proofs.TimelineEven
  Model.Float53 Proofs.SegCount Proofs.Float53Bound Proofs.TimelineBound.
Local Open Scope Z_scope.

Theorem C13_shape_start : forall a b, tl_st (tl_generate a b) = a.
Proof. exact tl_generate_start. Qed.
Print Assumptions C13_shape_start.

(* one entry per bucket: (b - a) / 10^lvl entries (truncating division, as Go's) *)
Theorem C13_shape_length : forall a b,
  length (tl_samples (tl_generate a b)) = Z.to_nat (Z.quot (b - a) (pow10 (tl_lvl (tl_generate a b)))).
Proof. exact tl_generate_length. Qed.
Print Assumptions C13_shape_length.

(* GenerateTimeline compares int64 nanoseconds: durations[l] < totalDuration/1024; in slots this is exactly
   1024 * 10^l < b - a *)
Theorem C13_level_test : forall a b l, a <= b ->
  (pow10 l * ns_per_slot <? Z.quot ((b - a) * ns_per_slot) 1024) = (1024 * pow10 l <? b - a).
Proof. exact level_test. Qed.
Print Assumptions C13_level_test.

(* bucket size = 10^lvl slots with lvl the largest l <= 8 such that 1024 * 10^l slots < range, 0 (10 s
   buckets) when there is none — i.e. 10 s buckets up to 10240 slots = 102400 s, about 28 h *)
Theorem C13_shape : forall a b, a <= b ->
  let lvl := tl_lvl (tl_generate a b) in
  (lvl <= 8)%nat /\
  (forall l, (l <= 8)%nat -> 1024 * pow10 l < b - a -> (l <= lvl)%nat) /\
  (lvl = O \/ 1024 * pow10 lvl < b - a).
Proof. exact tl_generate_level. Qed.
Print Assumptions C13_shape.

(* populating from any number of segments keeps start, end, bucket size and the number of entries *)
Theorem C13_populate_shape : forall (segs : list segment) tl,
  let tl' := fold_left (fun tl s => tl_populate s tl) segs tl in
  tl_st tl' = tl_st tl /\ tl_et tl' = tl_et tl /\ tl_lvl tl' = tl_lvl tl /\
  length (tl_samples tl') = length (tl_samples tl).
Proof. exact tl_populate_all_shape. Qed.
Print Assumptions C13_populate_shape.

(* C13_entries.  Full statement (DESIGN.md): with 10 s buckets, entry i = 0 iff no matching upload overlaps
   bucket i, else 1 + the samples ingested in it, summed over the matching series.
   Proved here is the structural half, for every well-formed segment tree (SegStruct.wf: what every
   history of valid writes produces, C03_reachable_wf): populating a 10 s timeline visits exactly the 10 s
   nodes inside the range and bumps the entry of each node's slot by the node's sample counter
   (first bump of an entry adds 1).  The other half — a 10 s node exists at slot t iff some upload covers t,
   and its counter is the sum of the uploads' (floating point) shares — is an invariant of s_put on the
   samples field that is not proved; the correspondence check CorrC13 carries it. *)
Theorem C13_entries_partial : forall lvl a b n buf, a < b -> wf lvl n ->
  tl_populate_node lvl a b 0 n buf = fold_left (bump_leaf a b) (leaves lvl n) buf.
Proof. exact populate_leaves. Qed.
Print Assumptions C13_entries_partial.

(* one bump touches exactly the entry of its slot: 0 becomes 1 + samples, x > 0 becomes x + samples *)
Theorem C13_bump_entry : forall i smp buf idx k, (k < length buf)%nat ->
  nth k (bump_range i (i + 1) smp idx buf) 0%N =
  if idx + Z.of_nat k =? i then ((if (nth k buf 0 =? 0)%N then 1 else nth k buf 0) + smp)%N else nth k buf 0%N.
Proof. exact bump_range_nth. Qed.
Print Assumptions C13_bump_entry.

Definition ex_ws : list write :=
  [ {| w_a := 6373559600; w_b := 6373559601; w_smp := 5%N; w_beta := 0 |};
    {| w_a := 6373559602; w_b := 6373559603; w_smp := 7%N; w_beta := 0 |};
    {| w_a := 6373559600; w_b := 6373559601; w_smp := 2%N; w_beta := 0 |} ].

Example C13_entries_nonvacuous :
  match s_root (fst (run_writes ex_ws)) with
  | Some (lvl, n) =>
      wf lvl n /\ leaves lvl n = [(6373559600, 7%N); (6373559602, 7%N)] /\
      tl_samples (tl_populate (fst (run_writes ex_ws)) (tl_generate 6373559599 6373559604)) = [0; 8; 0; 8; 0]%N
  | None => False
  end.
Proof.
  assert (Hok : seg_ok 63 (fst (run_writes ex_ws))).
  { apply run_writes_ok. unfold ex_ws. repeat (apply Forall_cons; [unfold valid_write, valid_range; cbn; lia|]). apply Forall_nil. }
  unfold seg_ok in Hok. destruct (s_root (fst (run_writes ex_ws))) as [[lvl n]|] eqn:E.
  - destruct Hok as (_ & Hwf & _). split; [exact Hwf|].
    assert (E' : s_root (fst (run_writes ex_ws)) = Some (lvl, n)) by exact E. vm_compute in E'. injection E' as <- <-.
    split; [vm_compute; reflexivity|]. vm_compute. reflexivity.
  - vm_compute in E. discriminate.
Qed.

(* C13_entries, one series, 10 s buckets: for every history of single-slot uploads with sample totals
   < 2^53 inside one epoch block, entry k of the timeline of [a,b) is 0 when no upload sits at slot a + k,
   and otherwise 1 + the samples of the uploads at that slot *)
Theorem C13_entries_single_series : forall K ws a b, Forall (valid_write K) ws -> single_slot ws ->
  Forall (fun w => (w_smp w < 2 ^ 53)%N) ws -> a < b -> tl_lvl (tl_generate a b) = O ->
  forall k, (k < Z.to_nat (b - a))%nat ->
  nth k (tl_samples (tl_populate (fst (run_writes ws)) (tl_generate a b))) 0%N =
  match at_slot (a + Z.of_nat k) ws with
  | [] => 0%N
  | l => (1 + smp_sum l)%N
  end.
Proof. exact entries_single_series. Qed.
Print Assumptions C13_entries_single_series.

(* C13_entries at storage level (10 s buckets, i.e. ranges up to 10240 slots): the timeline returned by
   st_get starts at the rounded range start, has one entry per slot, and entry k is 0 when no upload into a
   matching series sits at slot a + k, otherwise 1 + the total samples of those uploads (the uploads are
   listed series by series: ws kb [] pis are the uploads into series kb, w_smp = the profile's total) *)
Theorem C13_entries : forall K pis sel from until out,
  Forall (single_put K) pis -> Forall small_total pis ->
  let ab := s_normalize_unix (from, until) in
  fst ab < snd ab -> tl_lvl (tl_generate (fst ab) (snd ab)) = O ->
  st_get sel from until (st_after pis) = Some out ->
  tl_st (go_timeline out) = fst ab /\ length (tl_samples (go_timeline out)) = Z.to_nat (snd ab - fst ab) /\
  forall k, (k < Z.to_nat (snd ab - fst ab))%nat ->
    nth k (tl_samples (go_timeline out)) 0%N =
    entry_of (concat (map (fun ks => at_slot (fst ab + Z.of_nat k) (ws (sid_key (fst ks)) [] pis)) (st_matching sel (st_after pis)))).
Proof. exact timeline_entries. Qed.
Print Assumptions C13_entries.

(* C13_entries for the coarse buckets (tl_lvl = dl >= 1: 100 s, 1000 s, ... buckets of longer ranges) when the
   rounded range start lies on the bucket grid (a mod 10^dl = 0), single-slot uploads.  One series: entry j is
   0 when no upload falls into bucket j = [a + j*10^dl, a + (j+1)*10^dl), else 1 + the samples uploaded into it
   (cntj / smpj = number / samples of the writes whose slot lies in the bucket) *)
Theorem C13_entries_coarse_single_series : forall K ws a b, Forall (valid_write K) ws -> single_slot ws ->
  Forall (fun w => (w_smp w < 2 ^ 53)%N) ws -> a < b ->
  let dl := tl_lvl (tl_generate a b) in
  (1 <= dl)%nat -> a mod pow10 dl = 0 ->
  forall j, (j < length (tl_samples (tl_generate a b)))%nat ->
  nth j (tl_samples (tl_populate (fst (run_writes ws)) (tl_generate a b))) 0%N =
  if cntj ws (Lj a dl j) (Uj a dl j) =? 0 then 0%N else (1 + Z.to_N (smpj ws (Lj a dl j) (Uj a dl j)))%N.
Proof. exact coarse_single_series. Qed.
Print Assumptions C13_entries_coarse_single_series.

(* ... and at storage level, summed over all matching series: [ups] = the uploads into matching series that
   fall into bucket j *)
Theorem C13_entries_coarse : forall K pis sel from until out,
  Forall (single_put K) pis -> Forall small_total pis -> key_consistent pis ->
  let ab := s_normalize_unix (from, until) in
  let dl := tl_lvl (tl_generate (fst ab) (snd ab)) in
  fst ab < snd ab -> (1 <= dl)%nat -> fst ab mod pow10 dl = 0 ->
  st_get sel from until (st_after pis) = Some out ->
  forall j, (j < length (tl_samples (go_timeline out)))%nat ->
    let ups := filter (fun pi => sel_matches sel (pi_sid pi) && up_in (Lj (fst ab) dl j) (Uj (fst ab) dl j) pi) pis in
    nth j (tl_samples (go_timeline out)) 0%N =
    match ups with [] => 0%N | _ => (1 + sumN (map (fun pi => t_total (pi_tree pi)) ups))%N end.
Proof. exact timeline_entries_coarse. Qed.
Print Assumptions C13_entries_coarse.

(* C13_entries_even (the property's reading): uploads of 1..9 slots whose sample count is a multiple of the
   span (SegCountShare.even_upload, resting on Float53Share.share_exact_small_span), every bucket size, range
   start on the bucket grid (always true for 10 s buckets).  One series: entry j is 0 when no upload overlaps
   bucket j, else 1 + sum over the uploads of (slots of the upload inside the bucket) * (samples per slot).
   Oj / Sj: slots, resp. samples, of the writes inside [Lj, Uj) = bucket j. *)
Theorem C13_entries_even_single_series : forall K ws a b, Forall (valid_write K) ws -> Forall even_upload ws -> a < b ->
  let dl := tl_lvl (tl_generate a b) in
  a mod pow10 dl = 0 ->
  forall j, (j < length (tl_samples (tl_generate a b)))%nat ->
  nth j (tl_samples (tl_populate (fst (run_writes ws)) (tl_generate a b))) 0%N =
  if Oj ws (Lj a dl j) (Uj a dl j) =? 0 then 0%N else (1 + Z.to_N (Sj ws (Lj a dl j) (Uj a dl j)))%N.
Proof. exact even_single_series. Qed.
Print Assumptions C13_entries_even_single_series.

(* ... at storage level: [ups] = the uploads into matching series; up_ov = slots of an upload inside the
   bucket, up_smp = up_ov * (total / span) *)
Theorem C13_entries_even : forall K pis sel from until out,
  Forall (even_put K) pis -> key_consistent pis ->
  let ab := s_normalize_unix (from, until) in
  let dl := tl_lvl (tl_generate (fst ab) (snd ab)) in
  fst ab < snd ab -> fst ab mod pow10 dl = 0 ->
  st_get sel from until (st_after pis) = Some out ->
  forall j, (j < length (tl_samples (go_timeline out)))%nat ->
    let lo := Lj (fst ab) dl j in let hi := Uj (fst ab) dl j in
    let ups := filter (fun pi => sel_matches sel (pi_sid pi)) pis in
    nth j (tl_samples (go_timeline out)) 0%N =
    if sumZ (map (up_ov lo hi) ups) =? 0 then 0%N else (1 + Z.to_N (sumZ (map (up_smp lo hi) ups)))%N.
Proof. exact timeline_entries_even. Qed.
Print Assumptions C13_entries_even.

(* Not proved: uploads of 10 or more slots (C13_long_write: the statement is false there, see
   Float53Share.share_exact_span10_refuted for the arithmetic and DESIGN.md for the aligned-bucket case), counts
   not divisible by the span (binary64 shares), range starts off the bucket grid (outside the property). *)

Example C13_entries_even_nonvacuous :
  let mk := fun (f u : Z) (v : N) =>
    {| pi_sid := {| sid_key := [97;123;125]%N; sid_app := [97]%N; sid_tags := [] |}; pi_from := f; pi_until := u;
       pi_tree := t_insert [97]%N v t_empty;
       pi_meta := {| m_spy := []; m_rate := 100%N; m_units := []; m_agg := [115;117;109]%N |} |} in
  let sel := {| sid_key := [97;123;125]%N; sid_app := [97]%N; sid_tags := [] |} in
  (* 3 slots x 4 samples starting at slot 1; 2 slots x 5 samples at slots 2,3 *)
  let pis := [mk 1600000010 1600000040 12%N; mk 1600000020 1600000040 10%N] in
  Forall (even_put 63) pis /\
  match st_get sel 1600000000 1600000050 (st_after pis) with
  | Some out => tl_samples (go_timeline out) = [0; 5; 10; 10; 0]%N
  | None => False
  end.
Proof.
  cbv zeta. split.
  - repeat (apply Forall_cons; [split; [apply exact_putb_ok; vm_compute; reflexivity|split; vm_compute; reflexivity]|]). apply Forall_nil.
  - vm_compute. reflexivity.
Qed.

Example C13_entries_coarse_nonvacuous :
  let mk := fun (f : Z) (v : N) =>
    {| pi_sid := {| sid_key := [97;123;125]%N; sid_app := [97]%N; sid_tags := [] |}; pi_from := f; pi_until := f + 10;
       pi_tree := t_insert [97]%N v t_empty;
       pi_meta := {| m_spy := []; m_rate := 100%N; m_units := []; m_agg := [115;117;109]%N |} |} in
  let sel := {| sid_key := [97;123;125]%N; sid_app := [97]%N; sid_tags := [] |} in
  let pis := [mk 1600000030 5%N; mk 1600000070 7%N; mk 1600000250 2%N] in
  Forall (single_put 63) pis /\ Forall small_total pis /\
  match st_get sel 1600000000 1600102500 (st_after pis) with
  | Some out => tl_lvl (go_timeline out) = 1%nat /\ length (tl_samples (go_timeline out)) = 1025%nat /\
                firstn 4 (tl_samples (go_timeline out)) = [13; 0; 3; 0]%N
  | None => False
  end.
Proof.
  cbv zeta. split; [|split].
  - repeat (apply Forall_cons; [split; [apply exact_putb_ok; vm_compute; reflexivity|vm_compute; reflexivity]|]). apply Forall_nil.
  - repeat (apply Forall_cons; [vm_compute; reflexivity|]). apply Forall_nil.
  - vm_compute. repeat split.
Qed.

Example C13_entries_storage_nonvacuous :
  let mk := fun (s : sid) (f : Z) (v : N) =>
    {| pi_sid := s; pi_from := f; pi_until := f + 10; pi_tree := t_insert [97]%N v t_empty;
       pi_meta := {| m_spy := []; m_rate := 100%N; m_units := []; m_agg := [115;117;109]%N |} |} in
  let s1 := {| sid_key := [97;123;120;61;49;125]%N; sid_app := [97]%N; sid_tags := [([120], [49])]%N |} in
  let s2 := {| sid_key := [97;123;120;61;50;125]%N; sid_app := [97]%N; sid_tags := [([120], [50])]%N |} in
  let sel := {| sid_key := [97;123;125]%N; sid_app := [97]%N; sid_tags := [] |} in
  let pis := [mk s1 1600000000 5%N; mk s2 1600000000 7%N; mk s1 1600000020 2%N] in
  Forall (single_put 63) pis /\ Forall small_total pis /\
  match st_get sel 1600000000 1600000040 (st_after pis) with
  | Some out => tl_samples (go_timeline out) = [13; 0; 3; 0]%N
  | None => False
  end.
Proof.
  cbv zeta. split; [|split].
  - repeat (apply Forall_cons; [split; [apply exact_putb_ok; vm_compute; reflexivity|vm_compute; reflexivity]|]). apply Forall_nil.
  - repeat (apply Forall_cons; [vm_compute; reflexivity|]). apply Forall_nil.
  - vm_compute. reflexivity.
Qed.

Example C13_shape_nonvacuous :
  (* 10240 slots: still 10 s buckets, 10240 entries; 10241 slots: 100 s buckets, 1024 entries *)
  tl_lvl (tl_generate 6373559600 (6373559600 + 10240)) = 0%nat /\
  length (tl_samples (tl_generate 6373559600 (6373559600 + 10240))) = 10240%nat /\
  tl_lvl (tl_generate 6373559600 (6373559600 + 10241)) = 1%nat /\
  length (tl_samples (tl_generate 6373559600 (6373559600 + 10241))) = 1024%nat /\
  tl_lvl (tl_generate 0 (1024 * 100000000 + 1)) = 8%nat /\ tl_lvl (tl_generate 0 (1024 * 10000000000 + 1)) = 8%nat.
Proof. vm_compute. repeat split. Qed.

(* ------------------------------------------------------------------------------------------ *)
(* Counts that are NOT a multiple of the span: the bound (exactness is C13_entries_even).       *)

(* for ANY span n >= 1, any m slots of it in a bucket and any count c < 2^52, the counter increment
   uint64(float64(c) * RN(m/n)) lies strictly between c*m/n - 2 and c*m/n + 1, i.e. within 1 of floor(c*m/n)
   (two roundings to nearest, then truncation; attained from below: n=10, m=7, c=90 gives 62) *)
Theorem C13_share_bound : forall (n m : Z) (c : N), 1 <= m <= n -> (c < 2 ^ 52)%N ->
  let x := Z.of_N (samples_incr c m n) in
  Z.of_N c * m - 2 * n < n * x < Z.of_N c * m + n /\
  Z.of_N c * m / n - 1 <= x <= Z.of_N c * m / n + 1.
Proof. exact share_bound. Qed.
Print Assumptions C13_share_bound.

(* the sample counter of every bucket of the tree is within (number of uploads meeting it) of the sum of the
   floors of their exact shares — any spans, any counts below 2^52 *)
Theorem C13_counter_bound : forall H lvl t, Forall bounded_write H ->
  Z.abs (Z.of_N (ssum H lvl t) - sumZ (map (fshare lvl t) (filter (meets lvl t) H))) <= Z.of_N (nmeet H lvl t).
Proof. exact ssum_bound. Qed.
Print Assumptions C13_counter_bound.

(* C13_entries_bound (one series, 10 s buckets, uploads of 1..9 slots with ARBITRARY counts below 2^52):
   entry k is 0 iff no upload covers slot a+k; otherwise it is within k' of 1 + the sum over the k' covering
   uploads of floor(c_w / n_w) (the exact per-slot share rounded down) *)
Theorem C13_entries_bound : forall K ws a b, Forall (valid_write K) ws -> short_ws ws ->
  Forall (fun w => (w_smp w < 2 ^ 52)%N) ws -> a < b -> tl_lvl (tl_generate a b) = O ->
  forall k, (k < Z.to_nat (b - a))%nat ->
  let t := a + Z.of_nat k in
  let e := Z.of_N (nth k (tl_samples (tl_populate (fst (run_writes ws)) (tl_generate a b))) 0%N) in
  let cover := filter (meets 0 t) ws in
  (cover = [] -> e = 0) /\
  (cover <> [] -> Z.abs (e - (1 + sumZ (map (fshare 0 t) cover))) <= Z.of_nat (length cover)).
Proof. exact entries_bound_single_series. Qed.
Print Assumptions C13_entries_bound.

(* non-vacuity: three slots, 100 samples (not a multiple of 3): the three entries are 34, 34, 34 = 1 + 33 each *)
Definition bound_ws : list write := [ {| w_a := 6321559688; w_b := 6321559691; w_smp := 100%N; w_beta := 1 |} ].
Example C13_entries_bound_nonvacuous :
  Forall (valid_write 63) bound_ws /\ short_ws bound_ws /\ Forall (fun w => (w_smp w < 2 ^ 52)%N) bound_ws /\
  tl_lvl (tl_generate 6321559680 6321559700) = O /\
  map (fun k => nth k (tl_samples (tl_populate (fst (run_writes bound_ws)) (tl_generate 6321559680 6321559700))) 0%N) [7; 8; 9; 10; 11]%nat
    = [0; 34; 34; 34; 0]%N /\
  fshare 0 6321559688 {| w_a := 6321559688; w_b := 6321559691; w_smp := 100%N; w_beta := 1 |} = 33.
Proof.
  split; [repeat constructor; cbn; unfold pow10; cbn; lia|].
  split; [repeat constructor; cbn; lia|]. split; [repeat constructor; cbn; lia|].
  split; [vm_compute; reflexivity|]. split; vm_compute; reflexivity.
Qed.
