(* C13 — timeline.  Headline theorems only. *)
From Pyro Require Import Model.Base Model.Segment Model.Timeline Proofs.TimelineProofs.

Theorem C13_shape_start : forall a b, tl_st (tl_generate a b) = a.
Proof. exact tl_generate_start. Qed.
Print Assumptions C13_shape_start.
