(* C17 — time expressions, durations and sizes typed by users mean what they say.  Headline theorems only.
   Models: Model/TimeParse.v (byte level; int64/uint64 wraps explicit; binary64 as exactly rounded rationals). *)
From Pyro Require Import Model.Base Model.TimeParse Proofs.TimeParseProofs Proofs.C17BytesizeRoundtrip.
Local Open Scope Z_scope.

(* ---------------------------------------------------------------------------------------------------------------- *)
(* attime *)

(* parsing never fails or panics: the literal index/slice model of Parse/parseTimeOffset (None = a slice expression out of
   range, or the loop not terminating) returns a time for every byte string *)
Theorem attime_total : forall now s, exists t, attime_parse now s = Some t.
Proof. exact attime_total_lemma. Qed.
Print Assumptions attime_total.

(* an all-digit argument (after removal of white space, '_', ',') is a Unix timestamp in seconds — an int holds at most
   MaxInt64, larger values are clamped by strconv — unless it is a plausible 8-digit YYYYMMDD date (year > 1900, valid
   month and day of that month), which is UTC midnight of that date *)
Theorem attime_digits : forall now s ds,
  attime_clean s = ds -> ds <> [] -> forallb is_digit ds = true ->
  attime_parse now s =
    Some (1000000000 * (if plausible_date ds then date_seconds ds else Z.min (digits_val ds) max_int64)).
Proof. exact attime_digits_lemma. Qed.
Print Assumptions attime_digits.

Example attime_digits_nonvacuous :
  attime_clean (bs " 2021_02,28 ") = bs "20210228" /\ plausible_date (bs "20210228") = true /\
  date_seconds (bs "20210228") = 1614470400 /\ plausible_date (bs "20210230") = false /\ plausible_date (bs "19000101") = false.
Proof. vm_compute. repeat split; reflexivity. Qed.

(* a relative expression  ref (+|-) n1 u1 n2 u2 ... nk uk  (any k; separators and surrounding white space anywhere) is
   now +- the sum of all its terms, in int64 nanoseconds (the wrap is explicit) *)
Theorem attime_relative : forall now s ref sg ts,
  attime_clean s = ref ++ sg :: render_terms ts ->
  (sg = 43%N \/ sg = 45%N) ->
  no_byte 43 ref -> no_byte 45 ref ->
  Forall term_ok ts -> Forall (fun t => no_byte 43 (snd t)) ts ->
  attime_parse now s = Some (now + wrap64 (1000000000 * (sign_val sg * terms_seconds ts))).
Proof. exact attime_relative_lemma. Qed.
Print Assumptions attime_relative.

(* ... and exactly now +- sum when the sum fits into an int64 number of nanoseconds (about 292 years) *)
Theorem attime_relative_exact : forall now s ref sg ts,
  attime_clean s = ref ++ sg :: render_terms ts ->
  (sg = 43%N \/ sg = 45%N) ->
  no_byte 43 ref -> no_byte 45 ref ->
  Forall term_ok ts -> Forall (fun t => no_byte 43 (snd t)) ts ->
  - two63 <= 1000000000 * terms_seconds ts < two63 ->
  attime_parse now s = Some (now + sign_val sg * (1000000000 * terms_seconds ts)).
Proof. exact attime_relative_exact_lemma. Qed.
Print Assumptions attime_relative_exact.

(* terms_seconds multiplies each number (go_atoi = its decimal value below 2^63) by get_unit_multiplier of the spelling;
   the documented spellings have the documented lengths, and so has every spelling with one of the prefixes *)
Theorem attime_units_documented : Forall (fun p => get_unit_multiplier (fst p) = snd p) doc_unit_table.
Proof. exact doc_unit_table_sound. Qed.
Print Assumptions attime_units_documented.

Theorem attime_number_value : forall ds, ds <> [] -> forallb is_digit ds = true -> digits_val ds < two63 ->
  go_atoi ds = digits_val ds.
Proof. exact go_atoi_small. Qed.
Print Assumptions attime_number_value.

Theorem attime_unit_prefixes : forall r,
  get_unit_multiplier (115 :: r)%N = 1 /\ get_unit_multiplier (109 :: 105 :: 110 :: r)%N = 60 /\
  get_unit_multiplier (104 :: r)%N = 3600 /\ get_unit_multiplier (100 :: r)%N = 86400 /\
  get_unit_multiplier (119 :: r)%N = 604800 /\ get_unit_multiplier (109 :: 111 :: 110 :: r)%N = 2592000 /\
  get_unit_multiplier (121 :: r)%N = 31536000.
Proof. intros r. repeat split; reflexivity. Qed.
Print Assumptions attime_unit_prefixes.

Example attime_relative_nonvacuous :
  let ts := [(bs "1", bs "h"); (bs "30", bs "min")] in
  attime_clean (bs " now - 1h_30,min ") = (bs "now" ++ 45%N :: render_terms ts)%list /\
  no_byte 43 (bs "now") /\ no_byte 45 (bs "now") /\ Forall term_ok ts /\ Forall (fun t => no_byte 43 (snd t)) ts /\
  1000000000 * terms_seconds ts = 5400000000000 /\
  attime_parse 7 (bs " now - 1h_30,min ") = Some (7 - 5400000000000).
Proof.
  cbv zeta. repeat split; try (vm_compute; reflexivity); try (repeat constructor; vm_compute; congruence);
    try (repeat constructor).
Qed.

(* spaces, underscores and commas are ignored: the result depends on the cleaned argument only, and inserting a
   separator anywhere inside an argument (not changing what TrimSpace sees at the ends) changes nothing *)
Theorem attime_separators_ignored : forall now s s', attime_clean s = attime_clean s' -> attime_parse now s = attime_parse now s'.
Proof. exact attime_depends_on_clean. Qed.
Print Assumptions attime_separators_ignored.

Theorem attime_separator_insert : forall now a sep b, is_sep sep = true ->
  trim_space (a ++ sep :: b) = a ++ sep :: b -> trim_space (a ++ b) = a ++ b ->
  attime_parse now (a ++ sep :: b) = attime_parse now (a ++ b).
Proof. exact TimeParseProofs.attime_separator_insert. Qed.
Print Assumptions attime_separator_insert.

Example attime_separator_insert_nonvacuous :
  is_sep 95 = true /\ is_sep 44 = true /\ is_sep 32 = true /\
  trim_space (bs "now-1" ++ 95%N :: bs "000s")%list = (bs "now-1" ++ 95%N :: bs "000s")%list /\
  trim_space (bs "now-1" ++ bs "000s")%list = (bs "now-1" ++ bs "000s")%list.
Proof. vm_compute. repeat split; reflexivity. Qed.

(* ---------------------------------------------------------------------------------------------------------------- *)
(* durations *)

(* Full statement (false of the code, see duration_equiv_refuted):
     forall s, no_dMy s -> pyro_parse_duration s = std_parse_duration s.
   The copy predates the standard library's uint64 rewrite: Go 1.23 admits the magnitude 1<<63 in every accumulator (so that
   MinInt64 parses) and, as a side effect, wraps 2^63 + 2^63 to 0; the copy rejects both. *)
Theorem duration_equiv_refuted :
  exists s, no_dMy s /\ std_parse_duration s = POk (- two63) /\ pyro_parse_duration s = PErr.
Proof. exists (bs "-9223372036854775808ns"). vm_compute. repeat split; reflexivity. Qed.
Print Assumptions duration_equiv_refuted.

Theorem duration_equiv_wrap_refuted :
  exists s, no_dMy s /\ std_parse_duration s = POk 0 /\ pyro_parse_duration s = PErr.
Proof. exists (bs "9223372036854775808ns9223372036854775808ns"). vm_compute. repeat split; reflexivity. Qed.
Print Assumptions duration_equiv_wrap_refuted.

(* Partial: for EVERY string without the bytes d, M, y (fractions included) — added hypotheses: (1) the admission of the
   magnitude 1<<63 plays no role in the standard parser's run (lowering the admitted magnitude to 1<<63 - 1 leaves its
   answer unchanged; this excludes exactly the finding above); (2) the copy's float -> int64 conversion of a fraction stays
   in range (Go leaves an out-of-range conversion implementation-defined; the model flags it as PImplDefined; no input
   reaching it is known and the correspondence run reports one if it occurs) —
   the copy accepts exactly what the standard parser accepts, with the same value *)
Theorem duration_equiv_partial : forall s, no_dMy s ->
  std_parse_duration_b max_int64 s = std_parse_duration s ->
  pyro_parse_duration s <> PImplDefined ->
  pyro_parse_duration s = std_parse_duration s.
Proof. exact duration_equiv_frac_lemma. Qed.
Print Assumptions duration_equiv_partial.

(* without a '.', hypothesis (2) is not needed *)
Theorem duration_equiv_partial_nofraction : forall s, no_dMy s -> no_dot s ->
  std_parse_duration_b max_int64 s = std_parse_duration s ->
  pyro_parse_duration s = std_parse_duration s.
Proof. exact duration_equiv_lemma. Qed.
Print Assumptions duration_equiv_partial_nofraction.

Example duration_equiv_partial_nonvacuous :
  let s := bs "-2h45m30.5s1.25ms" in
  no_dMy s /\ std_parse_duration_b max_int64 s = std_parse_duration s /\ pyro_parse_duration s <> PImplDefined /\
  std_parse_duration s = POk (-9930501250000).
Proof. vm_compute. repeat split; try reflexivity; discriminate. Qed.

Example duration_equiv_partial_nofraction_nonvacuous :
  let s := bs "-2h45m30s500ms" in
  no_dMy s /\ no_dot s /\ std_parse_duration_b max_int64 s = std_parse_duration s /\ std_parse_duration s = POk (-9930500000000).
Proof. vm_compute. repeat split; reflexivity. Qed.

(* the extra units are 24 h, 720 h, 8760 h, and integer terms over the whole unit table add up (any number of terms) *)
Theorem duration_extra_units :
  pyro_unit (bs "d") = Some (24 * ns_h) /\ pyro_unit (bs "M") = Some (720 * ns_h) /\ pyro_unit (bs "y") = Some (8760 * ns_h) /\
  (forall u x, std_unit u = Some x -> pyro_unit u = Some x).
Proof.
  repeat split; try reflexivity. intros u x H. unfold pyro_unit. rewrite H. reflexivity.
Qed.
Print Assumptions duration_extra_units.

Theorem duration_terms_add : forall ts, ts <> [] -> Forall dterm_ok ts -> dterms_total ts <= max_int64 ->
  pyro_parse_duration (render_terms ts) = POk (dterms_total ts).
Proof. exact duration_terms_lemma. Qed.
Print Assumptions duration_terms_add.

Example duration_terms_add_nonvacuous :
  let ts := [(bs "30", bs "d"); (bs "12", bs "h")] in
  render_terms ts = bs "30d12h" /\ dterms_total ts = 732 * ns_h /\ dterms_total ts <= max_int64 /\
  pyro_parse_duration (bs "30d12h") = POk (732 * ns_h).
Proof. vm_compute. repeat split; try reflexivity; discriminate. Qed.

Example duration_terms_ok_nonvacuous : Forall dterm_ok [(bs "30", bs "d"); (bs "12", bs "h")].
Proof.
  repeat constructor; try (vm_compute; congruence); try (vm_compute; reflexivity); eexists; vm_compute; reflexivity.
Qed.

(* ---------------------------------------------------------------------------------------------------------------- *)
(* sizes *)

(* integer number, optional white space, unit (any spelling that lower-cases into the table: binary KB..PB, decimal
   KiB..PiB, b, nothing): number times unit, and an error exactly when the product exceeds MaxInt64 (overflow explicit) *)
Theorem bytesize_spec : forall ds ws u m,
  ds <> [] -> forallb is_digit ds = true -> forallb re_space ws = true ->
  forallb (fun c => negb (is_digit c)) u = true ->
  starts_with (fun c => negb (num_char c) && negb (re_space c)) u ->
  trim_space (ds ++ ws ++ u) = ds ++ ws ++ u ->
  bs_multiplier (lower_for_lookup (length u) u) = Some m ->
  bytesize_parse (ds ++ ws ++ u) =
    if digits_val ds * m <=? max_int64 then Some (digits_val ds * m) else None.
Proof. exact bytesize_int_lemma. Qed.
Print Assumptions bytesize_spec.

Theorem bytesize_units :
  map (fun u => bs_multiplier (lower_for_lookup (length (bs u)) (bs u)))
      ["Kb"; "MB"; "gB"; "tb"; "PB"; "KiB"; "mib"; "GIB"; "TiB"; "pIb"; "B"; ""]%string =
  [Some (1024); Some (1024^2); Some (1024^3); Some (1024^4); Some (1024^5);
   Some (1000); Some (1000^2); Some (1000^3); Some (1000^4); Some (1000^5); Some 1; Some 1].
Proof. vm_compute. reflexivity. Qed.
Print Assumptions bytesize_units.

Example bytesize_spec_nonvacuous :
  let ds := bs "100" in let ws := bs " " in let u := bs "MiB" in
  trim_space (ds ++ ws ++ u) = (ds ++ ws ++ u)%list /\ bs_multiplier (lower_for_lookup (length u) u) = Some (1000^2) /\
  bytesize_parse (bs "100 MiB") = Some 100000000 /\
  bytesize_parse (bs "18446744073709551615") = None /\ bytesize_parse (bs "-5KB") = None /\
  bytesize_parse (bs "1.5 KB") = Some 1536 /\ bytesize_parse (bs "8192PB") = None.
Proof. vm_compute. repeat split; reflexivity. Qed.

(* negatives and junk are rejected: whatever does not start (after TrimSpace) with a digit or '.' is an error *)
Theorem bytesize_rejects : forall s c r, trim_space s = c :: r -> num_char c = false -> bytesize_parse s = None.
Proof. exact bytesize_rejects_lemma. Qed.
Print Assumptions bytesize_rejects.

Example bytesize_rejects_nonvacuous :
  trim_space (bs " -5KB") = bs "-5KB" /\ num_char 45 = false /\ bytesize_parse (bs "1.2.3MB") = None /\
  bytesize_parse (bs "5 K B") = None /\ bytesize_parse (bs "1e3") = None /\ bytesize_parse (bs "") = None.
Proof. vm_compute. repeat split; reflexivity. Qed.

(* The print/parse round trip (Proofs/C17BytesizeRoundtrip.v).  Full statement of the property: for every b >= 1 KB the
   printed text parses back to within its printed precision.  It is false at the top of the range
   (bytesize_print_parse_refuted below: sizes printing as "8192.00 PB").  Proved: for every b from 1 KB up to
   2^63 - 0.005 PB - b/2^47 - 2 (the last ~66 000 sizes below the first one that prints as 8192.00 PB are not covered: the
   coarse float slack is also needed as head room for Parse's overflow test), the text is "<I>.<dd> <U>" with U one of
   KB..PB (m = its size), it parses, and
       |b' - b|  <=  m/200   (half a unit of the last printed digit: the %.2f rounding)
                   +  2      (the truncation to an integer; rounding of the bound itself)
                   +  b/2^47 (binary64: float64(b), ParseFloat of the decimal and the product with float64(m) are each
                              within a relative 2^-51 of their argument — the coarse bound proved for the rounding function
                              rne of the model, which rounds to nearest even at 53 bits; 2^-53 holds but is not needed).
   For b < 2^47 the last term is 0. *)
Theorem bytesize_print_parse : forall b, 1024 <= b -> b + 1024 ^ 5 / 200 + b / 2 ^ 47 + 2 <= 2 ^ 63 ->
  exists b' K m, In ([K; 66%N], m) sfx_table /\
    (exists num, bytesize_print b = num ++ 32%N :: [K; 66%N]) /\
    bytesize_parse (bytesize_print b) = Some b' /\
    Z.abs (b' - b) * 200 <= m + 400 + 200 * (b / 2 ^ 47).
Proof. exact roundtrip_lemma. Qed.
Print Assumptions bytesize_print_parse.

Example bytesize_print_parse_nonvacuous :
  1024 <= 123456789 /\ 123456789 + 1024 ^ 5 / 200 + 123456789 / 2 ^ 47 + 2 <= 2 ^ 63 /\
  bytesize_print 123456789 = bs "117.74 MB" /\ bytesize_parse (bs "117.74 MB") = Some 123459338 /\
  9223366407355175957 + 1024 ^ 5 / 200 + 9223366407355175957 / 2 ^ 47 + 2 <= 2 ^ 63.
Proof. vm_compute. repeat split; try reflexivity; discriminate. Qed.

Theorem bytesize_print_parse_refuted :
  exists b, 1024 <= b <= max_int64 /\ bytesize_print b = bs "8192.00 PB" /\ bytesize_parse (bytesize_print b) = None.
Proof. exists max_int64. vm_compute. repeat split; try reflexivity; discriminate. Qed.
Print Assumptions bytesize_print_parse_refuted.

(* the boundary of that finding: the largest size that still prints below 8192.00 PB parses back within the bound *)
Example ex_bytesize_print_boundary :
  bytesize_print 9223366407355241983 = bs "8191.99 PB" /\
  bytesize_print 9223366407355241984 = bs "8192.00 PB" /\
  bytesize_parse (bs "8191.99 PB") = Some 9223360777855707136.
Proof. vm_compute. repeat split; reflexivity. Qed.
