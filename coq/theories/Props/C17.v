(* C17 — time expressions, durations and sizes.  Headline theorems only. *)
From Pyro Require Import Model.Base Model.TimeParse.

Example ex_d6_nonvacuous :
  attime_parse 0%Z [110;111;119;45;49;104;51;48;109;105;110] = Some (-5400000000000)%Z.
Proof. vm_compute. reflexivity. Qed.
