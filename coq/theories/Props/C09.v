(* C09 — merging profiles is plain addition, in any order and at any parallelism.
   Headline theorems only; the lemmas are in Proofs/TreeProofs.v, the model in Model/Tree.v.
   All theorems range over all trees / families / worker counts / schedules (no size bound).
   Hypotheses: t_wfb (children strictly sorted by name, which Insert/Merge/Clone establish and keep:
   C09_insert_wf, C09_merge_wf, C09_clone_wf, C09_build_ok) and, for statements about several trees,
   equal root names (every tree.New() root is named ""; C09_build_ok).  Values are unbounded N: sums and
   products below 2^64 are an assumption recorded in bin/props.d/C09.json.
   "Leaves the source untouched" has no content in a pure model; it is tested on the implementation. *)
From Pyro Require Import Model.Base Model.Tree Proofs.TreeProofs.
From Coq Require Import Permutation.

(* ---- (1) merge adds self and total stack by stack; nothing else changes ------------------- *)

Theorem C09_merge_at : forall s d p, t_wfb d = true -> t_wfb s = true ->
  t_at p (t_merge d s) = oplus (t_at p d) (t_at p s).
Proof. exact t_merge_at. Qed.
Print Assumptions C09_merge_at.

Theorem C09_merge_self : forall a b p, t_wfb a = true -> t_wfb b = true ->
  t_self_at p (t_merge a b) = t_self_at p a + t_self_at p b.
Proof. exact t_merge_self_at. Qed.
Print Assumptions C09_merge_self.

Theorem C09_merge_total : forall a b p, t_wfb a = true -> t_wfb b = true ->
  t_total_at p (t_merge a b) = t_total_at p a + t_total_at p b.
Proof. exact t_merge_total_at. Qed.
Print Assumptions C09_merge_total.

Theorem C09_merge_no_new_stack : forall a b p, t_wfb a = true -> t_wfb b = true ->
  (t_at p (t_merge a b) = None <-> t_at p a = None /\ t_at p b = None).
Proof. exact t_merge_at_none. Qed.
Print Assumptions C09_merge_no_new_stack.

Theorem C09_merge_wf : forall s d, t_wfb d = true -> t_wfb s = true -> t_wfb (t_merge d s) = true.
Proof. exact t_merge_wfb. Qed.
Print Assumptions C09_merge_wf.

Definition ex_a : tnode := fold_left (fun t kv => t_insert (fst kv) (snd kv) t)
  [([97;59;98], 3); ([97;59;99], 2); ([111;116;104;101;114], 1)] t_empty.      (* a;b 3  a;c 2  other 1 *)
Definition ex_b : tnode := fold_left (fun t kv => t_insert (fst kv) (snd kv) t)
  [([97;59;98], 4); ([122], 7); ([97], 5)] t_empty.                               (* a;b 4  z 7  a 5 *)
Definition ex_c : tnode := fold_left (fun t kv => t_insert (fst kv) (snd kv) t)
  [([97;59;98;59;100], 1); ([], 2)] t_empty.                                      (* a;b;d 1  "" 2 *)

Example C09_merge_at_nonvacuous :
  t_wfb ex_a = true /\ t_wfb ex_b = true /\
  t_at [[97];[98]] ex_a = Some (3, 3) /\ t_at [[97];[98]] ex_b = Some (4, 4) /\
  t_at [[97];[98]] (t_merge ex_a ex_b) = Some (7, 7) /\
  t_at [[97]] (t_merge ex_a ex_b) = Some (5, 14) /\
  t_at [[122]] ex_a = None /\ t_at [[122]] (t_merge ex_a ex_b) = Some (7, 7).
Proof. vm_compute. repeat split. Qed.

(* ---- (2) extensionality; commutativity and associativity as structural equalities ---------- *)

Theorem C09_ext : forall a b, t_wfb a = true -> t_wfb b = true -> t_name a = t_name b ->
  (forall p, t_at p a = t_at p b) -> a = b.
Proof. exact t_ext. Qed.
Print Assumptions C09_ext.

Theorem merge_comm : forall a b, t_wfb a = true -> t_wfb b = true -> t_name a = t_name b ->
  t_merge a b = t_merge b a.
Proof. exact t_merge_comm. Qed.
Print Assumptions merge_comm.

Theorem merge_assoc : forall a b c, t_wfb a = true -> t_wfb b = true -> t_wfb c = true ->
  t_merge (t_merge a b) c = t_merge a (t_merge b c).
Proof. exact t_merge_assoc. Qed.
Print Assumptions merge_assoc.

Example merge_comm_nonvacuous :
  t_wfb ex_a = true /\ t_wfb ex_b = true /\ t_wfb ex_c = true /\ t_name ex_a = t_name ex_b /\
  ex_a <> ex_b /\ t_size (t_merge ex_a ex_b) = 6%nat /\
  t_eqb (t_merge ex_a ex_b) (t_merge ex_b ex_a) = true /\
  t_eqb (t_merge (t_merge ex_a ex_b) ex_c) (t_merge ex_a (t_merge ex_b ex_c)) = true.
Proof.
  repeat split; try (vm_compute; reflexivity).
  intros H. vm_compute in H. discriminate H.
Qed.

(* merge order: the serial fold of a family does not depend on the order of the family *)
Theorem C09_order_independent : forall n l l',
  Forall (fun t => t_wfb t = true /\ t_name t = n) l -> Permutation l l' ->
  merge_serial l = merge_serial l'.
Proof. exact merge_serial_perm. Qed.
Print Assumptions C09_order_independent.

(* ---- (3) the parallel merge returns exactly the serial merge ------------------------------ *)
(* For every worker count (conc >= 1 is not even needed for the equality), every schedule of the
   pool model and every family of well-formed trees with one root name. *)
Theorem C09_parallel : forall conc sched n tries t,
  Forall (fun t => t_wfb t = true /\ t_name t = n) tries ->
  pool_run conc sched tries = Some t -> Some t = merge_serial tries.
Proof. exact pool_parallel. Qed.
Print Assumptions C09_parallel.

(* ... and the hypothesis "pool_run = Some t" holds for every schedule that makes one choice per merge
   (MergeTriesConcurrently loops exactly len(tries)-1 times) as soon as there is one worker. *)
Theorem C09_parallel_total : forall conc sched tries,
  (1 <= conc)%nat -> tries <> [] -> length sched = (length tries - 1)%nat ->
  exists t, pool_run conc sched tries = Some t.
Proof. exact pool_run_total. Qed.
Print Assumptions C09_parallel_total.

Example C09_parallel_nonvacuous :
  Forall (fun t => t_wfb t = true /\ t_name t = []) [ex_a; ex_b; ex_c; ex_a] /\
  pool_run 2 [1%nat; 0%nat; 5%nat] [ex_a; ex_b; ex_c; ex_a] = merge_serial [ex_a; ex_b; ex_c; ex_a] /\
  (exists t, pool_run 2 [1%nat; 0%nat; 5%nat] [ex_a; ex_b; ex_c; ex_a] = Some t /\ t_total t = 31) /\
  (* the schedule matters for the bracketing: two different schedules pair different trees *)
  ps_pool (pool_round 2 1 {| ps_pool := [ex_a; ex_b; ex_c; ex_a]; ps_fly := [] |}) <>
  ps_pool (pool_round 2 0 {| ps_pool := [ex_a; ex_b; ex_c; ex_a]; ps_fly := [] |}).
Proof.
  split; [repeat constructor|]. split; [vm_compute; reflexivity|]. split.
  - eexists. split; vm_compute; reflexivity.
  - vm_compute. discriminate.
Qed.

(* ---- (4) consistency ---------------------------------------------------------------------- *)

Theorem C09_insert_total : forall p v t, t_total (t_insert_path p v t) = t_total t + v.
Proof. exact t_insert_path_total. Qed.
Print Assumptions C09_insert_total.

Theorem C09_insert_exact : forall key v t, t_exactb t = true -> t_exactb (t_insert key v t) = true.
Proof. exact t_insert_exact. Qed.
Print Assumptions C09_insert_exact.

Theorem C09_insert_wf : forall key v t, t_wfb t = true -> t_wfb (t_insert key v t) = true.
Proof. exact t_insert_wfb. Qed.
Print Assumptions C09_insert_wf.

Theorem C09_merge_exact : forall d s, t_exactb d = true -> t_exactb s = true -> t_exactb (t_merge d s) = true.
Proof. exact t_merge_exact. Qed.
Print Assumptions C09_merge_exact.

(* every tree built by Insert calls on tree.New() is well formed, exact and has the root name "" *)
Theorem C09_build_ok : forall ss : list (bytes * N),
  let t := fold_left (fun t kv => t_insert (fst kv) (snd kv) t) ss t_empty in
  t_wfb t = true /\ t_exactb t = true /\ t_name t = [].
Proof. exact t_build_ok. Qed.
Print Assumptions C09_build_ok.

Theorem C09_exact_sub : forall t, t_exactb t = true -> t_subb t = true.
Proof. exact t_exact_sub. Qed.
Print Assumptions C09_exact_sub.

(* scaling keeps total >= self + children (d > 0); inserting into / merging scaled trees keeps it *)
Theorem C09_clone_sub : forall m d, d <> 0 -> forall t, t_subb t = true -> t_subb (t_clone m d t) = true.
Proof. exact t_clone_sub. Qed.
Print Assumptions C09_clone_sub.

Theorem C09_insert_sub : forall key v t, t_subb t = true -> t_subb (t_insert key v t) = true.
Proof. exact t_insert_sub. Qed.
Print Assumptions C09_insert_sub.

Theorem C09_merge_sub : forall d s, t_subb d = true -> t_subb s = true -> t_subb (t_merge d s) = true.
Proof. exact t_merge_sub. Qed.
Print Assumptions C09_merge_sub.

Theorem C09_floor_add : forall a b d, d <> 0 -> a / d + b / d <= (a + b) / d.
Proof. exact floor_add. Qed.
Print Assumptions C09_floor_add.

Example C09_consistent_nonvacuous :
  t_exactb ex_a = true /\ t_exactb (t_merge ex_a ex_b) = true /\
  t_subb (t_clone 1 2 (t_merge ex_a ex_b)) = true /\
  (* equality is really lost by scaling: a (5,14) with children b 7, c 2 becomes (2,7) with 3, 1 *)
  t_exactb (t_clone 1 2 (t_merge ex_a ex_b)) = false /\
  t_at [[97]] (t_clone 1 2 (t_merge ex_a ex_b)) = Some (2, 7).
Proof. vm_compute. repeat split. Qed.

(* ---- (5) clone floors each value independently and keeps names and shape -------------------- *)

Theorem clone_floor : forall m d t,
  t_clone m d t = TNode (t_name t) (t_self t * m / d) (t_total t * m / d) (map (t_clone m d) (t_ch t)).
Proof. exact t_clone_eq. Qed.
Print Assumptions clone_floor.

Theorem C09_clone_at : forall m d p t,
  t_at p (t_clone m d t) = option_map (fun x => (fst x * m / d, snd x * m / d)) (t_at p t).
Proof. exact t_clone_at. Qed.
Print Assumptions C09_clone_at.

Theorem C09_clone_wf : forall m d t, t_wfb (t_clone m d t) = t_wfb t.
Proof. exact t_clone_wfb. Qed.
Print Assumptions C09_clone_wf.

Theorem C09_clone_size : forall m d t, t_size (t_clone m d t) = t_size t.
Proof. exact t_clone_size. Qed.
Print Assumptions C09_clone_size.

Example clone_floor_nonvacuous :
  t_at [[97];[98]] (t_clone 2 3 ex_b) = Some (2, 2) /\ t_at [[97]] (t_clone 2 3 ex_b) = Some (3, 6) /\
  t_at [] (t_clone 2 3 ex_b) = Some (0, 10) /\ t_at [] ex_b = Some (0, 16) /\
  t_size (t_clone 2 3 ex_b) = 4%nat.
Proof. vm_compute. repeat split. Qed.
