(* C09 — merging profiles is plain addition.  Headline theorems only. *)
From Pyro Require Import Model.Base Model.Tree Proofs.TreeProofs.

Theorem C09_insert_total : forall p v t, t_total (t_insert_path p v t) = t_total t + v.
Proof. exact t_insert_path_total. Qed.
Print Assumptions C09_insert_total.
