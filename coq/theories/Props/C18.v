(* C18 — cumulative profiles upload as clipped deltas.  Headline theorems only. *)
From Pyro Require Import Model.Base Model.Varint Model.TTrie Proofs.TTrieProofs.

Theorem C18_den_empty : forall k, tt_den tt_empty k = 0.
Proof. exact tt_den_empty. Qed.
Print Assumptions C18_den_empty.
