(* C18 — cumulative profiles upload as clipped deltas; snapshots stay intact.  Headline theorems only.

   tt_den t k   : the count stored under the full byte string k (0 when k does not end on a node)
   tt_wf t      : below the root no node name is empty and sibling names start with different bytes
   ms_count ms k: the sum of the counts listed for k in the multiset ms

   Non-mutation of the two snapshots is vacuous in a pure model; it is checked on the implementation
   by the correspondence run (structural dump and Iterate output of both tries before and after Diff). *)
From Pyro Require Import Model.Base Model.Varint Model.TTrie Proofs.TTrieProofs.

(* Insert: add (merge) or set the count of one key, every other key keeps its count; well-formedness is preserved *)
Theorem ttrie_den_insert : forall key v merge t, tt_wf t ->
  tt_wf (tt_insert key v merge t) /\
  forall k, tt_den (tt_insert key v merge t) k =
            if beqb k key then (if merge then tt_den t key + v else v) else tt_den t k.
Proof. exact TTrieProofs.ttrie_den_insert. Qed.
Print Assumptions ttrie_den_insert.

(* inserting the same stack repeatedly accumulates its count *)
Theorem ttrie_insert_accumulates : forall ms,
  tt_wf (tt_of_multiset ms) /\ forall k, tt_den (tt_of_multiset ms) k = ms_count ms k.
Proof. exact TTrieProofs.ttrie_insert_accumulates. Qed.
Print Assumptions ttrie_insert_accumulates.

(* per stack: current minus previous, clipped at zero (N subtraction), for every non-empty key;
   nothing is assumed about prev *)
Theorem C18_diff : forall cur prev, tt_wf cur ->
  tt_wf (tt_diff cur prev) /\
  forall k, k <> [] -> tt_den (tt_diff cur prev) k = tt_den cur k - tt_den prev k.
Proof. exact ttrie_diff_den. Qed.
Print Assumptions C18_diff.

(* what is uploaded: Iterate over the diff reports exactly the stacks with a positive clipped difference *)
Theorem C18_diff_iterate : forall cur prev K v, tt_wf cur -> tt_name cur = [] -> K <> [] ->
  (In (K, v) (tt_iterate (tt_diff cur prev)) <-> (0 < v /\ v = tt_den cur K - tt_den prev K)).
Proof. exact ttrie_diff_iterate. Qed.
Print Assumptions C18_diff_iterate.

(* stacks that only existed before contribute nothing *)
Theorem C18_prev_only_silent : forall cur prev K, tt_wf cur -> tt_name cur = [] -> K <> [] ->
  tt_den cur K = 0 -> forall v, ~ In (K, v) (tt_iterate (tt_diff cur prev)).
Proof. exact ttrie_prev_only_silent. Qed.
Print Assumptions C18_prev_only_silent.

(* The statement without "k <> []" is false of the code: Diff never visits the root, so the count stored
   under the empty key is passed on unchanged.  (The session never inserts an empty stack.)
     forall cur prev k, tt_wf cur -> tt_wf prev -> tt_den (tt_diff cur prev) k = tt_den cur k - tt_den prev k   -- FALSE *)
Theorem C18_empty_key_refuted :
  exists cur prev, tt_wf cur /\ tt_wf prev /\
    tt_den (tt_diff cur prev) [] <> tt_den cur [] - tt_den prev [].
Proof. exact ttrie_diff_empty_key_refuted. Qed.
Print Assumptions C18_empty_key_refuted.

Theorem C18_empty_key_untouched : forall cur prev, tt_wf cur -> tt_wf prev ->
  tt_den (tt_diff cur prev) [] = tt_den cur [].
Proof. exact ttrie_diff_empty_key_untouched. Qed.
Print Assumptions C18_empty_key_untouched.

(* non-vacuity: a current snapshot with shared non-boundary prefixes, a previous snapshot with a key that
   forces a split ("fo"), an underflowing key ("foo") and a prev-only key ("fox") *)
Example C18_diff_nonvacuous :
  let cur := tt_of_multiset [([102;111;111], 2); ([102;111;111;98;97;114], 7); ([109], 1)] in
  let prev := tt_of_multiset [([102;111;111], 9); ([102;111], 1); ([102;111;120], 4); ([102;111;111;98;97;114], 3)] in
  tt_wf cur /\ tt_name cur = [] /\
  tt_iterate (tt_diff cur prev) = [([102;111;111;98;97;114], 4); ([109], 1)].
Proof. vm_compute. repeat split. Qed.

(* scaling a snapshot by m/d on serialization floors each count: the decoded trie stores floor(v*m/d)
   (tt_scale_val m d v = v*m/d unless m = d = 1) under every key and Iterate reports exactly the positive ones.
   tt_fitsb: name lengths, child counts and scaled values are below 2^64. *)
Theorem ttrie_serialize_scaled : forall m d t,
  tt_wf t -> tt_name t = [] -> tt_fitsb m d t = true ->
  exists t', tt_deserialize (tt_serialize m d t) = Some t' /\ tt_wf t' /\ tt_name t' = [] /\
    (forall k, tt_den t' k = tt_scale_val m d (tt_den t k)) /\
    (forall K v, In (K, v) (tt_iterate t') <-> (0 < v /\ v = tt_scale_val m d (tt_den t K))).
Proof. exact TTrieProofs.ttrie_serialize_scaled. Qed.
Print Assumptions ttrie_serialize_scaled.

Example ttrie_serialize_scaled_nonvacuous :
  let t := tt_of_multiset [([102;111;111], 5); ([102;111;111;98;97;114], 7); ([102;111], 1)] in
  tt_wf t /\ tt_name t = [] /\ tt_fitsb 2 3 t = true /\
  option_map tt_iterate (tt_deserialize (tt_serialize 2 3 t)) = Some [([102;111;111], 3); ([102;111;111;98;97;114], 4)].
Proof. vm_compute. repeat split. Qed.

(* ---- children stay sorted: sort.Search is modelled as the binary search of package sort and proved to find the
   sorted place; tt_sortedb t: at every node the children's first bytes are strictly increasing (hence tt_wf) ---- *)
From Pyro Require Import Proofs.C18SortedProofs.

Theorem ttrie_insert_sorted : forall key v merge t, tt_sortedb t = true -> tt_sortedb (tt_insert key v merge t) = true.
Proof. exact tt_insert_sorted. Qed.
Print Assumptions ttrie_insert_sorted.

Theorem ttrie_sorted_wf : forall t, tt_sortedb t = true -> tt_wf t.
Proof. exact tt_sorted_wf. Qed.
Print Assumptions ttrie_sorted_wf.

(* for sorted tries (every trie built by Insert) the decoded trie is the original with every count floored:
   same structure, same order, hence the same Iterate sequence *)
Theorem ttrie_serialize_scaled_exact : forall m d t, tt_sortedb t = true -> tt_fitsb m d t = true ->
  tt_deserialize (tt_serialize m d t) = Some (tt_map_values (tt_scale_val m d) t).
Proof. exact tt_roundtrip_exact. Qed.
Print Assumptions ttrie_serialize_scaled_exact.
