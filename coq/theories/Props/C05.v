(* C05 — the LFU-over-Badger cache behaves like a durable map.  Headline theorems only.
   Model: Model/Lfu.v (lfu-go v1.0.3) and Model/Cache.v (cache.go); proofs: Proofs/CacheProofs.v.
   K, V, D: keys, objects, serialized objects; dflt = New, enc = Bytes, dec = FromBytes.
   `run` executes a history on the cache model, `spec_run` on a plain map; `rets` are the values the reads returned.
   Oracles (map iteration order in evict, accepted sends in write-back, completion points of saves) are
   arguments of the operations, so "for all ops" quantifies over them too.

   The full statement of the property ("for all histories, regardless of evictions, write-backs and overlaps") is
   false of the faithful model: C05_writeback_refuted (D10) and C05_inflight_refuted (D11) below.  What is proved
   carries exactly the excluding hypotheses:
     no_writeback ops   — no WriteBack in the history (C05_refines), or, with write-back, every entry it marks is
                          really handed to the write-back goroutine or touched again before the next eviction
                          (C05_writeback_partial; hypothesis `admissible`);
     admissible0        — no client operation on a key while a save of that key is in flight, and a mutation
                          through a pointer happens while the cache still holds the object. *)
From Coq Require Import List NArith.
From Pyro Require Import Model.Lfu Model.Cache Proofs.CacheProofs.
Import ListNotations.

Theorem C05_refines :
  forall (K V D : Type) (keq : forall a b : K, {a = b} + {a <> b})
         (dflt : K -> V) (enc : K -> V -> D) (dec : K -> D -> V),
  (forall k v, dec k (enc k v) = v) ->
  forall ops,
  no_writeback ops -> admissible0 keq dflt enc dec c_empty ops ->
  rets (fst (run keq dflt enc dec c_empty ops)) = rets (fst (spec_run keq dflt s_empty ops)).
Proof. exact (@c05_refines). Qed.
Print Assumptions C05_refines.

(* the discipline of a sequential client (and of the harness's synchronous stream): every eviction is followed by
   the completion of its saves, every mutation by a Get — then no side condition on states is left *)
Theorem C05_refines_sync :
  forall (K V D : Type) (keq : forall a b : K, {a = b} + {a <> b})
         (dflt : K -> V) (enc : K -> V -> D) (dec : K -> D -> V),
  (forall k v, dec k (enc k v) = v) ->
  forall cops,
  forallb (is_sync (K:=K) (V:=V)) cops = true ->
  rets (fst (run keq dflt enc dec c_empty (lower cops))) = rets (fst (spec_run keq dflt s_empty (lower cops))).
Proof. exact (@c05_refines_sync). Qed.
Print Assumptions C05_refines_sync.

Theorem C05_flush_durable :
  forall (K V D : Type) (keq : forall a b : K, {a = b} + {a <> b})
         (dflt : K -> V) (enc : K -> V -> D) (dec : K -> D -> V),
  (forall k v, dec k (enc k v) = v) ->
  forall ops,
  admissible keq dflt enc dec c_empty (ops ++ [OFlushReopen]) ->
  let c' := snd (run keq dflt enc dec c_empty (ops ++ [OFlushReopen])) in
  let m' := snd (spec_run keq dflt s_empty ops) in
  c_lfu c' = [] /\ c_evq c' = [] /\ c_wbq c' = [] /\
  forall k, match m' k with
            | Some v => exists d, c_disk c' k = Some d /\ dec k d = v
            | None => c_disk c' k = None
            end.
Proof. exact (@c05_flush_durable). Qed.
Print Assumptions C05_flush_durable.

Theorem C05_delete_removes :
  forall (K V D : Type) (keq : forall a b : K, {a = b} + {a <> b})
         (dflt : K -> V) (enc : K -> V -> D) (dec : K -> D -> V) (c : cache (K:=K) (V:=V) (D:=D)) k,
  let c' := fst (step keq dflt enc dec c (ODelete k)) in
  l_find keq k (c_lfu c') = None /\ c_disk c' k = None.
Proof. exact (@c05_delete_removes). Qed.
Print Assumptions C05_delete_removes.

Theorem C05_writeback_partial :
  forall (K V D : Type) (keq : forall a b : K, {a = b} + {a <> b})
         (dflt : K -> V) (enc : K -> V -> D) (dec : K -> D -> V),
  (forall k v, dec k (enc k v) = v) ->
  forall ops,
  admissible keq dflt enc dec c_empty ops ->
  rets (fst (run keq dflt enc dec c_empty ops)) = rets (fst (spec_run keq dflt s_empty ops)).
Proof. exact (@c05_writeback_partial). Qed.
Print Assumptions C05_writeback_partial.

(* D10: all hypotheses of C05_refines except no_writeback hold, the oracle is possible, and a read differs *)
Theorem C05_writeback_refuted :
  exists ops, admissible0 N.eq_dec w_dflt w_id w_id c_empty ops /\
              ~ In Bad (fst (run N.eq_dec w_dflt w_id w_id c_empty ops)) /\
              rets (fst (run N.eq_dec w_dflt w_id w_id c_empty ops)) <> rets (fst (spec_run N.eq_dec w_dflt s_empty ops)).
Proof. exact c05_writeback_refuted. Qed.
Print Assumptions C05_writeback_refuted.

(* D10, second form: the send is accepted, but the object is then mutated through a pointer obtained earlier *)
Theorem C05_writeback_mutation_refuted :
  exists ops, admissible0 N.eq_dec w_dflt w_id w_id c_empty ops /\
              ~ In Bad (fst (run N.eq_dec w_dflt w_id w_id c_empty ops)) /\
              rets (fst (run N.eq_dec w_dflt w_id w_id c_empty ops)) <> rets (fst (spec_run N.eq_dec w_dflt s_empty ops)).
Proof. exact c05_writeback_mutation_refuted. Qed.
Print Assumptions C05_writeback_mutation_refuted.

(* D11: no write-back, but a Get overlaps the in-flight save of its key *)
Theorem C05_inflight_refuted :
  exists ops, no_writeback ops /\
              ~ In Bad (fst (run N.eq_dec w_dflt w_id w_id c_empty ops)) /\
              rets (fst (run N.eq_dec w_dflt w_id w_id c_empty ops)) <> rets (fst (spec_run N.eq_dec w_dflt s_empty ops)) /\
              c_disk (snd (run N.eq_dec w_dflt w_id w_id c_empty ops)) 0%N = Some (w_dflt 0%N).
Proof. exact c05_inflight_refuted. Qed.
Print Assumptions C05_inflight_refuted.

(* same root cause, other symptom: a Delete overlapping the in-flight save is undone when the save lands *)
Theorem C05_inflight_delete_refuted :
  exists ops, no_writeback ops /\
              ~ In Bad (fst (run N.eq_dec w_dflt w_id w_id c_empty ops)) /\
              rets (fst (run N.eq_dec w_dflt w_id w_id c_empty ops)) <> rets (fst (spec_run N.eq_dec w_dflt s_empty ops)).
Proof. exact c05_inflight_delete_refuted. Qed.
Print Assumptions C05_inflight_delete_refuted.

(* a pointer kept across an eviction: the mutation is lost although every save had completed *)
Theorem C05_stale_handle_refuted :
  exists ops, no_writeback ops /\
              ~ In Bad (fst (run N.eq_dec w_dflt w_id w_id c_empty ops)) /\
              rets (fst (run N.eq_dec w_dflt w_id w_id c_empty ops)) <> rets (fst (spec_run N.eq_dec w_dflt s_empty ops)).
Proof. exact c05_stale_handle_refuted. Qed.
Print Assumptions C05_stale_handle_refuted.

Example C05_refines_nonvacuous :
  forallb (is_sync (K:=N) (V:=N)) w_good = true /\
  no_writeback (lower w_good) /\ admissible0 N.eq_dec w_dflt w_id w_id c_empty (lower w_good) /\
  ~ In Bad (fst (run N.eq_dec w_dflt w_id w_id c_empty (lower w_good))) /\
  rets (fst (run N.eq_dec w_dflt w_id w_id c_empty (lower w_good))) = [5; 6; 8; 8; 1001]%N.
Proof. exact c05_refines_nonvacuous. Qed.

Example C05_writeback_partial_nonvacuous :
  admissible N.eq_dec w_dflt w_id w_id c_empty w_wb_ok /\
  ~ In Bad (fst (run N.eq_dec w_dflt w_id w_id c_empty w_wb_ok)) /\
  rets (fst (run N.eq_dec w_dflt w_id w_id c_empty w_wb_ok)) = [11; 12]%N.
Proof. exact c05_writeback_partial_nonvacuous. Qed.
