(* C05 — the LFU-over-Badger cache behaves like a durable map.  Headline theorems only. *)
From Pyro Require Import Model.Lfu Model.Cache.

(* placeholder until Proofs/CacheProofs.v lands: Delete removes the key from memory and disk *)
Theorem C05_delete_removes : forall (K V D : Type) (keq : forall a b : K, {a = b} + {a <> b}) dflt enc dec
    (c : cache (K:=K) (V:=V) (D:=D)) k,
  c_disk (fst (step keq dflt enc dec c (ODelete k))) k = None.
Proof. intros. cbn. unfold d_set. destruct (keq k k); congruence. Qed.
Print Assumptions C05_delete_removes.
