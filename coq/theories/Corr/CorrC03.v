(* CorrC03.v — correspondence checker for C03 (no invented samples, nothing lost at full zoom-out).
   The harness drives segment.Segment.Put/Get and dumps: per write the callbacks in the order Go made
   them, the final tree, and per queried aligned range the get callbacks.  All times are Unix
   seconds as Go reports them; they are converted to slots here. *)
From Pyro Require Export Corr.CorrC03Stor.   (* storage-level histories (hop terms); listed first so that this file's own names win *)
From Pyro Require Export Model.Base Model.Float53 Model.Segment Corr.Verdict.
From Pyro Require Import Proofs.SegCanon.   (* only for the definition of the canonical decomposition s_canon *)
Open Scope string_scope.
Local Open Scope Z_scope.

(* ---- what the harness dumps ---- *)
Inductive o_pcb := OP (depth : nat) (t : Z) (num den : Z) (addons : list (nat * Z)).
Inductive o_gcb := OG (depth : nat) (t : Z) (samples writes : N) (num den : Z).
Inductive onode := ON (depth : nat) (t : Z) (present : bool) (samples writes : N) (ch : list (option onode)).
(* one Put: input (Unix seconds), Go's normalize of it (Unix seconds), callbacks *)
Inductive o_write := OW (st et : Z) (smp : N) (nst net : Z) (cbs : list o_pcb).
Inductive o_query := OQ (st et : Z) (cbs : list o_gcb).

Record seg_case := {
  c_writes : list o_write;
  c_tree : option onode;
  c_queries : list o_query
}.

(* ---- conversion Unix seconds -> slots (exact: node times are multiples of 10 s) ---- *)
Definition on_grid (u : Z) : bool := (u + unix_offset) mod 10 =? 0.
Definition pcb_of (o : o_pcb) : put_cb :=
  match o with OP l t n d ad =>
    {| pc_lvl := l; pc_t := unix_to_slot t; pc_m := n; pc_d := d;
       pc_addons := map (fun a => (fst a, unix_to_slot (snd a))) ad |} end.
Definition gcb_of (o : o_gcb) : get_cb :=
  match o with OG l t s w n d =>
    {| gc_lvl := l; gc_t := unix_to_slot t; gc_samples := s; gc_writes := w; gc_m := n; gc_d := d |} end.
Definition pcb_grid (o : o_pcb) : bool :=
  match o with OP _ t _ _ ad => on_grid t && forallb (fun a => on_grid (snd a)) ad end.
Definition gcb_grid (o : o_gcb) : bool := match o with OG _ t _ _ _ _ => on_grid t end.

(* dumped tree -> model tree; None when a depth field is not the level or a time is off the 10 s grid *)
Fixpoint sn_of (lvl : nat) (o : onode) {struct o} : option snode :=
  match o with
  | ON d t p s w ch =>
      if negb (Nat.eqb d lvl) || negb (on_grid t) then None
      else
        let fix go (l : list (option onode)) : option (list (option snode)) :=
          match l with
          | [] => Some []
          | None :: l' => match go l' with Some r => Some (None :: r) | None => None end
          | Some c :: l' =>
              match lvl with
              | O => None
              | S lc => match sn_of lc c, go l' with
                        | Some c', Some r => Some (Some c' :: r)
                        | _, _ => None
                        end
              end
          end in
        match go ch with
        | Some ch' => Some (SNode (unix_to_slot t) p s w ch')
        | None => None
        end
  end.
Definition on_depth (o : onode) : nat := match o with ON d _ _ _ _ _ => d end.

(* ---- equalities ---- *)
Fixpoint sn_eqb (x y : snode) {struct x} : bool :=
  match x, y with
  | SNode t p s w ch, SNode t' p' s' w' ch' =>
      (t =? t') && Bool.eqb p p' && N.eqb s s' && N.eqb w w' &&
      (fix go (a : list (option snode)) (b : list (option snode)) {struct a} : bool :=
         match a, b with
         | [], [] => true
         | None :: a', None :: b' => go a' b'
         | Some c :: a', Some c' :: b' => sn_eqb c c' && go a' b'
         | _, _ => false
         end) ch ch'
  end.
(* structure only (present flags, times, shape): used to tell a counter difference from a shape difference *)
Fixpoint sn_shape_eqb (x y : snode) {struct x} : bool :=
  match x, y with
  | SNode t p s w ch, SNode t' p' s' w' ch' =>
      (t =? t') && Bool.eqb p p' &&
      (fix go (a : list (option snode)) (b : list (option snode)) {struct a} : bool :=
         match a, b with
         | [], [] => true
         | None :: a', None :: b' => go a' b'
         | Some c :: a', Some c' :: b' => sn_shape_eqb c c' && go a' b'
         | _, _ => false
         end) ch ch'
  end.
Fixpoint sn_writes_eqb (x y : snode) {struct x} : bool :=
  match x, y with
  | SNode t p s w ch, SNode t' p' s' w' ch' =>
      N.eqb w w' &&
      (fix go (a : list (option snode)) (b : list (option snode)) {struct a} : bool :=
         match a, b with
         | [], [] => true
         | None :: a', None :: b' => go a' b'
         | Some c :: a', Some c' :: b' => sn_writes_eqb c c' && go a' b'
         | _, _ => false
         end) ch ch'
  end.

Definition key_leb (x y : skey) : bool :=
  (fst x <? fst y)%nat || (Nat.eqb (fst x) (fst y) && (snd x <=? snd y)).

Section Sort.
  Context {A : Type} (leb : A -> A -> bool).
  Fixpoint ins (x : A) (l : list A) : list A :=
    match l with [] => [x] | y :: l' => if leb x y then x :: l else y :: ins x l' end.
  Definition isort (l : list A) : list A := fold_right ins [] l.
End Sort.

Definition sort_keys := isort key_leb.
Definition sort_pcbs := isort (fun x y : put_cb => key_leb (pc_lvl x, pc_t x) (pc_lvl y, pc_t y)).
Definition sort_gcbs := isort (fun x y : get_cb => key_leb (gc_lvl x, gc_t x) (gc_lvl y, gc_t y)).

Definition ratio_eqb (m d m' d' : Z) : bool := (m * d' =? m' * d) && (0 <? d) && (0 <? d').
Definition pcb_eqb (x y : put_cb) : bool :=
  skey_eqb (pc_lvl x, pc_t x) (pc_lvl y, pc_t y) && ratio_eqb (pc_m x) (pc_d x) (pc_m y) (pc_d y) &&
  list_eqb skey_eqb (sort_keys (pc_addons x)) (sort_keys (pc_addons y)).
Definition gcb_eqb (x y : get_cb) : bool :=
  skey_eqb (gc_lvl x, gc_t x) (gc_lvl y, gc_t y) && ratio_eqb (gc_m x) (gc_d x) (gc_m y) (gc_d y) &&
  N.eqb (gc_samples x) (gc_samples y) && N.eqb (gc_writes x) (gc_writes y).

(* ---- the exact store evaluated on Go's callbacks: one component per write ---- *)
Definition vec := list Z.
Fixpoint vadd (x y : vec) : vec :=
  match x, y with
  | a :: x', b :: y' => (a + b) :: vadd x' y'
  | [], y => y
  | x, [] => x
  end.
Fixpoint vunit (n j : nat) (v : Z) : vec :=
  match n with O => [] | S n' => (match j with O => v | _ => 0 end) :: vunit n' (pred j) (match j with O => 0 | _ => v end) end.
Definition vstore := list (skey * vec).
Fixpoint vs_get (k : skey) (E : vstore) : option vec :=
  match E with [] => None | (k', v) :: E' => if skey_eqb k k' then Some v else vs_get k E' end.
Fixpoint vs_add (k : skey) (v : vec) (E : vstore) : vstore :=
  match E with
  | [] => [(k, v)]
  | (k', v') :: E' => if skey_eqb k k' then (k', vadd v' v) :: E' else (k', v') :: vs_add k v E'
  end.
Definition vzero (n : nat) : vec := repeat 0 n.

(* store[k] += share_of_this_write + sum of store[addon]; the share is span*num/den slots of write j.
   Returns None when the ratio is not a multiple of 1/span (cannot be a slot count). *)
Definition vs_apply (n j : nat) (span : Z) (E : option vstore) (c : put_cb) : option vstore :=
  match E with
  | None => None
  | Some E =>
      if negb ((0 <? pc_d c) && ((span * pc_m c) mod pc_d c =? 0)) then None
      else
        let own := vunit n j (span * pc_m c / pc_d c) in
        let v := fold_left (fun acc a => match vs_get a E with Some x => vadd acc x | None => acc end)
                           (pc_addons c) own in
        Some (vs_add (pc_lvl c, pc_t c) v E)
  end.

(* ---- per-query evaluation ---- *)
Definition bucket_inside (qa qb : Z) (k : skey) : bool := (qa <=? snd k) && (snd k + pow10 (fst k) <=? qb).
Definition buckets_disjoint (x y : skey) : bool :=
  (snd x + pow10 (fst x) <=? snd y) || (snd y + pow10 (fst y) <=? snd x).
Fixpoint pairwise {A} (f : A -> A -> bool) (l : list A) : bool :=
  match l with [] => true | x :: l' => forallb (f x) l' && pairwise f l' end.

(* sum over the cover of stored vectors (ratio applied as the storage layer does: v*num/den) *)
Definition cover_sum (n : nat) (E : vstore) (g : list get_cb) : option vec :=
  fold_left (fun acc c =>
               match acc, vs_get (gc_lvl c, gc_t c) E with
               | Some a, Some v => Some (vadd a (map (fun x => x * gc_m c / gc_d c) v))
               | _, _ => None
               end) g (Some (vzero n)).

Fixpoint vle (x y : vec) : bool :=
  match x, y with
  | a :: x', b :: y' => (a <=? b) && vle x' y'
  | [], [] => true
  | _, _ => false
  end.
Definition veq (x y : vec) : bool := list_eqb Z.eqb x y.

(* (vi) maximality on Go's tree: no cover bucket lies strictly below a present node that fits the range *)
Definition strictly_below (k anc : skey) : bool :=
  (fst k <? fst anc)%nat && (snd anc <=? snd k) && (snd k + pow10 (fst k) <=? snd anc + pow10 (fst anc)).
Fixpoint maximal_ok (lvl : nat) (qa qb : Z) (keys : list skey) (n : snode) {struct lvl} : bool :=
  match n with
  | SNode t p _ _ ch =>
      (negb (p && bucket_inside qa qb (lvl, t)) || negb (existsb (fun k => strictly_below k (lvl, t)) keys)) &&
      match lvl with
      | O => true
      | S l => forallb (fun o => match o with Some c => maximal_ok l qa qb keys c | None => true end) ch
      end
  end.

(* (vii) when no write contains an aligned bucket of level >= 1 (all spans < 10 slots) and every slot of the
   range was written, the cover must be the canonical decomposition below the root bucket *)
Fixpoint all_slots_written (n : nat) (x : Z) (nw : list (Z * Z)) : bool :=
  match n with
  | O => true
  | S n' => existsb (fun w => (fst w <=? x) && (x <? snd w)) nw && all_slots_written n' (x + 1) nw
  end.
Definition canonical_ok (nw : list (Z * Z)) (gtree : option (nat * snode)) (qa qb : Z) (keys : list skey) : bool :=
  match gtree with
  | Some (lvl, SNode t _ _ _ _) =>
      negb (forallb (fun w => snd w - fst w <? 10) nw && (qb - qa <=? 1500) && all_slots_written (Z.to_nat (qb - qa)) qa nw)
      || list_eqb skey_eqb keys (s_canon lvl t qa qb)
  | None => true
  end.

(* the known finding `canonical-long-write`: the range is fully written, some write spans 10 slots or more, and the cover
   is not the canonical decomposition (a bucket contained in a write gets a profile and no children, so nothing below it
   is pre-aggregated; Get's partial-overlap branch never fires because a node's children slice always has length 10) *)
Definition canonical_long_write (nw : list (Z * Z)) (gtree : option (nat * snode)) (qa qb : Z) (keys : list skey) : bool :=
  match gtree with
  | Some (lvl, SNode t _ _ _ _) =>
      existsb (fun w => 10 <=? snd w - fst w) nw && (qb - qa <=? 1500) && all_slots_written (Z.to_nat (qb - qa)) qa nw
      && negb (list_eqb skey_eqb keys (s_canon lvl t qa qb))
  | None => false
  end.

Record qres := { qr_a : Z; qr_b : Z; qr_sum : vec }.

Definition check_query (n : nat) (nw : list (Z * Z)) (E : vstore) (gtree : option (nat * snode))
           (model : segment) (q : o_query) : verdict * option qres :=
  match q with
  | OQ st et ocbs =>
      let '(qa, qb) := s_normalize_unix (st, et) in
      let g := map gcb_of ocbs in
      let keys := map (fun c => (gc_lvl c, gc_t c)) g in
      let want := map (fun w => ov (fst w) (snd w) qa qb) nw in
      let spans := map (fun w => snd w - fst w) nw in
      let covers_all := forallb (fun w => (qa <=? fst w) && (snd w <=? qb)) nw in
      let s := cover_sum n E g in
      let v :=
        combine_verdicts [
          corr (forallb gcb_grid ocbs) "get callback time off the 10 s grid";
          spec (forallb (fun k => match vs_get k E with Some _ => true | None => false end) keys)
               "a bucket named by Get has no stored profile (never named by a Put callback)";
          spec (pairwise buckets_disjoint keys) "buckets named by Get overlap";
          spec (forallb (bucket_inside qa qb) keys) "a bucket named by Get is not inside the queried range";
          spec (match s with Some sv => vle sv want | None => true end)
               "Get returns more of a write than was ingested into the queried range";
          spec (negb covers_all || match s with Some sv => veq sv spans | None => true end)
               "a range covering all writes does not return every write entirely";
          spec (match gtree with Some (lvl, t) => maximal_ok lvl qa qb keys t | None => true end)
               "Get descended below a present bucket that fits in the range";
          spec (canonical_ok nw gtree qa qb keys)
               "fully written range, short writes: the cover is not the canonical power-of-ten decomposition";
          corr (list_eqb gcb_eqb (sort_gcbs (s_get qa qb model)) (sort_gcbs g))
               "s_get model differs from Segment.Get callbacks";
          (* after the comparison with the model, so that only a cover the model predicts too is attributed to it *)
          if canonical_long_write nw gtree qa qb keys then Known "canonical-long-write" else Ok
        ] in
      (v, match s with Some sv => Some {| qr_a := qa; qr_b := qb; qr_sum := sv |} | None => None end)
  end.

(* (iv) split <= whole over every pair of adjacent queried ranges whose union was queried too *)
Definition find_q (a b : Z) (qs : list qres) : option vec :=
  match find (fun q => (qr_a q =? a) && (qr_b q =? b)) qs with Some q => Some (qr_sum q) | None => None end.
Definition split_ok (qs : list qres) : bool :=
  forallb (fun q1 =>
    forallb (fun q2 =>
      if qr_b q1 =? qr_a q2
      then match find_q (qr_a q1) (qr_b q2) qs with
           | Some whole => vle (vadd (qr_sum q1) (qr_sum q2)) whole
           | None => true
           end
      else true) qs) qs.

(* ---- model run over the writes, comparing callbacks ---- *)
Fixpoint run_model (ws : list o_write) (s : segment) (acc : list verdict) : segment * list verdict :=
  match ws with
  | [] => (s, rev acc)
  | OW st et smp nst net ocbs :: ws' =>
      let '(a, b) := s_normalize_unix (st, et) in
      let '(s', cbs) := s_put a b smp s in
      let v := combine_verdicts [
        corr ((slot_to_unix a =? nst) && (slot_to_unix b =? net)) "s_normalize model differs from normalize";
        corr (forallb pcb_grid ocbs) "put callback time off the 10 s grid";
        corr (s_grow_ok a b s) "write outside the supported epoch block (generator error)";
        corr (list_eqb pcb_eqb (sort_pcbs cbs) (sort_pcbs (map pcb_of ocbs)))
             "s_put model differs from Segment.Put callbacks" ] in
      run_model ws' s' (v :: acc)
  end.

Fixpoint build_store (n j : nat) (ws : list o_write) (E : option vstore) : option vstore :=
  match ws with
  | [] => E
  | OW st et smp nst net ocbs :: ws' =>
      let span := (unix_to_slot net - unix_to_slot nst) in
      build_store n (S j) ws' (fold_left (vs_apply n j span) (map pcb_of ocbs) E)
  end.

Definition keep_some {A} (l : list (option A)) : list A := somes l.

Definition check_seg_case (c : seg_case) : verdict :=
  let n := length (c_writes c) in
  let '(model, mv) := run_model (c_writes c) s_empty [] in
  let nw := map (fun w => match w with OW _ _ _ nst net _ => (unix_to_slot nst, unix_to_slot net) end) (c_writes c) in
  let gtree := match c_tree c with
               | Some o => match sn_of (on_depth o) o with Some t => Some (on_depth o, t) | None => None end
               | None => None
               end in
  let tree_conv_ok := match c_tree c, gtree with Some _, None => false | _, _ => true end in
  match build_store n 0 (c_writes c) (Some []) with
  | None => ModelDiffers "a Put ratio is not a whole number of slots of the write"
  | Some E =>
      let qrs := map (check_query n nw E gtree model) (c_queries c) in
      combine_verdicts (
        mv ++ map fst qrs ++ [
          corr tree_conv_ok "dumped tree: depth field differs from the level, or time off the grid";
          spec (match gtree with Some (lvl, t) => sn_twob lvl t | None => true end)
               "a bucket with at least two children is not present";
          spec (split_ok (keep_some (map snd qrs))) "splitting a range returns more than querying it whole";
          corr (match gtree, s_root model with
                | Some (l, t), Some (l', t') => Nat.eqb l l' && sn_shape_eqb t t'
                | None, None => true
                | _, _ => false
                end) "segment tree shape (times, present flags) differs from the model";
          corr (match gtree, s_root model with
                | Some (l, t), Some (l', t') => sn_writes_eqb t t'
                | _, _ => true
                end) "writes counters differ from the model";
          corr (match gtree, s_root model with
                | Some (l, t), Some (l', t') => sn_eqb t t'
                | _, _ => true
                end) "samples counters differ from the model (binary64 share)"
        ])
  end.

(* A case is either a segment-level one (above) or a storage-level history (Corr/CorrC03Stor.v). *)
Inductive case := SegCase (c : seg_case) | StorCase (ops : list hop).

Definition check_case (c : case) : verdict :=
  match c with
  | SegCase c => check_seg_case c
  | StorCase ops => CorrC03Stor.check_stor ops
  end.
