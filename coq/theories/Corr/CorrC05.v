(* CorrC05.v — correspondence checker for C05 (the LFU-over-Badger cache is a durable map).
   Keys and values are numbers (the harness uses keys "k<i>" and objects &obj{Val int}); Bytes/FromBytes is the
   decimal rendering, modelled as the identity; New(k<i>) = &obj{1000+i}. *)
From Pyro Require Export Model.Base Model.Lfu Model.Cache Corr.Verdict.
Open Scope string_scope.

Definition dfltN (k : N) : N := 1000 + k.
Definition encN (k v : N) : N := v.
Definition decN (k d : N) : N := d.
Notation cacheN := (@cache N N N).
Definition stepN : cacheN -> op -> cacheN * out := step N.eq_dec dfltN encN decN.

(* what the harness did and what it saw *)
Inductive hop :=
| HPut (k v : N)
| HRead (k got : N)                                  (* Get(k); got = field of the returned object *)
| HReadErr (k : N)                                   (* Get(k) returned an error because the decoder failed once (a fault injected by the harness); nothing may change *)
| HMutate (k v got : N)                              (* Get(k); got = field; then field := v through the pointer *)
| HPoke (k v : N)                                     (* field := v through the pointer last obtained for k (no Get) *)
| HDelete (k : N)
| HEvict (num den : nat) (saved : list (N * N))      (* Evict(num/den) + eviction barrier; saved = (key, value) serialized, in order *)
| HEvictHold (num den : nat) (saved : list (N * N)) (held : N)   (* as HEvict, but the last save (of `held`) is blocked in the gate *)
| HRelease (saved : list (N * N))                    (* gate opened + eviction barrier *)
| HWriteBack (saved : list (N * N))                  (* WriteBack() + barrier on both goroutines; saved = accepted sends *)
| HFlushReopen (saved : list (N * N)).               (* Flush, db.Close, badger.Open, cache.New *)

Record obs := { o_len : nat; o_disk : list (N * option N) }.   (* after the op: cache.Len(), Badger content per key *)
Record case := { c_keys : list N; c_hist : list (hop * obs) }.

(* ---------- bookkeeping ---------- *)
Definition fset {A} (k : N) (x : A) (f : N -> A) : N -> A := fun k' => if N.eqb k' k then x else f k'.

Definition oN_eqb (a b : option N) : bool :=
  match a, b with Some x, Some y => N.eqb x y | None, None => true | _, _ => false end.
Definition kv_eqb (a b : N * N) : bool := N.eqb (fst a) (fst b) && N.eqb (snd a) (snd b).
Definition kvs_eqb := list_eqb kv_eqb.
Definition kvs_perm (a b : list (N * N)) : bool :=
  Nat.eqb (length a) (length b) && forallb (fun x => existsb (kv_eqb x) b) a && forallb (fun x => existsb (kv_eqb x) a) b.

Record st := {
  s_mc : cacheN;              (* model state *)
  s_sm : N -> option N;       (* plain-map specification *)
  s_wbp : N -> bool;          (* a WriteBack happened since the key's last touch *)
  s_sigwb : N -> bool;        (* ... and then an eviction / flush: signature writeback_before_evict *)
  s_sigif : N -> bool;        (* a read of the key overlapped its in-flight save: signature read_overlaps_save *)
  s_fresh : N -> bool;        (* the pointer the client holds for the key is the object the cache holds (no eviction,
                                 flush or delete since the key's last Put/Get) *)
  s_unk : N -> bool;          (* a mutation went through a pointer that may be stale: the specification does not say
                                 whether it is visible; reads of the key are not judged until its next Put/mutation *)
  s_held : option N           (* key whose save is blocked in the gate *)
}.

Definition st0 : st :=
  {| s_mc := c_empty; s_sm := fun _ => None; s_wbp := fun _ => false; s_sigwb := fun _ => false;
     s_sigif := fun _ => false; s_fresh := fun _ => false; s_unk := fun _ => false; s_held := None |}.

(* a spec failure about key k is attributed to a listed finding only if k's history carries its signature *)
Definition classify (s : st) (k : N) (what : string) : verdict :=
  if s_unk s k then Ok else
  if s_sigwb s k then Known "writeback-drop"
  else if s_sigif s k then Known "inflight-evict-stale-read"
  else SpecFails what.

Definition is_held (s : st) (k : N) : bool := match s_held s with Some h => N.eqb h k | None => false end.

(* ---------- oracle reconstruction for evictions ----------
   Entries marked persisted are dropped without a save, so the harness cannot see them.  The visiting order fed to
   the model takes the observed saves in order and fills in persisted entries of the front bucket where needed. *)
Definition first_pers_front (l : lfu (K:=N) (V:=N)) : option N :=
  match filter (fun ke => e_pers (snd ke) && Nat.eqb (e_freq (snd ke)) (l_minfreq l)) l with
  | (k, _) :: _ => Some k
  | [] => None
  end.
Definition pers_of (k : N) (l : lfu (K:=N) (V:=N)) : bool :=
  match l_find N.eq_dec k l with Some e => e_pers e | None => false end.

Fixpoint synth (fuel : nat) (seen : list N) (l : lfu (K:=N) (V:=N)) : list N :=
  match fuel with
  | O => []
  | S f =>
      match seen with
      | k :: seen' =>
          if l_in_front N.eq_dec k l && negb (pers_of k l) then k :: synth f seen' (l_remove N.eq_dec k l)
          else match first_pers_front l with
               | Some p => p :: synth f seen (l_remove N.eq_dec p l)
               | None => seen
               end
      | [] => match first_pers_front l with
              | Some p => p :: synth f [] (l_remove N.eq_dec p l)
              | None => []
              end
      end
  end.

Definition with_mc (s : st) (c : cacheN) : st :=
  {| s_mc := c; s_sm := s_sm s; s_wbp := s_wbp s; s_sigwb := s_sigwb s; s_sigif := s_sigif s;
     s_fresh := s_fresh s; s_unk := s_unk s; s_held := s_held s |}.

Fixpoint drain (wb : bool) (n : nat) (c : cacheN) : cacheN :=
  match n with O => c | S n' => drain wb n' (fst (stepN c (OSaveCompletes wb))) end.

(* one harness op: returns the new state and the verdicts it produced *)
Definition touch (s : st) (k : N) : st :=
  {| s_mc := s_mc s; s_sm := s_sm s; s_wbp := fset k false (s_wbp s); s_sigwb := s_sigwb s;
     s_sigif := if is_held s k then fset k true (s_sigif s) else s_sigif s;
     s_fresh := fset k true (s_fresh s); s_unk := s_unk s; s_held := s_held s |}.
Definition store (s : st) (k : N) (x : option N) : st :=
  {| s_mc := s_mc s; s_sm := fset k x (s_sm s); s_wbp := fset k false (s_wbp s); s_sigwb := fset k false (s_sigwb s);
     s_sigif := fset k false (s_sigif s);
     s_fresh := fset k (match x with Some _ => true | None => false end) (s_fresh s);
     s_unk := fset k false (s_unk s); s_held := s_held s |}.
Definition mark_evict (s : st) (held : option N) : st :=
  {| s_mc := s_mc s; s_sm := s_sm s; s_wbp := s_wbp s;
     s_sigwb := fun k => s_sigwb s k || s_wbp s k; s_sigif := s_sigif s;
     s_fresh := fun _ => false; s_unk := s_unk s; s_held := held |}.

Definition model_read (s : st) (k got : N) : st * verdict :=
  match stepN (s_mc s) (ORead k) with
  | (c', Ret v) => (with_mc s c', corr (N.eqb v got) "Get: model and implementation return different values")
  | (c', _) => (with_mc s c', ModelDiffers "Get: model returns nothing")
  end.

Definition model_unit (s : st) (o : op) (what : string) : st * verdict :=
  match stepN (s_mc s) o with
  | (c', Bad) => (with_mc s c', ModelDiffers what)
  | (c', _) => (with_mc s c', Ok)
  end.

Definition do_hop (keys : list N) (s : st) (h : hop) (ob : obs) : st * list verdict :=
  match h with
  | HPut k v =>
      let (s1, v1) := model_unit s (OPut k v) "Put" in
      (store s1 k (Some v), [v1])
  | HRead k got =>
      let s0 := touch s k in
      let expected := match s_sm s0 k with Some v => v | None => dfltN k end in
      let sv := if N.eqb got expected then Ok else classify s0 k "Get returned something else than the value last stored or mutated (or the default)" in
      let (s1, v1) := model_read s0 k got in
      ({| s_mc := s_mc s1; s_sm := fset k (Some (if s_unk s1 k then got else expected)) (s_sm s1); s_wbp := s_wbp s1; s_sigwb := s_sigwb s1;
          s_sigif := s_sigif s1; s_fresh := s_fresh s1; s_unk := fset k false (s_unk s1); s_held := s_held s1 |}, [sv; v1])
  | HReadErr k =>
      (* the record must be intact afterwards: nothing changes in the model or in the specification *)
      (s, [])
  | HMutate k v got =>
      let s0 := touch s k in
      let expected := match s_sm s0 k with Some v => v | None => dfltN k end in
      let sv := if N.eqb got expected then Ok else classify s0 k "Get (before a mutation) returned something else than the value last stored or mutated (or the default)" in
      let (s1, v1) := model_read s0 k got in
      let (s2, v2) := model_unit s1 (OMutate k (fun _ => v)) "Mutate" in
      let held := is_held s2 k in
      let s3 := store s2 k (Some v) in
      ({| s_mc := s_mc s3; s_sm := s_sm s3; s_wbp := s_wbp s3; s_sigwb := s_sigwb s3;
          s_sigif := if held then fset k true (s_sigif s3) else s_sigif s3;
          s_fresh := s_fresh s3; s_unk := s_unk s3; s_held := s_held s3 |}, [sv; v1; v2])
  | HPoke k v =>
      (* the model always knows where the mutation lands; the specification only when the pointer is fresh *)
      let (s1, v1) := model_unit s (OMutate k (fun _ => v)) "Mutate through a held pointer" in
      let s2 := if s_fresh s1 k
                then {| s_mc := s_mc s1; s_sm := fset k (Some v) (s_sm s1); s_wbp := s_wbp s1; s_sigwb := s_sigwb s1;
                        s_sigif := s_sigif s1; s_fresh := s_fresh s1; s_unk := s_unk s1; s_held := s_held s1 |}
                else {| s_mc := s_mc s1; s_sm := s_sm s1; s_wbp := s_wbp s1; s_sigwb := s_sigwb s1;
                        s_sigif := s_sigif s1; s_fresh := s_fresh s1; s_unk := fset k true (s_unk s1); s_held := s_held s1 |} in
      (s2, [v1])
  | HDelete k =>
      let (s1, v1) := model_unit s (ODelete k) "Delete" in
      let s2' := store s1 k None in
      (* a Delete that overlaps the held save of its key: same signature as a read that overlaps it *)
      let s2 := if is_held s k
                then {| s_mc := s_mc s2'; s_sm := s_sm s2'; s_wbp := s_wbp s2'; s_sigwb := s_sigwb s2';
                        s_sigif := fset k true (s_sigif s2'); s_fresh := s_fresh s2'; s_unk := s_unk s2'; s_held := s_held s2' |}
                else s2' in
      let sv := match find (fun kx => N.eqb (fst kx) k) (o_disk ob) with
                | Some (_, Some _) => classify s k "Delete left the key on disk"
                | _ => Ok
                end in
      (s2, [sv; v1])
  | HEvict num den saved =>
      let l := c_lfu (s_mc s) in
      let order := synth (l_len l * num / den) (map fst saved) l in
      let (s1, v1) := model_unit s (OEvict num den order) "Evict: the saves observed are not an eviction of lowest-frequency entries in the model" in
      let v2 := corr (kvs_eqb (c_evq (s_mc s1)) saved) "Evict: model hands other (key, value) pairs to the eviction goroutine than the implementation serialized" in
      let c2 := drain false (length (c_evq (s_mc s1))) (s_mc s1) in
      (mark_evict (with_mc s1 c2) None, [v1; v2])
  | HEvictHold num den saved held =>
      let l := c_lfu (s_mc s) in
      let order := synth (l_len l * num / den) (app (map fst saved) [held]) l in
      let (s1, v1) := model_unit s (OEvict num den order) "Evict(hold): the saves observed are not an eviction of lowest-frequency entries in the model" in
      let q := c_evq (s_mc s1) in
      let v2 := corr (kvs_eqb (firstn (length q - 1) q) saved && list_eqb N.eqb (map fst (skipn (length q - 1) q)) [held])
                     "Evict(hold): model's hand-offs differ from the saves observed" in
      let c2 := drain false (length q - 1) (s_mc s1) in
      (mark_evict (with_mc s1 c2) (Some held), [v1; v2])
  | HRelease saved =>
      let v2 := corr (kvs_eqb (c_evq (s_mc s)) saved) "Release: model's in-flight save differs from what was serialized" in
      let c2 := drain false (length (c_evq (s_mc s))) (s_mc s) in
      ({| s_mc := c2; s_sm := s_sm s; s_wbp := s_wbp s; s_sigwb := s_sigwb s; s_sigif := s_sigif s;
          s_fresh := s_fresh s; s_unk := s_unk s; s_held := None |}, [v2])
  | HWriteBack saved =>
      let (s1, v1) := model_unit s (OWriteBack (map fst saved)) "WriteBack: a key outside the lowest-frequency bucket was written back (or too often)" in
      let v2 := corr (kvs_eqb (c_wbq (s_mc s1)) saved) "WriteBack: model hands other values to the write-back goroutine" in
      let c2 := drain true (length (c_wbq (s_mc s1))) (s_mc s1) in
      ({| s_mc := c2; s_sm := s_sm s1; s_wbp := fun _ => true; s_sigwb := s_sigwb s1; s_sigif := s_sigif s1;
          s_fresh := s_fresh s1; s_unk := s_unk s1; s_held := s_held s1 |}, [v1; v2])
  | HFlushReopen saved =>
      let v2 := corr (kvs_perm (app (c_evq (s_mc s)) (flush_sends (c_lfu (s_mc s)))) saved) "Flush: model saves other entries than the implementation serialized" in
      let (s1, v1) := model_unit s OFlushReopen "Flush" in
      let s2 := mark_evict s1 None in
      let sv := map (fun k =>
                  let on_disk := match find (fun kx => N.eqb (fst kx) k) (o_disk ob) with Some (_, x) => x | None => None end in
                  if oN_eqb on_disk (s_sm s2 k) then Ok
                  else classify s2 k "after Flush and reopen a live key is missing on disk or has an old value (or a deleted key is back)") keys in
      (s2, app sv [v1; v2])
  end.

(* a key the plain map does not hold (deleted, or never created) must not be on disk *)
Definition absent_checks (s : st) (ob : obs) : list verdict :=
  map (fun kx => match s_sm s (fst kx), snd kx with
                 | None, Some _ => classify s (fst kx) "a deleted key is on disk again"
                 | _, _ => Ok
                 end) (o_disk ob).

Definition state_checks (s : st) (ob : obs) : list verdict :=
  app (absent_checks s ob)
  [ corr (Nat.eqb (l_len (c_lfu (s_mc s))) (o_len ob)) "Len: model and implementation hold a different number of entries";
    corr (forallb (fun kx => oN_eqb (c_disk (s_mc s) (fst kx)) (snd kx)) (o_disk ob)) "Badger content differs from the model's disk" ].

Fixpoint walk (keys : list N) (s : st) (h : list (hop * obs)) : list verdict :=
  match h with
  | [] => []
  | (o, ob) :: r =>
      let (s', vs) := do_hop keys s o ob in
      app vs (app (state_checks s' ob) (walk keys s' r))
  end.

Fixpoint first_model (l : list verdict) : option verdict :=
  match l with [] => None | ModelDiffers w :: _ => Some (ModelDiffers w) | _ :: l' => first_model l' end.

(* unexplained spec failure > model difference > known finding > ok *)
Definition check_case (c : case) : verdict :=
  let vs := walk (c_keys c) st0 (c_hist c) in
  match first_spec vs with
  | Some v => v
  | None => match first_model vs with
            | Some v => v
            | None => match first_bad vs with Some v => v | None => Ok end
            end
  end.
