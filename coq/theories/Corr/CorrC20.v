(* CorrC20.v — correspondence checker for C20 (uploads never block).
   The harness runs the real remote.Remote against a scripted in-process HTTP server (or a closed listener),
   or the real direct.Direct over a real storage, hands it a burst of jobs and dumps: the slowest Upload call,
   what the server / the storage received, and the log lines.  The oracle is [check_case]. *)
From Pyro Require Export Model.Base Model.Upstream Corr.Verdict.
Open Scope string_scope.
Open Scope N_scope.

(* what the scripted server saw of one request (query values as the raw text that arrived) *)
Record oreq := {
  o_path : bytes; o_name : bytes; o_from : bytes; o_until : bytes; o_spy : bytes; o_rate : bytes;
  o_units : bytes; o_agg : bytes; o_ctype : bytes; o_auth : option bytes; o_body : bytes
}.

Record case := {
  k_mode : umode;
  k_threads : nat;
  k_token : bytes;
  k_path : bytes;                (* path part of the configured upstream address *)
  k_jobs : list job;             (* in the order Upload was called; j_id = position *)
  k_tags : list bytes;           (* per job: what identifies its delivery (remote: the name; direct: its unique stack) *)
  k_hold : nat;                  (* paced runs: this many leading jobs were uploaded first and the harness saw every one
                                    of them in flight (each on its own worker, all hanging) before the rest of the burst
                                    was sent; 0 = plain burst *)
  k_refuse : bool;               (* the address is a closed listener: no request ever reaches a server *)
  k_max_latency_us : N;          (* slowest single Upload call *)
  k_reqs : list oreq;            (* remote: every request the server received *)
  k_delivered : list (bytes * N);(* tag -> number of times delivered *)
  k_bad_responses : N;           (* requests the server answered with 500 / closed / kept beyond the client timeout *)
  k_full_logs : N;               (* "queue is full" error lines *)
  k_err_logs : N;                (* "upload profile: ..." error lines *)
  k_panic_logs : N;              (* "recover stack" / "panic recovered" lines *)
  k_drained : bool               (* before the deadline: attempts + reported drops reached the burst size *)
}.

Definition latency_class_us : N := 200000.   (* 0.2 s: observed calls take < 1 ms; a blocked call lasts until the watchdog limit (seconds) *)

(* ---- decimal text of an integer (strconv.Itoa) ------------------------------------------------ *)
Fixpoint dec_digits (fuel : nat) (n : N) (acc : bytes) : bytes :=
  match fuel with
  | O => acc
  | S f => let acc' := (48 + n mod 10) :: acc in
           if n / 10 =? 0 then acc' else dec_digits f (n / 10) acc'
  end.
Definition dec_of_N (n : N) : bytes := dec_digits (S (N.to_nat (N.log2 n))) n [].
Definition dec_of_Z (z : Z) : bytes :=
  match z with
  | Z0 => [48]
  | Zpos p => dec_of_N (Npos p)
  | Zneg p => 45 :: dec_of_N (Npos p)
  end.

Definition obytes_eqb (a b : option bytes) : bool :=
  match a, b with
  | None, None => true
  | Some x, Some y => beqb x y
  | _, _ => false
  end.

Definition req_matches (r : request) (o : oreq) : bool :=
  beqb (rq_path r) (o_path o) && beqb (rq_name r) (o_name o) &&
  beqb (dec_of_Z (rq_from r)) (o_from o) && beqb (dec_of_Z (rq_until r)) (o_until o) &&
  beqb (rq_spy r) (o_spy o) && beqb (dec_of_N (rq_rate r)) (o_rate o) &&
  beqb (rq_units r) (o_units o) && beqb (rq_agg r) (o_agg o) && beqb (rq_ctype r) (o_ctype o) &&
  beqb (rq_body r) (o_body o).

Definition cfg_of (c : case) : ucfg :=
  {| c_mode := k_mode c; c_cap := 100; c_workers := k_threads c; c_token := k_token c; c_path := k_path c |}.

Fixpoint find_job (name : bytes) (l : list job) : option job :=
  match l with
  | [] => None
  | j :: l' => if beqb (j_name j) name then Some j else find_job name l'
  end.

Definition is_nil_trie (j : job) : bool := match j_trie j with None => true | Some _ => false end.

Definition sumcounts (l : list (bytes * N)) : N := fold_right (fun p n => snd p + n) 0 l.

Fixpoint mem_bytes (x : bytes) (l : list bytes) : bool :=
  match l with [] => false | y :: l' => beqb x y || mem_bytes x l' end.

(* the schedule the harness forces in a paced run: the first [hold] uploads, one Take per worker (every
   worker now hangs on its job), then the rest of the burst.  With hold = 0 no worker takes anything:
   the model then gives the LARGEST number of drops any schedule can produce. *)
Definition paced_schedule (hold : nat) (jobs : list job) : list uevent :=
  map (fun j => EUpload j false) (firstn hold jobs) ++
  map ETake (seq 0 hold) ++
  map (fun j => EUpload j false) (skipn hold jobs).

Definition ids_of (l : list job) : list N := map j_id l.
Fixpoint memN (x : N) (l : list N) : bool :=
  match l with [] => false | y :: l' => N.eqb x y || memN x l' end.

Fixpoint sort_insert (x : bytes) (l : list bytes) : list bytes :=
  match l with
  | [] => [x]
  | y :: l' => if bltb y x then y :: sort_insert x l' else x :: l
  end.
Definition sort_bytes (l : list bytes) : list bytes := fold_right sort_insert [] l.

Definition check_case (c : case) : verdict :=
  let cfg := cfg_of c in
  let n := N.of_nat (length (k_jobs c)) in
  let attempts := (if k_refuse c then k_err_logs c else sumcounts (k_delivered c)) + k_panic_logs c in
  let npanic := N.of_nat (length (filter is_nil_trie (k_jobs c))) in
  let model := u_run cfg (paced_schedule (k_hold c) (k_jobs c)) (u_init cfg) in
  let model_drops := N.of_nat (length (u_drops model)) in
  let dropped_ids := ids_of (u_drops model) in
  (* tags of the jobs the model says are delivered in a paced run (accepted, trie not nil) *)
  let expect_tags :=
    map snd (filter (fun jt => negb (memN (j_id (fst jt)) dropped_ids) && negb (is_nil_trie (fst jt)))
                    (combine (k_jobs c) (k_tags c))) in
  combine_verdicts [
    (* --- the property evaluated on what the implementation did --- *)
    spec (k_max_latency_us c <? latency_class_us) "an Upload call took 200 ms or longer (blocked)";
    spec (forallb (fun p => snd p <=? 1) (k_delivered c)) "a job was delivered more than once";
    spec (k_drained c && (attempts + k_full_logs c =? n))
         "a job was neither attempted nor reported as dropped (accepted + dropped <> burst, or uploads stopped)";
    spec (forallb (fun p => mem_bytes (fst p) (k_tags c)) (k_delivered c)) "something was delivered that was never uploaded";
    spec (forallb (fun o => obytes_eqb (o_auth o) (auth_header (k_token c))) (k_reqs c))
         "bearer token missing although configured, or present although not configured";
    spec (k_panic_logs c <=? npanic) "more recovered panics than jobs that can panic";
    (* --- model vs implementation --- *)
    corr (forallb (fun o => match find_job (o_name o) (k_jobs c) with
                            | Some j => match build_request cfg j with
                                        | Some r => req_matches r o
                                        | None => false
                                        end
                            | None => false
                            end) (k_reqs c))
         "a received request differs from the request the model builds for that job";
    corr (match k_mode c with
          | MRemote => N.of_nat (length (k_reqs c)) =? (if k_refuse c then 0 else sumcounts (k_delivered c))
          | MDirect => true
          end) "request list and delivery counts disagree";
    corr (if Nat.eqb (k_hold c) 0 then k_full_logs c <=? model_drops else k_full_logs c =? model_drops)
         "number of dropped jobs differs from the queue model (capacity 100 + one job held per hung worker)";
    corr (if Nat.eqb (k_hold c) 0 then true
          else list_eqb beqb (sort_bytes (map fst (k_delivered c))) (sort_bytes expect_tags) || k_refuse c)
         "paced run: the set of delivered jobs differs from the queue model";
    corr (match k_mode c with
          | MRemote => k_err_logs c =? (if k_refuse c then attempts - k_panic_logs c else k_bad_responses c)
          | MDirect => true
          end) "error log lines differ from the number of failed attempts"
  ].
