(* CorrC07.v — correspondence checker for C07 (selectors and label listings). *)
From Pyro Require Export Model.Base Model.Key Model.Dimension Model.Labels Model.Index Corr.Verdict.
Open Scope string_scope.

Inductive dop := DIns (k : bytes) | DDel (k : bytes).

Inductive sop :=
| SPut (name : runes) (stack : bytes) (c : N)      (* Put(ParseKey(name), tree {stack: c}) *)
| SDelete (name : runes).                          (* Delete(ParseKey(name)) *)

Inductive case :=
(* dimension level: per dimension the Insert/Delete calls, then VerifKeys; for several argument orders
   (lists of indices into the family) what Intersection and Union returned *)
| CDim (ops : list (list dop)) (keys : list (list bytes))
       (orders : list (list nat * list bytes * list bytes))
(* storage level: a history through the real Storage, then Get for selectors, GetKeys, GetValues per key,
   and the dump of some dimensions (by cache key "k:v") *)
| CStore (ops : list sop)
         (gets : list (runes * list (bytes * N)))
         (keys : list bytes)
         (values : list (bytes * list bytes))
         (dims : list (bytes * list bytes))
         (hkeys : list bytes)                       (* GET /labels through the server mux, JSON-decoded *)
         (hvalues : list (bytes * list bytes)).     (* GET /label-values?label=k *)

Definition beq (a b : bytes) : bool := list_eqb N.eqb a b.
Definition bl_eqb (a b : list bytes) : bool := list_eqb beq a b.
Definition sort_set (l : list bytes) : list bytes := fold_left (fun d k => d_insert k d) l [].
Definition set_eqb (a b : list bytes) : bool := bl_eqb (sort_set a) (sort_set b).
Definition memb (k : bytes) (l : list bytes) : bool := existsb (beq k) l.
Fixpoint nodupb (l : list bytes) : bool :=
  match l with [] => true | x :: l' => negb (memb x l') && nodupb l' end.

(* ---------- dimension level ---------- *)
Definition run_dops (l : list dop) : dim :=
  fold_left (fun d o => match o with DIns k => d_insert k d | DDel k => d_delete k d end) l [].

(* the set a dimension must hold, from its history alone: a key is in iff its last operation is an insert *)
Definition spec_set (l : list dop) : list bytes :=
  sort_set (fold_left (fun s o => match o with
                                  | DIns k => if memb k s then s else k :: s
                                  | DDel k => filter (fun x => negb (beq x k)) s
                                  end) l []).

Definition pick {A} (l : list A) (d : A) (idx : list nat) : list A := map (fun i => nth i l d) idx.

Definition spec_inter (sets : list (list bytes)) : list bytes :=
  match sets with
  | [] => []
  | s :: rest => filter (fun k => forallb (memb k) rest) s
  end.
Definition spec_union (sets : list (list bytes)) : list bytes := sort_set (concat sets).

Definition check_order (sets : list (list bytes)) (mdims : list dim) (o : list nat * list bytes * list bytes) : list verdict :=
  match o with
  | (idx, gi, gu) =>
      let ss := pick sets [] idx in
      let md := pick mdims [] idx in
      [ spec (bl_eqb gi (spec_inter ss)) "Intersection is not the sorted duplicate-free list of the keys present in all dimensions";
        spec (nodupb gu && bl_eqb (sort_set gu) (spec_union ss)) "Union is not the duplicate-free set of the keys present in some dimension";
        corr (match intersection md with Some r => bl_eqb r gi | None => false end) "intersection model differs from dimension.Intersection";
        corr (set_eqb (union md) gu) "union model differs from dimension.Union" ]
  end.

(* ---------- storage level ---------- *)
Definition to_iop (o : sop) : iop :=
  match o with
  | SPut n s c => IPut (parse n) s c
  | SDelete n => IDelete (parse n)
  end.

Definition pr_nz (p : profile) : profile := filter (fun sc => negb (N.eqb (snd sc) 0)) p.
Definition pr_norm (p : profile) : profile := fold_left (fun acc sc => pr_add (fst sc) (snd sc) acc) p [].
Definition pr_eqb (a b : profile) : bool :=
  list_eqb (fun x y => beq (fst x) (fst y) && N.eqb (snd x) (snd y)) (pr_nz (pr_norm a)) (pr_nz (pr_norm b)).

Fixpoint assoc (k : bytes) (l : list (bytes * list bytes)) : option (list bytes) :=
  match l with
  | [] => None
  | (k', v) :: l' => if beq k k' then Some v else assoc k l'
  end.

(* every ingested pair is listed verbatim *)
Definition pair_listed (keys : list bytes) (values : list (bytes * list bytes)) (kv : runes * runes) : bool :=
  memb (fst kv) keys && match assoc (fst kv) values with Some vs => memb (snd kv) vs | None => false end.

Definition puts_of (ops : list iop) : list labels :=
  flat_map (fun o => match o with IPut K _ _ => [K] | _ => [] end) ops.

(* signature of the candidate finding dimension-name-colon: some ingested tag name contains ':' *)
Definition tag_name_colon (ops : list iop) : bool :=
  existsb (fun K => existsb (fun kv => has c_colon (fst kv)) K) (puts_of ops).

Definition spec_or_known (sig : bool) (b : bool) (what : string) : verdict :=
  if b then Ok else if sig then Known "dimension-name-colon" else SpecFails what.

Definition check_case (c : case) : verdict :=
  match c with
  | CDim ops keys orders =>
      let sets := map spec_set ops in
      let mdims := map run_dops ops in
      combine_verdicts (
        [ spec (list_eqb bl_eqb keys sets) "a dimension is not the sorted set of the keys inserted and not deleted";
          corr (list_eqb bl_eqb mdims keys) "d_insert/d_delete model differs from Dimension.Insert/Delete" ]
        ++ flat_map (check_order sets mdims) orders)
  | CStore sops gets keys values dims hkeys hvalues =>
      let ops := map to_iop sops in
      let st := ix_run ops in
      let sig := tag_name_colon ops in
      combine_verdicts (
        flat_map (fun g =>
          let Q := parse (fst g) in
          [ spec_or_known sig (pr_eqb (snd g) (spec_get Q ops))
              "Get does not aggregate exactly the live series whose tags include the selector's pairs, each once";
            corr (match ix_get Q st with Some p => pr_eqb p (snd g) | None => false end)
              "index model lookup differs from Storage.Get" ]) gets
        ++ [ spec (forallb (fun K => forallb (fun kv => has c_colon (fst kv) || pair_listed keys values kv) K) (puts_of ops))
               "an ingested tag name or value is not listed verbatim by GetKeys/GetValues";
             spec (forallb (fun K => match assoc name_key values with
                                     | Some vs => memb (app_name K) vs
                                     | None => false end) (live ops))
               "an application with data is missing from GetValues(__name__)";
             spec (forallb (fun K => forallb (fun kv => has c_colon (fst kv) || pair_listed hkeys hvalues kv) K) (puts_of ops))
               "an ingested tag name or value is not listed verbatim by GET /labels, /label-values";
             spec (forallb (fun K => match assoc name_key hvalues with
                                     | Some vs => memb (app_name K) vs
                                     | None => false end) (live ops))
               "an application with data is missing from GET /label-values?label=__name__";
             corr (set_eqb (get_keys (ix_labels st)) keys) "labels model: get_keys differs from GetKeys";
             corr (set_eqb (get_keys (ix_labels st)) hkeys) "labels model: get_keys differs from GET /labels" ]
        ++ map (fun kv => corr (set_eqb (get_values (fst kv) (ix_labels st)) (snd kv)) "labels model: get_values differs from GetValues") values
        ++ map (fun kv => corr (set_eqb (get_values (fst kv) (ix_labels st)) (snd kv)) "labels model: get_values differs from GET /label-values") hvalues
        ++ map (fun nd => corr (bl_eqb (dm_get (fst nd) (ix_dims st)) (snd nd)) "index model: a dimension differs from the stored one") dims)
  end.
