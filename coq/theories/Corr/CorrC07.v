(* CorrC07.v — correspondence checker for C07 (selectors and label listings). *)
From Pyro Require Export Model.Base Model.Key Model.Dimension Model.Labels Model.Index Corr.Verdict.
Open Scope string_scope.

Inductive dop := DIns (k : bytes) | DDel (k : bytes).

Inductive sop :=
| SPut (name : runes) (stack : bytes) (c : N) (t : N)   (* Put(ParseKey(name), tree {stack: c}) over [t, t+10), t unix seconds *)
| SDelete (name : runes)                                (* Delete(ParseKey(name)) *)
| SRetain (threshold : N)                               (* DeleteDataBefore(time.Unix(threshold, 0)): a retention pass *)
| SRestart                                              (* graceful restart: Close, New on the same directory *)
| SEvict.                                               (* the whole dimensions cache is evicted to disk; later uses reload *)

Inductive case :=
(* dimension level: per dimension the Insert/Delete calls, then VerifKeys; for several argument orders
   (lists of indices into the family) what Intersection and Union returned *)
| CDim (ops : list (list dop)) (keys : list (list bytes))
       (reread : list (option (list bytes)))   (* VerifKeys of FromBytes(Bytes()) per dimension; None = error *)
       (orders : list (list nat * list bytes * list bytes))
(* concurrency on one dimension: starting from the keys `init`, goroutines Insert the keys `ins` (none in init)
   while others Delete the keys `dels` (all in init, none in ins); `finals` = the distinct VerifKeys seen at the end
   of the rounds.  Every serialisation of these calls gives the same set. *)
| CConc (init ins dels : list bytes) (finals : list (list bytes))
(* storage level: a history through the real Storage, then Get for selectors, GetKeys, GetValues per key,
   and the dump of some dimensions (by cache key "k:v") *)
| CStore (ops : list sop)
         (gets : list (runes * list (bytes * N)))
         (keys : list bytes)
         (values : list (bytes * list bytes))
         (dims : list (bytes * list bytes))
         (hkeys : list bytes)                       (* GET /labels through the server mux, JSON-decoded *)
         (hvalues : list (bytes * list bytes))      (* GET /label-values?label=k *)
         (hide : list bytes).                       (* config HideApplications *)

Definition beq (a b : bytes) : bool := list_eqb N.eqb a b.
Definition bl_eqb (a b : list bytes) : bool := list_eqb beq a b.
Definition sort_set (l : list bytes) : list bytes := fold_left (fun d k => d_insert k d) l [].
Definition set_eqb (a b : list bytes) : bool := bl_eqb (sort_set a) (sort_set b).
Definition memb (k : bytes) (l : list bytes) : bool := existsb (beq k) l.
Fixpoint nodupb (l : list bytes) : bool :=
  match l with [] => true | x :: l' => negb (memb x l') && nodupb l' end.

(* ---------- dimension level ---------- *)
Definition run_dops (l : list dop) : dim :=
  fold_left (fun d o => match o with DIns k => d_insert k d | DDel k => d_delete k d end) l [].

(* the set a dimension must hold, from its history alone: a key is in iff its last operation is an insert *)
Definition spec_set (l : list dop) : list bytes :=
  sort_set (fold_left (fun s o => match o with
                                  | DIns k => if memb k s then s else k :: s
                                  | DDel k => filter (fun x => negb (beq x k)) s
                                  end) l []).

Definition pick {A} (l : list A) (d : A) (idx : list nat) : list A := map (fun i => nth i l d) idx.

Definition spec_inter (sets : list (list bytes)) : list bytes :=
  match sets with
  | [] => []
  | s :: rest => filter (fun k => forallb (memb k) rest) s
  end.
Definition spec_union (sets : list (list bytes)) : list bytes := sort_set (concat sets).

Definition check_order (sets : list (list bytes)) (mdims : list dim) (o : list nat * list bytes * list bytes) : list verdict :=
  match o with
  | (idx, gi, gu) =>
      let ss := pick sets [] idx in
      let md := pick mdims [] idx in
      [ spec (bl_eqb gi (spec_inter ss)) "Intersection is not the sorted duplicate-free list of the keys present in all dimensions";
        spec (nodupb gu && bl_eqb (sort_set gu) (spec_union ss)) "Union is not the duplicate-free set of the keys present in some dimension";
        corr (match intersection md with Some r => bl_eqb r gi | None => false end) "intersection model differs from dimension.Intersection";
        corr (set_eqb (union md) gu) "union model differs from dimension.Union" ]
  end.

(* ---------- storage level ---------- *)
(* A retention pass removes a series from the index exactly when the root of its segment tree ends at or
   before the threshold.  The root is the smallest block of 10*10^k seconds, aligned to Go's zero time
   (year 1 = unix -62135596800), that contains every upload since the segment was created; uploads here are
   single 10 s slots.  This is computed from the history alone. *)
Definition yoff : N := 62135596800.
Fixpoint root_end_aux (fuel : nat) (d lo hi : N) : N :=
  match fuel with
  | O => (lo / d + 1) * d
  | S f => if N.eqb (lo / d) (hi / d) then (lo / d + 1) * d else root_end_aux f (d * 10) lo hi
  end.
Definition root_end_abs (ts : list N) : N :=
  match ts with
  | [] => 0
  | t :: ts' => root_end_aux 16 10 (fold_left N.min ts' t + yoff) (fold_left N.max ts' t + yoff)
  end.

Definition ups_t := list (labels * N).     (* live uploads: series, start time *)
Definition series_list (ups : ups_t) : list labels :=
  fold_left (fun acc x => if existsb (labels_eqb (fst x)) acc then acc else (acc ++ [fst x])%list) ups [].
Definition expired_series (T : N) (ups : ups_t) : list labels :=
  filter (fun K => N.leb (root_end_abs (map snd (filter (fun x => labels_eqb (fst x) K) ups))) (T / 10 * 10 + yoff))
         (series_list ups).

Definition trans_step (acc : list iop * ups_t) (o : sop) : list iop * ups_t :=
  match o with
  | SPut n s c t => let K := parse n in ((fst acc ++ [IPut K s c])%list, (snd acc ++ [(K, t)])%list)
  | SDelete n => let Q := parse n in
                 ((fst acc ++ [IDelete Q])%list, filter (fun x => negb (sub_labels Q (fst x))) (snd acc))
  | SRetain T => let ex := expired_series T (snd acc) in
                 ((fst acc ++ map IDrop ex)%list, filter (fun x => negb (existsb (labels_eqb (fst x)) ex)) (snd acc))
  | SRestart => acc                (* nothing observable may change *)
  | SEvict => acc
  end.
Definition to_iops (l : list sop) : list iop := fst (fold_left trans_step l ([], [])).

Definition pr_nz (p : profile) : profile := filter (fun sc => negb (N.eqb (snd sc) 0)) p.
Definition pr_norm (p : profile) : profile := fold_left (fun acc sc => pr_add (fst sc) (snd sc) acc) p [].
Definition pr_eqb (a b : profile) : bool :=
  list_eqb (fun x y => beq (fst x) (fst y) && N.eqb (snd x) (snd y)) (pr_nz (pr_norm a)) (pr_nz (pr_norm b)).

Fixpoint assoc (k : bytes) (l : list (bytes * list bytes)) : option (list bytes) :=
  match l with
  | [] => None
  | (k', v) :: l' => if beq k k' then Some v else assoc k l'
  end.

(* every ingested pair is listed verbatim; the application name of a hidden application (config
   HideApplications) is exempt: it must be absent from the application listing *)
Definition pair_listed (hide keys : list bytes) (values : list (bytes * list bytes)) (kv : runes * runes) : bool :=
  memb (fst kv) keys &&
  (beq (fst kv) name_key && memb (snd kv) hide
   || match assoc (fst kv) values with Some vs => memb (snd kv) vs | None => false end).

(* the application listing: every application with data that is not hidden, and no hidden one *)
Definition apps_listed_ok (hide : list bytes) (values : list (bytes * list bytes)) (apps : list bytes) : bool :=
  match assoc name_key values with
  | Some vs => forallb (fun a => if memb a hide then negb (memb a vs) else memb a vs) apps
               && forallb (fun v => negb (memb v hide)) vs
  | None => false
  end.

(* Storage.GetValues: for key __name__ the hidden applications are skipped *)
Definition visible (hide : list bytes) (k : bytes) (vs : list bytes) : list bytes :=
  if beq k name_key then filter (fun v => negb (memb v hide)) vs else vs.

Definition puts_of (ops : list iop) : list labels :=
  flat_map (fun o => match o with IPut K _ _ => [K] | _ => [] end) ops.

(* signature of the candidate finding dimension-name-colon: some ingested tag name contains ':' *)
Definition tag_name_colon (ops : list iop) : bool :=
  existsb (fun K => existsb (fun kv => has c_colon (fst kv)) K) (puts_of ops).

Definition spec_or_known (sig : bool) (b : bool) (what : string) : verdict :=
  if b then Ok else if sig then Known "dimension-name-colon" else SpecFails what.

Definition check_case (c : case) : verdict :=
  match c with
  | CDim ops keys reread orders =>
      let sets := map spec_set ops in
      let mdims := map run_dops ops in
      combine_verdicts (
        [ spec (list_eqb bl_eqb keys sets) "a dimension is not the sorted set of the keys inserted and not deleted";
          spec (Nat.eqb (List.length reread) (List.length sets) &&
                forallb (fun ab => match fst ab with Some x => bl_eqb x (snd ab) | None => false end) (combine reread sets))
            "a dimension written with Bytes() and read back with FromBytes() is not the same set of keys";
          corr (list_eqb bl_eqb mdims keys) "d_insert/d_delete model differs from Dimension.Insert/Delete" ]
        ++ flat_map (check_order sets mdims) orders)
  | CConc init ins dels finals =>
      let expected := run_dops (map DIns init ++ map DIns ins ++ map DDel dels)%list in
      let pre := forallb (fun k => negb (memb k init) && negb (memb k dels)) ins && forallb (fun k => memb k init) dels in
      combine_verdicts
        [ corr pre "harness: concurrent stream outside its precondition";
          spec (negb (is_nil finals) && forallb (fun f => bl_eqb f expected) finals)
            "after concurrent Insert/Delete a dimension is not the sorted duplicate-free set inserted minus deleted" ]
  | CStore sops gets keys values dims hkeys hvalues hide =>
      let ops := to_iops sops in
      let st := ix_run ops in
      let sig := tag_name_colon ops in
      combine_verdicts (
        flat_map (fun g =>
          let Q := parse (fst g) in
          [ spec_or_known sig (pr_eqb (snd g) (spec_get Q ops))
              "Get does not aggregate exactly the live series whose tags include the selector's pairs, each once";
            corr (match ix_get Q st with Some p => pr_eqb p (snd g) | None => false end)
              "index model lookup differs from Storage.Get" ]) gets
        ++ [ spec (forallb (fun K => forallb (fun kv => has c_colon (fst kv) || pair_listed hide keys values kv) K) (puts_of ops))
               "an ingested tag name or value is not listed verbatim by GetKeys/GetValues";
             spec (apps_listed_ok hide values (map app_name (live ops)))
               "GetValues(__name__) is not the applications with data minus exactly the hidden ones";
             spec (forallb (fun K => forallb (fun kv => has c_colon (fst kv) || pair_listed hide hkeys hvalues kv) K) (puts_of ops))
               "an ingested tag name or value is not listed verbatim by GET /labels, /label-values";
             spec (apps_listed_ok hide hvalues (map app_name (live ops)))
               "GET /label-values?label=__name__ is not the applications with data minus exactly the hidden ones";
             corr (set_eqb (get_keys (ix_labels st)) keys) "labels model: get_keys differs from GetKeys";
             corr (set_eqb (get_keys (ix_labels st)) hkeys) "labels model: get_keys differs from GET /labels" ]
        ++ map (fun kv => corr (set_eqb (visible hide (fst kv) (get_values (fst kv) (ix_labels st))) (snd kv)) "labels model: get_values differs from GetValues") values
        ++ map (fun kv => corr (set_eqb (visible hide (fst kv) (get_values (fst kv) (ix_labels st))) (snd kv)) "labels model: get_values differs from GET /label-values") hvalues
        ++ map (fun nd => corr (bl_eqb (dm_get (fst nd) (ix_dims st)) (snd nd)) "index model: a dimension differs from the stored one") dims)
  end.
