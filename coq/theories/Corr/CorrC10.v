(* CorrC10.v — correspondence checker for C10 (the rendered flamegraph is well formed and accounts
   for every sample).

   A case is one tree (as dumped from the Go tree that was rendered) and, for each budget, what
   Tree.FlamebearerStruct(budget) returned plus the threshold Tree.minValue(budget).
   [check_case]
   (i)  undoes the delta encoding of what Go returned and evaluates the property's own statement on it
        (SpecFails).  Nothing in this part uses Model/Flame.v or Model/Cappedarr.v: the threshold is
        recomputed as "the N-th largest total, or 0 when the tree has at most N nodes" by sorting, the
        expected bars per level are recomputed in natural (left-to-right) order.
        The geometric statements and the N-th-largest reading presuppose total >= self + children
        (t_subb: what insert/merge/decode/scale produce, C09); on trees violating it (a small
        hand-built stream) only index validity and the fold rule relative to Go's own threshold are
        checked.
   (ii) compares the model's flamebearer / t_minval with Go's output (ModelDiffers). *)
From Pyro Require Export Model.Base Model.Tree Model.Cappedarr Model.Flame Corr.Verdict.
Open Scope string_scope.

Record run := {
  r_max : nat;                    (* budget *)
  r_names : list bytes;           (* Go: Flamebearer.Names *)
  r_levels : list (list Z);       (* Go: Flamebearer.Levels (delta encoded, flat) *)
  r_numticks : Z;
  r_maxself : Z;
  r_minval : N;                   (* Go: Tree.minValue(budget) (direct runs only) *)
  r_param : option bytes;         (* None: FlamebearerStruct(r_max) was called directly.
                                     Some s: the flamebearer came from GET /render?format=json on the real server and
                                     s is the raw value of the max-nodes query parameter ("" when absent) *)
  r_default : nat                 (* /render runs: config MaxNodesRender in force *)
}.

(* strconv.Atoi: optional sign, at least one decimal digit, nothing else, value within int64 *)
Definition is_digit (b : N) : bool := (48 <=? b)%N && (b <=? 57)%N.
Fixpoint digits_val (acc : Z) (s : bytes) : option Z :=
  match s with
  | [] => Some acc
  | b :: s' => if is_digit b then digits_val (acc * 10 + Z.of_N (b - 48))%Z s' else None
  end.
Definition atoi (s : bytes) : option Z :=
  let '(neg, ds) := match s with
                    | 43%N :: r => (false, r)
                    | 45%N :: r => (true, r)
                    | _ => (false, s)
                    end in
  match ds with
  | [] => None
  | _ => match digits_val 0%Z ds with
         | None => None
         | Some v => let v' := if neg then (- v)%Z else v in
                     if Z.leb (- 9223372036854775808)%Z v' && Z.ltb v' 9223372036854775808%Z then Some v' else None
         end
  end.

(* the budget the property expects to be in force: the max-nodes parameter when it is an integer > 0,
   the configured default otherwise (absent, 0, negative, junk) *)
Definition eff_budget (r : run) : nat :=
  match r_param r with
  | None => r_max r
  | Some s => match atoi s with
              | Some v => if Z.ltb 0 v then Z.to_nat v else r_default r
              | None => r_default r
              end
  end.

(* c_runs: renders of c_tree (a freshly built tree object), one per budget.
   c_seq: a multi-step sequence on ONE tree object — renders interleaved with Merge / Insert calls on that same
   object; each entry is the tree as dumped immediately before the render, and what the render returned.  (A
   render must depend on nothing but the tree as it is at that moment and the budget: state carried on the tree
   object between calls, e.g. a remembered threshold, shows up here and only here.) *)
Record case := { c_tree : tnode; c_runs : list run; c_seq : list (tnode * run);
                 (* renders of ONE tree object taken while another goroutine keeps inserting into it: the tree a render saw
                    is not known, so each result is checked on its own (self-consistency) *)
                 c_conc : list run }.

(* ---------------- specification side (independent of the model) ---------------- *)

Fixpoint all_totals (t : tnode) : list N :=
  match t with TNode _ _ tot ch => tot :: flat_map all_totals ch end.

Fixpoint ins_desc (v : N) (l : list N) : list N :=
  match l with
  | [] => [v]
  | x :: l' => if N.leb x v then v :: l else x :: ins_desc v l'
  end.
Definition sort_desc (l : list N) : list N := fold_right ins_desc [] l.

(* the N-th largest total; everything (threshold 0) when the tree has at most N nodes *)
Definition theta_spec (maxNodes : nat) (t : tnode) : N :=
  let ts := all_totals t in
  if Nat.leb (length ts) maxNodes then 0 else nth (pred maxNodes) (sort_desc ts) 0.

(* expected bars per level in left-to-right order: (total, self, name) *)
Definition sbar := (N * N * bytes)%type.

Fixpoint zipapp {A} (a b : list (list A)) : list (list A) :=
  match a, b with
  | [], _ => b
  | _, [] => a
  | x :: a', y :: b' => (x ++ y)%list :: zipapp a' b'
  end.

Fixpoint spec_sub (th : N) (t : tnode) {struct t} : list (list sbar) :=
  match t with
  | TNode n s tot ch =>
      [(tot, s, n)] ::
      (fix go (l : list tnode) (ot : N) {struct l} : list (list sbar) :=
         match l with
         | [] => if N.eqb ot 0 then [] else [[(ot, ot, other_name)]]
         | c :: rest =>
             if N.leb th (t_total c) then zipapp (spec_sub th c) (go rest ot)
             else go rest (ot + t_total c)
         end) ch 0
  end.

Definition spec_levels (th : N) (t : tnode) : list (list sbar) :=
  if N.leb th (t_total t) || beqb (t_name t) other_name then spec_sub th t else [].

(* ---------------- decidable statement of the property on decoded bars ---------------- *)

Definition zb_x (b : zbar) : Z := match b with (x, _, _, _) => x end.
Definition zb_total (b : zbar) : Z := match b with (_, t, _, _) => t end.
Definition zb_self (b : zbar) : Z := match b with (_, _, s, _) => s end.
Definition zb_idx (b : zbar) : Z := match b with (_, _, _, i) => i end.

Definition root_ok (total : Z) (levels : list (list zbar)) : bool :=
  match levels with
  | [(x, t, _, i)] :: _ => Z.eqb x 0 && Z.eqb t total && Z.eqb i 0
  | _ => false
  end.

(* b lies inside the part of p that is not p's self time *)
Definition inside (p b : zbar) : bool :=
  Z.leb (zb_x p + zb_self p) (zb_x b) && Z.leb (zb_x b + zb_total b) (zb_x p + zb_total p).

Fixpoint nesting_ok (levels : list (list zbar)) : bool :=
  match levels with
  | [] => true
  | l0 :: rest =>
      match rest with
      | [] => true
      | l1 :: _ => forallb (fun b => existsb (fun p => inside p b) l0) l1 && nesting_ok rest
      end
  end.

Fixpoint ordered_from (lo : Z) (l : list zbar) : bool :=
  match l with
  | [] => true
  | b :: l' => Z.leb lo (zb_x b) && Z.leb 0 (zb_total b) && ordered_from (zb_x b + zb_total b) l'
  end.
Definition disjoint_ok (levels : list (list zbar)) : bool := forallb (ordered_from 0) levels.

Definition names_ok (names : list bytes) (levels : list (list zbar)) : bool :=
  forallb (forallb (fun b => Z.leb 0 (zb_idx b) && Z.ltb (zb_idx b) (Z.of_nat (length names)))) levels &&
  match levels with
  | [] => true
  | _ => match names with n0 :: _ => beqb n0 total_name | [] => false end
  end.

Definition sum_self (levels : list (list zbar)) : Z :=
  fold_right Z.add 0%Z (map zb_self (concat levels)).

(* (total, self, original name) of each bar; index 0 stands for the root's own name *)
Definition resolve (root_name : bytes) (names : list bytes) (b : zbar) : sbar :=
  (Z.to_N (zb_total b), Z.to_N (zb_self b),
   if Z.eqb (zb_idx b) 0 then root_name else nth (Z.to_nat (zb_idx b)) names []).

Definition sbar_eqb (a b : sbar) : bool :=
  match a, b with (t1, s1, n1), (t2, s2, n2) => N.eqb t1 t2 && N.eqb s1 s2 && beqb n1 n2 end.

Definition nonneg (levels : list (list zbar)) : bool :=
  forallb (forallb (fun b => Z.leb 0 (zb_x b) && Z.leb 0 (zb_total b) && Z.leb 0 (zb_self b))) levels.

Definition check_run (t : tnode) (r : run) : list verdict :=
  let consistent := t_subb t in
  let total := Z.of_N (t_total t) in
  match decode_levels (r_levels r) with
  | None => [SpecFails "a level is not a sequence of 4-number bars"]
  | Some lv =>
    let budget := eff_budget r in
    let direct := match r_param r with None => true | Some _ => false end in
    let th := if consistent then theta_spec budget t else r_minval r in
    [ (* --- the property evaluated on what the implementation returned --- *)
      spec (Z.eqb (r_numticks r) total) "numTicks is not the root total";
      spec (names_ok (r_names r) lv) "a name index is out of range or names[0] is not 'total'";
      spec (negb consistent || root_ok total lv) "level 0 is not a single bar [0,total)";
      spec (negb consistent || (nonneg lv && nesting_ok lv)) "a bar is not inside the non-self part of a bar one level up";
      spec (negb consistent || disjoint_ok lv) "bars of one level overlap or are out of order";
      spec (negb (t_exactb t) || Z.eqb (sum_self lv) total) "self values of all bars do not add up to the total";
      spec (negb consistent || Z.leb (sum_self lv) total) "self values of all bars exceed the total";
      spec (list_eqb (list_eqb sbar_eqb) (map (map (resolve (t_name t) (r_names r))) lv) (spec_levels th t))
           "bars are not exactly the frames reaching the threshold plus one 'other' bar per parent for the rest";
      (* --- model vs implementation --- *)
      corr (negb direct || N.eqb (t_minval budget t) (r_minval r)) "t_minval model differs from Tree.minValue";
      (let m := flamebearer budget t in
       corr (list_eqb beqb (fb_names m) (r_names r)
             && list_eqb (list_eqb Z.eqb) (fb_levels m) (r_levels r)
             && Z.eqb (Z.of_N (fb_numticks m)) (r_numticks r)
             && Z.eqb (Z.of_N (fb_maxself m)) (r_maxself r))
            "flamebearer model differs from FlamebearerStruct") ]
  end.

(* what every single result must satisfy whatever state of a consistent (Insert-built) tree it was taken from *)
Definition check_conc (r : run) : list verdict :=
  match decode_levels (r_levels r) with
  | None => [SpecFails "concurrent render: a level is not a sequence of 4-number bars"]
  | Some lv =>
      [ spec (root_ok (r_numticks r) lv) "concurrent render: level 0 is not a single bar [0,numTicks)";
        spec (Z.eqb (sum_self lv) (r_numticks r)) "concurrent render: self values of all bars do not add up to numTicks";
        spec (names_ok (r_names r) lv) "concurrent render: a name index is out of range or names[0] is not 'total'";
        spec (nonneg lv && nesting_ok lv && disjoint_ok lv) "concurrent render: bars not nested / not disjoint" ]
  end.

Definition check_case (c : case) : verdict :=
  combine_verdicts (flat_map (check_run (c_tree c)) (c_runs c) ++ flat_map (fun tr => check_run (fst tr) (snd tr)) (c_seq c)
                    ++ flat_map check_conc (c_conc c)).
