(* CorrC09.v — correspondence checker for C09 (merge is addition). *)
From Pyro Require Export Model.Base Model.Tree Corr.Verdict.
Open Scope string_scope.

Record case := {
  c_stacks : list (list (bytes * N));   (* per tree: the (key, count) insertions *)
  c_built : list tnode;                 (* Go: dump of each tree after the insertions *)
  c_serial : tnode;                     (* Go: MergeTriesSerially *)
  c_conc : tnode;                       (* Go: MergeTriesConcurrently(workers) *)
  c_workers : nat;
  c_m : N; c_d : N;                     (* ratio used by Clone on the first tree *)
  c_clone : tnode;                      (* Go: built[0].Clone(m/d) *)
  c_dec_nodict : option tnode;          (* Go: DeserializeNoDict(SerializeNoDict(2^20)) of the concurrent merge *)
  c_dec_dict : option tnode;            (* Go: Deserialize(d, Serialize(d, 2^20)) of it, fresh dictionary *)
  c_dec_stale : option tnode;           (* Go: Deserialize(empty dictionary, the same bytes): placeholder names *)
  c_src_untouched : bool                (* Go: sources dumped identical before/after merge and clone *)
}.

Definition build (ss : list (bytes * N)) : tnode :=
  fold_left (fun t kv => t_insert (fst kv) (snd kv) t) ss t_empty.

(* stack-by-stack sum of what was inserted: the specification side, independent of t_merge *)
Definition den_of_stacks (ss : list (bytes * N)) : list (list bytes * N) :=
  pnorm (map (fun kv => (bsplit 59 (fst kv), snd kv)) ss).

Definition sum_dens (l : list (list (list bytes * N))) : list (list bytes * N) :=
  pnorm (concat l).

Fixpoint clone_spec (m d : N) (a b : tnode) {struct a} : bool :=
  match a, b with
  | TNode an as_ at_ ach, TNode bn bs bt bch =>
      beqb an bn && N.eqb bs (as_ * m / d) && N.eqb bt (at_ * m / d) &&
      (fix go (x y : list tnode) {struct x} : bool :=
         match x, y with
         | [], [] => true
         | c :: x', c' :: y' => clone_spec m d c c' && go x' y'
         | _, _ => false
         end) ach bch
  end.

Definition check_case (c : case) : verdict :=
  let mbuilt := map build (c_stacks c) in
  let spec_den := pnz (sum_dens (map den_of_stacks (c_stacks c))) in
  match c_built c with
  | [] => ModelDiffers "empty family"
  | b0 :: _ =>
  combine_verdicts [
    (* --- the property evaluated on what the implementation returned --- *)
    spec (pm_eqb (pnz (pnorm (t_den (c_conc c)))) spec_den) "concurrent merge: per-stack self values are not the sum of the inputs";
    spec (pm_eqb (pnz (pnorm (t_den (c_serial c)))) spec_den) "serial merge: per-stack self values are not the sum of the inputs";
    spec (t_eqb (c_conc c) (c_serial c)) "parallel merge differs from sequential merge";
    spec (pm_eqb (pnorm (t_tots (c_conc c))) (sum_dens (map t_tots (c_built c)))) "merge: totals are not added stack by stack";
    spec (forallb t_exactb (c_built c) && t_exactb (c_conc c) && t_exactb (c_serial c)) "total <> self + children after insert/merge";
    spec (t_subb (c_clone c)) "clone: total < self + children";
    spec (clone_spec (c_m c) (c_d c) b0 (c_clone c)) "clone: a value is not floor(v*m/d)";
    spec (c_src_untouched c) "merge/clone modified a source tree";
    (* decoding keeps total = self + children and the per-stack self values (zero-total frames may go) *)
    spec (match c_dec_nodict c with Some t => t_exactb t | None => false end) "decoded tree (self-contained encoding): total <> self + children";
    spec (match c_dec_dict c with Some t => t_exactb t | None => false end) "decoded tree (dictionary encoding): total <> self + children";
    spec (match c_dec_nodict c, c_dec_dict c with
          | Some t1, Some t2 => pm_eqb (pnz (pnorm (t_den t1))) spec_den && pm_eqb (pnz (pnorm (t_den t2))) spec_den
          | _, _ => false end) "decoded tree: per-stack self values are not the sum of the inputs";
    spec (match c_dec_stale c, c_dec_dict c with
          | Some t, Some t' => t_exactb t && Nat.eqb (t_size t) (t_size t')
          | _, _ => false end) "decoded with a dictionary that lacks the names: total <> self + children, or frames collapsed";
    (* --- model vs implementation --- *)
    corr (list_eqb t_eqb mbuilt (c_built c)) "t_insert model differs from Tree.Insert";
    corr (match merge_serial mbuilt with Some t => t_eqb t (c_serial c) | None => false end) "t_merge model differs from Tree.Merge";
    corr (t_eqb (t_clone (c_m c) (c_d c) b0) (c_clone c)) "t_clone model differs from Tree.Clone"
  ]
  end.
