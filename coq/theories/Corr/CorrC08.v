(* CorrC08.v — correspondence checker for C08 (concurrent ingest / render / maintenance).
   The harness (built with -race) runs N writers, M readers and the periodic tasks on a real storage and dumps
   wall-clock intervals (monotonic clock) of every ingest into the shared series and of every render together with
   what the render returned.  Race reports, panics and hangs make the harness process fail (reported by bin/check);
   the oracle for atomicity and for the quiescent sums is [check_case]. *)
From Pyro Require Export Model.Base Corr.Verdict.
Open Scope string_scope.
Open Scope Z_scope.

Record ingest := { ig_w : nat; ig_j : nat; ig_slot : nat; ig_span : N (* 10 s slots covered; every stack's count per slot is 1 *); ig_start : Z; ig_end : Z }.

Record read := {
  rd_start : Z; rd_end : Z;
  rd_uniq : list (nat * nat * N);    (* (writer, index, count) of every unique stack in the result *)
  rd_common : N;                     (* count of the common stack *)
  rd_other : N;                      (* anything else: the profile ingested before the run (stack "pre", 2 samples) *)
  rd_timeline : list N;              (* Timeline.Samples *)
  rd_nil : bool                      (* Get returned no tree *)
}.

Record case := {
  k_stream : string;
  k_writers : nat; k_per_writer : nat;
  k_same_slot : bool; k_cold : bool;
  k_ingests : list ingest;
  k_reads : list read;
  k_final : read;                    (* after every ingest has returned *)
  k_own_totals : list N;             (* per writer: total of its own series at the end *)
  k_put_error : bool
}.

Definition has_ingest (r : read) (g : ingest) : bool :=
  existsb (fun u => Nat.eqb (fst (fst u)) (ig_w g) && Nat.eqb (snd (fst u)) (ig_j g)) (rd_uniq r).

(* the render contains whole ingests only: every unique stack with the full count of its upload (its span: one per
   slot; all slots of every upload lie inside the rendered range) and the three common stacks as often *)
Definition span_of (gs : list ingest) (u : nat * nat * N) : N :=
  match find (fun g => Nat.eqb (ig_w g) (fst (fst u)) && Nat.eqb (ig_j g) (snd (fst u))) gs with
  | Some g => ig_span g
  | None => 1%N
  end.
Definition whole_in (gs : list ingest) (r : read) : bool :=
  forallb (fun u => N.eqb (snd u) (span_of gs u)) (rd_uniq r) &&
  N.eqb (rd_common r) (3 * fold_right (fun u n => snd u + n) 0 (rd_uniq r))%N.

(* every ingest acknowledged before the render began is in it; nothing that began after the render ended is *)
Definition window_ok (gs : list ingest) (r : read) : bool :=
  forallb (fun g => (negb (ig_end g <? rd_start r) || has_ingest r g) &&
                    (negb (has_ingest r g) || (ig_start g <? rd_end r))) gs &&
  forallb (fun u => existsb (fun g => Nat.eqb (ig_w g) (fst (fst u)) && Nat.eqb (ig_j g) (snd (fst u))) gs) (rd_uniq r).

(* a whole number of ingests in an order compatible with real time: if X is in the render and Y was acknowledged
   before X began (in particular: Y is an earlier ingest of the same writer), Y is in the render too *)
Definition prefix_closed (gs : list ingest) (r : read) : bool :=
  forallb (fun x => negb (has_ingest r x) ||
             forallb (fun y => negb (ig_end y <? ig_start x) || has_ingest r y) gs) gs.

(* ingests per 10 s slot according to the timeline: a non-empty bucket holds 1 + 4 per ingest (4 samples each) *)
Definition timeline_ingests (tl : list N) : N :=
  fold_right (fun v n => (if N.eqb v 0 then 0 else (v - 1) / 4) + n)%N 0%N tl.
Definition timeline_well_formed (tl : list N) : bool :=
  forallb (fun v => N.eqb v 0 || N.eqb ((v - 1) mod 4) 0) tl.

(* unless the run starts cold, the harness ingests one profile with 4 samples (stack "pre") before anyone reads *)
Definition pre_count (c : case) : N := if k_cold c then 0%N else 4%N.

Definition concurrent_stream (c : case) : bool :=
  String.eqb (k_stream c) "main" || String.eqb (k_stream c) "delete" ||
  String.eqb (k_stream c) "gate-miss-dimensions" || String.eqb (k_stream c) "gate-miss-segments" ||
  String.eqb (k_stream c) "gate-restart-dimensions" || String.eqb (k_stream c) "gate-writeback-in-put" ||
  String.eqb (k_stream c) "straddle".

Definition check_read (c : case) (r : read) : verdict :=
  if rd_nil r then
    (* no tree at all: admissible only if no ingest had been acknowledged before the render began *)
    spec (forallb (fun g => negb (ig_end g <? rd_start r)) (k_ingests c) && negb (negb (k_cold c)))
         "a render returned nothing although an ingest had been acknowledged before it began"
  else combine_verdicts [
    spec (whole_in (k_ingests c) r) "torn read: a unique stack without (or with a different number of) common-stack increments";
    spec (window_ok (k_ingests c) r)
         "a render misses an ingest acknowledged before it began, or shows one that began after it ended";
    spec (prefix_closed (k_ingests c) r) "a render shows an ingest but not one that was acknowledged before that ingest began";
    spec (N.eqb (rd_other r) (pre_count c) || String.eqb (k_stream c) "delete" || String.eqb (k_stream c) "straddle")
         "a render shows samples nobody ingested, or misses the profile ingested before the run"
  ].

Definition check_case (c : case) : verdict :=
  let n := length (k_ingests c) in
  if String.eqb (k_stream c) "tree-readers" then
    spec (N.eqb (rd_other (k_final c)) 0) "concurrent read-locked traversals of one tree / dictionary produced different output than a sequential one"
  else if String.eqb (k_stream c) "dims" then
    spec (N.eqb (rd_other (k_final c)) 0) "Intersection lost a key that is in both dimensions at all times"
  else if String.eqb (k_stream c) "evict" then
    (* eviction running on top of write-back: inherits the known finding writeback-drop; only races, panics and
       hangs (process level) and invented data are failures here *)
    if negb (whole_in (k_ingests c) (k_final c)) || negb (Nat.eqb (length (rd_uniq (k_final c))) n) || rd_nil (k_final c)
    then (if forallb (fun u => N.leb (snd u) (span_of (k_ingests c) u)) (rd_uniq (k_final c)) && N.leb (rd_common (k_final c)) (3 * N.of_nat n)
          then Known "writeback-drop" else SpecFails "eviction stream: more samples than were ingested")
    else Ok
  else combine_verdicts (
    map (check_read c) (k_reads c) ++ [
    spec (negb (k_put_error c)) "an ingest returned an error";
    spec (negb (rd_nil (k_final c)) && whole_in (k_ingests c) (k_final c) && Nat.eqb (length (rd_uniq (k_final c))) n &&
          forallb (fun g => has_ingest (k_final c) g) (k_ingests c))
         "after all ingests returned, the shared series is not the sum of everything acknowledged";
    spec (forallb (fun t => N.eqb t (N.of_nat (k_per_writer c))) (k_own_totals c))
         "after all ingests returned, a writer's own series is not the sum of its ingests";
    (* timeline and tree of one render come from the same whole number of ingests *)
    (* repaired by /repo fba57a2 (Segment.GetWithTimeline): timeline and tree used to be read in two lock sections *)
    spec (forallb (fun r => rd_nil r || (timeline_well_formed (rd_timeline r) &&
                    N.eqb (timeline_ingests (rd_timeline r)) (N.of_nat (length (rd_uniq r)) + (if k_cold c then 0 else 1))))
                  (k_final c :: k_reads c) || String.eqb (k_stream c) "delete" || String.eqb (k_stream c) "straddle")
         "torn mixture: the timeline of a render shows a different number of ingests than its tree"
  ]).

Open Scope N_scope.
