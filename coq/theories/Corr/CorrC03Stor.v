(* CorrC03Stor.v — C03 evaluated at storage level (storage.Put / Get, i.e. including the callback of Storage.Put
   that scales the profile per bucket, merges the earlier contents of a bucket that becomes pre-aggregated and
   stores the trees).  Everything here is computed from the history alone, except the last clause, which
   compares with Model/Storage.v. *)
From Pyro Require Export Corr.StorCorr.
Local Open Scope Z_scope.

Definition obs_den (o : option get_obs) : list (list bytes * N) :=
  match o with None => [] | Some ob => pnz (pnorm (t_den (g_tree ob))) end.

Definition whole_counts (ss : list (bytes * N)) : list (list bytes * N) :=
  map (fun kv => (bsplit 59%N (fst kv), snd kv)) ss.

(* "a query whose range covers all ingested data returns exactly everything": when every live upload of the selector
   lies inside the queried range and every count is a multiple of its upload's span (so that no share is rounded),
   the answer is the per-stack sum of the whole uploads *)
Definition spec_full (rev_prefix : list hop) (sel : sid) (f u : Z) (obs : option get_obs) : verdict :=
  if has_retention rev_prefix then Ok else
  let '(a, b) := s_normalize_unix (f, u) in
  let lp := live_puts sel rev_prefix [] in
  let inside := forallb (fun x : sid * Z * Z * list (bytes * N) * meta =>
                           let '(_, pf, pu, _, _) := x in
                           let '(wa, wb) := put_span pf pu in (a <=? wa) && (wb <=? b)) lp in
  let evenb := forallb (fun x : sid * Z * Z * list (bytes * N) * meta =>
                           let '(_, pf, pu, ss, _) := x in
                           let '(wa, wb) := put_span pf pu in
                           forallb (fun kv => Z.of_N (snd kv) mod (wb - wa) =? 0) ss) lp in
  let sum_only := forallb (fun x : sid * Z * Z * list (bytes * N) * meta =>
                           let '(_, _, _, _, m) := x in negb (beqb (m_agg m) average_bytes)) lp in
  if inside && evenb && sum_only
  then spec (pm_eqb (obs_den obs)
                    (pnz (pnorm (concat (map (fun x : sid * Z * Z * list (bytes * N) * meta =>
                                                let '(_, _, _, ss, _) := x in whole_counts ss) lp)))))
            "a query whose range covers all ingested data does not return exactly everything"%string
  else Ok.

Fixpoint spec_full_gets (rev_prefix rest : list hop) : list verdict :=
  match rest with
  | [] => []
  | h :: rest' =>
      (match h with HGet sel f u obs => [spec_full rev_prefix sel f u obs] | _ => [] end)
      ++ spec_full_gets (h :: rev_prefix) rest'
  end.

(* "splitting a range in two never yields more in total than querying it whole": three consecutive queries
   [a,b), [a,m), [m,b) of one selector *)
Definition den_add (x y : list (list bytes * N)) : list (list bytes * N) := pnorm (x ++ y).

Fixpoint spec_splits (l : list hop) : list verdict :=
  match l with
  | HGet s1 f1 u1 o1 :: ((HGet s2 f2 u2 o2 :: HGet s3 f3 u3 o3 :: _) as l') =>
      (if sid_eqb s1 s2 && sid_eqb s1 s3 && list_eqb kv_eqb (sid_tags s1) (sid_tags s2) && list_eqb kv_eqb (sid_tags s1) (sid_tags s3)
          && (f1 =? f2) && (u2 =? f3) && (u3 =? u1) && (f2 <? u2) && (f3 <? u3)
       then [spec (den_le (den_add (obs_den o2) (obs_den o3)) (obs_den o1))
                  "splitting a range in two yields more in total than querying it whole"%string]
       else []) ++ spec_splits l'
  | _ :: l' => spec_splits l'
  | [] => []
  end.

Definition check_stor (ops : list hop) : verdict :=
  combine_verdicts (spec_upper_gets [] ops ++ spec_full_gets [] ops ++ spec_splits ops ++ [model_verdict true false ops]).
