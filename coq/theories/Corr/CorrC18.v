(* CorrC18.v — correspondence checker for C18 (cumulative diffs of transport tries). *)
From Pyro Require Export Model.Base Model.Varint Model.TTrie Corr.Verdict.
Open Scope string_scope.

Definition op := (bytes * N * bool)%type.          (* Insert(key, value, merge) *)
Definition kvs := list (bytes * N).                (* what Iterate reported, in callback order *)

Record case := {
  c_cur : list op;                 (* insertions that build the current snapshot *)
  c_prev : list op;                (* insertions that build the previous snapshot *)
  c_m : N; c_d : N;                (* Clone(m, d) used for the scaled serialization *)
  (* --- dumped from the implementation --- *)
  c_cur_dump : ttnode;  c_cur_iter : kvs;            (* cur before Diff *)
  c_prev_dump : ttnode; c_prev_iter : kvs;           (* prev before Diff *)
  c_cur_dump2 : ttnode;  c_cur_iter2 : kvs;          (* cur after Diff *)
  c_prev_dump2 : ttnode; c_prev_iter2 : kvs;         (* prev after Diff *)
  c_diff_dump : ttnode; c_diff_iter : kvs;           (* cur.Diff(prev) *)
  c_diff_rt : option kvs;                            (* Iterate(Deserialize(diff.Bytes())) *)
  c_scaled : option kvs;                             (* Iterate(Deserialize(cur.Clone(m,d) serialized)) *)
  (* payloads kept alive while other payloads are produced (the upstream queues jobs): A = cur.Clone(m,d).Bytes(),
     then D = diff.Bytes(), then Bytes() of a larger and of a smaller trie; only THEN A and D are decoded *)
  c_scaled_held : option kvs;
  c_diff_held : option kvs;
  (* session level (agent.ProfileSession with scripted spies, one per profile type): is the type cumulative, what the spy
     reported in each upload window (window 0 first), and the Iterate output of every trie handed to the upstream for
     that type, in upload order *)
  c_sess : list (bool * list kvs * list kvs)
}.

(* ---- the specification side: plain per-key arithmetic on the inputs, no trie involved ------- *)
Definition spec_val (ops : list op) (k : bytes) : N :=
  fold_left (fun (acc : N) (o : op) => if beqb (fst (fst o)) k
                          then (if snd o then acc + snd (fst o) else snd (fst o))
                          else acc) ops 0.
Definition op_keys (ops : list op) : list bytes := map (fun o : op => fst (fst o)) ops.

Definition kv_get (k : bytes) (l : kvs) : N :=
  sumN (map snd (filter (fun kv => beqb (fst kv) k) l)).
Fixpoint keys_nodup (l : list bytes) : bool :=
  match l with
  | [] => true
  | k :: l' => negb (existsb (beqb k) l') && keys_nodup l'
  end.
(* l reports exactly the positive values of g, each key once *)
Definition reports (l : kvs) (g : bytes -> N) (universe : list bytes) : bool :=
  keys_nodup (map fst l)
  && forallb (fun kv => N.ltb 0 (snd kv) && N.eqb (snd kv) (g (fst kv))) l
  && forallb (fun k => N.eqb (kv_get k l) (g k)) universe.

Definition kv_eqb (a b : bytes * N) : bool := beqb (fst a) (fst b) && N.eqb (snd a) (snd b).
Definition kvs_eqb := list_eqb kv_eqb.
Definition okvs_eqb (a b : option kvs) : bool :=
  match a, b with
  | Some x, Some y => kvs_eqb x y
  | None, None => true
  | _, _ => false
  end.

Definition nonempty (k : bytes) : bool := negb (is_nil k).
Definition all_merge (ops : list op) : bool := forallb (fun o : op => snd o) ops.

Definition m_scaled (m d : N) (t : ttnode) : option kvs :=
  match tt_deserialize (tt_serialize m d t) with
  | Some t' => Some (tt_iterate t')
  | None => None
  end.

(* per-stack sum of what was reported in a window *)
Definition win_val (w : kvs) (k : bytes) : N := kv_get k w.
Definition win_keys (ws : list kvs) : list bytes := flat_map (map fst) ws.

(* cumulative type: the first window is not uploaded; upload i carries window (i+1) minus window i, clipped, where the
   previous window is the one JUST before (also when it was empty); windows after the script (the one Stop closes) are empty.
   other types: upload i carries window i. *)
Fixpoint sess_cumul (universe : list bytes) (prev : kvs) (wins : list kvs) (jobs : list kvs) : bool :=
  match jobs with
  | [] => match wins with [] => true | _ => false end              (* a scripted window was never uploaded *)
  | j :: jobs' =>
      let (w, wins') := match wins with [] => ([], []) | w :: r => (w, r) end in
      reports (filter (fun kv => nonempty (fst kv)) j) (fun k => win_val w k - win_val prev k) (filter nonempty universe)
      && sess_cumul universe w wins' jobs'
  end.
Fixpoint sess_plain (universe : list bytes) (wins : list kvs) (jobs : list kvs) : bool :=
  match jobs with
  | [] => match wins with [] => true | _ => false end
  | j :: jobs' =>
      let (w, wins') := match wins with [] => ([], []) | w :: r => (w, r) end in
      reports j (win_val w) universe && sess_plain universe wins' jobs'
  end.
Definition sess_ok (cumulative : bool) (wins : list kvs) (jobs : list kvs) : bool :=
  let universe := win_keys wins in
  if cumulative
  then match wins with
       | [] => sess_cumul universe [] [] jobs
       | w0 :: r => sess_cumul universe w0 r jobs                    (* window 0 is the baseline only (skipUpload) *)
       end
  else sess_plain universe wins jobs.

Definition check_case (c : case) : verdict :=
  let cur := c_cur c in let prev := c_prev c in
  let keys := (op_keys cur ++ op_keys prev ++ map fst (c_diff_iter c))%list in
  let sc := spec_val cur in let sp := spec_val prev in
  let want_diff := fun k => sc k - sp k in                   (* N subtraction is clipped at 0 *)
  let mcur := tt_build cur in let mprev := tt_build prev in
  let mdiff := tt_diff mcur mprev in
  combine_verdicts [
    (* --- the property, evaluated on what the implementation returned --- *)
    spec (reports (filter (fun kv => nonempty (fst kv)) (c_diff_iter c)) want_diff (filter nonempty keys))
         "Diff: a stack's value is not the current count minus the previous count clipped at zero";
    spec (tt_eqb (c_cur_dump c) (c_cur_dump2 c) && kvs_eqb (c_cur_iter c) (c_cur_iter2 c))
         "Diff modified the current snapshot";
    spec (tt_eqb (c_prev_dump c) (c_prev_dump2 c) && kvs_eqb (c_prev_iter c) (c_prev_iter2 c))
         "Diff modified the previous snapshot";
    spec (reports (c_cur_iter c) sc (op_keys cur) && reports (c_prev_iter c) sp (op_keys prev))
         "Insert: repeated insertions of a stack do not accumulate / a stack is lost";
    spec (match c_scaled c with
          | Some l => reports l (fun k => tt_scale_val (c_m c) (c_d c) (sc k)) (op_keys cur)
          | None => false
          end)
         "Serialize with ratio m/d: a count is not floor(v*m/d) after Deserialize";
    spec (match c_diff_rt c with
          | Some l => reports (filter (fun kv => nonempty (fst kv)) l) want_diff (filter nonempty keys)
          | None => false
          end)
         "the serialized diff does not decode to the clipped differences";
    spec (match c_scaled_held c with
          | Some l => reports l (fun k => tt_scale_val (c_m c) (c_d c) (sc k)) (op_keys cur)
          | None => false
          end)
         "Bytes(): a payload kept while later payloads were produced no longer decodes to floor(v*m/d) per stack";
    spec (match c_diff_held c with
          | Some l => reports (filter (fun kv => nonempty (fst kv)) l) want_diff (filter nonempty keys)
          | None => false
          end)
         "Bytes(): the diff payload kept while later payloads were produced no longer decodes to the clipped differences";
    spec (forallb (fun s => match s with (cumulative, wins, jobs) => sess_ok cumulative wins jobs end) (c_sess c))
         "session: an upload of a cumulative type is not the window's counts minus the counts of the window just before (clipped), or a window was lost";
    (* --- model vs implementation --- *)
    corr (tt_eqb mcur (c_cur_dump c) && tt_eqb mprev (c_prev_dump c)) "tt_insert model differs from Trie.Insert (structure)";
    corr (kvs_eqb (tt_iterate mcur) (c_cur_iter c) && kvs_eqb (tt_iterate mprev) (c_prev_iter c))
         "tt_iterate model differs from Trie.Iterate";
    corr (tt_eqb mdiff (c_diff_dump c)) "tt_diff model differs from Trie.Diff (structure)";
    corr (kvs_eqb (tt_iterate mdiff) (c_diff_iter c)) "tt_diff model differs from Trie.Diff (iteration)";
    corr (okvs_eqb (m_scaled 1 1 mdiff) (c_diff_rt c)) "serialize/deserialize model differs on the diff trie";
    corr (okvs_eqb (m_scaled (c_m c) (c_d c) mcur) (c_scaled c)) "scaled serialize/deserialize model differs"
  ].
