(* StorCorr.v — shared by the storage-level correspondence checkers (C01, C11, C13):
   histories with what the implementation returned, the model runner, and the history-level
   specification helpers that do NOT go through the segment/tree-store model. *)
From Pyro Require Export Model.Base Model.Tree Model.Segment Model.Timeline Model.Storage Corr.Verdict.
Local Open Scope Z_scope.

Record get_obs := {
  g_tree : tnode;
  g_tl_start : Z;            (* Timeline.StartTime, Unix seconds *)
  g_tl_delta : Z;            (* durationDelta, seconds *)
  g_tl_samples : list N;
  g_spy : bytes; g_rate : N; g_units : bytes
}.

(* one step of a history together with what Go answered *)
Inductive hop :=
| HPut (s : sid) (from until : Z) (stacks : list (bytes * N)) (m : meta) (thr : option Z) (ok : bool)
| HGet (sel : sid) (from until : Z) (obs : option get_obs)
| HDelete (sel : sid)
| HRetention (thr : Z)
| HNop.                      (* cache eviction / graceful restart: transparent for the plain-map model (C02) *)

Definition build_tree (ss : list (bytes * N)) : tnode :=
  fold_left (fun t kv => t_insert (fst kv) (snd kv) t) ss t_empty.

(* ---- model side ---- *)
Definition hop_step (st : st_state) (h : hop) : st_state * st_out :=
  match h with
  | HPut s f u ss m thr _ =>
      let '(st', ok) := st_put thr {| pi_sid := s; pi_from := f; pi_until := u; pi_tree := build_tree ss; pi_meta := m |} st in
      (st', OutPut ok)
  | HGet sel f u _ => (st, OutGet (st_get sel f u st))
  | HDelete sel => (st_delete sel st, OutUnit)
  | HRetention thr => (st_retention thr st, OutUnit)
  | HNop => (st, OutUnit)
  end.

Definition tl_eqb (o : get_obs) (tl : timeline) : bool :=
  (g_tl_start o =? slot_to_unix (tl_st tl)) && (g_tl_delta o =? 10 * pow10 (tl_lvl tl)) &&
  list_eqb N.eqb (g_tl_samples o) (tl_samples tl).

Definition meta_obs_eqb (o : get_obs) (m : meta) : bool :=
  beqb (g_spy o) (m_spy m) && N.eqb (g_rate o) (m_rate m) && beqb (g_units o) (m_units m).

(* compare one model output with the observation attached to the step; [with_tl] = also the timeline *)
Definition den_eqb (a b : tnode) : bool :=
  pm_eqb (pnz (pnorm (t_den a))) (pnz (pnorm (t_den b))).

(* [strict]: compare trees structurally (totals and zero-valued frames included); otherwise only the
   per-stack self values — after a cache eviction or restart the reloaded trees have recomputed totals
   and may have lost zero-total frames (C04 / known finding scaled-totals-reloaded), which the
   plain-map model does not reproduce *)
Definition cmp_step (strict with_tree with_tl : bool) (h : hop) (o : st_out) : option string :=
  match h, o with
  | HPut _ _ _ _ _ _ ok, OutPut ok' => if Bool.eqb ok ok' then None else Some "Put accepted/rejected differently"%string
  | HGet _ _ _ None, OutGet None => None
  | HGet _ _ _ (Some ob), OutGet (Some r) =>
      if with_tree && negb (if strict then t_eqb (g_tree ob) (go_tree r) else den_eqb (g_tree ob) (go_tree r))
      then Some "Get: tree differs from the model"%string
      else if with_tree && negb (meta_obs_eqb ob (go_meta r)) then Some "Get: metadata differs from the model"%string
      else if with_tl && negb (tl_eqb ob (go_timeline r)) then Some "Get: timeline differs from the model"%string
      else None
  | HGet _ _ _ None, OutGet (Some _) => Some "Get: Go returned nothing, the model something"%string
  | HGet _ _ _ (Some _), OutGet None => Some "Get: Go returned something, the model nothing"%string
  | HDelete _, OutUnit => None
  | HRetention _, OutUnit => None
  | HNop, OutUnit => None
  | _, _ => Some "internal: output kind mismatch"%string
  end.

Fixpoint run_cmp (strict with_tree with_tl : bool) (st : st_state) (hs : list hop) : option string :=
  match hs with
  | [] => None
  | h :: hs' =>
      let '(st', o) := hop_step st h in
      match cmp_step strict with_tree with_tl h o with
      | Some w => Some w
      | None => run_cmp strict with_tree with_tl st' hs'
      end
  end.

Definition has_nop (hs : list hop) : bool :=
  existsb (fun h => match h with HNop => true | _ => false end) hs.

Definition model_verdict (with_tree with_tl : bool) (hs : list hop) : verdict :=
  match run_cmp (negb (has_nop hs)) with_tree with_tl st_init hs with
  | None => Ok
  | Some w => ModelDiffers w
  end.

(* ---- history-level specification helpers ---- *)

(* the uploads that are live for a query at the end of [prefix] (reversed history, latest first):
   accepted puts into series matching [sel] that no later delete with a matching selector removed *)
Fixpoint live_puts (sel : sid) (rev_prefix : list hop) (deleted : list sid)
  : list (sid * Z * Z * list (bytes * N) * meta) :=
  match rev_prefix with
  | [] => []
  | HPut s f u ss m _ ok :: rest =>
      if ok && sel_matches sel s && negb (existsb (fun d => sel_matches d s) deleted)
      then (s, f, u, ss, m) :: live_puts sel rest deleted
      else live_puts sel rest deleted
  | HDelete d :: rest => live_puts sel rest (d :: deleted)
  | _ :: rest => live_puts sel rest deleted
  end.

Definition has_retention (hs : list hop) : bool :=
  existsb (fun h => match h with HRetention _ => true | _ => false end) hs.

Definition put_span (f u : Z) : Z * Z := s_normalize_unix (f, u).

(* per-stack contribution of one upload to the range [a,b) (slots): count/span * overlap;
   None when the count is not a multiple of the span *)
Definition contrib (a b : Z) (f u : Z) (ss : list (bytes * N)) : option (list (list bytes * N)) :=
  let '(wa, wb) := put_span f u in
  let span := wb - wa in
  let o := ov wa wb a b in
  if forallb (fun kv => (Z.of_N (snd kv) mod span =? 0)) ss
  then Some (map (fun kv => (bsplit 59%N (fst kv), Z.to_N (Z.of_N (snd kv) / span * o))) ss)
  else None.

(* per stack: x <= y *)
Definition den_le (x y : list (list bytes * N)) : bool :=
  forallb (fun pv => (snd pv <=? pget (fst pv) y)%N) x.

(* An upper bound that needs no proviso on spans or counts (C03's "no invented samples", C11's "deleted samples never
   reappear"): per stack, a query returns at most the whole counts of the uploads that are still live for its selector
   (accepted, not deleted since) and whose window meets the queried range.  Scaling floors, retention and averaging
   only ever reduce an answer. *)
Definition upper_bound (sel : sid) (a b : Z) (rev_prefix : list hop) : list (list bytes * N) :=
  pnorm (concat (map (fun x : sid * Z * Z * list (bytes * N) * meta =>
                        let '(_, f, u, ss, _) := x in
                        let '(wa, wb) := put_span f u in
                        if 0 <? ov wa wb a b then map (fun kv => (bsplit 59%N (fst kv), snd kv)) ss else [])
                     (live_puts sel rev_prefix []))).

Fixpoint spec_upper_gets (rev_prefix rest : list hop) : list verdict :=
  match rest with
  | [] => []
  | h :: rest' =>
      (match h with
       | HGet sel f u (Some ob) =>
           let '(a, b) := s_normalize_unix (f, u) in
           [spec (den_le (pnz (pnorm (t_den (g_tree ob)))) (upper_bound sel a b rev_prefix))
                 "a query returns more of a stack than the live uploads into its range contain (invented, or deleted samples reappeared)"%string]
       | _ => []
       end) ++ spec_upper_gets (h :: rev_prefix) rest'
  end.

Fixpoint all_some {A} (l : list (option A)) : option (list A) :=
  match l with
  | [] => Some []
  | Some x :: l' => match all_some l' with Some r => Some (x :: r) | None => None end
  | None :: _ => None
  end.
