(* CorrC16.v — correspondence checker for C16 (ingest all-or-nothing; bad requests harm nothing).
   A case is a sequence of requests sent to the real handler over the real storage; after every request the harness
   re-queries (storage.Get) every watched (series, window) of the case.  The specification side below compares Go with Go
   (answers before / after a request) and with the tree built here from the records a body was rendered from; the
   handler model (Model/Server.v, instantiated with the body-parser models) is only used for the status code and for
   bodies that are not rendered from records. *)
From Pyro Require Import Model.Ingest Model.TreeCodec.
From Pyro Require Export Model.Base Model.Tree Model.TimeParse Model.Server Corr.Verdict.
Open Scope string_scope.
Local Open Scope Z_scope.

(* long runs of one byte in a body (over-long lines) are written run-length encoded by the harness *)
Definition brep (c : N) (n : N) : bytes := repeat c (N.to_nat n).

Record step := {
  s_render : bool;                         (* true: GET /render with these parameters; false: POST /ingest *)
  s_query : list (bytes * bytes);          (* query parameters as sent (decoded) *)
  s_ctype : bytes;                         (* Content-Type header *)
  s_body : bytes;
  s_records : option (list (bytes * N));   (* Some: the body was rendered from these (stack, count) records *)
  s_space_ok : bool;                       (* false: storage.OutOfSpaceThreshold was raised above the free space *)
  s_ret_thr : option Z;                    (* Some thr: config.Retention set so that now - Retention = thr (unix s) *)
  s_t0 : Z; s_t1 : Z;                      (* clock bracket around the request, ns *)
  s_status : Z;                            (* HTTP status; 0 = the handler panicked; -1 = no answer within the timeout *)
  s_self : nat;                            (* index of this request's own (series, window) in the watch list *)
  s_single_slot : bool;                    (* generator: from/until were chosen inside one 10 s slot (or until <= from) *)
  s_before : list (option tnode);          (* storage.Get of every watch before the request *)
  s_after : list (option tnode);           (* ... and after it *)
  s_meta_before : list (option (bytes * N * bytes));   (* GetOutput.SpyName / SampleRate / Units of every watch *)
  s_meta_after : list (option (bytes * N * bytes));
  s_labels_before : list bool;             (* for every (label key, value) pair occurring in the case: listed by GetValues? *)
  s_labels_after : list bool
}.

Record case := {
  c_watches : list (bytes * Z * Z);        (* (series name as sent, window start, window end) in unix s *)
  c_steps : list step
}.

(* ---- instantiation of the handler model with the body-parser models ---- *)
Definition model_status (s : step) (now : Z) : outcome :=
  ingest_status tc_deserialize_nodict tree_via_trie tree_via_lines tree_via_groups
    {| rq_query := s_query s; rq_content_type := s_ctype s; rq_body := s_body s |}
    {| e_now_from := now; e_now_until := now; e_space_ok := s_space_ok s;
       e_retention_thr := match s_ret_thr s with Some thr => Some (thr * 1000000000) | None => None end |}.

Definition model_tree (s : step) : option tnode :=
  parser_of tnode tc_deserialize_nodict tree_via_trie tree_via_lines tree_via_groups
    (Server.select_format (Server.q_get k_format (s_query s)) (s_ctype s)) (s_body s).

(* time.Time keeps seconds since year 1 in an int64: Unix seconds beyond about +-2^63 wrap around (a 20-digit from/until).
   The handler model computes on unbounded Z; such arguments are outside its domain and excluded from the status comparison
   (the no-panic and nothing-changes checks still apply to them). *)
Definition time_arg_in_range (now : Z) (v : bytes) : bool :=
  match v with
  | [] => true
  | _ => match attime_parse now v with
         | Some t => Z.abs (t / 1000000000) <? 2 ^ 62
         | None => false
         end
  end.
Definition times_in_range (s : step) : bool :=
  time_arg_in_range (s_t0 s) (Server.q_get k_from (s_query s)) && time_arg_in_range (s_t0 s) (Server.q_get k_until (s_query s)).

Definition outcome_code (o : outcome) : Z := match o with Status c => c | Panic _ => 0 end.

(* ---- specification side ---- *)
(* bytes.Split(key, ";") written without an accumulator (Base.bsplit reverses its accumulator with List.rev, which is
   quadratic: a stored stack may be 64 KiB long) *)
Fixpoint split_semicolon (s : bytes) : list bytes :=
  match s with
  | [] => [[]]
  | c :: s' =>
      let r := split_semicolon s' in
      if N.eqb c 59 then [] :: r
      else match r with h :: t => (c :: h) :: t | [] => [[c]] end
  end.
Definition build (rs : list (bytes * N)) : tnode :=
  fold_left (fun t kv => t_insert_path (split_semicolon (fst kv)) (snd kv) t) rs t_empty.

(* Go adds uint64 values modulo 2^64 (a negative count in a text body is accepted as its two's complement) *)
Fixpoint t_mod64 (t : tnode) : tnode :=
  match t with TNode n s tot ch => TNode n (s mod 2 ^ 64)%N (tot mod 2 ^ 64)%N (map t_mod64 ch) end.

Definition otree (o : option tnode) : tnode := match o with Some t => t | None => t_empty end.
Definition otree_eqb (a b : option tnode) : bool := t_eqb (otree a) (otree b).

Definition meta_eqb (a b : option (bytes * N * bytes)) : bool :=
  match a, b with
  | None, None => true
  | Some (s1, r1, u1), Some (s2, r2, u2) => beqb s1 s2 && N.eqb r1 r2 && beqb u1 u2
  | _, _ => false
  end.

(* application name of a series name: the bytes before the first '{' *)
Fixpoint app_of (n : bytes) : bytes :=
  match n with
  | [] => []
  | c :: n' => if N.eqb c 123 then [] else c :: app_of n'
  end.

Definition watch_name (w : bytes * Z * Z) := fst (fst w).
Definition watch_lo (w : bytes * Z * Z) := snd (fst w).
Definition watch_hi (w : bytes * Z * Z) := snd w.

(* may the acknowledged request [self] legitimately change the answer for watch [w]? same series, overlapping windows *)
(* (a Get by application name matches every series of the application, whatever its tags) *)
Definition may_touch (self w : bytes * Z * Z) : bool :=
  beqb (app_of (watch_name self)) (app_of (watch_name w)) && (watch_lo self <? watch_hi w) && (watch_lo w <? watch_hi self).

Definition same_app (self w : bytes * Z * Z) : bool := beqb (app_of (watch_name self)) (app_of (watch_name w)).

Fixpoint meta_untouched_ok (ws : list (bytes * Z * Z)) (self : bytes * Z * Z) (b a : list (option (bytes * N * bytes))) : bool :=
  match ws, b, a with
  | [], [], [] => true
  | w :: ws', x :: b', y :: a' => (same_app self w || meta_eqb x y) && meta_untouched_ok ws' self b' a'
  | _, _, _ => false
  end.

Fixpoint untouched_ok (ws : list (bytes * Z * Z)) (self : bytes * Z * Z) (b a : list (option tnode)) : bool :=
  match ws, b, a with
  | [], [], [] => true
  | w :: ws', x :: b', y :: a' => (may_touch self w || otree_eqb x y) && untouched_ok ws' self b' a'
  | _, _, _ => false
  end.

Definition check_render_step (s : step) : verdict :=
  let st := s_status s in
  if st =? 0 then SpecFails "the /render handler panicked"
  else if st =? -1 then SpecFails "the /render handler did not answer within the timeout"
  else
  combine_verdicts [
    spec (list_eqb otree_eqb (s_before s) (s_after s) && list_eqb meta_eqb (s_meta_before s) (s_meta_after s) &&
          list_eqb Bool.eqb (s_labels_before s) (s_labels_after s)) "a /render request changed stored data";
    let m0 := outcome_code (render (s_query s) (s_t0 s) (s_t0 s)) in
    let m1 := outcome_code (render (s_query s) (s_t1 s) (s_t1 s)) in
    let m2 := outcome_code (render (s_query s) (s_t0 s) (s_t1 s)) in
    if (m0 =? m1) && (m0 =? m2) && times_in_range s then corr (st =? m0) "status code differs from Model/Server.v render" else Ok ].

Definition check_step (ws : list (bytes * Z * Z)) (s : step) : verdict :=
  if s_render s then check_render_step s else
  let st := s_status s in
  if st =? 0 then SpecFails "the /ingest handler panicked"
  else if st =? -1 then SpecFails "the /ingest handler did not answer within the timeout"
  else
  combine_verdicts [
    corr ((length (s_before s) =? length ws)%nat && (length (s_after s) =? length ws)%nat) "harness: watch lists differ in length";
    if st =? 200 then
      match nth_error ws (s_self s), nth_error (s_before s) (s_self s), nth_error (s_after s) (s_self s) with
      | Some self, Some b, Some a =>
          combine_verdicts [
            spec (untouched_ok ws self (s_before s) (s_after s)) "an acknowledged ingest changed the answer for another series or window";
            spec (meta_untouched_ok ws self (s_meta_before s) (s_meta_after s)) "an acknowledged ingest changed the metadata reported for another application";
            if s_single_slot s then
              match s_records s with
              | Some rs => spec (t_eqb (otree a) (t_mod64 (t_merge (otree b) (build rs))))
                                "status 200 but the stored profile is not the whole body (answer <> earlier answer + all records)"
              | None =>
                  match model_tree s with
                  | Some t => corr (t_eqb (otree a) (t_mod64 (t_merge (otree b) t))) "stored profile differs from the body-parser model of the (mutated) body"
                  | None => ModelDiffers "status 200 for a body the parser model rejects"
                  end
              end
            else Ok ]
      | _, _, _ => ModelDiffers "harness: self index out of range"
      end
    else
      combine_verdicts [
        spec (list_eqb otree_eqb (s_before s) (s_after s))
             "a rejected request changed the answer of a query (earlier data changed, or part of the request is visible)";
        spec (list_eqb meta_eqb (s_meta_before s) (s_meta_after s))
             "a rejected request changed the metadata (spy name / sample rate / units) reported for stored data";
        spec (list_eqb Bool.eqb (s_labels_before s) (s_labels_after s))
             "a rejected request left label keys/values visible in the label listings" ];
    (* status code against the handler model; the clock only matters through now-relative from/until and retention *)
    (* an acknowledged body with a line of (nearly) 64 KiB: the exactness check above is the test; evaluating the parser
       models on it costs minutes (List.rev in Base.bsplit), so the status comparison is left out for exactly that case *)
    if (st =? 200) && (60000 <? Z.of_nat (length (s_body s))) then Ok
    else
    let m0 := outcome_code (model_status s (s_t0 s)) in
    let m1 := outcome_code (model_status s (s_t1 s)) in
    if (m0 =? m1) && times_in_range s then corr (st =? m0) "status code differs from Model/Server.v ingest" else Ok ].

(* the harness dumps the answers before the first request and after every request; nothing happens between two
   requests, so the answers before request i+1 are the answers after request i (an empty s_before means exactly that) *)
Fixpoint check_steps (ws : list (bytes * Z * Z)) (prev : list (option tnode)) (prevm : list (option (bytes * N * bytes)))
         (prevl : list bool) (first : bool) (l : list step) : list verdict :=
  match l with
  | [] => []
  | s :: l' =>
      let b := if first then s_before s else prev in
      let bm := if first then s_meta_before s else prevm in
      let bl := if first then s_labels_before s else prevl in
      let s' := {| s_render := s_render s; s_query := s_query s; s_ctype := s_ctype s; s_body := s_body s; s_records := s_records s;
                   s_space_ok := s_space_ok s; s_ret_thr := s_ret_thr s; s_t0 := s_t0 s; s_t1 := s_t1 s;
                   s_status := s_status s; s_self := s_self s; s_single_slot := s_single_slot s;
                   s_before := b; s_after := s_after s; s_meta_before := bm; s_meta_after := s_meta_after s;
                   s_labels_before := bl; s_labels_after := s_labels_after s |} in
      check_step ws s' :: check_steps ws (s_after s) (s_meta_after s) (s_labels_after s) false l'
  end.

Definition check_case (c : case) : verdict :=
  combine_verdicts (check_steps (c_watches c) [] [] [] true (c_steps c)).
