(* CorrC01.v — correspondence checker for C01 (query exactness). *)
From Pyro Require Export Corr.StorCorr Corr.FbTree.
Local Open Scope Z_scope.

(* c_http: the history went through POST /ingest and GET /render?format=json on the real server; the tree of
   every query is then read back from the flamebearer ([tree_of_fb]), i.e. known up to zero-total frames, so
   the model comparison is on per-stack self values (den) instead of structural *)
Record case := { c_ops : list hop; c_http : bool }.

Definition upl := (sid * Z * Z * list (bytes * N) * meta)%type.
Definition u_sid (x : upl) : sid := let '(s, _, _, _, _) := x in s.
Definition u_from (x : upl) : Z := let '(_, f, _, _, _) := x in f.
Definition u_until (x : upl) : Z := let '(_, _, u, _, _) := x in u.
Definition u_stacks (x : upl) : list (bytes * N) := let '(_, _, _, ss, _) := x in ss.
Definition u_meta (x : upl) : meta := let '(_, _, _, _, m) := x in m.
Definition u_span (x : upl) : Z := let '(wa, wb) := put_span (u_from x) (u_until x) in wb - wa.
Definition u_ov (a b : Z) (x : upl) : Z := let '(wa, wb) := put_span (u_from x) (u_until x) in ov wa wb a b.

Fixpoint distinct_sids (l : list upl) (seen : list sid) : list sid :=
  match l with
  | [] => seen
  | x :: l' => if existsb (sid_eqb (u_sid x)) seen then distinct_sids l' seen else distinct_sids l' (u_sid x :: seen)
  end.

(* the property's statement for one query, evaluated on what Go returned, computed from the history
   alone (no segment tree, no tree store) *)
Definition spec_get (rev_prefix : list hop) (sel : sid) (f u : Z) (obs : option get_obs) : verdict :=
  if has_retention rev_prefix then Ok else
  let '(a, b) := s_normalize_unix (f, u) in
  let lp := live_puts sel rev_prefix [] in
  let contributing := filter (fun x => 0 <? u_ov a b x) lp in
  if existsb (fun x => 9 <? u_span x) lp then Ok else        (* spans of 1..9 slots only *)
  match all_some (map (fun x => contrib a b (u_from x) (u_until x) (u_stacks x)) contributing) with
  | None => Ok                                                  (* counts must divide evenly *)
  | Some cs =>
      let sum := pnz (pnorm (concat cs)) in
      let n := Z.of_nat (length contributing) in
      let is_avg := existsb (fun x => beqb (m_agg (u_meta x)) average_bytes) lp in
      let expected := if is_avg && (0 <? n)
                      then pnz (map (fun pv => (fst pv, (snd pv / Z.to_N n)%N)) sum) else sum in
      let observed := match obs with None => [] | Some o => pnz (pnorm (t_den (g_tree o))) end in
      if pm_eqb observed expected
      then match obs, distinct_sids lp [], lp with
           | Some o, [_], latest :: _ =>
               spec (meta_obs_eqb o (u_meta latest)) "single-series query: spy name / sample rate / units are not those of the latest upload"%string
           | _, _, _ => Ok
           end
      else if is_avg && existsb (fun x => 1 <? u_span x) contributing then Known "average-divisor-multislot"%string
      else SpecFails "query result is not the exact per-stack sum of the profiles ingested in the range"%string
  end.

Fixpoint spec_gets (rev_prefix rest : list hop) : list verdict :=
  match rest with
  | [] => []
  | h :: rest' =>
      (match h with HGet sel f u obs => [spec_get rev_prefix sel f u obs] | _ => [] end)
      ++ spec_gets (h :: rev_prefix) rest'
  end.

Definition check_case (c : case) : verdict :=
  combine_verdicts (spec_gets [] (c_ops c) ++ spec_upper_gets [] (c_ops c) ++
    [if c_http c
     then match run_cmp false true false st_init (c_ops c) with None => Ok | Some w => ModelDiffers w end
     else model_verdict true false (c_ops c)]).
