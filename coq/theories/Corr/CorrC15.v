(* CorrC15.v — correspondence checker for C15 (series names and storage keys). *)
From Pyro Require Export Model.Base Model.Key Model.Dimension Model.Labels Corr.Verdict.
Open Scope string_scope.

(* a structured name: name part and (key, value) parts as written (untrimmed) *)
Record variant := {
  v_name : runes;
  v_tags : labels;
  v_str : runes;        (* []rune of the text the harness rendered and parsed *)
  v_norm : bytes        (* Go: ParseKey(text).Normalized() *)
}.

Record tkobs := {
  tk_depth : nat;
  tk_unix : Z;
  tk_key : bytes;              (* Go: k.TreeKey(depth, time.Unix(unix,0)) *)
  tk_main : option bytes;      (* Go: FromTreeToMainKey(tk_key), None = panic *)
  tk_dict : option bytes       (* Go: FromTreeToDictKey(tk_key), None = panic *)
}.

(* the name used through the real storage: one upload of `so_count` samples under ParseKey(name), then the
   label index is read back, the data is fetched under the name and under its re-parsed canonical text, and a
   retention pass (DeleteDataBefore well after the upload) runs *)
Record sobs := {
  so_count : N;
  so_keys : list bytes;                    (* Storage.GetKeys *)
  so_vals : list (bytes * list bytes);     (* Storage.GetValues(k) for every listed k and for __name__ *)
  so_hvals : list (bytes * list bytes);    (* GET /label-values?label=k *)
  so_get : N;                              (* samples Get(ParseKey(name)) returns *)
  so_reget : N;                            (* samples Get(ParseKey(Normalized())) returns *)
  so_left : N                              (* samples Get returns after the retention pass *)
}.

Record case := {
  c_in : runes;                        (* []rune(name) *)
  c_labels : list (bytes * bytes);     (* Go: the labels map, sorted by Go string order *)
  c_norm : bytes;                      (* Go: Normalized() *)
  c_seg : bytes;                       (* Go: SegmentKey() *)
  c_dictkey : bytes;                   (* Go: DictKey() *)
  c_app : bytes;                       (* Go: AppName() *)
  c_relabels : list (bytes * bytes);   (* Go: labels of ParseKey(Normalized()) *)
  c_renorm : bytes;                    (* Go: ParseKey(Normalized()).Normalized() *)
  c_reapp : bytes;
  c_tks : list tkobs;
  c_struct : option (runes * labels);  (* when c_in was rendered from a structure *)
  c_vars : list variant;
  c_store : option sobs
}.

Definition beq (a b : bytes) : bool := list_eqb N.eqb a b.
Definition obeq (a b : option bytes) : bool :=
  match a, b with
  | Some x, Some y => beq x y
  | None, None => true
  | _, _ => false
  end.
Definition lbl_eqb (a b : list (bytes * bytes)) : bool :=
  list_eqb (fun x y => beq (fst x) (fst y) && beq (snd x) (snd y)) a b.
Definition utf8_labels (m : labels) : list (bytes * bytes) := map (fun kv => (utf8 (fst kv), utf8 (snd kv))) m.
Definition outf8 (o : option runes) : option bytes := match o with Some s => Some (utf8 s) | None => None end.

(* signature of the known finding reserved-name-brace: the __name__ value contains '{' *)
Definition reserved_name_brace (c : case) : bool := has 123 (c_app c).

Definition spec_or_known (sig : bool) (b : bool) (what : string) : verdict :=
  if b then Ok else if sig then Known "reserved-name-brace" else SpecFails what.

(* ---- when is a structured text inside the hypotheses of C15_order_ws ---- *)
Definition key_chars_ok (k : runes) : bool := negb (has c_eq k) && negb (has c_rbrace k).
Definition val_chars_ok (v : runes) : bool := negb (has c_comma v) && negb (has c_rbrace v).
Definition struct_ok (n : runes) (l : labels) : bool :=
  negb (has c_lbrace n) && forallb (fun kv => key_chars_ok (fst kv) && val_chars_ok (snd kv)) l.
Definition trim_tags (l : labels) : labels := map (fun kv => (trim (fst kv), trim (snd kv))) l.
Fixpoint nodupb (l : list runes) : bool :=
  match l with
  | [] => true
  | x :: l' => negb (existsb (beq x) l') && nodupb l'
  end.
Definition rl_eqb (a b : labels) : bool :=
  list_eqb (fun x y => beq (fst x) (fst y) && beq (snd x) (snd y)) a b.
Definition sort_tags (l : labels) : labels := fold_left (fun m kv => lput (fst kv) (snd kv) m) l [].
(* same name up to surrounding white space, same distinct tags up to order and surrounding white space *)
Definition variant_rel (n : runes) (l : labels) (n' : runes) (l' : labels) : bool :=
  struct_ok n l && struct_ok n' l' &&
  beq (trim n) (trim n') &&
  nodupb (map fst (trim_tags l)) && nodupb (map fst (trim_tags l')) &&
  Nat.eqb (List.length l) (List.length l') &&
  rl_eqb (sort_tags (trim_tags l)) (sort_tags (trim_tags l')).

Definition check_variant (c : case) (n : runes) (l : labels) (v : variant) : list verdict :=
  [ corr (beq (render (v_name v) (v_tags v)) (v_str v)) "harness rendering differs from Key.render";
    (if variant_rel n l (v_name v) (v_tags v)
     then spec (beq (v_norm v) (c_norm c)) "a name differing only in tag order / surrounding white space has a different canonical form"
     else Ok);
    corr (beq (utf8 (normalized (parse (v_str v)))) (v_norm v)) "variant: normalized(parse) differs from ParseKey.Normalized" ].

Definition check_tk (c : case) (m : labels) (sig : bool) (t : tkobs) : list verdict :=
  [ spec (obeq (tk_main t) (Some (c_norm c))) "FromTreeToMainKey(TreeKey) is not the series key";
    spec_or_known sig (obeq (tk_dict t) (Some (c_app c))) "FromTreeToDictKey(TreeKey) is not the application name";
    corr (beq (utf8 (tree_key m (tk_depth t) (tk_unix t))) (tk_key t)) "tree_key model differs from Key.TreeKey";
    (* the two splitters on the implementation's own tree key (decoded model side works on runes of the model key,
       which the previous line ties to the implementation's bytes) *)
    corr (obeq (outf8 (from_tree_to_main_key (tree_key m (tk_depth t) (tk_unix t)))) (tk_main t)) "from_tree_to_main_key model differs";
    corr (obeq (outf8 (from_tree_to_dict_key (tree_key m (tk_depth t) (tk_unix t)))) (tk_dict t)) "from_tree_to_dict_key model differs" ].

Fixpoint bassoc (k : bytes) (l : list (bytes * list bytes)) : option (list bytes) :=
  match l with
  | [] => None
  | (k', v) :: l' => if beq k k' then Some v else bassoc k l'
  end.
Definition bmem (k : bytes) (l : list bytes) : bool := existsb (beq k) l.
Definition listed (keys : list bytes) (vals : list (bytes * list bytes)) (kv : bytes * bytes) : bool :=
  bmem (fst kv) keys && match bassoc (fst kv) vals with Some vs => bmem (snd kv) vs | None => false end.
Definition sset (l : list bytes) : list bytes := fold_left (fun d k => d_insert k d) l [].
Definition sset_eqb (a b : list bytes) : bool := list_eqb beq (sset a) (sset b).

(* "data written under a name is found again when the name is re-read from the label index":
   every label of the name - the application name and the tag values, empty ones included - is listed verbatim,
   the data is found under the name and under its canonical text, and the retention pass, which walks the
   label index, reaches the series *)
Definition check_store (c : case) (m : labels) (sig : bool) (o : sobs) : list verdict :=
  let mstore := fold_left (fun s kv => labels_put (utf8 (fst kv)) (utf8 (snd kv)) s) m [] in
  [ spec (forallb (listed (so_keys o) (so_vals o)) (c_labels c))
      "a label of the name (application name or tag value, possibly empty) is not re-read verbatim from the label index";
    spec (forallb (listed (so_keys o) (so_hvals o)) (c_labels c))
      "a label of the name is not listed verbatim by GET /label-values";
    spec_or_known sig (N.eqb (so_get o) (so_count o)) "data written under the name is not found under the name";
    spec_or_known sig (N.eqb (so_reget o) (so_count o)) "data written under the name is not found under its canonical text";
    spec_or_known sig (N.eqb (so_left o) 0) "a retention pass over everything did not reach the series through the label index";
    corr (sset_eqb (get_keys mstore) (so_keys o)) "Labels model: get_keys differs from GetKeys";
    corr (forallb (fun kv => sset_eqb (get_values (fst kv) mstore) (snd kv)) (so_vals o)) "Labels model: get_values differs from GetValues";
    corr (forallb (fun kv => sset_eqb (get_values (fst kv) mstore) (snd kv)) (so_hvals o)) "Labels model: get_values differs from GET /label-values" ].

Definition check_case (c : case) : verdict :=
  let m := parse (c_in c) in
  let m2 := parse (normalized m) in
  let sig := reserved_name_brace c in
  combine_verdicts (
    [ (* --- the property evaluated on what the implementation returned --- *)
      spec_or_known sig (beq (c_renorm c) (c_norm c) && beq (c_reapp c) (c_app c) && lbl_eqb (c_relabels c) (c_labels c))
        "the canonical text does not parse back to the same name";
      spec (beq (c_seg c) (c_norm c) && beq (c_dictkey c) (c_norm c)) "SegmentKey/DictKey differ from Normalized";
      (* --- model vs implementation --- *)
      corr (lbl_eqb (utf8_labels m) (c_labels c)) "parse model differs from ParseKey (labels)";
      corr (beq (utf8 (normalized m)) (c_norm c)) "normalized model differs from Key.Normalized";
      corr (beq (utf8 (app_name m)) (c_app c)) "app_name model differs from Key.AppName";
      corr (lbl_eqb (utf8_labels m2) (c_relabels c)) "re-parse: model differs from ParseKey(Normalized())";
      corr (beq (utf8 (normalized m2)) (c_renorm c)) "re-parse: normalized model differs"
    ]
    ++ flat_map (check_tk c m sig) (c_tks c)
    ++ match c_store c with Some o => check_store c m sig o | None => [] end
    ++ match c_struct c with
       | Some (n, l) =>
           corr (beq (render n l) (c_in c)) "harness rendering differs from Key.render (base)"
           :: flat_map (check_variant c n l) (c_vars c)
       | None =>
           flat_map (fun v => [corr (beq (utf8 (normalized (parse (v_str v)))) (v_norm v)) "variant: normalized(parse) differs"]) (c_vars c)
       end).
