(* Verdict.v — shared by all correspondence checkers. *)
From Coq Require Export String.
From Coq Require Export List NArith.
Export ListNotations.
Inductive verdict :=
| Ok
| ModelDiffers (what : string)   (* model and implementation disagree on a projected observable *)
| SpecFails (what : string)      (* the property's own statement fails on what the implementation returned *)
| Known (id : string).           (* spec failure attributable to a listed known finding (signature matched) *)

Definition is_ok (v : verdict) : bool := match v with Ok => true | _ => false end.

Definition failures {C} (check : C -> verdict) (cases : list (N * C)) : list (N * verdict) :=
  filter (fun r => negb (is_ok (snd r))) (map (fun ic => (fst ic, check (snd ic))) cases).

(* first non-Ok verdict of a list of checks, SpecFails having priority over ModelDiffers *)
Fixpoint first_spec (l : list verdict) : option verdict :=
  match l with
  | [] => None
  | SpecFails w :: _ => Some (SpecFails w)
  | _ :: l' => first_spec l'
  end.
Fixpoint first_bad (l : list verdict) : option verdict :=
  match l with
  | [] => None
  | Ok :: l' => first_bad l'
  | v :: _ => Some v
  end.
Definition combine_verdicts (l : list verdict) : verdict :=
  match first_spec l with
  | Some v => v
  | None => match first_bad l with Some v => v | None => Ok end
  end.

Definition spec (b : bool) (what : string) : verdict := if b then Ok else SpecFails what.
Definition corr (b : bool) (what : string) : verdict := if b then Ok else ModelDiffers what.
