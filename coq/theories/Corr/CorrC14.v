(* CorrC14.v — correspondence checker for C14 (reloading a segment changes nothing observable).
   The harness builds a segment by writes and retention cuts, serialises it, loads the bytes into a
   second Segment, applies one more operation sequence to both copies and dumps everything.
   SpecFails: the two copies ever differ, or re-serialisation differs from the original bytes
   (implementation against itself).  ModelDiffers: the model (codec, put, get, delete) against Go. *)
From Pyro Require Export Model.SegCodec Model.MetaJson Corr.CorrC03.
Open Scope string_scope.
Local Open Scope Z_scope.

Definition o_meta := (bytes * N * bytes * bytes)%type.        (* spy, rate, units, aggregation *)
Definition o_tl := (Z * list N * Z)%type.                     (* StartTime, Samples, durationDelta (s) *)

(* build phase: operations on the original, one observation each *)
Inductive b_op :=
| BPut (w : o_write)
| BDel (thr : Z) (cbs : list (nat * Z)) (gone : bool)
| BSetMeta (m : o_meta).                 (* SetMetadata before a write, as Storage.Put does *)

(* after the reload: the same operation on both copies, two observations *)
Inductive d_op :=
| DPut (w1 w2 : o_write)
| DGet (q1 q2 : o_query)
| DDel (thr : Z) (cbs1 cbs2 : list (nat * Z)) (gone1 gone2 : bool)
| DTimeline (st et : Z) (t1 t2 : o_tl)
| DMeta (m1 m2 : o_meta)
| DSetMeta (m : o_meta)                  (* SetMetadata(m) on both copies *)
(* the original is serialised while a Put (w1) from another goroutine arrives part-way through the stream;
   the copy gets the same Put (w2) plainly.  before/after: the original's tree before Serialize started and
   after both finished; loaded/dec: FromBytes of the bytes that Serialize produced, and its tree *)
| DConcSer (w1 w2 : o_write) (before after : option onode) (loaded : bool) (dec : option onode) (bs : bytes).

Record case := {
  d_build : list b_op;
  d_meta : o_meta;               (* SetMetadata on the original before saving *)
  d_tree0 : option onode;        (* original at save time *)
  d_bytes : bytes;               (* original.Bytes() *)
  d_loaded : bool;               (* FromBytes succeeded *)
  d_tree1 : option onode;        (* the copy right after FromBytes *)
  d_meta1 : o_meta;              (* getters of the copy *)
  d_rebytes : bytes;             (* copy.Bytes() right after the load *)
  d_ops : list d_op;
  d_end0 : option onode; d_end1 : option onode;
  d_endbytes0 : bytes; d_endbytes1 : bytes
}.

(* ---- equalities on dumps ---- *)
Fixpoint on_eqb (x y : onode) {struct x} : bool :=
  match x, y with
  | ON d t p s w ch, ON d' t' p' s' w' ch' =>
      Nat.eqb d d' && (t =? t') && Bool.eqb p p' && N.eqb s s' && N.eqb w w' &&
      (fix go (a : list (option onode)) (b : list (option onode)) {struct a} : bool :=
         match a, b with
         | [], [] => true
         | None :: a', None :: b' => go a' b'
         | Some c :: a', Some c' :: b' => on_eqb c c' && go a' b'
         | _, _ => false
         end) ch ch'
  end.
Definition oon_eqb (x y : option onode) : bool :=
  match x, y with Some a, Some b => on_eqb a b | None, None => true | _, _ => false end.
Definition bytes_eqb := list_eqb N.eqb.
Definition o_meta_eqb (x y : o_meta) : bool :=
  match x, y with (a, b, c, d), (a', b', c', d') => bytes_eqb a a' && N.eqb b b' && bytes_eqb c c' && bytes_eqb d d' end.
Definition kz_eqb (x y : nat * Z) : bool := Nat.eqb (fst x) (fst y) && (snd x =? snd y).
Definition opcb_eqb (x y : o_pcb) : bool :=
  match x, y with OP l t n d a, OP l' t' n' d' a' =>
    Nat.eqb l l' && (t =? t') && (n =? n') && (d =? d') && list_eqb kz_eqb a a' end.
Definition ogcb_eqb (x y : o_gcb) : bool :=
  match x, y with OG l t s w n d, OG l' t' s' w' n' d' =>
    Nat.eqb l l' && (t =? t') && N.eqb s s' && N.eqb w w' && (n =? n') && (d =? d') end.
Definition ow_eqb (x y : o_write) : bool :=
  match x, y with OW a b s na nb c, OW a' b' s' na' nb' c' =>
    (a =? a') && (b =? b') && N.eqb s s' && (na =? na') && (nb =? nb') && list_eqb opcb_eqb c c' end.
Definition oq_eqb (x y : o_query) : bool :=
  match x, y with OQ a b c, OQ a' b' c' => (a =? a') && (b =? b') && list_eqb ogcb_eqb c c' end.
Definition otl_eqb (x y : o_tl) : bool :=
  match x, y with (a, l, d), (a', l', d') => (a =? a') && list_eqb N.eqb l l' && (d =? d') end.

(* UTF-8 validity and what encoding/json does to a string (utf8_fix, json_string_roundtrip, utf8_validb):
   Model/MetaJson.v *)
(* signature of the known finding metadata-invalid-utf8: some metadata string is not valid UTF-8, and the
   reloaded metadata is exactly what encoding/json makes of it (rate unchanged) *)
Definition metadata_invalid_utf8 (m0 m1 : o_meta) : bool :=
  match m0, m1 with
  | (a, b, c, d), (a', b', c', d') =>
      negb (utf8_validb a && utf8_validb c && utf8_validb d) && N.eqb b b' &&
      bytes_eqb a' (json_string_roundtrip a) && bytes_eqb c' (json_string_roundtrip c) &&
      bytes_eqb d' (json_string_roundtrip d)
  end.

(* the part of the serialised segment after the metadata block, and the format version *)
Definition after_meta (bs : bytes) : option (N * bytes) :=
  match uvarint_dec bs with None => None | Some (ver, bs1) =>
  match uvarint_dec bs1 with None => None | Some (ml, bs2) =>
  match (if (Nlen bs2 <? ml)%N then None else take_bytes (N.to_nat ml) bs2) with
  | None => None
  | Some (_, rest) => Some (ver, rest)
  end end end.
Definition meta_block (bs : bytes) : option bytes :=
  match uvarint_dec bs with None => None | Some (_, bs1) =>
  match uvarint_dec bs1 with None => None | Some (ml, bs2) =>
  match (if (Nlen bs2 <? ml)%N then None else take_bytes (N.to_nat ml) bs2) with
  | None => None
  | Some (mb, _) => Some mb
  end end end.
Definition same_but_meta (x y : bytes) : bool :=
  match after_meta x, after_meta y with
  | Some (v, r), Some (v', r') => N.eqb v v' && bytes_eqb r r'
  | _, _ => false
  end.

Definition meta_of (m : o_meta) : meta :=
  match m with (a, b, c, d) => {| m_spy := a; m_rate := b; m_units := c; m_agg := d |} end.

(* ---- model steps compared with Go's observations ---- *)
Definition model_put (s : segment) (w : o_write) : segment * verdict :=
  match w with
  | OW st et smp nst net ocbs =>
      let '(a, b) := s_normalize_unix (st, et) in
      let '(s', cbs) := s_put a b smp s in
      (s', combine_verdicts [
         corr ((slot_to_unix a =? nst) && (slot_to_unix b =? net)) "s_normalize model differs from normalize";
         corr (s_grow_ok a b s) "write outside the supported epoch block (generator error)";
         corr (list_eqb pcb_eqb (sort_pcbs cbs) (sort_pcbs (map pcb_of ocbs)))
              "s_put model differs from Segment.Put callbacks" ])
  end.
Definition model_del (s : segment) (thr : Z) (cbs : list (nat * Z)) (gone : bool) : segment * verdict :=
  let '(s', mcbs, mgone) := s_delete_before_unix thr s in
  (s', combine_verdicts [
     corr (list_eqb skey_eqb mcbs (map (fun k => (fst k, unix_to_slot (snd k))) cbs))
          "s_delete_before model differs from DeleteDataBefore callbacks";
     corr (Bool.eqb mgone gone) "s_delete_before model differs on the returned flag" ]).
Definition model_get (s : segment) (q : o_query) : verdict :=
  match q with
  | OQ st et ocbs =>
      let '(a, b) := s_normalize_unix (st, et) in
      corr (list_eqb gcb_eqb (sort_gcbs (s_get a b s)) (sort_gcbs (map gcb_of ocbs)))
           "s_get model differs from Segment.Get callbacks"
  end.

Definition tree_matches (s : segment) (o : option onode) : bool :=
  match o, s_root s with
  | Some t, Some (l, n) => Nat.eqb (on_depth t) l &&
                           match sn_of l t with Some n' => sn_eqb n n' | None => false end
  | None, None => true
  | _, _ => false
  end.

Fixpoint run_build (ops : list b_op) (s : segment) (acc : list verdict) : segment * list verdict :=
  match ops with
  | [] => (s, rev acc)
  | BPut w :: ops' => let '(s', v) := model_put s w in run_build ops' s' (v :: acc)
  | BDel thr cbs gone :: ops' => let '(s', v) := model_del s thr cbs gone in run_build ops' s' (v :: acc)
  | BSetMeta m :: ops' => run_build ops' (s_set_meta (meta_of m) s) acc
  end.

(* [exp]: None = the getters of the two copies must be equal; Some (e0, e1) = (known finding, until the next
   SetMetadata) copy 0 must report e0 and the reloaded copy e1 *)
Fixpoint run_ops (exp : option (o_meta * o_meta)) (ops : list d_op) (s : segment) (acc : list verdict) : segment * list verdict :=
  match ops with
  | [] => (s, rev acc)
  | DPut w1 w2 :: ops' =>
      let '(s', v) := model_put s w1 in
      run_ops exp ops' s' (v :: spec (ow_eqb w1 w2) "Put: the reloaded copy made different callbacks" :: acc)
  | DGet q1 q2 :: ops' =>
      run_ops exp ops' s (model_get s q1 :: spec (oq_eqb q1 q2) "Get: the reloaded copy answered differently" :: acc)
  | DDel thr c1 c2 g1 g2 :: ops' =>
      let '(s', v) := model_del s thr c1 g1 in
      run_ops exp ops' s' (v :: spec (list_eqb kz_eqb c1 c2 && Bool.eqb g1 g2)
                                 "DeleteDataBefore: the reloaded copy behaved differently" :: acc)
  | DTimeline _ _ t1 t2 :: ops' =>
      run_ops exp ops' s (spec (otl_eqb t1 t2) "timeline: the reloaded copy differs" :: acc)
  | DMeta m1 m2 :: ops' =>
      run_ops exp ops' s (spec (match exp with
                                | Some (e0, e1) => o_meta_eqb m1 e0 && o_meta_eqb m2 e1
                                | None => o_meta_eqb m1 m2
                                end) "metadata getters: the reloaded copy differs" ::
                          corr (o_meta_eqb m1 (m_spy (s_meta s), m_rate (s_meta s), m_units (s_meta s), m_agg (s_meta s)))
                               "metadata getters of the original differ from the last SetMetadata" :: acc)
  | DSetMeta m :: ops' =>
      run_ops (match exp with Some _ => Some (m, m) | None => None end) ops' (s_set_meta (meta_of m) s) acc
  | DConcSer w1 w2 before after loaded dec bs :: ops' =>
      let '(s', v) := model_put s w1 in
      run_ops exp ops' s'
        (v ::
         spec (ow_eqb w1 w2) "Put: the reloaded copy made different callbacks" ::
         (* an empty segment (everything removed by retention) does not serialise to loadable bytes: C14 is
            about non-empty trees *)
         spec (loaded || match before with None => true | Some _ => false end)
              "bytes saved while a write was arriving do not load" ::
         spec (negb loaded || oon_eqb dec before || oon_eqb dec after)
              "bytes saved while a write was arriving are neither the state before the write nor the state after it" ::
         corr (tree_matches s before) "model tree differs from the segment before the concurrent save" ::
         corr (match s_deserialize read_meta bs with
               | Some sd => tree_matches sd dec
               | None => negb loaded
               end) "model decoder differs from FromBytes on the bytes saved during a write" :: acc)
  end.

Definition check_case (c : case) : verdict :=
  let '(m0, bv) := run_build (d_build c) s_empty [] in
  let m0 := s_set_meta (meta_of (d_meta c)) m0 in
  let dec := s_deserialize read_meta (d_bytes c) in
  (* known finding: invalid UTF-8 in a metadata string is replaced by U+FFFD on save.  When its signature
     holds, the comparisons that involve metadata are made modulo exactly that replacement: the getters of
     the two copies must be the original resp. the replaced strings, and the serialised forms must agree
     outside the metadata block.  Everything else is checked as usual. *)
  let strict := o_meta_eqb (d_meta c) (d_meta1 c) in
  let known := negb strict && metadata_invalid_utf8 (d_meta c) (d_meta1 c) in
  let exp := if known then Some (d_meta c, d_meta1 c) else None in
  let beq := if known then same_but_meta else bytes_eqb in
  let '(mend, ov) := run_ops exp (d_ops c) m0 [] in
  let r := combine_verdicts (
    [ spec (d_loaded c) "FromBytes failed on bytes written by Bytes";
      spec (oon_eqb (d_tree0 c) (d_tree1 c)) "the reloaded tree differs from the saved one";
      spec (strict || known) "metadata differs after reload";
      spec (beq (d_bytes c) (d_rebytes c)) "re-saving the reloaded segment yields different bytes";
      spec (oon_eqb (d_end0 c) (d_end1 c)) "the two copies differ after the same operations";
      spec (beq (d_endbytes0 c) (d_endbytes1 c)) "the two copies serialise differently after the same operations" ]
    ++ bv ++ ov ++
    [ corr (tree_matches m0 (d_tree0 c)) "model tree differs from the saved segment (put/delete model)";
      corr (match dec with
            | Some s => tree_matches s (d_tree1 c)
            | None => false
            end) "model decoder on Go's bytes differs from the reloaded segment";
      corr (match dec with
            | Some s => o_meta_eqb (m_spy (s_meta s), m_rate (s_meta s), m_units (s_meta s), m_agg (s_meta s)) (d_meta1 c)
            | None => false
            end) "model JSON reader on Go's metadata block differs from the reloaded getters";
      corr (match meta_block (d_bytes c) with
            | Some mb => bytes_eqb mb (write_meta (meta_of (d_meta c)))
            | None => false
            end) "metadata JSON written by Go differs from the model of json.Marshal";
      corr (match s_deserialize (fun _ => Some (s_meta m0)) (s_serialize (fun _ => []) m0) with
            | Some s => tree_matches s (d_tree0 c)
            | None => false
            end) "model encoder/decoder round trip differs from the saved segment";
      corr (tree_matches mend (d_end0 c)) "model tree differs after the operations (put/delete model)";
      corr (match meta_block (d_endbytes0 c) with
            | Some mb => bytes_eqb mb (write_meta (s_meta mend))
            | None => false
            end) "metadata JSON written by Go after the operations differs from the model of json.Marshal" ]) in
  match r with
  | Ok => if known then Known "metadata-invalid-utf8" else Ok
  | _ => r
  end.
