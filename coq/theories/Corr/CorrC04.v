(* CorrC04.v — correspondence checker for C04 (profile codec). *)
From Pyro Require Export Model.Base Model.Varint Model.Tree Model.Cappedarr Model.Dict Model.TreeCodec Corr.Verdict.
Open Scope string_scope.

(* run-length form used by the harness to print big trees: k nested frames with the same name, self and total,
   each the only child of the one above, around [c] (a lossless abbreviation of the dump, expanded here) *)
Fixpoint t_rep (k : nat) (n : bytes) (s tot : N) (c : tnode) : tnode :=
  match k with
  | O => c
  | S k' => TNode n s tot [t_rep k' n s tot c]
  end.

(* one step of a sequence of encodings performed on ONE tree object (no Insert/Merge in between):
   kind 0 = Bytes/FromBytes with a fresh dictionary, 1 = SerializeNoDict/DeserializeNoDict,
   2 = FlamebearerStruct (result not used here), 3 = minValue; each with its own cap *)
Record seqobs := { q_kind : nat; q_cap : nat; q_dec : option tnode; q_minval : N }.

Record case := {
  c_orig : tnode;                 (* VerifDump of the tree before encoding (VerifBuild or Insert) *)
  c_cap : nat;                    (* maxNodes, >= 1 *)
  c_pre : list bytes;             (* names put into the second dictionary beforehand *)
  c_minval : N;                   (* Go: VerifMinValue(cap) *)
  c_dec_fresh : option tnode;     (* Go: FromBytes(d, Bytes(d, cap)) with a fresh dictionary *)
  c_dec_pre : option tnode;       (* Go: the same with the pre-populated dictionary *)
  c_dec_nodict : option tnode;    (* Go: DeserializeNoDict(SerializeNoDict(cap)) *)
  c_src_untouched : bool;         (* Go: the source tree dumps identically after the three encodings *)
  c_seq : list seqobs;            (* Go: further encodings on a second, single tree object, in this order *)
  c_big : bool;                   (* a tree of tens of thousands of nodes under a cap above its size: only the
                                     below-the-cap clause of the property is evaluated (linear comparisons); the
                                     model's threshold walk is quadratic in the cap and is not run *)
  c_bad : option (bytes * option tnode)
                                  (* malformed stream (a corrupted SerializeNoDict output) and what DeserializeNoDict
                                     answered for it (None = error); exercises the decoder's error cases *)
}.

(* every stack of the decoded tree exists in the original with the same self value *)
Definition stacks_in (dec orig : tnode) : bool :=
  forallb (fun ps => match t_at (fst ps) orig with
                     | Some (s, _) => N.eqb s (snd ps)
                     | None => false
                     end) (t_den dec).

(* the property's statement for one decoding, relative to the ORIGINAL tree only.
   Below the cap the decoded tree must be the original up to zero-total frames.  When it is not, but the original
   is inexact (some total exceeds self + children: Clone's independent flooring) and the decoded tree equals the
   original WITH ITS TOTALS RECOMPUTED FROM THE SELF VALUES (same names, shape and per-stack self values; only
   totals differ), the failure is the known finding scaled-totals-reloaded; anything else is a spec failure. *)
Definition below_cap_verdict (which : string) (orig : tnode) (cap : nat) (exact : bool) (d : tnode) : verdict :=
  if negb (Nat.ltb (t_size orig) cap) || t_eqb (t_strip0 d) (t_strip0 orig) then Ok
  else if negb exact && t_eqb (t_strip0 d) (t_strip0 (t_retotal orig)) then Known "scaled-totals-reloaded"
  else SpecFails (which ++ ": below the cap the decoded tree differs from the original (beyond zero-total frames)").

Definition spec_one (which : string) (orig : tnode) (cap : nat) (exact : bool) (dec : option tnode) : list verdict :=
  match dec with
  | None => [SpecFails (which ++ ": decoding failed")]
  | Some d =>
      [below_cap_verdict which orig cap exact d;
       spec (stacks_in d orig) (which ++ ": decoded tree has a stack or a self value the original does not have");
       spec (t_exactb d) (which ++ ": decoded totals are not self + children")]
  end.

Definition opt_eqb (a b : option tnode) : bool :=
  match a, b with
  | Some x, Some y => t_eqb x y
  | None, None => true
  | _, _ => false
  end.

(* every step of a sequence is judged for ITS cap: the property's statement on what was decoded, and the model *)
Definition check_seq (t : tnode) (good exact : bool) (q : seqobs) : list verdict :=
  let cap := q_cap q in
  match q_kind q with
  | 0%nat =>
      (if good then spec_one "sequence on one tree object, dictionary encoding" t cap exact (q_dec q) else []) ++
      [corr (opt_eqb (let '(bs, d) := tc_serialize cap t d_new in tc_deserialize d bs) (q_dec q))
            "sequence on one tree object: model of Serialize/Deserialize differs"]
  | 1%nat =>
      (if good then spec_one "sequence on one tree object, self-contained encoding" t cap exact (q_dec q) else []) ++
      [corr (opt_eqb (tc_deserialize_nodict (tc_serialize_nodict cap t)) (q_dec q))
            "sequence on one tree object: model of SerializeNoDict/DeserializeNoDict differs"]
  | 3%nat => [corr (N.eqb (t_minval cap t) (q_minval q)) "sequence on one tree object: t_minval differs from Tree.minValue"]
  | _ => []
  end%list.

(* the big-tree case: below the cap every decoding must be the original up to zero-total frames *)
Definition check_big (c : case) : verdict :=
  let t := c_orig c in
  let one (which : string) (dec : option tnode) : verdict :=
    match dec with
    | None => SpecFails (which ++ ": decoding failed")
    | Some d => combine_verdicts
                  [spec (t_eqb (t_strip0 d) (t_strip0 t))
                        (which ++ ": below the cap the decoded tree differs from the original (beyond zero-total frames)");
                   spec (t_exactb d) (which ++ ": decoded totals are not self + children")]
    end in
  if t_wfb t && t_exactb t && Nat.ltb (t_size t) (c_cap c) then
    combine_verdicts [one "dictionary encoding" (c_dec_fresh c);
                      one "dictionary encoding (dictionary with earlier entries)" (c_dec_pre c);
                      one "self-contained encoding" (c_dec_nodict c);
                      spec (c_src_untouched c) "encoding modified the source tree"]
  else ModelDiffers "big-tree case outside its intended domain (well-formed, exact, below the cap)".

Definition check_case_small (c : case) : verdict :=
  let t := c_orig c in
  let cap := c_cap c in
  (* the property speaks about the trees the system holds: children sorted by name, total >= self + children
     (Insert/Merge give equality, Clone keeps >=: C09) *)
  let good := t_wfb t && t_subb t in
  let exact := t_exactb t in
  let m_nodict := tc_deserialize_nodict (tc_serialize_nodict cap t) in
  let m_fresh := let '(bs, d) := tc_serialize cap t d_new in tc_deserialize d bs in
  let dpre := fold_left (fun d n => snd (d_put n d)) (c_pre c) d_new in
  let m_pre := let '(bs, d) := tc_serialize cap t dpre in tc_deserialize d bs in
  (* order: SpecFails anywhere wins (combine_verdicts); otherwise a model difference is reported before a
     known finding *)
  combine_verdicts (
    [spec (c_src_untouched c) "encoding modified the source tree";
     corr (N.eqb (t_minval cap t) (c_minval c)) "t_minval differs from Tree.minValue";
     corr (opt_eqb m_nodict (c_dec_nodict c)) "model of SerializeNoDict/DeserializeNoDict differs";
     corr (opt_eqb m_fresh (c_dec_fresh c)) "model of Serialize/Deserialize (fresh dictionary) differs";
     corr (opt_eqb m_pre (c_dec_pre c)) "model of Serialize/Deserialize (dictionary with entries) differs";
     corr (match c_bad c with
           | None => true
           | Some (bs, r) => opt_eqb (tc_deserialize_nodict bs) r
           end) "model of DeserializeNoDict differs on a malformed stream"] ++
    flat_map (check_seq t good exact) (c_seq c) ++
    (if good then
       spec_one "dictionary encoding" t cap exact (c_dec_fresh c) ++
       spec_one "dictionary encoding (dictionary with earlier entries)" t cap exact (c_dec_pre c) ++
       spec_one "self-contained encoding" t cap exact (c_dec_nodict c) ++
       [spec (opt_eqb (c_dec_fresh c) (c_dec_nodict c) && opt_eqb (c_dec_pre c) (c_dec_nodict c))
             "the two encodings do not decode to the same tree"]
     else []))%list.

Definition check_case (c : case) : verdict := if c_big c then check_big c else check_case_small c.
