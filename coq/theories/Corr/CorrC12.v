(* CorrC12.v — correspondence checker for C12 (dictionary keys stay valid). *)
From Pyro Require Export Model.Base Model.Varint Model.Dict Model.Tree Corr.Verdict.
Open Scope string_scope.
Open Scope list_scope.

Inductive cop := CPut (name : bytes) | CReload | CProbe (key : bytes)
| CPuts (names : list bytes)    (* a batch of Puts observed as one step (big-dictionary stream) *)
| CHold                         (* Bytes(): the image is KEPT by the caller (not reloaded now) *)
| CLoadHeld (i : nat).          (* FromBytes(the i-th kept image): the dictionary is again what it was at that save;
                                   keys issued after that save are forgotten by the caller *)

(* what the harness dumps after each operation *)
Record sobs := {
  so_key : bytes;          (* CPut: the key Put returned (else []) *)
  so_keys : list bytes;    (* CPuts: the keys returned, in order (else []) *)
  so_ok : bool;            (* CReload: FromBytes(Bytes()) succeeded (else true) *)
  so_dump : trie;          (* VerifDump after the operation *)
  so_gets : list gres;     (* Get of EVERY key issued so far, in issue order, after the operation *)
  so_probe : gres          (* CProbe: result of Get on the (possibly malformed) key; else GMissing *)
}.

(* storage-level stream: uploads of one application (each into its own 10 s slot), write-back ticks of the
   periodic task and evictions in between, Close, New, render.  Stored trees reference frame names only through
   dictionary keys, so every frame name has to come back. *)
Record storobs := {
  sr_stacks : list (bytes * N);      (* every (stack, count) ingested, in order *)
  sr_writeback : bool;               (* the history contains a write-back tick of the periodic task *)
  sr_before : option tnode;          (* Go: storage.Get over all slots right before Close *)
  sr_after : option tnode            (* Go: the same query after Close + New *)
}.

Record case := { c_ops : list cop; c_obs : list sobs; c_stor : option storobs }.

Definition den_of_stacks (ss : list (bytes * N)) : list (list bytes * N) :=
  pnz (pnorm (map (fun kv => (bsplit 59 (fst kv), snd kv)) ss)).
Definition den_of_tree (t : option tnode) : list (list bytes * N) :=
  match t with Some t => pnz (pnorm (t_den t)) | None => [] end.

(* every stack of [obs] is an ingested stack and does not carry more than was ingested for it *)
Definition stacks_within (obs expected : list (list bytes * N)) : bool :=
  forallb (fun pv => N.leb (snd pv) (pget (fst pv) expected)) obs.

(* Histories WITHOUT a write-back tick: the profile after Close + New is exactly the sum of what was ingested.
   Histories WITH write-back ticks: the lfu fork's persist() marks entries as saved whose hand-off was dropped
   (known finding writeback-drop of C05/C02), so whole trees may be missing after a later eviction or Close; that is
   not this property's business.  What C12 demands there: nothing that comes back is renamed or inflated — every stack
   shown is a stack that was ingested, with at most its count (a key that decodes to another name, or to the
   "label not found" text, moves counts onto stacks that were never ingested or overfills existing ones). *)
Definition check_stor (o : option storobs) : list verdict :=
  match o with
  | None => []
  | Some r =>
      let expected := den_of_stacks (sr_stacks r) in
      if sr_writeback r then
        [spec (stacks_within (den_of_tree (sr_after r)) expected)
              "after Close + New a stored profile shows a stack (frame names) or a count that was never ingested";
         spec (stacks_within (den_of_tree (sr_before r)) expected)
              "before the restart a stored profile shows a stack or a count that was never ingested"]
      else
        [spec (pm_eqb (den_of_tree (sr_after r)) expected)
              "after Close + New a stored profile does not show the frame names (stacks and counts) that were ingested";
         corr (pm_eqb (den_of_tree (sr_before r)) expected)
              "storage: the profile rendered before the restart is not the sum of what was ingested"]
  end.

Definition gres_eqb (a b : gres) : bool :=
  match a, b with
  | GFound x, GFound y => beqb x y
  | GMissing, GMissing => true
  | GPanic, GPanic => true
  | GFuel, GFuel => true
  | _, _ => false
  end.

(* the property's own statement on what the implementation returned: the i-th issued key still
   decodes to the i-th name *)
Fixpoint gets_ok (issued : list (bytes * bytes)) (gets : list gres) : bool :=
  match issued, gets with
  | [], [] => true
  | (_, name) :: issued', g :: gets' => gres_eqb g (GFound name) && gets_ok issued' gets'
  | _, _ => false
  end.

Fixpoint run (ops : list cop) (obs : list sobs) (t : trie) (issued : list (bytes * bytes))
             (held : list (trie * list (bytes * bytes))) : list verdict :=
  match ops, obs with
  | [], [] => []
  | o :: ops', s :: obs' =>
      let '(t', issued', held', vs) :=
        match o with
        | CPut name =>
            let '(k, t') := d_put name t in
            (t', issued ++ [(so_key s, name)], held,
             [corr (beqb k (so_key s)) "d_put: key differs from Dict.Put"])
        | CPuts names =>
            let '(ks, t') := fold_left (fun acc n => let '(k, t1) := d_put n (snd acc) in (fst acc ++ [k], t1)) names ([], t) in
            (t', issued ++ combine (so_keys s) names, held,
             [corr (list_eqb beqb ks (so_keys s)) "d_put: a key of a batch differs from Dict.Put"])
        | CHold => (t, issued, held ++ [(t, issued)], [spec (so_ok s) "Bytes() failed"])
        | CLoadHeld i =>
            match nth_error held i with
            | Some (ti, issi) =>
                match d_deserialize (d_serialize ti) with
                | Some t' => (t', issi, held, [spec (so_ok s) "FromBytes of an image saved earlier failed"])
                | None => (ti, issi, held, [spec (so_ok s) "FromBytes of an image saved earlier failed";
                                            ModelDiffers "model: deserialize (serialize t) failed"])
                end
            | None => (t, issued, held, [ModelDiffers "no such held image"])
            end
        | CReload =>
            match d_deserialize (d_serialize t) with
            | Some t' => (t', issued, held, [spec (so_ok s) "FromBytes(Bytes()) failed"])
            | None => (t, issued, held, [spec (so_ok s) "FromBytes(Bytes()) failed";
                                         ModelDiffers "model: deserialize (serialize t) failed"])
            end
        | CProbe key =>
            (t, issued, held, [corr (gres_eqb (d_get_res key t) (so_probe s)) "d_get on a probe key differs from Dict.Get"])
        end in
      vs ++
      [spec (gets_ok issued' (so_gets s)) "a previously issued key no longer decodes to its name";
       (match o with
        | CLoadHeld _ => spec (tr_eqb t' (so_dump s)) "an image saved earlier does not reload to the dictionary as it was at that save"
        | _ => corr (tr_eqb t' (so_dump s)) "trie structure differs from VerifDump"
        end);
       corr (list_eqb gres_eqb (map (fun kn => d_get_res (fst kn) t') issued') (so_gets s)) "d_get differs from Dict.Get on an issued key"]
      ++ run ops' obs' t' issued' held'
  | _, _ => [ModelDiffers "ops/observations length mismatch"]
  end.

Definition check_case (c : case) : verdict :=
  combine_verdicts (run (c_ops c) (c_obs c) d_new [] [] ++ check_stor (c_stor c)).
