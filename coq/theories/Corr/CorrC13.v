(* CorrC13.v — correspondence checker for C13 (timeline). *)
From Pyro Require Export Corr.StorCorr Corr.FbTree.
Local Open Scope Z_scope.

Record case := { c_ops : list hop }.

Definition upl := (sid * Z * Z * list (bytes * N) * meta)%type.
Definition u_from (x : upl) : Z := let '(_, f, _, _, _) := x in f.
Definition u_until (x : upl) : Z := let '(_, _, u, _, _) := x in u.
Definition u_stacks (x : upl) : list (bytes * N) := let '(_, _, _, ss, _) := x in ss.
Definition u_win (x : upl) : Z * Z := put_span (u_from x) (u_until x).
Definition u_span (x : upl) : Z := let '(wa, wb) := u_win x in wb - wa.
Definition u_total (x : upl) : Z := Z.of_N (sumN (map snd (u_stacks x))).

(* the bucket level the property prescribes: the largest 10^k * 10 s strictly below range/1024,
   10 s when there is none — computed on exact rationals: 10^k * 10 s < (b-a)*10 s / 1024
   <=> 1024 * 10^k < b - a  (slots); Go truncates range/1024 to nanoseconds first, which matters only
   when (b-a)*10^10 is not divisible by 1024 and the quotient is within 1 ns of 10^k*10^10: then
   10^k*10^10 < q  <=>  10^k * 10^10 * 1024 + 1024 <= (b-a) * 10^10, i.e. never different for integers
   10^k <= 10^8 since (b-a)*10^10 - 1024*10^(k+10) is a multiple of 10^10 > 1024 when positive. *)
Fixpoint spec_level (cands : list nat) (span : Z) (best : nat) : nat :=
  match cands with
  | [] => best
  | l :: rest => if 1024 * pow10 l <? span then spec_level rest span l else spec_level rest span best
  end.

Fixpoint range_list (i : Z) (n : nat) : list Z :=
  match n with O => [] | S n' => i :: range_list (i + 1) n' end.

(* entry i of the timeline as the property states it, from the history alone *)
Definition spec_entry (lp : list upl) (a w : Z) (i : Z) : N :=
  let lo := a + i * w in
  let hi := lo + w in
  let touching := filter (fun x => let '(wa, wb) := u_win x in 0 <? ov wa wb lo hi) lp in
  match touching with
  | [] => 0%N
  | _ => Z.to_N (1 + sumZ (map (fun x => let '(wa, wb) := u_win x in u_total x / u_span x * ov wa wb lo hi) touching))
  end.

(* the bound for counts that are not a multiple of the span (C13_share_bound / C13_counter_bound): entry i is
   assembled from the counters of the sub-buckets one level below the bucket size (the 10 s nodes themselves for
   10 s buckets); each upload adds to each sub-bucket it meets its binary64 share, which is within 1 of
   floor(total * slots_inside / span).  So the entry is 0 when nothing touches the bucket and otherwise lies in
   1 + sum (floor - 1) .. 1 + sum (floor + 1) over (upload, sub-bucket) pairs that meet. *)
Definition piece_bounds (lp : list upl) (lo sw : Z) (q : Z) : Z * Z * bool :=
  let slo := lo + q * sw in
  fold_left (fun acc x =>
               let '(l, h, tch) := acc in
               let '(wa, wb) := u_win x in
               let o := ov wa wb slo (slo + sw) in
               if 0 <? o then (l + (u_total x * o / u_span x - 1), h + (u_total x * o / u_span x + 1), true) else acc)
            lp (0, 0, false).
Definition bound_entry_ok (lp : list upl) (a w : Z) (dl : nat) (i : Z) (e : N) : bool :=
  let lo := a + i * w in
  let sw := pow10 (Nat.pred dl) in
  let nsub := Z.to_nat (w / sw) in
  let '(l, h, tch) := fold_left (fun acc q => let '(l, h, t) := acc in
                                              let '(l', h', t') := piece_bounds lp lo sw q in (l + l', h + h', t || t'))
                                (range_list 0 nsub) (0, 0, false) in
  if tch then (1 + l <=? Z.of_N e) && (Z.of_N e <=? 1 + h) else (e =? 0)%N.
Fixpoint bound_entries_ok (lp : list upl) (a w : Z) (dl : nat) (i : Z) (es : list N) : bool :=
  match es with
  | [] => true
  | e :: es' => bound_entry_ok lp a w dl i e && bound_entries_ok lp a w dl (i + 1) es'
  end.

Definition spec_get (rev_prefix : list hop) (sel : sid) (f u : Z) (obs : option get_obs) : verdict :=
  match obs with
  | None => Ok                     (* no matching data: the handler builds an empty answer itself *)
  | Some o =>
      let '(a, b) := s_normalize_unix (f, u) in
      let lvl := spec_level [0; 1; 2; 3; 4; 5; 6; 7; 8]%nat (b - a) O in
      let w := pow10 lvl in
      let n := Z.to_nat ((b - a) / w) in
      combine_verdicts [
        spec (g_tl_start o =? slot_to_unix a) "timeline does not start at the range start rounded down to 10 s"%string;
        spec (g_tl_delta o =? 10 * w) "bucket size is not the largest power-of-ten bucket below range/1024"%string;
        spec (Nat.eqb (length (g_tl_samples o)) n) "timeline does not have one entry per bucket"%string;
        (* entries: under the property's provisos *)
        if has_retention rev_prefix then Ok else
        let lp := live_puts sel rev_prefix [] in
        if negb (a mod w =? 0) then Ok                                     (* start must lie on the bucket grid *)
        else if existsb (fun x => (9 <? u_span x) || (2 ^ 52 <=? u_total x)) lp then Ok   (* uploads < 100 s, < 2^52 *)
        else if existsb (fun x => negb (u_total x mod u_span x =? 0)) lp
        then (* some count is not a multiple of its span: the rounding bound *)
          spec (bound_entries_ok lp a w lvl 0 (g_tl_samples o))
               "a timeline entry is outside the binary64 rounding bound around the samples ingested in its bucket"%string
        else spec (list_eqb N.eqb (g_tl_samples o) (map (spec_entry lp a w) (range_list 0 n)))
                  "a timeline entry is not 0 / 1 + samples ingested in its bucket"%string
      ]
  end.

Fixpoint spec_gets (rev_prefix rest : list hop) : list verdict :=
  match rest with
  | [] => []
  | h :: rest' =>
      (match h with HGet sel f u obs => [spec_get rev_prefix sel f u obs] | _ => [] end)
      ++ spec_gets (h :: rev_prefix) rest'
  end.

Definition check_case (c : case) : verdict :=
  combine_verdicts (spec_gets [] (c_ops c) ++ [model_verdict false true (c_ops c)]).
