(* FbTree.v — reading a profile tree back from the flamebearer of a GET /render?format=json answer
   (used by the HTTP variants of the C01 / C13 correspondence checks).

   With a budget above the node count every frame is shown (threshold 0, no synthetic `other` bars).
   [decode_levels] (Model/Flame.v) undoes the delta encoding; level 0 holds the root bar; a bar of positive
   width at level i+1 belongs to the unique positive-width bar of level i whose interval [x, x+total)
   contains its x (bars of one level are disjoint).  Zero-width bars (frames whose total is 0) cannot be
   attributed to a parent by geometry and carry no samples: they are dropped, so the result is the
   rendered tree up to zero-total frames — exactly what the per-stack comparisons (pnz of t_den) look at.
   Name index 0 is the root (shown as "total"); it is given the empty name trees built by Insert have.
   Children appear in x order, which is the order of the tree's children slice. *)
From Pyro Require Export Model.Base Model.Tree Model.Flame.
Local Open Scope Z_scope.

Definition fb_inside (p c : zbar) : bool :=
  let '(px, pt, _, _) := p in
  let '(cx, ct, _, _) := c in
  (0 <? ct) && (px <=? cx) && (cx <? px + pt).

Fixpoint fb_node (names : list bytes) (rest : list (list zbar)) (root : bool) (b : zbar) {struct rest} : tnode :=
  let '(_, tot, self, idx) := b in
  let name := if root then [] else nth (Z.to_nat idx) names [] in
  match rest with
  | [] => TNode name (Z.to_N self) (Z.to_N tot) []
  | l :: rest' =>
      TNode name (Z.to_N self) (Z.to_N tot) (map (fb_node names rest' false) (filter (fb_inside b) l))
  end.

Definition tree_of_fb (names : list bytes) (levels : list (list Z)) : tnode :=
  match decode_levels levels with
  | Some ((b :: _) :: rest) => fb_node names rest true b
  | _ => t_empty
  end.
