(* CorrC06.v — correspondence checker for C06 (all wire formats store the same profile). *)
From Pyro Require Export Model.Base Model.Tree Model.Varint Model.TTrie Model.TextFormats Model.Ingest Model.UrlCoding Corr.Verdict.
From Pyro Require Model.Key.
Open Scope string_scope.

Record stored := {
  st_status : N;                    (* HTTP status of the ingest request (200 for direct uploads) *)
  st_tree : option tnode;           (* storage.Get over the same window: structural dump of the tree *)
  st_spy : bytes; st_rate : N; st_units : bytes; st_agg : bytes   (* segment metadata *)
}.
Record sent := {
  sn_query : query;                 (* the query parameters of the request, keys in sorted order *)
  sn_rawq : bytes;                  (* the raw query string Go wrote for them (url.Values.Encode) *)
  sn_ctype : bytes;                 (* Content-Type *)
  sn_body : bytes;                  (* request body *)
  sn_stored : stored
}.
Definition meta := (bytes * N * bytes * bytes)%type.     (* spy, rate, units, aggregation *)

Record case := {
  c_ms : list (bytes * N);          (* the profile: (stack, count) *)
  c_text_ok : bool;                 (* stacks are expressible in the text formats *)
  c_meta : option meta;             (* metadata sent explicitly; None = omitted by the client *)
  c_groups : option sent; c_lines : option sent; c_trie : option sent; c_tree : option sent;
  c_job : option upload_job;        (* the job handed to remote / direct *)
  c_job_ns : option (N * N);        (* StartTime, EndTime of that job in nanoseconds since the epoch *)
  c_remote_slots : list (N * option tnode);   (* after the remote upload: (start second of a 10 s slot, storage.Get over that slot) *)
  c_direct_slots : list (N * option tnode);   (* same after the direct upload *)
  c_series : option (bytes * list (bytes * bytes));   (* the series of the remote job, structured: application name, tags *)
  c_remote : option (query * bytes * stored);   (* query and content type the server received, result *)
  c_direct : option stored;
  c_go_groups : option (list (bytes * Z) * bool);   (* convert.ParseGroups on the groups body: callbacks, err == nil *)
  c_go_lines : option (list (bytes * N) * bool);    (* convert.ParseIndividualLines on the lines body, sorted by key *)
  c_raw : option (bytes * (list (bytes * Z) * bool) * (list (bytes * N) * bool));  (* arbitrary body through both parsers *)
  (* a burst of distinct jobs handed to ONE remote uploader with several upload threads: each job with the single
     (stack, count) its trie holds, and every request the server received: decoded query, Iterate of the decoded body *)
  c_burst : list (upload_job * (bytes * N));
  c_burst_got : list (query * list (bytes * N));
  (* a sequence of uploads of the same profile to ONE series and one window, each with its own metadata (consecutive ones
     differ in one field): the metadata sent and what storage.Get / the segment report after that upload *)
  c_seq : list (meta * stored);
  c_names : list (list N);          (* every series name this case uploaded under, as runes ([]rune(name): Go's UTF-8 decoding) *)
  c_stored_keys : list bytes;       (* the segment keys found in the storage's index for this case's applications *)
  c_remote_rawq : option bytes;     (* r.URL.RawQuery of the request remote.uploadProfile sent *)
  c_hostile_q : option (bytes * list (bytes * bytes));   (* an arbitrary raw query string; url.ParseQuery (error dropped): (key, Get(key)) for every key, sorted *)
  c_raw_groups : option stored;     (* the arbitrary body sent to /ingest as collapsed text; c_ms = what the client meant (may be []) *)
  c_raw_lines : option stored       (* ... and with format=lines *)
}.

Definition from_multiset := profile_of.

Definition default_meta : meta := (ascii "unknown", 100, ascii "samples", ascii "sum").

Definition meta_eqb (m : meta) (s : stored) : bool :=
  match m with (spy, rate, units, agg) =>
    beqb spy (st_spy s) && N.eqb rate (st_rate s) && beqb units (st_units s) && beqb agg (st_agg s)
  end.

Definition tree_is (want : tnode) (s : stored) : bool :=
  N.eqb (st_status s) 200 && match st_tree s with Some t => t_eqb t want | None => false end.

(* sorting (key, count) lists by key: Go's map order is not observable *)
Fixpoint kv_insert (kv : bytes * N) (l : list (bytes * N)) : list (bytes * N) :=
  match l with
  | [] => [kv]
  | x :: l' => match bcmp (fst kv) (fst x) with Gt => x :: kv_insert kv l' | _ => kv :: l end
  end.
Definition kv_sort (l : list (bytes * N)) : list (bytes * N) := fold_right kv_insert [] l.

Definition kvN_eqb (a b : bytes * N) : bool := beqb (fst a) (fst b) && N.eqb (snd a) (snd b).
Definition kvZ_eqb (a b : bytes * Z) : bool := beqb (fst a) (fst b) && Z.eqb (snd a) (snd b).
Definition groups_res_eqb (a b : list (bytes * Z) * bool) : bool :=
  list_eqb kvZ_eqb (fst a) (fst b) && Bool.eqb (snd a) (snd b).
Definition lines_res_eqb (a b : list (bytes * N) * bool) : bool :=
  list_eqb kvN_eqb (kv_sort (fst a)) (kv_sort (fst b)) && Bool.eqb (snd a) (snd b).

Definition fmt_eqb (a b : wire_format) : bool :=
  match a, b with FTree, FTree | FTrie, FTrie | FLines, FLines | FGroups, FGroups => true | _, _ => false end.

Definition otree_eqb (a b : option tnode) : bool :=
  match a, b with Some x, Some y => t_eqb x y | None, None => true | _, _ => false end.

Definition qpair_eqb (a b : bytes * bytes) : bool := beqb (fst a) (fst b) && beqb (snd a) (snd b).

Definition check_sent (name : string) (fmt : wire_format) (want : tnode) (m : meta) (o : option sent) : list verdict :=
  match o with
  | None => []
  | Some s =>
      let ip := ingest_params_of (sn_query s) (sn_ctype s) in
      [ spec (tree_is want (sn_stored s)) (name ++ ": the stored profile is not the multiset that was sent");
        spec (meta_eqb m (sn_stored s)) (name ++ ": spy name / sample rate / units / aggregation type not stored as sent (or not the defaults)");
        corr (list_eqb N.eqb (url_encode_query (sn_query s)) (sn_rawq s)) (name ++ ": url_encode_query model differs from url.Values.Encode");
        corr (list_eqb qpair_eqb (url_parse_query (sn_rawq s)) (sn_query s)) (name ++ ": url_parse_query model differs from the parameters sent");
        corr (fmt_eqb (ip_format ip) fmt) (name ++ ": model selects another parser");
        corr (meta_eqb (ip_spy ip, ip_rate ip, ip_units ip, ip_aggregation ip) (sn_stored s))
             (name ++ ": ingest_params model differs from the stored metadata") ]
  end.

(* the series name as written by a client: app{k=v,k2=v2} *)
Fixpoint render_tags (tags : list (bytes * bytes)) : bytes :=
  match tags with
  | [] => []
  | [(k, v)] => (k ++ 61 :: v)%list
  | (k, v) :: rest => (k ++ 61 :: v ++ 44 :: render_tags rest)%list
  end.
Definition render_series (app : bytes) (tags : list (bytes * bytes)) : bytes :=
  match tags with
  | [] => app
  | _ => (app ++ 123 :: render_tags tags ++ [125])%list
  end.

(* the window a profile is stored under: segment.normalize on the times the storage receives.
   [unit] = 1 for whole seconds (what /ingest gets: t.Unix() of the job's times), 10^9 for the nanosecond
   times a direct upload hands over.  Result in the same unit. *)
Definition norm_window (unit s e : N) : N * N :=
  let slot := 10 * unit in
  let s' := s - s mod slot in
  let e2 := e - e mod slot in
  if N.eqb (e mod slot) 0 && negb (N.eqb s' e2) then (s', e) else (s', e2 + slot).

(* every observed slot inside the window holds the profile (exactly, when the window is one slot), every other is empty *)
Definition slots_ok (want : tnode) (w : N * N) (unit : N) (obs : list (N * option tnode)) : bool :=
  forallb (fun o => let t := fst o * unit in
                    if N.leb (fst w) t && N.ltb t (snd w)
                    then match snd o with
                         | Some tr => negb (N.eqb (snd w - fst w) (10 * unit)) || t_eqb tr want
                         | None => false
                         end
                    else match snd o with None => true | Some _ => false end) obs.

Definition job_meta (j : upload_job) : meta := (j_spy j, j_rate j, j_units j, j_aggregation j).

Definition query_agrees (model got : query) : bool :=
  Nat.eqb (length model) (length got) &&
  forallb (fun kv => beqb (q_get (fst kv) got) (snd kv)) model.

(* the key text storage uses for a name: Key.Normalized() of storage.ParseKey(name), UTF-8 encoded *)
Definition expected_key (name : list N) : bytes := Key.utf8 (Key.normalized (Key.parse name)).

Definition body_is (sv : bytes * N) (l : list (bytes * N)) : bool :=
  match l with [x] => kvN_eqb x sv | _ => false end.
(* every job of the burst arrived exactly once, and with its own name, window and metadata *)
Definition burst_ok (burst : list (upload_job * (bytes * N))) (got : list (query * list (bytes * N))) : bool :=
  forallb (fun js => match filter (fun g => body_is (snd js) (snd g)) got with
                     | [g] => query_agrees (upload_query (fst js)) (fst g)
                     | _ => false
                     end) burst.

(* after k uploads of ms into one slot: the counts add up; an 'average' series is divided by the number of writes *)
Definition seq_expect (ms : list (bytes * N)) (k : nat) (agg : bytes) : tnode :=
  let t := from_multiset (concat (repeat ms k)) in
  if beqb agg (ascii "average") then t_clone 1 (N.of_nat k) t else t.
Fixpoint seq_ok (ms : list (bytes * N)) (k : nat) (l : list (meta * stored)) : bool :=
  match l with
  | [] => true
  | (m, s) :: r =>
      meta_eqb m s && tree_is (seq_expect ms k (snd m)) s && seq_ok ms (S k) r
  end.

Definition check_case (c : case) : verdict :=
  let want := from_multiset (c_ms c) in
  let m := match c_meta c with Some m => m | None => default_meta end in
  combine_verdicts (
    (let expected := map expected_key (c_names c) in
     [ spec (forallb (fun k => existsb (beqb k) (c_stored_keys c)) expected
             && forallb (fun k => existsb (beqb k) expected) (c_stored_keys c))
            "the profiles are not stored under exactly the series whose key is the normalised form of the name sent (sorted tags, trimmed, last duplicate wins)" ]) ++
    [ spec (seq_ok (c_ms c) 1 (c_seq c))
           "uploads to an existing series: the metadata of the latest upload (spy, rate, units, aggregation) is not what is stored, or the window does not answer with it" ] ++
    [ spec (burst_ok (c_burst c) (c_burst_got c))
           "remote uploader with several threads: a job of the burst did not arrive exactly once under its own name, window and metadata" ] ++
    check_sent "collapsed text" FGroups want m (c_groups c) ++
    check_sent "one stack per line" FLines want m (c_lines c) ++
    check_sent "trie" FTrie want m (c_trie c) ++
    check_sent "tree" FTree want m (c_tree c) ++
    match c_job c, c_remote c with
    | Some j, Some (q, ct, s) =>
        [ spec (match c_series c with
                | Some (app, tags) => beqb (q_get (ascii "name") q) (render_series app tags) && beqb (j_name j) (render_series app tags)
                | None => true
                end) "remote upload: the server received another series name than the job's application name and tags";
          spec (match c_job_ns c with
                | Some (sn, en) => slots_ok want (norm_window 1 (sn / 1000000000) (en / 1000000000)) 1 (c_remote_slots c)
                                   && N.eqb (j_start j) (sn / 1000000000)
                | None => true
                end) "remote upload: the profile is not stored under exactly the 10 s slots of the job's [start, end) in whole seconds";
          spec (tree_is want s) "remote upload: the stored profile is not the multiset that was sampled";
          spec (meta_eqb (job_meta j) s) "remote upload: metadata of the job not stored";
          corr (query_agrees (upload_query j) q && beqb ct upload_content_type) "upload_query model differs from the request the server received";
          corr (match c_remote_rawq c with
                | Some raw => list_eqb N.eqb (url_encode_query (upload_query j)) raw
                | None => true
                end) "url_encode_query (upload_query job) differs from the raw query string remote.go wrote";
          corr (match c_remote_rawq c with
                | Some raw => list_eqb qpair_eqb (url_parse_query raw) q
                | None => true
                end) "url_parse_query of the raw query string differs from what the handler saw (r.URL.Query())";
          corr (let ip := ingest_params_of (upload_query j) upload_content_type in
                meta_eqb (ip_spy ip, ip_rate ip, ip_units ip, ip_aggregation ip) s && fmt_eqb (ip_format ip) FTrie)
               "ingest_params (upload_query job) differs from what was stored" ]
    | _, _ => []
    end ++
    match c_job c, c_direct c with
    | Some j, Some s =>
        [ spec (match c_job_ns c with
                | Some (sn, en) => slots_ok want (norm_window 1000000000 sn en) 1000000000 (c_direct_slots c)
                | None => true
                end) "direct upload: the profile is not stored under exactly the 10 s slots of the job's [start, end)";
          spec (tree_is want s) "direct upload: the stored profile is not the multiset that was sampled";
          spec (meta_eqb (job_meta j) s) "direct upload: metadata of the job not stored" ]
    | _, _ => []
    end ++
    (* model parsers against the Go parsers *)
    match c_groups c, c_go_groups c with
    | Some s, Some g =>
        [ corr (groups_res_eqb (parse_groups (sn_body s)) g) "parse_groups model differs from convert.ParseGroups";
          corr (negb (c_text_ok c) || list_eqb N.eqb (render_groups (c_ms c)) (sn_body s)) "render_groups model differs from the body sent";
          corr (negb (N.eqb (st_status (sn_stored s)) 200) || otree_eqb (tree_via_groups (sn_body s)) (st_tree (sn_stored s)))
               "tree built from the model's parse_groups differs from the stored tree" ]
    | _, _ => []
    end ++
    match c_lines c, c_go_lines c with
    | Some s, Some g =>
        [ corr (lines_res_eqb (parse_lines (sn_body s)) g) "parse_lines model differs from convert.ParseIndividualLines";
          corr (negb (N.eqb (st_status (sn_stored s)) 200) || otree_eqb (tree_via_lines (sn_body s)) (st_tree (sn_stored s)))
               "tree built from the model's parse_lines differs from the stored tree" ]
    | _, _ => []
    end ++
    match c_trie c with
    | Some s =>
        [ corr (negb (N.eqb (st_status (sn_stored s)) 200) || otree_eqb (tree_via_trie (sn_body s)) (st_tree (sn_stored s)))
               "tree built from the model's tt_deserialize/tt_iterate differs from the stored tree" ]
    | None => []
    end ++
    match c_tree c with
    | Some s =>
        [ corr (negb (N.eqb (st_status (sn_stored s)) 200) || otree_eqb (tree_via_tree (sn_body s)) (st_tree (sn_stored s)))
               "tree decoded by the model's tc_deserialize_nodict differs from the stored tree" ]
    | None => []
    end ++
    match c_hostile_q c with
    | Some (raw, got) =>
        let m := url_parse_query raw in
        [ corr (forallb (fun kv => beqb (q_get (fst kv) m) (snd kv)) got
                && forallb (fun kv => existsb (fun g => beqb (fst g) (fst kv)) got) m)
               "url_parse_query model differs from url.ParseQuery on an arbitrary query string" ]
    | None => []
    end ++
    match c_raw c, c_raw_groups c with
    | Some (body, _, _), Some s =>
        let ok := N.eqb (st_status s) 200 in
        [ (* all or nothing with respect to what the client wrote: either the whole profile, or a refusal and nothing stored *)
          spec (is_nil (c_ms c) || (if ok then tree_is want s else match st_tree s with None => true | Some _ => false end))
               "collapsed text: the request was acknowledged but the stored profile is not the body's profile (or refused yet stored)";
          corr (Bool.eqb ok (snd (parse_groups body))) "parse_groups model and the handler disagree on accepting the body" ]
    | _, _ => []
    end ++
    match c_raw c, c_raw_lines c with
    | Some (body, _, _), Some s =>
        [ corr (Bool.eqb (N.eqb (st_status s) 200) (snd (parse_lines body))) "parse_lines model and the handler disagree on accepting the body";
          corr (negb (N.eqb (st_status s) 200) || match st_tree s with
                                                 | Some _ => otree_eqb (tree_via_lines body) (st_tree s)
                                                 | None => true end)
               "tree built from the model's parse_lines differs from the stored tree (raw body)" ]
    | _, _ => []
    end ++
    match c_raw c with
    | Some (body, g, l) =>
        [ corr (groups_res_eqb (parse_groups body) g) "parse_groups model differs from convert.ParseGroups (raw body)";
          corr (lines_res_eqb (parse_lines body) l) "parse_lines model differs from convert.ParseIndividualLines (raw body)" ]
    | None => []
    end)%list.
