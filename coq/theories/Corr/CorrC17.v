(* CorrC17.v — correspondence checker for C17 (time expressions, durations, sizes).
   The harness passes, next to every raw string, the structured expression it was rendered from (when there is one), so
   that the specification side below is computed from the structure and never from a parser model. *)
From Coq Require Import Ascii.
From Pyro Require Export Model.Base Model.TimeParse Corr.Verdict.
Open Scope string_scope.
Local Open Scope Z_scope.

(* ---------- structured inputs ---------- *)

Inductive at_expr :=
| AXNone                                                        (* junk: no structured expectation *)
| AXDigits (ds : bytes)                                         (* the argument, separators removed, is this digit string *)
| AXRel (ref : bytes) (sign : N) (terms : list (bytes * bytes)).  (* ref, '+'|'-', (digits, unit spelling) terms *)

Inductive dur_expr :=
| DXNone
| DXTerms (neg : N) (terms : list (bytes * option bytes * bytes)).   (* sign: 0 none, 43 '+', 45 '-'; (int digits, fraction digits, unit) *)

Inductive size_expr :=
| SXNone
| SXReject                                                      (* negatives, junk, unknown units: must be rejected *)
| SXNum (ip : bytes) (fp : option bytes) (ws : bytes) (unit : bytes).

Inductive case :=
| CAt (s : bytes) (t0 t1 : Z) (res : option Z) (e : at_expr)
      (* attime.Parse(s) bracketed by two clock reads t0 <= t1 (ns); res = result in ns, None = panicked *)
| CDur (s : bytes) (std pyro : option Z) (e : dur_expr)
      (* time.ParseDuration / duration.ParseDuration; None = error *)
| CSize (s : bytes) (go : option Z) (e : size_expr)
| CPrint (b : Z) (printed : bytes) (reparsed : option Z)
| CRender (from until : bytes) (efrom euntil : at_expr) (t0 t1 : Z) (status : Z) (tl : option (Z * Z * Z))
      (* GET /render?from=&until=...: status; timeline (startTime s, number of buckets, bucket length s) *)
| CCli (how : N) (isdur : bool) (s : bytes) (ok : bool) (v : Z)
| CIngest (from : bytes) (efrom : at_expr) (t0 t1 : Z) (status : Z) (probes : list (Z * Z * bool)).
      (* POST /ingest?from=<from>&until=<from> with a one-line body into a fresh series; then storage.Get of that series
         over the probed windows [lo, hi) in Unix seconds: was anything found? *)
      (* cli.PopulateFlagSet: 0 default tag, 1 flag, 2 env var, 3 config file; the resulting field value *)

(* ---------- specification side: documented meanings, written independently of Model/TimeParse ---------- *)

Definition str_bytes (s : string) : bytes := map (fun a => N_of_ascii a) (list_ascii_of_string s).

(* documented unit lengths in seconds, by full spelling *)
Definition doc_units : list (bytes * Z) :=
  map (fun p => (str_bytes (fst p), snd p))
  [("s", 1); ("sec", 1); ("secs", 1); ("second", 1); ("seconds", 1);
   ("min", 60); ("mins", 60); ("minute", 60); ("minutes", 60);
   ("h", 3600); ("hour", 3600); ("hours", 3600);
   ("d", 86400); ("day", 86400); ("days", 86400);
   ("w", 604800); ("week", 604800); ("weeks", 604800);
   ("mon", 2592000); ("month", 2592000); ("months", 2592000);
   ("y", 31536000); ("year", 31536000); ("years", 31536000)].

Fixpoint lookup (u : bytes) (t : list (bytes * Z)) : option Z :=
  match t with
  | [] => None
  | (k, v) :: t' => if beqb k u then Some v else lookup u t'
  end.

Definition dec_val (ds : bytes) : Z := fold_left (fun a c => a * 10 + (Z.of_N c - 48)) ds 0.

(* Unix seconds of UTC midnight of y-m-d, by counting days year by year and month by month *)
Definition sp_leap (y : Z) : bool := ((y mod 4 =? 0) && negb (y mod 100 =? 0)) || (y mod 400 =? 0).
Definition sp_year_days (y : Z) : Z := if sp_leap y then 366 else 365.
Definition sp_month_days (y m : Z) : Z :=
  nth (Z.to_nat (m - 1)) [31; if sp_leap y then 29 else 28; 31; 30; 31; 30; 31; 31; 30; 31; 30; 31] 0.
Definition sp_days (y m d : Z) : Z :=
  let yrs := if 1970 <=? y
             then fold_left (fun a i => a + sp_year_days (1970 + Z.of_nat i)) (seq 0 (Z.to_nat (y - 1970))) 0
             else - fold_left (fun a i => a + sp_year_days (y + Z.of_nat i)) (seq 0 (Z.to_nat (1970 - y))) 0 in
  yrs + fold_left (fun a i => a + sp_month_days y (1 + Z.of_nat i)) (seq 0 (Z.to_nat (m - 1))) 0 + (d - 1).

(* "an all-digit argument is a Unix timestamp in seconds unless it is a plausible 8-digit YYYYMMDD date" *)
Definition spec_digits (ds : bytes) : Z :=
  let y := dec_val (firstn 4 ds) in
  let m := dec_val (firstn 2 (skipn 4 ds)) in
  let d := dec_val (skipn 6 ds) in
  if (length ds =? 8)%nat && (1900 <? y) && (1 <=? m) && (m <=? 12) && (1 <=? d) && (d <=? sp_month_days y m)
  then sp_days y m d * 86400 * 1000000000
  else Z.min (dec_val ds) 9223372036854775807 * 1000000000.   (* an int holds at most MaxInt64: explicit in the evidence *)

(* offset in ns of a relative expression whose units are all documented; None otherwise *)
Fixpoint spec_rel_sum (terms : list (bytes * bytes)) : option Z :=
  match terms with
  | [] => Some 0
  | (ds, u) :: t' =>
      match lookup u doc_units, spec_rel_sum t' with
      | Some len, Some rest => Some (dec_val ds * len + rest)
      | _, _ => None
      end
  end.

Definition render_rel (ref : bytes) (sign : N) (terms : list (bytes * bytes)) : bytes :=
  (ref ++ sign :: concat (map (fun t => fst t ++ snd t) terms))%list.

(* expected value of an argument as an interval [lo, hi] in ns given the clock bracket *)
Definition spec_at (e : at_expr) (t0 t1 : Z) : option (Z * Z) :=
  match e with
  | AXNone => None
  | AXDigits ds => let v := spec_digits ds in Some (v, v)
  | AXRel ref sign terms =>
      match spec_rel_sum terms with
      | Some secs =>
          let off := (if N.eqb sign 45 then -1 else 1) * secs * 1000000000 in
          if (Z.abs off <? 9223372036854775808) && forallb (fun t => dec_val (fst t) <? 9223372036854775808) terms
          then Some (t0 + off, t1 + off) else None          (* beyond int64 the property is silent *)
      | None => None
      end
  end.

Definition opt_Z_eqb (a b : option Z) : bool :=
  match a, b with Some x, Some y => x =? y | None, None => true | _, _ => false end.

Definition pres_opt (p : pres Z) : option (option Z) :=
  match p with POk v => Some (Some v) | PErr => Some None | PImplDefined => None end.

(* durations *)
Definition spec_dur_units : list (bytes * Z) :=
  [(str_bytes "ns", 1); (str_bytes "us", 1000); ([194;181;115]%N, 1000); ([206;188;115]%N, 1000);
   (str_bytes "ms", 1000000); (str_bytes "s", 1000000000); (str_bytes "m", 60000000000);
   (str_bytes "h", 3600000000000)].
Definition spec_dur_extra : list (bytes * Z) :=
  [(str_bytes "d", 24 * 3600000000000); (str_bytes "M", 30 * 24 * 3600000000000);
   (str_bytes "y", 365 * 24 * 3600000000000)].

Definition is_extra_unit (u : bytes) : bool := match lookup u spec_dur_extra with Some _ => true | None => false end.

Definition render_dur (neg : N) (terms : list (bytes * option bytes * bytes)) : bytes :=
  ((if N.eqb neg 0 then [] else [neg]) ++
  concat (map (fun t => match t with (ip, fp, u) => ip ++ (match fp with Some f => 46%N :: f | None => [] end) ++ u end) terms))%list.

(* exact value as a rational num/den (ns), number of fractional terms, slack allowed for them *)
Fixpoint spec_dur_sum (terms : list (bytes * option bytes * bytes)) : option (Z * Z * Z) :=
  match terms with
  | [] => Some (0, 1, 0)
  | (ip, fp, u) :: t' =>
      match lookup u (spec_dur_units ++ spec_dur_extra)%list, spec_dur_sum t' with
      | Some unit, Some (n, d, slack) =>
          match fp with
          | None => Some (n + dec_val ip * unit * d, d, slack)
          | Some f =>
              let k := 10 ^ Z.of_nat (length f) in
              Some (n * k + (dec_val ip * k + dec_val f) * unit * d, d * k, slack + 1 + unit / 2 ^ 50)
          end
      | _, _ => None
      end
  end.

Definition min_int64 : Z := -9223372036854775808.

(* sizes *)
Definition ascii_lower (s : bytes) : bytes := map (fun c => if (65 <=? c)%N && (c <=? 90)%N then (c + 32)%N else c) s.
Definition spec_size_units : list (bytes * Z) :=
  map (fun p => (str_bytes (fst p), snd p))
  [("", 1); ("b", 1); ("kb", 1024); ("mb", 1024^2); ("gb", 1024^3); ("tb", 1024^4); ("pb", 1024^5);
   ("kib", 1000); ("mib", 1000^2); ("gib", 1000^3); ("tib", 1000^4); ("pib", 1000^5)].

Definition ends_with (sfx s : bytes) : bool := is_prefix (rev sfx) (rev s).

Definition floor10 (sec : Z) : Z := sec / 10 * 10.

(* ---------- the checker ---------- *)

Definition check_at (s : bytes) (t0 t1 : Z) (res : option Z) (e : at_expr) : verdict :=
  match res with
  | None => SpecFails "attime.Parse panicked"
  | Some r =>
    combine_verdicts [
      match e with
      | AXDigits ds => corr (beqb (attime_clean s) ds) "harness: digit string does not match the argument"
      | AXRel ref sign terms => corr (beqb (attime_clean s) (render_rel ref sign terms)) "harness: expression does not match the argument"
      | AXNone => Ok
      end;
      match spec_at e t0 t1 with
      | Some (lo, hi) =>
          spec ((lo <=? r) && (r <=? hi))
               (match e with AXDigits _ => "all-digit argument is neither the Unix timestamp nor the plausible YYYYMMDD date"
                           | _ => "relative expression is not now +- the sum of its terms" end)
      | None => Ok
      end;
      match attime_parse t0 s, attime_parse t1 s with
      | Some lo, Some hi => corr ((lo <=? r) && (r <=? hi)) "attime_parse model differs from attime.Parse"
      | _, _ => ModelDiffers "attime_parse model panics"
      end ]
  end.

Definition has_byte (c : N) (s : bytes) : bool := existsb (N.eqb c) s.

Definition check_dur (s : bytes) (std pyro : option Z) (e : dur_expr) : verdict :=
  let extra := match e with
               | DXTerms _ terms => existsb (fun t => is_extra_unit (snd t)) terms
               | DXNone => has_byte 100 s || has_byte 77 s || has_byte 121 s
               end in
  (* signature min_int64_duration of the known finding duration-min-int64: the standard parser accepts the string only
     because it admits the magnitude 1<<63 in its accumulators (MinInt64 itself, or its wrap 2^63 + 2^63 = 0), the copy
     rejects it *)
  let known_min := match std, pyro with
                   | Some _, None => match std_parse_duration_b max_int64 s with PErr => true | _ => false end
                   | _, _ => false
                   end in
  combine_verdicts [
    match e with
    | DXTerms neg terms => corr (beqb s (render_dur neg terms)) "harness: expression does not match the string"
    | DXNone => Ok
    end;
    (* exactly what the standard parser accepts, with the same value *)
    if extra then Ok
    else if opt_Z_eqb std pyro then Ok
    else if known_min then Known "duration-min-int64"
    else SpecFails "duration.ParseDuration differs from time.ParseDuration on a string without d/M/y";
    (* documented unit lengths, terms add *)
    match e with
    | DXTerms neg terms =>
        match spec_dur_sum terms with
        | Some (n, d, slack) =>
            let isneg := N.eqb neg 45 in
            if slack =? 0 then
              let expect := if isneg then (if n <=? 9223372036854775808 then Some (- n) else None)
                            else (if n <=? 9223372036854775807 then Some n else None) in
              match terms with
              | [] => Ok
              | _ => if opt_Z_eqb pyro expect then Ok
                     else if isneg && (n =? 9223372036854775808) && opt_Z_eqb pyro None then Known "duration-min-int64"
                     else SpecFails "duration is not the sum of number times documented unit length"
              end
            else if n / d + slack + 1 <? 9223372036854775807 then
              match pyro with
              | Some v => let a := (if isneg then - v else v) in
                          spec ((n - slack * d - d <? a * d) && (a * d <? n + slack * d + d))
                               "fractional duration is not number times unit length (within float accuracy)"
              | None => SpecFails "fractional duration rejected"
              end
            else Ok
        | None => Ok
        end
    | DXNone => Ok
    end;
    match pres_opt (pyro_parse_duration s) with
    | Some m => corr (opt_Z_eqb m pyro) "pyro_parse_duration model differs from duration.ParseDuration"
    | None => ModelDiffers "pyro_parse_duration model reaches an implementation-defined conversion"
    end;
    match pres_opt (std_parse_duration s) with
    | Some m => corr (opt_Z_eqb m std) "std_parse_duration model differs from time.ParseDuration"
    | None => ModelDiffers "std_parse_duration model reaches an implementation-defined conversion"
    end ].

Definition check_size (s : bytes) (go : option Z) (e : size_expr) : verdict :=
  combine_verdicts [
    match e with
    | SXNone => Ok
    | SXReject => spec (opt_Z_eqb go None) "negative or junk size accepted"
    | SXNum ip fp ws unit =>
        match lookup (ascii_lower unit) spec_size_units with
        | None => Ok
        | Some m =>
            match fp with
            | None =>
                let v := dec_val ip * m in
                spec (opt_Z_eqb go (if v <=? 9223372036854775807 then Some v else None))
                     "size is not number times unit (or an overflow was not rejected)"
            | Some f =>
                let k := 10 ^ Z.of_nat (length f) in
                let n := (dec_val ip * k + dec_val f) * m in      (* exact value n / k *)
                let slack := 1 + n / k / 2 ^ 51 in
                if n / k + slack + 1 <? 9223372036854775807 then
                  match go with
                  | Some v => spec ((n - (slack + 1) * k <? v * k) && (v * k <=? n + slack * k))
                                   "fractional size is not number times unit (within float accuracy)"
                  | None => SpecFails "fractional size rejected"
                  end
                else Ok
            end
        end
    end;
    corr (opt_Z_eqb (bytesize_parse s) go) "bytesize_parse model differs from bytesize.Parse" ].

Definition unit_of_printed (p : bytes) : option Z :=
  if ends_with (str_bytes " KB") p then Some 1024
  else if ends_with (str_bytes " MB") p then Some (1024^2)
  else if ends_with (str_bytes " GB") p then Some (1024^3)
  else if ends_with (str_bytes " TB") p then Some (1024^4)
  else if ends_with (str_bytes " PB") p then Some (1024^5)
  else None.

Definition check_print (b : Z) (printed : bytes) (reparsed : option Z) : verdict :=
  combine_verdicts [
    if b <? 1024 then Ok
    else match unit_of_printed printed, reparsed with
         | Some U, Some p =>
             (* |p - b| <= half a unit of the last printed digit (U/200) + 1 (truncation) + b/2^52 (two binary64 roundings) *)
             spec (Z.abs (p - b) * 200 <=? U + 200 + 200 * (b / 2 ^ 52))
                  "printed size does not parse back to within its printed precision"
         | _, _ =>
             if beqb printed (str_bytes "8192.00 PB") then Known "bytesize-print-top"
             else SpecFails "printed size of 1 KB or more does not parse"
         end;
    corr (beqb (bytesize_print b) printed) "bytesize_print model differs from ByteSize.String";
    corr (opt_Z_eqb (bytesize_parse printed) reparsed) "bytesize_parse model differs from bytesize.Parse on a printed size" ].

(* /render: 422 iff until < from; otherwise the timeline starts at from rounded down to 10 s *)
Definition check_render_with (what : string) (mk : string -> bool -> verdict)
           (f u : option (Z * Z)) (status : Z) (tl : option (Z * Z * Z)) : verdict :=
  match f, u with
  | Some (flo, fhi), Some (ulo, uhi) =>
      if uhi <? flo then mk (what ++ ": until < from must answer 422") (status =? 422)
      else if fhi <=? ulo then
        combine_verdicts [
          mk (what ++ ": from <= until must answer 200") (status =? 200);
          match tl with
          | Some (start, n, delta) =>
              mk (what ++ ": timeline does not start at from rounded down to 10 s")
                 ((floor10 (flo / 1000000000) <=? start) && (start <=? floor10 (fhi / 1000000000)))
          | None => Ok
          end ]
      else Ok
  | _, _ => Ok
  end.

Definition model_at (s : bytes) (t0 t1 : Z) : option (Z * Z) :=
  match attime_parse t0 s, attime_parse t1 s with
  | Some lo, Some hi => Some (lo, hi)
  | _, _ => None
  end.

Definition check_render (from until : bytes) (efrom euntil : at_expr) (t0 t1 status : Z) (tl : option (Z * Z * Z)) : verdict :=
  combine_verdicts [
    spec (negb (status =? 0)) "/render panicked";
    check_render_with "spec" (fun w b => spec b w) (spec_at efrom t0 t1) (spec_at euntil t0 t1) status tl;
    check_render_with "model" (fun w b => corr b w) (model_at from t0 t1) (model_at until t0 t1) status tl ].

Definition check_cli (how : N) (isdur : bool) (s : bytes) (ok : bool) (v : Z) : verdict :=
  let m := if isdur then pres_opt (pyro_parse_duration s) else Some (bytesize_parse s) in
  match m with
  | Some (Some mv) => corr (ok && (v =? mv)) "cli: field value differs from the parser model"
  | Some None => corr (negb ok) "cli: a string the parser model rejects was accepted"
  | None => ModelDiffers "model reaches an implementation-defined conversion"
  end.

(* /ingest: the profile must be found in the 10 s slot(s) of from as the property reads the argument, and nowhere else *)
Definition probe_lo (p : Z * Z * bool) := fst (fst p).
Definition probe_hi (p : Z * Z * bool) := snd (fst p).
Definition probe_found (p : Z * Z * bool) := snd p.

Definition check_ingest_with (mk : string -> bool -> verdict) (what : string) (f : option (Z * Z)) (probes : list (Z * Z * bool)) : verdict :=
  match f with
  | Some (flo, fhi) =>
      let wlo := floor10 (flo / 1000000000) in
      let whi := floor10 (fhi / 1000000000) + 10 in
      combine_verdicts [
        mk (what ++ ": /ingest did not store the profile in the slot of from as the property reads the argument")
           (existsb (fun p => probe_found p && (wlo <=? probe_lo p) && (probe_hi p <=? whi)) probes);
        mk (what ++ ": /ingest stored the profile outside the slot of from")
           (forallb (fun p => negb (probe_found p) || ((probe_lo p <? whi) && (wlo <? probe_hi p))) probes) ]
  | None => Ok
  end.

Definition check_ingest (from : bytes) (efrom : at_expr) (t0 t1 status : Z) (probes : list (Z * Z * bool)) : verdict :=
  combine_verdicts [
    spec (negb (status =? 0)) "/ingest panicked";
    spec (status =? 200) "/ingest rejected a well-formed upload";
    check_ingest_with (fun w b => spec b w) "spec" (spec_at efrom t0 t1) probes;
    check_ingest_with (fun w b => corr b w) "model" (model_at from t0 t1) probes ].

Definition check_case (c : case) : verdict :=
  match c with
  | CAt s t0 t1 res e => check_at s t0 t1 res e
  | CDur s std pyro e => check_dur s std pyro e
  | CSize s go e => check_size s go e
  | CPrint b printed reparsed => check_print b printed reparsed
  | CRender from until ef eu t0 t1 status tl => check_render from until ef eu t0 t1 status tl
  | CCli how isdur s ok v => check_cli how isdur s ok v
  | CIngest from efrom t0 t1 status probes => check_ingest from efrom t0 t1 status probes
  end.
