(* CorrC19.v — correspondence checker for C19 (agent session: exactly-once upload in ordered windows).
   The harness runs the real agent.ProfileSession with a fake spy and a recording upstream and dumps ONE
   linearised log (mutex-ordered) of: due decisions (Reset() calls on the spy), Snapshot calls, every sample
   callback (before / after), every job handed to the upstream, Stop requested / returned.  The oracle is
   [check_case]. *)
From Pyro Require Export Model.Base Model.Session Corr.Verdict.
Open Scope string_scope.
Open Scope Z_scope.

Inductive lentry :=
| LDue                                   (* Reset() on the spy: this tick was decided "due" *)
| LSnap                                  (* a Snapshot call begins *)
| LSB (id : N) (spy : nat) (k : bytes) (v : N) (ok : bool)   (* spy number [spy] is about to call cb(k, v, err); ok = (err == nil) *)
| LSA (id : N)                           (* cb returned *)
| LJob (n : nat)                         (* Upload of job n (inside trieMutex) *)
| LStopReq | LStopRet                    (* the harness calls Stop() / Stop() returned *)
| LSpyStop.                              (* the sampling goroutine left its loop *)

Record ojob := {
  oj_name : bytes; oj_start : Z; oj_end : Z; oj_spy : bytes; oj_rate : N; oj_units : bytes; oj_agg : bytes;
  oj_data : list (bytes * N);            (* Trie.Iterate of the uploaded trie, inside Upload *)
  oj_late : list (bytes * N);            (* the job read again THROUGH ITS POINTER when the session is over (an uploader that *)
  oj_late_name : bytes;                  (*   queues the pointer and serialises later, as remote / direct do): its trie, *)
  oj_late_start : Z; oj_late_end : Z;    (*   name and window *)
  oj_shared : bool;                      (* the very same *Trie or *UploadJob had been handed over with an earlier job *)
  oj_by_stop : bool                      (* uploaded by the goroutine that called Stop() *)
}.

Record case := {
  q_app : bytes; q_spy : bytes; q_rate : N; q_interval : Z;
  q_gospy : bool;                        (* the gospy branch: one spy and one trie per profile type (driven through the verif hook) *)
  q_ptypes : list ptype;
  q_log : list lentry;
  q_jobs : list ojob;
  q_start_lo : Z; q_start_hi : Z;        (* wall clock around Start() *)
  q_stop_lo : Z; q_stop_hi : Z;          (* wall clock around Stop() *)
  q_maxgap : Z;                          (* largest gap between consecutive clock observations of the sampling loop *)
  q_ended : bool
}.

Definition cfg_of (c : case) : scfg :=
  {| sc_app := q_app c; sc_spy := q_spy c; sc_gospy := q_gospy c; sc_rate := q_rate c;
     sc_interval := q_interval c; sc_types := q_ptypes c |}.

(* ---- samples of the log ---------------------------------------------------------------------------- *)
Record osample := { os_id : N; os_spy : nat; os_k : bytes; os_v : N; os_ok : bool; os_done_before_stop : bool }.

(* walk the log; [stopreq] = Stop already requested; the sample is "reported before Stop was requested" when
   its callback returned before the request *)
Fixpoint samples_of (log : list lentry) (stopreq : bool) (open : option (N * nat * bytes * N * bool)) : list osample :=
  match log with
  | [] => match open with
          | Some (id, sp, k, v, ok) =>
              [{| os_id := id; os_spy := sp; os_k := k; os_v := v; os_ok := ok; os_done_before_stop := false |}]
          | None => []
          end
  | LSB id sp k v ok :: l => samples_of l stopreq (Some (id, sp, k, v, ok))
  | LSA _ :: l =>
      match open with
      | Some (id, sp, k, v, ok) =>
          {| os_id := id; os_spy := sp; os_k := k; os_v := v; os_ok := ok; os_done_before_stop := negb stopreq |}
          :: samples_of l stopreq None
      | None => samples_of l stopreq None
      end
  | LStopReq :: l => samples_of l true open
  | _ :: l => samples_of l stopreq open
  end.

Definition usable (s : osample) : bool :=
  os_ok s && negb (beqb (os_k s) []) && negb (N.eqb (os_v s) 0).

Definition uploaded_total (k : bytes) (js : list ojob) : N :=
  fold_right (fun j n => (ms_get k (oj_data j) + n)%N) 0%N js.
Definition njobs_with (k : bytes) (js : list ojob) : nat :=
  length (filter (fun j => negb (N.eqb (ms_get k (oj_data j)) 0)) js).

Fixpoint find_sample (k : bytes) (l : list osample) : option osample :=
  match l with
  | [] => None
  | s :: l' => if usable s && beqb (os_k s) k then Some s else find_sample k l'
  end.

(* ---- window checks ---------------------------------------------------------------------------------- *)
Fixpoint ordered (js : list ojob) : bool :=
  match js with
  | j1 :: ((j2 :: _) as rest) => (oj_end j1 <=? oj_start j2) && ordered rest
  | _ => true
  end.

(* some job was uploaded after the job that Stop() uploaded (the defect repaired by /repo 628ae12) *)
Fixpoint job_after_stop_job (js : list ojob) : bool :=
  match js with
  | [] => false
  | j :: rest => if oj_by_stop j then existsb (fun j' => negb (oj_by_stop j')) rest else job_after_stop_job rest
  end.

(* ---- replaying the log on the model ----------------------------------------------------------------- *)
Definition next_start (jobs : list ojob) (m : nat) (dflt : Z) : Z :=
  match nth_error jobs m with Some j => oj_start j | None => dflt end.

(* the clock reading of the reset that uploaded job n = the start of the next LATER upload (the jobs of one upload,
   one per profile type, share their window) *)
Definition later_start (jobs : list ojob) (n : nat) (dflt : Z) : Z :=
  match nth_error jobs n with
  | Some j => match find (fun j' => negb (oj_start j' =? oj_start j)) (skipn (S n) jobs) with
              | Some j' => oj_start j'
              | None => dflt
              end
  | None => dflt
  end.

Definition apply (c : scfg) (st : list ujob * sstate) (e : sevent) : list ujob * sstate :=
  let '(js, s') := s_step c (snd st) e in ((fst st ++ js)%list, s').

(* [at_sb]: place a sample where its callback STARTED (true) or where it RETURNED (false); the two placements
   differ only for the one callback that may have been blocked on trieMutex while Stop() uploaded *)
Fixpoint replay (c : scfg) (jobs : list ojob) (at_sb : bool) (log : list lentry) (njobs : nat) (fresh : bool)
         (open : option (nat * bytes * N * bool)) (last_end : Z) (st : list ujob * sstate) : list ujob * sstate :=
  let sample st o :=
    match o with
    | Some (sp, k, v, true) => apply c st (SSample sp k v)
    | _ => st
    end in
  match log with
  | [] => st
  | e :: l =>
      match e with
      | LDue =>
          let st1 := apply c st (SReset (next_start jobs njobs last_end)) in
          let st2 := apply c st1 (SDecide (ss_start (snd st1) + sc_interval c)) in
          replay c jobs at_sb l njobs true open last_end st2
      | LSnap =>
          let st1 := if fresh then st else apply c st (SReset (next_start jobs njobs last_end)) in
          replay c jobs at_sb l njobs false open last_end st1
      | LSB _ sp k v ok =>
          let st1 := if at_sb then sample st (Some (sp, k, v, ok)) else st in
          replay c jobs at_sb l njobs fresh (Some (sp, k, v, ok)) last_end st1
      | LSA _ =>
          let st1 := if at_sb then st else sample st open in
          replay c jobs at_sb l njobs fresh None last_end st1
      | LJob n =>
          match nth_error jobs n with
          | Some j =>
              let st1 := if oj_by_stop j then apply c st (SStop (oj_end j))
                         else apply c st (SReset (later_start jobs n (oj_end j))) in
              replay c jobs at_sb l (S n) fresh open (oj_end j) st1
          | None => st
          end
      | LSpyStop =>
          let st1 := apply c st (SReset (next_start jobs njobs last_end)) in
          replay c jobs at_sb l njobs fresh open last_end st1
      | _ => replay c jobs at_sb l njobs fresh open last_end st
      end
  end.

Definition keys_of (m : list (bytes * N)) : list bytes := map fst m.
Definition ms_eqb (a b : list (bytes * N)) : bool :=
  forallb (fun k => N.eqb (ms_get k a) (ms_get k b)) (keys_of a ++ keys_of b).

Definition job_eqb (m : ujob) (o : ojob) : bool :=
  beqb (uj_name m) (oj_name o) && (uj_start m =? oj_start o) && (uj_end m =? oj_end o) &&
  beqb (uj_spy m) (oj_spy o) && N.eqb (uj_rate m) (oj_rate o) && beqb (uj_units m) (oj_units o) &&
  beqb (uj_agg m) (oj_agg o) && ms_eqb (uj_data m) (oj_data o).

Fixpoint jobs_eqb (ms : list ujob) (os : list ojob) : bool :=
  match ms, os with
  | [], [] => true
  | m :: ms', o :: os' => job_eqb m o && jobs_eqb ms' os'
  | _, _ => false
  end.

Definition model_jobs (c : case) (at_sb : bool) : list ujob :=
  let cfg := cfg_of c in
  let t0 := next_start (q_jobs c) 0 (q_start_hi c) in
  let st0 := apply cfg ([], s_init cfg) (SStart t0) in
  fst (replay cfg (q_jobs c) at_sb (q_log c) 0 false None t0 st0).

(* per profile type (slot): its samples and its jobs *)
Definition slot_samples (c : case) (i : nat) (ss : list osample) : list osample :=
  if q_gospy c then filter (fun x => Nat.eqb (os_spy x) i) ss else ss.
Definition slot_jobs (c : case) (p : ptype) (js : list ojob) : list ojob :=
  filter (fun j => beqb (oj_name j) (job_name (cfg_of c) p)) js.

Definition check_slot (c : case) (ss : list osample) (js : list ojob) (ip : nat * ptype) : verdict :=
  let p := snd ip in
  let ss := slot_samples c (fst ip) ss in
  let js := slot_jobs c p js in
  let cumul := pt_cumulative p in
  combine_verdicts [
    spec (cumul || forallb (fun s => negb (usable s && os_done_before_stop s) ||
                                    negb (N.eqb (uploaded_total (os_k s) js) 0)) ss)
         "a sample reported before Stop was requested is missing from the uploads";
    spec (cumul || forallb (fun j => forallb (fun kv => Nat.leb (njobs_with (fst kv) js) 1) (oj_data j)) js)
         "a sample was uploaded in two jobs";
    spec (cumul || forallb (fun j => forallb (fun kv =>
                      match find_sample (fst kv) ss with
                      | Some s => N.eqb (uploaded_total (fst kv) js) (os_v s)
                      | None => N.eqb (snd kv) 0
                      end) (oj_data j)) js)
         "more was uploaded than was reported (unknown stack or wrong count)";
    spec (forallb (fun j => beqb (oj_units j) (pt_units p) && beqb (oj_agg j) (pt_agg p)) js)
         "units or aggregation type differ from the profile type's";
    spec (ordered js) "a window starts before the previous one (of the same profile type) ended";
    corr (match js with
          | j :: _ => cumul || ((q_start_lo c <=? oj_start j) && (oj_start j <=? q_start_hi c))
          | [] => cumul
          end) "the first window does not start when Start() ran (or no job at all was uploaded)"
  ].

Fixpoint enumerate {A} (i : nat) (l : list A) : list (nat * A) :=
  match l with [] => [] | x :: l' => (i, x) :: enumerate (S i) l' end.

Definition check_case (c : case) : verdict :=
  let cfg := cfg_of c in
  let I := q_interval c in
  let js := q_jobs c in
  let ss := samples_of (q_log c) false None in
  combine_verdicts (
    map (check_slot c ss js) (enumerate 0 (q_ptypes c)) ++ [
    (* --- the property evaluated on what the implementation uploaded --- *)
    spec (forallb (fun j => negb (oj_shared j) && ms_eqb (oj_data j) (oj_late j) && beqb (oj_name j) (oj_late_name j) &&
                            (oj_start j =? oj_late_start j) && (oj_end j =? oj_late_end j)) js)
         "a job (or its trie) handed to the uploader was rewritten afterwards or handed over twice (a queued job would upload another window)";
    spec (forallb (fun j => existsb (fun p => beqb (oj_name j) (job_name cfg p)) (q_ptypes c) &&
                            beqb (oj_spy j) (q_spy c) && N.eqb (oj_rate j) (q_rate c)) js)
         "job name or metadata differ from <app>.<type> / the session's configuration";
    spec (forallb (fun j => (oj_end j) mod I =? 0) js) "a window does not end on a multiple of the upload interval";
    (* fixed in /repo 628ae12: a tick overlapping Stop used to upload a second window with the same start *)
    spec (negb (job_after_stop_job js)) "a job was uploaded after the job uploaded by Stop()";
    (* stated hypothesis: clock observations of the sampling loop less than a third of the interval apart *)
    spec ((I <? 3 * q_maxgap c) || forallb (fun j => oj_end j - oj_start j <=? I) js)
         "a window is longer than one upload interval although the ticks were regular";
    (* --- model vs implementation --- *)
    corr (jobs_eqb (model_jobs c false) js || jobs_eqb (model_jobs c true) js)
         "the jobs (windows, names, contents) differ from the session model replayed on the same log";
    corr (forallb (fun j => negb (oj_by_stop j) ||
                            ((trunc I (q_stop_lo c) <=? oj_end j) && (oj_end j <=? trunc I (q_stop_hi c)))) js &&
          existsb oj_by_stop js)
         "Stop() did not upload a window ending at the truncated stop time"
  ]).

(* the case files write bytes and counts as plain N literals, times with %Z, indexes with %nat *)
Open Scope N_scope.
