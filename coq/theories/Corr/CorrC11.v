(* CorrC11.v — correspondence checker for C11 (delete and retention). *)
From Pyro Require Export Corr.StorCorr.
From Pyro Require Corr.CorrC01.
Local Open Scope Z_scope.

Record case := { c_ops : list hop }.

Definition is_get (h : hop) : bool := match h with HGet _ _ _ _ => true | _ => false end.

Fixpoint take_gets (l : list hop) : list hop :=
  match l with
  | h :: l' => if is_get h then h :: take_gets l' else []
  | [] => []
  end.

Definition obs_den (o : option get_obs) : list (list bytes * N) :=
  match o with None => [] | Some ob => pnz (pnorm (t_den (g_tree ob))) end.

Definition same_query (sel : sid) (f u : Z) (h : hop) : bool :=
  match h with
  | HGet sel' f' u' _ => sid_eqb sel sel' && list_eqb kv_eqb (sid_tags sel) (sid_tags sel') && (f =? f') && (u =? u')
  | _ => false
  end.

Fixpoint find_query (sel : sid) (f u : Z) (l : list hop) : option (option get_obs) :=
  match l with
  | [] => None
  | h :: l' => if same_query sel f u h
               then match h with HGet _ _ _ o => Some o | _ => None end
               else find_query sel f u l'
  end.

(* retention pass with threshold thr (Unix): compare each query asked right after it with the same
   query asked right before it *)
Definition retention_pair (thr : Z) (before : list hop) (h : hop) : verdict :=
  match h with
  | HGet sel f u after =>
      match find_query sel f u before with
      | None => Ok
      | Some bef =>
          let '(a, b) := s_normalize_unix (f, u) in
          let tslot := unix_to_slot thr in
          combine_verdicts [
            spec (den_le (obs_den after) (obs_den bef)) "retention: a query returns more than before the pass"%string;
            if slot_to_unix a >=? thr
            then spec (pm_eqb (obs_den after) (obs_den bef)) "retention: a query whose range starts at or after the threshold changed"%string
            else Ok;
            if b <=? tslot
            then spec (match obs_den after with [] => true | _ => false end) "retention: a query whose range ends at or before the threshold still returns data"%string
            else Ok
          ]
      end
  | _ => Ok
  end.

(* a rejected ingest must not change anything: same pairing around the put *)
Definition reject_pair (before : list hop) (h : hop) : verdict :=
  match h with
  | HGet sel f u after =>
      match find_query sel f u before with
      | None => Ok
      | Some bef => spec (pm_eqb (obs_den after) (obs_den bef)) "a rejected ingest changed the answer to a query"%string
      end
  | _ => Ok
  end.

Fixpoint scan (rev_prefix rest : list hop) : list verdict :=
  match rest with
  | [] => []
  | h :: rest' =>
      (match h with
       | HRetention thr =>
           map (retention_pair thr (take_gets rev_prefix)) (take_gets rest')
       | HPut s f u ss m (Some thr) ok =>
           (* slack of 30 s around the threshold: the harness reads the clock itself *)
           [ if f <? thr - 30 then spec (negb ok) "an ingest older than the retention period was accepted"%string
             else if thr + 30 <? f then spec ok "an ingest newer than the retention threshold was rejected"%string
             else Ok ]
           ++ (if ok then [] else map (reject_pair (take_gets rev_prefix)) (take_gets rest'))
       | _ => []
       end)
      ++ scan (h :: rev_prefix) rest'
  end.

Definition check_case (c : case) : verdict :=
  combine_verdicts (CorrC01.spec_gets [] (c_ops c) ++ spec_upper_gets [] (c_ops c) ++ scan [] (c_ops c) ++ [model_verdict true false (c_ops c)]).
