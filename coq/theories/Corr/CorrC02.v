(* CorrC02.v — correspondence checker for C02 (cache transparency and graceful restart at storage level).
   Every history is run twice on the real pkg/storage: once with evictions / write-backs / Close+New inserted
   ("with"), once without them ("plain", a separate storage directory).  After every step a fixed set of queries
   is answered by both.  The property's statement is decidable on these observations: the two answers must be
   the same profile (per stack self values and totals, dropping zero frames), the same timeline and metadata.
   The dimension codec model (Model/DimCodec.v) is compared with dimension.Bytes/FromBytes on the dimensions
   the history produced. *)
From Pyro Require Export Model.Base Model.Tree Model.Varint Model.DimCodec Corr.Verdict.
Open Scope string_scope.

Record get_obs := {
  g_tree : tnode;
  g_tl_start : Z;
  g_tl_delta : Z;
  g_tl_samples : list N;
  g_spy : bytes; g_rate : N; g_units : bytes
}.

Inductive step_kind := KPut | KDelete | KEvict | KRestart | KWriteBack | KWb1.   (* KWb1: write-back of one cache, observed through so_ticked / so_tick_len / so_tick_saved *)

Record step_obs := {
  so_kind : step_kind;
  so_slots : N;             (* for a put: number of 10 s slots the upload spans *)
  so_ticked : bool;         (* for a put: the write-back of the trees cache ran inside this Put (between its cache reads and writes) *)
  so_tick_len : N;          (* ... number of entries of the trees cache at that moment *)
  so_tick_saved : N;        (* ... number of distinct entries the write-back goroutine serialized *)
  so_err_with : bool;       (* the step returned an error / panicked on the storage with maintenance *)
  so_err_plain : bool;
  so_answers : list (option get_obs * option get_obs)   (* per query: (with, plain) *)
}.

Record case := {
  c_steps : list step_obs;
  c_dims : list (bytes * list bytes * list bytes)   (* Bytes() of a dimension, its keys, keys of FromBytes(Bytes()) *)
}.

(* ---- the property on what the implementation returned ---- *)
Definition den_nz (t : tnode) := pnz (pnorm (t_den t)).
Definition tots_nz (t : tnode) := pnz (pnorm (t_tots t)).

Inductive diff := DNone | DTotalsDown (what : string) | DOther (what : string).

(* totals of b never below the totals of a, stack by stack *)
Definition tots_le (a b : tnode) : bool :=
  forallb (fun pv => N.leb (snd pv) (pget (fst pv) (pnorm (t_tots b)))) (pnorm (t_tots a)).

Definition same_answer (a b : option get_obs) : diff :=
  match a, b with
  | None, None => DNone
  | Some x, Some y =>
      if negb (pm_eqb (den_nz (g_tree x)) (den_nz (g_tree y))) then DOther "profile (self values per stack) differs from the run without evictions/restarts"
      else if negb (Z.eqb (g_tl_start x) (g_tl_start y) && Z.eqb (g_tl_delta x) (g_tl_delta y) && list_eqb N.eqb (g_tl_samples x) (g_tl_samples y))
           then DOther "timeline differs from the run without evictions/restarts"
      else if negb (beqb (g_spy x) (g_spy y) && N.eqb (g_rate x) (g_rate y) && beqb (g_units x) (g_units y))
           then DOther "metadata differs from the run without evictions/restarts"
      else if negb (pm_eqb (tots_nz (g_tree x)) (tots_nz (g_tree y))) then
             (if tots_le (g_tree x) (g_tree y)
              then DTotalsDown "profile totals are smaller than in the run without evictions/restarts (self values agree)"
              else DOther "profile (totals per stack) differs from the run without evictions/restarts")
      else DNone
  | Some _, None => DOther "query answers with data although the run without evictions/restarts has none"
  | None, Some _ => DOther "query returns nothing although the run without evictions/restarts has data"
  end.

(* worst difference of a step: DOther > DTotalsDown > DNone *)
Fixpoint first_diff (l : list (option get_obs * option get_obs)) : diff :=
  match l with
  | [] => DNone
  | (a, b) :: l' =>
      match same_answer a b with
      | DOther w => DOther w
      | DTotalsDown w => match first_diff l' with DOther w' => DOther w' | _ => DTotalsDown w end
      | DNone => first_diff l'
      end
  end.

Definition is_maint (k : step_kind) : bool := match k with KEvict | KRestart => true | _ => false end.

(* signature writeback_before_evict at storage level: a write-back ran, and afterwards an eviction or a Close
   (objects marked persisted by the write-back are dropped there without being saved).
   signature scaled_totals_reloaded: an upload spanning more than one slot was stored (its per-bucket trees are
   floor-scaled copies whose totals exceed self + children), an eviction or restart followed, and the answers
   agree on every self value and differ only by smaller totals. *)
Fixpoint walk (wb_seen sig scaled reloaded : bool) (l : list step_obs) : list verdict :=
  match l with
  | [] => []
  | s :: l' =>
      (* a write-back after which some entry may be marked persisted without having been saved (D10): the write-back
         task over all caches, or a tick that did not save every entry of the trees cache.  A tick that saved every
         entry dropped nothing, so the known finding cannot explain what follows it *)
      let wb' := wb_seen || match so_kind s with KWriteBack => true | _ => false end
                         || (so_ticked s && N.ltb (so_tick_saved s) (so_tick_len s)) in
      let sig' := sig || (wb_seen && is_maint (so_kind s)) in
      let scaled' := scaled || match so_kind s with KPut => N.ltb 1 (so_slots s) | _ => false end in
      let reloaded' := reloaded || (scaled && is_maint (so_kind s)) in
      let v1 := if Bool.eqb (so_err_with s) (so_err_plain s) then Ok
                else if sig' then Known "writeback-drop" else SpecFails "a step fails on one of the two runs only" in
      let v2 := match first_diff (so_answers s) with
                | DNone => Ok
                | DOther w => if sig' then Known "writeback-drop" else SpecFails w
                | DTotalsDown w => if sig' then Known "writeback-drop"
                                   else if reloaded' then Known "scaled-totals-reloaded" else SpecFails w
                end in
      v1 :: v2 :: walk wb' sig' scaled' reloaded' l'
  end.

(* ---- dimension codec: model vs implementation ---- *)
Definition keys_eqb := list_eqb beqb.
Definition check_dim (d : bytes * list bytes * list bytes) : list verdict :=
  let '(bs, keys, keys') := d in
  [ spec (keys_eqb keys keys') "dimension: FromBytes(Bytes(d)) has other keys than d";
    corr (beqb (dim_enc keys) bs) "dim_enc model differs from Dimension.Bytes";
    corr (match dim_dec bs with Some ks => keys_eqb ks keys' | None => false end) "dim_dec model differs from dimension.FromBytes" ].

Fixpoint first_model (l : list verdict) : option verdict :=
  match l with [] => None | ModelDiffers w :: _ => Some (ModelDiffers w) | _ :: l' => first_model l' end.

Definition check_case (c : case) : verdict :=
  let vs := app (walk false false false false (c_steps c)) (flat_map check_dim (c_dims c)) in
  match first_spec vs with
  | Some v => v
  | None => match first_model vs with
            | Some v => v
            | None => match first_bad vs with Some v => v | None => Ok end
            end
  end.
