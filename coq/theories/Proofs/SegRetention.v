(* SegRetention.v — what DeleteDataBefore does to later reads (segment level, Appendix B item 6):
   ranges at or after the threshold are answered as before, ranges ending at or before it get nothing,
   and no range gets a bucket it did not get before; every bucket reported to the callback ends at or
   before the threshold. *)
From Pyro Require Import Model.Base Model.Float53 Model.Segment
  Proofs.SegmentProofs Proofs.SegStruct Proofs.SegGet Proofs.SegCodecProofs.
From Coq Require Import ZifyBool ZifyNat.
Local Open Scope Z_scope.

Definition del_node (lvl : nat) (thr : Z) (n : snode) : snode := fst (fst (s_del_node lvl thr n)).
Definition del_flag (lvl : nat) (thr : Z) (n : snode) : bool := snd (s_del_node lvl thr n).
Definition del_cbs (lvl : nat) (thr : Z) (n : snode) : list (nat * Z) := snd (fst (s_del_node lvl thr n)).

Lemma del_flag_spec lvl thr n : del_flag lvl thr n = (sn_time n + pow10 lvl <=? thr).
Proof.
  pose proof (pow10_pos lvl). unfold del_flag. destruct lvl, n as [t p s w ch]; cbn [s_del_node sn_time];
    destruct (thr <? t) eqn:E; cbn [snd]; lia.
Qed.

Definition kept_child (l : nat) (thr : Z) (o : option snode) : option snode := fst (del_child l thr o).

Lemma kept_child_spec l thr o :
  kept_child l thr o = match o with
                       | Some c => if del_flag l thr c then None else Some (del_node l thr c)
                       | None => None
                       end.
Proof.
  unfold kept_child, del_child, del_flag, del_node. destruct o as [c|]; [|reflexivity].
  destruct (s_del_node l thr c) as [[c' cbs] d]. destruct d; reflexivity.
Qed.

Lemma del_node_S l thr t p s w ch :
  del_node (S l) thr (SNode t p s w ch) =
  if thr <? t then SNode t p s w ch else SNode t p s w (map (kept_child l thr) ch).
Proof.
  unfold del_node. rewrite del_node_unfold_S. destruct (thr <? t); [reflexivity|]. cbv zeta. cbn [fst].
  rewrite map_map. reflexivity.
Qed.

Lemma del_node_0 thr n : del_node 0 thr n = n.
Proof. unfold del_node. destruct n as [t p s w ch]. cbn [s_del_node]. destruct (thr <? t); reflexivity. Qed.

(* R2: a range that starts at or after the threshold is answered exactly as before *)
Lemma get_after_unchanged : forall lvl thr qa qb n, qa < qb -> thr <= qa -> wf lvl n ->
  s_get_node lvl qa qb (del_node lvl thr n) = s_get_node lvl qa qb n.
Proof.
  induction lvl as [|l IH]; intros thr qa qb [t p s w ch] Hq Hthr Hwf; [rewrite del_node_0; reflexivity|].
  rewrite del_node_S. destruct (thr <? t); [reflexivity|].
  rewrite !get_node_unfold. cbv zeta. rewrite map_length.
  destruct (p && covers _); [reflexivity|]. destruct (is_outside _); [reflexivity|].
  destruct (p && _); [reflexivity|].
  destruct Hwf as [_ [_ Hs]]. clear -IH Hs Hq Hthr. revert t Hs.
  induction ch as [|o ch IHc]; intros t0 Hs; [reflexivity|].
  cbn [map flat_map slots] in *. destruct Hs as [Ho Hr]. rewrite (IHc _ Hr). f_equal.
  rewrite kept_child_spec. destruct o as [c|]; [|reflexivity]. destruct Ho as [Ht Hw].
  rewrite del_flag_spec. destruct (sn_time c + pow10 l <=? thr) eqn:E; cbn [get_child].
  - (* the deleted child lies before the range: it contributed nothing *)
    symmetry. destruct c as [tc pc sc wc chc]. rewrite get_node_unfold. cbv zeta. cbn [sn_time] in *.
    pose proof (pow10_pos l). pose proof (rel_spec tc (tc + pow10 l) qa qb ltac:(lia) Hq) as Hr0.
    destruct (relationship tc (tc + pow10 l) qa qb); cbn [covers is_outside]; rewrite ?andb_false_r; try reflexivity; lia.
  - apply IH; assumption.
Qed.

(* R3: a range that ends at or before the threshold gets nothing from what is left *)
Lemma get_before_empty : forall lvl thr qa qb n, qa < qb -> qb <= thr -> wf lvl n ->
  del_flag lvl thr n = false -> s_get_node lvl qa qb (del_node lvl thr n) = [].
Proof.
  induction lvl as [|l IH]; intros thr qa qb [t p s w ch] Hq Hthr Hwf Hflag; rewrite del_flag_spec in Hflag; cbn [sn_time] in Hflag.
  - rewrite del_node_0, get_node_unfold. cbv zeta. change (pow10 0) with 1 in *.
    pose proof (rel_spec t (t + 1) qa qb ltac:(lia) Hq) as Hr0.
    destruct (relationship t (t + 1) qa qb); cbn [covers is_outside]; rewrite ?andb_false_r; try reflexivity; lia.
  - pose proof (pow10_pos (S l)) as HpS.
    pose proof (rel_spec t (t + pow10 (S l)) qa qb ltac:(lia) Hq) as Hr0.
    rewrite del_node_S. destruct (thr <? t) eqn:Et.
    + rewrite get_node_unfold. cbv zeta.
      destruct (relationship t (t + pow10 (S l)) qa qb); cbn [covers is_outside]; rewrite ?andb_false_r; try reflexivity; lia.
    + rewrite get_node_unfold. cbv zeta. rewrite map_length.
      destruct Hwf as [_ [Hlen Hs]]. rewrite Hlen. cbn [Nat.eqb]. rewrite andb_false_r.
      replace (p && covers (relationship t (t + pow10 (S l)) qa qb)) with false
        by (destruct (relationship t (t + pow10 (S l)) qa qb); cbn; rewrite ?andb_false_r; try reflexivity; lia).
      destruct (is_outside _); [reflexivity|].
      clear -IH Hs Hq Hthr. revert t Hs. induction ch as [|o ch IHc]; intros t0 Hs; [reflexivity|].
      cbn [map flat_map slots] in *. destruct Hs as [Ho Hr]. rewrite (IHc _ Hr), app_nil_r.
      rewrite kept_child_spec. destruct o as [c|]; [|reflexivity]. destruct Ho as [Ht Hw].
      destruct (del_flag l thr c) eqn:Ef; [reflexivity|]. cbn [get_child]. apply IH; assumption.
Qed.

(* R1: what is left never names a bucket that was not named before *)
Lemma get_after_incl : forall lvl thr qa qb n, wf lvl n ->
  incl (s_get_node lvl qa qb (del_node lvl thr n)) (s_get_node lvl qa qb n).
Proof.
  induction lvl as [|l IH]; intros thr qa qb [t p s w ch] Hwf; [rewrite del_node_0; apply incl_refl|].
  rewrite del_node_S. destruct (thr <? t); [apply incl_refl|].
  rewrite !get_node_unfold. cbv zeta. rewrite map_length.
  destruct (p && covers _); [apply incl_refl|]. destruct (is_outside _); [apply incl_refl|].
  destruct (p && _); [apply incl_refl|].
  destruct Hwf as [_ [_ Hs]]. intros c Hc. apply in_flat_map in Hc. destruct Hc as [o' [Ho' Hc]].
  apply in_map_iff in Ho'. destruct Ho' as [o [Heq Ho]]. subst o'. rewrite kept_child_spec in Hc.
  destruct o as [x|]; [|destruct Hc]. destruct (del_flag l thr x); [destruct Hc|]. cbn [get_child] in Hc.
  apply in_flat_map. exists (Some x). split; [exact Ho|]. cbn [get_child].
  apply (IH thr qa qb x (slots_In _ _ _ _ _ Hs Ho)). exact Hc.
Qed.

(* every bucket reported to the retention callback ends at or before the threshold *)
Lemma del_cbs_before : forall lvl thr n k, In k (del_cbs lvl thr n) -> snd k + pow10 (fst k) <= thr.
Proof.
  induction lvl as [|l IH]; intros thr [t p s w ch] k Hk; unfold del_cbs in Hk.
  - cbn [s_del_node] in Hk. destruct (thr <? t); cbn [fst snd] in Hk; [destruct Hk|].
    destruct (t + pow10 0 <=? thr) eqn:E; [|destruct Hk]. destruct Hk as [<-|[]]. cbn [fst snd]. lia.
  - rewrite del_node_unfold_S in Hk. destruct (thr <? t); cbn [fst snd] in Hk; [destruct Hk|]. cbv zeta in Hk. cbn [fst snd] in Hk.
    apply in_app_or in Hk. destruct Hk as [Hk|Hk].
    + destruct (t + pow10 (S l) <=? thr) eqn:E; [|destruct Hk]. destruct Hk as [<-|[]]. cbn [fst snd]. lia.
    + apply in_concat in Hk. destruct Hk as [cbs [Hcbs Hk]]. rewrite map_map in Hcbs. apply in_map_iff in Hcbs.
      destruct Hcbs as [o [Heq Ho]]. subst cbs. destruct o as [c|]; [|destruct Hk]. cbn [del_child] in Hk.
      specialize (IH thr c k). unfold del_cbs in IH. destruct (s_del_node l thr c) as [[c' cbs'] d]. cbn [fst snd] in *. auto.
Qed.

(* ---------- segments ---------- *)
Theorem retention_reads K s thr qa qb : seg_ok K s -> qa < qb ->
  let s' := fst (fst (s_delete_before thr s)) in
  (thr <= qa -> s_get qa qb s' = s_get qa qb s) /\
  (qb <= thr -> s_get qa qb s' = []) /\
  incl (s_get qa qb s') (s_get qa qb s) /\
  (forall k, In k (snd (fst (s_delete_before thr s))) -> snd k + pow10 (fst k) <= thr).
Proof.
  intros Hok Hq. cbv zeta. unfold s_delete_before, s_get, seg_ok in *.
  destruct (s_root s) as [[lvl n]|] eqn:Er; cbn [fst snd]; [|rewrite Er; repeat split; auto; try apply incl_refl; intros k []].
  destruct Hok as (_ & Hwf & _).
  pose proof (get_after_unchanged lvl thr qa qb n Hq) as R2.
  pose proof (get_before_empty lvl thr qa qb n Hq) as R3.
  pose proof (get_after_incl lvl thr qa qb n Hwf) as R1.
  pose proof (del_cbs_before lvl thr n) as R4.
  pose proof (del_flag_spec lvl thr n) as Hf.
  unfold del_node, del_flag, del_cbs in *. destruct (s_del_node lvl thr n) as [[n' cbs] d]. cbn [fst snd] in *.
  destruct d; cbn [fst snd s_root].
  - (* the whole tree lies before the threshold: the segment becomes empty *)
    split; [|split; [|split]]; auto.
    + intros Hthr. destruct n as [t p s0 w ch]. rewrite get_node_unfold. cbv zeta. cbn [sn_time] in Hf.
      pose proof (pow10_pos lvl). pose proof (rel_spec t (t + pow10 lvl) qa qb ltac:(lia) Hq) as Hr0.
      destruct (relationship t (t + pow10 lvl) qa qb); cbn [covers is_outside]; rewrite ?andb_false_r; try reflexivity; lia.
    + intros c [].
  - split; [|split; [|split]]; auto.
Qed.
