(* DictProofs.v — lemmas about Model/Dict.v (symbol dictionary). *)
From Pyro Require Import Model.Base Model.Varint Model.Dict Proofs.VarintProofs.
From Coq Require Import ZifyN ZifyNat ZifyBool.
Ltac Zify.zify_post_hook ::= Z.div_mod_to_equations.

(* ---- small list facts ---- *)
Lemma lcp_le_l : forall a b, (lcp a b <= length a)%nat.
Proof. induction a as [|x a IH]; intros [|y b]; cbn; try lia. destruct (N.eqb x y); [specialize (IH b)|]; lia. Qed.
Lemma lcp_le_r : forall a b, (lcp a b <= length b)%nat.
Proof. induction a as [|x a IH]; intros [|y b]; cbn; try lia. destruct (N.eqb x y); [specialize (IH b)|]; lia. Qed.

Lemma lead_index_from_some : forall b ch k acc i,
  lead_index_from b ch k acc = Some i ->
  (acc = Some i /\ (forall j c, nth_error ch j = Some c -> first_byte_is b c = false)) \/
  (exists c, (k <= i)%nat /\ nth_error ch (i - k) = Some c /\ first_byte_is b c = true).
Proof.
  induction ch as [|c ch IH]; intros k acc i H; cbn in H.
  - left. split; [exact H|]. intros [|j] c0 Hc; discriminate.
  - apply IH in H. destruct H as [[Ha Hn]|[c0 [Hk [Hn Hf]]]].
    + destruct (first_byte_is b c) eqn:Hfb.
      * injection Ha as <-. right. exists c. split; [lia|]. rewrite Nat.sub_diag. cbn. auto.
      * left. split; [exact Ha|]. intros [|j] c0 Hc; cbn in Hc; [injection Hc as <-; exact Hfb|eauto].
    + right. exists c0. split; [lia|]. replace (i - k)%nat with (S (i - S k)) by lia. cbn. auto.
Qed.

Lemma lead_index_some : forall b ch i, lead_index b ch = Some i ->
  exists c, nth_error ch i = Some c /\ first_byte_is b c = true.
Proof.
  intros b ch i H. apply lead_index_from_some in H. destruct H as [[Ha _]|[c [_ [Hn Hf]]]]; [discriminate|].
  rewrite Nat.sub_0_r in Hn. eauto.
Qed.

Lemma first_byte_lcp : forall k0 key lk lch, first_byte_is k0 (TrNode lk lch) = true -> (1 <= lcp (k0 :: key) lk)%nat.
Proof.
  intros k0 key [|x lk] lch H; cbn in H; [discriminate|]. cbn. rewrite N.eqb_sym, H. lia.
Qed.

(* ---- the fuel of d_put_loop is never exhausted ---- *)
Lemma d_put_loop_some : forall fuel key tn, (length key < fuel)%nat -> d_put_loop fuel key tn <> None.
Proof.
  induction fuel as [|f IH]; intros key tn Hf; [lia|].
  destruct key as [|k0 key]; cbn [d_put_loop]; [discriminate|].
  destruct tn as [l ch].
  destruct (lead_index k0 ch) as [idx|] eqn:Hl; [|discriminate].
  destruct (lead_index_some _ _ _ Hl) as [c [Hn Hfb]]. rewrite Hn.
  destruct c as [lk lch].
  pose proof (first_byte_lcp k0 key lk lch Hfb) as Hp.
  set (p := lcp (k0 :: key) lk) in *.
  assert (Hlen : (length (skipn p (k0 :: key)) < f)%nat).
  { rewrite skipn_length. cbn [length] in *. lia. }
  destruct (Nat.eqb p (length lk)).
  - destruct (Nat.eqb p (length (k0 :: key))); [discriminate|].
    destruct (d_put_loop f (skipn p (k0 :: key)) (TrNode lk lch)) as [[out c']|] eqn:E; [discriminate|].
    exfalso. eapply IH; [|exact E]. exact Hlen.
  - destruct (d_put_loop f (skipn p (k0 :: key)) (TrNode (firstn p lk) [TrNode (skipn p lk) lch])) as [[out c']|] eqn:E; [discriminate|].
    exfalso. eapply IH; [|exact E]. exact Hlen.
Qed.

Lemma d_put_opt_some : forall name t, d_put_opt name t <> None.
Proof. intros. apply d_put_loop_some. lia. Qed.
