(* DictProofs.v — lemmas about Model/Dict.v (symbol dictionary). *)
From Pyro Require Import Model.Base Model.Varint Model.Dict Proofs.VarintProofs.
From Coq Require Import ZifyN ZifyNat ZifyBool.
Ltac Zify.zify_post_hook ::= Z.div_mod_to_equations.

(* ---- small list facts ---- *)
Lemma lcp_le_l : forall a b, (lcp a b <= length a)%nat.
Proof. induction a as [|x a IH]; intros [|y b]; cbn; try lia. destruct (N.eqb x y); [specialize (IH b)|]; lia. Qed.
Lemma lcp_le_r : forall a b, (lcp a b <= length b)%nat.
Proof. induction a as [|x a IH]; intros [|y b]; cbn; try lia. destruct (N.eqb x y); [specialize (IH b)|]; lia. Qed.

Lemma lead_index_from_some : forall b ch k acc i,
  lead_index_from b ch k acc = Some i ->
  (acc = Some i /\ (forall j c, nth_error ch j = Some c -> first_byte_is b c = false)) \/
  (exists c, (k <= i)%nat /\ nth_error ch (i - k) = Some c /\ first_byte_is b c = true).
Proof.
  induction ch as [|c ch IH]; intros k acc i H; cbn in H.
  - left. split; [exact H|]. intros [|j] c0 Hc; discriminate.
  - apply IH in H. destruct H as [[Ha Hn]|[c0 [Hk [Hn Hf]]]].
    + destruct (first_byte_is b c) eqn:Hfb.
      * injection Ha as <-. right. exists c. split; [lia|]. rewrite Nat.sub_diag. cbn. auto.
      * left. split; [exact Ha|]. intros [|j] c0 Hc; cbn in Hc; [injection Hc as <-; exact Hfb|eauto].
    + right. exists c0. split; [lia|]. replace (i - k)%nat with (S (i - S k)) by lia. cbn. auto.
Qed.

Lemma lead_index_some : forall b ch i, lead_index b ch = Some i ->
  exists c, nth_error ch i = Some c /\ first_byte_is b c = true.
Proof.
  intros b ch i H. apply lead_index_from_some in H. destruct H as [[Ha _]|[c [_ [Hn Hf]]]]; [discriminate|].
  rewrite Nat.sub_0_r in Hn. eauto.
Qed.

Lemma first_byte_lcp : forall k0 key lk lch, first_byte_is k0 (TrNode lk lch) = true -> (1 <= lcp (k0 :: key) lk)%nat.
Proof.
  intros k0 key [|x lk] lch H; cbn in H; [discriminate|]. cbn. rewrite N.eqb_sym, H. lia.
Qed.

(* ---- the fuel of d_put_loop is never exhausted ---- *)
Lemma d_put_loop_some : forall fuel key tn, (length key < fuel)%nat -> d_put_loop fuel key tn <> None.
Proof.
  induction fuel as [|f IH]; intros key tn Hf; [lia|].
  destruct key as [|k0 key]; cbn [d_put_loop]; [discriminate|].
  destruct tn as [l ch].
  destruct (lead_index k0 ch) as [idx|] eqn:Hl; [|discriminate].
  destruct (lead_index_some _ _ _ Hl) as [c [Hn Hfb]]. rewrite Hn.
  destruct c as [lk lch].
  pose proof (first_byte_lcp k0 key lk lch Hfb) as Hp.
  set (p := lcp (k0 :: key) lk) in *.
  assert (Hlen : (length (skipn p (k0 :: key)) < f)%nat).
  { rewrite skipn_length. cbn [length] in *. lia. }
  destruct (Nat.eqb p (length lk)).
  - destruct (Nat.eqb p (length (k0 :: key))); [discriminate|].
    destruct (d_put_loop f (skipn p (k0 :: key)) (TrNode lk lch)) as [[out c']|] eqn:E; [discriminate|].
    exfalso. eapply IH; [|exact E]. exact Hlen.
  - destruct (d_put_loop f (skipn p (k0 :: key)) (TrNode (firstn p lk) [TrNode (skipn p lk) lch])) as [[out c']|] eqn:E; [discriminate|].
    exfalso. eapply IH; [|exact E]. exact Hlen.
Qed.

Lemma d_put_opt_some : forall name t, d_put_opt name t <> None.
Proof. intros. apply d_put_loop_some. lia. Qed.

(* ---- ReadUvarint with partial value agrees with the decoder on success ---- *)
Lemma uvarint_read_dec_aux : forall fuel i w acc bs v r,
  uvarint_dec_aux fuel i w acc bs = Some (v, r) -> uvarint_read_aux fuel i w acc bs = (v, true, r).
Proof.
  induction fuel as [|f IH]; intros i w acc bs v r H; cbn in *; [discriminate|].
  destruct bs as [|b bs]; [discriminate|].
  destruct (b <? 128).
  - destruct (Nat.eqb i 9 && (1 <? b)); [discriminate|]. injection H as <- <-. reflexivity.
  - apply IH. exact H.
Qed.

Lemma uvarint_read_enc : forall n rest, n < 2 ^ 64 -> uvarint_read (uvarint_enc n ++ rest) = (n, true, rest).
Proof. intros. apply uvarint_read_dec_aux. apply uvarint_roundtrip. assumption. Qed.

Lemma uvarint_enc_fuel_len : forall f n, (1 <= length (uvarint_enc_fuel f n))%nat.
Proof. destruct f; intros; cbn; [lia|]. destruct (n <? 128); cbn; lia. Qed.
Lemma uvarint_enc_len : forall n, (1 <= length (uvarint_enc n))%nat.
Proof. intros. apply uvarint_enc_fuel_len. Qed.

(* ---- induction on tries ---- *)
Section TrieInd.
  Variable P : trie -> Prop.
  Hypothesis H : forall l ch, Forall P ch -> P (TrNode l ch).
  Fixpoint trie_ind' (t : trie) : P t :=
    match t with
    | TrNode l ch => H l ch ((fix go (ch : list trie) : Forall P ch :=
                                match ch with
                                | [] => Forall_nil _
                                | c :: ch' => Forall_cons _ (trie_ind' c) (go ch')
                                end) ch)
    end.
End TrieInd.

(* ---- keys as lists of (child index, consumed length); exact walks ---- *)
Definition key_of (ps : list (N * N)) : bytes := flat_map (fun p => pair_enc (fst p) (snd p)) ps.
Definition small_pair (p : N * N) : Prop := fst p < two63 /\ snd p < two63.

(* from child [c], consume exactly E bytes of labels going down through first children; returns
   the children of the node where the walk lands and the bytes read *)
Fixpoint chainf (c : trie) (E : N) : option (list trie * bytes) :=
  match c with
  | TrNode l ch =>
      if Nlen l <=? E then
        if E - Nlen l =? 0 then Some (ch, l)
        else match ch with
             | c0 :: _ => match chainf c0 (E - Nlen l) with
                          | Some (che, s) => Some (che, l ++ s)
                          | None => None
                          end
             | [] => None
             end
      else None
  end.

Fixpoint walk (ch : list trie) (ps : list (N * N)) : option bytes :=
  match ps with
  | [] => Some []
  | (v, E) :: ps' =>
      match nth_error ch (N.to_nat v) with
      | None => None
      | Some c => match chainf c E with
                  | None => None
                  | Some (che, s) => match walk che ps' with
                                     | Some n => Some (s ++ n)
                                     | None => None
                                     end
                  end
      end
  end.

(* key k is an exact key for name in trie t *)
Definition valid_key (t : trie) (k name : bytes) : Prop :=
  exists ps, k = key_of ps /\ Forall small_pair ps /\ walk (tr_ch t) ps = Some name.

Lemma to_int64_small : forall x, x < two63 -> to_int64 x = Z.of_N x.
Proof. intros x H. unfold to_int64. destruct (N.ltb_spec x two63); [reflexivity|lia]. Qed.

Lemma wrap_sub_small : forall x y, y <= x -> x < two64 -> wrap_sub x y = x - y.
Proof.
  intros x y H1 H2. unfold wrap_sub, two64 in *.
  rewrite (N.mod_small y) by lia.
  replace (x + 18446744073709551616 - y) with ((x - y) + 1 * 18446744073709551616) by lia.
  rewrite N.mod_add by lia. apply N.mod_small. lia.
Qed.

(* the inner loop of Get started at node [cur] with L + R still expected, L the length of the label
   selected by the index: it consumes exactly R more bytes *)
Lemma descend_exact : forall cur,
  forall R L che s buf,
    match (if R =? 0 then Some (tr_ch cur, []) else
             match tr_ch cur with c0 :: _ => chainf c0 R | [] => None end) with
    | Some r => r = (che, s) | None => False end ->
    L + R < two63 ->
    exists e, d_descend cur L (L + R) buf = Some (e, buf ++ s) /\ tr_ch e = che.
Proof.
  induction cur as [l ch IH] using trie_ind'. intros R L che s buf Hc Hb.
  cbn [d_descend]. rewrite to_int64_small by exact Hb. cbn [tr_ch] in Hc.
  destruct (N.eqb_spec R 0) as [->|Hnz].
  - injection Hc as <- <-. replace (Z.of_N L <? Z.of_N (L + 0))%Z with false by lia.
    exists (TrNode l ch). rewrite app_nil_r. auto.
  - replace (Z.of_N L <? Z.of_N (L + R))%Z with true by lia.
    destruct ch as [|c0 ch']; [contradiction|].
    inversion IH as [|? ? IH0 _]; subst.
    destruct c0 as [l0 ch0]. cbn [chainf] in Hc. cbn [tr_label].
    destruct (N.leb_spec (Nlen l0) R) as [Hle|Hgt]; [|contradiction].
    rewrite wrap_sub_small by (unfold two63, two64 in *; lia).
    replace (L + R - Nlen l0) with (L + (R - Nlen l0)) by lia.
    destruct (N.eqb_spec (R - Nlen l0) 0) as [Hz|Hz].
    + injection Hc as <- <-.
      destruct (IH0 (R - Nlen l0) L ch0 [] (buf ++ l0)) as [e [He1 He2]].
      * rewrite Hz. cbn. reflexivity.
      * lia.
      * exists e. rewrite He1. rewrite app_nil_r. auto.
    + destruct ch0 as [|c1 ch1]; [contradiction|].
      destruct (chainf c1 (R - Nlen l0)) as [[che' s']|] eqn:Hch; [|contradiction].
      injection Hc as <- <-.
      destruct (IH0 (R - Nlen l0) L che' s' (buf ++ l0)) as [e [He1 He2]].
      * destruct (N.eqb_spec (R - Nlen l0) 0); [lia|]. cbn [tr_ch]. rewrite Hch. reflexivity.
      * lia.
      * exists e. rewrite He1. rewrite <- app_assoc. auto.
Qed.

Lemma chainf_descend : forall c E che s buf,
  chainf c E = Some (che, s) -> E < two63 ->
  exists e, d_descend c (Nlen (tr_label c)) E (buf ++ tr_label c) = Some (e, buf ++ s) /\ tr_ch e = che.
Proof.
  intros [l ch] E che s buf Hc Hb. cbn [tr_label]. cbn [chainf] in Hc.
  destruct (N.leb_spec (Nlen l) E) as [Hle|]; [|discriminate].
  assert (HE : Nlen l + (E - Nlen l) = E) by lia.
  destruct (N.eqb_spec (E - Nlen l) 0) as [Hz|Hz].
  - injection Hc as <- <-.
    destruct (descend_exact (TrNode l ch) (E - Nlen l) (Nlen l) ch [] (buf ++ l)) as [e [H1 H2]].
    + rewrite Hz. cbn. reflexivity.
    + lia.
    + rewrite HE in H1. exists e. rewrite H1, app_nil_r. auto.
  - destruct ch as [|c0 ch']; [discriminate|].
    destruct (chainf c0 (E - Nlen l)) as [[che' s']|] eqn:Hch; [|discriminate].
    injection Hc as <- <-.
    destruct (descend_exact (TrNode l (c0 :: ch')) (E - Nlen l) (Nlen l) che' s' (buf ++ l)) as [e [H1 H2]].
    + destruct (N.eqb_spec (E - Nlen l) 0); [lia|]. cbn [tr_ch]. rewrite Hch. reflexivity.
    + lia.
    + rewrite HE in H1. exists e. rewrite H1, <- app_assoc. auto.
Qed.

Lemma two63_lt_64 : forall x, x < two63 -> x < 2 ^ 64.
Proof. unfold two63. intros. change (2 ^ 64) with 18446744073709551616. lia. Qed.

Lemma key_of_cons : forall v E ps, key_of ((v, E) :: ps) = uvarint_enc v ++ uvarint_enc E ++ key_of ps.
Proof. intros. unfold key_of. cbn [flat_map fst snd]. unfold pair_enc. rewrite <- app_assoc. reflexivity. Qed.

(* an exact key is decoded by Get to its name *)
Lemma walk_get : forall ps tn buf fuel name,
  Forall small_pair ps -> walk (tr_ch tn) ps = Some name -> (length (key_of ps) < fuel)%nat ->
  d_get_loop fuel tn (key_of ps) buf = GFound (buf ++ name).
Proof.
  induction ps as [|[v E] ps IH]; intros tn buf fuel name Hs Hw Hf.
  - cbn in *. injection Hw as <-. destruct fuel; [lia|]. cbn. rewrite app_nil_r. reflexivity.
  - destruct fuel as [|f]; [lia|].
    inversion Hs as [|? ? [Hv HE] Hs']; subst. cbn [fst snd] in *.
    cbn [walk] in Hw.
    destruct (nth_error (tr_ch tn) (N.to_nat v)) as [c|] eqn:Hn; [|discriminate].
    destruct (chainf c E) as [[che s]|] eqn:Hc; [|discriminate].
    destruct (walk che ps) as [n|] eqn:Hw'; [|discriminate]. injection Hw as <-.
    rewrite key_of_cons.
    cbn [d_get_loop]. rewrite uvarint_roundtrip by (apply two63_lt_64; exact Hv).
    replace (two63 <=? v) with false by lia.
    assert (Hlt : (N.to_nat v < length (tr_ch tn))%nat) by (apply nth_error_Some; congruence).
    replace (Nlen (tr_ch tn) <=? v) with false by (unfold Nlen; lia).
    rewrite Hn. rewrite uvarint_read_enc by (apply two63_lt_64; exact HE).
    destruct (chainf_descend c E che s buf Hc HE) as [e [Hd He]]. rewrite Hd.
    rewrite (IH e (buf ++ s) f n Hs').
    + rewrite app_assoc. reflexivity.
    + rewrite He. exact Hw'.
    + rewrite key_of_cons, !app_length in Hf.
      pose proof (uvarint_enc_len v). pose proof (uvarint_enc_len E). lia.
Qed.

Lemma valid_key_get : forall t k name, valid_key t k name -> d_get k t = Some name.
Proof.
  intros t k name [ps [-> [Hs Hw]]]. unfold d_get, d_get_res.
  rewrite (walk_get ps t [] _ name Hs Hw); [reflexivity|lia].
Qed.

(* ---- extension of a trie by later puts ---- *)
Inductive ext : trie -> trie -> Prop :=
| ext_node : forall l ch ch1 extra, Forall2 ext ch ch1 -> ext (TrNode l ch) (TrNode l (ch1 ++ extra))
| ext_split : forall a b ch t2 extra, b <> [] -> ext (TrNode b ch) t2 -> ext (TrNode (a ++ b) ch) (TrNode a (t2 :: extra)).

Definition extl (ch ch' : list trie) : Prop := exists ch1 extra, ch' = ch1 ++ extra /\ Forall2 ext ch ch1.

Section ExtInd.
  Variable P : trie -> trie -> Prop.
  Hypothesis Hnode : forall l ch ch1 extra, Forall2 ext ch ch1 -> Forall2 P ch ch1 -> P (TrNode l ch) (TrNode l (ch1 ++ extra)).
  Hypothesis Hsplit : forall a b ch t2 extra, b <> [] -> ext (TrNode b ch) t2 -> P (TrNode b ch) t2 ->
                                              P (TrNode (a ++ b) ch) (TrNode a (t2 :: extra)).
  Fixpoint ext_ind' (t t' : trie) (H : ext t t') {struct H} : P t t' :=
    match H with
    | ext_node l ch ch1 extra F =>
        Hnode l ch ch1 extra F
          ((fix go (x y : list trie) (F : Forall2 ext x y) {struct F} : Forall2 P x y :=
              match F with
              | Forall2_nil _ => Forall2_nil _
              | Forall2_cons _ _ h tl => Forall2_cons _ _ (ext_ind' _ _ h) (go _ _ tl)
              end) ch ch1 F)
    | ext_split a b ch t2 extra nb h => Hsplit a b ch t2 extra nb h (ext_ind' _ _ h)
    end.
End ExtInd.

Lemma ext_refl : forall t, ext t t.
Proof.
  induction t as [l ch IH] using trie_ind'.
  rewrite <- (app_nil_r ch) at 2. apply ext_node.
  induction IH; constructor; auto.
Qed.

Lemma Forall2_ext_refl : forall ch, Forall2 ext ch ch.
Proof. induction ch; constructor; auto using ext_refl. Qed.

Lemma extl_refl : forall ch, extl ch ch.
Proof. intros. exists ch, []. rewrite app_nil_r. auto using Forall2_ext_refl. Qed.

Lemma chainf_ext : forall c c', ext c c' ->
  forall E che s, chainf c E = Some (che, s) -> exists che', chainf c' E = Some (che', s) /\ extl che che'.
Proof.
  intros c c' H. induction H as [l ch ch1 extra F IH | a b ch t2 extra Hb Hext IH] using ext_ind'; intros E che s Hc.
  - cbn [chainf] in *. destruct (Nlen l <=? E); [|discriminate].
    destruct (E - Nlen l =? 0).
    + injection Hc as <- <-. exists (ch1 ++ extra). split; [reflexivity|]. exists ch1, extra. auto.
    + destruct ch as [|c0 ch0]; [discriminate|].
      inversion IH as [|? c0' ? ch1' IH0 _]; subst. cbn [app].
      destruct (chainf c0 (E - Nlen l)) as [[che0 s0]|] eqn:Hc0; [|discriminate].
      injection Hc as <- <-.
      destruct (IH0 _ _ _ Hc0) as [che' [Hc' He]]. rewrite Hc'. eauto.
  - assert (Hlen : Nlen (a ++ b) = Nlen a + Nlen b) by (unfold Nlen; rewrite app_length; lia).
    assert (Hbl : 0 < Nlen b) by (destruct b; [congruence|unfold Nlen; cbn; lia]).
    cbn [chainf] in Hc. rewrite Hlen in Hc.
    destruct (N.leb_spec (Nlen a + Nlen b) E) as [Hle|]; [|discriminate].
    assert (Hcb : chainf (TrNode b ch) (E - Nlen a) = Some (che, skipn (length a) s) /\ s = a ++ skipn (length a) s).
    { cbn [chainf]. replace (Nlen b <=? E - Nlen a) with true by lia.
      replace (E - Nlen a - Nlen b) with (E - (Nlen a + Nlen b)) by lia.
      destruct (E - (Nlen a + Nlen b) =? 0).
      - injection Hc as <- <-. rewrite skipn_app, skipn_all, Nat.sub_diag. cbn. auto.
      - destruct ch as [|c0 ch0]; [discriminate|].
        destruct (chainf c0 (E - (Nlen a + Nlen b))) as [[che0 s0]|]; [|discriminate].
        injection Hc as <- <-. rewrite <- app_assoc, skipn_app, skipn_all, Nat.sub_diag. cbn. auto. }
    destruct Hcb as [Hcb Hs].
    destruct (IH _ _ _ Hcb) as [che' [Hc' He]].
    exists che'. split; [|exact He].
    cbn [chainf]. replace (Nlen a <=? E) with true by lia.
    replace (E - Nlen a =? 0) with false by lia.
    rewrite Hc'. rewrite Hs at 2. reflexivity.
Qed.

Lemma Forall2_nth_l : forall {A B} (R : A -> B -> Prop) l l' i x,
  Forall2 R l l' -> nth_error l i = Some x -> exists y, nth_error l' i = Some y /\ R x y.
Proof.
  intros A B R l l' i x F. revert i. induction F; intros [|i] Hn; cbn in *; try discriminate.
  - injection Hn as <-. eauto.
  - eauto.
Qed.

Lemma walk_ext : forall ps ch ch' name, extl ch ch' -> walk ch ps = Some name -> walk ch' ps = Some name.
Proof.
  induction ps as [|[v E] ps IH]; intros ch ch' name He Hw; [exact Hw|].
  cbn [walk] in *. destruct He as [ch1 [extra [-> F]]].
  destruct (nth_error ch (N.to_nat v)) as [c|] eqn:Hn; [|discriminate].
  destruct (Forall2_nth_l _ _ _ _ _ F Hn) as [c' [Hn' Hext]].
  rewrite nth_error_app1 by (apply nth_error_Some; congruence). rewrite Hn'.
  destruct (chainf c E) as [[che s]|] eqn:Hc; [|discriminate].
  destruct (chainf_ext _ _ Hext _ _ _ Hc) as [che' [Hc' He']]. rewrite Hc'.
  destruct (walk che ps) as [n|] eqn:Hw'; [|discriminate].
  rewrite (IH _ _ _ He' Hw'). exact Hw.
Qed.

Lemma valid_key_ext : forall l ch ch' k name, extl ch ch' -> valid_key (TrNode l ch) k name -> valid_key (TrNode l ch') k name.
Proof. intros l ch ch' k name He [ps [Hk [Hs Hw]]]. exists ps. cbn [tr_ch] in *. eauto using walk_ext. Qed.

(* ---- facts about lcp / list_set / weight ---- *)
Lemma lcp_firstn : forall a b, firstn (lcp a b) a = firstn (lcp a b) b.
Proof.
  induction a as [|x a IH]; intros [|y b]; cbn; try reflexivity.
  destruct (N.eqb_spec x y) as [->|]; cbn; [rewrite IH|]; reflexivity.
Qed.

Lemma lcp_split_key : forall key lk, key = firstn (lcp key lk) lk ++ skipn (lcp key lk) key.
Proof. intros. rewrite <- lcp_firstn. symmetry. apply firstn_skipn. Qed.

Lemma nth_error_list_set : forall {A} (l : list A) i x y, nth_error l i = Some y -> nth_error (list_set i x l) i = Some x.
Proof. induction l as [|z l IH]; intros [|i] x y H; cbn in *; try discriminate; eauto. Qed.

Lemma Forall2_list_set : forall {A} (R : A -> A -> Prop) (l : list A) i x y,
  (forall z, R z z) -> nth_error l i = Some y -> R y x -> Forall2 R l (list_set i x l).
Proof.
  induction l as [|z l IH]; intros [|i] x y Hr H Hx; cbn in *; try discriminate.
  - injection H as ->. constructor; [exact Hx|]. clear -Hr. induction l; constructor; auto.
  - constructor; [apply Hr|]. eapply IH; eauto.
Qed.

Definition ch_weight (ch : list trie) : N := fold_right (fun c n => tr_weight c + n) 0 ch.

Lemma tr_weight_eq : forall l ch, tr_weight (TrNode l ch) = 1 + Nlen l + ch_weight ch.
Proof. reflexivity. Qed.

Lemma tr_weight_pos : forall t, 1 <= tr_weight t.
Proof. intros [l ch]. rewrite tr_weight_eq. lia. Qed.

Lemma ch_weight_len : forall ch, Nlen ch <= ch_weight ch.
Proof.
  induction ch as [|c ch IH]; [cbn; lia|]. unfold Nlen in *. cbn [length ch_weight fold_right].
  fold (ch_weight ch). pose proof (tr_weight_pos c). lia.
Qed.

Lemma ch_weight_nth : forall ch i c, nth_error ch i = Some c -> tr_weight c <= ch_weight ch.
Proof.
  induction ch as [|c0 ch IH]; intros [|i] c H; cbn in H; try discriminate;
    cbn [ch_weight fold_right]; fold (ch_weight ch).
  - injection H as ->. lia.
  - apply IH in H. lia.
Qed.

Lemma ch_weight_list_set : forall ch i c c', nth_error ch i = Some c ->
  ch_weight (list_set i c' ch) + tr_weight c = ch_weight ch + tr_weight c'.
Proof.
  induction ch as [|c0 ch IH]; intros [|i] c c' H; cbn in H; try discriminate;
    cbn [list_set ch_weight fold_right]; fold (ch_weight ch).
  - injection H as ->. lia.
  - fold (ch_weight (list_set i c' ch)). specialize (IH _ _ c' H). lia.
Qed.

Lemma ch_weight_app : forall a b, ch_weight (a ++ b) = ch_weight a + ch_weight b.
Proof. induction a as [|x a IH]; intros; cbn [app ch_weight fold_right]; [reflexivity|]. fold (ch_weight (a ++ b)) (ch_weight a). rewrite IH. lia. Qed.

(* ---- Put returns an exact key, extends the trie, and adds little weight ---- *)
Lemma d_put_loop_spec : forall fuel key l ch out t',
  d_put_loop fuel key (TrNode l ch) = Some (out, t') ->
  tr_weight (TrNode l ch) + Nlen key < two63 ->
  exists ps ch', t' = TrNode l ch' /\ extl ch ch' /\ out = key_of ps /\ Forall small_pair ps /\
                 walk ch' ps = Some key /\
                 tr_weight t' <= tr_weight (TrNode l ch) + Nlen key + (if Nat.eqb (length key) 0 then 0 else 2).
Proof.
  induction fuel as [|f IH]; intros key l ch out t' H Hb; [discriminate|].
  destruct key as [|k0 key]; cbn [d_put_loop] in H.
  { injection H as <- <-. exists [], ch. cbn. repeat split; auto using extl_refl. lia. }
  set (K := k0 :: key) in *.
  assert (HK : (if Nat.eqb (length K) 0 then 0 else 2) = 2) by reflexivity. rewrite HK. clear HK.
  rewrite tr_weight_eq in Hb. pose proof (ch_weight_len ch) as Hcl.
  destruct (lead_index k0 ch) as [idx|] eqn:Hl.
  2:{ (* case 1 *)
    injection H as <- <-. exists [(Nlen ch, Nlen K)], (ch ++ [TrNode K []]).
    split; [reflexivity|]. split; [exists ch, [TrNode K []]; auto using Forall2_ext_refl|].
    split; [cbn; rewrite app_nil_r; reflexivity|].
    split; [constructor; [split; cbn [fst snd]; lia|constructor]|].
    split.
    - cbn [walk]. unfold Nlen at 1. rewrite Nat2N.id, nth_error_app2, Nat.sub_diag by lia. cbn [nth_error chainf].
      rewrite N.leb_refl, N.sub_diag. cbn. rewrite app_nil_r. reflexivity.
    - rewrite !tr_weight_eq, ch_weight_app. cbn [ch_weight fold_right]. rewrite tr_weight_eq. cbn [ch_weight fold_right]. lia. }
  destruct (lead_index_some _ _ _ Hl) as [c [Hn Hfb]]. rewrite Hn in H.
  destruct c as [lk lch].
  pose proof (first_byte_lcp k0 key lk lch Hfb) as Hp1. fold K in Hp1.
  pose proof (lcp_le_l K lk) as HpK. pose proof (lcp_le_r K lk) as Hplk.
  pose proof (lcp_split_key K lk) as Hsplit.
  pose proof (ch_weight_nth _ _ _ Hn) as Hwc. rewrite tr_weight_eq in Hwc.
  assert (Hidx : (idx < length ch)%nat) by (apply nth_error_Some; congruence).
  set (p := lcp K lk) in *.
  assert (Hskl : Nlen (skipn p K) = Nlen K - N.of_nat p) by (unfold Nlen; rewrite skipn_length; lia).
  destruct (Nat.eqb_spec p (length lk)) as [Hpl|Hpl].
  - rewrite Hpl, firstn_all in Hsplit.
    destruct (Nat.eqb_spec p (length K)) as [HpK2|HpK2].
    + (* case 2 *)
      injection H as <- <-. exists [(N.of_nat idx, Nlen lk)], ch.
      assert (HKlk : K = lk).
      { rewrite Hsplit at 1. rewrite <- Hpl, HpK2, skipn_all, app_nil_r. reflexivity. }
      split; [reflexivity|]. split; [apply extl_refl|].
      split; [cbn; rewrite app_nil_r; reflexivity|].
      split; [constructor; [split; cbn [fst snd]; unfold Nlen in *; lia|constructor]|].
      split.
      * cbn [walk]. rewrite Nat2N.id, Hn. cbn [chainf]. rewrite N.leb_refl, N.sub_diag. cbn.
        rewrite app_nil_r, HKlk. reflexivity.
      * lia.
    + (* case 4 *)
      destruct (d_put_loop f (skipn p K) (TrNode lk lch)) as [[out' c']|] eqn:Hrec; [|discriminate].
      injection H as <- <-.
      destruct (IH _ _ _ _ _ Hrec) as [ps' [lch' [-> [Hext [-> [Hsm [Hw Hwt]]]]]]].
      { rewrite tr_weight_eq. lia. }
      exists ((N.of_nat idx, Nlen lk) :: ps'), (list_set idx (TrNode lk lch') ch).
      split; [reflexivity|].
      split.
      { exists (list_set idx (TrNode lk lch') ch), []. rewrite app_nil_r. split; [reflexivity|].
        eapply Forall2_list_set; [apply ext_refl|exact Hn|].
        destruct Hext as [c1 [ex [-> F]]]. apply ext_node. exact F. }
      split; [reflexivity|].
      split; [constructor; [split; cbn [fst snd]; unfold Nlen in *; lia|exact Hsm]|].
      split.
      * cbn [walk]. rewrite Nat2N.id, (nth_error_list_set _ _ _ _ Hn). cbn [chainf].
        rewrite N.leb_refl, N.sub_diag. cbn [N.eqb]. rewrite Hw. rewrite Hpl. rewrite <- Hsplit. reflexivity.
      * pose proof (ch_weight_list_set ch idx _ (TrNode lk lch') Hn) as Hls.
        rewrite !tr_weight_eq in *.
        destruct (Nat.eqb (length (skipn p K)) 0); lia.
  - (* case 3 *)
    destruct (d_put_loop f (skipn p K) (TrNode (firstn p lk) [TrNode (skipn p lk) lch])) as [[out' n']|] eqn:Hrec; [|discriminate].
    injection H as <- <-.
    assert (Hla : Nlen (firstn p lk) = N.of_nat p) by (unfold Nlen; rewrite firstn_length; lia).
    assert (Hlb : Nlen (skipn p lk) = Nlen lk - N.of_nat p) by (unfold Nlen; rewrite skipn_length; lia).
    destruct (IH _ _ _ _ _ Hrec) as [ps' [chn' [-> [Hext [-> [Hsm [Hw Hwt]]]]]]].
    { rewrite !tr_weight_eq. cbn [ch_weight fold_right]. rewrite tr_weight_eq. unfold Nlen in *. lia. }
    exists ((N.of_nat idx, N.of_nat p) :: ps'), (list_set idx (TrNode (firstn p lk) chn') ch).
    split; [reflexivity|].
    split.
    { exists (list_set idx (TrNode (firstn p lk) chn') ch), []. rewrite app_nil_r. split; [reflexivity|].
      eapply Forall2_list_set; [apply ext_refl|exact Hn|].
      destruct Hext as [c1 [ex [-> F]]]. inversion F as [|? t2 ? c1' Ht2 F']; subst. inversion F'; subst. cbn [app].
      rewrite <- (firstn_skipn p lk) at 1. apply ext_split; [|exact Ht2].
      intros Hnil. apply (f_equal (@length _)) in Hnil. rewrite skipn_length in Hnil. cbn [length] in Hnil. lia. }
    split; [reflexivity|].
    split; [constructor; [split; cbn [fst snd]; unfold Nlen in *; lia|exact Hsm]|].
    split.
    + cbn [walk]. rewrite Nat2N.id, (nth_error_list_set _ _ _ _ Hn). cbn [chainf].
      rewrite Hla, N.leb_refl, N.sub_diag. cbn [N.eqb]. rewrite Hw. rewrite <- Hsplit. reflexivity.
    + pose proof (ch_weight_list_set ch idx _ (TrNode (firstn p lk) chn') Hn) as Hls.
      rewrite !tr_weight_eq in *. cbn [ch_weight fold_right] in Hwt. rewrite tr_weight_eq in Hwt.
      destruct (Nat.eqb (length (skipn p K)) 0); unfold Nlen in *; lia.
Qed.

(* ---- codec round trip ---- *)
Definition parse_kids (f : nat) : nat -> bytes -> option (list trie * bytes) :=
  fix kids (n : nat) (bs : bytes) : option (list trie * bytes) :=
    match n with
    | O => Some ([], bs)
    | S n' => match parse_node f bs with
              | None => None
              | Some (c, r) => match kids n' r with
                               | None => None
                               | Some (cs, r') => Some (c :: cs, r')
                               end
              end
    end.

Lemma parse_node_S : forall f bs,
  parse_node (S f) bs =
  let '(nl, _, r1) := uvarint_read bs in
  if Nlen r1 <? nl then None else
  match take_bytes (N.to_nat nl) r1 with
  | None => None
  | Some (name, r2) =>
      match uvarint_dec r2 with
      | None => None
      | Some (cl, r3) =>
          if Nlen r3 <? cl then None else
          match parse_kids f (N.to_nat cl) r3 with
          | None => None
          | Some (cs, r4) => Some (TrNode name cs, r4)
          end
      end
  end.
Proof. reflexivity. Qed.

Fixpoint tr_height (t : trie) : nat :=
  match t with TrNode _ ch => S (fold_right (fun c n => Nat.max (tr_height c) n) 0%nat ch) end.

Lemma ser_node_len : forall t, (2 <= length (ser_node t))%nat.
Proof.
  intros [l ch]. cbn [ser_node]. rewrite !app_length.
  pose proof (uvarint_enc_len (Nlen l)). pose proof (uvarint_enc_len (Nlen ch)). lia.
Qed.

Lemma flat_ser_len : forall ch, (length ch <= length (flat_map ser_node ch))%nat.
Proof.
  induction ch as [|c ch IH]; cbn [flat_map length]; [lia|]. rewrite app_length.
  pose proof (ser_node_len c). lia.
Qed.

Lemma height_le_ser : forall t, (tr_height t <= length (ser_node t))%nat.
Proof.
  induction t as [l ch IH] using trie_ind'. cbn [tr_height ser_node]. rewrite !app_length.
  pose proof (uvarint_enc_len (Nlen l)). pose proof (uvarint_enc_len (Nlen ch)).
  assert ((fold_right (fun c n => Nat.max (tr_height c) n) 0 ch <= length (flat_map ser_node ch))%nat).
  { clear H H0. induction IH as [|c ch Hc _ IH']; cbn [fold_right flat_map length]; [lia|]. rewrite app_length. apply Nat.max_lub; lia. }
  lia.
Qed.

Lemma roundtrip_node : forall t, tr_weight t < 2 ^ 64 ->
  forall fuel rest, (tr_height t <= fuel)%nat -> parse_node fuel (ser_node t ++ rest) = Some (t, rest).
Proof.
  induction t as [l ch IH] using trie_ind'. intros Hw fuel rest Hf.
  destruct fuel as [|f]; [cbn in Hf; lia|].
  rewrite tr_weight_eq in Hw. pose proof (ch_weight_len ch) as Hcl.
  rewrite parse_node_S. cbn [ser_node]. rewrite <- !app_assoc.
  rewrite uvarint_read_enc by lia.
  replace (Nlen (l ++ uvarint_enc (Nlen ch) ++ flat_map ser_node ch ++ rest) <? Nlen l) with false
    by (unfold Nlen; rewrite app_length; lia).
  unfold Nlen at 1. rewrite Nat2N.id, take_bytes_app.
  rewrite uvarint_roundtrip by lia.
  replace (Nlen (flat_map ser_node ch ++ rest) <? Nlen ch) with false
    by (unfold Nlen; rewrite app_length; pose proof (flat_ser_len ch); lia).
  unfold Nlen at 1. rewrite Nat2N.id.
  assert (Hk : parse_kids f (length ch) (flat_map ser_node ch ++ rest) = Some (ch, rest)).
  { cbn [tr_height] in Hf. apply le_S_n in Hf. clear Hcl.
    assert (Hcw : ch_weight ch < 2 ^ 64) by lia. clear Hw.
    induction IH as [|c ch Hc _ IH']; [reflexivity|].
    cbn [fold_right] in Hf. cbn [ch_weight fold_right] in Hcw. fold (ch_weight ch) in Hcw.
    cbn [length flat_map parse_kids]. rewrite <- app_assoc.
    rewrite Hc by lia. fold (parse_kids f). rewrite IH' by lia. reflexivity. }
  rewrite Hk. reflexivity.
Qed.

Lemma d_codec_roundtrip : forall t, tr_weight t < 2 ^ 64 -> d_deserialize (d_serialize t) = Some t.
Proof.
  intros t Hw. unfold d_deserialize, d_serialize.
  rewrite uvarint_roundtrip by (cbn; lia).
  rewrite <- (app_nil_r (ser_node t)) at 2.
  rewrite roundtrip_node; [reflexivity|exact Hw|]. pose proof (height_le_ser t). lia.
Qed.

(* ---- headline statements ---- *)
Lemma d_put_spec : forall name t k t',
  tr_weight t + Nlen name < two63 -> d_put name t = (k, t') ->
  valid_key t' k name /\ (forall k0 n0, valid_key t k0 n0 -> valid_key t' k0 n0) /\
  tr_weight t' <= tr_weight t + Nlen name + 2.
Proof.
  intros name [l ch] k t' Hb Hp. unfold d_put, d_put_opt in Hp.
  destruct (d_put_loop (S (length name)) name (TrNode l ch)) as [[k1 t1]|] eqn:E.
  2:{ exfalso. eapply d_put_loop_some; [|exact E]. lia. }
  injection Hp as -> ->.
  destruct (d_put_loop_spec _ _ _ _ _ _ E Hb) as [ps [ch' [-> [Hext [-> [Hsm [Hw Hwt]]]]]]].
  split; [exists ps; auto|]. split.
  - intros k0 n0 Hv. eapply valid_key_ext; eauto.
  - destruct (Nat.eqb (length name) 0); lia.
Qed.

Theorem dict_put_get : forall name t k t',
  tr_weight t + Nlen name < two63 -> d_put name t = (k, t') -> d_get k t' = Some name.
Proof. intros name t k t' Hb Hp. apply valid_key_get. destruct (d_put_spec name t k t' Hb Hp) as [H _]. exact H. Qed.

Definition op_weight (o : d_op) : N := match o with OPut n => Nlen n + 2 | OReload => 0 end.
Definition ops_weight (ops : list d_op) : N := fold_right (fun o n => op_weight o + n) 0 ops.

Lemma ops_weight_app : forall a b, ops_weight (a ++ b) = ops_weight a + ops_weight b.
Proof. induction a as [|o a IH]; intros; cbn [app ops_weight fold_right]; [reflexivity|]. fold (ops_weight (a ++ b)) (ops_weight a). rewrite IH. lia. Qed.

Lemma d_reload_id : forall t, tr_weight t < two63 -> d_reload t = t.
Proof. intros t H. unfold d_reload. rewrite d_codec_roundtrip; [reflexivity|]. apply two63_lt_64. exact H. Qed.

Lemma d_step_inv : forall o t, tr_weight t + op_weight o < two63 ->
  (forall k n, valid_key t k n -> valid_key (d_step t o) k n) /\ tr_weight (d_step t o) <= tr_weight t + op_weight o.
Proof.
  intros [name|] t Hb; cbn [d_step op_weight] in *.
  - destruct (d_put name t) as [k t'] eqn:Hp. cbn [snd].
    destruct (d_put_spec name t k t') as [_ [H1 H2]]; [lia|exact Hp|]. split; [exact H1|lia].
  - rewrite d_reload_id by lia. split; [auto|lia].
Qed.

Lemma d_steps_inv : forall ops t, tr_weight t + ops_weight ops < two63 ->
  (forall k n, valid_key t k n -> valid_key (fold_left d_step ops t) k n) /\
  tr_weight (fold_left d_step ops t) <= tr_weight t + ops_weight ops.
Proof.
  induction ops as [|o ops IH]; intros t Hb; cbn [fold_left ops_weight fold_right] in *.
  - split; [auto|lia].
  - fold (ops_weight ops) in *. destruct (d_step_inv o t) as [H1 H2]; [lia|].
    destruct (IH (d_step t o)) as [H3 H4]; [lia|]. split; [auto|lia].
Qed.

(* every key ever returned keeps decoding to its name in every later state, over any history of
   puts and save/reload events *)
Theorem dict_stable : forall t0 ops1 name ops2 k t1,
  tr_weight t0 + ops_weight (ops1 ++ OPut name :: ops2) < two63 ->
  d_put name (fold_left d_step ops1 t0) = (k, t1) ->
  d_get k (fold_left d_step ops2 t1) = Some name.
Proof.
  intros t0 ops1 name ops2 k t1 Hb Hp.
  rewrite ops_weight_app in Hb. cbn [ops_weight fold_right op_weight] in Hb. fold (ops_weight ops2) in Hb.
  destruct (d_steps_inv ops1 t0) as [_ Hw1]; [lia|].
  destruct (d_put_spec name (fold_left d_step ops1 t0) k t1) as [Hv [_ Hw2]]; [lia|exact Hp|].
  destruct (d_steps_inv ops2 t1) as [Hinv _]; [lia|].
  apply valid_key_get. apply Hinv. exact Hv.
Qed.

(* putting the same name again (after anything) returns a key that decodes to it, and the first key
   stays valid as well *)
Theorem dict_put_same : forall t0 ops1 name ops2 ops3 k1 t1 k2 t2,
  tr_weight t0 + ops_weight (ops1 ++ OPut name :: ops2 ++ OPut name :: ops3) < two63 ->
  d_put name (fold_left d_step ops1 t0) = (k1, t1) ->
  d_put name (fold_left d_step ops2 t1) = (k2, t2) ->
  d_get k2 (fold_left d_step ops3 t2) = Some name /\ d_get k1 (fold_left d_step ops3 t2) = Some name.
Proof.
  intros t0 ops1 name ops2 ops3 k1 t1 k2 t2 Hb Hp1 Hp2. split.
  - assert (Hst : fold_left d_step (ops1 ++ OPut name :: ops2) t0 = fold_left d_step ops2 t1).
    { rewrite fold_left_app. cbn [fold_left d_step]. rewrite Hp1. reflexivity. }
    apply (dict_stable t0 (ops1 ++ OPut name :: ops2) name ops3 k2 t2).
    + rewrite <- app_assoc. exact Hb.
    + rewrite Hst. exact Hp2.
  - assert (Hst : fold_left d_step (ops2 ++ OPut name :: ops3) t1 = fold_left d_step ops3 t2).
    { rewrite fold_left_app. cbn [fold_left d_step]. rewrite Hp2. reflexivity. }
    rewrite <- Hst. apply (dict_stable t0 ops1 name _ k1 t1); assumption.
Qed.

Theorem dict_codec_roundtrip : forall t, tr_weight t < 2 ^ 64 -> d_deserialize (d_serialize t) = Some t.
Proof. exact d_codec_roundtrip. Qed.

(* ---- well-formedness is preserved by Put ---- *)
Definition fb (t : trie) : option byte := match tr_label t with x :: _ => Some x | [] => None end.

Lemma first_byte_is_fb : forall b c, first_byte_is b c = match fb c with Some x => N.eqb x b | None => false end.
Proof. intros b [[|x l] ch]; reflexivity. Qed.

Lemma existsb_fb : forall b ch ch', map fb ch = map fb ch' -> existsb (first_byte_is b) ch = existsb (first_byte_is b) ch'.
Proof.
  induction ch as [|c ch IH]; intros [|c' ch'] H; cbn in *; try discriminate; [reflexivity|].
  injection H as H1 H2. rewrite !first_byte_is_fb, H1. f_equal. auto.
Qed.

Lemma fbd_fb : forall ch ch', map fb ch = map fb ch' -> first_bytes_distinct ch = first_bytes_distinct ch'.
Proof.
  induction ch as [|c ch IH]; intros [|c' ch'] H; cbn [map] in *; try discriminate; [reflexivity|].
  injection H as H1 H2. cbn [first_bytes_distinct]. unfold fb in H1.
  destruct (tr_label c) as [|x l], (tr_label c') as [|x' l']; try discriminate; [reflexivity|].
  injection H1 as ->. rewrite (existsb_fb x' ch ch' H2), (IH ch' H2). reflexivity.
Qed.

Lemma map_fb_list_set : forall ch i c c', nth_error ch i = Some c -> fb c' = fb c -> map fb (list_set i c' ch) = map fb ch.
Proof.
  induction ch as [|c0 ch IH]; intros [|i] c c' H Hf; cbn in *; try discriminate.
  - injection H as ->. rewrite Hf. reflexivity.
  - f_equal. eauto.
Qed.

Lemma forallb_list_set : forall {A} (P : A -> bool) ch i x, forallb P ch = true -> P x = true -> forallb P (list_set i x ch) = true.
Proof.
  induction ch as [|c ch IH]; intros [|i] x H Hx; cbn in *; auto;
    apply andb_true_iff in H; destruct H as [H1 H2]; apply andb_true_iff; auto.
Qed.

Lemma forallb_nth : forall {A} (P : A -> bool) ch i x, forallb P ch = true -> nth_error ch i = Some x -> P x = true.
Proof.
  induction ch as [|c ch IH]; intros [|i] x H Hn; cbn in *; try discriminate;
    apply andb_true_iff in H; destruct H as [H1 H2]; [injection Hn as <-; auto|eauto].
Qed.

Lemma lead_index_from_none : forall b ch k acc, lead_index_from b ch k acc = None ->
  acc = None /\ existsb (first_byte_is b) ch = false.
Proof.
  induction ch as [|c ch IH]; intros k acc H; cbn in *; [auto|].
  apply IH in H. destruct H as [Ha He]. destruct (first_byte_is b c); [discriminate|]. auto.
Qed.

Lemma fbd_snoc : forall ch b l lch, first_bytes_distinct ch = true -> existsb (first_byte_is b) ch = false ->
  first_bytes_distinct (ch ++ [TrNode (b :: l) lch]) = true.
Proof.
  induction ch as [|c ch IH]; intros b l lch Hd He; [reflexivity|].
  cbn [app first_bytes_distinct existsb] in *.
  destruct c as [[|y ly] chy]; cbn [tr_label] in *; [discriminate|].
  apply andb_true_iff in Hd. destruct Hd as [Hd1 Hd2].
  apply orb_false_iff in He. destruct He as [He1 He2].
  rewrite existsb_app. cbn [existsb]. unfold first_byte_is at 2. cbn [tr_label].
  unfold first_byte_is in He1. cbn [tr_label] in He1.
  rewrite (N.eqb_sym b y), He1, !orb_false_r. rewrite Hd1. cbn. apply IH; assumption.
Qed.

Lemma d_put_loop_label : forall f key tn out t', d_put_loop f key tn = Some (out, t') -> tr_label t' = tr_label tn.
Proof.
  intros f key tn out t' Hrec. destruct tn as [l0 ch0].
  destruct f; [discriminate|]. cbn [d_put_loop] in Hrec. destruct key as [|b key]; [injection Hrec as _ <-; reflexivity|].
  destruct (lead_index b ch0) as [n|]; [|injection Hrec as _ <-; reflexivity].
  destruct (nth_error ch0 n) as [[lk' lch']|]; [|discriminate].
  destruct (Nat.eqb (lcp (b :: key) lk') (length lk')).
  - destruct (Nat.eqb (lcp (b :: key) lk') (length (b :: key))); [injection Hrec as _ <-; reflexivity|].
    destruct (d_put_loop f _ _) as [[? ?]|]; [injection Hrec as _ <-; reflexivity|discriminate].
  - destruct (d_put_loop f _ _) as [[? ?]|]; [injection Hrec as _ <-; reflexivity|discriminate].
Qed.

Lemma d_put_loop_wf : forall fuel key l ch out t',
  d_put_loop fuel key (TrNode l ch) = Some (out, t') -> tr_wfb (TrNode l ch) = true -> tr_wfb t' = true.
Proof.
  induction fuel as [|f IH]; intros key l ch out t' H Hwf; [discriminate|].
  destruct key as [|k0 key]; cbn [d_put_loop] in H; [injection H as <- <-; exact Hwf|].
  set (K := k0 :: key) in *.
  cbn [tr_wfb] in Hwf. apply andb_true_iff in Hwf. destruct Hwf as [Hd Hall].
  destruct (lead_index k0 ch) as [idx|] eqn:Hl.
  2:{ injection H as <- <-. apply lead_index_from_none in Hl. destruct Hl as [_ He].
      cbn [tr_wfb]. apply andb_true_iff. split; [apply fbd_snoc; assumption|].
      rewrite forallb_app, Hall. reflexivity. }
  destruct (lead_index_some _ _ _ Hl) as [c [Hn Hfb]]. rewrite Hn in H.
  destruct c as [lk lch].
  pose proof (first_byte_lcp k0 key lk lch Hfb) as Hp1. fold K in Hp1.
  pose proof (lcp_le_r K lk) as Hplk.
  pose proof (forallb_nth _ _ _ _ Hall Hn) as Hwc.
  set (p := lcp K lk) in *.
  destruct (Nat.eqb_spec p (length lk)) as [Hpl|Hpl].
  - destruct (Nat.eqb p (length K)); [injection H as <- <-; cbn [tr_wfb]; rewrite Hd, Hall; reflexivity|].
    destruct (d_put_loop f (skipn p K) (TrNode lk lch)) as [[out' c']|] eqn:Hrec; [|discriminate].
    injection H as <- <-.
    pose proof (IH _ _ _ _ _ Hrec Hwc) as Hwc'.
    assert (Hlab : tr_label c' = lk) by (apply (d_put_loop_label _ _ _ _ _ Hrec)).
    cbn [tr_wfb]. apply andb_true_iff. split.
    + rewrite (fbd_fb _ ch); [exact Hd|]. eapply map_fb_list_set; [exact Hn|]. unfold fb. rewrite Hlab. reflexivity.
    + apply forallb_list_set; assumption.
  - destruct (d_put_loop f (skipn p K) (TrNode (firstn p lk) [TrNode (skipn p lk) lch])) as [[out' n']|] eqn:Hrec; [|discriminate].
    injection H as <- <-.
    assert (Hb : exists y b', skipn p lk = y :: b').
    { destruct (skipn p lk) eqn:Es; [|eauto]. apply (f_equal (@length _)) in Es. rewrite skipn_length in Es. cbn [length] in Es. lia. }
    destruct Hb as [y [b' Hb]].
    assert (Hwn : tr_wfb (TrNode (firstn p lk) [TrNode (skipn p lk) lch]) = true).
    { cbn [tr_wfb first_bytes_distinct forallb tr_label]. rewrite Hb. cbn [tr_wfb] in Hwc. cbn. rewrite Hwc. reflexivity. }
    pose proof (IH _ _ _ _ _ Hrec Hwn) as Hwn'.
    assert (Hlab : fb n' = fb (TrNode lk lch)).
    { assert (Hl' : tr_label n' = firstn p lk) by (apply (d_put_loop_label _ _ _ _ _ Hrec)).
      unfold fb. rewrite Hl'. cbn [tr_label]. clear -Hp1 Hplk. clearbody p.
      destruct lk as [|x lk']; [cbn [length] in Hplk; lia|].
      destruct p; [lia|]. reflexivity. }
    cbn [tr_wfb]. apply andb_true_iff. split.
    + rewrite (fbd_fb _ ch); [exact Hd|]. eapply map_fb_list_set; [exact Hn|exact Hlab].
    + apply forallb_list_set; assumption.
Qed.

Lemma d_put_wf : forall name t, tr_wfb t = true -> tr_wfb (snd (d_put name t)) = true.
Proof.
  intros name [l ch] Hwf. unfold d_put, d_put_opt.
  destruct (d_put_loop (S (length name)) name (TrNode l ch)) as [[k t']|] eqn:E; [|exact Hwf].
  cbn [snd]. eapply d_put_loop_wf; eauto.
Qed.

(* ---- keys are not much longer than names (crude: at most 128 bytes per name byte) ---- *)
Lemma uvarint_enc_fuel_le : forall f n, (length (uvarint_enc_fuel f n) <= S f)%nat.
Proof. induction f as [|f IH]; intros n; cbn; [lia|]. destruct (n <? 128); cbn; [lia|]. specialize (IH (n / 128)). lia. Qed.

Lemma uvarint_enc_le64 : forall n, n < 2 ^ 64 -> (length (uvarint_enc n) <= 64)%nat.
Proof.
  intros n H. unfold uvarint_enc. pose proof (uvarint_enc_fuel_le (N.to_nat (N.log2 n)) n).
  assert (N.log2 n < 64). { destruct (N.eq_dec n 0) as [->|Hz]; [cbn; lia|]. apply N.log2_lt_pow2; lia. }
  lia.
Qed.

Lemma pair_enc_le : forall a b, a < two63 -> b < two63 -> Nlen (pair_enc a b) <= 128.
Proof.
  intros a b Ha Hb. unfold pair_enc, Nlen. rewrite app_length.
  pose proof (uvarint_enc_le64 a (two63_lt_64 a Ha)). pose proof (uvarint_enc_le64 b (two63_lt_64 b Hb)). lia.
Qed.

Lemma d_put_loop_len : forall fuel key l ch out t',
  d_put_loop fuel key (TrNode l ch) = Some (out, t') ->
  tr_weight (TrNode l ch) + Nlen key < two63 -> Nlen out <= 128 * Nlen key.
Proof.
  induction fuel as [|f IH]; intros key l ch out t' H Hb; [discriminate|].
  destruct key as [|k0 key]; cbn [d_put_loop] in H.
  { injection H as <- <-. cbn. lia. }
  set (K := k0 :: key) in *.
  assert (HK : 1 <= Nlen K) by (unfold Nlen, K; cbn [length]; lia).
  rewrite tr_weight_eq in Hb. pose proof (ch_weight_len ch) as Hcl.
  destruct (lead_index k0 ch) as [idx|] eqn:Hl.
  2:{ injection H as <- <-. pose proof (pair_enc_le (Nlen ch) (Nlen K)). lia. }
  destruct (lead_index_some _ _ _ Hl) as [c [Hn Hfb]]. rewrite Hn in H.
  destruct c as [lk lch].
  pose proof (first_byte_lcp k0 key lk lch Hfb) as Hp1. fold K in Hp1.
  pose proof (lcp_le_l K lk) as HpK. pose proof (lcp_le_r K lk) as Hplk.
  pose proof (ch_weight_nth _ _ _ Hn) as Hwc. rewrite tr_weight_eq in Hwc.
  assert (Hidx : (idx < length ch)%nat) by (apply nth_error_Some; congruence).
  set (p := lcp K lk) in *.
  assert (Hskl : Nlen (skipn p K) = Nlen K - N.of_nat p) by (unfold Nlen; rewrite skipn_length; lia).
  destruct (Nat.eqb_spec p (length lk)) as [Hpl|Hpl].
  - destruct (Nat.eqb_spec p (length K)) as [HpK2|HpK2].
    + injection H as <- <-. pose proof (pair_enc_le (N.of_nat idx) (Nlen lk)). unfold Nlen in *. lia.
    + destruct (d_put_loop f (skipn p K) (TrNode lk lch)) as [[out' c']|] eqn:Hrec; [|discriminate].
      injection H as <- <-.
      assert (Ho : Nlen out' <= 128 * Nlen (skipn p K)).
      { eapply IH; [exact Hrec|]. rewrite tr_weight_eq. lia. }
      pose proof (pair_enc_le (N.of_nat idx) (Nlen lk)).
      unfold Nlen in *. rewrite app_length. lia.
  - destruct (d_put_loop f (skipn p K) (TrNode (firstn p lk) [TrNode (skipn p lk) lch])) as [[out' n']|] eqn:Hrec; [|discriminate].
    injection H as <- <-.
    assert (Hla : Nlen (firstn p lk) = N.of_nat p) by (unfold Nlen; rewrite firstn_length; lia).
    assert (Hlb : Nlen (skipn p lk) = Nlen lk - N.of_nat p) by (unfold Nlen; rewrite skipn_length; lia).
    assert (Ho : Nlen out' <= 128 * Nlen (skipn p K)).
    { eapply IH; [exact Hrec|]. rewrite !tr_weight_eq. cbn [ch_weight fold_right]. rewrite tr_weight_eq. unfold Nlen in *. lia. }
    pose proof (pair_enc_le (N.of_nat idx) (N.of_nat p)).
    unfold Nlen in *. rewrite app_length. lia.
Qed.

Lemma d_put_key_len : forall name t k t', tr_weight t + Nlen name < two63 -> d_put name t = (k, t') -> Nlen k <= 128 * Nlen name.
Proof.
  intros name [l ch] k t' Hb Hp. unfold d_put, d_put_opt in Hp.
  destruct (d_put_loop (S (length name)) name (TrNode l ch)) as [[k1 t1]|] eqn:E.
  - injection Hp as -> ->. eapply d_put_loop_len; eauto.
  - injection Hp as <- <-. cbn. lia.
Qed.
