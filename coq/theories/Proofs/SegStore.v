(* SegStore.v — the exact bucket store driven by the put callbacks: locality of the callbacks of a
   subtree, and the "delta" lemma: one put adds exactly ov(write, bucket) * beta to the content of
   every node it meets. *)
From Pyro Require Import Model.Base Model.Float53 Model.Segment
  Proofs.SegmentProofs Proofs.SegStruct Proofs.SegGet.
From Coq Require Import ZifyBool ZifyNat.
Local Open Scope Z_scope.

(* ---------- regions ---------- *)
Definition under (k : skey) (lvl : nat) (t : Z) : Prop :=
  (fst k <= lvl)%nat /\ t <= snd k < t + pow10 lvl.

Lemma under_child k l tc t : under k l tc -> t <= tc -> tc + pow10 l <= t + pow10 (S l) -> under k (S l) t.
Proof. unfold under. intros [H1 H2] H3 H4. split; lia. Qed.

Lemma under_self lvl t : under (lvl, t) lvl t.
Proof. unfold under. cbn. pose proof (pow10_pos lvl). lia. Qed.

Lemma skey_eqb_spec x y : reflect (x = y) (skey_eqb x y).
Proof.
  destruct x as [l t], y as [l' t']. unfold skey_eqb. cbn.
  destruct (Nat.eqb_spec l l'), (Z.eqb_spec t t'); cbn; constructor; congruence.
Qed.

(* positions of the children of a well-formed node *)
Lemma slots_bounds (P : snode -> Prop) w : 0 < w -> forall ch t c, slots P w t ch -> In (Some c) ch ->
  t <= sn_time c /\ sn_time c + w <= t + Z.of_nat (length ch) * w.
Proof.
  intros Hw. induction ch as [|o ch IH]; intros t c Hs Hin; [destruct Hin|].
  cbn [slots] in Hs. destruct Hs as [Ho Hr]. cbn [length]. destruct Hin as [H|H].
  - subst o. destruct Ho as [Ht _]. nia.
  - specialize (IH _ _ Hr H). nia.
Qed.

(* ---------- locality of callbacks ---------- *)
Definition cb_local (lvl : nat) (t : Z) (c : put_cb) : Prop :=
  under (pc_key c) lvl t /\ Forall (fun a => under a lvl t) (pc_addons c).

Lemma cb_local_child l tc t c : cb_local l tc c -> t <= tc -> tc + pow10 l <= t + pow10 (S l) -> cb_local (S l) t c.
Proof.
  intros [H1 H2] H3 H4. split; [exact (under_child _ l tc t H1 H3 H4)|].
  eapply Forall_impl; [|exact H2]. intros a Ha. exact (under_child _ l tc t Ha H3 H4).
Qed.

Lemma apply_cb_other beta E c k : pc_key c <> k -> apply_cb beta E c k = E k.
Proof.
  intros H. unfold apply_cb, st_add. fold (pc_key c).
  destruct (skey_eqb_spec (pc_key c) k); [contradiction|reflexivity].
Qed.

Lemma apply_cb_same beta E c :
  apply_cb beta E c (pc_key c) = E (pc_key c) + (pc_m c * beta + sumZ (map E (pc_addons c))).
Proof.
  unfold apply_cb, st_add. fold (pc_key c).
  destruct (skey_eqb_spec (pc_key c) (pc_key c)); [reflexivity|contradiction].
Qed.

Lemma apply_cbs_app beta E l1 l2 : apply_cbs beta E (l1 ++ l2) = apply_cbs beta (apply_cbs beta E l1) l2.
Proof. unfold apply_cbs. apply fold_left_app. Qed.

Lemma apply_cbs_frame beta lvl t : forall cbs E k, Forall (cb_local lvl t) cbs -> ~ under k lvl t ->
  apply_cbs beta E cbs k = E k.
Proof.
  induction cbs as [|c cbs IH]; intros E k Hl Hk; [reflexivity|].
  inversion Hl; subst. cbn [apply_cbs fold_left]. fold (apply_cbs beta (apply_cb beta E c) cbs).
  rewrite IH by assumption. apply apply_cb_other. intros Heq. subst k. apply Hk. apply H1.
Qed.

Lemma map_ext_Forall {A B} (f g : A -> B) l : Forall (fun x => f x = g x) l -> map f l = map g l.
Proof. induction 1; cbn; congruence. Qed.

Lemma apply_cbs_cong beta lvl t : forall cbs E1 E2, Forall (cb_local lvl t) cbs ->
  (forall k, under k lvl t -> E1 k = E2 k) ->
  forall k, under k lvl t -> apply_cbs beta E1 cbs k = apply_cbs beta E2 cbs k.
Proof.
  induction cbs as [|c cbs IH]; intros E1 E2 Hl He k Hk; [apply He; exact Hk|].
  inversion Hl; subst. cbn [apply_cbs fold_left].
  fold (apply_cbs beta (apply_cb beta E1 c) cbs). fold (apply_cbs beta (apply_cb beta E2 c) cbs).
  apply IH; [assumption| |exact Hk].
  intros k' Hk'. destruct H1 as [Hkey Had].
  destruct (skey_eqb_spec (pc_key c) k') as [Heq|Hne].
  - subst k'. rewrite !apply_cb_same. rewrite (He _ Hkey). f_equal. f_equal. f_equal.
    apply map_ext_Forall. eapply Forall_impl; [|exact Had]. intros a Ha. apply He. exact Ha.
  - rewrite !apply_cb_other by assumption. apply He. exact Hk'.
Qed.

(* findAddons stays inside the region of the node *)
Lemma find_addons_local : forall lvl n, wf lvl n -> Forall (fun a => under a lvl (sn_time n)) (find_addons lvl n).
Proof.
  induction lvl as [|l IH]; intros [t p s w ch] Hwf; cbn [find_addons sn_time].
  - destruct p; repeat constructor; apply under_self.
  - destruct p; [repeat constructor; apply under_self|].
    destruct Hwf as [_ [Hlen Hs]]. apply Forall_forall. intros a Ha. apply in_flat_map in Ha.
    destruct Ha as [o [Ho Ha]]. destruct o as [c|]; [|destruct Ha].
    pose proof (slots_In _ _ _ _ _ Hs Ho) as Hwc.
    pose proof (slots_bounds _ _ (pow10_pos l) _ _ _ Hs Ho) as [Hb1 Hb2].
    specialize (IH c Hwc). rewrite Forall_forall in IH. specialize (IH a Ha).
    eapply under_child; [exact IH|lia|]. rewrite Hlen in Hb2. rewrite pow10_S. lia.
Qed.

(* the children list after the "maybe create" loop *)
Definition ch1_of (l : nat) (t a b : Z) (ch : list (option snode)) : list (option snode) :=
  if creates (relationship t (t + pow10 (S l)) a b) then fill_children l (trunc_to (S l) t) a b 0 ch else ch.

Lemma ch1_slots l t a b ch : t mod pow10 (S l) = 0 -> slots (wf l) (pow10 l) t ch ->
  slots (wf l) (pow10 l) t (ch1_of l t a b ch) /\ length (ch1_of l t a b ch) = length ch.
Proof.
  intros Hm Hs. unfold ch1_of. destruct (creates _); [|auto].
  rewrite fill_children_length. split; [|reflexivity].
  rewrite (trunc_to_aligned _ _ Hm).
  replace t with (t + 0 * pow10 l) at 1 by lia. replace t with (t + 0 * pow10 l) at 3 by lia.
  apply fill_children_slots; [apply mod_pow10_S; exact Hm|].
  replace (t + 0 * pow10 l) with t by lia. exact Hs.
Qed.

Lemma put_node_S l a b smp t p s w ch :
  s_put_node (S l) a b smp (SNode t p s w ch) =
  let r := relationship t (t + pow10 (S l)) a b in
  if is_outside r then (SNode t p s w ch, [])
  else
    let ch1 := ch1_of l t a b ch in
    let m := ov t (t + pow10 (S l)) a b in
    let fire := covers r || (1 <? count_some ch1)%nat || p in
    let addons := if fire && negb p then find_addons (S l) (SNode t p s w ch1) else [] in
    let own := if fire
               then [{| pc_lvl := S l; pc_t := t; pc_m := m; pc_d := b - a; pc_addons := addons |}]
               else [] in
    let rs := map (put_child l a b smp) ch1 in
    (SNode t (p || fire) (s + samples_incr smp m (b - a))%N (w + 1)%N (map fst rs), own ++ concat (map snd rs)).
Proof. reflexivity. Qed.

Definition child_cbs (l : nat) (a b : Z) (smp : N) (ch : list (option snode)) : list put_cb :=
  concat (map snd (map (put_child l a b smp) ch)).

Lemma child_cbs_cons l a b smp o ch :
  child_cbs l a b smp (o :: ch) = snd (put_child l a b smp o) ++ child_cbs l a b smp ch.
Proof. reflexivity. Qed.

Lemma put_local : forall lvl a b smp n, wf lvl n ->
  Forall (cb_local lvl (sn_time n)) (snd (s_put_node lvl a b smp n)).
Proof.
  induction lvl as [|l IH]; intros a b smp [t p s w ch] Hwf; cbn [sn_time].
  - rewrite put_node_unfold_0. cbv zeta. destruct (is_outside _); cbn [snd]; [constructor|].
    destruct (covers _ || _ || p); [|constructor]. constructor; [|constructor].
    split; [apply under_self|]. cbn [pc_addons].
    destruct (true && negb p); [|constructor].
    exact (find_addons_local 0 (SNode t p s w ch) Hwf).
  - rewrite put_node_S. cbv zeta. destruct (is_outside _); cbn [snd]; [constructor|].
    destruct Hwf as [Hm [Hlen Hs]].
    destruct (ch1_slots l t a b ch Hm Hs) as [Hs1 Hlen1]. rewrite Hlen in Hlen1.
    apply Forall_app. split.
    + destruct (covers _ || _ || p); [|constructor]. constructor; [|constructor].
      split; [apply under_self|]. cbn [pc_addons].
      destruct (true && negb p); [|constructor].
      refine (find_addons_local (S l) (SNode t p s w (ch1_of l t a b ch)) _).
      cbn [wf]. auto.
    + fold (child_cbs l a b smp (ch1_of l t a b ch)).
      apply Forall_forall. intros c Hc. unfold child_cbs in Hc. apply in_concat in Hc.
      destruct Hc as [cbs [Hcbs Hc]]. rewrite map_map in Hcbs. apply in_map_iff in Hcbs.
      destruct Hcbs as [o [Ho Hin]]. subst cbs. destruct o as [c0|]; [|destruct Hc].
      pose proof (slots_In _ _ _ _ _ Hs1 Hin) as Hw0.
      pose proof (slots_bounds _ _ (pow10_pos l) _ _ _ Hs1 Hin) as [Hb1 Hb2].
      specialize (IH a b smp c0 Hw0). cbn [put_child] in Hc.
      destruct (s_put_node l a b smp c0) as [c' cbs']. cbn [snd] in *.
      rewrite Forall_forall in IH. specialize (IH c Hc).
      eapply cb_local_child; [exact IH|lia|]. rewrite Hlen1 in Hb2. rewrite pow10_S. lia.
Qed.

(* ---------- the effect of the callbacks of a list of sibling subtrees, slot by slot ---------- *)
Section Children.
  Variables (l : nat) (a b : Z) (smp : N) (beta : Z).
  Let w := pow10 l.
  Definition cbs_of (c : snode) : list put_cb := snd (s_put_node l a b smp c).

  Fixpoint pslots (E E' : store) (t0 : Z) (ch : list (option snode)) : Prop :=
    match ch with
    | [] => True
    | o :: ch' =>
        (forall k, under k l t0 ->
                   E' k = match o with Some c => apply_cbs beta E (cbs_of c) k | None => E k end) /\
        pslots E E' (t0 + pow10 l) ch'
    end.

  Lemma put_child_snd o : snd (put_child l a b smp o) = match o with Some c => cbs_of c | None => [] end.
  Proof. destruct o as [c|]; cbn; [|reflexivity]. unfold cbs_of. destruct (s_put_node l a b smp c). reflexivity. Qed.

  Lemma pslots_base_change E1 E E' : forall ch t1, slots (wf l) (pow10 l) t1 ch ->
    (forall k, (fst k <= l)%nat -> t1 <= snd k -> E1 k = E k) -> pslots E1 E' t1 ch -> pslots E E' t1 ch.
  Proof.
    induction ch as [|o ch IH]; intros t1 Hs He Hp; [exact I|].
    cbn [pslots slots] in *. destruct Hs as [Ho Hr]. destruct Hp as [Hp1 Hp2]. split.
    - intros k Hk. rewrite (Hp1 k Hk). destruct o as [c|].
      + destruct Ho as [Ht Hw]. apply (apply_cbs_cong beta l t1).
        * rewrite <- Ht. apply put_local. exact Hw.
        * intros k' Hk'. apply He; apply Hk'.
        * exact Hk.
      + apply He; apply Hk.
    - apply IH; [exact Hr| |exact Hp2]. intros k Hk1 Hk. apply He; [exact Hk1|]. pose proof (pow10_pos l). lia.
  Qed.

  Lemma children_apply : forall ch t0 E, slots (wf l) (pow10 l) t0 ch ->
    let E' := apply_cbs beta E (child_cbs l a b smp ch) in
    (forall k, ~ ((fst k <= l)%nat /\ t0 <= snd k < t0 + Z.of_nat (length ch) * pow10 l) -> E' k = E k) /\
    pslots E E' t0 ch.
  Proof.
    induction ch as [|o ch IH]; intros t0 E Hs; cbv zeta.
    - cbn. split; [reflexivity|exact I].
    - cbn [slots] in Hs. destruct Hs as [Ho Hr].
      rewrite child_cbs_cons, apply_cbs_app, put_child_snd.
      set (E1 := apply_cbs beta E (match o with Some c => cbs_of c | None => [] end)).
      destruct (IH (t0 + pow10 l) E1 Hr) as [IF IP]. cbv zeta in IF, IP.
      pose proof (pow10_pos l) as Hp.
      assert (Hhead : forall k, ~ under k l t0 -> E1 k = E k).
      { intros k Hk. unfold E1. destruct o as [c|]; [|reflexivity].
        destruct Ho as [Ht Hw]. apply (apply_cbs_frame beta l t0); [|exact Hk].
        rewrite <- Ht. apply put_local. exact Hw. }
      split; [|split].
      + intros k Hk. rewrite IF.
        * apply Hhead. unfold under. cbn [length] in Hk. intros [U1 U2]. apply Hk. split; [exact U1|]. nia.
        * intros [U1 U2]. apply Hk. split; [exact U1|]. cbn [length]. nia.
      + intros k Hk. rewrite IF.
        * unfold E1. destruct o; reflexivity.
        * unfold under in Hk. intros [U1 U2]. lia.
      + eapply pslots_base_change; [exact Hr| |exact IP].
        intros k _ Hk. apply Hhead. unfold under. intros [U1 U2]. lia.
  Qed.
End Children.

(* ---------- content of a node: its own stored value if present, else that of its children ---------- *)
Fixpoint content (E : store) (lvl : nat) (n : snode) {struct lvl} : Z :=
  match n with
  | SNode t p _ _ ch =>
      if p then E (lvl, t)
      else match lvl with
           | O => 0
           | S l => sumZ (map (fun o => match o with Some c => content E l c | None => 0 end) ch)
           end
  end.
Definition ocontent (E : store) (l : nat) (o : option snode) : Z :=
  match o with Some c => content E l c | None => 0 end.
Definition osum (E : store) (l : nat) (ch : list (option snode)) : Z := sumZ (map (ocontent E l) ch).
Definition subsum (E : store) (lvl : nat) (n : snode) : Z :=
  match lvl with O => 0 | S l => osum E l (sn_ch n) end.

Lemma content_unfold E lvl t p s w ch :
  content E lvl (SNode t p s w ch) = if p then E (lvl, t) else subsum E lvl (SNode t p s w ch).
Proof. destruct lvl; reflexivity. Qed.

Lemma sumZ_app l1 l2 : sumZ (l1 ++ l2) = sumZ l1 + sumZ l2.
Proof. unfold sumZ. induction l1 as [|x l1 IH]; cbn [app fold_right]; lia. Qed.

Lemma sumZ_cons x l : sumZ (x :: l) = x + sumZ l.
Proof. reflexivity. Qed.

Definition clean (E : store) (l : nat) (t : Z) : Prop := forall k, under k l t -> E k = 0.

Fixpoint qslots (Q : snode -> Prop) (C : Z -> Prop) (w t : Z) (ch : list (option snode)) : Prop :=
  match ch with
  | [] => True
  | o :: ch' => match o with Some c => Q c | None => C t end /\ qslots Q C w (t + w) ch'
  end.

(* no stale values: a non-present node has nothing stored, empty slots have nothing stored below *)
Fixpoint quiet (E : store) (lvl : nat) (n : snode) {struct lvl} : Prop :=
  match n with
  | SNode t p _ _ ch =>
      (p = false -> E (lvl, t) = 0) /\
      match lvl with
      | O => True
      | S l => qslots (quiet E l) (clean E l) (pow10 l) t ch
      end
  end.

(* both depend only on the store below the node *)
Lemma content_cong : forall lvl n E1 E2, wf lvl n ->
  (forall k, under k lvl (sn_time n) -> E1 k = E2 k) -> content E1 lvl n = content E2 lvl n.
Proof.
  induction lvl as [|l IH]; intros [t p s w ch] E1 E2 Hwf He; cbn [content sn_time] in *.
  - destruct p; [apply He; apply under_self|reflexivity].
  - destruct p; [apply He; apply under_self|].
    destruct Hwf as [_ [Hlen Hs]]. f_equal. apply map_ext_in. intros o Ho.
    destruct o as [c|]; [|reflexivity].
    pose proof (slots_In _ _ _ _ _ Hs Ho) as Hwc.
    pose proof (slots_bounds _ _ (pow10_pos l) _ _ _ Hs Ho) as [Hb1 Hb2]. rewrite Hlen in Hb2.
    apply IH; [exact Hwc|]. intros k Hk. apply He.
    eapply under_child; [exact Hk|lia|rewrite pow10_S; lia].
Qed.

Lemma quiet_cong : forall lvl n E1 E2, wf lvl n ->
  (forall k, under k lvl (sn_time n) -> E1 k = E2 k) -> quiet E1 lvl n -> quiet E2 lvl n.
Proof.
  induction lvl as [|l IH]; intros [t p s w ch] E1 E2 Hwf He Hq; cbn [quiet sn_time] in *.
  - destruct Hq as [Hq _]. split; [|exact I]. intros Hp. rewrite <- He by apply under_self. auto.
  - destruct Hq as [Hq Hs]. split; [intros Hp; rewrite <- He by apply under_self; auto|].
    destruct Hwf as [_ [Hlen Hsl]].
    assert (G : forall ch0 t0, slots (wf l) (pow10 l) t0 ch0 ->
              (forall k, (fst k <= l)%nat -> t0 <= snd k < t0 + Z.of_nat (length ch0) * pow10 l -> E1 k = E2 k) ->
              qslots (quiet E1 l) (clean E1 l) (pow10 l) t0 ch0 -> qslots (quiet E2 l) (clean E2 l) (pow10 l) t0 ch0).
    { pose proof (pow10_pos l) as Hp.
      induction ch0 as [|o ch0 IHc]; intros t0 Hs0 He0 Hq0; [exact I|].
      cbn [qslots slots length] in *. destruct Hs0 as [Ho Hr]. destruct Hq0 as [Hqo Hqr]. split.
      - destruct o as [c|].
        + destruct Ho as [Ht Hw]. eapply IH; [exact Hw| |exact Hqo].
          intros k [K1 K2]. apply He0; [exact K1|]. rewrite Ht in K2. nia.
        + intros k Hk. rewrite <- He0; [apply Hqo; exact Hk|apply Hk|]. destruct Hk as [K1 K2]. nia.
      - apply IHc; [exact Hr| |exact Hqr]. intros k K1 K2. apply He0; [exact K1|]. nia. }
    apply (G ch t Hsl); [|exact Hs].
    intros k K1 K2. apply He. unfold under. rewrite Hlen in K2. rewrite pow10_S. split; lia.
Qed.

(* a fresh node in a clean region is quiet and empty *)
Lemma qslots_repeat_None E l : forall n t0,
  (forall j, 0 <= j < Z.of_nat n -> clean E l (t0 + j * pow10 l)) ->
  qslots (quiet E l) (clean E l) (pow10 l) t0 (repeat None n).
Proof.
  induction n as [|n IH]; intros t0 H; [exact I|]. cbn [repeat qslots]. split.
  - replace t0 with (t0 + 0 * pow10 l) by lia. apply H. lia.
  - apply IH. intros j Hj. replace (t0 + pow10 l + j * pow10 l) with (t0 + (j + 1) * pow10 l) by lia.
    apply H. lia.
Qed.

Lemma quiet_new_node E lvl t : clean E lvl t -> quiet E lvl (new_node t lvl).
Proof.
  intros Hc. destruct lvl as [|l]; cbn [new_node quiet].
  - split; [intros _; apply Hc; apply under_self|exact I].
  - split; [intros _; apply Hc; apply under_self|].
    apply qslots_repeat_None. intros j Hj k Hk. apply Hc.
    pose proof (pow10_pos l). eapply under_child; [exact Hk|nia|rewrite pow10_S; nia].
Qed.

Lemma content_new_node E lvl t : content E lvl (new_node t lvl) = 0.
Proof. destruct lvl; cbn; reflexivity. Qed.

(* findAddons names exactly the content of a non-present node *)
Lemma find_addons_content E : forall lvl n, sumZ (map E (find_addons lvl n)) = content E lvl n.
Proof.
  induction lvl as [|l IH]; intros [t p s w ch]; cbn [find_addons content].
  - destruct p; cbn; lia.
  - destruct p; [cbn; lia|].
    induction ch as [|o ch IHc]; [reflexivity|]. cbn [flat_map map].
    rewrite map_app, sumZ_app, IHc, sumZ_cons.
    destruct o as [c|]; [rewrite IH; reflexivity|reflexivity].
Qed.

(* ---------- slot counts of a write inside the sub-buckets ---------- *)
Lemma ov_split t0 w x a b : 0 <= w -> 0 <= x ->
  ov t0 (t0 + w) a b + ov (t0 + w) (t0 + w + x) a b = ov t0 (t0 + w + x) a b.
Proof. unfold ov. lia. Qed.

Lemma ov_outside t1 t2 a b : t1 < t2 -> a < b -> is_outside (relationship t1 t2 a b) = true -> ov t1 t2 a b = 0.
Proof.
  intros H1 H2 H. pose proof (rel_spec t1 t2 a b H1 H2) as Hr.
  destruct (relationship t1 t2 a b); try discriminate. unfold ov. lia.
Qed.

Fixpoint sov (a b beta w t0 : Z) (ch : list (option snode)) : Z :=
  match ch with
  | [] => 0
  | o :: ch' => (match o with Some _ => ov t0 (t0 + w) a b * beta | None => 0 end) + sov a b beta w (t0 + w) ch'
  end.

Lemma sov_bounds a b beta w : 0 < w -> 0 <= beta -> forall ch t0,
  0 <= sov a b beta w t0 ch <= ov t0 (t0 + Z.of_nat (length ch) * w) a b * beta.
Proof.
  intros Hw Hb. induction ch as [|o ch IH]; intros t0; cbn [sov length].
  - replace (t0 + Z.of_nat 0 * w) with t0 by lia. unfold ov. nia.
  - specialize (IH (t0 + w)).
    pose proof (ov_split t0 w (Z.of_nat (length ch) * w) a b ltac:(lia) ltac:(nia)) as Hsp.
    replace (t0 + Z.of_nat (S (length ch)) * w) with (t0 + w + Z.of_nat (length ch) * w) by lia.
    pose proof (ov_nonneg t0 (t0 + w) a b). destruct o; nia.
Qed.

Lemma sov_fill l base a b beta : a < b -> forall ch i,
  sov a b beta (pow10 l) (base + i * pow10 l) (fill_children l base a b i ch) =
  ov (base + i * pow10 l) (base + i * pow10 l + Z.of_nat (length ch) * pow10 l) a b * beta.
Proof.
  intros Hab. pose proof (pow10_pos l) as Hp.
  induction ch as [|o ch IH]; intros i; cbn [fill_children sov length].
  - replace (base + i * pow10 l + Z.of_nat 0 * pow10 l) with (base + i * pow10 l) by lia. unfold ov. lia.
  - replace (base + i * pow10 l + pow10 l) with (base + (i + 1) * pow10 l) by lia. rewrite IH.
    replace (base + (i + 1) * pow10 l) with (base + i * pow10 l + pow10 l) by lia.
    replace (base + i * pow10 l + Z.of_nat (S (length ch)) * pow10 l)
      with (base + i * pow10 l + pow10 l + Z.of_nat (length ch) * pow10 l) by lia.
    set (t1 := base + i * pow10 l). set (L := Z.of_nat (length ch) * pow10 l).
    assert (HL : 0 <= L) by (unfold L; nia).
    rewrite <- (ov_split t1 (pow10 l) L a b ltac:(lia) HL).
    destruct o as [c|]; [ring|].
    destruct (is_outside _) eqn:Eo; [|ring].
    assert (Ht12 : t1 < t1 + pow10 l) by lia.
    rewrite (ov_outside t1 (t1 + pow10 l) a b Ht12 Hab Eo). ring.
Qed.

Lemma qslots_fill E l base a b : forall ch i,
  qslots (quiet E l) (clean E l) (pow10 l) (base + i * pow10 l) ch ->
  qslots (quiet E l) (clean E l) (pow10 l) (base + i * pow10 l) (fill_children l base a b i ch).
Proof.
  induction ch as [|o ch IH]; intros i H; [exact I|]. cbn [fill_children qslots] in *.
  destruct H as [Ho Hr]. split.
  - destruct o; [exact Ho|]. destruct (is_outside _); [exact Ho|]. apply quiet_new_node. exact Ho.
  - replace (base + i * pow10 l + pow10 l) with (base + (i + 1) * pow10 l) in * by lia. apply IH. exact Hr.
Qed.

Lemma osum_fill E l base a b : forall ch i, osum E l (fill_children l base a b i ch) = osum E l ch.
Proof.
  unfold osum. induction ch as [|o ch IH]; intros i; [reflexivity|]. cbn [fill_children map].
  rewrite !sumZ_cons, IH. f_equal. destruct o; [reflexivity|].
  destruct (is_outside _); [reflexivity|]. cbn [ocontent]. apply content_new_node.
Qed.

(* ---------- the delta lemma ---------- *)
Section Delta.
  Variables (a b : Z) (smp : N) (beta : Z).
  Hypothesis Hab : a < b.
  Hypothesis Hbeta : 0 <= beta.

  Definition delta_spec (lvl : nat) (n : snode) (E : store) : Prop :=
    let n' := fst (s_put_node lvl a b smp n) in
    let E' := apply_cbs beta E (snd (s_put_node lvl a b smp n)) in
    let d := ov (sn_time n) (sn_time n + pow10 lvl) a b * beta in
    quiet E' lvl n' /\
    content E' lvl n' = content E lvl n + d /\
    subsum E lvl n <= subsum E' lvl n' <= subsum E lvl n + d /\
    (creates (relationship (sn_time n) (sn_time n + pow10 lvl) a b) = true ->
     subsum E' lvl n' = subsum E lvl n + d).

  Lemma children_delta l :
    (forall c E, wf l c -> quiet E l c -> delta_spec l c E) ->
    forall ch t0 E E', slots (wf l) (pow10 l) t0 ch ->
      qslots (quiet E l) (clean E l) (pow10 l) t0 ch -> pslots l a b smp beta E E' t0 ch ->
      qslots (quiet E' l) (clean E' l) (pow10 l) t0 (map fst (map (put_child l a b smp) ch)) /\
      osum E' l (map fst (map (put_child l a b smp) ch)) = osum E l ch + sov a b beta (pow10 l) t0 ch.
  Proof.
    intros IHl. induction ch as [|o ch IH]; intros t0 E E' Hs Hq Hp.
    - cbn. split; [exact I|reflexivity].
    - cbn [slots qslots pslots] in *. destruct Hs as [Ho Hsr]. destruct Hq as [Hqo Hqr]. destruct Hp as [Hpo Hpr].
      destruct (IH _ _ _ Hsr Hqr Hpr) as [I1 I2]. cbn [map qslots sov]. unfold osum in *. cbn [map]. rewrite !sumZ_cons, I2.
      destruct o as [c|].
      + destruct Ho as [Ht Hw]. destruct (IHl c E Hw Hqo) as (D1 & D2 & _).
        pose proof (put_node_wf l a b smp c Hw) as Hw'. pose proof (put_node_time l a b smp c) as Ht'.
        cbn [put_child]. fold (cbs_of l a b smp c) in D1, D2.
        destruct (s_put_node l a b smp c) as [c' cbs] eqn:Ep. cbn [fst snd] in *.
        assert (Hagree : forall k, under k l (sn_time c') -> apply_cbs beta E (cbs_of l a b smp c) k = E' k).
        { intros k Hk. symmetry. apply Hpo. rewrite Ht', Ht in Hk. exact Hk. }
        split.
        * split; [|exact I1]. eapply quiet_cong; [exact Hw'|exact Hagree|exact D1].
        * cbn [ocontent]. rewrite <- (content_cong l c' _ _ Hw' Hagree). rewrite D2, Ht. lia.
      + cbn [put_child fst ocontent]. split; [|lia]. split; [|exact I1].
        intros k Hk. rewrite (Hpo k Hk). apply Hqo. exact Hk.
  Qed.

  Lemma put_delta : forall lvl n E, wf lvl n -> quiet E lvl n -> delta_spec lvl n E.
  Proof.
    induction lvl as [|l IH]; intros [t p s w ch] E Hwf Hq; unfold delta_spec; cbn [sn_time].
    - (* level 0 *)
      rewrite put_node_unfold_0. cbv zeta. change (pow10 0) with 1.
      pose proof (rel_unit t a b Hab) as Hu. pose proof (rel_spec t (t + 1) a b ltac:(lia) Hab) as Hr.
      destruct Hwf as [_ Hch]. subst ch. destruct Hq as [Hq0 _].
      set (r := relationship t (t + 1) a b) in *.
      pose proof (ov_nonneg t (t + 1) a b) as Hov.
      destruct (is_outside r) eqn:Eo.
      { cbn [fst snd apply_cbs fold_left]. rewrite (ov_outside t (t + 1) a b ltac:(lia) Hab Eo).
        split; [split; [exact Hq0|exact I]|]. split; [lia|]. cbn [subsum]. split; [lia|].
        destruct r; cbn in Eo |- *; try discriminate. }
      assert (Hc : covers r = true) by (destruct r; cbn in *; try contradiction; try discriminate; reflexivity).
      assert (Hcr : creates r = false) by (destruct r; cbn in *; try discriminate; reflexivity).
      rewrite Hc, Hcr. cbn [orb fst snd].
      set (cb := {| pc_lvl := 0; pc_t := t; pc_m := ov t (t + 1) a b; pc_d := b - a;
                    pc_addons := if true && negb p then find_addons 0 (SNode t p s w []) else [] |}).
      cbn [apply_cbs fold_left].
      assert (HE : apply_cb beta E cb (0%nat, t) = E (0%nat, t) + ov t (t + 1) a b * beta).
      { change (0%nat, t) with (pc_key cb). rewrite apply_cb_same. unfold cb. cbn [pc_key pc_lvl pc_t pc_m pc_addons].
        destruct p; cbn; lia. }
      rewrite orb_true_r. cbn [quiet content subsum]. rewrite HE.
      split; [split; [discriminate|exact I]|]. split; [|split; [nia|discriminate]].
      destruct p; [lia|]. rewrite Hq0 by reflexivity. lia.
    - (* level S l *)
      rewrite put_node_S. cbv zeta.
      pose proof (pow10_pos (S l)) as HpS. pose proof (pow10_pos l) as Hp.
      pose proof (rel_spec t (t + pow10 (S l)) a b ltac:(lia) Hab) as Hr.
      destruct Hwf as [Hm [Hlen Hs]]. destruct Hq as [Hq0 Hqs].
      destruct (is_outside (relationship t (t + pow10 (S l)) a b)) eqn:Eo.
      { cbn [fst snd apply_cbs fold_left]. rewrite (ov_outside t (t + pow10 (S l)) a b ltac:(lia) Hab Eo).
        split; [split; assumption|]. split; [lia|]. split; [lia|].
        destruct (relationship t (t + pow10 (S l)) a b); cbn in Eo |- *; try discriminate. }
      destruct (ch1_slots l t a b ch Hm Hs) as [Hs1 Hlen1]. rewrite Hlen in Hlen1.
      set (ch1 := ch1_of l t a b ch) in *.
      set (r := relationship t (t + pow10 (S l)) a b) in *.
      set (m := ov t (t + pow10 (S l)) a b) in *.
      set (fire := covers r || (1 <? count_some ch1)%nat || p).
      set (addons := if fire && negb p then find_addons (S l) (SNode t p s w ch1) else []).
      set (own := if fire then [{| pc_lvl := S l; pc_t := t; pc_m := m; pc_d := b - a; pc_addons := addons |}] else []).
      cbn [fst snd]. rewrite apply_cbs_app. fold (child_cbs l a b smp ch1).
      set (E1 := apply_cbs beta E own).
      set (E' := apply_cbs beta E1 (child_cbs l a b smp ch1)).
      (* pre-state of the children after the create loop *)
      assert (Hq1 : qslots (quiet E l) (clean E l) (pow10 l) t ch1).
      { unfold ch1, ch1_of. destruct (creates _); [|exact Hqs].
        rewrite (trunc_to_aligned _ _ Hm).
        replace t with (t + 0 * pow10 l) at 1 by lia. replace t with (t + 0 * pow10 l) at 3 by lia.
        apply qslots_fill. replace (t + 0 * pow10 l) with t by lia. exact Hqs. }
      assert (Ho1 : osum E l ch1 = osum E l ch).
      { unfold ch1, ch1_of. destruct (creates _); [apply osum_fill|reflexivity]. }
      assert (Hsov : creates r = true -> sov a b beta (pow10 l) t ch1 = m * beta).
      { intros Hc. unfold ch1, ch1_of. fold r. rewrite Hc. rewrite (trunc_to_aligned _ _ Hm).
        replace t with (t + 0 * pow10 l) at 1 by lia. rewrite sov_fill by exact Hab.
        rewrite Hlen. unfold m. rewrite pow10_S. f_equal. f_equal; lia. }
      pose proof (sov_bounds a b beta (pow10 l) Hp Hbeta ch1 t) as Hsb. rewrite Hlen1 in Hsb.
      replace (t + Z.of_nat 10 * pow10 l) with (t + pow10 (S l)) in Hsb by (rewrite pow10_S; lia). fold m in Hsb.
      (* E1 differs from E only at the node's own key *)
      assert (HE1 : forall k, k <> (S l, t) -> E1 k = E k).
      { intros k Hk. unfold E1, own. destruct fire; [|reflexivity]. cbn [apply_cbs fold_left].
        apply apply_cb_other. unfold pc_key. cbn [pc_lvl pc_t]. intros Heq. apply Hk. symmetry. exact Heq. }
      destruct (children_apply l a b smp beta ch1 t E1 Hs1) as [HF HP]. fold E' in HF, HP.
      assert (HP' : pslots l a b smp beta E E' t ch1).
      { eapply pslots_base_change; [exact Hs1| |exact HP]. intros k K1 K2. apply HE1. intros ->. cbn in K1. lia. }
      destruct (children_delta l IH ch1 t E E' Hs1 Hq1 HP') as [C1 C2].
      (* the node's own key *)
      assert (Hkey : E' (S l, t) = E1 (S l, t)).
      { apply HF. cbn [fst]. intros [K1 _]. lia. }
      assert (Hown : E1 (S l, t) = if fire then E (S l, t) + (m * beta + (if p then 0 else osum E l ch)) else E (S l, t)).
      { unfold E1, own. destruct fire eqn:Ef; [|reflexivity]. cbn [apply_cbs fold_left].
        change (S l, t) with (pc_key {| pc_lvl := S l; pc_t := t; pc_m := m; pc_d := b - a; pc_addons := addons |}) at 1.
        rewrite apply_cb_same. cbn [pc_key pc_lvl pc_t pc_m pc_addons]. f_equal. f_equal.
        unfold addons. destruct p; cbn [andb negb]; [reflexivity|].
        rewrite find_addons_content. cbn [content]. fold (ocontent E l). fold (osum E l ch1). exact Ho1. }
      cbn [subsum sn_ch content quiet]. fold (ocontent E' l). fold (ocontent E l).
      fold (osum E' l (map fst (map (put_child l a b smp) ch1))). fold (osum E l ch).
      rewrite C2, Ho1.
      split; [|split; [|split]].
      + split; [|exact C1]. intros Hp'. apply orb_false_elim in Hp'. destruct Hp' as [Hp1 Hp2].
        rewrite Hkey, Hown. fold fire in Hp2. rewrite Hp2. apply Hq0. exact Hp1.
      + rewrite Hkey, Hown. destruct p; cbn [orb].
        * unfold fire. rewrite orb_true_r. lia.
        * destruct fire eqn:Ef.
          -- rewrite Hq0 by reflexivity. lia.
          -- unfold fire in Ef. rewrite orb_false_r in Ef. apply orb_false_elim in Ef. destruct Ef as [Ec _].
             rewrite Hsov; [lia|]. unfold r in *. destruct (relationship t (t + pow10 (S l)) a b); cbn in *; congruence.
      + lia.
      + intros Hc. rewrite (Hsov Hc). lia.
  Qed.
End Delta.
