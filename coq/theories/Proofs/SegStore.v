(* SegStore.v — the exact bucket store driven by the put callbacks: locality of the callbacks of a
   subtree, and the "delta" lemma: one put adds exactly ov(write, bucket) * beta to the content of
   every node it meets. *)
From Pyro Require Import Model.Base Model.Float53 Model.Segment
  Proofs.SegmentProofs Proofs.SegStruct Proofs.SegGet.
From Coq Require Import ZifyBool ZifyNat.
Local Open Scope Z_scope.

(* ---------- regions ---------- *)
Definition under (k : skey) (lvl : nat) (t : Z) : Prop :=
  (fst k <= lvl)%nat /\ t <= snd k < t + pow10 lvl.

Lemma under_child k l tc t : under k l tc -> t <= tc -> tc + pow10 l <= t + pow10 (S l) -> under k (S l) t.
Proof. unfold under. intros [H1 H2] H3 H4. split; lia. Qed.

Lemma under_self lvl t : under (lvl, t) lvl t.
Proof. unfold under. cbn. pose proof (pow10_pos lvl). lia. Qed.

Lemma skey_eqb_spec x y : reflect (x = y) (skey_eqb x y).
Proof.
  destruct x as [l t], y as [l' t']. unfold skey_eqb. cbn.
  destruct (Nat.eqb_spec l l'), (Z.eqb_spec t t'); cbn; constructor; congruence.
Qed.

(* positions of the children of a well-formed node *)
Lemma slots_bounds (P : snode -> Prop) w : 0 < w -> forall ch t c, slots P w t ch -> In (Some c) ch ->
  t <= sn_time c /\ sn_time c + w <= t + Z.of_nat (length ch) * w.
Proof.
  intros Hw. induction ch as [|o ch IH]; intros t c Hs Hin; [destruct Hin|].
  cbn [slots] in Hs. destruct Hs as [Ho Hr]. cbn [length]. destruct Hin as [H|H].
  - subst o. destruct Ho as [Ht _]. nia.
  - specialize (IH _ _ Hr H). nia.
Qed.

(* ---------- locality of callbacks ---------- *)
Definition cb_local (lvl : nat) (t : Z) (c : put_cb) : Prop :=
  under (pc_key c) lvl t /\ Forall (fun a => under a lvl t) (pc_addons c).

Lemma cb_local_child l tc t c : cb_local l tc c -> t <= tc -> tc + pow10 l <= t + pow10 (S l) -> cb_local (S l) t c.
Proof.
  intros [H1 H2] H3 H4. split; [eapply under_child; eauto|].
  eapply Forall_impl; [|exact H2]. intros a Ha. eapply under_child; eauto.
Qed.

Lemma apply_cb_other beta E c k : pc_key c <> k -> apply_cb beta E c k = E k.
Proof.
  intros H. unfold apply_cb, st_add. fold (pc_key c).
  destruct (skey_eqb_spec (pc_key c) k); [contradiction|reflexivity].
Qed.

Lemma apply_cb_same beta E c :
  apply_cb beta E c (pc_key c) = E (pc_key c) + (pc_m c * beta + sumZ (map E (pc_addons c))).
Proof.
  unfold apply_cb, st_add. fold (pc_key c).
  destruct (skey_eqb_spec (pc_key c) (pc_key c)); [reflexivity|contradiction].
Qed.

Lemma apply_cbs_app beta E l1 l2 : apply_cbs beta E (l1 ++ l2) = apply_cbs beta (apply_cbs beta E l1) l2.
Proof. unfold apply_cbs. apply fold_left_app. Qed.

Lemma apply_cbs_frame beta lvl t : forall cbs E k, Forall (cb_local lvl t) cbs -> ~ under k lvl t ->
  apply_cbs beta E cbs k = E k.
Proof.
  induction cbs as [|c cbs IH]; intros E k Hl Hk; [reflexivity|].
  inversion Hl; subst. cbn [apply_cbs fold_left]. fold (apply_cbs beta (apply_cb beta E c) cbs).
  rewrite IH by assumption. apply apply_cb_other. intros Heq. subst k. apply Hk. apply H1.
Qed.

Lemma map_ext_Forall {A B} (f g : A -> B) l : Forall (fun x => f x = g x) l -> map f l = map g l.
Proof. induction 1; cbn; congruence. Qed.

Lemma apply_cbs_cong beta lvl t : forall cbs E1 E2, Forall (cb_local lvl t) cbs ->
  (forall k, under k lvl t -> E1 k = E2 k) ->
  forall k, under k lvl t -> apply_cbs beta E1 cbs k = apply_cbs beta E2 cbs k.
Proof.
  induction cbs as [|c cbs IH]; intros E1 E2 Hl He k Hk; [apply He; exact Hk|].
  inversion Hl; subst. cbn [apply_cbs fold_left].
  fold (apply_cbs beta (apply_cb beta E1 c) cbs). fold (apply_cbs beta (apply_cb beta E2 c) cbs).
  apply IH; [assumption| |exact Hk].
  intros k' Hk'. destruct H1 as [Hkey Had].
  destruct (skey_eqb_spec (pc_key c) k') as [Heq|Hne].
  - subst k'. rewrite !apply_cb_same. rewrite (He _ Hkey). f_equal. f_equal. f_equal.
    apply map_ext_Forall. eapply Forall_impl; [|exact Had]. intros a Ha. apply He. exact Ha.
  - rewrite !apply_cb_other by assumption. apply He. exact Hk'.
Qed.

(* findAddons stays inside the region of the node *)
Lemma find_addons_local : forall lvl n, wf lvl n -> Forall (fun a => under a lvl (sn_time n)) (find_addons lvl n).
Proof.
  induction lvl as [|l IH]; intros [t p s w ch] Hwf; cbn [find_addons sn_time].
  - destruct p; repeat constructor; apply under_self.
  - destruct p; [repeat constructor; apply under_self|].
    destruct Hwf as [_ [Hlen Hs]]. apply Forall_forall. intros a Ha. apply in_flat_map in Ha.
    destruct Ha as [o [Ho Ha]]. destruct o as [c|]; [|destruct Ha].
    pose proof (slots_In _ _ _ _ _ Hs Ho) as Hwc.
    pose proof (slots_bounds _ _ (pow10_pos l) _ _ _ Hs Ho) as [Hb1 Hb2].
    specialize (IH c Hwc). rewrite Forall_forall in IH. specialize (IH a Ha).
    eapply under_child; [exact IH|lia|]. rewrite Hlen in Hb2. rewrite pow10_S. lia.
Qed.
