(* SegCanon18.v — the canonical decomposition has at most 18 buckets per level below the top
   (at most 9 when the range reaches one end of the bucket), and at most one at the top. *)
From Pyro Require Import Model.Base Model.Float53 Model.Segment
  Proofs.SegmentProofs Proofs.SegStruct Proofs.SegGet Proofs.SegCanon.
From Coq Require Import ZifyBool ZifyNat.
Local Open Scope Z_scope.

Definition cnt (j : nat) (ks : list skey) : nat := length (filter (fun k => Nat.eqb (fst k) j) ks).

Lemma cnt_app j a b : cnt j (a ++ b) = (cnt j a + cnt j b)%nat.
Proof. unfold cnt. rewrite filter_app, app_length. reflexivity. Qed.

Lemma cnt_nil j : cnt j [] = 0%nat.
Proof. reflexivity. Qed.

Lemma cnt_single j l t : cnt j [(l, t)] = if Nat.eqb l j then 1%nat else 0%nat.
Proof. unfold cnt. cbn. destruct (Nat.eqb l j); reflexivity. Qed.

(* the three shapes of s_canon *)
Lemma canon_inside lvl t qa qb : qa <= t -> t + pow10 lvl <= qb -> s_canon lvl t qa qb = [(lvl, t)].
Proof.
  intros H1 H2. destruct lvl; cbn [s_canon]; replace ((qa <=? t) && (_ <=? qb)) with true by lia; reflexivity.
Qed.

Lemma canon_cut_S l t qa qb : ~ (qa <= t /\ t + pow10 (S l) <= qb) -> ~ (t + pow10 (S l) <= qa \/ qb <= t) ->
  s_canon (S l) t qa qb = canon_slots l qa qb 10 t.
Proof.
  intros H1 H2. rewrite s_canon_S.
  replace ((qa <=? t) && (t + pow10 (S l) <=? qb)) with false by lia.
  replace ((t + pow10 (S l) <=? qa) || (qb <=? t)) with false by lia. reflexivity.
Qed.

Lemma canon_cut_0 t qa qb : ~ (qa <= t /\ t + pow10 0 <= qb) -> s_canon 0 t qa qb = [].
Proof.
  intros H1. cbn [s_canon]. replace ((qa <=? t) && (t + pow10 0 <=? qb)) with false by lia.
  destruct ((t + pow10 0 <=? qa) || (qb <=? t)); reflexivity.
Qed.

(* nothing above the level of the bucket; at most one at its level *)
Lemma cnt_above : forall lvl t qa qb j, qa < qb -> (lvl < j)%nat -> cnt j (s_canon lvl t qa qb) = 0%nat.
Proof.
  induction lvl as [|l IH]; intros t qa qb j Hq Hj.
  - cbn [s_canon]. destruct ((qa <=? t) && _); [rewrite cnt_single; replace (Nat.eqb 0 j) with false by lia; reflexivity|].
    destruct (_ || _); reflexivity.
  - rewrite s_canon_S. destruct ((qa <=? t) && _); [rewrite cnt_single; replace (Nat.eqb (S l) j) with false by lia; reflexivity|].
    destruct (_ || _); [reflexivity|].
    generalize 10%nat as k. intros k. revert t. induction k as [|k IHk]; intros t0; [reflexivity|].
    cbn [canon_slots]. rewrite cnt_app, IHk, IH by (assumption || lia). reflexivity.
Qed.

Lemma cnt_top lvl t qa qb : qa < qb -> (cnt lvl (s_canon lvl t qa qb) <= 1)%nat.
Proof.
  intros Hq. destruct lvl as [|l].
  - cbn [s_canon]. destruct ((qa <=? t) && _); [rewrite cnt_single; cbn; lia|]. destruct (_ || _); cbn; lia.
  - rewrite s_canon_S. destruct ((qa <=? t) && _); [rewrite cnt_single, Nat.eqb_refl; lia|].
    destruct (_ || _); [cbn; lia|].
    assert (G : forall k t0, cnt (S l) (canon_slots l qa qb k t0) = 0%nat).
    { induction k as [|k IHk]; intros t0; [reflexivity|]. cbn [canon_slots]. rewrite cnt_app, IHk, cnt_above by (assumption || lia). reflexivity. }
    rewrite G. lia.
Qed.

(* a run of sub-buckets entirely inside / entirely outside the range *)
Lemma slots_disjoint l qa qb j : qa < qb -> forall k t0, (t0 + Z.of_nat k * pow10 l <= qa \/ qb <= t0) ->
  cnt j (canon_slots l qa qb k t0) = 0%nat.
Proof.
  intros Hq. pose proof (pow10_pos l) as Hp. induction k as [|k IH]; intros t0 Hd; [reflexivity|].
  cbn [canon_slots]. rewrite cnt_app, IH by nia. rewrite s_canon_disjoint; [reflexivity|exact Hq|nia].
Qed.

Lemma slots_inside l qa qb j : forall k t0, qa <= t0 -> t0 + Z.of_nat k * pow10 l <= qb ->
  cnt j (canon_slots l qa qb k t0) = if Nat.eqb l j then k else 0%nat.
Proof.
  pose proof (pow10_pos l) as Hp. induction k as [|k IH]; intros t0 H1 H2; [destruct (Nat.eqb l j); reflexivity|].
  cbn [canon_slots]. rewrite cnt_app, IH by nia. rewrite canon_inside by nia. rewrite cnt_single.
  destruct (Nat.eqb l j); lia.
Qed.

Lemma cnt_level_not_inside lvl t qa qb : qa < qb -> ~ (qa <= t /\ t + pow10 lvl <= qb) ->
  cnt lvl (s_canon lvl t qa qb) = 0%nat.
Proof.
  intros Hq Hn. destruct lvl as [|l].
  - rewrite canon_cut_0 by exact Hn. reflexivity.
  - rewrite s_canon_S. replace ((qa <=? t) && (t + pow10 (S l) <=? qb)) with false by lia.
    destruct (_ || _); [reflexivity|].
    generalize 10%nat as k. intros k. clear Hn. revert t. induction k as [|k IHk]; intros t0; [reflexivity|].
    cbn [canon_slots]. rewrite cnt_app, cnt_above by (assumption || lia). rewrite IHk. reflexivity.
Qed.

Lemma cnt_slots_le l qa qb : qa < qb -> forall k t0, (cnt l (canon_slots l qa qb k t0) <= k)%nat.
Proof.
  intros Hq. induction k as [|k IH]; intros t0; [cbn; lia|].
  cbn [canon_slots]. rewrite cnt_app. pose proof (cnt_top l t0 qa qb Hq). specialize (IH (t0 + pow10 l)). lia.
Qed.

Section Level.
  Variables (l : nat) (qa qb : Z).
  Hypothesis Hq : qa < qb.
  (* the bounds one level down *)
  Hypothesis HA : forall t j, (j < l)%nat -> qa <= t -> (cnt j (s_canon l t qa qb) <= 9)%nat.
  Hypothesis HB : forall t j, (j < l)%nat -> t + pow10 l <= qb -> (cnt j (s_canon l t qa qb) <= 9)%nat.
  Hypothesis HC : forall t j, (j < l)%nat -> (cnt j (s_canon l t qa qb) <= 18)%nat.

  (* the range starts at or before the run of sub-buckets and ends inside it *)
  Lemma slots_A : forall k t0 j, qa <= t0 -> qb < t0 + Z.of_nat k * pow10 l ->
    (if Nat.eqb j l then cnt j (canon_slots l qa qb k t0) <= Nat.pred k else (j < l -> cnt j (canon_slots l qa qb k t0) <= 9))%nat.
  Proof using Hq HA.
    clear HB HC. pose proof (pow10_pos l) as Hp. induction k as [|k IH]; intros t0 j H1 H2; [cbn; destruct (Nat.eqb j l); lia|].
    cbn [canon_slots]. rewrite cnt_app.
    destruct (Z_le_gt_dec (t0 + pow10 l) qb) as [Hin|Hcut].
    - (* first sub-bucket inside *)
      rewrite canon_inside by lia. rewrite cnt_single. specialize (IH (t0 + pow10 l) j ltac:(lia) ltac:(lia)).
      destruct (Nat.eqb_spec j l) as [Heq|Hne]; [subst j|].
      + rewrite Nat.eqb_refl in *. destruct k; [lia|]. cbn [Nat.pred] in *. lia.
      + replace (Nat.eqb l j) with false by lia. intros Hj. specialize (IH Hj). lia.
    - (* first sub-bucket cut on the right (or missed): the rest is outside *)
      rewrite (slots_disjoint l qa qb j Hq k (t0 + pow10 l)) by lia.
      destruct (Nat.eqb_spec j l) as [Heq|Hne]; [subst j|].
      + rewrite cnt_level_not_inside by lia. lia.
      + intros Hj. pose proof (HA t0 j Hj H1). lia.
  Qed.

  (* the range starts inside the run and reaches its end *)
  Lemma slots_B : forall k t0 j, t0 < qa -> t0 + Z.of_nat k * pow10 l <= qb ->
    (if Nat.eqb j l then cnt j (canon_slots l qa qb k t0) <= Nat.pred k else (j < l -> cnt j (canon_slots l qa qb k t0) <= 9))%nat.
  Proof using Hq HB.
    clear HA HC. pose proof (pow10_pos l) as Hp. induction k as [|k IH]; intros t0 j H1 H2; [cbn; destruct (Nat.eqb j l); lia|].
    cbn [canon_slots]. rewrite cnt_app.
    destruct (Z_lt_ge_dec (t0 + pow10 l) qa) as [Hout|Hin].
    - (* first sub-bucket missed, range still starts later *)
      rewrite (s_canon_disjoint l t0 qa qb Hq) by lia. rewrite cnt_nil.
      specialize (IH (t0 + pow10 l) j Hout ltac:(lia)).
      destruct (Nat.eqb j l); [destruct k; cbn [Nat.pred] in *; lia|exact IH].
    - (* the range starts in (or right after) the first sub-bucket: the rest is inside *)
      rewrite (slots_inside l qa qb j k (t0 + pow10 l)) by lia.
      destruct (Nat.eqb_spec j l) as [Heq|Hne]; [subst j|].
      + rewrite Nat.eqb_refl. rewrite cnt_level_not_inside by lia. lia.
      + replace (Nat.eqb l j) with false by lia. intros Hj.
        destruct (Z.eq_dec (t0 + pow10 l) qa) as [He|Hn].
        * rewrite (s_canon_disjoint l t0 qa qb Hq) by lia. rewrite cnt_nil. lia.
        * pose proof (HB t0 j Hj ltac:(nia)). lia.
  Qed.

  Lemma slots_C : forall k t0 j, (j < l)%nat -> (cnt j (canon_slots l qa qb k t0) <= 18)%nat.
  Proof using Hq HA HB HC.
    pose proof (pow10_pos l) as Hp. induction k as [|k IH]; intros t0 j Hj; [cbn; lia|].
    destruct (Z_le_gt_dec qa t0) as [Hleft|Hright].
    - (* the range starts at or before the run *)
      destruct (Z_le_gt_dec (t0 + Z.of_nat (S k) * pow10 l) qb) as [Hall|Hend].
      + rewrite slots_inside by assumption. replace (Nat.eqb l j) with false by lia. lia.
      + pose proof (slots_A (S k) t0 j Hleft ltac:(lia)) as SA. replace (Nat.eqb j l) with false in SA by lia. specialize (SA Hj). lia.
    - cbn [canon_slots]. rewrite cnt_app.
      destruct (Z_le_gt_dec (t0 + pow10 l) qa) as [Hmiss|Hhit].
      + rewrite (s_canon_disjoint l t0 qa qb Hq) by lia. rewrite cnt_nil. apply IH. exact Hj.
      + (* the range starts inside the first sub-bucket *)
        destruct (Z_le_gt_dec (t0 + pow10 l) qb) as [Hreach|Hboth].
        * pose proof (HB t0 j Hj Hreach) as B1.
          destruct (Z_le_gt_dec (t0 + pow10 l + Z.of_nat k * pow10 l) qb) as [Hall|Hend].
          -- rewrite slots_inside by lia. replace (Nat.eqb l j) with false by lia. lia.
          -- pose proof (slots_A k (t0 + pow10 l) j ltac:(lia) ltac:(lia)) as SA.
             replace (Nat.eqb j l) with false in SA by lia. specialize (SA Hj). lia.
        * rewrite (slots_disjoint l qa qb j Hq k (t0 + pow10 l)) by lia.
          pose proof (HC t0 j Hj). lia.
  Qed.
End Level.

Theorem canon_bounds : forall lvl qa qb, qa < qb ->
  (forall t j, (j < lvl)%nat -> qa <= t -> (cnt j (s_canon lvl t qa qb) <= 9)%nat) /\
  (forall t j, (j < lvl)%nat -> t + pow10 lvl <= qb -> (cnt j (s_canon lvl t qa qb) <= 9)%nat) /\
  (forall t j, (j < lvl)%nat -> (cnt j (s_canon lvl t qa qb) <= 18)%nat).
Proof.
  induction lvl as [|l IH]; intros qa qb Hq; [repeat split; intros; lia|].
  destruct (IH qa qb Hq) as (HA & HB & HC). pose proof (pow10_pos (S l)) as HpS. pose proof (pow10_pos l) as Hp.
  assert (Hw : forall t, t + Z.of_nat 10 * pow10 l = t + pow10 (S l)) by (intros; rewrite pow10_S; lia).
  assert (Hshape : forall t j, (j < S l)%nat ->
            (qa <= t /\ t + pow10 (S l) <= qb /\ cnt j (s_canon (S l) t qa qb) = 0%nat) \/
            ((t + pow10 (S l) <= qa \/ qb <= t) /\ cnt j (s_canon (S l) t qa qb) = 0%nat) \/
            (~ (qa <= t /\ t + pow10 (S l) <= qb) /\ ~ (t + pow10 (S l) <= qa \/ qb <= t) /\
             s_canon (S l) t qa qb = canon_slots l qa qb 10 t)).
  { intros t j Hj.
    destruct (Z_le_gt_dec qa t), (Z_le_gt_dec (t + pow10 (S l)) qb);
      try (destruct (Z_le_gt_dec (t + pow10 (S l)) qa); [right; left; split; [lia|rewrite s_canon_disjoint by (assumption || lia); reflexivity]|]);
      try (destruct (Z_le_gt_dec qb t); [right; left; split; [lia|rewrite s_canon_disjoint by (assumption || lia); reflexivity]|]).
    - left. split; [assumption|]. split; [assumption|]. rewrite canon_inside by assumption. rewrite cnt_single.
      replace (Nat.eqb (S l) j) with false by lia. reflexivity.
    - right. right. split; [lia|]. split; [lia|]. apply canon_cut_S; lia.
    - right. right. split; [lia|]. split; [lia|]. apply canon_cut_S; lia.
    - right. right. split; [lia|]. split; [lia|]. apply canon_cut_S; lia. }
  split; [|split].
  - intros t j Hj Hleft. destruct (Hshape t j Hj) as [(_ & _ & E)|[(_ & E)|(N1 & N2 & E)]]; try (rewrite E; lia).
    rewrite E. pose proof (slots_A l qa qb Hq HA 10%nat t j Hleft ltac:(rewrite Hw; lia)) as SA.
    destruct (Nat.eqb_spec j l); [lia|apply SA; lia].
  - intros t j Hj Hright. destruct (Hshape t j Hj) as [(_ & _ & E)|[(_ & E)|(N1 & N2 & E)]]; try (rewrite E; lia).
    rewrite E. pose proof (slots_B l qa qb Hq HB 10%nat t j ltac:(lia) ltac:(rewrite Hw; lia)) as SB.
    destruct (Nat.eqb_spec j l); [lia|apply SB; lia].
  - intros t j Hj. destruct (Hshape t j Hj) as [(_ & _ & E)|[(_ & E)|(N1 & N2 & E)]]; try (rewrite E; lia).
    rewrite E. destruct (Nat.eq_dec j l) as [->|Hne].
    + pose proof (cnt_slots_le l qa qb Hq 10%nat t). lia.
    + apply (slots_C l qa qb Hq HA HB HC). lia.
Qed.

(* at most 18 buckets per level below the top, at most one at the top, none above *)
Theorem canon_at_most_18 lvl t qa qb j : qa < qb ->
  (cnt j (s_canon lvl t qa qb) <= 18)%nat.
Proof.
  intros Hq. destruct (lt_eq_lt_dec j lvl) as [[Hlt|Heq]|Hgt]; [| subst j |].
  - apply (canon_bounds lvl qa qb Hq). exact Hlt.
  - pose proof (cnt_top lvl t qa qb Hq). lia.
  - rewrite cnt_above by assumption. lia.
Qed.
