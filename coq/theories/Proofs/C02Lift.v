(* C02Lift.v — the lifting lemma of C02 in the form the per-codec theorems can discharge, and its instance for the
   trees cache (using tree-b's reload congruences, Proofs/TreeReloadProofs.v).

   cache_transparent (Proofs/CacheProofs.v) is stated for a partial equivalence.  Here it is specialised to
   "an equivalence Req restricted to VALID objects" (valid = the domain on which a codec round-trips:
   well-formed, below the node cap, keys shorter than 2^64 ...). *)
From Coq Require Import List Arith NArith Bool Morphisms RelationClasses.
From Pyro Require Import Model.Lfu Model.Cache Proofs.CacheProofs.
Import ListNotations.
Set Implicit Arguments.

Section Valid.
Context {K V D : Type}.
Context (keq : forall a b : K, {a = b} + {a <> b}).
Context (dflt : K -> V) (enc : K -> V -> D) (dec : K -> D -> V).
Context (Pv : V -> Prop) (Req : V -> V -> Prop) {Req_equiv : Equivalence Req}.
Context (P_dflt : forall k, Pv (dflt k)).
Context (P_codec : forall k v, Pv v -> Pv (dec k (enc k v))).
Context (codec : forall k v, Pv v -> Req (dec k (enc k v)) v).

Definition Rel (v v' : V) : Prop := Req v v' /\ Pv v /\ Pv v'.

Instance Rel_per : PER Rel.
Proof.
  split.
  - intros x y (A & B & C). repeat split; auto. symmetry; exact A.
  - intros x y z (A & B & C) (A' & B' & C'). repeat split; auto. etransitivity; eauto.
Qed.

(* what a history may do to objects: put valid objects; mutate by functions that keep objects valid and map
   equivalent valid objects to equivalent objects *)
Definition valid_op (o : op (K:=K) (V:=V)) : Prop :=
  match o with
  | OPut _ v => Pv v
  | OMutate _ f => (forall a, Pv a -> Pv (f a)) /\ (forall a b, Pv a -> Pv b -> Req a b -> Req (f a) (f b))
  | _ => True
  end.

Lemma valid_congr : forall ops, Forall valid_op ops -> Forall (congr_op Rel) ops.
Proof.
  intros ops H. eapply Forall_impl; [|exact H]. intros o Ho. destruct o; cbn in *; auto.
  - repeat split; auto. reflexivity.
  - destruct Ho as [H1 H2]. intros a b (A & B & C). repeat split; auto.
Qed.

Theorem cache_transparent_valid : forall cops,
  forallb (is_sync (K:=K) (V:=V)) cops = true ->
  Forall valid_op (lower cops) ->
  Forall2 Req (rets (fst (run keq dflt enc dec c_empty (lower cops))))
              (rets (fst (run keq dflt enc dec c_empty (lower (filter (fun o => negb (is_maint o)) cops))))).
Proof.
  intros cops S HV.
  assert (H : Forall2 Rel (rets (fst (run keq dflt enc dec c_empty (lower cops))))
                          (rets (fst (run keq dflt enc dec c_empty (lower (filter (fun o => negb (is_maint o)) cops)))))).
  { eapply cache_transparent with (Req := Rel); [typeclasses eauto | | | exact S | apply valid_congr; exact HV].
    - intros k. repeat split; auto. reflexivity.
    - intros k v v' (A & B & C). repeat split; auto. etransitivity; [apply codec; exact B | exact A]. }
  induction H as [|a b xs ys (A & _) F IH]; constructor; auto.
Qed.

End Valid.
