(* SegStruct.v — structural invariants of the segment tree: grid alignment (I_align), "two children
   => present" (I_two), their preservation by put and grow, and soundness of get. *)
From Pyro Require Import Model.Base Model.Float53 Model.Segment Proofs.SegmentProofs.
From Coq Require Import ZifyBool ZifyNat.
Local Open Scope Z_scope.

(* ---------- arithmetic ---------- *)
Lemma pow10_pos l : 0 < pow10 l.
Proof. unfold pow10. apply Z.pow_pos_nonneg; lia. Qed.
Lemma pow10_S l : pow10 (S l) = 10 * pow10 l.
Proof. unfold pow10. rewrite Nat2Z.inj_succ, Z.pow_succ_r by lia. reflexivity. Qed.
Lemma pow10_0 : pow10 0 = 1.
Proof. reflexivity. Qed.

Lemma mod_pow10_S l t : t mod pow10 (S l) = 0 -> t mod pow10 l = 0.
Proof.
  rewrite pow10_S. intros H. pose proof (pow10_pos l) as Hp.
  apply Z.mod_divide in H; [|lia]. destruct H as [k Hk].
  apply Z.mod_divide; [lia|]. exists (k * 10). lia.
Qed.

Lemma mod_add_mul t i p : 0 < p -> t mod p = 0 -> (t + i * p) mod p = 0.
Proof. intros Hp H. rewrite Z.mod_add by lia. exact H. Qed.

Lemma trunc_to_aligned lvl t : t mod pow10 lvl = 0 -> trunc_to lvl t = t.
Proof.
  intros H. unfold trunc_to. pose proof (pow10_pos lvl).
  pose proof (Z.div_mod t (pow10 lvl)). lia.
Qed.

Lemma trunc_to_mod lvl t : trunc_to lvl t mod pow10 lvl = 0.
Proof. unfold trunc_to. apply Z.mod_mul. pose proof (pow10_pos lvl). lia. Qed.

(* ---------- well-formedness (Prop version of sn_wfb) ---------- *)
Fixpoint slots (P : snode -> Prop) (w t : Z) (ch : list (option snode)) : Prop :=
  match ch with
  | [] => True
  | o :: ch' => match o with Some c => sn_time c = t /\ P c | None => True end /\ slots P w (t + w) ch'
  end.

Fixpoint wf (lvl : nat) (n : snode) {struct lvl} : Prop :=
  match n with
  | SNode t _ _ _ ch =>
      t mod pow10 lvl = 0 /\
      match lvl with
      | O => ch = []
      | S l => length ch = 10%nat /\ slots (wf l) (pow10 l) t ch
      end
  end.

Lemma slots_impl (P Q : snode -> Prop) w : (forall c, P c -> Q c) ->
  forall ch t, slots P w t ch -> slots Q w t ch.
Proof.
  intros HPQ. induction ch as [|o ch IH]; intros t H; cbn in *; [exact I|].
  destruct H as [H1 H2]. split; [|apply IH; exact H2].
  destruct o; [|exact I]. destruct H1; split; auto.
Qed.

Lemma slots_repeat_None P w n : forall t, slots P w t (repeat None n).
Proof. induction n; intros t; cbn; auto. Qed.

Lemma wf_time_mod lvl n : wf lvl n -> sn_time n mod pow10 lvl = 0.
Proof. destruct n, lvl; cbn; tauto. Qed.

Lemma wf_new_node lvl t : t mod pow10 lvl = 0 -> wf lvl (new_node t lvl).
Proof.
  intros H. destruct lvl; cbn; split; auto.
  split; [reflexivity|]. cbn. tauto.
Qed.

Lemma slots_In (P : snode -> Prop) w : forall ch t c, slots P w t ch -> In (Some c) ch -> P c.
Proof.
  induction ch as [|o ch IH]; intros t c Hs Hin; [destruct Hin|].
  cbn in Hs. destruct Hs as [Ho Hr]. destruct Hin as [H|H].
  - subst o. apply Ho.
  - eapply IH; eauto.
Qed.

Lemma slots_strengthen (P Q : snode -> Prop) w : forall ch t,
  slots P w t ch -> (forall c, In (Some c) ch -> P c -> Q c) -> slots Q w t ch.
Proof.
  induction ch as [|o ch IH]; intros t Hs HQ; cbn in *; [exact I|].
  destruct Hs as [Ho Hr]. split.
  - destruct o; [|exact I]. destruct Ho. split; [assumption|]. apply HQ; auto.
  - apply IH; [exact Hr|]. intros c Hc. apply HQ. right. exact Hc.
Qed.


(* ---------- put preserves time and well-formedness ---------- *)
Lemma put_node_time lvl a b smp n : sn_time (fst (s_put_node lvl a b smp n)) = sn_time n.
Proof.
  destruct lvl, n; cbn [s_put_node]; destruct (is_outside _); reflexivity.
Qed.

Lemma fill_children_length l base a b : forall ch i, length (fill_children l base a b i ch) = length ch.
Proof. induction ch; intros; cbn; auto. Qed.

Lemma fill_children_slots l base a b : base mod pow10 l = 0 ->
  forall ch i, slots (wf l) (pow10 l) (base + i * pow10 l) ch ->
               slots (wf l) (pow10 l) (base + i * pow10 l) (fill_children l base a b i ch).
Proof.
  intros Hb. induction ch as [|o ch IH]; intros i H; cbn in *; [exact I|].
  destruct H as [H1 H2]. split.
  - destruct o; [exact H1|].
    destruct (is_outside _); [exact I|]. split; [reflexivity|].
    apply wf_new_node. apply mod_add_mul; [apply pow10_pos|exact Hb].
  - replace (base + i * pow10 l + pow10 l) with (base + (i + 1) * pow10 l) in * by lia.
    apply IH. exact H2.
Qed.

Definition put_child (l : nat) (a b : Z) (smp : N) (o : option snode) : option snode * list put_cb :=
  match o with
  | Some c => let '(c', cbs) := s_put_node l a b smp c in (Some c', cbs)
  | None => (None, [])
  end.

Lemma put_node_unfold_S l a b smp t p s w ch :
  s_put_node (S l) a b smp (SNode t p s w ch) =
  let r := relationship t (t + pow10 (S l)) a b in
  if is_outside r then (SNode t p s w ch, [])
  else
    let ch1 := if creates r then fill_children l (trunc_to (S l) t) a b 0 ch else ch in
    let cnt := count_some ch1 in
    let m := ov t (t + pow10 (S l)) a b in
    let d := b - a in
    let fire := covers r || (1 <? cnt)%nat || p in
    let addons := if fire && negb p then find_addons (S l) (SNode t p s w ch1) else [] in
    let own := if fire
               then [{| pc_lvl := S l; pc_t := t; pc_m := m; pc_d := d; pc_addons := addons |}]
               else [] in
    let rs := map (put_child l a b smp) ch1 in
    (SNode t (p || fire) (s + samples_incr smp m d)%N (w + 1)%N (map fst rs), own ++ concat (map snd rs)).
Proof. reflexivity. Qed.

Lemma put_node_unfold_0 a b smp t p s w ch :
  s_put_node 0 a b smp (SNode t p s w ch) =
  let r := relationship t (t + pow10 0) a b in
  if is_outside r then (SNode t p s w ch, [])
  else
    let m := ov t (t + pow10 0) a b in
    let d := b - a in
    let fire := covers r || (1 <? count_some ch)%nat || p in
    let addons := if fire && negb p then find_addons 0 (SNode t p s w ch) else [] in
    let own := if fire
               then [{| pc_lvl := 0; pc_t := t; pc_m := m; pc_d := d; pc_addons := addons |}]
               else [] in
    (SNode t (p || fire) (s + samples_incr smp m d)%N (w + 1)%N ch, own).
Proof. reflexivity. Qed.

Lemma put_child_fst_slots l a b smp :
  (forall c, wf l c -> wf l (fst (s_put_node l a b smp c))) ->
  forall ch t, slots (wf l) (pow10 l) t ch ->
               slots (wf l) (pow10 l) t (map fst (map (put_child l a b smp) ch)).
Proof.
  intros IH. induction ch as [|o ch IHc]; intros t H; cbn in *; [exact I|].
  destruct H as [H1 H2]. split; [|apply IHc; exact H2].
  destruct o as [c|]; cbn; [|exact I].
  destruct H1 as [Ht Hw].
  pose proof (put_node_time l a b smp c) as Htime. pose proof (IH c Hw) as Hwf.
  destruct (s_put_node l a b smp c) as [c' cbs]. cbn in *. split; [lia|exact Hwf].
Qed.

Lemma put_node_wf : forall lvl a b smp n, wf lvl n -> wf lvl (fst (s_put_node lvl a b smp n)).
Proof.
  induction lvl as [|l IH]; intros a b smp [t p s w ch] H.
  - rewrite put_node_unfold_0. cbv zeta. destruct (is_outside _); cbn; exact H.
  - rewrite put_node_unfold_S. cbv zeta. destruct (is_outside _); [exact H|].
    cbn [fst]. destruct H as [Hm [Hlen Hs]]. cbn [wf]. split; [exact Hm|].
    rewrite !map_length.
    assert (Hb : trunc_to (S l) t = t) by (apply trunc_to_aligned; exact Hm).
    destruct (creates _).
    + rewrite fill_children_length. split; [exact Hlen|].
      apply put_child_fst_slots; [intros c Hc; apply IH; exact Hc|].
      rewrite Hb.
      replace t with (t + 0 * pow10 l) at 1 by lia.
      replace t with (t + 0 * pow10 l) at 3 by lia.
      apply fill_children_slots; [apply mod_pow10_S; exact Hm|].
      replace (t + 0 * pow10 l) with t by lia. exact Hs.
    + split; [exact Hlen|].
      apply put_child_fst_slots; [intros c Hc; apply IH; exact Hc|exact Hs].
Qed.

(* ---------- I_two: at least two children => present ---------- *)
Definition oall (P : snode -> Prop) (ch : list (option snode)) : Prop :=
  Forall (fun o => match o with Some c => P c | None => True end) ch.

Fixpoint two (lvl : nat) (n : snode) {struct lvl} : Prop :=
  match n with
  | SNode _ p _ _ ch =>
      ((2 <= count_some ch)%nat -> p = true) /\
      match lvl with
      | O => True
      | S l => oall (two l) ch
      end
  end.

Lemma count_some_repeat_None {A} n : count_some (repeat (@None A) n) = 0%nat.
Proof. induction n; cbn; auto. Qed.

Lemma count_some_cons {A} (o : option A) l :
  count_some (o :: l) = (match o with Some _ => 1 | None => 0 end + count_some l)%nat.
Proof. unfold count_some. cbn. destruct o; reflexivity. Qed.

Lemma oall_repeat_None P n : oall P (repeat None n).
Proof. induction n; cbn; constructor; auto. Qed.

Lemma two_new_node lvl t : two lvl (new_node t lvl).
Proof.
  destruct lvl; cbn [new_node two].
  - split; [cbn; lia|exact I].
  - split; [rewrite count_some_repeat_None; lia|apply oall_repeat_None].
Qed.

Lemma count_some_put_children l a b smp ch :
  count_some (map fst (map (put_child l a b smp) ch)) = count_some ch.
Proof.
  induction ch as [|o ch IH]; [reflexivity|].
  cbn [map]. rewrite !count_some_cons, IH.
  destruct o as [c|]; cbn; [destruct (s_put_node l a b smp c)|]; reflexivity.
Qed.

Lemma oall_fill_children (P : snode -> Prop) l base a b :
  (forall t, P (new_node t l)) ->
  forall ch i, oall P ch -> oall P (fill_children l base a b i ch).
Proof.
  intros Hn. induction ch as [|o ch IH]; intros i H; cbn; [constructor|].
  inversion H; subst. constructor; [|apply IH; assumption].
  destruct o; [assumption|]. destruct (is_outside _); [exact I|apply Hn].
Qed.

Lemma oall_put_children (P : snode -> Prop) l a b smp :
  (forall c, P c -> P (fst (s_put_node l a b smp c))) ->
  forall ch, oall P ch -> oall P (map fst (map (put_child l a b smp) ch)).
Proof.
  intros HP. induction ch as [|o ch IH]; intros H; cbn; [constructor|].
  inversion H; subst. constructor; [|apply IH; assumption].
  destruct o as [c|]; cbn; [|exact I].
  specialize (HP c H2). destruct (s_put_node l a b smp c). exact HP.
Qed.

Lemma put_node_two : forall lvl a b smp n, two lvl n -> two lvl (fst (s_put_node lvl a b smp n)).
Proof.
  induction lvl as [|l IH]; intros a b smp [t p s w ch] H.
  - rewrite put_node_unfold_0. cbv zeta. destruct (is_outside _); [exact H|].
    cbn [fst two]. split; [|exact I]. intros H2.
    destruct H as [H _]. rewrite (H H2). reflexivity.
  - rewrite put_node_unfold_S. cbv zeta. destruct (is_outside _); [exact H|].
    cbn [fst two]. destruct H as [Hp Hc].
    set (ch1 := if creates _ then _ else ch).
    assert (Hc1 : oall (two l) ch1).
    { unfold ch1. destruct (creates _); [|exact Hc].
      apply oall_fill_children; [intros; apply two_new_node|exact Hc]. }
    split.
    + rewrite count_some_put_children. intros H2.
      replace (1 <? count_some ch1)%nat with true by lia.
      rewrite orb_true_r. cbn. apply orb_true_r.
    + apply oall_put_children; [intros c Hc'; apply IH; exact Hc'|exact Hc1].
Qed.

(* ---------- growTree ---------- *)
Lemma list_set_repeat_slots (P : snode -> Prop) w c : P c ->
  forall n i t ch', list_set i (Some c) (repeat None n) = Some ch' ->
    sn_time c = t + Z.of_nat i * w -> slots P w t ch'.
Proof.
  intros HP. induction n as [|n IH]; intros i t ch' H Ht; cbn in H; [discriminate|].
  destruct i as [|i].
  - inversion H; subst. cbn. split; [split; [lia|exact HP]|apply slots_repeat_None].
  - destruct (list_set i (Some c) (repeat None n)) eqn:E; [|discriminate].
    inversion H; subst. cbn. split; [exact I|].
    apply (IH i); [exact E|]. lia.
Qed.

Lemma list_set_length {A} (x : A) : forall l i l', list_set i x l = Some l' -> length l' = length l.
Proof.
  induction l as [|y l IH]; intros i l' H; cbn in H; [discriminate|].
  destruct i; [inversion H; reflexivity|].
  destruct (list_set i x l) eqn:E; [|discriminate]. inversion H; subst. cbn. f_equal. eapply IH; eauto.
Qed.

Lemma list_set_some {A} (x : A) : forall l i, (i < length l)%nat -> exists l', list_set i x l = Some l'.
Proof.
  induction l as [|y l IH]; intros i H; cbn in *; [lia|].
  destruct i; [eexists; reflexivity|].
  destruct (IH i) as [l' E]; [lia|]. rewrite E. eexists; reflexivity.
Qed.

Lemma list_set_count_one {A} (x : A) : forall n i l',
  list_set i (Some x) (repeat None n) = Some l' -> count_some l' = 1%nat.
Proof.
  induction n as [|n IH]; intros i l' H; cbn in H; [discriminate|].
  destruct i.
  - inversion H; subst. rewrite count_some_cons, count_some_repeat_None. reflexivity.
  - destruct (list_set i (Some x) (repeat None n)) eqn:E; [|discriminate].
    inversion H; subst. rewrite count_some_cons. rewrite (IH _ _ E). reflexivity.
Qed.

Lemma list_set_oall (P : snode -> Prop) c : P c -> forall n i l',
  list_set i (Some c) (repeat None n) = Some l' -> oall P l'.
Proof.
  intros HP. induction n as [|n IH]; intros i l' H; cbn in H; [discriminate|].
  destruct i.
  - inversion H; subst. constructor; [exact HP|apply oall_repeat_None].
  - destruct (list_set i (Some c) (repeat None n)) eqn:E; [|discriminate].
    inversion H; subst. constructor; [exact I|]. eapply IH; eauto.
Qed.

(* the index computed by replace for a child on the grid of its level *)
Lemma replace_idx_grid l t : t mod pow10 l = 0 ->
  let T := trunc_to (S l) t in
  let i := replace_idx l T t in
  0 <= i < 10 /\ t = T + i * pow10 l.
Proof.
  intros Hm. cbv zeta. unfold replace_idx, trunc_to. rewrite pow10_S.
  pose proof (pow10_pos l) as Hp. set (P := pow10 l) in *.
  apply Z.mod_divide in Hm; [|lia]. destruct Hm as [k Hk]. subst t.
  replace (k * P / (10 * P)) with (k / 10).
  2:{ rewrite Z.div_mul_cancel_r by lia. reflexivity. }
  replace (k * P - k / 10 * (10 * P)) with ((k - k / 10 * 10) * P) by lia.
  rewrite Z.quot_mul by lia.
  pose proof (Z.div_mod k 10). pose proof (Z.mod_pos_bound k 10). lia.
Qed.

Lemma pow10_add x y : pow10 (x + y) = pow10 x * pow10 y.
Proof. unfold pow10. rewrite Nat2Z.inj_add, Z.pow_add_r by lia. reflexivity. Qed.

(* a bucket of level <= 8 that starts inside an aligned 10^8-slot block lies inside that block *)
Lemma block_trunc lvl K t : (lvl <= 8)%nat ->
  K * pow10 8 <= t < (K + 1) * pow10 8 ->
  K * pow10 8 <= trunc_to lvl t /\ trunc_to lvl t + pow10 lvl <= (K + 1) * pow10 8.
Proof.
  intros Hl Ht. unfold trunc_to.
  replace 8%nat with (lvl + (8 - lvl))%nat in * by lia. rewrite pow10_add in *.
  pose proof (pow10_pos lvl) as HQ. pose proof (pow10_pos (8 - lvl)) as HR.
  set (Q := pow10 lvl) in *. set (R := pow10 (8 - lvl)) in *.
  pose proof (Z.div_mod t Q ltac:(lia)) as Hd. pose proof (Z.mod_pos_bound t Q HQ) as Hr.
  set (q := t / Q) in *. set (r := t mod Q) in *.
  assert (K * R <= q) by nia.
  assert (q + 1 <= (K + 1) * R) by nia.
  nia.
Qed.

Definition in_blk (K : Z) (lvl : nat) (n : snode) : Prop :=
  K * pow10 8 <= sn_time n /\ sn_time n + pow10 lvl <= (K + 1) * pow10 8.

Definition node_ok (K : Z) (lvl : nat) (n : snode) : Prop :=
  (lvl <= 8)%nat /\ wf lvl n /\ two lvl n /\ in_blk K lvl n.

Lemma grow_loop_ok K a b : a < b -> K * pow10 8 <= a -> b <= (K + 1) * pow10 8 ->
  forall fuel lvl n, fuel = (8 - lvl)%nat -> node_ok K lvl n ->
    let '(lvl', n') := s_grow_loop fuel a b lvl n in
    node_ok K lvl' n' /\ sn_time n' <= a /\ b <= sn_time n' + pow10 lvl' /\ (lvl <= lvl')%nat.
Proof.
  intros Hab Ha Hb. induction fuel as [|f IH]; intros lvl n Hf (Hl & Hwf & Htwo & Hblk).
  - (* level 8: the bucket is the whole block *)
    assert (lvl = 8%nat) by lia. subst lvl. cbn [s_grow_loop].
    pose proof (wf_time_mod _ _ Hwf) as Hm. destruct Hblk as [Hb1 Hb2].
    pose proof (pow10_pos 8) as Hp.
    assert (sn_time n = K * pow10 8).
    { apply Z.mod_divide in Hm; [|lia]. destruct Hm as [k Hk]. nia. }
    pose proof (rel_spec (sn_time n) (sn_time n + pow10 8) a b ltac:(lia) Hab) as Hr.
    destruct (relationship _ _ a b); try (repeat split; auto; lia).
  - cbn [s_grow_loop].
    pose proof (pow10_pos lvl) as Hp.
    pose proof (rel_spec (sn_time n) (sn_time n + pow10 lvl) a b ltac:(lia) Hab) as Hr.
    pose proof (wf_time_mod _ _ Hwf) as Hm.
    pose proof (replace_idx_grid lvl (sn_time n) Hm) as Hidx. cbv zeta in Hidx.
    assert (Hstep : match sn_replace lvl (SNode (trunc_to (S lvl) (sn_time n)) false (sn_samples n) (sn_writes n) (repeat None 10)) n with
                    | Some root1 => node_ok K (S lvl) root1
                    | None => False
                    end).
    { unfold sn_replace. set (T := trunc_to (S lvl) (sn_time n)) in *.
      set (i := replace_idx lvl T (sn_time n)) in *. destruct Hidx as [Hi Ht].
      replace (i <? 0) with false by lia.
      destruct (list_set_some (Some n) (repeat None 10) (Z.to_nat i)) as [ch' E].
      { rewrite repeat_length. lia. }
      rewrite E. destruct Hblk as [Hb1 Hb2].
      pose proof (block_trunc (S lvl) K (sn_time n) ltac:(lia) ltac:(lia)) as [Hc1 Hc2].
      split; [lia|]. split; [|split].
      + cbn [wf]. split; [apply trunc_to_mod|]. split.
        * rewrite (list_set_length _ _ _ _ E). apply repeat_length.
        * eapply list_set_repeat_slots; [exact Hwf|exact E|]. rewrite Z2Nat.id by lia. exact Ht.
      + cbn [two]. split.
        * intros H2. rewrite (list_set_count_one _ _ _ _ E) in H2. lia.
        * eapply list_set_oall; [exact Htwo|exact E].
      + split; cbn [sn_time]; lia. }
    assert (Hok : node_ok K lvl n) by (repeat split; auto; apply Hblk).
    destruct (relationship _ _ a b) eqn:Er;
      try (split; [exact Hok|repeat split; lia]);
      (destruct (sn_replace _ _ n) as [root1|]; [|contradiction];
       specialize (IH (S lvl) root1 ltac:(lia) Hstep);
       destruct (s_grow_loop f a b (S lvl) root1) as [lvl' n'];
       destruct IH as (IH1 & IH2 & IH3 & IH4); split; [exact IH1|repeat split; lia]).
Qed.

(* ---------- segments and histories ---------- *)
Definition seg_ok (K : Z) (s : segment) : Prop :=
  match s_root s with None => True | Some (lvl, n) => node_ok K lvl n end.

(* a write inside the epoch block K, non-empty *)
Definition valid_range (K a b : Z) : Prop := a < b /\ K * pow10 8 <= a /\ b <= (K + 1) * pow10 8.
Definition valid_write (K : Z) (w : write) : Prop := valid_range K (w_a w) (w_b w) /\ 0 <= w_beta w.

Lemma s_grow_ok_holds K a b s : valid_range K a b -> seg_ok K s ->
  match s_root (s_grow a b s) with
  | Some (lvl, n) => node_ok K lvl n /\ sn_time n <= a /\ b <= sn_time n + pow10 lvl
  | None => False
  end.
Proof.
  intros (Hab & Ha & Hb) Hs. unfold s_grow, seg_ok in *.
  destruct (s_root s) as [[lvl n]|]; cbn [s_root].
  - destruct Hs as (Hl & Hwf & Htwo & Hb1 & Hb2). pose proof (pow10_pos lvl).
    pose proof (grow_loop_ok K (Z.min a (sn_time n)) (Z.max b (sn_time n + pow10 lvl))
                  ltac:(lia) ltac:(lia) ltac:(lia) (max_level - lvl)%nat lvl n eq_refl
                  (conj Hl (conj Hwf (conj Htwo (conj Hb1 Hb2))))) as G.
    destruct (s_grow_loop _ _ _ lvl n) as [lvl' n']. destruct G as (G1 & G2 & G3 & _).
    split; [exact G1|lia].
  - assert (Hn : node_ok K 0 (new_node a 0)).
    { split; [unfold max_level; lia|]. split; [apply wf_new_node; change (pow10 0) with 1; apply Z.mod_1_r|].
      split; [apply two_new_node|]. unfold in_blk. cbn [new_node sn_time]. change (pow10 0) with 1. lia. }
    pose proof (grow_loop_ok K a b Hab Ha Hb max_level 0%nat (new_node a 0) eq_refl Hn) as G.
    destruct (s_grow_loop _ _ _ _ _) as [lvl' n']. destruct G as (G1 & G2 & G3 & _).
    split; [exact G1|lia].
Qed.

Lemma s_put_ok K a b smp s : valid_range K a b -> seg_ok K s -> seg_ok K (fst (s_put a b smp s)).
Proof.
  intros Hv Hs. pose proof (s_grow_ok_holds K a b s Hv Hs) as G. unfold s_put.
  destruct (s_root (s_grow a b s)) as [[lvl n]|]; [|contradiction].
  destruct G as ((Hl & Hwf & Htwo & Hb1 & Hb2) & _).
  pose proof (put_node_wf lvl a b smp n Hwf). pose proof (put_node_two lvl a b smp n Htwo).
  pose proof (put_node_time lvl a b smp n).
  destruct (s_put_node lvl a b smp n) as [n' cbs]. cbn [fst] in *.
  unfold seg_ok. cbn [s_root]. split; [exact Hl|]. split; [assumption|]. split; [assumption|].
  unfold in_blk. lia.
Qed.

Lemma put_step_fst sE w : fst (put_step sE w) = fst (s_put (w_a w) (w_b w) (w_smp w) (fst sE)).
Proof. unfold put_step. destruct (s_put _ _ _ _). reflexivity. Qed.

Lemma run_ok K ws : Forall (valid_write K) ws ->
  forall sE, seg_ok K (fst sE) -> seg_ok K (fst (fold_left put_step ws sE)).
Proof.
  induction 1 as [|w ws Hw _ IH]; intros sE Hs; cbn; [exact Hs|].
  apply IH. rewrite put_step_fst. apply s_put_ok; [apply Hw|exact Hs].
Qed.

Lemma run_writes_ok K ws : Forall (valid_write K) ws -> seg_ok K (fst (run_writes ws)).
Proof. intros H. apply run_ok; [exact H|exact I]. Qed.

(* reflection of I_two into the boolean of the model *)
Lemma two_twob : forall lvl n, two lvl n -> sn_twob lvl n = true.
Proof.
  induction lvl as [|l IH]; intros [t p s w ch] [H1 H2]; cbn [sn_twob].
  - destruct (count_some ch <? 2)%nat eqn:E; cbn; [reflexivity|]. rewrite H1 by lia. reflexivity.
  - apply andb_true_intro. split.
    + destruct (count_some ch <? 2)%nat eqn:E; cbn; [reflexivity|]. rewrite H1 by lia. reflexivity.
    + apply forallb_forall. intros o Ho. unfold oall in H2. rewrite Forall_forall in H2.
      specialize (H2 o Ho). destruct o; [apply IH; exact H2|reflexivity].
Qed.

Theorem two_children_present K ws : Forall (valid_write K) ws -> s_twob (fst (run_writes ws)) = true.
Proof.
  intros H. pose proof (run_writes_ok K ws H) as G. unfold seg_ok, s_twob in *.
  destruct (s_root (fst (run_writes ws))) as [[lvl n]|]; [|reflexivity].
  apply two_twob. apply G.
Qed.
