(* Float53Share.v — the binary64 share of an upload of 2..9 slots is exact:
     uint64(float64(n*c) * RN(m/n)) = m*c      for 1 <= m <= n <= 9, n*c < 2^53
   (segment.go:100-101 with samples = n*c, ratio m/n).  False for n = 10 (refutation at the end).

   Idea.  RN(m/n) = F*2^E with n*F = m*2^T + rho, T = -E >= 53, |rho| < n/2 (computed for the 36
   fractions).  float64(n*c) = (n*u)*2^-s exactly, u = c*2^s.  The exact product of the mantissas is
   Q = n*u*F = W + u*rho with W = (m*c)*2^(s+T), a multiple of the rounding grid D = 2^52 or 2^53.
   Rounding Q to the grid returns a multiple V of D with |V - Q| <= D/2; the bounds on u*rho give
   W <= V < W + 2^(s+T), so truncating V / 2^(s+T) yields m*c. *)
From Pyro Require Import Model.Base Model.Float53 Proofs.Float53Proofs.
From Coq Require Import ZifyBool ZifyN.
Local Open Scope Z_scope.

Lemma rne_div_spec Q D : 0 <= Q -> 0 < D -> 2 * Q - D <= 2 * (rne_div Q D * D) <= 2 * Q + D.
Proof.
  intros HQ HD. unfold rne_div.
  pose proof (Z.div_mod Q D ltac:(lia)) as Hdm. pose proof (Z.mod_pos_bound Q D HD) as Hr.
  set (q := Q / D) in *. set (r := Q mod D) in *.
  destruct (2 * r <? D) eqn:E1; [nia|]. destruct (D <? 2 * r) eqn:E2; [nia|].
  destruct (Z.even q); nia.
Qed.

(* rounding an integer of 105 or 106 bits to 53 bits: a multiple of D = 2^(lp-52) *)
Lemma rne53_big Q lp : (lp = 104 \/ lp = 105) -> 2 ^ lp <= Q < 2 ^ (lp + 1) ->
  let r := rne53 Q 1 in
  fm r * 2 ^ fe r = rne_div Q (2 ^ (lp - 52)) * 2 ^ (lp - 52) /\ 52 <= fe r /\ 0 < fm r.
Proof.
  intros Hlp HQ. cbv zeta.
  assert (Hlog : Z.log2 Q = lp) by (apply Z.log2_unique; [lia|]; replace (Z.succ lp) with (lp + 1) by lia; exact HQ).
  assert (He : lp - 52 = 52 \/ lp - 52 = 53) by lia.
  assert (HQ0 : 0 < Q) by (destruct Hlp; subst lp; lia).
  assert (HD : 0 < 2 ^ (lp - 52)) by (apply Z.pow_pos_nonneg; lia).
  pose proof (rne_div_spec Q (2 ^ (lp - 52)) ltac:(lia) HD) as Hs.
  unfold rne53. replace (Q <=? 0) with false by lia. rewrite Hlog. change (Z.log2 1) with 0.
  change (2 ^ 0) with 1. rewrite !Z.mul_1_r, Z.mul_1_l.
  replace (2 ^ lp <=? Q) with true by lia. replace (lp - 0 - 52) with (lp - 52) by lia.
  unfold rne_scaled. replace (0 <=? lp - 52) with true by lia. rewrite Z.mul_1_l.
  set (D := 2 ^ (lp - 52)) in *. set (k := rne_div Q D) in *.
  assert (HDQ : D <= Q) by (unfold D; assert (2 ^ (lp - 52) <= 2 ^ lp) by (apply Z.pow_le_mono_r; lia); lia).
  assert (Hk : 0 < k) by nia.
  destruct (k =? 2 ^ 53) eqn:Ek; cbn [fm fe].
  - assert (Hk53 : k = 2 ^ 53) by lia. rewrite Hk53.
    split; [|split; lia]. unfold D. replace (lp - 52 + 1) with (Z.succ (lp - 52)) by lia.
    rewrite Z.pow_succ_r by lia. lia.
  - split; [reflexivity|]. split; lia.
Qed.

Lemma f53_trunc_div a x y : 0 <= a -> 0 <= x -> 0 <= y ->
  Z.of_N (f53_trunc {| fm := a; fe := x - y |}) = a * 2 ^ x / 2 ^ y.
Proof.
  intros Ha Hx Hy. unfold f53_trunc. cbn [fm fe].
  assert (0 < 2 ^ x) by (apply Z.pow_pos_nonneg; lia). assert (0 < 2 ^ y) by (apply Z.pow_pos_nonneg; lia).
  destruct (0 <=? x - y) eqn:E.
  - assert (0 < 2 ^ (x - y)) by (apply Z.pow_pos_nonneg; lia).
    rewrite Z2N.id by nia. replace (2 ^ x) with (2 ^ (x - y) * 2 ^ y) by (rewrite <- Z.pow_add_r by lia; f_equal; lia).
    rewrite Z.mul_assoc, Z.div_mul by lia. reflexivity.
  - replace (- (x - y)) with (y - x) by lia. assert (0 < 2 ^ (y - x)) by (apply Z.pow_pos_nonneg; lia).
    rewrite Z2N.id by (apply Z.div_pos; lia).
    replace (2 ^ y) with (2 ^ (y - x) * 2 ^ x) by (rewrite <- Z.pow_add_r by lia; f_equal; lia).
    rewrite Z.div_mul_cancel_r by lia. reflexivity.
Qed.

(* nearest multiple of D to j*D + t stays in [j*D, j*D + G) *)
Lemma grid_round D j k t G : 0 < D -> D <= 2 ^ 53 -> 2 ^ 53 <= G ->
  2 * (j * D + t) - D <= 2 * (k * D) <= 2 * (j * D + t) + D ->
  (0 <= t /\ 2 * t < 2 ^ 53) \/ (t < 0 /\ - (2 * t) < D) ->
  j * D <= k * D < j * D + G.
Proof.
  intros HD HD53 HG Hs Ht.
  destruct (Z_lt_le_dec k j) as [Hlt|Hge].
  - exfalso. assert (k * D + D <= j * D) by nia. destruct Ht as [[H1 H2]|[H1 H2]]; lia.
  - destruct (Z_lt_le_dec j k) as [Hgt|Hle].
    + assert (j * D + D <= k * D) by nia. destruct Ht as [[H1 H2]|[H1 H2]]; [lia|exfalso; lia].
    + assert (k = j) by lia. subst k. lia.
Qed.

Lemma rne_div_tie_even Q D j : 0 < D -> 2 * Q = 2 * (j * D) - D -> Z.even j = true -> rne_div Q D = j.
Proof.
  intros HD HQ Hev. unfold rne_div.
  assert (Hdm : Q / D = j - 1 /\ Q mod D = Q - (j - 1) * D).
  { assert (Hq : Q / D = j - 1).
    { symmetry. apply Z.div_unique with (r := Q - (j - 1) * D); [nia|ring]. }
    split; [exact Hq|]. rewrite Z.mod_eq by lia. rewrite Hq. ring. }
  destruct Hdm as [Hq Hr]. rewrite Hq, Hr.
  replace (2 * (Q - (j - 1) * D) <? D) with false by nia.
  replace (D <? 2 * (Q - (j - 1) * D)) with false by nia.
  replace (Z.even (j - 1)) with false; [lia|].
  replace (j - 1) with (Z.pred j) by lia. rewrite Z.even_pred. symmetry.
  rewrite <- Z.negb_even, Hev. reflexivity.
Qed.

Lemma aux_small u r n B : 0 < u -> 0 <= r -> 2 * r < n -> n * u < B -> 0 <= u * r /\ 2 * (u * r) < B.
Proof. intros. split; [nia|]. assert (u * (2 * r) <= u * (n - 1)) by (apply Z.mul_le_mono_nonneg_l; lia). nia. Qed.

(* the conditions on a fraction, decidable: RN(m/n) = F*2^E, T = -E, rho = n*F - m*2^T *)
Definition share_ok (n m : Z) : bool :=
  let f := rne53 m n in
  let F := fm f in let T := - fe f in
  let rho := n * F - m * 2 ^ T in
  (53 <=? T) && (2 ^ 52 <=? F) && (F <? 2 ^ 53) && (2 * Z.abs rho <? n) &&
  ((0 <=? rho) || (- rho * 2 ^ 54 <=? m * 2 ^ T)).

Lemma share_core n m c : 1 <= m -> m < n -> n <= 9 -> share_ok n m = true -> 0 < c -> n * c < 2 ^ 53 ->
  Z.of_N (f53_trunc (f53_mul (rne53 (n * c) 1) (rne53 m n))) = m * c.
Proof.
  intros Hm Hmn Hn9 Hok Hc HN. unfold share_ok in Hok. cbv zeta in Hok.
  set (F := fm (rne53 m n)) in *. set (E := fe (rne53 m n)) in *. set (T := - E) in *.
  set (P := 2 ^ T) in *. set (rho := n * F - m * P) in *.
  repeat (apply andb_prop in Hok; destruct Hok as [Hok ?]).
  assert (HT : 53 <= T) by lia. assert (HF : 2 ^ 52 <= F < 2 ^ 53) by lia.
  assert (Hrho : 2 * Z.abs rho < n) by lia.
  assert (Hcond : 0 <= rho \/ - rho * 2 ^ 54 <= m * P) by lia. clear Hok H H0 H1 H2.
  assert (Hf : rne53 m n = {| fm := F; fe := E |}) by (unfold F, E; destruct (rne53 m n); reflexivity).
  rewrite Hf.
  (* float64(n*c) *)
  assert (HN0 : 0 < n * c < 2 ^ 53) by nia.
  rewrite (rne53_exact _ HN0). pose proof (rne53_exact_mant _ HN0) as Hmant.
  set (lN := Z.log2 (n * c)) in *. set (s := 52 - lN) in *.
  assert (HlN : 0 <= lN) by apply Z.log2_nonneg.
  assert (Hs : 0 <= s) by (assert (lN < 53); [apply Z.log2_lt_pow2; lia|lia]).
  set (u := c * 2 ^ s).
  assert (Hu : n * c * 2 ^ s = n * u) by (unfold u; ring). rewrite Hu in *.
  assert (Hu0 : 0 < u) by (unfold u; assert (0 < 2 ^ s) by (apply Z.pow_pos_nonneg; lia); nia).
  (* the product of the mantissas *)
  unfold f53_mul. cbn [fm fe]. set (Q := n * u * F).
  assert (HQ : 2 ^ 104 <= Q < 2 ^ 106).
  { unfold Q. split.
    - change (2 ^ 104) with (2 ^ 52 * 2 ^ 52). apply Z.mul_le_mono_nonneg; lia.
    - change (2 ^ 106) with (2 ^ 53 * 2 ^ 53). apply Z.mul_lt_mono_nonneg; lia. }
  assert (Hlp : exists lp, (lp = 104 \/ lp = 105) /\ 2 ^ lp <= Q < 2 ^ (lp + 1)).
  { destruct (Z_lt_le_dec Q (2 ^ 105)); [exists 104|exists 105]; split; auto; cbn; lia. }
  destruct Hlp as [lp [Hlp HQlp]].
  destruct (rne53_big Q lp Hlp HQlp) as (HV & Hfe & Hfm). cbv zeta in HV, Hfe, Hfm.
  set (r := rne53 Q 1) in *. replace (fm r =? 0) with false by lia. cbn [fm fe].
  replace (fe r + (lN - 52) + E) with (fe r - (s + T)) by (unfold s, T; lia).
  rewrite f53_trunc_div by lia. rewrite HV.
  set (e := lp - 52) in *. set (D := 2 ^ e) in *. set (k := rne_div Q D) in *.
  assert (HD : D = 2 ^ 52 \/ D = 2 ^ 53) by (unfold D, e; destruct Hlp; subst lp; [left|right]; reflexivity).
  assert (HD0 : 0 < D) by (destruct HD as [-> | ->]; lia).
  pose proof (rne_div_spec Q D ltac:(lia) HD0) as Hspec. fold k in Hspec.
  (* P = D * z, G = 2^s * P *)
  set (z := 2 ^ (T - e)).
  assert (He : 52 <= e <= 53) by (unfold e; destruct Hlp; subst lp; lia).
  assert (HP : P = D * z) by (unfold P, D, z; rewrite <- Z.pow_add_r by lia; f_equal; lia).
  assert (Hz : 0 < z) by (unfold z; apply Z.pow_pos_nonneg; lia).
  set (G := 2 ^ (s + T)).
  assert (HG : G = 2 ^ s * P) by (unfold G, P; apply Z.pow_add_r; lia).
  assert (H2s : 1 <= 2 ^ s) by (assert (0 < 2 ^ s) by (apply Z.pow_pos_nonneg; lia); lia).
  assert (HP53 : 2 ^ 53 <= P) by (unfold P; apply Z.pow_le_mono_r; lia).
  assert (HG53 : 2 ^ 53 <= G).
  { rewrite HG. apply Z.le_trans with (1 * P); [lia|]. apply Z.mul_le_mono_nonneg_r; lia. }
  (* Q = j*D + t *)
  set (j := m * u * z). set (t := u * rho).
  assert (HQjt : Q = j * D + t) by (unfold Q, j, t, rho; rewrite HP; ring).
  assert (HW : m * c * G = j * D) by (unfold j, u; rewrite HG, HP; ring).
  assert (Hnu : n * u < 2 ^ 53) by lia.
  assert (Ht : (0 <= t /\ 2 * t < 2 ^ 53) \/ (t < 0 /\ - (2 * t) < D) \/ (- (2 * t) = D /\ D = 2 ^ 52)).
  { destruct (Z_le_gt_dec 0 rho) as [Hpos|Hneg].
    - left. unfold t. apply (aux_small u rho n (2 ^ 53)); lia.
    - right. assert (Hr2 : 2 * (- rho) < n) by lia.
      assert (Htr : t = - (u * (- rho))) by (unfold t; ring).
      destruct (aux_small u (- rho) n (2 ^ 53) Hu0 ltac:(lia) Hr2 Hnu) as [A1 A2].
      assert (A3 : 0 < u * (- rho)) by (apply Z.mul_pos_pos; lia).
      destruct HD as [HD52|HD53]; [|left; lia].
      (* D = 2^52: Q < 2^105, use the computed condition on the fraction *)
      destruct Hcond as [Hc0|Hc1]; [lia|].
      assert (HQ105 : Q < 2 ^ 105).
      { destruct Hlp as [->| ->]; [cbn in HQlp; lia|]. exfalso. unfold D, e in HD52. cbn in HD52. lia. }
      assert (Hur : u * (- rho) * 2 ^ 54 <= Q + u * (- rho)).
      { assert (Hle : u * (- rho * 2 ^ 54) <= u * (m * P)) by (apply Z.mul_le_mono_nonneg_l; lia).
        assert (HQe : Q = u * (m * P) + u * rho) by (unfold Q, rho; ring).
        replace (u * (- rho * 2 ^ 54)) with (u * (- rho) * 2 ^ 54) in Hle by ring.
        replace (u * rho) with (- (u * (- rho))) in HQe by ring. lia. }
      assert (Hle51 : u * (- rho) <= 2 ^ 51) by lia.
      destruct (Z.eq_dec (u * (- rho)) (2 ^ 51)) as [Heq|Hneq]; [right; lia|left; lia]. }
  rewrite HQjt in Hspec.
  assert (Hbounds : j * D <= k * D < j * D + G).
  { destruct Ht as [Ht|[Ht|[Htie HD52]]].
    - apply (grid_round D j k t G HD0 ltac:(destruct HD as [-> | ->]; lia) HG53 Hspec). left. exact Ht.
    - apply (grid_round D j k t G HD0 ltac:(destruct HD as [-> | ->]; lia) HG53 Hspec). right. exact Ht.
    - (* exact tie between (j-1)*D and j*D: j is even, so the tie goes to j *)
      assert (He52 : e = 52).
      { destruct (Z.eq_dec e 52) as [He52|Hne52]; [exact He52|]. exfalso.
        assert (He53 : e = 53) by lia. unfold D in HD52. rewrite He53 in HD52. cbn in HD52. lia. }
      set (w := T - e - 1). assert (Hw : 0 <= w) by (unfold w; lia).
      assert (Hz2 : z = 2 * 2 ^ w).
      { unfold z. replace (T - e) with (Z.succ w) by (unfold w; lia). apply Z.pow_succ_r. exact Hw. }
      assert (Hev : Z.even j = true).
      { unfold j. rewrite Hz2. replace (m * u * (2 * 2 ^ w)) with (2 * (m * u * 2 ^ w)) by ring.
        rewrite Z.even_mul. reflexivity. }
      assert (Hk : k = j) by (unfold k; apply rne_div_tie_even; [exact HD0|rewrite HQjt; lia|exact Hev]).
      rewrite Hk. lia. }
  destruct Hbounds as [Hlo Hhi].
  fold G. symmetry. apply Z.div_unique with (r := k * D - j * D); [lia|]. rewrite <- HW. ring.
Qed.

Lemma samples_incr_zero m d : samples_incr 0 m d = 0%N.
Proof. unfold samples_incr, f53_of_N. cbn. reflexivity. Qed.

Lemma all_share_ok : forall n m, 1 <= m -> m < n -> n <= 9 -> share_ok n m = true.
Proof.
  intros n m H1 H2 H3.
  assert (Hn : n = 2 \/ n = 3 \/ n = 4 \/ n = 5 \/ n = 6 \/ n = 7 \/ n = 8 \/ n = 9) by lia.
  assert (Hm : m = 1 \/ m = 2 \/ m = 3 \/ m = 4 \/ m = 5 \/ m = 6 \/ m = 7 \/ m = 8) by lia.
  repeat (destruct Hn as [-> | Hn]); try subst n;
    repeat (destruct Hm as [-> | Hm]); try subst m; try lia; vm_compute; reflexivity.
Qed.

Lemma rne53_diag n : 1 <= n <= 9 -> rne53 n n = rne53 1 1.
Proof.
  intros H. assert (Hn : n = 1 \/ n = 2 \/ n = 3 \/ n = 4 \/ n = 5 \/ n = 6 \/ n = 7 \/ n = 8 \/ n = 9) by lia.
  repeat (destruct Hn as [-> | Hn]); try subst n; vm_compute; reflexivity.
Qed.

(* uint64(float64(n*c) * RN(m/n)) = m*c *)
Theorem share_exact_small_span : forall (n m : Z) (c : N), 1 <= m <= n -> n <= 9 ->
  (Z.to_N n * c < 2 ^ 53)%N -> samples_incr (Z.to_N n * c) m n = (Z.to_N m * c)%N.
Proof.
  intros n m c Hmn Hn9 HN.
  destruct (N.eq_dec c 0) as [->|Hc0]; [rewrite !N.mul_0_r; apply samples_incr_zero|].
  destruct (Z.eq_dec m n) as [->|Hne].
  - unfold samples_incr, f53_of_rat. rewrite rne53_diag by lia.
    exact (samples_incr_one (Z.to_N n * c) HN).
  - unfold samples_incr, f53_of_N, f53_of_rat.
    replace (Z.of_N (Z.to_N n * c)) with (n * Z.of_N c) by lia.
    apply N2Z.inj. rewrite (share_core n m (Z.of_N c)); try lia.
    apply all_share_ok; lia.
Qed.

(* not so for n = 10: a 10-slot upload of 90 samples with 7 slots in a bucket adds 62, not 63 *)
Example share_exact_span10_refuted : samples_incr 90 7 10 = 62%N /\ (Z.to_N 7 * 9 = 63)%N.
Proof. split; vm_compute; reflexivity. Qed.
