(* StorageCachedProofs.v — the cached storage (Model/StorageCached.v) refines the storage over plain maps:
   every client step commutes with the abstraction "what a Get of the key would return", every maintenance step
   replaces the abstract value of the evicted keys by their reloaded form; tree-a's storage_reload_transparent
   (Proofs/C02StorageReload.v) then gives C02_refines for the trees cache. *)
From Coq Require Import List Arith ZArith NArith Bool Lia.
From Pyro Require Import Model.Base Model.Tree Model.TreeCodec Model.Lfu Model.Cache Proofs.CacheProofs.
From Pyro Require Import Model.Segment Model.Timeline Model.Storage Model.StorageCached.
From Pyro Require Import Proofs.StorageProofs Proofs.TreeReloadProofs Proofs.C02StorageReload.
Import ListNotations.

Notation lf := (l_find tkey_dec).

(* ---------- the LFU as a finite map ---------- *)
Lemma lf_upd : forall k e k' (l : lfu (K:=tkey) (V:=tnode)),
  lf k' (l_upd tkey_dec k e l) = match lf k' l with Some x => if tkey_dec k k' then Some e else Some x | None => None end.
Proof.
  induction l as [|[k1 e1] l IH]; cbn; [reflexivity|].
  destruct (tkey_dec k k1) as [->|N]; cbn.
  - destruct (tkey_dec k' k1) as [->|N']; [destruct (tkey_dec k1 k1); congruence|]. exact IH.
  - destruct (tkey_dec k' k1) as [->|N']; [destruct (tkey_dec k k1); congruence|]. exact IH.
Qed.

Lemma lf_app : forall k' k e (l : lfu (K:=tkey) (V:=tnode)),
  lf k' (l ++ [(k, e)]) = match lf k' l with Some x => Some x | None => if tkey_dec k' k then Some e else None end.
Proof.
  induction l as [|[k1 e1] l IH]; cbn; [reflexivity|].
  destruct (tkey_dec k' k1); [reflexivity | exact IH].
Qed.

Lemma lf_remove : forall k k' (l : lfu (K:=tkey) (V:=tnode)),
  lf k' (l_remove tkey_dec k l) = if tkey_dec k' k then None else lf k' l.
Proof.
  induction l as [|[k1 e1] l IH]; cbn; [destruct (tkey_dec k' k); reflexivity|].
  destruct (tkey_dec k k1) as [->|N].
  - rewrite IH. destruct (tkey_dec k' k1); reflexivity.
  - cbn. destruct (tkey_dec k' k1) as [->|N']; [destruct (tkey_dec k1 k); congruence | exact IH].
Qed.

Lemma remove_keys_incl : forall k (l : lfu (K:=tkey) (V:=tnode)) x, In x (map fst (l_remove tkey_dec k l)) -> In x (map fst l).
Proof.
  induction l as [|[k1 e1] l IH]; cbn; [tauto|]. intros x. destruct (tkey_dec k k1); cbn; intuition.
Qed.

Lemma remove_nodup : forall k (l : lfu (K:=tkey) (V:=tnode)), NoDup (map fst l) -> NoDup (map fst (l_remove tkey_dec k l)).
Proof.
  induction l as [|[k1 e1] l IH]; cbn; intros H; [constructor|]. inversion H; subst.
  destruct (tkey_dec k k1); cbn; [auto|]. constructor; [|auto]. intros Hi. apply H2. eapply remove_keys_incl; eauto.
Qed.

Lemma nodup_snoc : forall (l : list tkey) x, NoDup l -> ~ In x l -> NoDup (l ++ [x]).
Proof.
  induction l as [|a l IH]; cbn; intros x H N; [constructor; [tauto | constructor]|].
  inversion H; subst. constructor.
  - rewrite in_app_iff. cbn. intros [Hi|[->|[]]]; tauto.
  - apply IH; tauto.
Qed.

(* ---------- what a Get of the key would return ---------- *)
Definition vget (c : tcache) (k : tkey) : tnode :=
  match lf k (c_lfu c) with
  | Some e => e_val e
  | None => match c_disk c k with Some d => d | None => t_empty end
  end.

Definition noP (c : tcache) : Prop := forall k e, In (k, e) (c_lfu c) -> e_pers e = false.

Definition cwf (c : tcache) : Prop :=
  c_evq c = [] /\ c_wbq c = [] /\ noP c /\ NoDup (map fst (c_lfu c)).

Lemma cwf_empty : cwf (c_empty (K:=tkey) (V:=tnode) (D:=tnode)).
Proof. repeat split; cbn; auto. intros k e []. constructor. Qed.

Lemma read_spec : forall k c c' v, cwf c -> c_read k c = (c', v) ->
  v = vget c k /\ cwf c' /\ forall k', vget c' k' = vget c k'.
Proof.
  intros k c c' v (E & W & NP & ND) H. unfold c_read, ct_step in H. cbn [Cache.step] in H. unfold l_get in H.
  destruct (lf k (c_lfu c)) as [e|] eqn:F.
  - inversion H; subst; clear H. split; [unfold vget; rewrite F; reflexivity|]. split.
    + repeat split; cbn; auto.
      * intros k0 e0 Hi. apply In_upd in Hi. destruct Hi as [(_ & ->)|(_ & Hi)]; [reflexivity | eapply NP; eauto].
      * rewrite upd_keys. exact ND.
    + intros k'. unfold vget. cbn [c_lfu c_disk]. rewrite lf_upd.
      destruct (lf k' (c_lfu c)) as [x|] eqn:F'; [|reflexivity].
      destruct (tkey_dec k k') as [<-|N]; [|reflexivity]. cbn. congruence.
  - inversion H; subst; clear H. unfold ct_dec.
    set (v0 := match c_disk c k with Some d => d | None => ct_dflt k end).
    assert (V0 : v0 = vget c k) by (unfold v0, vget, ct_dflt; rewrite F; reflexivity).
    split; [exact V0|]. unfold l_set. rewrite F. split.
    + repeat split; cbn; auto.
      * intros k0 e0 Hi. apply in_app_or in Hi. destruct Hi as [Hi|[Hi|[]]]; [eapply NP; eauto | inversion Hi; reflexivity].
      * rewrite map_app. cbn. apply nodup_snoc; [exact ND|]. apply (l_find_none tkey_dec). exact F.
    + intros k'. unfold vget at 1. cbn [c_lfu c_disk]. rewrite lf_app.
      destruct (lf k' (c_lfu c)) as [x|] eqn:F'; [unfold vget; rewrite F'; reflexivity|].
      destruct (tkey_dec k' k) as [->|N]; [cbn; exact V0 | unfold vget; rewrite F'; reflexivity].
Qed.

Lemma put_spec : forall k v c, cwf c ->
  cwf (c_put k v c) /\ forall k', vget (c_put k v c) k' = if tkey_dec k' k then v else vget c k'.
Proof.
  intros k v c (E & W & NP & ND). unfold c_put, ct_step. cbn [Cache.step fst]. unfold l_set.
  destruct (lf k (c_lfu c)) as [e|] eqn:F.
  - split.
    + repeat split; cbn; auto.
      * intros k0 e0 Hi. apply In_upd in Hi. destruct Hi as [(_ & ->)|(_ & Hi)]; [reflexivity | eapply NP; eauto].
      * rewrite upd_keys. exact ND.
    + intros k'. unfold vget. cbn [c_lfu c_disk]. rewrite lf_upd.
      destruct (tkey_dec k' k) as [->|N].
      * rewrite F. destruct (tkey_dec k k); [reflexivity | congruence].
      * destruct (lf k' (c_lfu c)); [|reflexivity]. destruct (tkey_dec k k'); [congruence | reflexivity].
  - split.
    + repeat split; cbn; auto.
      * intros k0 e0 Hi. apply in_app_or in Hi. destruct Hi as [Hi|[Hi|[]]]; [eapply NP; eauto | inversion Hi; reflexivity].
      * rewrite map_app. cbn. apply nodup_snoc; [exact ND|]. apply (l_find_none tkey_dec). exact F.
    + intros k'. unfold vget. cbn [c_lfu c_disk]. rewrite lf_app.
      destruct (tkey_dec k' k) as [->|N]; [rewrite F; reflexivity|].
      destruct (lf k' (c_lfu c)); reflexivity.
Qed.

Lemma del_spec : forall k c, cwf c ->
  cwf (c_del k c) /\ forall k', vget (c_del k c) k' = if tkey_dec k' k then t_empty else vget c k'.
Proof.
  intros k c (E & W & NP & ND). unfold c_del, ct_step. cbn [Cache.step fst]. unfold l_delete. split.
  - repeat split; cbn; auto.
    + intros k0 e0 Hi. apply In_remove in Hi. destruct Hi. eapply NP; eauto.
    + apply remove_nodup. exact ND.
  - intros k'. unfold vget. cbn [c_lfu c_disk]. rewrite lf_remove. unfold d_set.
    destruct (tkey_dec k' k); reflexivity.
Qed.

Lemma reads_spec : forall keys c c' vs, cwf c -> c_reads keys c = (c', vs) ->
  vs = map (vget c) keys /\ cwf c' /\ forall k', vget c' k' = vget c k'.
Proof.
  induction keys as [|k r IH]; intros c c' vs Hc H; cbn in H.
  - inversion H; subst. auto.
  - destruct (c_read k c) as [c1 v] eqn:R. destruct (c_reads r c1) as [c2 vs'] eqn:RS. inversion H; subst; clear H.
    destruct (read_spec k c _ _ Hc R) as (-> & Hc1 & V1). destruct (IH _ _ _ Hc1 RS) as (-> & Hc2 & V2).
    split; [cbn; f_equal; apply map_ext; intros; apply V1|]. split; [exact Hc2|]. intros k'. rewrite V2. apply V1.
Qed.

(* ---------- Put ---------- *)
Definition agrees (c : tcache) (trees : list (tkey * tnode)) : Prop := forall key, vget c key = tree_get key trees.

Lemma tkey_dec_eqb : forall a b, (if tkey_dec a b then true else false) = tkey_eqb a b.
Proof.
  intros a b. destruct (tkey_dec a b) as [->|N]; [symmetry; apply tkey_eqb_refl | symmetry; apply tkey_eqb_false; exact N].
Qed.

Lemma addons_spec : forall k trees addons c cl c' cl', cwf c -> agrees c trees ->
  fold_left (c_addon k) addons (c, cl) = (c', cl') ->
  cl' = fold_left (fun cl a => t_merge cl (tree_get (k, fst a, snd a) trees)) addons cl /\ cwf c' /\ agrees c' trees.
Proof.
  induction addons as [|a r IH]; intros c cl c' cl' Hc Ha H; cbn in H.
  - inversion H; subst. auto.
  - unfold c_addon at 2 in H. cbn [fst snd] in H.
    destruct (c_read (k, fst a, snd a) c) as [c1 v] eqn:R.
    destruct (read_spec _ c _ _ Hc R) as (-> & Hc1 & V1).
    assert (Ha1 : agrees c1 trees) by (intros key; rewrite V1; apply Ha).
    destruct (IH _ _ _ _ Hc1 Ha1 H) as (-> & Hc' & Ha'). rewrite (Ha (k, fst a, snd a)). cbn [fold_left]. auto.
Qed.

Lemma put_cb_spec : forall k prof c trees cb, cwf c -> agrees c trees ->
  cwf (c_put_cb k prof c cb) /\ agrees (c_put_cb k prof c cb) (put_cb_apply k prof trees cb).
Proof.
  intros k prof c trees cb Hc Ha. unfold c_put_cb, put_cb_apply.
  destruct (c_read (k, pc_lvl cb, pc_t cb) c) as [c1 cached] eqn:R.
  destruct (read_spec _ c _ _ Hc R) as (-> & Hc1 & V1).
  assert (Ha1 : agrees c1 trees) by (intros key; rewrite V1; apply Ha).
  destruct (fold_left (c_addon k) (pc_addons cb) (c1, t_clone (Z.to_N (pc_m cb)) (Z.to_N (pc_d cb)) prof)) as [c2 clone'] eqn:F.
  destruct (addons_spec k trees _ _ _ _ _ Hc1 Ha1 F) as (-> & Hc2 & Ha2).
  destruct (put_spec (k, pc_lvl cb, pc_t cb)
              (t_merge (vget c (k, pc_lvl cb, pc_t cb))
                 (fold_left (fun cl a => t_merge cl (tree_get (k, fst a, snd a) trees)) (pc_addons cb)
                    (t_clone (Z.to_N (pc_m cb)) (Z.to_N (pc_d cb)) prof))) c2 Hc2) as [Hc3 V3].
  split; [exact Hc3|]. intros key. rewrite V3, tree_get_store, <- tkey_dec_eqb.
  destruct (tkey_dec key (k, pc_lvl cb, pc_t cb)); [rewrite (Ha (k, pc_lvl cb, pc_t cb)); reflexivity | apply Ha2].
Qed.

Lemma put_cbs_spec : forall k prof cbs c trees, cwf c -> agrees c trees ->
  cwf (fold_left (c_put_cb k prof) cbs c) /\
  agrees (fold_left (c_put_cb k prof) cbs c) (fold_left (put_cb_apply k prof) cbs trees).
Proof.
  induction cbs as [|cb r IH]; intros c trees Hc Ha; cbn; [auto|].
  destruct (put_cb_spec k prof c trees cb Hc Ha) as [Hc1 Ha1]. apply IH; assumption.
Qed.

(* ---------- the relation between a cached state and a plain state ---------- *)
Definition repr (cst : cst_state) (st : st_state) : Prop :=
  cs_segs cst = st_segs st /\ cwf (cs_trees cst) /\ agrees (cs_trees cst) (st_trees st).

Lemma repr_init : repr cst_init st_init.
Proof. split; [reflexivity|]. split; [apply cwf_empty|]. intros key. reflexivity. Qed.

Lemma put_sim : forall rt pi cst st, repr cst st ->
  repr (fst (cst_put rt pi cst)) (fst (st_put rt pi st)) /\ snd (cst_put rt pi cst) = snd (st_put rt pi st).
Proof.
  intros rt pi cst st (Hs & Hc & Ha).
  assert (G : repr (fst (cst_put_go pi cst)) (fst (st_put None pi st)) /\ snd (cst_put_go pi cst) = snd (st_put None pi st)).
  { unfold cst_put_go, st_put. rewrite Hs.
    destruct (s_put_unix (pi_from pi) (pi_until pi) (t_total (pi_tree pi))
                (s_set_meta (pi_meta pi) match seg_lookup (pi_sid pi) (st_segs st) with Some s => s | None => Segment.s_empty end))
      as [seg' cbs]. cbn [fst snd].
    destruct (put_cbs_spec (sid_key (pi_sid pi)) (pi_tree pi) cbs _ _ Hc Ha) as [Hc' Ha'].
    split; [|reflexivity]. split; [reflexivity|]. split; assumption. }
  destruct rt as [thr|]; cbn [cst_put].
  - unfold st_put. destruct (pi_from pi <? thr)%Z eqn:E.
    + cbn. split; [split; [exact Hs|split; assumption] | reflexivity].
    + unfold st_put in G. exact G.
  - exact G.
Qed.

(* ---------- Get ---------- *)
Lemma get_parts_items : forall a b matching trees,
  get_parts a b matching trees = map (fun kc => item_part kc (tree_get (item_key kc) trees)) (get_items a b matching).
Proof.
  intros a b matching trees. unfold get_parts, get_items.
  induction matching as [|ks l IH]; [reflexivity|].
  cbn [flat_map]. rewrite map_app, IH, map_map. reflexivity.
Qed.

Lemma combine_map : forall {A B C} (f : A -> B) (g : A -> B -> C) (l : list A),
  map (fun iv => g (fst iv) (snd iv)) (combine l (map f l)) = map (fun x => g x (f x)) l.
Proof. intros A B C f g l. induction l as [|x l IH]; cbn; [reflexivity | rewrite IH; reflexivity]. Qed.

Lemma get_sim : forall sel from until cst st, repr cst st ->
  repr (fst (cst_get sel from until cst)) st /\ snd (cst_get sel from until cst) = st_get sel from until st.
Proof.
  intros sel from until cst st (Hs & Hc & Ha). rewrite st_get_eq. unfold cst_get, st_matching.
  destruct (s_normalize_unix (from, until)) as [a b]. cbn [fst snd]. rewrite Hs.
  set (matching := filter (fun ks => sel_matches sel (fst ks)) (st_segs st)).
  destruct (c_reads (map item_key (get_items a b matching)) (cs_trees cst)) as [c' vals] eqn:R.
  destruct (reads_spec _ _ _ _ Hc R) as (-> & Hc' & V). cbn [fst snd]. split.
  - split; [reflexivity|]. split; [exact Hc'|]. intros key. cbn. rewrite V. apply Ha.
  - rewrite map_map.
    rewrite (combine_map (fun x => vget (cs_trees cst) (item_key x)) item_part).
    rewrite get_parts_items.
    replace (map (fun x => item_part x (vget (cs_trees cst) (item_key x))) (get_items a b matching))
      with (map (fun kc => item_part kc (tree_get (item_key kc) (st_trees st))) (get_items a b matching))
      by (apply map_ext; intros x; rewrite Ha; reflexivity).
    reflexivity.
Qed.

(* ---------- Delete, DeleteDataBefore ---------- *)
Lemma tree_get_remove : forall k l k', tree_get k' (tree_remove k l) = if tkey_eqb k k' then t_empty else tree_get k' l.
Proof. intros. unfold tree_get. rewrite tree_lookup_remove. destruct (tkey_eqb k k'); reflexivity. Qed.

Lemma del_cbs_spec : forall k cbs c trees, cwf c -> agrees c trees ->
  cwf (c_del_cbs k cbs c) /\
  agrees (c_del_cbs k cbs c) (fold_left (fun tr cb => tree_remove (k, fst cb, snd cb) tr) cbs trees).
Proof.
  unfold c_del_cbs. induction cbs as [|cb r IH]; intros c trees Hc Ha; cbn [fold_left]; [auto|].
  destruct (del_spec (k, fst cb, snd cb) c Hc) as [Hc1 V1]. apply IH; [exact Hc1|].
  intros key. rewrite V1, tree_get_remove, <- tkey_dec_eqb.
  destruct (tkey_dec key (k, fst cb, snd cb)) as [->|N].
  - destruct (tkey_dec (k, fst cb, snd cb) (k, fst cb, snd cb)); [reflexivity | congruence].
  - destruct (tkey_dec (k, fst cb, snd cb) key); [congruence | apply Ha].
Qed.

Lemma delete_series_sim : forall cst st ks, repr cst st -> repr (cst_delete_series cst ks) (st_delete_series st ks).
Proof.
  intros cst st ks (Hs & Hc & Ha). unfold cst_delete_series, st_delete_series.
  destruct (s_delete_before_unix max_time_unix (snd ks)) as [[seg' cbs] del].
  destruct (del_cbs_spec (sid_key (fst ks)) cbs _ _ Hc Ha) as [Hc' Ha'].
  split; [cbn; rewrite Hs; reflexivity|]. split; assumption.
Qed.

Lemma fold_sim : forall {A} (f : cst_state -> A -> cst_state) (g : st_state -> A -> st_state) (l : list A),
  (forall cst st x, repr cst st -> repr (f cst x) (g st x)) ->
  forall cst st, repr cst st -> repr (fold_left f l cst) (fold_left g l st).
Proof. intros A f g l H. induction l as [|x r IH]; intros cst st R; cbn; [exact R | apply IH, H, R]. Qed.

Lemma delete_sim : forall sel cst st, repr cst st -> repr (cst_delete sel cst) (st_delete sel st).
Proof.
  intros sel cst st R. unfold cst_delete, st_delete. destruct R as (Hs & Hc & Ha). rewrite Hs.
  apply fold_sim; [intros; apply delete_series_sim; assumption|]. split; [exact Hs|split; assumption].
Qed.

Lemma retention_series_sim : forall thr cst st ks, repr cst st ->
  repr (cst_retention_series thr cst ks) (st_retention_series thr st ks).
Proof.
  intros thr cst st ks (Hs & Hc & Ha). unfold cst_retention_series, st_retention_series.
  destruct (s_delete_before_unix thr (snd ks)) as [[seg' cbs] del].
  destruct (del_cbs_spec (sid_key (fst ks)) cbs _ _ Hc Ha) as [Hc' Ha'].
  destruct del; (split; [cbn; rewrite Hs; reflexivity|]; split; assumption).
Qed.

Lemma retention_sim : forall thr cst st, repr cst st -> repr (cst_retention thr cst) (st_retention thr st).
Proof.
  intros thr cst st R. unfold cst_retention, st_retention. destruct R as (Hs & Hc & Ha). rewrite Hs.
  apply fold_sim; [intros; apply retention_series_sim; assumption|]. split; [exact Hs|split; assumption].
Qed.

(* every storage operation commutes with the abstraction; the outputs are EQUAL *)
Theorem step_commutes : forall rt o cst st, repr cst st ->
  repr (fst (cst_step rt cst o)) (fst (st_step rt st o)) /\ snd (cst_step rt cst o) = snd (st_step rt st o).
Proof.
  intros rt o cst st R. destruct o as [pi|sel f u|sel|thr]; cbn [cst_step st_step].
  - destruct (put_sim rt pi cst st R) as [R' E].
    destruct (cst_put rt pi cst) as [cst' ok]. destruct (st_put rt pi st) as [st' ok']. cbn in *. subst. auto.
  - destruct (get_sim sel f u cst st R) as [R' E].
    destruct (cst_get sel f u cst) as [cst' r]. cbn in *. subst. auto.
  - split; [apply delete_sim; exact R | reflexivity].
  - split; [apply retention_sim; exact R | reflexivity].
Qed.

(* ---------- maintenance: evicted keys are replaced by their reloaded form ---------- *)
Fixpoint qf (k : tkey) (q : list (tkey * tnode)) : option tnode :=
  match q with [] => None | (k1, v) :: q' => if tkey_dec k k1 then Some v else qf k q' end.

Lemma qf_none : forall k q, qf k q = None -> ~ In k (map fst q).
Proof.
  induction q as [|[k1 v] q IH]; cbn; [tauto|]. destruct (tkey_dec k k1); [discriminate|].
  intros H [E|E]; [congruence | exact (IH H E)].
Qed.

Lemma complete_nodup : forall q (d : disk (K:=tkey) (D:=tnode)) k, NoDup (map fst q) ->
  complete tkey_dec ct_enc q d k = match qf k q with Some v => Some (ct_enc k v) | None => d k end.
Proof.
  induction q as [|[k1 v1] q IH]; intros d k ND; [reflexivity|].
  cbn [map fst] in ND. inversion ND; subst.
  unfold complete. cbn [fold_left]. fold (complete tkey_dec ct_enc q (save tkey_dec ct_enc (k1, v1) d)).
  rewrite IH by assumption. cbn [qf]. unfold save, d_set. cbn [fst snd].
  destruct (tkey_dec k k1) as [->|N].
  - destruct (qf k1 q) eqn:Q; [|reflexivity]. exfalso. apply H1.
    clear - Q. induction q as [|[k2 v2] q IH]; cbn in *; [discriminate|].
    destruct (tkey_dec k1 k2); [left; congruence | right; auto].
  - reflexivity.
Qed.

Lemma drain_spec : forall n (c : tcache),
  snd (ct_run c (repeat (OSaveCompletes false) n)) =
  mkC (c_lfu c) (complete tkey_dec ct_enc (firstn n (c_evq c)) (c_disk c)) (skipn n (c_evq c)) (c_wbq c).
Proof.
  induction n as [|n IH]; intros c; [destruct c; reflexivity|].
  cbn [repeat]. unfold ct_run in *. cbn [Cache.run Cache.step].
  destruct (c_evq c) as [|kv q] eqn:E.
  - specialize (IH c). destruct (Cache.run tkey_dec ct_dflt ct_enc ct_dec c (repeat (OSaveCompletes false) n)) as [xs c2].
    cbn [snd] in *. rewrite IH, E. destruct n; reflexivity.
  - specialize (IH (mkC (c_lfu c) (save tkey_dec ct_enc kv (c_disk c)) q (c_wbq c))).
    destruct (Cache.run tkey_dec ct_dflt ct_enc ct_dec (mkC (c_lfu c) (save tkey_dec ct_enc kv (c_disk c)) q (c_wbq c))
                (repeat (OSaveCompletes false) n)) as [xs c2].
    cbn [snd] in *. rewrite IH. reflexivity.
Qed.

Definition noPl (l : lfu (K:=tkey) (V:=tnode)) : Prop := forall k e, In (k, e) l -> e_pers e = false.

Lemma evict_exact : forall order count l l' sends, noPl l -> NoDup (map fst l) ->
  l_evict tkey_dec order count l = Some (l', sends) ->
  noPl l' /\ NoDup (map fst l') /\ NoDup (map fst sends) /\
  forall k, (qf k sends = None /\ lf k l' = lf k l) \/
            (exists e, lf k l = Some e /\ lf k l' = None /\ qf k sends = Some (e_val e)).
Proof.
  induction order as [|k0 order IH]; intros count l l' sends NP ND H.
  - destruct count; cbn in H; [|discriminate]. inversion H; subst. split; [exact NP|]. split; [exact ND|]. split; [constructor|]. intros k; left; auto.
  - destruct count; cbn in H.
    + inversion H; subst. split; [exact NP|]. split; [exact ND|]. split; [constructor|]. intros k; left; auto.
    + destruct (lf k0 l) as [e0|] eqn:E0; [|discriminate].
      destruct (Nat.eqb (e_freq e0) (l_minfreq l)); [|discriminate].
      destruct (l_evict tkey_dec order count (l_remove tkey_dec k0 l)) as [[l1 s1]|] eqn:E1; [|discriminate].
      inversion H; subst; clear H.
      assert (P0 : e_pers e0 = false) by (eapply NP; eapply l_find_In; eauto).
      rewrite P0.
      assert (NP1 : noPl (l_remove tkey_dec k0 l)).
      { intros k e Hi. apply In_remove in Hi. destruct Hi. eapply NP; eauto. }
      destruct (IH _ _ _ _ NP1 (remove_nodup k0 l ND) E1) as (A & B & C & D).
      assert (Q0 : qf k0 s1 = None /\ lf k0 l' = None).
      { destruct (D k0) as [[Q L]|(e & L & _)]; rewrite lf_remove in L; destruct (tkey_dec k0 k0); try congruence; auto. }
      destruct Q0 as [Q0 L0].
      repeat split; auto.
      * cbn [map fst]. constructor; [apply qf_none; exact Q0 | exact C].
      * intros k. cbn [qf]. destruct (tkey_dec k k0) as [->|N].
        -- right. exists e0. auto.
        -- destruct (D k) as [[Q L]|(e & L & L' & Q)]; rewrite lf_remove in L; destruct (tkey_dec k k0); try congruence.
           ++ left. auto.
           ++ right. exists e. auto.
Qed.

Lemma t_reload_empty : t_reload t_empty = t_empty.
Proof. reflexivity. Qed.

Lemma tree_get_reload : forall sel key l,
  tree_get key (map (reload_entry sel) l) = if sel key then t_reload (tree_get key l) else tree_get key l.
Proof.
  intros sel key l. unfold tree_get.
  assert (H : tree_lookup key (map (reload_entry sel) l) =
              option_map (fun t => if sel key then t_reload t else t) (tree_lookup key l)).
  { induction l as [|[k0 t0] l IH]; [reflexivity|]. cbn [map]. unfold reload_entry at 1. cbn [fst snd].
    destruct (sel k0) eqn:S0; cbn [tree_lookup]; destruct (tkey_eqb key k0) eqn:E; try exact IH;
      apply tkey_eqb_true in E; subst; cbn; rewrite S0; reflexivity. }
  rewrite H. destruct (tree_lookup key l); cbn; [reflexivity|]. destruct (sel key); [symmetry; apply t_reload_empty | reflexivity].
Qed.

Lemma qf_flush : forall k (l : lfu (K:=tkey) (V:=tnode)), noPl l -> qf k (flush_sends l) = option_map (@e_val tnode) (lf k l).
Proof.
  induction l as [|[k1 e1] l IH]; intros NP; [reflexivity|].
  assert (P1 : e_pers e1 = false) by (apply (NP k1); left; reflexivity).
  unfold flush_sends. cbn [filter snd]. rewrite P1. cbn [negb map fst snd qf l_find].
  destruct (tkey_dec k k1); [reflexivity|]. apply IH. intros k0 e0 Hi. eapply NP. right. exact Hi.
Qed.

Lemma flush_keys : forall (l : lfu (K:=tkey) (V:=tnode)), noPl l -> map fst (flush_sends l) = map fst l.
Proof.
  induction l as [|[k1 e1] l IH]; intros NP; [reflexivity|].
  assert (P1 : e_pers e1 = false) by (apply (NP k1); left; reflexivity).
  unfold flush_sends. cbn [filter snd]. rewrite P1. cbn [negb map fst]. f_equal. apply IH.
  intros k0 e0 Hi. eapply NP. right. exact Hi.
Qed.

Theorem maint_sim : forall m cst st, repr cst st -> exists sel, repr (cst_maint m cst) (st_reload sel st).
Proof.
  intros m cst st (Hs & (E & W & NP & ND) & Ha). destruct m as [num den order|].
  - (* Evict + completion of its saves *)
    unfold cst_maint. cbn [lower1]. unfold ct_run. cbn [Cache.run]. 
    assert (Same : exists sel, repr {| cs_segs := cs_segs cst;
                     cs_trees := snd (ct_run (cs_trees cst) (repeat (OSaveCompletes false) (length order))) |} (st_reload sel st)).
    { exists (fun _ => false). rewrite drain_spec, E. rewrite firstn_nil, skipn_nil. cbn [complete fold_left].
      split; [exact Hs|]. split; [repeat split; cbn; auto|].
      intros key. unfold st_reload. cbn [st_trees]. rewrite tree_get_reload. unfold vget. cbn [c_lfu c_disk]. apply Ha. }
    cbn [Cache.step]. destruct den as [|den'].
    { destruct Same as [sel R]. exists sel. unfold ct_run in R.
      destruct (Cache.run tkey_dec ct_dflt ct_enc ct_dec (cs_trees cst) (repeat (OSaveCompletes false) (length order))); exact R. }
    destruct (l_evict tkey_dec order (l_len (c_lfu (cs_trees cst)) * num / S den') (c_lfu (cs_trees cst))) as [[l' sends]|] eqn:EV.
    2:{ destruct Same as [sel R]. exists sel. unfold ct_run in R.
        destruct (Cache.run tkey_dec ct_dflt ct_enc ct_dec (cs_trees cst) (repeat (OSaveCompletes false) (length order))); exact R. }
    destruct (evict_exact _ _ _ _ _ NP ND EV) as (NP' & ND' & NDs & D).
    pose proof (drain_spec (length order) (mkC l' (c_disk (cs_trees cst)) (c_evq (cs_trees cst) ++ sends) (c_wbq (cs_trees cst)))) as DS.
    unfold ct_run in DS.
    destruct (Cache.run tkey_dec ct_dflt ct_enc ct_dec
                (mkC l' (c_disk (cs_trees cst)) (c_evq (cs_trees cst) ++ sends) (c_wbq (cs_trees cst)))
                (repeat (OSaveCompletes false) (length order))) as [xs c2].
    cbn [snd] in *. subst c2. cbn [c_lfu c_disk c_evq c_wbq]. rewrite E. cbn [app].
    assert (LEN : (length sends <= length order)%nat) by (eapply (evict_len tkey_dec); eauto).
    rewrite firstn_all2, skipn_all2 by exact LEN.
    exists (fun k => match qf k sends with Some _ => true | None => false end).
    split; [exact Hs|]. split; [repeat split; cbn; auto|].
    intros key. unfold st_reload. cbn [st_trees cs_trees]. rewrite tree_get_reload. unfold vget at 1. cbn [c_lfu c_disk].
    rewrite complete_nodup by exact NDs.
    destruct (D key) as [[Q L]|(e & L & L' & Q)]; rewrite Q.
    + rewrite L. apply Ha.
    + rewrite L'. rewrite <- (Ha key). unfold vget. rewrite L. reflexivity.
  - (* Flush + reopen *)
    unfold cst_maint. cbn [lower1]. unfold ct_run. cbn [Cache.run Cache.step snd]. rewrite E, W. cbn [complete fold_left].
    fold (complete tkey_dec ct_enc (flush_sends (c_lfu (cs_trees cst))) (c_disk (cs_trees cst))).
    exists (fun k => match lf k (c_lfu (cs_trees cst)) with Some _ => true | None => false end).
    split; [exact Hs|]. split; [repeat split; cbn; auto; [intros k e [] | constructor]|].
    intros key. unfold st_reload. cbn [st_trees cs_trees]. rewrite tree_get_reload. unfold vget at 1. cbn [c_lfu c_disk l_find].
    rewrite complete_nodup by (rewrite flush_keys by exact NP; exact ND).
    rewrite qf_flush by exact NP. rewrite <- (Ha key). unfold vget.
    destruct (lf key (c_lfu (cs_trees cst))); reflexivity.
Qed.

(* ---------- histories ---------- *)
Lemma c_run_sim : forall rt h cst st, repr cst st ->
  exists pops, strip pops = cstrip h /\ (Forall ok_op (cstrip h) -> Forall ok_pop pops) /\
               snd (c_run rt h cst) = snd (p_run rt pops st).
Proof.
  induction h as [|x h IH]; intros cst st R.
  - exists []. repeat split; auto.
  - destruct x as [o|m].
    + destruct (step_commutes rt o cst st R) as [R' E].
      destruct (IH _ _ R') as (pops & S & OK & OUT).
      exists (PO o :: pops).
      change (strip (PO o :: pops)) with (o :: strip pops). change (cstrip (CO o :: h)) with (o :: cstrip h).
      split; [rewrite S; reflexivity|]. split.
      * intros H. inversion H; subst. constructor; [assumption | auto].
      * cbn [c_run p_run]. destruct (cst_step rt cst o) as [cst1 out]. destruct (st_step rt st o) as [st1 out'].
        cbn [fst snd] in *. subst out'.
        destruct (c_run rt h cst1) as [cst2 outs]. destruct (p_run rt pops st1) as [st2 outs']. cbn [snd] in *. congruence.
    + destruct (maint_sim m cst st R) as [sel R'].
      destruct (IH _ _ R') as (pops & S & OK & OUT).
      exists (PReload sel :: pops).
      change (strip (PReload sel :: pops)) with (strip pops). change (cstrip (CM m :: h)) with (cstrip h).
      split; [exact S|]. split.
      * intros H. constructor; [exact I | auto].
      * cbn [c_run p_run]. exact OUT.
Qed.

(* C02_refines for the trees cache (segments plain): maintenance steps inserted anywhere are invisible — Put results,
   timelines and metadata literally, profiles up to the self value of every stack *)
Theorem cached_storage_refines : forall rt h,
  Forall ok_op (cstrip h) ->
  Forall2 out_equiv (snd (c_run rt h cst_init)) (snd (st_run rt (cstrip h) st_init)).
Proof.
  intros rt h H. destruct (c_run_sim rt h cst_init st_init repr_init) as (pops & S & OK & OUT).
  rewrite OUT, <- S. apply storage_reload_transparent. apply OK, H.
Qed.

(* ---------- non-vacuity: evictions that really reload floor-scaled trees ---------- *)
Definition ex_key : bytes := [102;111;111;123;125]%N.
Definition ex_hist : list chop :=
  [ CO (OpPut (ex_up 1600000000 1600000020 [([97;59;98]%N, 3%N); ([97;59;99]%N, 5%N)]));
    CM MFlushReopen;
    CO (OpPut (ex_up 1600000010 1600000020 [([97;59;98]%N, 1%N)]));
    CM (MEvict 1 1 [(ex_key, 1%nat, 6373559680%Z); (ex_key, 0%nat, 6373559681%Z)]);
    CO (OpGet ex_sid 1600000000 1600000020) ].

Example cached_storage_refines_nonvacuous :
  Forall ok_op (cstrip ex_hist) /\
  (* the eviction step is a possible one and empties the cache: the query reloads everything from disk *)
  c_lfu (cs_trees (fst (c_run None (firstn 4 ex_hist) cst_init))) = [] /\
  match snd (c_run None ex_hist cst_init), snd (st_run None (cstrip ex_hist) st_init) with
  | [_; _; OutGet (Some a)], [_; _; OutGet (Some b)] =>
      go_tree a = TNode [] 0 7 [TNode [97%N] 0 7 [TNode [98%N] 3 3 []; TNode [99%N] 4 4 []]] /\
      go_tree b = TNode [] 0 9 [TNode [97%N] 0 9 [TNode [98%N] 3 3 []; TNode [99%N] 4 4 []]]
  | _, _ => False
  end.
Proof.
  split; [|split; [vm_compute; reflexivity | vm_compute; split; reflexivity]].
  destruct storage_reload_nonvacuous as [H _]. unfold ex_pops in H. unfold ex_hist. cbn [cstrip flat_map app].
  inversion H as [|? ? H1 H2]; subst. inversion H2 as [|? ? _ H3]; subst. inversion H3 as [|? ? H4 H5]; subst.
  inversion H5 as [|? ? _ H6]; subst. inversion H6 as [|? ? H7 _]; subst.
  repeat constructor; assumption.
Qed.
