(* C06SeriesProofs.v — the uploader's request through the concrete handler of Proofs/C16Concrete.v:
   URL model (Model/UrlCoding.v) -> handler parameters (Model/Server.v, Model/Ingest.v) -> storage.ParseKey
   (Model/Key.v parse) -> Storage.Put (Model/Storage.v st_put): the profile is stored under the series whose
   identifier is the normalised key of the job's name, with the job's window and metadata. *)
From Coq Require Import Ascii.
From Pyro Require Import Model.Base Model.Tree Model.Varint Model.TTrie Model.TextFormats Model.TreeCodec.
From Pyro Require Import Model.Key Model.Storage Model.TimeParse Model.UrlCoding.
From Pyro Require Model.Ingest.
From Pyro Require Import Model.Server.
From Pyro Require Import Proofs.BcmpProofs Proofs.KeyProofs Proofs.Utf8Proofs Proofs.TimeParseProofs Proofs.ServerProofs.
From Pyro Require Import Proofs.TextFormatsProofs Proofs.C06ProfileProofs Proofs.C06UrlProofs Proofs.C16Concrete.
From Coq Require Import Lia ZArith.

Local Open Scope Z_scope.

(* ---- attime.Parse of the decimal seconds the uploader writes ---- *)
Lemma tp_digits_val_acc : forall s a v, TextFormats.digits_val a s = Some v ->
  fold_left (fun x c => x * 10 + digit_val c) s (Z.of_N a) = Z.of_N v.
Proof.
  induction s as [|c s IH]; intros a v H; cbn in *; [now inversion H|].
  destruct (TextFormats.is_digit c) eqn:D; [|discriminate].
  rewrite <- (IH _ _ H). f_equal. unfold digit_val, TextFormats.is_digit in *. lia.
Qed.

Lemma tp_digits_val_itoa n : TimeParse.digits_val (TextFormats.itoa n) = Z.of_N n.
Proof. unfold TimeParse.digits_val. exact (tp_digits_val_acc _ 0%N n (itoa_val n)). Qed.

Lemma tp_is_digit_same c : TimeParse.is_digit c = TextFormats.is_digit c.
Proof. reflexivity. Qed.

Lemma digit_head_cases d : TextFormats.is_digit d = true ->
  (d = 48 \/ d = 49 \/ d = 50 \/ d = 51 \/ d = 52 \/ d = 53 \/ d = 54 \/ d = 55 \/ d = 56 \/ d = 57)%N.
Proof. unfold TextFormats.is_digit. lia. Qed.

Lemma strip_one_digit d r : TextFormats.is_digit d = true ->
  strip_one ws_seqs (d :: r) = None /\ strip_one (map (@rev N) ws_seqs) (d :: r) = None.
Proof.
  intros H. apply digit_head_cases in H.
  destruct H as [->|[->|[->|[->|[->|[->|[->|[->|[->| ->]]]]]]]]]; split; reflexivity.
Qed.

Lemma trim_space_digits s : s <> [] -> forallb TextFormats.is_digit s = true -> trim_space s = s.
Proof.
  intros Hne Hd. unfold trim_space.
  assert (HL : TimeParse.trim_left s = s).
  { unfold TimeParse.trim_left. destruct s as [|d r]; [congruence|]. cbn [length trim_left_with].
    cbn in Hd. apply andb_true_iff in Hd. destruct (strip_one_digit d r (proj1 Hd)) as [E _]. now rewrite E. }
  rewrite HL. unfold TimeParse.trim_right.
  destruct (exists_last Hne) as (l & d & ->). rewrite rev_unit.
  rewrite forallb_app in Hd. apply andb_true_iff in Hd. destruct Hd as [_ Hd]. cbn in Hd. apply andb_true_iff in Hd.
  destruct (strip_one_digit d (rev l) (proj1 Hd)) as [_ E2].
  destruct (length (l ++ [d])); cbn [trim_left_with]; [|rewrite E2]; cbn [rev]; now rewrite rev_involutive.
Qed.

Lemma remove_seps_digits s : forallb TextFormats.is_digit s = true -> remove_seps s = s.
Proof.
  induction s as [|c s IH]; intros H; [reflexivity|]. cbn in H. apply andb_true_iff in H. destruct H as [Hc Hs].
  unfold remove_seps in *. cbn [filter]. rewrite (IH Hs).
  unfold is_sep, TextFormats.is_digit in *.
  destruct (N.eqb_spec c 95), (N.eqb_spec c 44), (N.eqb_spec c 32); cbn; try reflexivity; lia.
Qed.

Lemma attime_parse_itoa now n : (n < 2 ^ 63)%N -> length (TextFormats.itoa n) <> 8%nat ->
  attime_parse now (TextFormats.itoa n) = Some (Z.of_N n * 1000000000).
Proof.
  intros Hn Hl. destruct (itoa_head n) as (d & r & E & _).
  pose proof (itoa_all_digits n) as Hd.
  assert (Hne : TextFormats.itoa n <> []) by (rewrite E; discriminate).
  assert (Hc : attime_clean (TextFormats.itoa n) = TextFormats.itoa n).
  { unfold attime_clean. rewrite trim_space_digits, remove_seps_digits by assumption. reflexivity. }
  rewrite (attime_digits_lemma now (TextFormats.itoa n) (TextFormats.itoa n) Hc Hne Hd).
  unfold plausible_date. destruct (Nat.eqb_spec (length (TextFormats.itoa n)) 8); [contradiction|]. cbn [andb].
  rewrite tp_digits_val_itoa. f_equal. unfold max_int64. lia.
Qed.

(* ---- the request the uploader sends for a job with samples ms ---- *)
Definition job_request (j : Ingest.upload_job) (ms : list (bytes * N)) : request :=
  {| rq_query := url_parse_query (url_encode_query (Ingest.upload_query j));
     rq_content_type := Ingest.upload_content_type;
     rq_body := Ingest.trie_body ms |}.

Definition job_meta (j : Ingest.upload_job) : meta :=
  {| m_spy := Ingest.j_spy j; m_rate := Ingest.j_rate j; m_units := Ingest.j_units j; m_agg := Ingest.j_aggregation j |}.

Definition sec_ns (n : N) : Z := Z.of_N n * 1000000000.

Lemma job_query_sorted j : job_bytes_ok j ->
  rq_query (job_request j []) = sort_query (Ingest.upload_query j).
Proof.
  intros (B1 & B2 & B3 & B4). cbn [rq_query job_request]. apply url_parse_encode.
  unfold Ingest.upload_query, pair_ok. repeat constructor; cbn [fst snd]; try apply ascii_bytes_ok; try apply itoa_bytes_ok; assumption.
Qed.

Lemma meta_of_job j : job_ok j -> job_bytes_ok j ->
  meta_of_query (url_parse_query (url_encode_query (Ingest.upload_query j))) = job_meta j.
Proof.
  intros Hj Hb. unfold meta_of_query, job_meta.
  pose proof (job_roundtrip_url j Hj Hb) as R.
  set (q := url_parse_query (url_encode_query (Ingest.upload_query j))) in *.
  change (Ingest.ip_spy (Ingest.ingest_params_of q [])) with (Ingest.ip_spy (Ingest.ingest_params_of q Ingest.upload_content_type)).
  change (Ingest.ip_rate (Ingest.ingest_params_of q [])) with (Ingest.ip_rate (Ingest.ingest_params_of q Ingest.upload_content_type)).
  change (Ingest.ip_units (Ingest.ingest_params_of q [])) with (Ingest.ip_units (Ingest.ingest_params_of q Ingest.upload_content_type)).
  change (Ingest.ip_aggregation (Ingest.ingest_params_of q [])) with (Ingest.ip_aggregation (Ingest.ingest_params_of q Ingest.upload_content_type)).
  rewrite R. reflexivity.
Qed.

(* the handler acknowledges the job's request and stores exactly this put_input *)
Theorem series_exact : forall j ms e st w0 w1,
  job_ok j -> job_bytes_ok j -> (Ingest.j_start j <= Ingest.j_end j)%N ->
  Forall (fun kv => (0 < snd kv)%N) ms -> tt_fitsb 1 1 (tt_of_multiset ms) = true ->
  e_space_ok e = true -> e_retention_thr e = None ->
  Server.normalize (sec_ns (Ingest.j_start j)) (sec_ns (Ingest.j_end j)) = (w0, w1) ->
  conc_ingest (job_request j ms) e st =
  (Status 200,
   fst (st_put None (put_input_of (sid_of_name (Ingest.j_name j)) w0 w1 (Ingest.profile_of ms) (job_meta j)) st)).
Proof.
  intros j ms e st w0 w1 Hj Hb Hse Hpos Hfit Hsp Hret Hn.
  pose proof Hj as (H1 & H2 & H3 & H4 & H5 & H6 & H7 & H8).
  unfold conc_ingest, Server.ingest, Server.ingest_params_of.
  cbn [rq_query rq_content_type rq_body job_request].
  pose proof (meta_of_job j Hj Hb) as Hmeta.
  assert (Hq : url_parse_query (url_encode_query (Ingest.upload_query j)) = sort_query (Ingest.upload_query j)).
  { exact (job_query_sorted j Hb). }
  rewrite Hq in *. rewrite sort_upload_query in *.
  set (q := [(Ingest.ascii "aggregationType", _); _; _; _; _; _; _]) in *.
  change (Server.q_get k_from q) with (TextFormats.itoa (Ingest.j_start j)).
  change (Server.q_get k_until q) with (TextFormats.itoa (Ingest.j_end j)).
  change (Server.q_get k_name q) with (Ingest.j_name j).
  change (Server.select_format (Server.q_get k_format q) Ingest.upload_content_type) with Server.FTrie.
  unfold Server.time_param.
  destruct (itoa_head (Ingest.j_start j)) as (d1 & r1 & E1 & _). destruct (itoa_head (Ingest.j_end j)) as (d2 & r2 & E2 & _).
  pose proof (attime_parse_itoa (e_now_from e) (Ingest.j_start j) H1 H7) as A1.
  pose proof (attime_parse_itoa (e_now_until e) (Ingest.j_end j) H2 H8) as A2.
  rewrite E1 in A1 |- *. rewrite E2 in A2 |- *. rewrite A1, A2.
  cbn [Server.ip_from Server.ip_until Server.ip_format Server.ip_key Server.ip_meta Server.parser_of].
  fold (sec_ns (Ingest.j_start j)) (sec_ns (Ingest.j_end j)).
  assert (Hle : sec_ns (Ingest.j_start j) <= sec_ns (Ingest.j_end j)) by (unfold sec_ns; lia).
  destruct (Z.ltb_spec (sec_ns (Ingest.j_end j)) (sec_ns (Ingest.j_start j))); [lia|].
  rewrite (trie_path_agrees ms Hpos Hfit). rewrite Hsp, Hret. cbn [negb].
  rewrite Hn. destruct (normalize_window _ _ _ _ Hle Hn) as (_ & Hw & _ & _).
  destruct (Z.leb_spec w1 w0); [unfold ten_s in Hw; lia|].
  rewrite Hmeta. reflexivity.
Qed.

(* ---- which series: the normalised key of the name ---- *)
Lemma utf8_injective s t : Forall valid_rune s -> Forall valid_rune t -> utf8 s = utf8 t -> s = t.
Proof.
  intros Hs Ht E. apply BcmpProofs.bcmp_eq. rewrite <- (utf8_order s t Hs Ht), E. apply BcmpProofs.bcmp_refl.
Qed.

Theorem same_series_iff : forall n1 n2,
  has c_lbrace (app_name (parse n1)) = false -> has c_lbrace (app_name (parse n2)) = false ->
  Forall valid_rune (normalized (parse n1)) -> Forall valid_rune (normalized (parse n2)) ->
  (sid_key (sid_of_name n1) = sid_key (sid_of_name n2) <-> parse n1 = parse n2) /\
  (parse n1 = parse n2 -> sid_of_name n1 = sid_of_name n2).
Proof.
  intros n1 n2 H1 H2 V1 V2. split; [split|].
  - cbn [sid_of_name sid_key]. intros E. apply utf8_injective in E; try assumption.
    rewrite <- (fixpoint_partial n1 H1), <- (fixpoint_partial n2 H2), E. reflexivity.
  - intros E. unfold sid_of_name. now rewrite E.
  - intros E. unfold sid_of_name. now rewrite E.
Qed.

(* storage.ParseKey never refuses a name (it returns a nil error for every string): there is no 4xx for names *)
Lemma parse_key_total : forall name, exists k, sid_of_name name = k.
Proof. intros. eexists. reflexivity. Qed.

(* ---- the normalised key of a name made of bytes consists of valid runes: the hypothesis of same_series_iff holds ---- *)
Definition lab_valid (m : labels) : Prop := Forall (fun kv => Forall valid_rune (fst kv) /\ Forall valid_rune (snd kv)) m.
Definition p_valid (p : parser) : Prop := Forall valid_rune (p_key p) /\ Forall valid_rune (p_val p) /\ lab_valid (p_labels p).

Lemma trim_valid s : Forall valid_rune s -> Forall valid_rune (trim s).
Proof. intros H. apply Forall_forall. intros c Hc. rewrite Forall_forall in H. apply H. now apply In_trim. Qed.

Lemma name_key_valid : Forall valid_rune name_key.
Proof. unfold name_key, valid_rune. repeat constructor; lia. Qed.

Lemma step_valid p r : valid_rune r -> p_valid p -> p_valid (step p r).
Proof.
  intros Hr (Hk & Hv & Hl). unfold step, p_valid.
  destruct (p_st p); repeat match goal with |- context [if ?b then _ else _] => destruct b end;
    cbn [p_key p_val p_labels]; repeat split; try assumption; try constructor;
    try (apply Forall_app; split; [assumption|constructor; [exact Hr|constructor]]);
    try (apply lput_Forall; [cbn [fst snd]; split; try apply trim_valid; try apply name_key_valid; assumption|exact Hl]).
Qed.

Lemma run_valid s : Forall valid_rune s -> forall p, p_valid p -> p_valid (fold_left step s p).
Proof. induction 1 as [|r s Hr _ IH]; intros p Hp; [exact Hp|]. cbn [fold_left]. apply IH. now apply step_valid. Qed.

Lemma parse_valid s : Forall valid_rune s -> lab_valid (parse s).
Proof.
  intros H. unfold parse, run_parser. apply run_valid.
  - apply Forall_app. split; [exact H|]. constructor; [unfold valid_rune, c_lbrace; lia|constructor].
  - repeat split; constructor.
Qed.

Lemma join_tags_valid l : lab_valid l -> Forall valid_rune (join_tags l).
Proof.
  induction 1 as [|[k v] l [Hk Hv] Hl IH]; [constructor|]. cbn [join_tags fst snd] in *.
  destruct l as [|kv' l'].
  - apply Forall_app. split; [exact Hk|]. constructor; [unfold valid_rune, c_eq; lia|exact Hv].
  - apply Forall_app. split; [exact Hk|]. constructor; [unfold valid_rune, c_eq; lia|].
    apply Forall_app. split; [exact Hv|]. constructor; [unfold valid_rune, c_comma; lia|exact IH].
Qed.

Lemma normalized_valid m : lab_valid m -> Forall valid_rune (normalized m).
Proof.
  intros H. unfold normalized. apply Forall_app. split.
  - unfold app_name. destruct (lget name_key m) as [n|] eqn:E; [|constructor].
    apply lget_In in E. unfold lab_valid in H. rewrite Forall_forall in H. apply (H _ E).
  - constructor; [unfold valid_rune, c_lbrace; lia|]. apply Forall_app. split.
    + apply join_tags_valid. unfold tags, lab_valid in *. rewrite Forall_forall in *. intros kv Hkv. apply filter_In in Hkv. now apply H.
    + constructor; [unfold valid_rune, c_rbrace; lia|constructor].
Qed.

Lemma bytes_valid_runes s : bytes_okP s -> Forall valid_rune s.
Proof. apply Forall_impl. intros c H. unfold valid_rune. lia. Qed.

(* two names denote the same stored series exactly when storage.ParseKey gives them the same labels *)
Theorem same_series_bytes : forall n1 n2, bytes_okP n1 -> bytes_okP n2 ->
  has c_lbrace (app_name (parse n1)) = false -> has c_lbrace (app_name (parse n2)) = false ->
  (sid_key (sid_of_name n1) = sid_key (sid_of_name n2) <-> parse n1 = parse n2) /\
  (parse n1 = parse n2 -> sid_of_name n1 = sid_of_name n2).
Proof.
  intros n1 n2 B1 B2 H1 H2. apply same_series_iff; try assumption;
    apply normalized_valid, parse_valid, bytes_valid_runes; assumption.
Qed.
