(* MetaJsonProofs.v — the metadata JSON codec round-trips:
   read_meta (write_meta m) = Some (fix_meta m) for every m with rate < 2^32, where fix_meta replaces
   malformed UTF-8 by U+FFFD; hence = Some m when the three strings are valid UTF-8. *)
From Pyro Require Import Model.Base Model.Varint Model.Segment Model.MetaJson.
From Coq Require Import ZifyBool ZifyN ZifyNat.
Local Open Scope N_scope.

Lemma list_eqb_N_eq : forall a b : bytes, list_eqb N.eqb a b = true -> a = b.
Proof.
  induction a as [|x a IH]; intros [|y b] H; cbn in H; try discriminate; [reflexivity|].
  apply andb_prop in H. destruct H as [H1 H2]. apply N.eqb_eq in H1. subst. f_equal. apply IH. exact H2.
Qed.

Lemma list_eqb_N_refl : forall a : bytes, list_eqb N.eqb a a = true.
Proof. induction a as [|x a IH]; cbn; [reflexivity|]. rewrite N.eqb_refl, IH. reflexivity. Qed.

(* ---------- runes ---------- *)
Lemma u8dec_spec bs rb r' : u8dec bs = Some (rb, r') ->
  bs = (rb ++ r')%list /\ (exists b rb', rb = b :: rb' /\ 194 <= b) /\ (forall X, u8dec (rb ++ X) = Some (rb, X)).
Proof.
  unfold u8dec. destruct bs as [|b r]; [discriminate|].
  destruct ((194 <=? b) && (b <=? 223)) eqn:E2.
  - destruct r as [|c1 r1]; [discriminate|]. destruct (u8cont c1) eqn:C1; [|discriminate].
    intros H. inversion H; subst. split; [reflexivity|]. split; [exists b, [c1]; split; [reflexivity|lia]|].
    intros X. cbn [app]. rewrite E2, C1. reflexivity.
  - destruct ((224 <=? b) && (b <=? 239)) eqn:E3.
    + destruct r as [|c1 [|c2 r2]]; try discriminate.
      destruct (_ && u8cont c2) eqn:C; [|discriminate].
      intros H. inversion H; subst. split; [reflexivity|]. split; [exists b, [c1; c2]; split; [reflexivity|lia]|].
      intros X. cbn [app]. rewrite E2, E3, C. reflexivity.
    + destruct ((240 <=? b) && (b <=? 244)) eqn:E4; [|discriminate].
      destruct r as [|c1 [|c2 [|c3 r3]]]; try discriminate.
      destruct (_ && u8cont c3) eqn:C; [|discriminate].
      intros H. inversion H; subst. split; [reflexivity|]. split; [exists b, [c1; c2; c3]; split; [reflexivity|lia]|].
      intros X. cbn [app]. rewrite E2, E3, E4, C. reflexivity.
Qed.

(* ---------- one token of the writer is read back as the bytes it stands for ---------- *)
Lemma esc_ascii_uq : forall b, b < 128 -> forall F X, uq (S F) (esc_ascii b ++ X) = ocons [b] (uq F X).
Proof.
  intros b Hb F X. destruct b as [|p]; [reflexivity|].
  do 7 (try destruct p as [p|p|]); try (exfalso; lia); reflexivity.
Qed.

Lemma esc_bad_uq F X : uq (S F) (esc_bad ++ X) = ocons u8bad (uq F X).
Proof. reflexivity. Qed.

Lemma esc_rune_uq bs rb r' : u8dec bs = Some (rb, r') ->
  forall F X, uq (S F) (esc_rune rb ++ X) = ocons rb (uq F X).
Proof.
  intros H F X. destruct (u8dec_spec _ _ _ H) as (_ & (b & rb' & Hrb & Hb) & Hdec).
  unfold esc_rune. destruct (list_eqb N.eqb rb ls_rune) eqn:E1.
  - apply list_eqb_N_eq in E1. subst rb. rewrite E1. reflexivity.
  - destruct (list_eqb N.eqb rb ps_rune) eqn:E2.
    + apply list_eqb_N_eq in E2. rewrite E2. reflexivity.
    + specialize (Hdec X). subst rb. cbn [app uq] in *.
      replace (b =? 34) with false by lia. replace (b =? 92) with false by lia.
      replace (b <? 32) with false by lia. replace (b <? 128) with false by lia.
      rewrite Hdec. reflexivity.
Qed.

Lemma ocons_app a b o : ocons a (ocons b o) = ocons (a ++ b) o.
Proof. destruct o as [[x r]|]; cbn; [rewrite app_assoc; reflexivity|reflexivity]. Qed.

(* ---------- strings ---------- *)
Lemma uq_jq : forall f s F rest, (length s < f)%nat -> (length (jq_body f s ++ 34%N :: rest) <= F)%nat ->
  uq F (jq_body f s ++ 34 :: rest) = Some (utf8_fix f s, rest).
Proof.
  induction f as [|f IH]; intros s F rest Hs HF; [lia|].
  destruct s as [|b r]; cbn [jq_body utf8_fix] in HF |- *.
  - cbn [app length] in *. destruct F; [lia|]. reflexivity.
  - destruct (b <? 128) eqn:Eb.
    + rewrite <- app_assoc in *. destruct F as [|F]; [rewrite !app_length in HF; cbn [length] in HF; lia|].
      rewrite esc_ascii_uq by lia. rewrite IH; [reflexivity|cbn [length] in Hs; lia|].
      rewrite !app_length in HF. rewrite !app_length. cbn [length] in HF |- *. assert (1 <= length (esc_ascii b))%nat.
      { unfold esc_ascii. repeat match goal with |- context [if ?c then _ else _] => destruct c end; cbn; lia. }
      lia.
    + destruct (u8dec (b :: r)) as [[rb r']|] eqn:Ed.
      * rewrite <- app_assoc in *. destruct (u8dec_spec _ _ _ Ed) as (Hbs & (b0 & rb' & Hrb & Hb0) & _).
        assert (Hlen : (length r' < f)%nat).
        { assert (length (b :: r) = length (rb ++ r')%list) by (rewrite Hbs; reflexivity).
          rewrite app_length in H. subst rb. cbn [length] in *. lia. }
        assert (Hesc : (1 <= length (esc_rune rb))%nat).
        { unfold esc_rune. destruct (list_eqb N.eqb rb ls_rune); [cbn; lia|].
          destruct (list_eqb N.eqb rb ps_rune); [cbn; lia|]. subst rb. cbn. lia. }
        destruct F as [|F]; [rewrite !app_length in HF; cbn [length] in HF; lia|].
        rewrite (esc_rune_uq _ _ _ Ed). rewrite IH; [reflexivity|exact Hlen|].
        rewrite !app_length in HF. rewrite !app_length. cbn [length] in HF |- *. lia.
      * rewrite <- app_assoc in *. destruct F as [|F]; [rewrite !app_length in HF; cbn [length] in HF; lia|].
        rewrite esc_bad_uq. rewrite IH; [reflexivity|cbn [length] in Hs; lia|].
        rewrite !app_length in HF. rewrite !app_length. cbn [esc_bad length] in HF |- *. lia.
Qed.

Lemma uq_wq s k : uq (length (jq_body (S (length s)) s ++ 34 :: k)) (jq_body (S (length s)) s ++ 34 :: k)
                  = Some (json_string_roundtrip s, k).
Proof. apply uq_jq; lia. Qed.

(* ---------- numbers ---------- *)
Definition dstep (a d : N) : N := a * 10 + (d - 48).

Lemma parse_digits_app : forall ds acc k, forallb is_digit ds = true ->
  (match k with c :: _ => is_digit c = false | [] => True end) ->
  parse_digits acc (ds ++ k) = (fold_left dstep ds acc, k).
Proof.
  induction ds as [|d ds IH]; intros acc k Hd Hk.
  - cbn [app fold_left]. destruct k as [|c k]; [reflexivity|]. cbn [parse_digits]. rewrite Hk. reflexivity.
  - cbn [forallb] in Hd. apply andb_prop in Hd. destruct Hd as [H1 H2].
    cbn [app parse_digits fold_left]. rewrite H1. apply IH; assumption.
Qed.

Lemma forallb_app' {A} (f : A -> bool) l1 l2 : forallb f l1 = true -> forallb f l2 = true -> forallb f (l1 ++ l2) = true.
Proof. induction l1 as [|x l1 IH]; cbn; intros H1 H2; [exact H2|]. apply andb_prop in H1. destruct H1 as [Hx Hl]. rewrite Hx, IH; auto. Qed.

Lemma to_dec_f_spec : forall fuel n, (N.to_nat (N.log2 n) <= fuel)%nat ->
  forallb is_digit (to_dec_f fuel n) = true /\ fold_left dstep (to_dec_f fuel n) 0 = n.
Proof.
  induction fuel as [|f IH]; intros n Hf.
  - assert (N.log2 n = 0) by lia.
    assert (n < 2). { destruct (N.eq_dec n 0) as [->|Hn]; [lia|]. pose proof (N.log2_spec n ltac:(lia)). rewrite H in H0. cbn in H0. lia. }
    cbn [to_dec_f]. rewrite N.mod_small by lia. cbn [forallb fold_left]. unfold is_digit, dstep. split; lia.
  - cbn [to_dec_f]. destruct (n <? 10) eqn:E.
    + cbn [forallb fold_left]. unfold is_digit, dstep. split; lia.
    + assert (Hlog : (N.to_nat (N.log2 (n / 10)) <= f)%nat).
      { assert (N.log2 (n / 10) <= N.log2 (n / 2)) by (apply N.log2_le_mono; apply N.div_le_compat_l; lia).
        assert (N.log2 (n / 2) = N.log2 n - 1).
        { change 2 with (2 ^ 1). rewrite <- N.shiftr_div_pow2. apply N.log2_shiftr. }
        assert (1 <= N.log2 n). { change 1 with (N.log2 2). apply N.log2_le_mono. lia. }
        lia. }
      destruct (IH (n / 10) Hlog) as [I1 I2]. split.
      * apply forallb_app'; [exact I1|]. cbn [forallb]. unfold is_digit. pose proof (N.mod_lt n 10 ltac:(lia)). lia.
      * rewrite fold_left_app. unfold byte in *. rewrite I2. cbn [fold_left]. unfold dstep. pose proof (N.div_mod n 10 ltac:(lia)).
        pose proof (N.mod_lt n 10 ltac:(lia)). lia.
Qed.

Lemma parse_to_dec n k : (match k with c :: _ => is_digit c = false | [] => True end) ->
  parse_digits 0 (to_dec n ++ k) = (n, k).
Proof.
  intros Hk. destruct (to_dec_f_spec (N.to_nat (N.log2 n)) n (le_n _)) as [H1 H2].
  unfold to_dec. rewrite parse_digits_app by assumption. rewrite H2. reflexivity.
Qed.

Lemma to_dec_head n : exists d ds, to_dec n = d :: ds /\ is_digit d = true.
Proof.
  destruct (to_dec_f_spec (N.to_nat (N.log2 n)) n (le_n _)) as [H1 _]. unfold to_dec.
  destruct (to_dec_f (N.to_nat (N.log2 n)) n) as [|d ds] eqn:E.
  - exfalso. destruct (N.to_nat (N.log2 n)); cbn in E; [discriminate|].
    destruct (n <? 10); [discriminate|]. destruct (to_dec_f n0 (n / 10)); discriminate.
  - exists d, ds. split; [reflexivity|]. cbn in H1. apply andb_prop in H1. tauto.
Qed.

(* ---------- members ---------- *)
Lemma skip_ws_nows b r : is_ws b = false -> skip_ws (b :: r) = b :: r.
Proof. intros H. cbn [skip_ws]. rewrite H. reflexivity. Qed.

Definition after_member (f : nat) (m' : meta) (tail : bytes) : option meta :=
  match skip_ws tail with
  | 44 :: r4 => read_members f m' r4
  | 125 :: r4 => match skip_ws r4 with [] => Some m' | _ => None end
  | _ => None
  end.

Lemma member_str f m key s tail :
  read_members (S f) m (wq key (58 :: wq s tail)) =
  match set_field (json_string_roundtrip key) (JStr (json_string_roundtrip s)) m with
  | None => None
  | Some m' => after_member f m' tail
  end.
Proof.
  unfold wq at 1. cbn [read_members]. rewrite skip_ws_nows by reflexivity.
  rewrite uq_wq. rewrite skip_ws_nows by reflexivity.
  unfold wq. rewrite skip_ws_nows by reflexivity. cbn [read_value]. change (34 =? 34) with true. cbv iota.
  rewrite uq_wq. reflexivity.
Qed.

Lemma member_num f m key n tail : (match tail with c :: _ => is_digit c = false | [] => True end) ->
  read_members (S f) m (wq key (58 :: to_dec n ++ tail)) =
  match set_field (json_string_roundtrip key) (JNum n) m with
  | None => None
  | Some m' => after_member f m' tail
  end.
Proof.
  intros Ht. unfold wq at 1. cbn [read_members]. rewrite skip_ws_nows by reflexivity.
  rewrite uq_wq. rewrite skip_ws_nows by reflexivity.
  destruct (to_dec_head n) as (d & ds & Hd & Hdig). 
  assert (Hws : is_ws d = false) by (unfold is_digit, is_ws in *; lia).
  pose proof (parse_to_dec n tail Ht) as Hp. rewrite Hd in *. cbn [app] in *.
  rewrite skip_ws_nows by exact Hws. unfold read_value.
  replace (d =? 34) with false by (unfold is_digit in Hdig; lia). rewrite Hdig. unfold byte in *. rewrite Hp. reflexivity.
Qed.

Lemma length_wq s k : length (wq s k) = (2 + length (jq_body (S (length s)) s) + length k)%nat.
Proof. unfold wq. cbn [length]. rewrite app_length. cbn [length]. lia. Qed.

Lemma set_agg s m : set_field key_agg (JStr s) m = Some {| m_spy := m_spy m; m_rate := m_rate m; m_units := m_units m; m_agg := s |}.
Proof. reflexivity. Qed.
Lemma set_spy s m : set_field key_spy (JStr s) m = Some {| m_spy := s; m_rate := m_rate m; m_units := m_units m; m_agg := m_agg m |}.
Proof. reflexivity. Qed.
Lemma set_units s m : set_field key_units (JStr s) m = Some {| m_spy := m_spy m; m_rate := m_rate m; m_units := s; m_agg := m_agg m |}.
Proof. reflexivity. Qed.
Lemma set_rate n m : n < 2 ^ 32 ->
  set_field key_rate (JNum n) m = Some {| m_spy := m_spy m; m_rate := n; m_units := m_units m; m_agg := m_agg m |}.
Proof.
  intros H. unfold set_field. change (list_eqb N.eqb key_rate key_rate) with true. cbv iota.
  replace (n <? 2 ^ 32) with true by lia. reflexivity.
Qed.

Theorem read_write_meta m : m_rate m < 2 ^ 32 -> read_meta (write_meta m) = Some (fix_meta m).
Proof.
  intros Hr. unfold read_meta, write_meta. rewrite skip_ws_nows by reflexivity.
  set (r := wq key_agg _).
  assert (Hr34 : exists X, r = 34 :: X) by (unfold r, wq; eexists; reflexivity).
  destruct Hr34 as [X HX]. rewrite HX at 1. rewrite skip_ws_nows by reflexivity. cbv iota.
  assert (Hlen : (4 <= length r)%nat).
  { unfold r. rewrite !length_wq. cbn [length]. rewrite !length_wq. lia. }
  destruct (length r) as [|[|[|[|g]]]]; try lia. clear Hlen HX X. unfold r. clear r.
  rewrite member_str. change (json_string_roundtrip key_agg) with key_agg. rewrite set_agg.
  unfold after_member. rewrite skip_ws_nows by reflexivity. cbv iota.
  rewrite member_num by reflexivity. change (json_string_roundtrip key_rate) with key_rate.
  rewrite set_rate by exact Hr. cbn [m_spy m_rate m_units m_agg].
  unfold after_member. rewrite skip_ws_nows by reflexivity. cbv iota.
  rewrite member_str. change (json_string_roundtrip key_spy) with key_spy. rewrite set_spy.
  cbn [m_spy m_rate m_units m_agg].
  unfold after_member. rewrite skip_ws_nows by reflexivity. cbv iota.
  rewrite member_str. change (json_string_roundtrip key_units) with key_units. rewrite set_units.
  cbn [m_spy m_rate m_units m_agg].
  unfold after_member. rewrite skip_ws_nows by reflexivity. cbv iota. cbn [skip_ws]. reflexivity.
Qed.

Lemma utf8_valid_fix s : utf8_validb s = true -> json_string_roundtrip s = s.
Proof. unfold utf8_validb. apply list_eqb_N_eq. Qed.

(* the round trip of the metadata block for valid UTF-8 strings and a uint32 rate *)
Theorem meta_json_roundtrip m : meta_validb m = true -> read_meta (write_meta m) = Some m.
Proof.
  unfold meta_validb. intros H. repeat (apply andb_prop in H; destruct H as [H ?]).
  rewrite read_write_meta by lia. unfold fix_meta.
  rewrite !utf8_valid_fix by assumption. destruct m; reflexivity.
Qed.
