(* ProfileProofs.v — the (stack -> count) multisets of Model/Index.v: adding uploads in any order and
   merging partial sums give the same profile. *)
From Pyro Require Import Model.Base Model.Dimension Model.Index.
From Pyro Require Import Proofs.BcmpProofs Proofs.DimensionProofs.
From Coq Require Import Permutation.

Definition adds := list (bytes * N).

Definition pr_keys (p : profile) : list bytes := map fst p.

Fixpoint pr_val (s : bytes) (p : profile) : N :=
  match p with
  | [] => 0
  | (s', c) :: p' => if beqb s s' then c else pr_val s p'
  end.

Fixpoint sumfor (s : bytes) (A : adds) : N :=
  match A with
  | [] => 0
  | (s', c) :: A' => (if beqb s s' then c else 0) + sumfor s A'
  end.

Lemma pr_keys_add : forall s c p, pr_keys (pr_add s c p) = d_insert s (pr_keys p).
Proof.
  unfold pr_keys. induction p as [|[s' c'] p IH]; cbn; auto.
  rewrite (bcmp_antisym s s'). destruct (bcmp s s'); cbn; auto. rewrite IH. reflexivity.
Qed.

Lemma pr_val_notin : forall s p, ~ In s (pr_keys p) -> pr_val s p = 0.
Proof.
  induction p as [|[s' c'] p IH]; cbn; intros H; auto.
  destruct (beqb s s') eqn:E; [apply beqb_true in E; subst; exfalso; auto|auto].
Qed.

Lemma pr_val_add : forall s c p s', ssorted (pr_keys p) ->
  pr_val s' (pr_add s c p) = pr_val s' p + (if beqb s' s then c else 0).
Proof.
  induction p as [|[s0 c0] p IH]; intros s' Hs; cbn.
  - destruct (beqb s' s); lia.
  - pose proof (ssorted_tail _ _ Hs) as Ht. pose proof (ssorted_head_lt _ _ Hs) as Hh.
    destruct (bcmp s s0) eqn:E; cbn.
    + apply bcmp_eq in E. subst s0. destruct (beqb s' s); lia.
    + destruct (beqb s' s) eqn:E1.
      * apply beqb_true in E1. subst s'.
        destruct (beqb s s0) eqn:E2; [apply beqb_true in E2; subst; rewrite bcmp_refl in E; discriminate|].
        rewrite pr_val_notin; [lia|]. intros Hin. apply Hh in Hin.
        assert (bcmp s s = Lt) by (eapply bcmp_trans; eauto). rewrite bcmp_refl in H. discriminate.
      * lia.
    + rewrite IH by auto. destruct (beqb s' s0) eqn:E1; auto.
      destruct (beqb s' s) eqn:E2; [|lia].
      apply beqb_true in E1. apply beqb_true in E2. subst. rewrite bcmp_refl in E. discriminate.
Qed.

Lemma pr_ext : forall p q, pr_keys p = pr_keys q -> NoDup (pr_keys p) ->
  (forall s, pr_val s p = pr_val s q) -> p = q.
Proof.
  induction p as [|[s c] p IH]; intros [|[s' c'] q] Hk Hnd Hv; cbn in Hk; try discriminate; auto.
  injection Hk as E1 E2. subst s'. apply NoDup_cons_iff in Hnd. destruct Hnd as [Hn1 Hn2].
  pose proof (Hv s) as H0. cbn in H0. rewrite beqb_refl in H0. subst c'.
  f_equal. apply IH; auto. intros s0. pose proof (Hv s0) as Hv0. cbn in Hv0.
  destruct (beqb s0 s) eqn:E; auto. apply beqb_true in E. subst s0.
  rewrite (pr_val_notin s p) by auto. rewrite (pr_val_notin s q); [reflexivity|]. unfold pr_keys. rewrite <- E2. exact Hn1.
Qed.

(* p is the profile of the multiset of uploads A *)
Definition R (p : profile) (A : adds) : Prop :=
  ssorted (pr_keys p) /\ (forall x, In x (pr_keys p) <-> In x (map fst A)) /\ (forall s, pr_val s p = sumfor s A).

Lemma R_unique : forall p q A, R p A -> R q A -> p = q.
Proof.
  intros p q A [S1 [K1 V1]] [S2 [K2 V2]]. apply pr_ext.
  - apply ssorted_ext; auto. intros x. rewrite K1, K2. tauto.
  - apply ssorted_NoDup. auto.
  - intros s. rewrite V1, V2. reflexivity.
Qed.

Lemma R_nil : R [] [].
Proof. split; [constructor|split; [tauto|reflexivity]]. Qed.

Lemma sumfor_app : forall s A B, sumfor s (A ++ B) = sumfor s A + sumfor s B.
Proof. induction A as [|[s' c] A IH]; intros B; cbn; auto. rewrite IH. lia. Qed.

Lemma sumfor_perm : forall s A B, Permutation A B -> sumfor s A = sumfor s B.
Proof.
  induction 1 as [|[s' c] A B H IH|[s1 c1] [s2 c2] A|A B C H1 IH1 H2 IH2]; cbn; try lia.
Qed.

Lemma R_add : forall p A s c, R p A -> R (pr_add s c p) (A ++ [(s, c)]).
Proof.
  intros p A s c [S [K V]]. split; [|split].
  - rewrite pr_keys_add. apply d_insert_sorted. auto.
  - intros x. rewrite pr_keys_add, d_insert_In, K, map_app, in_app_iff. cbn. intuition.
  - intros s'. rewrite pr_val_add by auto. rewrite V, sumfor_app. cbn. lia.
Qed.

Lemma R_perm : forall p A B, Permutation A B -> R p A -> R p B.
Proof.
  intros p A B Hp [S [K V]]. split; [auto|split].
  - intros x. rewrite K. split; intros H; eapply Permutation_in; try exact H;
      [apply Permutation_map; exact Hp|apply Permutation_sym; apply Permutation_map; exact Hp].
  - intros s. rewrite V. apply sumfor_perm. exact Hp.
Qed.

Definition pr_of (A : adds) : profile := fold_left (fun p sc => pr_add (fst sc) (snd sc) p) A [].

Lemma R_fold : forall B p A, R p A -> R (fold_left (fun p sc => pr_add (fst sc) (snd sc) p) B p) (A ++ B).
Proof.
  induction B as [|[s c] B IH]; intros p A H; cbn.
  - rewrite app_nil_r. exact H.
  - change (A ++ (s, c) :: B) with (A ++ [(s, c)] ++ B). rewrite app_assoc.
    apply IH. apply R_add. exact H.
Qed.

Lemma R_pr_of : forall A, R (pr_of A) A.
Proof. intros A. apply (R_fold A [] []). apply R_nil. Qed.

(* a profile is itself a list of (stack, count) additions with distinct stacks *)
Lemma sumfor_self : forall q s, NoDup (pr_keys q) -> sumfor s q = pr_val s q.
Proof.
  induction q as [|[s' c] q IH]; intros s Hnd; cbn; auto. inversion Hnd; subst.
  rewrite IH by auto. destruct (beqb s s') eqn:E; [|lia].
  apply beqb_true in E. subst. rewrite pr_val_notin by auto. lia.
Qed.

Lemma R_merge : forall a A b B, R a A -> R b B -> R (pr_merge a b) (A ++ B).
Proof.
  intros a A b B Ha [Sb [Kb Vb]]. unfold pr_merge.
  pose proof (R_fold b a A Ha) as [S [K V]]. split; [auto|split].
  - intros x. rewrite K, !map_app, !in_app_iff. fold (pr_keys b). rewrite Kb. tauto.
  - intros s. rewrite V, !sumfor_app. rewrite (sumfor_self b) by (apply ssorted_NoDup; auto). rewrite Vb. reflexivity.
Qed.

(* filtering by two exclusive tests and putting the parts side by side is a permutation of one filter *)
Lemma filter_disjoint_perm : forall A (l : list A) (p q : A -> bool),
  (forall x, In x l -> p x = true -> q x = true -> False) ->
  Permutation (filter p l ++ filter q l) (filter (fun x => p x || q x) l).
Proof.
  induction l as [|x l IH]; intros p q Hd; cbn; auto.
  assert (Hd' : forall y, In y l -> p y = true -> q y = true -> False) by (intros y Hy; apply Hd; right; exact Hy).
  destruct (p x) eqn:Ep; destruct (q x) eqn:Eq; cbn.
  - exfalso. eapply Hd; eauto. left. reflexivity.
  - apply perm_skip. apply IH; auto.
  - eapply Permutation_trans; [apply Permutation_sym; apply Permutation_middle|]. apply perm_skip. apply IH; auto.
  - apply IH; auto.
Qed.
