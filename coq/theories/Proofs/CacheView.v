(* CacheView.v — a Model/Cache.v store driven synchronously (no save in flight between client operations, no
   write-back) is a finite map: `vget c k` = what a Get of k would return.  Generic in keys, objects and codec.
   (Proofs/StorageCachedProofs.v has the same facts for the trees store; this file is the generic version used for
   the segments store.) *)
From Coq Require Import List Arith Bool Lia.
From Pyro Require Import Model.Lfu Model.Cache Proofs.CacheProofs Model.StorageCached2.
Import ListNotations.

Section View.
Context {K V D : Type}.
Context (keq : forall a b : K, {a = b} + {a <> b}) (dflt : K -> V) (enc : K -> V -> D) (dec : K -> D -> V).
Notation cache := (Cache.cache (K:=K) (V:=V) (D:=D)).
Notation lf := (l_find keq).

Lemma glf_upd : forall k e k' (l : lfu (K:=K) (V:=V)),
  lf k' (l_upd keq k e l) = match lf k' l with Some x => if keq k k' then Some e else Some x | None => None end.
Proof.
  induction l as [|[k1 e1] l IH]; cbn; [reflexivity|].
  destruct (keq k k1) as [->|N]; cbn.
  - destruct (keq k' k1) as [->|N']; [destruct (keq k1 k1); congruence|]. exact IH.
  - destruct (keq k' k1) as [->|N']; [destruct (keq k k1); congruence|]. exact IH.
Qed.

Lemma glf_app : forall k' k e (l : lfu (K:=K) (V:=V)),
  lf k' (l ++ [(k, e)]) = match lf k' l with Some x => Some x | None => if keq k' k then Some e else None end.
Proof. induction l as [|[k1 e1] l IH]; cbn; [reflexivity|]. destruct (keq k' k1); [reflexivity | exact IH]. Qed.

Lemma glf_remove : forall k k' (l : lfu (K:=K) (V:=V)),
  lf k' (l_remove keq k l) = if keq k' k then None else lf k' l.
Proof.
  induction l as [|[k1 e1] l IH]; cbn; [destruct (keq k' k); reflexivity|].
  destruct (keq k k1) as [->|N].
  - rewrite IH. destruct (keq k' k1); reflexivity.
  - cbn. destruct (keq k' k1) as [->|N']; [destruct (keq k1 k); congruence | exact IH].
Qed.

Lemma gremove_keys_incl : forall k (l : lfu (K:=K) (V:=V)) x, In x (map fst (l_remove keq k l)) -> In x (map fst l).
Proof. induction l as [|[k1 e1] l IH]; cbn; [tauto|]. intros x. destruct (keq k k1); cbn; intuition. Qed.

Lemma gremove_nodup : forall k (l : lfu (K:=K) (V:=V)), NoDup (map fst l) -> NoDup (map fst (l_remove keq k l)).
Proof.
  induction l as [|[k1 e1] l IH]; cbn; intros H; [constructor|]. inversion H; subst.
  destruct (keq k k1); cbn; [auto|]. constructor; [|auto]. intros Hi. apply H2. eapply gremove_keys_incl; eauto.
Qed.

Lemma gnodup_snoc : forall (l : list K) x, NoDup l -> ~ In x l -> NoDup (l ++ [x]).
Proof.
  induction l as [|a l IH]; cbn; intros x H N; [constructor; [tauto | constructor]|].
  inversion H; subst. constructor.
  - rewrite in_app_iff. cbn. intros [Hi|[->|[]]]; tauto.
  - apply IH; tauto.
Qed.

Definition gvget (c : cache) (k : K) : V :=
  match lf k (c_lfu c) with
  | Some e => e_val e
  | None => match c_disk c k with Some d => dec k d | None => dflt k end
  end.

Definition gnoPl (l : lfu (K:=K) (V:=V)) : Prop := forall k e, In (k, e) l -> e_pers e = false.
Definition gcwf (c : cache) : Prop :=
  c_evq c = [] /\ c_wbq c = [] /\ gnoPl (c_lfu c) /\ NoDup (map fst (c_lfu c)).

Lemma gcwf_empty : gcwf c_empty.
Proof. repeat split; cbn; auto. intros k e []. constructor. Qed.

Lemma gread_spec : forall k c c' v, gcwf c -> g_read keq dflt enc dec k c = (c', v) ->
  v = gvget c k /\ gcwf c' /\ forall k', gvget c' k' = gvget c k'.
Proof.
  intros k c c' v (E & W & NP & ND) H. unfold g_read, g_step in H. cbn [Cache.step] in H. unfold l_get in H.
  destruct (lf k (c_lfu c)) as [e|] eqn:F.
  - inversion H; subst; clear H. split; [unfold gvget; rewrite F; reflexivity|]. split.
    + repeat split; cbn; auto.
      * intros k0 e0 Hi. apply In_upd in Hi. destruct Hi as [(_ & ->)|(_ & Hi)]; [reflexivity | eapply NP; eauto].
      * rewrite upd_keys. exact ND.
    + intros k'. unfold gvget. cbn [c_lfu c_disk]. rewrite glf_upd.
      destruct (lf k' (c_lfu c)) as [x|] eqn:F'; [|reflexivity].
      destruct (keq k k') as [<-|N]; [|reflexivity]. cbn. congruence.
  - inversion H; subst; clear H.
    set (v0 := match c_disk c k with Some d => dec k d | None => dflt k end).
    assert (V0 : v0 = gvget c k) by (unfold v0, gvget; rewrite F; reflexivity).
    split; [exact V0|]. unfold l_set. rewrite F. split.
    + repeat split; cbn; auto.
      * intros k0 e0 Hi. apply in_app_or in Hi. destruct Hi as [Hi|[Hi|[]]]; [eapply NP; eauto | inversion Hi; reflexivity].
      * rewrite map_app. cbn. apply gnodup_snoc; [exact ND|]. apply (l_find_none keq). exact F.
    + intros k'. unfold gvget at 1. cbn [c_lfu c_disk]. rewrite glf_app.
      destruct (lf k' (c_lfu c)) as [x|] eqn:F'; [unfold gvget; rewrite F'; reflexivity|].
      destruct (keq k' k) as [->|N]; [cbn; exact V0 | unfold gvget; rewrite F'; reflexivity].
Qed.

Lemma gput_spec : forall k v c, gcwf c ->
  gcwf (g_put keq dflt enc dec k v c) /\
  forall k', gvget (g_put keq dflt enc dec k v c) k' = if keq k' k then v else gvget c k'.
Proof.
  intros k v c (E & W & NP & ND). unfold g_put, g_step. cbn [Cache.step fst]. unfold l_set.
  destruct (lf k (c_lfu c)) as [e|] eqn:F.
  - split.
    + repeat split; cbn; auto.
      * intros k0 e0 Hi. apply In_upd in Hi. destruct Hi as [(_ & ->)|(_ & Hi)]; [reflexivity | eapply NP; eauto].
      * rewrite upd_keys. exact ND.
    + intros k'. unfold gvget. cbn [c_lfu c_disk]. rewrite glf_upd.
      destruct (keq k' k) as [->|N].
      * rewrite F. destruct (keq k k); [reflexivity | congruence].
      * destruct (lf k' (c_lfu c)); [|reflexivity]. destruct (keq k k'); [congruence | reflexivity].
  - split.
    + repeat split; cbn; auto.
      * intros k0 e0 Hi. apply in_app_or in Hi. destruct Hi as [Hi|[Hi|[]]]; [eapply NP; eauto | inversion Hi; reflexivity].
      * rewrite map_app. cbn. apply gnodup_snoc; [exact ND|]. apply (l_find_none keq). exact F.
    + intros k'. unfold gvget. cbn [c_lfu c_disk]. rewrite glf_app.
      destruct (keq k' k) as [->|N]; [rewrite F; reflexivity|].
      destruct (lf k' (c_lfu c)); reflexivity.
Qed.

(* a mutation through the pointer of an entry that is in memory *)
Lemma gpoke_spec : forall k f c, gcwf c -> lf k (c_lfu c) <> None ->
  gcwf (g_poke keq dflt enc dec k f c) /\
  forall k', gvget (g_poke keq dflt enc dec k f c) k' = if keq k' k then f (gvget c k) else gvget c k'.
Proof.
  intros k f c (E & W & NP & ND) Hin. unfold g_poke, g_step. cbn [Cache.step].
  destruct (lf k (c_lfu c)) as [e|] eqn:F; [|congruence]. cbn [fst]. unfold l_poke. rewrite F. split.
  - repeat split; cbn; auto.
    + intros k0 e0 Hi. apply In_upd in Hi. destruct Hi as [(_ & ->)|(_ & Hi)]; [|eapply NP; eauto].
      cbn. eapply NP. eapply l_find_In; eauto.
    + rewrite upd_keys. exact ND.
  - intros k'. unfold gvget. cbn [c_lfu c_disk]. rewrite glf_upd.
    destruct (keq k' k) as [->|N].
    + rewrite F. destruct (keq k k); [reflexivity | congruence].
    + destruct (lf k' (c_lfu c)); [|reflexivity]. destruct (keq k k'); [congruence | reflexivity].
Qed.

Lemma gdel_spec : forall k c, gcwf c ->
  gcwf (g_del keq dflt enc dec k c) /\
  forall k', gvget (g_del keq dflt enc dec k c) k' = if keq k' k then dflt k' else gvget c k'.
Proof.
  intros k c (E & W & NP & ND). unfold g_del, g_step. cbn [Cache.step fst]. unfold l_delete. split.
  - repeat split; cbn; auto.
    + intros k0 e0 Hi. apply In_remove in Hi. destruct Hi. eapply NP; eauto.
    + apply gremove_nodup. exact ND.
  - intros k'. unfold gvget. cbn [c_lfu c_disk]. rewrite glf_remove. unfold d_set.
    destruct (keq k' k); reflexivity.
Qed.

Lemma greads_spec : forall keys c c' vs, gcwf c -> g_reads keq dflt enc dec keys c = (c', vs) ->
  vs = map (gvget c) keys /\ gcwf c' /\ forall k', gvget c' k' = gvget c k'.
Proof.
  induction keys as [|k r IH]; intros c c' vs Hc H; cbn in H.
  - inversion H; subst. auto.
  - destruct (g_read keq dflt enc dec k c) as [c1 v] eqn:R.
    destruct (g_reads keq dflt enc dec r c1) as [c2 vs'] eqn:RS. inversion H; subst; clear H.
    destruct (gread_spec k c _ _ Hc R) as (-> & Hc1 & V1). destruct (IH _ _ _ Hc1 RS) as (-> & Hc2 & V2).
    split; [cbn; f_equal; apply map_ext; intros; apply V1|]. split; [exact Hc2|]. intros k'. rewrite V2. apply V1.
Qed.

(* after a read the entry is in memory *)
Lemma gread_present : forall k c c' v, g_read keq dflt enc dec k c = (c', v) -> lf k (c_lfu c') <> None.
Proof.
  intros k c c' v H. unfold g_read, g_step in H. cbn [Cache.step] in H. unfold l_get in H.
  destruct (lf k (c_lfu c)) as [e|] eqn:F; inversion H; subst; cbn [c_lfu].
  - rewrite glf_upd, F. destruct (keq k k); [discriminate | congruence].
  - unfold l_set. rewrite F, glf_app, F. destruct (keq k k); [discriminate | congruence].
Qed.

(* ---------- maintenance ---------- *)
Fixpoint gqf (k : K) (q : list (K * V)) : option V :=
  match q with [] => None | (k1, v) :: q' => if keq k k1 then Some v else gqf k q' end.

Lemma gqf_none : forall k q, gqf k q = None -> ~ In k (map fst q).
Proof.
  induction q as [|[k1 v] q IH]; cbn; [tauto|]. destruct (keq k k1); [discriminate|].
  intros H [E|E]; [congruence | exact (IH H E)].
Qed.

Lemma gcomplete_nodup : forall q (d : disk (K:=K) (D:=D)) k, NoDup (map fst q) ->
  complete keq enc q d k = match gqf k q with Some v => Some (enc k v) | None => d k end.
Proof.
  induction q as [|[k1 v1] q IH]; intros d k ND; [reflexivity|].
  cbn [map fst] in ND. inversion ND; subst.
  unfold complete. cbn [fold_left]. fold (complete keq enc q (save keq enc (k1, v1) d)).
  rewrite IH by assumption. cbn [gqf]. unfold save, d_set. cbn [fst snd].
  destruct (keq k k1) as [->|N]; [|reflexivity].
  destruct (gqf k1 q) eqn:Q; [|reflexivity]. exfalso. apply H1.
  clear - Q. induction q as [|[k2 v2] q IH]; cbn in *; [discriminate|].
  destruct (keq k1 k2); [left; congruence | right; auto].
Qed.

Lemma gdrain_spec : forall n (c : cache),
  snd (Cache.run keq dflt enc dec c (repeat (OSaveCompletes false) n)) =
  mkC (c_lfu c) (complete keq enc (firstn n (c_evq c)) (c_disk c)) (skipn n (c_evq c)) (c_wbq c).
Proof.
  induction n as [|n IH]; intros c; [destruct c; reflexivity|].
  cbn [repeat Cache.run Cache.step].
  destruct (c_evq c) as [|kv q] eqn:E.
  - specialize (IH c). destruct (Cache.run keq dflt enc dec c (repeat (OSaveCompletes false) n)) as [xs c2].
    cbn [snd] in *. rewrite IH, E. destruct n; reflexivity.
  - specialize (IH (mkC (c_lfu c) (save keq enc kv (c_disk c)) q (c_wbq c))).
    destruct (Cache.run keq dflt enc dec (mkC (c_lfu c) (save keq enc kv (c_disk c)) q (c_wbq c))
                (repeat (OSaveCompletes false) n)) as [xs c2].
    cbn [snd] in *. rewrite IH. reflexivity.
Qed.

Lemma gevict_exact : forall order count l l' sends, gnoPl l -> NoDup (map fst l) ->
  l_evict keq order count l = Some (l', sends) ->
  gnoPl l' /\ NoDup (map fst l') /\ NoDup (map fst sends) /\
  forall k, (gqf k sends = None /\ lf k l' = lf k l) \/
            (exists e, lf k l = Some e /\ lf k l' = None /\ gqf k sends = Some (e_val e)).
Proof.
  induction order as [|k0 order IH]; intros count l l' sends NP ND H.
  - destruct count; cbn in H; [|discriminate]. inversion H; subst.
    split; [exact NP|]. split; [exact ND|]. split; [constructor|]. intros k; left; auto.
  - destruct count; cbn in H.
    + inversion H; subst. split; [exact NP|]. split; [exact ND|]. split; [constructor|]. intros k; left; auto.
    + destruct (lf k0 l) as [e0|] eqn:E0; [|discriminate].
      destruct (Nat.eqb (e_freq e0) (l_minfreq l)); [|discriminate].
      destruct (l_evict keq order count (l_remove keq k0 l)) as [[l1 s1]|] eqn:E1; [|discriminate].
      inversion H; subst; clear H.
      assert (P0 : e_pers e0 = false) by (eapply NP; eapply l_find_In; eauto).
      rewrite P0.
      assert (NP1 : gnoPl (l_remove keq k0 l)).
      { intros k e Hi. apply In_remove in Hi. destruct Hi. eapply NP; eauto. }
      destruct (IH _ _ _ _ NP1 (gremove_nodup k0 l ND) E1) as (A & B & C & Dd).
      assert (Q0 : gqf k0 s1 = None /\ lf k0 l' = None).
      { destruct (Dd k0) as [[Q L]|(e & L & _)]; rewrite glf_remove in L; destruct (keq k0 k0); try congruence; auto. }
      destruct Q0 as [Q0 L0].
      split; [exact A|]. split; [exact B|]. split.
      * cbn [map fst]. constructor; [apply gqf_none; exact Q0 | exact C].
      * intros k. cbn [gqf]. destruct (keq k k0) as [->|N].
        -- right. exists e0. auto.
        -- destruct (Dd k) as [[Q L]|(e & L & L' & Q)]; rewrite glf_remove in L; destruct (keq k k0); try congruence.
           ++ left. auto.
           ++ right. exists e. auto.
Qed.

Lemma gqf_flush : forall k (l : lfu (K:=K) (V:=V)), gnoPl l -> gqf k (flush_sends l) = option_map (@e_val V) (lf k l).
Proof.
  induction l as [|[k1 e1] l IH]; intros NP; [reflexivity|].
  assert (P1 : e_pers e1 = false) by (apply (NP k1); left; reflexivity).
  unfold flush_sends. cbn [filter snd]. rewrite P1. cbn [negb map fst snd gqf l_find].
  destruct (keq k k1); [reflexivity|]. apply IH. intros k0 e0 Hi. eapply NP. right. exact Hi.
Qed.

Lemma gflush_keys : forall (l : lfu (K:=K) (V:=V)), gnoPl l -> map fst (flush_sends l) = map fst l.
Proof.
  induction l as [|[k1 e1] l IH]; intros NP; [reflexivity|].
  assert (P1 : e_pers e1 = false) by (apply (NP k1); left; reflexivity).
  unfold flush_sends. cbn [filter snd]. rewrite P1. cbn [negb map fst]. f_equal. apply IH.
  intros k0 e0 Hi. eapply NP. right. exact Hi.
Qed.

Definition is_maint_cop (m : cop (K:=K) (V:=V)) : Prop :=
  match m with CEvict _ _ _ | CFlushReopen => True | _ => False end.

(* Evict + completion of its saves, or Flush + reopen: every key either keeps its value or gets its reloaded value *)
Theorem gmaint_spec : forall m c, is_maint_cop m -> gcwf c ->
  gcwf (g_maint keq dflt enc dec m c) /\
  exists sel : K -> bool, forall k,
    gvget (g_maint keq dflt enc dec m c) k = if sel k then dec k (enc k (gvget c k)) else gvget c k.
Proof.
  intros m c Hm (E & W & NP & ND). destruct m as [| | | |num den order| | | |]; try destruct Hm.
  - unfold g_maint. cbn [lower1 Cache.run].
    assert (Same : forall c0, c0 = c ->
              gcwf (snd (Cache.run keq dflt enc dec c0 (repeat (OSaveCompletes false) (length order)))) /\
              exists sel : K -> bool, forall k,
                gvget (snd (Cache.run keq dflt enc dec c0 (repeat (OSaveCompletes false) (length order)))) k =
                if sel k then dec k (enc k (gvget c k)) else gvget c k).
    { intros c0 ->. rewrite gdrain_spec, E. rewrite firstn_nil, skipn_nil. cbn [complete fold_left].
      split; [repeat split; cbn; auto|]. exists (fun _ => false). intros k. reflexivity. }
    cbn [Cache.step]. destruct den as [|den'].
    { specialize (Same c eq_refl). destruct (Cache.run keq dflt enc dec c (repeat (OSaveCompletes false) (length order))). exact Same. }
    destruct (l_evict keq order (l_len (c_lfu c) * num / S den') (c_lfu c)) as [[l' sends]|] eqn:EV.
    2:{ specialize (Same c eq_refl). destruct (Cache.run keq dflt enc dec c (repeat (OSaveCompletes false) (length order))). exact Same. }
    destruct (gevict_exact _ _ _ _ _ NP ND EV) as (NP' & ND' & NDs & Dd).
    pose proof (gdrain_spec (length order) (mkC l' (c_disk c) (c_evq c ++ sends) (c_wbq c))) as DS.
    destruct (Cache.run keq dflt enc dec (mkC l' (c_disk c) (c_evq c ++ sends) (c_wbq c))
                (repeat (OSaveCompletes false) (length order))) as [xs c2].
    cbn [snd] in *. subst c2. cbn [c_lfu c_disk c_evq c_wbq]. rewrite E. cbn [app].
    assert (LEN : (length sends <= length order)%nat) by (eapply (evict_len keq); eauto).
    rewrite firstn_all2, skipn_all2 by exact LEN.
    split; [repeat split; cbn; auto|].
    exists (fun k => match gqf k sends with Some _ => true | None => false end).
    intros k. unfold gvget at 1. cbn [c_lfu c_disk]. rewrite gcomplete_nodup by exact NDs.
    destruct (Dd k) as [[Q L]|(e & L & L' & Q)]; rewrite Q.
    + rewrite L. reflexivity.
    + rewrite L'. unfold gvget. rewrite L. reflexivity.
  - unfold g_maint. cbn [lower1 Cache.run Cache.step snd]. rewrite E, W. cbn [complete fold_left].
    fold (complete keq enc (flush_sends (c_lfu c)) (c_disk c)).
    split; [repeat split; cbn; auto; [intros k e [] | constructor]|].
    exists (fun k => match lf k (c_lfu c) with Some _ => true | None => false end).
    intros k. unfold gvget at 1. cbn [c_lfu c_disk l_find].
    rewrite gcomplete_nodup by (rewrite gflush_keys by exact NP; exact ND).
    rewrite gqf_flush by exact NP. unfold gvget. destruct (lf k (c_lfu c)); reflexivity.
Qed.

End View.
