(* C02Stores.v — the lifting lemma of C02 (Proofs/C02Lift.v) instantiated for the segments cache and the dicts cache,
   and the composition "trees are decoded against a dictionary that went through its own cache".

   Both codecs round-trip EXACTLY on valid objects (builder seg: codec_roundtrip in Proofs/SegCodecProofs.v;
   builder tree-b: dict_codec_roundtrip in Proofs/DictProofs.v), so the equivalence is equality.
   FromBytes can fail; cache.Get then returns an error.  The object stores below are total: undecodable bytes stand for
   the default object.  On valid objects decoding never fails, so this choice is never exercised by the theorems —
   with one exception that is stated, not hidden: the EMPTY segment (segment.New(), root = nil) is written as a header
   without nodes and Deserialize fails on it (EOF).  It is valid here only as "exactly the default object"; in
   pkg/storage it exists in the cache only between the Get and the Put inside one Storage.Put. *)
From Coq Require Import List NArith ZArith Bool RelationClasses.
From Pyro Require Import Model.Base Model.Varint Proofs.VarintProofs Model.Segment Model.SegCodec Proofs.SegStruct Proofs.SegCodecProofs.
From Pyro Require Import Model.Tree Model.TreeCodec Proofs.TreeCodecProofs Proofs.TreeReloadProofs.
From Pyro Require Model.Dict Proofs.DictProofs.
From Pyro Require Import Model.Lfu Model.Cache Proofs.CacheProofs Proofs.C02Lift Proofs.DimCodecProofs.
Import ListNotations.

(* ---------------- segments ---------------- *)
Section Segments.
Context (enc_meta : meta -> bytes) (dec_meta : bytes -> option meta).
Context (meta_roundtrip : forall m, dec_meta (enc_meta m) = Some m).
Context (meta_short : forall m, (Nlen (enc_meta m) < 2 ^ 64)%N).
Context (Kb : Z).                                  (* the epoch block all data of the series lies in *)

Definition sg_dflt (k : bytes) : segment := Segment.s_empty.                       (* segment.New() *)
Definition sg_enc (k : bytes) (s : segment) : bytes := s_serialize enc_meta s.
Definition sg_dec (k : bytes) (bs : bytes) : segment :=
  match s_deserialize dec_meta bs with Some s => s | None => Segment.s_empty end.

(* valid: the default object, or a non-empty segment with the structural invariants of reachable segments
   (reachable_ok) whose counters and times fit their uint64/int64 fields *)
Definition sg_valid (s : segment) : Prop :=
  s = Segment.s_empty \/ (seg_ok Kb s /\ seg_bounded s /\ s_root s <> None).

Lemma sg_reachable_valid : forall s, reachable Kb s -> seg_bounded s -> s_root s <> None -> sg_valid s.
Proof. intros s R B N. right. split; [apply reachable_ok; exact R | auto]. Qed.

Lemma sg_roundtrip : forall k s, sg_valid s -> sg_dec k (sg_enc k s) = s.
Proof.
  intros k s [->|(Hok & Hb & Hn)]; unfold sg_dec, sg_enc.
  - destruct (s_deserialize dec_meta (s_serialize enc_meta Segment.s_empty)) as [s'|] eqn:E; [|reflexivity].
    exfalso. unfold s_deserialize, s_serialize in E. cbn [s_root s_meta Segment.s_empty] in E.
    rewrite uvarint_roundtrip in E by reflexivity.
    rewrite uvarint_roundtrip in E by apply meta_short.
    rewrite app_nil_r in E.
    rewrite N.ltb_irrefl in E.
    assert (T : take_bytes (N.to_nat (Nlen (enc_meta meta0))) (enc_meta meta0) = Some (enc_meta meta0, [])).
    { unfold Nlen. rewrite Nat2N.id. rewrite <- (app_nil_r (enc_meta meta0)) at 2. apply take_bytes_app. }
    rewrite T in E. rewrite meta_roundtrip in E. cbn in E. discriminate E.
  - rewrite (codec_roundtrip enc_meta dec_meta meta_roundtrip meta_short Kb s Hok Hb Hn). reflexivity.
Qed.

(* what a history may do: put valid segments; mutate by functions that keep segments valid (Segment.Put of a range
   inside the block, DeleteDataBefore, SetMetadata keep `reachable`; the bounds are the client's obligation) *)
Definition seg_op (o : op (K:=bytes) (V:=segment)) : Prop :=
  match o with
  | Cache.OPut _ s => sg_valid s
  | OMutate _ f => forall s, sg_valid s -> sg_valid (f s)
  | _ => True
  end.

Theorem segments_transparent : forall cops,
  forallb (is_sync (K:=bytes) (V:=segment)) cops = true ->
  Forall seg_op (lower cops) ->
  rets (fst (run bytes_eq_dec sg_dflt sg_enc sg_dec c_empty (lower cops))) =
  rets (fst (run bytes_eq_dec sg_dflt sg_enc sg_dec c_empty (lower (filter (fun o => negb (is_maint o)) cops)))).
Proof.
  intros cops S H.
  assert (F : Forall2 eq (rets (fst (run bytes_eq_dec sg_dflt sg_enc sg_dec c_empty (lower cops))))
                         (rets (fst (run bytes_eq_dec sg_dflt sg_enc sg_dec c_empty (lower (filter (fun o => negb (is_maint o)) cops)))))).
  { apply (cache_transparent_valid bytes_eq_dec sg_dflt sg_enc sg_dec (Pv := sg_valid) (Req := eq)); auto.
    - intros k. left. reflexivity.
    - intros k v Hv. rewrite sg_roundtrip by exact Hv. exact Hv.
    - intros k v Hv. apply sg_roundtrip. exact Hv.
    - eapply Forall_impl; [|exact H]. intros o Ho. destruct o; cbn in *; auto.
      split; [exact Ho | intros; congruence]. }
  induction F; congruence.
Qed.

End Segments.

(* ---------------- dictionaries ---------------- *)
Definition dc_dflt (k : bytes) : Dict.trie := Dict.d_new.                  (* dict.New() *)
Definition dc_enc (k : bytes) (t : Dict.trie) : bytes := Dict.d_serialize t.
Definition dc_dec (k : bytes) (bs : bytes) : Dict.trie :=
  match Dict.d_deserialize bs with Some t => t | None => Dict.d_new end.
Definition dc_valid (t : Dict.trie) : Prop := (Dict.tr_weight t < 2 ^ 64)%N.

Lemma dc_roundtrip : forall k t, dc_valid t -> dc_dec k (dc_enc k t) = t.
Proof. intros k t H. unfold dc_dec, dc_enc. rewrite DictProofs.dict_codec_roundtrip by exact H. reflexivity. Qed.

Definition dict_op (o : op (K:=bytes) (V:=Dict.trie)) : Prop :=
  match o with
  | Cache.OPut _ t => dc_valid t
  | OMutate _ f => forall t, dc_valid t -> dc_valid (f t)     (* Dict.Put of the names of a tree being serialized *)
  | _ => True
  end.

Theorem dicts_transparent : forall cops,
  forallb (is_sync (K:=bytes) (V:=Dict.trie)) cops = true ->
  Forall dict_op (lower cops) ->
  rets (fst (run bytes_eq_dec dc_dflt dc_enc dc_dec c_empty (lower cops))) =
  rets (fst (run bytes_eq_dec dc_dflt dc_enc dc_dec c_empty (lower (filter (fun o => negb (is_maint o)) cops)))).
Proof.
  intros cops S H.
  assert (F : Forall2 eq (rets (fst (run bytes_eq_dec dc_dflt dc_enc dc_dec c_empty (lower cops))))
                         (rets (fst (run bytes_eq_dec dc_dflt dc_enc dc_dec c_empty (lower (filter (fun o => negb (is_maint o)) cops)))))).
  { apply (cache_transparent_valid bytes_eq_dec dc_dflt dc_enc dc_dec (Pv := dc_valid) (Req := eq)); auto.
    - intros k. unfold dc_valid, dc_dflt. cbv. reflexivity.
    - intros k v Hv. rewrite dc_roundtrip by exact Hv. exact Hv.
    - intros k v Hv. apply dc_roundtrip. exact Hv.
    - eapply Forall_impl; [|exact H]. intros o Ho. destruct o; cbn in *; auto.
      split; [exact Ho | intros; congruence]. }
  induction F; congruence.
Qed.

(* ---------------- a tree decoded against a dictionary that lives in its own cache ----------------
   A tree t is serialized against the dictionary d held at that moment (this grows d to d1 = snd (tc_serialize cap t d)).
   Later the bytes are decoded against whatever dictionaries.Get returns then.  In the run WITHOUT evictions and
   restarts of the dictionary store that object is d1 after further growth (more Puts by later tree saves, OReload
   events); dicts_transparent says the run WITH them returns the same object at every read; tree_reload_codec says the
   bytes then decode to t_reload t.  So the abstraction used by trees_transparent_self (serialized form = t_reload t,
   independent of the dictionary) is sound whenever the dictionary store is driven under the discipline of
   C02_cache_transparent — which at Close is exactly "trees are flushed before dictionaries" (Model/FlushOrder.v:
   the growth steps caused by the tree saves are mutations of the dictionary store and must precede its flush). *)
Theorem trees_with_dict_transparent :
  forall cap t d ops (cops : list (cop (K:=bytes) (V:=Dict.trie))) i,
  t_wfb t = true -> t_fitsb t = true -> (t_size t <= cap)%nat ->
  (Dict.tr_weight d + names_weight 0 t + DictProofs.ops_weight ops < two55)%N ->
  forallb (is_sync (K:=bytes) (V:=Dict.trie)) cops = true ->
  Forall dict_op (lower cops) ->
  (* the i-th read of the dictionary store, in the run without evictions/restarts, is the grown dictionary *)
  nth_error (rets (fst (run bytes_eq_dec dc_dflt dc_enc dc_dec c_empty (lower (filter (fun o => negb (is_maint o)) cops))))) i
    = Some (fold_left Dict.d_step ops (snd (tc_serialize cap t d))) ->
  (* then the same read in the run with them decodes the tree's bytes to t_reload t *)
  exists dl, nth_error (rets (fst (run bytes_eq_dec dc_dflt dc_enc dc_dec c_empty (lower cops)))) i = Some dl /\
             tc_deserialize dl (fst (tc_serialize cap t d)) = Some (t_reload t).
Proof.
  intros cap t d ops cops i Hwf Hfit Hsz Hw S H Hn.
  rewrite <- (dicts_transparent cops S H) in Hn.
  eexists. split; [exact Hn|]. apply tree_reload_codec; assumption.
Qed.
