(* TimelineCoarse.v — C13_entries for the coarse buckets (tl_lvl >= 1) and single-slot uploads: with the range
   start on the bucket grid, entry j of the timeline is 0 when no upload falls into bucket j and otherwise
   1 + the samples uploaded into it.  populateTimeline assembles the entry from the sample counters of the
   nodes one level below the bucket size. *)
From Pyro Require Import Model.Base Model.Tree Model.Float53 Model.Segment Model.Timeline Model.Storage
  Proofs.TreeProofs Proofs.SegmentProofs Proofs.SegStruct Proofs.SegGet Proofs.SegStore Proofs.SegInv Proofs.SegRead Proofs.SegCanon Proofs.SegCount
  Proofs.StorageProofs Proofs.TimelineProofs Proofs.StorageCounters.
From Coq Require Import ZifyN ZifyNat ZifyBool Lia.
Local Open Scope Z_scope.

(* weighted count of the writes whose slot lies in [lo, hi) *)
Definition wsum (f : write -> Z) (H : list write) (lo hi : Z) : Z :=
  sumZ (map (fun w => if in_range lo hi (w_a w) then f w else 0) H).

Lemma wsum_cons f w H lo hi : wsum f (w :: H) lo hi = (if in_range lo hi (w_a w) then f w else 0) + wsum f H lo hi.
Proof. reflexivity. Qed.

Lemma wsum_join f H t0 m T a b : t0 <= m -> m <= T ->
  wsum f H (Z.max t0 a) (Z.min m b) + wsum f H (Z.max m a) (Z.min T b) = wsum f H (Z.max t0 a) (Z.min T b).
Proof.
  intros H1 H2. induction H as [|w H IH]; [reflexivity|]. rewrite !wsum_cons, <- IH. unfold in_range.
  destruct ((Z.max t0 a <=? w_a w) && (w_a w <? Z.min m b)) eqn:E1, ((Z.max m a <=? w_a w) && (w_a w <? Z.min T b)) eqn:E2,
           ((Z.max t0 a <=? w_a w) && (w_a w <? Z.min T b)) eqn:E3; lia.
Qed.

Lemma wsum_empty f H lo hi : hi <= lo -> wsum f H lo hi = 0.
Proof.
  intros Hle. induction H as [|w H IH]; [reflexivity|]. rewrite wsum_cons, IH. unfold in_range.
  destruct ((lo <=? w_a w) && (w_a w <? hi)) eqn:E; lia.
Qed.

Lemma wsum_cnt_zero f H lo hi : wsum (fun _ => 1) H lo hi = 0 -> wsum f H lo hi = 0.
Proof.
  induction H as [|w H IH]; [reflexivity|]. rewrite !wsum_cons. intros Hz.
  assert (Hn : 0 <= wsum (fun _ => 1) H lo hi).
  { clear. induction H as [|w H IH]; [cbn; lia|]. rewrite wsum_cons. destruct (in_range lo hi (w_a w)); lia. }
  destruct (in_range lo hi (w_a w)); [lia|]. apply IH. lia.
Qed.

Lemma wsum_cnt_cntZ H lo hi : wsum (fun _ => 1) H lo hi = cntZ H lo hi.
Proof. reflexivity. Qed.

Definition cntj := wsum (fun _ => 1).
Definition smpj := wsum (fun w => Z.of_N (w_smp w)).

Lemma smpj_nonneg H lo hi : 0 <= smpj H lo hi.
Proof. induction H as [|w H IH]; [cbn; lia|]. unfold smpj in *. rewrite wsum_cons. destruct (in_range lo hi (w_a w)); lia. Qed.

(* what a run of bumps does to one entry: c = number of uploads concerned, s = their samples *)
Definition accN (x : N) (c s : Z) : N := if c =? 0 then x else bump1 x (Z.to_N s).

Lemma accN_comp x c1 s1 c2 s2 : 0 <= c1 -> 0 <= c2 -> 0 <= s1 -> 0 <= s2 -> (c1 = 0 -> s1 = 0) -> (c2 = 0 -> s2 = 0) ->
  accN (accN x c1 s1) c2 s2 = accN x (c1 + c2) (s1 + s2).
Proof.
  intros Hc1 Hc2 Hs1 Hs2 Z1 Z2. unfold accN.
  destruct (Z.eqb_spec c1 0) as [E1|E1], (Z.eqb_spec c2 0) as [E2|E2].
  - replace (c1 + c2 =? 0) with true by lia. reflexivity.
  - replace (c1 + c2 =? 0) with false by lia. rewrite (Z1 E1), Z.add_0_l. reflexivity.
  - replace (c1 + c2 =? 0) with false by lia. rewrite (Z2 E2), Z.add_0_r. reflexivity.
  - replace (c1 + c2 =? 0) with false by lia. unfold bump1. rewrite Z2N.inj_add by lia.
    destruct (N.eqb_spec x 0); match goal with |- context [(?y =? 0)%N] => destruct (N.eqb_spec y 0) end; lia.
Qed.

Section Coarse.
  Variables (H : list write) (a b : Z) (dl : nat).
  Hypothesis Hab : a < b.
  Hypothesis Hdl : (1 <= dl)%nat.
  Hypothesis Hgrid : a mod pow10 dl = 0.
  Hypothesis Hs : single_slot H.
  Hypothesis Hsmp : Forall (fun w => (w_smp w < 2 ^ 53)%N) H.

  Definition Lj (j : nat) : Z := a + Z.of_nat j * pow10 dl.
  Definition Uj (j : nat) : Z := Lj j + pow10 dl.

  Lemma ssum_smpj lvl t : Z.of_N (ssum H lvl t) = smpj H t (t + pow10 lvl).
  Proof.
    unfold ssum, smpj, wsum. clear Hab Hgrid. induction H as [|w H0 IH]; [reflexivity|].
    inversion Hs as [|? ? Hw Hs']; subst. inversion Hsmp as [|? ? Hm Hsmp']; subst. cbn [filter map].
    change (sumZ (?x :: ?r)) with (x + sumZ r). rewrite <- (IH Hs' Hsmp').
    destruct (meets lvl t w) eqn:Em.
    - cbn [map]. change (sumN' (?x :: ?r)) with (x + sumN' r)%N. rewrite (wincr_single_slot lvl t w Hw Hm Em).
      replace (in_range t (t + pow10 lvl) (w_a w)) with true by (unfold in_range, meets in *; lia). lia.
    - replace (in_range t (t + pow10 lvl) (w_a w)) with false by (unfold in_range, meets in *; lia). lia.
  Qed.

  Lemma nmeet_cntj lvl t : Z.of_N (nmeet H lvl t) = cntj H t (t + pow10 lvl).
  Proof. apply nmeet_cntZ, Hs. Qed.

  Lemma nohit_cntj t0 t1 lo hi : ~ hit H t0 t1 -> cntj H (Z.max t0 lo) (Z.min t1 hi) = 0.
  Proof. intros Hn. apply (cntZ_clip_zero H t0 t1 lo hi). apply nohit_cntZ; assumption. Qed.

  (* a node below the bucket size sits inside one bucket *)
  Lemma node_in_bucket lvl t : (lvl < dl)%nat -> t mod pow10 lvl = 0 ->
    trunc_to dl t <= t /\ t + pow10 lvl <= trunc_to dl t + pow10 dl /\ trunc_to dl t mod pow10 dl = 0.
  Proof.
    intros Hl Hm. pose proof (pow10_pos lvl) as HP. pose proof (pow10_pos (dl - lvl)) as HQ.
    replace dl with (lvl + (dl - lvl))%nat at 1 2 3 4 by lia. rewrite !pow10_add.
    set (P := pow10 lvl) in *. set (Q := pow10 (dl - lvl)) in *.
    apply Z.mod_divide in Hm; [|lia]. destruct Hm as [k Hk].
    pose proof (Z.div_mod k Q ltac:(lia)) as Hd. pose proof (Z.mod_pos_bound k Q HQ) as Hr.
    assert (Hdiv : t / (P * Q) = k / Q).
    { symmetry. apply (Z.div_unique_pos t (P * Q) (k / Q) (P * (k mod Q))); nia. }
    unfold trunc_to. replace (lvl + (dl - lvl))%nat with dl by lia. fold P. 
    assert (E : pow10 dl = P * Q) by (unfold P, Q; rewrite <- pow10_add; f_equal; lia).
    rewrite E, Hdiv. split; [nia|]. split; [nia|]. apply Z.mod_mul. nia.
  Qed.

  Lemma coarse_node : forall lvl n buf j, wf lvl n -> cinv H lvl n -> winv H lvl n -> posw lvl n ->
    (j < length buf)%nat -> a + Z.of_nat (length buf) * pow10 dl <= b ->
    nth j (tl_populate_node lvl a b dl n buf) 0%N =
    accN (nth j buf 0%N) (cntj H (Z.max (sn_time n) (Lj j)) (Z.min (sn_time n + pow10 lvl) (Uj j)))
                         (smpj H (Z.max (sn_time n) (Lj j)) (Z.min (sn_time n + pow10 lvl) (Uj j))).
  Proof.
    induction lvl as [|l IH]; intros [t p s w ch] buf j Hwf Hc Hw Hp Hj Hlen; cbn [sn_time];
      pose proof (pow10_pos dl) as HD;
      assert (HLU : a <= Lj j /\ Uj j <= b) by (unfold Uj, Lj; nia).
    - (* level 0 < dl *)
      cbn [tl_populate_node]. pose proof (is_outside_spec t (pow10 0) a b (pow10_pos 0) Hab) as Ho. rewrite pow10_0 in *.
      destruct (is_outside (relationship t (t + 1) a b)) eqn:E.
      + destruct Ho as [Ho _]. specialize (Ho eq_refl). unfold accN, cntj. rewrite wsum_empty by lia. reflexivity.
      + assert (Hin : a < t + 1 /\ t < b).
        { destruct (Z.le_gt_cases (t + 1) a); [exfalso|]. - assert (X : t + 1 <= a \/ b <= t) by lia. apply Ho in X. discriminate.
          - destruct (Z.le_gt_cases b t); [exfalso; assert (X : t + 1 <= a \/ b <= t) by lia; apply Ho in X; discriminate|lia]. }
        replace (0 <? dl)%nat with true by lia.
        destruct (node_in_bucket 0 t ltac:(lia) ltac:(rewrite pow10_0; apply Z.mod_1_r)) as (T1 & T2 & T3). rewrite pow10_0 in T2.
        set (T := trunc_to dl t) in *. rewrite Z.quot_same by lia.
        assert (HTa : a <= T).
        { pose proof T3 as T3'. pose proof Hgrid as Hg'. apply Z.mod_divide in T3'; [|lia]. apply Z.mod_divide in Hg'; [|lia]. destruct T3' as [k1 E1], Hg' as [k2 E2].
          assert (k2 < k1 + 1) by nia. nia. }
        rewrite Z.quot_div_nonneg by lia.
        assert (HTi : T = a + (T - a) / pow10 dl * pow10 dl).
        { pose proof T3 as T3'. pose proof Hgrid as Hg'. apply Z.mod_divide in T3'; [|lia]. apply Z.mod_divide in Hg'; [|lia]. destruct T3' as [k1 E1], Hg' as [k2 E2].
          replace (T - a) with ((k1 - k2) * pow10 dl) by lia. rewrite Z.div_mul by lia. lia. }
        set (i := (T - a) / pow10 dl) in *. rewrite bump_range_nth by exact Hj.
        destruct (winv_fields _ _ _ _ _ _ _ Hw) as [Ew Es]. cbn [posw] in Hp. destruct Hp as [Hp _].
        pose proof (nmeet_cntj 0 t) as Hn. pose proof (ssum_smpj 0 t) as Hss. rewrite pow10_0 in Hn, Hss.
        destruct (Z.eqb_spec (0 + Z.of_nat j) i) as [Ei|Ei].
        * assert (HL : Lj j = T) by (unfold Lj; lia).
          replace (Z.max t (Lj j)) with t by lia. replace (Z.min (t + 1) (Uj j)) with (t + 1) by (unfold Uj; lia).
          unfold accN. rewrite <- Hn, <- Hss, <- Ew, <- Es. replace (Z.of_N w =? 0) with false by lia. rewrite N2Z.id. reflexivity.
        * unfold accN, cntj. rewrite wsum_empty; [reflexivity|]. unfold Uj, Lj. destruct (Z.lt_ge_cases (Z.of_nat j) i); nia.
    - cbn [tl_populate_node]. pose proof (pow10_pos (S l)) as HpS.
      pose proof (is_outside_spec t (pow10 (S l)) a b HpS Hab) as Ho.
      destruct (is_outside (relationship t (t + pow10 (S l)) a b)) eqn:E.
      + destruct Ho as [Ho _]. specialize (Ho eq_refl). unfold accN, cntj. rewrite wsum_empty by lia. reflexivity.
      + assert (Hin : a < t + pow10 (S l) /\ t < b).
        { destruct (Z.le_gt_cases (t + pow10 (S l)) a); [exfalso; assert (X : t + pow10 (S l) <= a \/ b <= t) by lia; apply Ho in X; discriminate|].
          destruct (Z.le_gt_cases b t); [exfalso; assert (X : t + pow10 (S l) <= a \/ b <= t) by lia; apply Ho in X; discriminate|lia]. }
        cbn [wf] in Hwf. destruct Hwf as (Hm & Hlen10 & Hslots). rewrite Hlen10. cbn [Nat.eqb negb andb].
        destruct (Nat.leb_spec dl (S l)) as [Hge|Hlt].
        * (* descend *)
          cbn [cinv] in Hc. cbn [winv] in Hw. destruct Hw as (_ & _ & Hwch). cbn [posw] in Hp. destruct Hp as [_ Hpch].
          rewrite pow10_S. replace (10 * pow10 l) with (Z.of_nat (length ch) * pow10 l) by (rewrite Hlen10; lia).
          clear Hlen10 Hm E Ho Hin. pose proof (pow10_pos l) as Hpl.
          revert t buf Hj Hlen Hslots Hc. induction ch as [|o ch IHch]; intros t0 buf Hj Hlen Hsl Hq.
          { cbn [fold_left length]. unfold accN, cntj. rewrite wsum_empty by lia. reflexivity. }
          cbn [fold_left length]. cbn [slots qslots] in Hsl, Hq. destruct Hsl as [Ho Hsr]. destruct Hq as [Hqo Hqr].
          inversion Hwch as [|? ? Hwo Hwr]; subst. inversion Hpch as [|? ? Hpo Hpr]; subst.
          set (buf1 := match o with Some c => tl_populate_node l a b dl c buf | None => buf end).
          assert (Hlen1 : length buf1 = length buf) by (unfold buf1; destruct o; [apply tl_populate_node_length|reflexivity]).
          rewrite (IHch Hwr Hpr (t0 + pow10 l) buf1) by (rewrite ?Hlen1; assumption).
          replace (t0 + pow10 l + Z.of_nat (length ch) * pow10 l) with (t0 + Z.of_nat (S (length ch)) * pow10 l) by lia.
          assert (Hfirst : nth j buf1 0%N = accN (nth j buf 0%N) (cntj H (Z.max t0 (Lj j)) (Z.min (t0 + pow10 l) (Uj j)))
                                                 (smpj H (Z.max t0 (Lj j)) (Z.min (t0 + pow10 l) (Uj j)))).
          { unfold buf1. destruct o as [c|].
            - destruct Ho as [Ht Hwc]. rewrite (IH c buf j Hwc Hqo Hwo Hpo Hj Hlen), Ht. reflexivity.
            - unfold accN. rewrite (nohit_cntj _ _ _ _ Hqo). reflexivity. }
          rewrite Hfirst, accN_comp.
          -- unfold cntj, smpj. rewrite !(wsum_join _ H t0 (t0 + pow10 l) (t0 + Z.of_nat (S (length ch)) * pow10 l) (Lj j) (Uj j)) by lia. reflexivity.
          -- unfold cntj. rewrite wsum_cnt_cntZ. apply cntZ_nonneg.
          -- unfold cntj. rewrite wsum_cnt_cntZ. apply cntZ_nonneg.
          -- apply smpj_nonneg.
          -- apply smpj_nonneg.
          -- apply wsum_cnt_zero.
          -- apply wsum_cnt_zero.
        * (* the node is below the bucket size: one bump *)
          replace (S l <? dl)%nat with true by lia.
          destruct (node_in_bucket (S l) t ltac:(lia) Hm) as (T1 & T2 & T3).
          set (T := trunc_to dl t) in *. rewrite Z.quot_same by lia.
          assert (HTa : a <= T).
          { pose proof T3 as T3'. pose proof Hgrid as Hg'. apply Z.mod_divide in T3'; [|lia]. apply Z.mod_divide in Hg'; [|lia]. destruct T3' as [k1 E1], Hg' as [k2 E2].
          assert (k2 < k1 + 1) by nia. nia. }
          rewrite Z.quot_div_nonneg by lia.
          assert (HTi : T = a + (T - a) / pow10 dl * pow10 dl).
          { pose proof T3 as T3'. pose proof Hgrid as Hg'. apply Z.mod_divide in T3'; [|lia]. apply Z.mod_divide in Hg'; [|lia]. destruct T3' as [k1 E1], Hg' as [k2 E2].
            replace (T - a) with ((k1 - k2) * pow10 dl) by lia. rewrite Z.div_mul by lia. lia. }
          set (i := (T - a) / pow10 dl) in *. rewrite bump_range_nth by exact Hj.
          destruct (winv_fields _ _ _ _ _ _ _ Hw) as [Ew Es]. cbn [posw] in Hp. destruct Hp as [Hp _].
          pose proof (nmeet_cntj (S l) t) as Hn. pose proof (ssum_smpj (S l) t) as Hss.
          destruct (Z.eqb_spec (0 + Z.of_nat j) i) as [Ei|Ei].
          -- assert (HL : Lj j = T) by (unfold Lj; lia).
             replace (Z.max t (Lj j)) with t by lia. replace (Z.min (t + pow10 (S l)) (Uj j)) with (t + pow10 (S l)) by (unfold Uj; lia).
             unfold accN. rewrite <- Hn, <- Hss, <- Ew, <- Es. replace (Z.of_N w =? 0) with false by lia. rewrite N2Z.id. reflexivity.
          -- unfold accN, cntj. rewrite wsum_empty; [reflexivity|]. unfold Uj, Lj. destruct (Z.lt_ge_cases (Z.of_nat j) i); nia.
  Qed.
End Coarse.

(* one series bumps entry j of a coarse timeline by the uploads that fall into bucket j *)
Lemma coarse_series_gen K ws tl : Forall (valid_write K) ws -> single_slot ws ->
  Forall (fun w => (w_smp w < 2 ^ 53)%N) ws -> tl_st tl < tl_et tl -> (1 <= tl_lvl tl)%nat ->
  tl_st tl mod pow10 (tl_lvl tl) = 0 ->
  tl_st tl + Z.of_nat (length (tl_samples tl)) * pow10 (tl_lvl tl) <= tl_et tl ->
  forall j, (j < length (tl_samples tl))%nat ->
  nth j (tl_samples (tl_populate (fst (run_writes ws)) tl)) 0%N =
  accN (nth j (tl_samples tl) 0%N) (cntj ws (Lj (tl_st tl) (tl_lvl tl) j) (Uj (tl_st tl) (tl_lvl tl) j))
                                   (smpj ws (Lj (tl_st tl) (tl_lvl tl) j) (Uj (tl_st tl) (tl_lvl tl) j)).
Proof.
  intros Hv Hs Hsmp Hab Hdl Hgrid Hlen j Hj. set (a := tl_st tl) in *. set (b := tl_et tl) in *. set (dl := tl_lvl tl) in *.
  pose proof (run_invs K ws Hv Hs) as HI. pose proof (run_posw ws Hs) as HP.
  destruct (seg_counters_exact K ws Hv (single_short ws Hs)) as [HW _].
  unfold tl_populate, root_posw, root_winv in *.
  destruct (s_root (fst (run_writes ws))) as [[lvl n]|].
  - destruct HI as (Hwf & Hc & _ & Hh). apply cinv_rev' in Hc. cbn [tl_samples]. fold a b dl.
    rewrite (coarse_node ws a b dl Hab Hdl Hgrid Hs Hsmp lvl n _ j Hwf Hc HW HP Hj Hlen).
    pose proof (pow10_pos dl) as HD.
    assert (E : forall f, wsum f ws (Z.max (sn_time n) (Lj a dl j)) (Z.min (sn_time n + pow10 lvl) (Uj a dl j)) = wsum f ws (Lj a dl j) (Uj a dl j)).
    { intros f. unfold wsum. f_equal. apply map_ext_in. intros w Hin. unfold hist_in in Hh. rewrite Forall_forall in Hh.
      destruct (Hh w (proj1 (in_rev ws w) Hin)) as (_ & G2 & G3).
      unfold single_slot in Hs. rewrite Forall_forall in Hs. specialize (Hs w Hin). unfold in_range.
      destruct ((Z.max (sn_time n) (Lj a dl j) <=? w_a w) && (w_a w <? Z.min (sn_time n + pow10 lvl) (Uj a dl j))) eqn:E1,
               ((Lj a dl j <=? w_a w) && (w_a w <? Uj a dl j)) eqn:E2; try reflexivity; lia. }
    unfold cntj, smpj. rewrite !E. reflexivity.
  - subst ws. unfold accN. cbn. reflexivity.
Qed.

(* C13_entries, coarse buckets, one series *)
Lemma coarse_single_series K ws a b : Forall (valid_write K) ws -> single_slot ws ->
  Forall (fun w => (w_smp w < 2 ^ 53)%N) ws -> a < b ->
  let dl := tl_lvl (tl_generate a b) in
  (1 <= dl)%nat -> a mod pow10 dl = 0 ->
  forall j, (j < length (tl_samples (tl_generate a b)))%nat ->
  nth j (tl_samples (tl_populate (fst (run_writes ws)) (tl_generate a b))) 0%N =
  if cntj ws (Lj a dl j) (Uj a dl j) =? 0 then 0%N else (1 + Z.to_N (smpj ws (Lj a dl j) (Uj a dl j)))%N.
Proof.
  intros Hv Hs Hsmp Hab dl Hdl Hgrid j Hj.
  assert (Hz : forall i, nth i (tl_samples (tl_generate a b)) 0%N = 0%N).
  { intros i. unfold tl_generate. cbn [tl_samples]. generalize (Z.to_nat (Z.quot (b - a) (pow10 (pick_level [0; 1; 2; 3; 4; 5; 6; 7; 8]%nat (Z.quot ((b - a) * ns_per_slot) 1024) 0)))).
    intros m. revert i. induction m as [|m IHm]; intros [|i]; cbn [repeat nth]; auto. }
  rewrite (coarse_series_gen K ws (tl_generate a b) Hv Hs Hsmp); try assumption.
  - rewrite Hz. unfold accN, bump1. cbn [tl_generate tl_st]. fold dl. destruct (_ =? 0); reflexivity.
  - change (tl_st (tl_generate a b)) with a. change (tl_et (tl_generate a b)) with b. fold dl.
    rewrite tl_generate_length. fold dl. pose proof (pow10_pos dl). rewrite Z2Nat.id by (apply Z.quot_pos; lia).
    rewrite Z.quot_div_nonneg by lia. pose proof (Z.mul_div_le (b - a) (pow10 dl) ltac:(lia)). lia.
Qed.

(* ---- several matching series (storage level) ---- *)
Lemma accN_fold {A} (c s : A -> Z) l : (forall x, 0 <= c x /\ 0 <= s x /\ (c x = 0 -> s x = 0)) -> forall v c0 s0,
  0 <= c0 -> 0 <= s0 -> (c0 = 0 -> s0 = 0) ->
  fold_left (fun v x => accN v (c x) (s x)) l (accN v c0 s0) = accN v (c0 + sumZ (map c l)) (s0 + sumZ (map s l)).
Proof.
  intros Hcs. induction l as [|x l IH]; intros v c0 s0 H1 H2 H3; cbn [fold_left map].
  - change (sumZ []) with 0. rewrite !Z.add_0_r. reflexivity.
  - destruct (Hcs x) as (X1 & X2 & X3). rewrite accN_comp by assumption.
    rewrite IH; [| lia | lia | intros E; assert (E0 : c0 = 0) by lia; assert (Ex : c x = 0) by lia; rewrite (H3 E0), (X3 Ex); lia].
    change (sumZ (?y :: ?r)) with (y + sumZ r). f_equal; lia.
Qed.

Lemma coarse_fold K (W : sid * segment -> list write) m : forall tl,
  (forall ks, In ks m -> s_root (snd ks) = s_root (fst (run_writes (W ks))) /\ Forall (valid_write K) (W ks) /\
                         single_slot (W ks) /\ Forall (fun w => (w_smp w < 2 ^ 53)%N) (W ks)) ->
  tl_st tl < tl_et tl -> (1 <= tl_lvl tl)%nat -> tl_st tl mod pow10 (tl_lvl tl) = 0 ->
  tl_st tl + Z.of_nat (length (tl_samples tl)) * pow10 (tl_lvl tl) <= tl_et tl ->
  forall j, (j < length (tl_samples tl))%nat ->
  nth j (tl_samples (fold_left (fun tl ks => tl_populate (snd ks) tl) m tl)) 0%N =
  fold_left (fun v ks => accN v (cntj (W ks) (Lj (tl_st tl) (tl_lvl tl) j) (Uj (tl_st tl) (tl_lvl tl) j))
                                (smpj (W ks) (Lj (tl_st tl) (tl_lvl tl) j) (Uj (tl_st tl) (tl_lvl tl) j)))
            m (nth j (tl_samples tl) 0%N).
Proof.
  induction m as [|ks m IH]; intros tl HW Hab Hdl Hgrid Hlen j Hj; [reflexivity|]. cbn [fold_left].
  destruct (HW ks (or_introl eq_refl)) as (Hr & Hv & Hs & Hsmp).
  rewrite (tl_populate_root _ _ tl Hr).
  destruct (tl_populate_shape (fst (run_writes (W ks))) tl) as (G1 & G2 & G3).
  pose proof (tl_populate_length (fst (run_writes (W ks))) tl) as G4.
  rewrite IH; rewrite ?G1, ?G2, ?G3, ?G4; try assumption.
  - rewrite (coarse_series_gen K (W ks) tl Hv Hs Hsmp Hab Hdl Hgrid Hlen j Hj). reflexivity.
  - intros x Hx. apply HW. right. exact Hx.
Qed.

Lemma filter_filter_andb {A} (p q : A -> bool) l : filter q (filter p l) = filter (fun x => p x && q x) l.
Proof. induction l as [|x l IH]; [reflexivity|]. cbn [filter]. destruct (p x); cbn [filter andb]; [destruct (q x); rewrite IH; reflexivity|exact IH]. Qed.

Lemma sum_if_filter {A} (q : A -> bool) (f : A -> N) l :
  sumZ (map (fun x => if q x then Z.of_N (f x) else 0) l) = Z.of_N (sumN (map f (filter q l))).
Proof.
  induction l as [|x l IH]; [reflexivity|]. cbn [map filter]. change (sumZ (?y :: ?r)) with (y + sumZ r). rewrite IH.
  destruct (q x); cbn [map]; [change (sumN (?y :: ?r)) with (y + sumN r)%N|]; lia.
Qed.

Definition up_in (lo hi : Z) (pi : put_input) : bool := in_range lo hi (fst (pi_ab pi)).

(* C13_entries, coarse buckets, storage level: entry j = 0 when no upload into a matching series falls into
   bucket j = [a + j*10^dl, a + (j+1)*10^dl), else 1 + the total samples of those uploads *)
Lemma timeline_entries_coarse K pis sel from until out :
  Forall (single_put K) pis -> Forall small_total pis -> key_consistent pis ->
  let ab := s_normalize_unix (from, until) in
  let dl := tl_lvl (tl_generate (fst ab) (snd ab)) in
  fst ab < snd ab -> (1 <= dl)%nat -> fst ab mod pow10 dl = 0 ->
  st_get sel from until (st_after pis) = Some out ->
  forall j, (j < length (tl_samples (go_timeline out)))%nat ->
    let ups := filter (fun pi => sel_matches sel (pi_sid pi) && up_in (Lj (fst ab) dl j) (Uj (fst ab) dl j) pi) pis in
    nth j (tl_samples (go_timeline out)) 0%N =
    match ups with [] => 0%N | _ => (1 + sumN (map (fun pi => t_total (pi_tree pi)) ups))%N end.
Proof.
  intros Hp Hsm Hc ab dl Hab Hdl Hgrid Hget j Hj ups.
  assert (Hex : Forall (exact_put K) pis) by (eapply Forall_impl; [|exact Hp]; intros pi H; apply H).
  assert (Hgood : Forall good_put pis) by (eapply Forall_impl; [|exact Hex]; intros pi H; apply H).
  destruct (Inv_after [] pis Hgood) as (HR & _ & _). destruct (Inv2_after pis) as [HS _].
  rewrite st_get_eq in Hget. cbv zeta in Hget. fold ab in Hget. destruct (merge_serial _); [|discriminate].
  injection Hget as <-. cbn [go_timeline] in *.
  set (m := st_matching sel (st_after pis)) in *. set (tl0 := tl_generate (fst ab) (snd ab)) in *.
  destruct (tl_populate_all_shape (map snd m) tl0) as (_ & _ & _ & S4). cbn zeta in S4.
  assert (Efold : forall tl, fold_left (fun tl s => tl_populate s tl) (map snd m) tl = fold_left (fun tl ks => tl_populate (snd ks) tl) m tl).
  { clear. induction m as [|ks m IH]; intros tl; [reflexivity|]. cbn [map fold_left]. apply IH. }
  rewrite Efold in S4. rewrite S4 in Hj.
  pose proof (pow10_pos dl) as HD.
  assert (Hlen : fst ab + Z.of_nat (length (tl_samples tl0)) * pow10 dl <= snd ab).
  { unfold tl0. rewrite tl_generate_length. change (tl_lvl (tl_generate (fst ab) (snd ab))) with dl. rewrite Z2Nat.id by (apply Z.quot_pos; lia).
    rewrite Z.quot_div_nonneg by lia. pose proof (Z.mul_div_le (snd ab - fst ab) (pow10 dl) ltac:(lia)). lia. }
  rewrite (coarse_fold K (fun ks => ws (sid_key (fst ks)) [] pis) m tl0); try assumption.
  2:{ intros ks Hks. unfold m, st_matching in Hks. apply filter_In in Hks. destruct Hks as [Hks _]. split; [|split; [|split]].
      - rewrite <- HR. unfold root_of. rewrite (sorted_lookup _ HS ks Hks). reflexivity.
      - apply ws_valid, Hex.
      - apply (ws_single K), Hp.
      - unfold ws. apply Forall_forall. intros w Hw. apply in_map_iff in Hw. destruct Hw as (pi & <- & Hpi).
        apply filter_In in Hpi. destruct Hpi as [Hpi _]. rewrite Forall_forall in Hsm. exact (Hsm pi Hpi). }
  change (tl_st tl0) with (fst ab). change (tl_lvl tl0) with dl.
  set (lo := Lj (fst ab) dl j). set (hi := Uj (fst ab) dl j).
  assert (Hz : nth j (tl_samples tl0) 0%N = accN 0%N 0 0).
  { unfold tl0, tl_generate, accN. cbn [tl_samples Z.eqb]. generalize (Z.to_nat (Z.quot (snd ab - fst ab) (pow10 (pick_level [0; 1; 2; 3; 4; 5; 6; 7; 8]%nat (Z.quot ((snd ab - fst ab) * ns_per_slot) 1024) 0)))).
    intros n. clear. revert j. induction n as [|n IHn]; intros [|i]; cbn [repeat nth]; auto. }
  rewrite Hz, (accN_fold (fun ks => cntj (ws (sid_key (fst ks)) [] pis) lo hi) (fun ks => smpj (ws (sid_key (fst ks)) [] pis) lo hi)); try lia.
  2:{ intros ks. split; [unfold cntj; rewrite wsum_cnt_cntZ; apply cntZ_nonneg|]. split; [apply smpj_nonneg|apply wsum_cnt_zero]. }
  (* regroup by uploads *)
  assert (EC : sumZ (map (fun ks => cntj (ws (sid_key (fst ks)) [] pis) lo hi) m) = Z.of_nat (length ups)).
  { transitivity (sumZ (map (fun ks => sumZ (map (fun pi => if up_in lo hi pi then 1 else 0) (series_puts (sid_key (fst ks)) pis))) m)).
    - f_equal. apply map_ext. intros ks. unfold cntj, wsum, ws. rewrite map_map. reflexivity.
    - unfold m. rewrite (regroup_puts (fun pi => if up_in lo hi pi then 1 else 0) pis sel Hc), sum_indicator, filter_filter_andb. reflexivity. }
  assert (ES : sumZ (map (fun ks => smpj (ws (sid_key (fst ks)) [] pis) lo hi) m) = Z.of_N (sumN (map (fun pi => t_total (pi_tree pi)) ups))).
  { transitivity (sumZ (map (fun ks => sumZ (map (fun pi => if up_in lo hi pi then Z.of_N (t_total (pi_tree pi)) else 0) (series_puts (sid_key (fst ks)) pis))) m)).
    - f_equal. apply map_ext. intros ks. unfold smpj, wsum, ws. rewrite map_map. reflexivity.
    - unfold m. rewrite (regroup_puts (fun pi => if up_in lo hi pi then Z.of_N (t_total (pi_tree pi)) else 0) pis sel Hc).
      rewrite (sum_if_filter (up_in lo hi) (fun pi => t_total (pi_tree pi))), filter_filter_andb. reflexivity. }
  rewrite !Z.add_0_l, EC, ES. unfold accN, bump1. destruct ups as [|u0 ups']; cbn [length]; [reflexivity|].
  replace (Z.of_nat (S (length ups')) =? 0) with false by lia. cbn [N.eqb]. rewrite N2Z.id. reflexivity.
Qed.
