(* TimelineBound.v — C13 for uploads whose sample count is NOT a multiple of the span: the bound.
   For uploads of 1..9 slots with any counts below 2^52 and 10 s buckets, entry k of the timeline is 0 iff no
   upload covers slot a+k, and otherwise 1 + the sum of the uploads' binary64 shares of that slot; each share
   uint64(float64(c) * RN(1/n)) is within 1 of floor(c/n) (Float53Bound.share_bound), so the entry is within
   (number of uploads covering the slot) of 1 + sum of floor(c_w / n_w), and the ten-second entries of one upload
   add up to within n of ... see upload_total_bound.  Exactness (C13_entries_even) needs n | c. *)
From Pyro Require Import Model.Base Model.Tree Model.Float53 Model.Segment Model.Timeline
  Proofs.SegmentProofs Proofs.SegStruct Proofs.SegGet Proofs.SegStore Proofs.SegInv Proofs.SegRead Proofs.SegCanon
  Proofs.SegCount Proofs.Float53Proofs Proofs.Float53Share Proofs.Float53Bound Proofs.TimelineProofs Proofs.StorageCounters.
From Coq Require Import ZifyN ZifyNat ZifyBool Lia.
Local Open Scope Z_scope.

(* floor of the exact share of bucket (lvl,t) of upload w *)
Definition fshare (lvl : nat) (t : Z) (w : write) : Z :=
  Z.of_N (w_smp w) * ov t (t + pow10 lvl) (w_a w) (w_b w) / (w_b w - w_a w).

Definition bounded_write (w : write) : Prop := w_a w < w_b w /\ (w_smp w < 2 ^ 52)%N.

Lemma wincr_bound lvl t w : bounded_write w -> meets lvl t w = true ->
  fshare lvl t w - 1 <= Z.of_N (wincr lvl t w) <= fshare lvl t w + 1.
Proof.
  intros [Hab Hc] Hm. unfold wincr, fshare. unfold meets in Hm. pose proof (pow10_pos lvl).
  set (m := ov t (t + pow10 lvl) (w_a w) (w_b w)). set (n := w_b w - w_a w).
  assert (Hmn : 1 <= m <= n) by (unfold m, n, ov; lia).
  destruct (share_bound n m (w_smp w) Hmn Hc) as [_ H2]. cbv zeta in H2. exact H2.
Qed.

Lemma ssum_bound H lvl t : Forall bounded_write H ->
  Z.abs (Z.of_N (ssum H lvl t) - sumZ (map (fshare lvl t) (filter (meets lvl t) H))) <= Z.of_N (nmeet H lvl t).
Proof.
  intros HH. unfold ssum, nmeet. induction HH as [|w H Hw _ IH]; [cbn; lia|].
  cbn [filter]. destruct (meets lvl t w) eqn:Em; [|exact IH]. cbn [map length].
  change (sumN' (?x :: ?r)) with (x + sumN' r)%N. change (sumZ (?x :: ?r)) with (x + sumZ r).
  pose proof (wincr_bound lvl t w Hw Em). lia.
Qed.

(* ---- 10 s buckets, one series, uploads of 1..9 slots with arbitrary counts ---- *)
Definition short_ws (ws : list write) : Prop := Forall (fun w => w_b w - w_a w < 10) ws.

Lemma run_invs_short K ws : Forall (valid_write K) ws -> short_ws ws ->
  match s_root (fst (run_writes ws)) with
  | None => ws = []
  | Some (lvl, n) => wf lvl n /\ cinv ws lvl n /\ winv ws lvl n /\ posw lvl n /\ hist_in lvl (sn_time n) (rev ws)
  end.
Proof.
  intros Hv Hsh. pose proof (run_root K ws Hv) as HR.
  assert (Hs0 : sinv K s_empty store0 []) by (unfold sinv; cbn; split; reflexivity).
  pose proof (run_cinv K ws s_empty store0 [] Hv Hsh Hs0 I) as HC. rewrite app_nil_r in HC. fold (run_writes ws) in HC.
  destruct (seg_counters_exact K ws Hv Hsh) as [HW _].
  assert (Hg : Forall (fun w => w_a w < w_b w) ws) by (eapply Forall_impl; [|exact Hv]; intros w [[G _] _]; exact G).
  pose proof (run_posw_gen ws Hg) as HP.
  unfold root_cinv, root_winv, root_posw in *. destruct (s_root (fst (run_writes ws))) as [[lvl n]|]; [|exact HR].
  destruct HR as (Hwf & _ & _ & Hh). split; [exact Hwf|]. split; [apply cinv_rev', HC|]. split; [exact HW|]. split; [exact HP|exact Hh].
Qed.

(* entry k of a 10 s timeline: 0 when no upload covers the slot, else 1 + the counter of the slot *)
Lemma entries10_short K ws a b : Forall (valid_write K) ws -> short_ws ws -> a < b -> tl_lvl (tl_generate a b) = O ->
  forall k, (k < Z.to_nat (b - a))%nat ->
  nth k (tl_samples (tl_populate (fst (run_writes ws)) (tl_generate a b))) 0%N =
  if (nmeet ws 0 (a + Z.of_nat k) =? 0)%N then 0%N else (1 + ssum ws 0 (a + Z.of_nat k))%N.
Proof.
  intros Hv Hsh Hab Hlvl k Hk.
  assert (Hlen : length (tl_samples (tl_generate a b)) = Z.to_nat (b - a)).
  { rewrite tl_generate_length, Hlvl, pow10_0, Z.quot_1_r. reflexivity. }
  assert (Hz : forall j, nth j (tl_samples (tl_generate a b)) 0%N = 0%N).
  { intros j. unfold tl_generate. cbn [tl_samples]. generalize (Z.to_nat (Z.quot (b - a) (pow10 (pick_level [0; 1; 2; 3; 4; 5; 6; 7; 8]%nat (Z.quot ((b - a) * ns_per_slot) 1024) 0)))).
    intros m. revert j. induction m as [|m IHm]; intros [|j]; cbn [repeat nth]; auto. }
  pose proof (run_invs_short K ws Hv Hsh) as HI. unfold tl_populate.
  set (t := a + Z.of_nat k).
  destruct (s_root (fst (run_writes ws))) as [[lvl n]|].
  - destruct HI as (Hwf & Hc & HW & HP & Hh). cbn [tl_samples]. rewrite Hlvl.
    change (tl_st (tl_generate a b)) with a. change (tl_et (tl_generate a b)) with b.
    rewrite (populate_leaves lvl a b n _ Hab Hwf).
    rewrite (fold_bump_nth a b _ _ _ _ k (leaves_chain lvl n Hwf)) by (rewrite ?Hlen; lia).
    rewrite Hz. fold t.
    destruct (leaf_at t (leaves lvl n)) as [s|] eqn:El.
    + apply leaf_at_in in El. destruct (leaf_in_counters ws lvl n HW HP t s El) as [Es En].
      replace (nmeet ws 0 t =? 0)%N with false by lia. unfold bump1. cbn. rewrite Es. reflexivity.
    + destruct (nmeet ws 0 t =? 0)%N eqn:En; [reflexivity|]. exfalso.
      unfold nmeet in En. destruct (filter (meets 0 t) ws) as [|w0 l0] eqn:Ef; [cbn in En; discriminate|].
      assert (Hin : In w0 ws /\ meets 0 t w0 = true) by (apply filter_In; rewrite Ef; left; reflexivity).
      destruct Hin as [Hin Hm]. unfold meets in Hm. rewrite pow10_0 in Hm.
      unfold hist_in in Hh. rewrite Forall_forall in Hh. destruct (Hh w0 (proj1 (in_rev ws w0) Hin)) as ((G1 & _) & G2 & G3).
      apply (leaf_at_hit ws lvl n t Hwf Hc); [lia| |exact El]. exists w0. split; [exact Hin|lia].
  - subst ws. cbn. rewrite Hz. reflexivity.
Qed.

(* C13_entries_bound, one series, 10 s buckets *)
Theorem entries_bound_single_series K ws a b : Forall (valid_write K) ws -> short_ws ws ->
  Forall (fun w => (w_smp w < 2 ^ 52)%N) ws -> a < b -> tl_lvl (tl_generate a b) = O ->
  forall k, (k < Z.to_nat (b - a))%nat ->
  let t := a + Z.of_nat k in
  let e := Z.of_N (nth k (tl_samples (tl_populate (fst (run_writes ws)) (tl_generate a b))) 0%N) in
  let cover := filter (meets 0 t) ws in
  (cover = [] -> e = 0) /\
  (cover <> [] -> Z.abs (e - (1 + sumZ (map (fshare 0 t) cover))) <= Z.of_nat (length cover)).
Proof.
  intros Hv Hsh Hc Hab Hlvl k Hk. cbv zeta. rewrite (entries10_short K ws a b Hv Hsh Hab Hlvl k Hk).
  set (t := a + Z.of_nat k).
  assert (Hb : Forall bounded_write ws).
  { rewrite Forall_forall in *. intros w Hw. split; [destruct (Hv w Hw) as [[G _] _]; exact G|apply Hc, Hw]. }
  pose proof (ssum_bound ws 0 t Hb) as HB. unfold nmeet in *.
  destruct (filter (meets 0 t) ws) as [|w0 l0] eqn:Ef.
  - split; [reflexivity|congruence].
  - split; [discriminate|]. intros _. cbn [length] in *.
    replace (N.of_nat (S (length l0)) =? 0)%N with false by lia. lia.
Qed.

(* the 10 s counters of ONE upload of n slots and c samples add up to within 2n of c:
   each slot gets floor(c/n) - 1 .. floor(c/n) + 1 *)
Theorem upload_slot_bound (n : Z) (c : N) : 1 <= n -> (c < 2 ^ 52)%N ->
  Z.of_N c / n - 1 <= Z.of_N (samples_incr c 1 n) <= Z.of_N c / n + 1.
Proof.
  intros Hn Hc. destruct (share_bound n 1 c ltac:(lia) Hc) as [_ H]. cbv zeta in H. rewrite Z.mul_1_r in H. exact H.
Qed.
