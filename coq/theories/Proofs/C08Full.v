(* C08Full.v — C08_atomic_read_fine for the FULL access-table threads of Model/Conc.v, for all parameters.
   Proves, for every series s and all parameters (any dimensions, trees, addon trees, cache hits or misses), that
   Storage.Put / Storage.Delete+retention / the write-back and eviction tasks / the cache savers / renders that are
   not observed keep their tracked writes inside one segment write section ([wdisc]), and that a render keeps its
   tracked reads inside one segment read section ([rdisc]); then instantiates Proofs/C08Reduction.atomic_read_fine
   for ANY number of such threads and any schedule, and builds the explicit coarse schedule (whole ingests in
   section order, then the render) that produces the same observation in the coarse model. *)
From Pyro Require Import Model.Base Model.Conc Model.ConcData Proofs.ConcProofs Proofs.C08Reduction.
From Coq Require Import Lia Arith.
Open Scope nat_scope.

Section Full.
Variable s : nat.

(* a piece of code that the writer discipline check can skip (it keeps the held set and the started flag) *)
Definition wn (st : bool) (h : held) (a : thread) : Prop :=
  forall rest, wdisc s st h (a ++ rest) = wdisc s st h rest.
Definition rn (st : bool) (h : held) (a : thread) : Prop :=
  forall rest, rdisc s st h (a ++ rest) = rdisc s st h rest.

Lemma wn_nil : forall st h, wn st h [].
Proof. intros st h rest. reflexivity. Qed.
Lemma wn_app : forall st h a b, wn st h a -> wn st h b -> wn st h (a ++ b).
Proof. intros st h a b Ha Hb rest. rewrite <- app_assoc, Ha. apply Hb. Qed.
Lemma wn_flat_map : forall A st h (f : A -> thread) xs, (forall x, wn st h (f x)) -> wn st h (flat_map f xs).
Proof. intros A st h f xs H. induction xs as [|x xs IH]; cbn; [apply wn_nil | apply wn_app; auto]. Qed.
Lemma wn_acc_quiet : forall st h x w a, is_twrite s (Acc x w) = false -> wn st h a -> wn st h (Acc x w :: a).
Proof.
  intros st h x w a Hq Ha rest. cbn [app wdisc apply_held]. rewrite Hq, orb_false_r. cbn [andb]. apply Ha.
Qed.
Lemma wn_acc_write : forall h x a,
  holds_w (LSeg s) h = true -> wn true h a -> wn true h (Acc x true :: a).
Proof.
  intros h x a Hh Ha rest. cbn [app wdisc apply_held orb].
  destruct (is_twrite s (Acc x true)); rewrite ?Hh; cbn [andb]; apply Ha.
Qed.
Lemma wn_locked : forall st h l m body,
  (mode_eqb m MW && lock_eqb l (LSeg s) && st) = false ->
  wn st ((l, m) :: h) body -> wn st h (locked l m body).
Proof.
  intros st h l m body Hc Hb rest. unfold locked. cbn [app]. rewrite <- app_assoc.
  cbn [wdisc is_twrite apply_held orb andb]. rewrite orb_false_r. rewrite Hb.
  cbn [app wdisc is_twrite apply_held]. rewrite orb_false_r, remove_held_head.
  destruct m; cbn [andb]; auto.
  cbn [mode_eqb andb] in Hc. rewrite Hc. reflexivity.
Qed.
Lemma wn_wdisc : forall a, wn false [] a -> wdisc s false [] a = true.
Proof. intros a H. rewrite <- (app_nil_r a). rewrite H. reflexivity. Qed.

Lemma rn_nil : forall st h, rn st h [].
Proof. intros st h rest. reflexivity. Qed.
Lemma rn_app : forall st h a b, rn st h a -> rn st h b -> rn st h (a ++ b).
Proof. intros st h a b Ha Hb rest. rewrite <- app_assoc, Ha. apply Hb. Qed.
Lemma rn_flat_map : forall A st h (f : A -> thread) xs, (forall x, rn st h (f x)) -> rn st h (flat_map f xs).
Proof. intros A st h f xs H. induction xs as [|x xs IH]; cbn; [apply rn_nil | apply rn_app; auto]. Qed.
Lemma rn_acc_quiet : forall st h x w a,
  is_twrite s (Acc x w) = false -> is_tread s (Acc x w) = false -> rn st h a -> rn st h (Acc x w :: a).
Proof.
  intros st h x w a Hq Hr Ha rest. cbn [app rdisc apply_held]. rewrite Hq, Hr, orb_false_r. cbn [andb negb]. apply Ha.
Qed.
Lemma rn_acc_read : forall h x a,
  holds (LSeg s) h = true -> rn true h a -> rn true h (Acc x false :: a).
Proof.
  intros h x a Hh Ha rest. cbn [app rdisc apply_held orb is_twrite negb andb].
  destruct (is_tread s (Acc x false)); rewrite ?Hh; cbn [andb]; apply Ha.
Qed.
Lemma rn_locked : forall st h l m body,
  (lock_eqb l (LSeg s) && st) = false ->
  rn st ((l, m) :: h) body -> rn st h (locked l m body).
Proof.
  intros st h l m body Hc Hb rest. unfold locked. cbn [app]. rewrite <- app_assoc.
  cbn [rdisc is_twrite is_tread apply_held orb andb negb]. rewrite orb_false_r. rewrite Hb.
  cbn [app rdisc is_twrite is_tread apply_held negb andb]. rewrite orb_false_r, remove_held_head, Hc. reflexivity.
Qed.
Lemma rn_rdisc : forall a, rn false [] a -> rdisc s false [] a = true.
Proof. intros a H. rewrite <- (app_nil_r a). rewrite H. reflexivity. Qed.

Ltac side_tac := solve [ cbn; rewrite ?Nat.eqb_refl, ?andb_false_r, ?andb_true_r, ?orb_true_r; cbn; reflexivity ].

Ltac wn_tac :=
  repeat first
    [ apply wn_nil
    | apply wn_locked; [side_tac|]
    | apply wn_acc_quiet; [side_tac|]
    | apply wn_acc_write; [side_tac|]
    | apply wn_flat_map; intro
    | apply wn_app
    | match goal with |- wn _ _ (if ?b then _ else _) => destruct b end
    | match goal with |- wn _ _ (?f _ _ _) => unfold f | |- wn _ _ (?f _ _) => unfold f | |- wn _ _ (?f _) => unfold f
                    | |- wn _ _ ?f => unfold f end ].

Ltac rn_tac :=
  repeat first
    [ apply rn_nil
    | apply rn_locked; [side_tac|]
    | apply rn_acc_quiet; [side_tac | side_tac |]
    | apply rn_acc_read; [side_tac|]
    | apply rn_flat_map; intro
    | apply rn_app
    | match goal with |- rn _ _ (if ?b then _ else _) => destruct b end
    | match goal with |- rn _ _ (?f _ _ _) => unfold f | |- rn _ _ (?f _ _) => unfold f | |- rn _ _ (?f _) => unfold f
                    | |- rn _ _ ?f => unfold f end ].

(* ---- Storage.Put ------------------------------------------------------------------------------------------------------ *)
Lemma put_callbacks_wn : forall h cbs,
  holds_w (LSeg s) h = true ->
  wn true h (flat_map (fun cb : nat * list nat * bool => put_callback (fst (fst cb)) (snd (fst cb)) (snd cb)) cbs).
Proof.
  intros h cbs Hh. apply wn_flat_map. intros [[t addons] miss]. cbn [fst snd]. unfold put_callback.
  assert (Hh' : forall l m, holds_w (LSeg s) ((l, m) :: h) = true).
  { intros l m. rewrite holds_w_cons, Hh. apply orb_true_r. }
  repeat first
    [ apply wn_nil
    | apply wn_locked; [side_tac|]
    | apply wn_acc_quiet; [side_tac|]
    | apply wn_acc_write; [first [exact Hh | apply Hh'] |]
    | apply wn_flat_map; intro
    | apply wn_app
    | match goal with |- wn _ _ (if ?b then _ else _) => destruct b end
    | match goal with |- wn _ _ (?f _ _ _) => unfold f | |- wn _ _ (?f _ _) => unfold f | |- wn _ _ (?f _) => unfold f
                    | |- wn _ _ ?f => unfold f end ].
Qed.

Lemma write_section : forall h first body rest,
  is_twrite s first = true -> apply_held first ((LSeg s, MW) :: h) = (LSeg s, MW) :: h ->
  (match first with Rel _ _ => false | _ => true end) = true ->
  wn true ((LSeg s, MW) :: h) body ->
  wdisc s false h (locked (LSeg s) MW (first :: body) ++ rest) =
  Nat.eqb (nwrites s rest) 0 && wdisc s true h rest.
Proof.
  intros h first body rest Hf Ha Hnr Hb. unfold locked. cbn [app]. rewrite <- app_assoc.
  cbn [wdisc is_twrite apply_held orb andb]. rewrite Hf, Ha.
  assert (Hh : holds_w (LSeg s) ((LSeg s, MW) :: h) = true).
  { rewrite holds_w_cons, lock_eqb_refl. reflexivity. }
  rewrite Hh. cbn [andb].
  assert (Hm : (match first with Rel l MW => if lock_eqb l (LSeg s) && false then Nat.eqb (nwrites s (body ++ [Rel (LSeg s) MW] ++ rest)) 0 else true | _ => true end) = true).
  { destruct first as [l m|l m|x w]; auto. destruct m; auto. rewrite andb_false_r. reflexivity. }
  rewrite Hm. cbn [andb]. rewrite Hb.
  cbn [app wdisc is_twrite apply_held orb andb]. rewrite lock_eqb_refl, remove_held_head. cbn [andb]. reflexivity.
Qed.

Theorem put_thread_wdisc : forall ds cbs, wdisc s false [] (put_thread s ds cbs) = true.
Proof.
  intros ds cbs. unfold put_thread. unfold locked at 1. cbn [app]. rewrite <- !app_assoc.
  cbn [wdisc is_twrite apply_held orb andb].
  assert (A : wn false [(LPut, MW)]
                (flat_map (fun d => cache_get_miss CDims [] ++ locked (LDim d) MW [Acc (LocDimKeys d) true]) ds)) by wn_tac.
  assert (B : wn false [(LPut, MW)] (cache_get_miss CSegs [])) by wn_tac.
  assert (C : wn false [(LPut, MW)] (locked (LSeg s) MW [Acc (LocSegMeta s) true])) by wn_tac.
  rewrite A, B, C.
  rewrite write_section.
  - assert (E : wn true [(LPut, MW)] (lfu_op CSegs)) by wn_tac.
    rewrite E. cbn. rewrite ?Nat.eqb_refl. reflexivity.
  - cbn. apply Nat.eqb_refl.
  - reflexivity.
  - reflexivity.
  - apply put_callbacks_wn. rewrite holds_w_cons, lock_eqb_refl. reflexivity.
Qed.

(* ---- renders, deletes, tasks, savers ------------------------------------------------------------------------------------ *)
Lemma nwrites_flat_map_zero : forall A (f : A -> thread) xs,
  (forall x, nwrites s (f x) = 0) -> nwrites s (flat_map f xs) = 0.
Proof. intros A f xs H. induction xs as [|x xs IH]; cbn; auto. rewrite nwrites_app, H, IH. reflexivity. Qed.

Theorem get_thread_wdisc : forall ds ts, wdisc s false [] (get_thread s ds ts) = true.
Proof. intros. apply wn_wdisc. unfold get_thread. wn_tac. Qed.

Theorem delete_thread_wdisc : forall ds ts, wdisc s false [] (delete_thread s ds ts) = true.
Proof.
  intros ds ts. unfold delete_thread. rewrite <- ?app_assoc.
  assert (A : wn false [] (flat_map (fun _ : nat => cache_get_miss CDims []) ds)) by wn_tac.
  assert (B : wn false [] (flat_map (fun d => locked (LDim d) MR [Acc (LocDimKeys d) false]) ds)) by wn_tac.
  assert (C : wn false [] (cache_get_miss CSegs [])) by wn_tac.
  rewrite A, B, C. rewrite write_section.
  - assert (D : wn true [] (lfu_op CDicts)) by wn_tac.
    assert (E : wn true [] (lfu_op CSegs)) by wn_tac.
    assert (F : wn true [] (flat_map (fun d => cache_get_miss CDims [] ++ locked (LDim d) MW [Acc (LocDimKeys d) true]) ds)) by wn_tac.
    assert (Hn : nwrites s (lfu_op CDicts ++ lfu_op CSegs ++
                   flat_map (fun d => cache_get_miss CDims [] ++ locked (LDim d) MW [Acc (LocDimKeys d) true]) ds) = 0).
    { rewrite !nwrites_app.
      rewrite (nwrites_flat_map_zero _ (fun d => cache_get_miss CDims [] ++ locked (LDim d) MW [Acc (LocDimKeys d) true]) ds)
        by (intro; reflexivity).
      reflexivity. }
    rewrite Hn. cbn [Nat.eqb andb].
    rewrite D, E. rewrite <- (app_nil_r (flat_map _ ds)). rewrite F. reflexivity.
  - cbn. apply Nat.eqb_refl.
  - reflexivity.
  - reflexivity.
  - wn_tac.
Qed.

Theorem tasks_wdisc : forall c d sg a t,
  wdisc s false [] (writeback_task c) = true /\
  wdisc s false [] (evict_task CDims (save_dimension d)) = true /\
  wdisc s false [] (evict_task CSegs (save_segment sg)) = true /\
  wdisc s false [] (evict_task CDicts (save_dict a)) = true /\
  wdisc s false [] (evict_task CTrees (save_tree t a)) = true /\
  wdisc s false [] (save_dimension d) = true /\ wdisc s false [] (save_segment sg) = true /\
  wdisc s false [] (save_dict a) = true /\ wdisc s false [] (save_tree t a) = true.
Proof.
  intros. repeat split; apply wn_wdisc; try (destruct c); wn_tac.
Qed.

Lemma read_section : forall h x body rest,
  is_tread s (Acc x false) = true ->
  rn true ((LSeg s, MR) :: h) body ->
  rdisc s false h (locked (LSeg s) MR (Acc x false :: body) ++ rest) =
  Nat.eqb (nreads s rest) 0 && rdisc s true h rest.
Proof.
  intros h x body rest Hf Hb. unfold locked. cbn [app]. rewrite <- app_assoc.
  cbn [rdisc is_twrite apply_held orb andb negb]. cbn [is_tread] in Hf |- *. rewrite Hf.
  assert (Hh : holds (LSeg s) ((LSeg s, MR) :: h) = true).
  { rewrite holds_cons, lock_eqb_refl. reflexivity. }
  rewrite Hh. cbn [andb]. rewrite Hb.
  cbn [app rdisc is_twrite is_tread apply_held orb andb negb]. rewrite lock_eqb_refl, remove_held_head. cbn [andb]. reflexivity.
Qed.

Theorem get_thread_rdisc : forall ds ts, rdisc s false [] (get_thread s ds ts) = true.
Proof.
  intros ds ts. unfold get_thread. rewrite <- ?app_assoc.
  assert (A : rn false [] (flat_map (fun _ : nat => cache_get_miss CDims []) ds)) by rn_tac.
  assert (B : rn false [] (flat_map (fun d => locked (LDim d) MR [Acc (LocDimKeys d) false]) ds)) by rn_tac.
  assert (C : rn false [] (cache_get_miss CSegs [])) by rn_tac.
  assert (D : rn false [] (locked (LSeg s) MR [Acc (LocSegMeta s) false])) by rn_tac.
  rewrite A, B, C, D. rewrite read_section.
  - cbn. rewrite ?Nat.eqb_refl. reflexivity.
  - cbn. apply Nat.eqb_refl.
  - assert (Hh : forall l m, holds (LSeg s) ((l, m) :: [(LSeg s, MR)]) = true).
    { intros l m. rewrite holds_cons. cbn. rewrite Nat.eqb_refl. apply orb_true_r. }
    repeat first
      [ apply rn_nil
      | apply rn_locked; [side_tac|]
      | apply rn_acc_quiet; [side_tac | side_tac |]
      | apply rn_acc_read; [first [side_tac | apply Hh] |]
      | apply rn_flat_map; intro
      | apply rn_app
      | match goal with |- rn _ _ (?f _ _ _) => unfold f | |- rn _ _ (?f _ _) => unfold f | |- rn _ _ (?f _) => unfold f
                      | |- rn _ _ ?f => unfold f end ].
Qed.

End Full.

(* ---- the threads of one series ---------------------------------------------------------------------------------------------- *)
Inductive series_thread (s : nat) : thread -> Prop :=
| st_put : forall ds cbs, series_thread s (put_thread s ds cbs)
| st_get : forall ds ts, series_thread s (get_thread s ds ts)
| st_delete : forall ds ts, series_thread s (delete_thread s ds ts)
| st_writeback : forall c, series_thread s (writeback_task c)
| st_evict_dims : forall d, series_thread s (evict_task CDims (save_dimension d))
| st_evict_segs : forall sg, series_thread s (evict_task CSegs (save_segment sg))
| st_evict_dicts : forall a, series_thread s (evict_task CDicts (save_dict a))
| st_evict_trees : forall t a, series_thread s (evict_task CTrees (save_tree t a))
| st_save_dim : forall d, series_thread s (save_dimension d)
| st_save_seg : forall sg, series_thread s (save_segment sg)
| st_save_dict : forall a, series_thread s (save_dict a)
| st_save_tree : forall t a, series_thread s (save_tree t a).

Lemma series_thread_table : forall s t, series_thread s t -> table_thread t.
Proof. intros s t H. destruct H; constructor. Qed.

Lemma series_thread_wdisc : forall s t, series_thread s t -> wdisc s false [] t = true.
Proof.
  intros s t H. destruct H.
  - apply put_thread_wdisc.
  - apply get_thread_wdisc.
  - apply delete_thread_wdisc.
  - apply (tasks_wdisc s c 0 0 0 0).
  - apply (tasks_wdisc s CDims d 0 0 0).
  - apply (tasks_wdisc s CDims 0 sg 0 0).
  - apply (tasks_wdisc s CDims 0 0 a 0).
  - apply (tasks_wdisc s CDims 0 0 a t).
  - apply (tasks_wdisc s CDims d 0 0 0).
  - apply (tasks_wdisc s CDims 0 sg 0 0).
  - apply (tasks_wdisc s CDims 0 0 a 0).
  - apply (tasks_wdisc s CDims 0 0 a t).
Qed.

(* C08_atomic_read_full *)
Theorem atomic_read_full : forall s g ts ds trs,
  Forall (series_thread s) ts -> nth_error ts g = Some (get_thread s ds trs) ->
  forall sched,
  let d := snd (drun s g sched ts) in
  forall S C T, d_snap d = Some (S, C, T) ->
    (forall x v, In (x, v) (d_obs d) -> v = after_puts s ts S x) /\
    NoDup S /\ (exists rest, d_order d = S ++ rest) /\
    (forall i, In i C -> i <> g -> 0 < nwrites s (nth i ts []) -> In i S) /\
    (forall i, In i S -> In i T).
Proof.
  intros s g ts ds trs F Hg sched. apply (atomic_read_fine s g ts).
  - eapply forall_forallb; [|exact F]. intros t Ht.
    apply table_thread_disciplined. eapply series_thread_table. exact Ht.
  - intros i Hi. destruct (nth_error ts i) as [t|] eqn:E.
    + rewrite (nth_error_nth _ _ _ E). apply series_thread_wdisc.
      rewrite Forall_forall in F. apply F. eapply nth_error_In. exact E.
    + rewrite nth_overflow by (apply nth_error_None; exact E). reflexivity.
  - rewrite (nth_error_nth _ _ _ Hg). apply get_thread_rdisc.
Qed.

(* ---- the explicit linearisation ------------------------------------------------------------------------------------------------- *)
(* the coarse schedule: the writers of S, each WHOLE (called, write section, acknowledged), in section order; then the
   render (called, read section, returned) *)
Definition whole_puts (S : list nat) : list cevent := flat_map (fun i => [WStart i; WApply i; WEnd i]) S.
Definition linearisation (S : list nat) (g : nat) : list cevent := whole_puts S ++ [RStart g; RRead g; REnd g].

Lemma memn_false : forall x l, ~ In x l -> memn x l = false.
Proof. intros x l H. destruct (memn x l) eqn:E; auto. apply memn_in in E. contradiction. Qed.
Lemma memn_true : forall x l, In x l -> memn x l = true.
Proof. intros. apply memn_in. assumption. Qed.

Lemma whole_puts_run : forall S s0,
  NoDup S ->
  (forall i, In i S -> ~ In i (c_started s0) /\ ~ In i (c_applied s0) /\ ~ In i (c_ended s0)) ->
  let s1 := fold_left c_step (whole_puts S) s0 in
  c_applied s1 = c_applied s0 ++ S /\ r_started s1 = r_started s0 /\ r_read s1 = r_read s0 /\ r_ended s1 = r_ended s0.
Proof.
  induction S as [|i S IH]; intros s0 ND H; cbn zeta.
  - cbn. rewrite app_nil_r. auto.
  - inversion ND as [|? ? Hni ND']; subst.
    destruct (H i (or_introl eq_refl)) as [A [B C]].
    unfold whole_puts. cbn [flat_map app fold_left]. fold (whole_puts S).
    (* the three events of i *)
    assert (E1 : c_step s0 (WStart i) =
                 {| c_started := i :: c_started s0; c_applied := c_applied s0; c_ended := c_ended s0;
                    r_started := r_started s0; r_read := r_read s0; r_ended := r_ended s0 |}).
    { cbn. rewrite (memn_false _ _ A). reflexivity. }
    rewrite E1. set (sa := {| c_started := i :: c_started s0; c_applied := c_applied s0; c_ended := c_ended s0;
                              r_started := r_started s0; r_read := r_read s0; r_ended := r_ended s0 |}).
    assert (E2 : c_step sa (WApply i) =
                 {| c_started := i :: c_started s0; c_applied := c_applied s0 ++ [i]; c_ended := c_ended s0;
                    r_started := r_started s0; r_read := r_read s0; r_ended := r_ended s0 |}).
    { unfold sa. cbn [c_step c_started c_applied]. rewrite (memn_true i (i :: c_started s0)) by (left; reflexivity).
      rewrite (memn_false _ _ B). reflexivity. }
    rewrite E2. set (sb := {| c_started := i :: c_started s0; c_applied := c_applied s0 ++ [i]; c_ended := c_ended s0;
                              r_started := r_started s0; r_read := r_read s0; r_ended := r_ended s0 |}).
    assert (E3 : c_step sb (WEnd i) =
                 {| c_started := i :: c_started s0; c_applied := c_applied s0 ++ [i]; c_ended := i :: c_ended s0;
                    r_started := r_started s0; r_read := r_read s0; r_ended := r_ended s0 |}).
    { unfold sb. cbn [c_step c_applied c_ended]. rewrite (memn_true i (c_applied s0 ++ [i])) by (apply in_or_app; right; left; reflexivity).
      rewrite (memn_false _ _ C). reflexivity. }
    rewrite E3. set (sc := {| c_started := i :: c_started s0; c_applied := c_applied s0 ++ [i]; c_ended := i :: c_ended s0;
                              r_started := r_started s0; r_read := r_read s0; r_ended := r_ended s0 |}).
    destruct (IH sc ND') as [P1 [P2 [P3 P4]]].
    { intros j Hj. destruct (H j (or_intror Hj)) as [A' [B' C']].
      assert (Hne : j <> i) by (intro E; subst; contradiction).
      unfold sc. cbn. repeat split.
      - intros [E | E]; [congruence | contradiction].
      - intro E. apply in_app_or in E as [E | [E | []]]; [contradiction | congruence].
      - intros [E | E]; [congruence | contradiction]. }
    rewrite P1, P2, P3, P4. unfold sc. cbn. rewrite <- app_assoc. auto.
Qed.

(* the coarse model run on the linearisation: the render returns exactly S, the ingests of S applied in order *)
Theorem linearisation_returns : forall S g,
  NoDup S ->
  r_read (c_run (linearisation S g)) = [(g, S)] /\ c_applied (c_run (linearisation S g)) = S.
Proof.
  intros S g ND. unfold c_run, linearisation. rewrite fold_left_app.
  destruct (whole_puts_run S c_init ND) as [P1 [P2 [P3 P4]]].
  { intros i _. cbn. auto. }
  set (s1 := fold_left c_step (whole_puts S) c_init) in *.
  cbn in P1, P2, P3, P4.
  cbn [fold_left c_step]. rewrite P2. cbn [memk existsb].
  cbn [c_step r_started r_read memk existsb fst]. rewrite Nat.eqb_refl. cbn [orb andb negb].
  rewrite P3. cbn [memk existsb negb andb].
  cbn [c_step r_read r_ended memk existsb fst]. rewrite Nat.eqb_refl. cbn [orb andb].
  rewrite P4. cbn [memk existsb negb andb]. cbn. rewrite P1. auto.
Qed.

(* fine observations = what the coarse model's render returns on an explicit schedule of WHOLE sections *)
Theorem atomic_read_full_linearised : forall s g ts ds trs,
  Forall (series_thread s) ts -> nth_error ts g = Some (get_thread s ds trs) ->
  forall sched,
  let d := snd (drun s g sched ts) in
  forall S C T, d_snap d = Some (S, C, T) ->
    let lin := linearisation S g in
    r_read (c_run lin) = [(g, S)] /\ c_applied (c_run lin) = S /\
    (forall x v, In (x, v) (d_obs d) -> v = after_puts s ts (c_applied (c_run lin)) x).
Proof.
  intros s g ts ds trs F Hg sched d S C T HS lin.
  destruct (atomic_read_full s g ts ds trs F Hg sched S C T HS) as [O [ND _]].
  destruct (linearisation_returns S g ND) as [L1 L2].
  split; auto. split; auto. unfold lin. rewrite L2. exact O.
Qed.

(* non-vacuity: two ingests, a delete, a write-back task and an eviction of the trees cache next to one render *)
Example full_nonvacuous :
  Forall (series_thread 0)
    [put_thread 0 [0; 1] [(2, [4], true); (6, [], false)]; put_thread 0 [0] [(2, [], false)];
     get_thread 0 [0; 1] [2; 6]; delete_thread 0 [0; 1] [2; 6]; writeback_task CTrees;
     evict_task CTrees (save_tree 2 0)] /\
  nth_error [put_thread 0 [0; 1] [(2, [4], true); (6, [], false)]; put_thread 0 [0] [(2, [], false)];
             get_thread 0 [0; 1] [2; 6]; delete_thread 0 [0; 1] [2; 6]; writeback_task CTrees;
             evict_task CTrees (save_tree 2 0)] 2 = Some (get_thread 0 [0; 1] [2; 6]).
Proof. split; [repeat constructor | reflexivity]. Qed.

Definition full_example_threads : list thread :=
  [put_thread 0 [0; 1] [(2, [4], true); (6, [], false)]; put_thread 0 [0] [(2, [], false)];
   get_thread 0 [0; 1] [2; 6]; delete_thread 0 [0; 1] [2; 6]; writeback_task CTrees; evict_task CTrees (save_tree 2 0)].

(* a run of the full threads in which the render observes both ingests, each whole *)
Example full_run_nonvacuous :
  let d := snd (drun 0 2 (repeat 0 200 ++ repeat 2 40 ++ repeat 1 200 ++ repeat 2 200) full_example_threads) in
  d_obs d = [(LocTree 6, [0]); (LocTree 2, [0; 1]); (LocSegTree 0, [0; 1]); (LocSegTree 0, [0; 1])] /\
  d_snap d = Some ([0; 1], [0; 1], [0; 1; 2]).
Proof. vm_compute. split; reflexivity. Qed.

Theorem full_threads_disciplined : forall s t, series_thread s t ->
  wdisc s false [] t = true /\ ordered_thread t = true /\ lockset_thread t = true.
Proof.
  intros s t H. split; [apply series_thread_wdisc; exact H|].
  apply table_thread_disciplined. eapply series_thread_table. exact H.
Qed.
