(* ConcProofs.v — lemmas about Model/Conc.v (C08). *)
From Pyro Require Import Model.Base Model.Conc.
From Coq Require Import Lia Arith.
Open Scope nat_scope.

(* ---- equalities --------------------------------------------------------------------------------------------- *)
Lemma cache_eqb_eq : forall a b, cache_eqb a b = true -> a = b.
Proof. destruct a, b; cbn; congruence. Qed.
Lemma cache_eqb_refl : forall a, cache_eqb a a = true.
Proof. destruct a; reflexivity. Qed.
Lemma lock_eqb_eq : forall a b, lock_eqb a b = true -> a = b.
Proof.
  destruct a, b; cbn; intro H; try discriminate; auto;
    try (apply cache_eqb_eq in H; congruence); try (apply Nat.eqb_eq in H; congruence).
Qed.
Lemma lock_eqb_refl : forall a, lock_eqb a a = true.
Proof. destruct a; cbn; auto using cache_eqb_refl, Nat.eqb_refl. Qed.
Lemma mode_eqb_eq : forall a b, mode_eqb a b = true -> a = b.
Proof. destruct a, b; cbn; congruence. Qed.

Lemma rank_bound : forall l, rank l <= 11.
Proof. destruct l as [| [] | [] | | | |]; cbn; lia. Qed.

(* ---- held sets ------------------------------------------------------------------------------------------------ *)
Lemma holds_w_holds : forall l h, holds_w l h = true -> holds l h = true.
Proof.
  intros l h H. unfold holds_w, holds in *. apply existsb_exists in H as [p [Hp Hq]].
  apply existsb_exists. exists p. split; auto. apply andb_true_iff in Hq. tauto.
Qed.
Lemma holds_mode_holds : forall l m h, holds_mode l m h = true -> holds l h = true.
Proof.
  intros l m h H. unfold holds_mode, holds in *. apply existsb_exists in H as [p [Hp Hq]].
  apply existsb_exists. exists p. split; auto. apply andb_true_iff in Hq. tauto.
Qed.
Lemma holds_mode_w : forall l h, holds_mode l MW h = holds_w l h.
Proof. reflexivity. Qed.

Lemma holds_cons : forall l l0 m h, holds l ((l0, m) :: h) = lock_eqb l0 l || holds l h.
Proof. reflexivity. Qed.
Lemma holds_w_cons : forall l l0 m h, holds_w l ((l0, m) :: h) = (lock_eqb l0 l && mode_eqb m MW) || holds_w l h.
Proof. reflexivity. Qed.

Lemma existsb_remove : forall (f : lockid * mode -> bool) l0 m h,
  existsb f (remove_held l0 m h) = true -> existsb f h = true.
Proof.
  intros f l0 m. induction h as [|p h IH]; cbn [remove_held existsb]; auto.
  destruct (lock_eqb (fst p) l0 && mode_eqb (snd p) m).
  - intro H. rewrite H. apply orb_true_r.
  - cbn [existsb]. intro H. apply orb_true_iff in H as [H | H].
    + rewrite H. reflexivity.
    + rewrite (IH H). apply orb_true_r.
Qed.
Lemma holds_remove : forall l l0 m h, holds l (remove_held l0 m h) = true -> holds l h = true.
Proof. intros. unfold holds in *. eapply existsb_remove; eauto. Qed.
Lemma holds_w_remove : forall l l0 m h, holds_w l (remove_held l0 m h) = true -> holds_w l h = true.
Proof. intros. unfold holds_w in *. eapply existsb_remove; eauto. Qed.
Lemma holds_mode_remove : forall l mo l0 m h, holds_mode l mo (remove_held l0 m h) = true -> holds_mode l mo h = true.
Proof. intros. unfold holds_mode in *. eapply existsb_remove; eauto. Qed.

(* a lock that is about to be taken in rank order is not held yet *)
Lemma ordered_not_held : forall l h,
  forallb (fun p => Nat.ltb (rank (fst p)) (rank l)) h = true -> holds l h = false.
Proof.
  intros l h H. destruct (holds l h) eqn:E; auto.
  unfold holds in E. apply existsb_exists in E as [p [Hp Hq]].
  rewrite forallb_forall in H. apply H in Hp. apply lock_eqb_eq in Hq. subst l.
  apply Nat.ltb_lt in Hp. lia.
Qed.
Lemma ordered_rank_lt : forall l l' h,
  forallb (fun p => Nat.ltb (rank (fst p)) (rank l')) h = true -> holds l h = true -> rank l < rank l'.
Proof.
  intros l l' h H E. unfold holds in E. apply existsb_exists in E as [p [Hp Hq]].
  rewrite forallb_forall in H. apply H in Hp. apply lock_eqb_eq in Hq. subst l.
  apply Nat.ltb_lt in Hp. exact Hp.
Qed.

(* ---- list surgery ------------------------------------------------------------------------------------------------ *)
Lemma nth_set_at_same : forall A (c : list A) i x y, nth_error c i = Some y -> nth_error (set_at i x c) i = Some x.
Proof. induction c as [|z c IH]; intros [|i] x y H; cbn in *; try discriminate; eauto. Qed.
Lemma nth_set_at_other : forall A (c : list A) i j x, i <> j -> nth_error (set_at i x c) j = nth_error c j.
Proof. induction c as [|z c IH]; intros [|i] [|j] x H; cbn; auto; congruence. Qed.
Lemma length_set_at : forall A (c : list A) i x, length (set_at i x c) = length c.
Proof. induction c as [|z c IH]; intros [|i] x; cbn; auto. Qed.

Lemma others_spec : forall A (c : list A) i u,
  In u (others i c) <-> exists j, j <> i /\ nth_error c j = Some u.
Proof.
  induction c as [|z c IH]; intros i u.
  - destruct i; cbn; split; [intros [] | intros [j [_ H]]; destruct j; discriminate
                            | intros [] | intros [j [_ H]]; destruct j; discriminate].
  - destruct i as [|i]; cbn.
    + split.
      * intro H. apply In_nth_error in H as [j Hj]. exists (S j). split; auto.
      * intros [j [Hne Hj]]. destruct j as [|j]; [congruence|]. cbn in Hj. eapply nth_error_In; eauto.
    + split.
      * intros [<- | H].
        -- exists 0. split; auto.
        -- apply IH in H as [j [Hne Hj]]. exists (S j). split; auto.
      * intros [j [Hne Hj]]. destruct j as [|j]; cbn in Hj.
        -- left. congruence.
        -- right. apply IH. exists j. split; auto.
Qed.

Lemma existsb_others_false : forall A (f : A -> bool) (c : list A) i,
  existsb f (others i c) = false -> forall j u, j <> i -> nth_error c j = Some u -> f u = false.
Proof.
  intros A f c i H j u Hne Hj. destruct (f u) eqn:E; auto.
  assert (existsb f (others i c) = true).
  { apply existsb_exists. exists u. split; auto. apply others_spec. eauto. }
  congruence.
Qed.
Lemma existsb_others_true : forall A (f : A -> bool) (c : list A) i,
  existsb f (others i c) = true -> exists j u, j <> i /\ nth_error c j = Some u /\ f u = true.
Proof.
  intros A f c i H. apply existsb_exists in H as [u [Hu Hf]]. apply others_spec in Hu as [j [Hne Hj]]. eauto.
Qed.

(* ---- the invariant of reachable configurations -------------------------------------------------------------------- *)
Record inv (c : config) : Prop := {
  inv_ordered : forall i t, nth_error c i = Some t -> ordered_from (ts_held t) (ts_code t) = true;
  inv_pending : forall i t l, nth_error c i = Some t -> ts_pending t = Some l ->
                exists code', ts_code t = Acq l MW :: code';
  inv_excl : forall i j t u l, i <> j -> nth_error c i = Some t -> nth_error c j = Some u ->
             holds_w l (ts_held t) = true -> holds l (ts_held u) = false
}.

Lemma nth_init : forall ts i t, nth_error (init_config ts) i = Some t ->
  exists code, nth_error ts i = Some code /\ t = {| ts_code := code; ts_held := []; ts_pending := None |}.
Proof.
  intros ts i t H. unfold init_config in H. rewrite nth_error_map in H.
  destruct (nth_error ts i) as [code|]; [|discriminate]. cbn in H. inversion H. eauto.
Qed.

Lemma inv_init : forall ts, forallb ordered_thread ts = true -> inv (init_config ts).
Proof.
  intros ts H. constructor.
  - intros i t Hn. apply nth_init in Hn as [code [Hc ->]]. cbn.
    rewrite forallb_forall in H. apply H. eapply nth_error_In; eauto.
  - intros i t l Hn Hp. apply nth_init in Hn as [code [Hc ->]]. discriminate.
  - intros i j t u l _ Hn _ Hw. apply nth_init in Hn as [code [Hc ->]]. discriminate.
Qed.

Lemma inv_step : forall c i c', inv c -> step i c = Some c' -> inv c'.
Proof.
  intros c i c' I H. unfold step in H.
  destruct (nth_error c i) as [t|] eqn:Hi; [|discriminate].
  pose proof (inv_ordered c I i t Hi) as Ord.
  destruct (ts_code t) as [|a code'] eqn:Hc; [discriminate|].
  destruct a as [l m | l m | x w].
  - destruct m.
    + (* Acq l MR *)
      destruct (existsb (fun u => holds_w l (ts_held u) || pending_on l u) (others i c)) eqn:Ex; [discriminate|].
      inversion H; subst c'; clear H.
      cbn in Ord. apply andb_true_iff in Ord as [Ord1 Ord2].
      constructor.
      * intros k t' Hk. destruct (Nat.eq_dec i k) as [<-|Hne].
        -- rewrite (nth_set_at_same _ _ _ _ _ Hi) in Hk. inversion Hk; subst. cbn. exact Ord2.
        -- rewrite nth_set_at_other in Hk by auto. eapply inv_ordered; eauto.
      * intros k t' l' Hk Hp. destruct (Nat.eq_dec i k) as [<-|Hne].
        -- rewrite (nth_set_at_same _ _ _ _ _ Hi) in Hk. inversion Hk; subst. discriminate.
        -- rewrite nth_set_at_other in Hk by auto. eapply inv_pending; eauto.
      * intros a b ta tb l' Hab Ha Hb Hw.
        destruct (Nat.eq_dec i a) as [<-|Hna]; destruct (Nat.eq_dec i b) as [<-|Hnb]; try congruence.
        -- rewrite (nth_set_at_same _ _ _ _ _ Hi) in Ha. inversion Ha; subst ta; clear Ha.
           rewrite nth_set_at_other in Hb by auto. cbn [ts_held] in Hw. rewrite holds_w_cons in Hw.
           rewrite andb_false_r in Hw. cbn in Hw. eapply (inv_excl c I i b); eauto.
        -- rewrite (nth_set_at_same _ _ _ _ _ Hi) in Hb. inversion Hb; subst tb; clear Hb.
           rewrite nth_set_at_other in Ha by auto. cbn [ts_held]. rewrite holds_cons.
           destruct (lock_eqb l l') eqn:El.
           ++ apply lock_eqb_eq in El. subst l'.
              pose proof (existsb_others_false _ _ _ _ Ex a ta ltac:(auto) Ha) as F. cbn in F.
              rewrite Hw in F. discriminate.
           ++ cbn. eapply (inv_excl c I a i); eauto.
        -- rewrite nth_set_at_other in Ha, Hb by auto. eapply (inv_excl c I a b); eauto.
    + (* Acq l MW *)
      destruct (ts_pending t) as [lp|] eqn:Hp.
      * destruct (existsb (fun u => holds l (ts_held u)) (others i c)) eqn:Ex; [discriminate|].
        inversion H; subst c'; clear H.
        cbn in Ord. apply andb_true_iff in Ord as [Ord1 Ord2].
        constructor.
        -- intros k t' Hk. destruct (Nat.eq_dec i k) as [<-|Hne].
           ++ rewrite (nth_set_at_same _ _ _ _ _ Hi) in Hk. inversion Hk; subst. cbn. exact Ord2.
           ++ rewrite nth_set_at_other in Hk by auto. eapply inv_ordered; eauto.
        -- intros k t' l' Hk Hp'. destruct (Nat.eq_dec i k) as [<-|Hne].
           ++ rewrite (nth_set_at_same _ _ _ _ _ Hi) in Hk. inversion Hk; subst. discriminate.
           ++ rewrite nth_set_at_other in Hk by auto. eapply inv_pending; eauto.
        -- intros a b ta tb l' Hab Ha Hb Hw.
           destruct (Nat.eq_dec i a) as [<-|Hna]; destruct (Nat.eq_dec i b) as [<-|Hnb]; try congruence.
           ++ rewrite (nth_set_at_same _ _ _ _ _ Hi) in Ha. inversion Ha; subst ta; clear Ha.
              rewrite nth_set_at_other in Hb by auto. cbn [ts_held] in Hw. rewrite holds_w_cons in Hw. cbn in Hw.
              rewrite andb_true_r in Hw. apply orb_true_iff in Hw as [El | Hw].
              ** apply lock_eqb_eq in El. subst l'.
                 apply (existsb_others_false _ _ _ _ Ex b tb ltac:(auto) Hb).
              ** eapply (inv_excl c I i b); eauto.
           ++ rewrite (nth_set_at_same _ _ _ _ _ Hi) in Hb. inversion Hb; subst tb; clear Hb.
              rewrite nth_set_at_other in Ha by auto. cbn [ts_held]. rewrite holds_cons.
              destruct (lock_eqb l l') eqn:El.
              ** apply lock_eqb_eq in El. subst l'.
                 pose proof (existsb_others_false _ _ _ _ Ex a ta ltac:(auto) Ha) as F. cbn in F.
                 rewrite (holds_w_holds _ _ Hw) in F. discriminate.
              ** cbn. eapply (inv_excl c I a i); eauto.
           ++ rewrite nth_set_at_other in Ha, Hb by auto. eapply (inv_excl c I a b); eauto.
      * (* announce *)
        inversion H; subst c'; clear H.
        constructor.
        -- intros k t' Hk. destruct (Nat.eq_dec i k) as [<-|Hne].
           ++ rewrite (nth_set_at_same _ _ _ _ _ Hi) in Hk. inversion Hk; subst. cbn. exact Ord.
           ++ rewrite nth_set_at_other in Hk by auto. eapply inv_ordered; eauto.
        -- intros k t' l' Hk Hp'. destruct (Nat.eq_dec i k) as [<-|Hne].
           ++ rewrite (nth_set_at_same _ _ _ _ _ Hi) in Hk. inversion Hk; subst. cbn in *. inversion Hp'; subst. eauto.
           ++ rewrite nth_set_at_other in Hk by auto. eapply inv_pending; eauto.
        -- intros a b ta tb l' Hab Ha Hb Hw.
           destruct (Nat.eq_dec i a) as [<-|Hna]; destruct (Nat.eq_dec i b) as [<-|Hnb]; try congruence.
           ++ rewrite (nth_set_at_same _ _ _ _ _ Hi) in Ha. inversion Ha; subst ta; clear Ha.
              rewrite nth_set_at_other in Hb by auto. cbn in Hw. eapply (inv_excl c I i b); eauto.
           ++ rewrite (nth_set_at_same _ _ _ _ _ Hi) in Hb. inversion Hb; subst tb; clear Hb.
              rewrite nth_set_at_other in Ha by auto. cbn. eapply (inv_excl c I a i); eauto.
           ++ rewrite nth_set_at_other in Ha, Hb by auto. eapply (inv_excl c I a b); eauto.
  - (* Rel *)
    inversion H; subst c'; clear H.
    cbn in Ord. apply andb_true_iff in Ord as [Ord1 Ord2].
    constructor.
    + intros k t' Hk. destruct (Nat.eq_dec i k) as [<-|Hne].
      * rewrite (nth_set_at_same _ _ _ _ _ Hi) in Hk. inversion Hk; subst. cbn. exact Ord2.
      * rewrite nth_set_at_other in Hk by auto. eapply inv_ordered; eauto.
    + intros k t' l' Hk Hp'. destruct (Nat.eq_dec i k) as [<-|Hne].
      * rewrite (nth_set_at_same _ _ _ _ _ Hi) in Hk. inversion Hk; subst. cbn in Hp'.
        destruct (inv_pending c I i t l' Hi Hp') as [cd Hcd]. congruence.
      * rewrite nth_set_at_other in Hk by auto. eapply inv_pending; eauto.
    + intros a b ta tb l' Hab Ha Hb Hw.
      destruct (Nat.eq_dec i a) as [<-|Hna]; destruct (Nat.eq_dec i b) as [<-|Hnb]; try congruence.
      * rewrite (nth_set_at_same _ _ _ _ _ Hi) in Ha. inversion Ha; subst ta; clear Ha.
        rewrite nth_set_at_other in Hb by auto. cbn in Hw. apply holds_w_remove in Hw.
        eapply (inv_excl c I i b); eauto.
      * rewrite (nth_set_at_same _ _ _ _ _ Hi) in Hb. inversion Hb; subst tb; clear Hb.
        rewrite nth_set_at_other in Ha by auto. cbn.
        destruct (holds l' (remove_held l m (ts_held t))) eqn:E; auto.
        apply holds_remove in E. rewrite (inv_excl c I a i ta t l' ltac:(auto) Ha Hi Hw) in E. discriminate.
      * rewrite nth_set_at_other in Ha, Hb by auto. eapply (inv_excl c I a b); eauto.
  - (* Acc *)
    inversion H; subst c'; clear H. cbn in Ord.
    constructor.
    + intros k t' Hk. destruct (Nat.eq_dec i k) as [<-|Hne].
      * rewrite (nth_set_at_same _ _ _ _ _ Hi) in Hk. inversion Hk; subst. cbn. exact Ord.
      * rewrite nth_set_at_other in Hk by auto. eapply inv_ordered; eauto.
    + intros k t' l' Hk Hp'. destruct (Nat.eq_dec i k) as [<-|Hne].
      * rewrite (nth_set_at_same _ _ _ _ _ Hi) in Hk. inversion Hk; subst. cbn in Hp'.
        destruct (inv_pending c I i t l' Hi Hp') as [cd Hcd]. congruence.
      * rewrite nth_set_at_other in Hk by auto. eapply inv_pending; eauto.
    + intros a b ta tb l' Hab Ha Hb Hw.
      destruct (Nat.eq_dec i a) as [<-|Hna]; destruct (Nat.eq_dec i b) as [<-|Hnb]; try congruence.
      * rewrite (nth_set_at_same _ _ _ _ _ Hi) in Ha. inversion Ha; subst ta; clear Ha.
        rewrite nth_set_at_other in Hb by auto. cbn in Hw. eapply (inv_excl c I i b); eauto.
      * rewrite (nth_set_at_same _ _ _ _ _ Hi) in Hb. inversion Hb; subst tb; clear Hb.
        rewrite nth_set_at_other in Ha by auto. cbn. eapply (inv_excl c I a i); eauto.
      * rewrite nth_set_at_other in Ha, Hb by auto. eapply (inv_excl c I a b); eauto.
Qed.

Lemma inv_run : forall sched c, inv c -> inv (run_sched sched c).
Proof.
  induction sched as [|i s IH]; intros c I; cbn; auto.
  apply IH. destruct (step i c) eqn:E; auto. eapply inv_step; eauto.
Qed.

Theorem inv_reachable : forall ts sched,
  forallb ordered_thread ts = true -> inv (run_sched sched (init_config ts)).
Proof. intros. apply inv_run. apply inv_init. auto. Qed.

(* ---- no deadlock ---------------------------------------------------------------------------------------------------- *)
Definition waiting (t : tstate) : option lockid :=
  match ts_code t with Acq l _ :: _ => Some l | _ => None end.

Definition all_blocked (c : config) : Prop := forall i, step i c = None.

(* in a configuration where nobody can move, whoever waits for a lock points to somebody waiting for a lock of
   strictly higher rank *)
Lemma climb : forall c i t l,
  inv c -> all_blocked c -> nth_error c i = Some t -> waiting t = Some l ->
  exists j u l', nth_error c j = Some u /\ waiting u = Some l' /\ rank l < rank l'.
Proof.
  intros c i t l I B Hi W.
  (* first: some thread k holds l *)
  assert (Holder : exists k v, nth_error c k = Some v /\ holds l (ts_held v) = true).
  { pose proof (B i) as Bi. unfold step in Bi. rewrite Hi in Bi.
    unfold waiting in W. destruct (ts_code t) as [|a code'] eqn:Hc; [discriminate|].
    destruct a as [l0 m | |]; try discriminate. inversion W; subst l0; clear W.
    destruct m.
    - destruct (existsb (fun u => holds_w l (ts_held u) || pending_on l u) (others i c)) eqn:Ex; [|discriminate].
      apply existsb_others_true in Ex as [j [u [Hne [Hj Hf]]]].
      apply orb_true_iff in Hf as [Hw | Hp].
      + exists j, u. split; auto. apply holds_w_holds. exact Hw.
      + (* a pending writer: it is blocked too, so somebody holds l *)
        unfold pending_on in Hp. destruct (ts_pending u) as [lp|] eqn:Hpu; [|discriminate].
        apply lock_eqb_eq in Hp. subst lp.
        destruct (inv_pending c I j u l Hj Hpu) as [cd Hcd].
        pose proof (B j) as Bj. unfold step in Bj. rewrite Hj, Hcd, Hpu in Bj.
        destruct (existsb (fun u0 => holds l (ts_held u0)) (others j c)) eqn:Ex2; [|discriminate].
        apply existsb_others_true in Ex2 as [k [v [_ [Hk Hv]]]]. eauto.
    - destruct (ts_pending t) eqn:Hp; [|discriminate].
      destruct (existsb (fun u => holds l (ts_held u)) (others i c)) eqn:Ex; [|discriminate].
      apply existsb_others_true in Ex as [k [v [_ [Hk Hv]]]]. eauto. }
  destruct Holder as [k [v [Hk Hv]]].
  pose proof (inv_ordered c I k v Hk) as Ord.
  pose proof (B k) as Bk. unfold step in Bk. rewrite Hk in Bk.
  destruct (ts_code v) as [|a code'] eqn:Hc.
  - (* finished threads hold nothing *)
    cbn in Ord. destruct (ts_held v); [discriminate Hv | discriminate Ord].
  - destruct a as [l' m' | l' m' | x w]; try discriminate.
    exists k, v, l'. split; auto. split; [unfold waiting; rewrite Hc; reflexivity|].
    cbn in Ord. apply andb_true_iff in Ord as [Ord1 _].
    eapply ordered_rank_lt; eauto.
Qed.

Lemma no_waiter : forall n c i t l,
  inv c -> all_blocked c -> nth_error c i = Some t -> waiting t = Some l -> 12 <= rank l + n -> False.
Proof.
  induction n as [|n IH]; intros c i t l I B Hi W Hr.
  - pose proof (rank_bound l). lia.
  - destruct (climb c i t l I B Hi W) as [j [u [l' [Hj [Wu Hlt]]]]].
    eapply (IH c j u l'); eauto. lia.
Qed.

Lemma stuck_spec : forall c, stuck c = true ->
  (exists i t, nth_error c i = Some t /\ ts_code t <> []) /\ (forall i, i < length c -> step i c = None).
Proof.
  intros c H. unfold stuck in H. apply andb_true_iff in H as [H1 H2]. split.
  - apply negb_true_iff in H1. unfold finished in H1.
    assert (E : exists t, In t c /\ (match ts_code t with [] => true | _ => false end) = false).
    { clear H2. induction c as [|t c IH]; cbn in H1; [discriminate|].
      destruct (match ts_code t with [] => true | _ => false end) eqn:E.
      - cbn in H1. destruct (IH H1) as [t' [Hin Ht']]. exists t'. split; auto. right. exact Hin.
      - exists t. split; auto. left. reflexivity. }
    destruct E as [t [Hin Ht]]. apply In_nth_error in Hin as [i Hi]. exists i, t. split; auto.
    intro E. rewrite E in Ht. discriminate.
  - intros i Hi. rewrite forallb_forall in H2.
    assert (Hin : In i (seq 0 (length c))) by (apply in_seq; lia).
    apply H2 in Hin. destruct (step i c); [discriminate | reflexivity].
Qed.

(* locks taken in the fixed order => no reachable configuration is stuck: somebody can always move until every
   thread has finished *)
Theorem ordered_threads_never_stuck : forall ts sched,
  forallb ordered_thread ts = true -> stuck (run_sched sched (init_config ts)) = false.
Proof.
  intros ts sched H. set (c := run_sched sched (init_config ts)).
  pose proof (inv_reachable ts sched H) as I. fold c in I.
  destruct (stuck c) eqn:S; auto. exfalso.
  apply stuck_spec in S as [[i [t [Hi Hne]]] Blocked].
  assert (B : all_blocked c).
  { intro k. destruct (Nat.lt_ge_cases k (length c)) as [Hlt|Hge]; [apply Blocked; auto|].
    unfold step. apply nth_error_None in Hge. rewrite Hge. reflexivity. }
  pose proof (B i) as Bi. unfold step in Bi. rewrite Hi in Bi.
  destruct (ts_code t) as [|a code'] eqn:Hc; [congruence|].
  destruct a as [l m | l m | x w]; try discriminate.
  eapply (no_waiter 12 c i t l); eauto.
  - unfold waiting. rewrite Hc. reflexivity.
  - lia.
Qed.

(* ---- mutual exclusion and the lockset discipline ---------------------------------------------------------------------- *)
Theorem writer_excludes_everybody : forall ts sched i j t u l,
  forallb ordered_thread ts = true ->
  let c := run_sched sched (init_config ts) in
  i <> j -> nth_error c i = Some t -> nth_error c j = Some u ->
  holds_w l (ts_held t) = true -> holds l (ts_held u) = false.
Proof. intros ts sched i j t u l H c. apply (inv_excl c (inv_reachable ts sched H)). Qed.

Record lsinv (c : config) : Prop := {
  ls_ok : forall i t, nth_error c i = Some t -> lockset_from (ts_held t) (ts_code t) = true
}.

Lemma lsinv_init : forall ts, forallb lockset_thread ts = true -> lsinv (init_config ts).
Proof.
  intros ts H. constructor. intros i t Hn. apply nth_init in Hn as [code [Hc ->]]. cbn.
  rewrite forallb_forall in H. apply H. eapply nth_error_In; eauto.
Qed.

Lemma lsinv_step : forall c i c', lsinv c -> step i c = Some c' -> lsinv c'.
Proof.
  intros c i c' [L] H. unfold step in H.
  destruct (nth_error c i) as [t|] eqn:Hi; [|discriminate].
  pose proof (L i t Hi) as Lt.
  assert (K : forall t', (lockset_from (ts_held t') (ts_code t') = true) -> c' = set_at i t' c -> lsinv c').
  { intros t' Ht' ->. constructor. intros k tk Hk. destruct (Nat.eq_dec i k) as [<-|Hne].
    - rewrite (nth_set_at_same _ _ _ _ _ Hi) in Hk. inversion Hk; subst. exact Ht'.
    - rewrite nth_set_at_other in Hk by auto. eapply L; eauto. }
  destruct (ts_code t) as [|a code'] eqn:Hc; [discriminate|].
  destruct a as [l m | l m | x w].
  - destruct m.
    + destruct (existsb _ (others i c)); [discriminate|]. inversion H; subst. eapply K; [|reflexivity]. cbn in *. exact Lt.
    + destruct (ts_pending t).
      * destruct (existsb _ (others i c)); [discriminate|]. inversion H; subst. eapply K; [|reflexivity]. cbn in *. exact Lt.
      * inversion H; subst. eapply K; [|reflexivity]. cbn in *. exact Lt.
  - inversion H; subst. eapply K; [|reflexivity]. cbn in *. exact Lt.
  - inversion H; subst. eapply K; [|reflexivity]. cbn in *. apply andb_true_iff in Lt. tauto.
Qed.

Lemma lsinv_run : forall sched c, lsinv c -> lsinv (run_sched sched c).
Proof.
  induction sched as [|i s IH]; intros c I; cbn; auto.
  apply IH. destruct (step i c) eqn:E; auto. eapply lsinv_step; eauto.
Qed.

(* a data race in the model: two different threads whose next actions are accesses of the same location, one of
   them a write *)
Definition racing (c : config) : Prop :=
  exists i j t u x w1 w2, i <> j /\ nth_error c i = Some t /\ nth_error c j = Some u /\
    next_access t = Some (x, w1) /\ next_access u = Some (x, w2) /\ (w1 = true \/ w2 = true).

Theorem lockset_threads_never_race : forall ts sched,
  forallb ordered_thread ts = true -> forallb lockset_thread ts = true ->
  ~ racing (run_sched sched (init_config ts)).
Proof.
  intros ts sched HO HL. set (c := run_sched sched (init_config ts)).
  pose proof (inv_reachable ts sched HO) as I. fold c in I.
  pose proof (lsinv_run sched _ (lsinv_init ts HL)) as [L]. fold c in L.
  intros [i [j [t [u [x [w1 [w2 [Hne [Hi [Hj [Ni [Nj Hw]]]]]]]]]]]].
  pose proof (L i t Hi) as Lt. pose proof (L j u Hj) as Lu.
  unfold next_access in Ni, Nj.
  destruct (ts_code t) as [|[| |x1 b1] ct]; try discriminate. inversion Ni; subst x1 b1; clear Ni.
  destruct (ts_code u) as [|[| |x2 b2] cu]; try discriminate. inversion Nj; subst x2 b2; clear Nj.
  cbn in Lt, Lu. apply andb_true_iff in Lt as [Lt _]. apply andb_true_iff in Lu as [Lu _].
  rewrite holds_mode_w in Lt, Lu.
  (* whoever writes holds the guard in write mode; the other one holds it in some mode *)
  assert (Hu : holds (guard x) (ts_held u) = true).
  { apply orb_true_iff in Lu as [Lu | Lu]; [apply holds_w_holds; auto|].
    apply andb_true_iff in Lu as [_ Lu]. eapply holds_mode_holds; eauto. }
  assert (Ht : holds (guard x) (ts_held t) = true).
  { apply orb_true_iff in Lt as [Lt | Lt]; [apply holds_w_holds; auto|].
    apply andb_true_iff in Lt as [_ Lt]. eapply holds_mode_holds; eauto. }
  destruct Hw as [-> | ->].
  - cbn in Lt. rewrite orb_false_r in Lt.
    rewrite (inv_excl c I i j t u (guard x) Hne Hi Hj Lt) in Hu. discriminate.
  - cbn in Lu. rewrite orb_false_r in Lu.
    rewrite (inv_excl c I j i u t (guard x) ltac:(auto) Hj Hi Lu) in Ht. discriminate.
Qed.

(* ---- the access table satisfies the discipline, for all parameters ------------------------------------------------------ *)
Definition lt_rank (r : nat) (h : held) : bool := forallb (fun p => Nat.ltb (rank (fst p)) r) h.

(* a piece of code that can be skipped when checking the order from h: it keeps the discipline and leaves the held
   set as it found it *)
Definition neutral (h : held) (a : thread) : Prop :=
  forall rest, ordered_from h (a ++ rest) = ordered_from h rest.
Definition lneutral (h : held) (a : thread) : Prop :=
  forall rest, lockset_from h (a ++ rest) = lockset_from h rest.

Lemma remove_held_head : forall l m h, remove_held l m ((l, m) :: h) = h.
Proof. intros. cbn. rewrite lock_eqb_refl. destruct m; reflexivity. Qed.
Lemma holds_mode_head : forall l m h, holds_mode l m ((l, m) :: h) = true.
Proof. intros. cbn. rewrite lock_eqb_refl. destruct m; reflexivity. Qed.

Lemma neutral_nil : forall h, neutral h [].
Proof. intros h rest. reflexivity. Qed.
Lemma neutral_acc : forall h x w, neutral h [Acc x w].
Proof. intros h x w rest. reflexivity. Qed.
Lemma neutral_app : forall h a b, neutral h a -> neutral h b -> neutral h (a ++ b).
Proof. intros h a b Ha Hb rest. rewrite <- app_assoc. rewrite Ha. apply Hb. Qed.
Lemma neutral_cons_acc : forall h x w a, neutral h a -> neutral h (Acc x w :: a).
Proof. intros h x w a Ha rest. cbn. apply Ha. Qed.
Lemma neutral_locked : forall h l m body,
  lt_rank (rank l) h = true -> neutral ((l, m) :: h) body -> neutral h (locked l m body).
Proof.
  intros h l m body Hr Hb rest. unfold locked. cbn [app]. rewrite <- app_assoc. cbn [ordered_from].
  fold (lt_rank (rank l) h). rewrite Hr. cbn [andb]. rewrite Hb. cbn [app ordered_from].
  rewrite holds_mode_head, remove_held_head. reflexivity.
Qed.
Lemma neutral_flat_map : forall A h (f : A -> thread) xs, (forall x, neutral h (f x)) -> neutral h (flat_map f xs).
Proof.
  intros A h f xs H. induction xs as [|x xs IH]; cbn; [apply neutral_nil|]. apply neutral_app; auto.
Qed.
Lemma neutral_ordered : forall t, neutral [] t -> ordered_thread t = true.
Proof. intros t H. unfold ordered_thread. rewrite <- (app_nil_r t). rewrite H. reflexivity. Qed.

Lemma lneutral_nil : forall h, lneutral h [].
Proof. intros h rest. reflexivity. Qed.
Lemma lneutral_app : forall h a b, lneutral h a -> lneutral h b -> lneutral h (a ++ b).
Proof. intros h a b Ha Hb rest. rewrite <- app_assoc. rewrite Ha. apply Hb. Qed.
Lemma lneutral_cons_acc : forall h x w a,
  (holds_mode (guard x) MW h || (negb w && holds_mode (guard x) MR h)) = true ->
  lneutral h a -> lneutral h (Acc x w :: a).
Proof. intros h x w a Hg Ha rest. cbn [app lockset_from]. rewrite Hg. cbn [andb]. apply Ha. Qed.
Lemma lneutral_locked : forall h l m body, lneutral ((l, m) :: h) body -> lneutral h (locked l m body).
Proof.
  intros h l m body Hb rest. unfold locked. cbn [app]. rewrite <- app_assoc. cbn [lockset_from].
  rewrite Hb. cbn [app lockset_from]. rewrite remove_held_head. reflexivity.
Qed.
Lemma lneutral_flat_map : forall A h (f : A -> thread) xs, (forall x, lneutral h (f x)) -> lneutral h (flat_map f xs).
Proof.
  intros A h f xs H. induction xs as [|x xs IH]; cbn; [apply lneutral_nil|]. apply lneutral_app; auto.
Qed.
Lemma lneutral_lockset : forall t, lneutral [] t -> lockset_thread t = true.
Proof. intros t H. unfold lockset_thread. rewrite <- (app_nil_r t). rewrite H. reflexivity. Qed.

Ltac guard_ok := cbn; rewrite ?Nat.eqb_refl, ?cache_eqb_refl; cbn; rewrite ?orb_true_r; reflexivity.

Ltac neutral_tac :=
  repeat first
    [ apply neutral_nil
    | apply neutral_acc
    | apply neutral_locked; [reflexivity|]
    | apply neutral_cons_acc
    | apply neutral_flat_map; intro
    | apply neutral_app
    | match goal with |- neutral _ (if ?b then _ else _) => destruct b end
    | match goal with |- neutral _ (?f _ _ _) => unfold f | |- neutral _ (?f _ _) => unfold f | |- neutral _ (?f _) => unfold f
                    | |- neutral _ ?f => unfold f end ].

Ltac lneutral_tac :=
  repeat first
    [ apply lneutral_nil
    | apply lneutral_locked
    | apply lneutral_cons_acc; [guard_ok|]
    | apply lneutral_flat_map; intro
    | apply lneutral_app
    | match goal with |- lneutral _ (if ?b then _ else _) => destruct b end
    | match goal with |- lneutral _ [Acc ?x ?w] => change [Acc x w] with (Acc x w :: []) end
    | match goal with |- lneutral _ (?f _ _ _) => unfold f | |- lneutral _ (?f _ _) => unfold f | |- lneutral _ (?f _) => unfold f
                    | |- lneutral _ ?f => unfold f end ].

Theorem put_thread_disciplined : forall s ds cbs,
  ordered_thread (put_thread s ds cbs) = true /\ lockset_thread (put_thread s ds cbs) = true.
Proof.
  intros s ds cbs. split.
  - apply neutral_ordered. unfold put_thread. neutral_tac.
  - apply lneutral_lockset. unfold put_thread. lneutral_tac.
Qed.

Theorem get_thread_disciplined : forall s ds ts,
  ordered_thread (get_thread s ds ts) = true /\ lockset_thread (get_thread s ds ts) = true.
Proof.
  intros. split.
  - apply neutral_ordered. unfold get_thread. neutral_tac.
  - apply lneutral_lockset. unfold get_thread. lneutral_tac.
Qed.

Theorem delete_thread_disciplined : forall s ds ts,
  ordered_thread (delete_thread s ds ts) = true /\ lockset_thread (delete_thread s ds ts) = true.
Proof.
  intros. split.
  - apply neutral_ordered. unfold delete_thread. neutral_tac.
  - apply lneutral_lockset. unfold delete_thread. lneutral_tac.
Qed.

Theorem savers_disciplined : forall d s a t,
  (ordered_thread (save_dimension d) = true /\ lockset_thread (save_dimension d) = true) /\
  (ordered_thread (save_segment s) = true /\ lockset_thread (save_segment s) = true) /\
  (ordered_thread (save_dict a) = true /\ lockset_thread (save_dict a) = true) /\
  (ordered_thread (save_tree t a) = true /\ lockset_thread (save_tree t a) = true).
Proof.
  intros. repeat split; first [ apply neutral_ordered; neutral_tac | apply lneutral_lockset; lneutral_tac ].
Qed.

Theorem tasks_disciplined : forall c d s a t,
  (ordered_thread (writeback_task c) = true /\ lockset_thread (writeback_task c) = true) /\
  (ordered_thread (evict_task CDims (save_dimension d)) = true /\ lockset_thread (evict_task CDims (save_dimension d)) = true) /\
  (ordered_thread (evict_task CSegs (save_segment s)) = true /\ lockset_thread (evict_task CSegs (save_segment s)) = true) /\
  (ordered_thread (evict_task CDicts (save_dict a)) = true /\ lockset_thread (evict_task CDicts (save_dict a)) = true) /\
  (ordered_thread (evict_task CTrees (save_tree t a)) = true /\ lockset_thread (evict_task CTrees (save_tree t a)) = true).
Proof.
  intros. repeat split; first [ apply neutral_ordered; destruct c; neutral_tac | apply lneutral_lockset; destruct c; lneutral_tac ].
Qed.

(* the threads of the property's quantifier: any number of ingests, renders, deletes / retention runs, write-back
   and eviction task runs, savers — over any series, dimensions and trees *)
Inductive table_thread : thread -> Prop :=
| tt_put : forall s ds cbs, table_thread (put_thread s ds cbs)
| tt_get : forall s ds ts, table_thread (get_thread s ds ts)
| tt_delete : forall s ds ts, table_thread (delete_thread s ds ts)
| tt_writeback : forall c, table_thread (writeback_task c)
| tt_evict_dims : forall d, table_thread (evict_task CDims (save_dimension d))
| tt_evict_segs : forall s, table_thread (evict_task CSegs (save_segment s))
| tt_evict_dicts : forall a, table_thread (evict_task CDicts (save_dict a))
| tt_evict_trees : forall t a, table_thread (evict_task CTrees (save_tree t a))
| tt_save_dim : forall d, table_thread (save_dimension d)
| tt_save_seg : forall s, table_thread (save_segment s)
| tt_save_dict : forall a, table_thread (save_dict a)
| tt_save_tree : forall t a, table_thread (save_tree t a).

Lemma table_thread_disciplined : forall t, table_thread t -> ordered_thread t = true /\ lockset_thread t = true.
Proof.
  intros t H. destruct H.
  - apply put_thread_disciplined.
  - apply get_thread_disciplined.
  - apply delete_thread_disciplined.
  - apply (tasks_disciplined c 0 0 0 0).
  - apply (tasks_disciplined CDims d 0 0 0).
  - apply (tasks_disciplined CDims 0 s 0 0).
  - apply (tasks_disciplined CDims 0 0 a 0).
  - apply (tasks_disciplined CDims 0 0 a t).
  - apply (savers_disciplined d 0 0 0).
  - apply (savers_disciplined 0 s 0 0).
  - apply (savers_disciplined 0 0 a 0).
  - apply (savers_disciplined 0 0 a t).
Qed.

Lemma forall_forallb : forall A (P : A -> Prop) (f : A -> bool) l,
  (forall x, P x -> f x = true) -> Forall P l -> forallb f l = true.
Proof. intros A P f l H F. induction F; cbn; auto. rewrite (H x), IHF; auto. Qed.

Theorem storage_threads_no_deadlock : forall ts sched,
  Forall table_thread ts -> stuck (run_sched sched (init_config ts)) = false.
Proof.
  intros ts sched F. apply ordered_threads_never_stuck.
  eapply forall_forallb; [|exact F]. intros t Ht. apply table_thread_disciplined. exact Ht.
Qed.

Theorem storage_threads_lockset : forall ts sched,
  Forall table_thread ts ->
  forallb lockset_thread ts = true /\ ~ racing (run_sched sched (init_config ts)).
Proof.
  intros ts sched F.
  assert (L : forallb lockset_thread ts = true).
  { eapply forall_forallb; [|exact F]. intros t Ht. apply table_thread_disciplined. exact Ht. }
  split; auto. apply lockset_threads_never_race; auto.
  eapply forall_forallb; [|exact F]. intros t Ht. apply table_thread_disciplined. exact Ht.
Qed.

(* a segment's write section excludes every other section of that segment, in every reachable configuration:
   what allows the coarse model to treat Segment.Put (with all its per-bucket callbacks) and the read section of a
   render as single steps *)
Theorem segment_sections_exclusive : forall ts sched i j t u s,
  Forall table_thread ts ->
  let c := run_sched sched (init_config ts) in
  i <> j -> nth_error c i = Some t -> nth_error c j = Some u ->
  holds_w (LSeg s) (ts_held t) = true -> holds (LSeg s) (ts_held u) = false.
Proof.
  intros ts sched i j t u s F c. apply writer_excludes_everybody.
  eapply forall_forallb; [|exact F]. intros t0 Ht. apply table_thread_disciplined. exact Ht.
Qed.

(* ---- refutation examples for the pre-fix tables --------------------------------------------------------------------------- *)
(* D9 (before ffa16da): PopulateTimeline, the metadata getters and Intersection accessed without their locks *)
Example d9_table_fails_lockset : lockset_thread (get_thread_d9 0 [0; 1] [0; 3]) = false.
Proof. reflexivity. Qed.
(* before 6f0bdb0: the write-back / eviction goroutine serialized a dimension without its lock *)
Example unlocked_dimension_save_fails_lockset : lockset_thread (evict_task CDims (save_dimension_unlocked 1)) = false.
Proof. reflexivity. Qed.
(* ... and such a table does race: an ingest inserting into dimension 0 next to a saver reading it *)
Example unlocked_dimension_save_races :
  racing (run_sched (repeat 0 19) (init_config [put_thread 0 [0] []; save_dimension_unlocked 0])).
Proof.
  exists 0, 1. eexists. eexists. exists (LocDimKeys 0), true, false.
  split; [discriminate|]. vm_compute. repeat split; auto.
Qed.
(* before 560e1ec: Intersection kept the read locks of all its dimensions, in the caller's map order: not ordered,
   and with two renders in opposite orders, an ingest (Dimension.Insert) and a delete (Dimension.Delete) the
   writer-pending rule of sync.RWMutex produces a configuration in which nobody can move *)
Example nested_table_not_ordered : ordered_thread (get_thread_nested 0 [0; 1] []) = false.
Proof. reflexivity. Qed.
Definition dl_threads : list thread :=
  [get_thread_nested 0 [0; 1] []; get_thread_nested 0 [1; 0] [];
   locked (LDim 0) MW [Acc (LocDimKeys 0) true]; locked (LDim 1) MW [Acc (LocDimKeys 1) true]].
Example nested_table_deadlocks : stuck (run_sched [0; 1; 0; 1; 2; 3] (init_config dl_threads)) = true.
Proof. reflexivity. Qed.
(* the repaired table with the same clients is never stuck (instance of the theorem), e.g. on that schedule *)
Example repaired_table_same_schedule :
  stuck (run_sched [0; 1; 0; 1; 2; 3] (init_config
    [get_thread 0 [0; 1] []; get_thread 0 [1; 0] []; put_thread 0 [0] []; delete_thread 1 [1] []])) = false.
Proof. reflexivity. Qed.

(* ---- COARSE model: atomic reads and the quiescent sum ------------------------------------------------------------------------ *)
From Coq Require Import Permutation.

Record cinv (s : cstate) : Prop := {
  ci_nodup_started : NoDup (c_started s);
  ci_nodup_applied : NoDup (c_applied s);
  ci_ended_applied : incl (c_ended s) (c_applied s);
  ci_applied_started : incl (c_applied s) (c_started s);
  ci_rstarted : forall r E, In (r, E) (r_started s) -> incl E (c_applied s);
  ci_rread_prefix : forall r S, In (r, S) (r_read s) -> exists rest, c_applied s = S ++ rest;
  ci_rread_lower : forall r S E, In (r, S) (r_read s) -> In (r, E) (r_started s) -> incl E S;
  ci_rread_started : forall r S, In (r, S) (r_read s) -> memk r (r_started s) = true;
  ci_rended_upper : forall r S T, In (r, T) (r_ended s) -> In (r, S) (r_read s) -> incl S T;
  ci_rended_read : forall r T, In (r, T) (r_ended s) -> memk r (r_read s) = true
}.

Lemma memn_in : forall x l, memn x l = true <-> In x l.
Proof.
  intros x l. unfold memn. rewrite existsb_exists. split.
  - intros [y [Hy E]]. apply Nat.eqb_eq in E. subst. exact Hy.
  - intro H. exists x. split; auto. apply Nat.eqb_refl.
Qed.
Lemma memk_false : forall x l E, memk x l = false -> ~ In (x, E) l.
Proof.
  intros x l E H Hin. unfold memk in H.
  assert (existsb (fun p => Nat.eqb x (fst p)) l = true).
  { apply existsb_exists. exists (x, E). split; auto. cbn. apply Nat.eqb_refl. }
  congruence.
Qed.

Lemma nodup_snoc : forall (l : list nat) x, NoDup l -> ~ In x l -> NoDup (l ++ [x]).
Proof.
  induction l as [|y l IH]; intros x ND Hn; cbn.
  - constructor; auto; constructor.
  - inversion ND; subst. constructor.
    + intro Hin. apply in_app_or in Hin as [Hin | [<- | []]]; auto. apply Hn. left. reflexivity.
    + apply IH; auto. intro Hin. apply Hn. right. exact Hin.
Qed.

Lemma cinv_init : cinv c_init.
Proof.
  constructor; cbn; try (constructor; fail); try (intros; contradiction); intros ? [].
Qed.

Lemma cinv_step : forall s e, cinv s -> cinv (c_step s e).
Proof.
  intros s e I. destruct I. destruct e as [g | g | g | r | r | r]; cbn.
  - (* WStart *)
    destruct (memn g (c_started s)) eqn:M; [constructor; auto|].
    constructor; cbn; auto.
    + constructor; auto. intro Hin. apply memn_in in Hin. congruence.
    + intros x Hx. right. auto.
  - (* WApply *)
    destruct (memn g (c_started s) && negb (memn g (c_applied s))) eqn:M; [|constructor; auto].
    apply andb_true_iff in M as [M1 M2]. apply negb_true_iff in M2. apply memn_in in M1.
    constructor; cbn; auto.
    + apply nodup_snoc; auto. intros Hin. apply memn_in in Hin. congruence.
    + intros x Hx. apply in_or_app. left. auto.
    + intros x Hx. apply in_app_or in Hx as [Hx | [<- | []]]; auto.
    + intros r E Hin x Hx. apply in_or_app. left. eapply ci_rstarted0; eauto.
    + intros r S Hin. destruct (ci_rread_prefix0 r S Hin) as [rest Hr]. exists (rest ++ [g]).
      rewrite Hr. rewrite app_assoc. reflexivity.
  - (* WEnd *)
    destruct (memn g (c_applied s) && negb (memn g (c_ended s))) eqn:M; [|constructor; auto].
    apply andb_true_iff in M as [M1 M2]. apply memn_in in M1.
    constructor; cbn; auto.
    intros x [<- | Hx]; auto.
  - (* RStart *)
    destruct (memk r (r_started s)) eqn:M; [constructor; auto|].
    constructor; cbn; auto.
    + intros r' E [Heq | Hin]; [inversion Heq; subst; auto | eauto].
    + intros r' S E Hs [Heq | Hin]; [|eauto].
      inversion Heq; subst. exfalso. apply ci_rread_started0 in Hs. congruence.
    + intros r' S Hs. pose proof (ci_rread_started0 r' S Hs) as Q. unfold memk in *. cbn. rewrite Q. apply orb_true_r.
  - (* RRead *)
    destruct (memk r (r_started s) && negb (memk r (r_read s))) eqn:M; [|constructor; auto].
    apply andb_true_iff in M as [M1 M2]. apply negb_true_iff in M2.
    constructor; cbn; auto.
    + intros r' S [Heq | Hin]; [inversion Heq; subst; exists []; rewrite app_nil_r; reflexivity | eauto].
    + intros r' S E [Heq | Hin] HE; [inversion Heq; subst; eapply ci_rstarted0; eauto | eauto].
    + intros r' S [Heq | Hin]; [inversion Heq; subst; auto | eauto].
    + intros r' S T HT [Heq | Hin]; [|eauto].
      inversion Heq; subst. exfalso. apply ci_rended_read0 in HT. congruence.
    + intros r' T HT. pose proof (ci_rended_read0 r' T HT) as Q. unfold memk in *. cbn. rewrite Q. apply orb_true_r.
  - (* REnd *)
    destruct (memk r (r_read s) && negb (memk r (r_ended s))) eqn:M; [|constructor; auto].
    constructor; cbn; auto.
    + intros r' S T [Heq | Hin] HS; [|eauto].
      inversion Heq; subst. destruct (ci_rread_prefix0 r' S HS) as [rest Hr].
      intros x Hx. apply ci_applied_started0. rewrite Hr. apply in_or_app. left. exact Hx.
    + intros r' T [Heq | Hin]; [|eauto].
      inversion Heq; subst. apply andb_true_iff in M. tauto.
Qed.

Lemma cinv_run_from : forall evs s, cinv s -> cinv (fold_left c_step evs s).
Proof. induction evs as [|e evs IH]; intros s I; cbn; auto. apply IH. apply cinv_step. exact I. Qed.

Lemma cinv_run : forall evs, cinv (c_run evs).
Proof. intro. apply cinv_run_from. apply cinv_init. Qed.

(* a render returns the state after a whole number of ingests (a prefix of the application order), containing at
   least the ingests acknowledged before it was called and at most those called before it returned *)
Theorem atomic_read : forall evs r S,
  let s := c_run evs in
  In (r, S) (r_read s) ->
  (exists rest, c_applied s = S ++ rest) /\
  (forall E, In (r, E) (r_started s) -> incl E S) /\
  (forall T, In (r, T) (r_ended s) -> incl S T).
Proof.
  intros evs r S s H. pose proof (cinv_run evs) as I. fold s in I. destruct I.
  split; [eauto|]. split; intros; eauto.
Qed.

Lemma sumw_perm : forall w a b, Permutation a b -> sumw w a = sumw w b.
Proof.
  intros w a b P. induction P; auto.
  - change (sumw w (x :: l)) with (w x + sumw w l)%N. change (sumw w (x :: l')) with (w x + sumw w l')%N.
    rewrite IHP. reflexivity.
  - change (sumw w (y :: x :: l)) with (w y + (w x + sumw w l))%N.
    change (sumw w (x :: y :: l)) with (w x + (w y + sumw w l))%N. lia.
  - rewrite IHP1. exact IHP2.
Qed.

(* once every ingest that was called has returned, the series holds each of them exactly once: its content is the
   sequential sum, whatever the interleaving was *)
Theorem quiescent_sum : forall evs w,
  let s := c_run evs in
  (forall g, In g (c_started s) -> In g (c_ended s)) ->
  NoDup (c_applied s) /\ Permutation (c_applied s) (c_started s) /\ sumw w (c_applied s) = sumw w (c_started s).
Proof.
  intros evs w s H. pose proof (cinv_run evs) as I. fold s in I. destruct I.
  assert (P : Permutation (c_applied s) (c_started s)).
  { apply NoDup_Permutation; auto. intro x. split; [apply ci_applied_started0|].
    intro Hx. apply ci_ended_applied0. apply H. exact Hx. }
  split; auto. split; auto. apply sumw_perm. exact P.
Qed.

(* non-vacuity: two writers, one render overlapping both; and the two-section read of the old Storage.Get *)
Example coarse_nonvacuous :
  let s := c_run [WStart 1; WApply 1; WEnd 1; RStart 7; WStart 2; WApply 2; RRead 7; WStart 3; WEnd 2; REnd 7; WApply 3; WEnd 3] in
  r_read s = [(7, [1; 2])] /\ r_started s = [(7, [1])] /\ r_ended s = [(7, [3; 2; 1])] /\ c_applied s = [1; 2; 3] /\
  (forall g, In g (c_started s) -> In g (c_ended s)).
Proof. cbn. repeat split; auto. Qed.

Example two_sections_see_different_states :
  r_read (c_run two_sections_example) = [(11, [1]); (10, [])].
Proof. reflexivity. Qed.
