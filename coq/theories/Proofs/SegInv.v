(* SegInv.v — the invariants of the exact store over write histories:
   LE    content(n) <= W(n)                      (what a node holds never exceeds what was written into its bucket)
   SUB   present n => sum of children contents <= E(n)
   Q     present n, no write ever contained n's bucket => sum of children contents = E(n)
   ROOT  content(root) = W(root)
   where W(n) = sum over the applied writes of (slots of the write inside n's bucket) * beta. *)
From Pyro Require Import Model.Base Model.Float53 Model.Segment
  Proofs.SegmentProofs Proofs.SegStruct Proofs.SegGet Proofs.SegStore.
From Coq Require Import ZifyBool ZifyNat.
Local Open Scope Z_scope.

Definition wov (lvl : nat) (t : Z) (w : write) : Z := ov t (t + pow10 lvl) (w_a w) (w_b w) * w_beta w.
Definition W (H : list write) (lvl : nat) (t : Z) : Z := sumZ (map (wov lvl t) H).
Definition absorbed (H : list write) (lvl : nat) (t : Z) : Prop :=
  exists w, In w H /\ w_a w <= t /\ t + pow10 lvl <= w_b w.
Definition good_write (w : write) : Prop := w_a w < w_b w /\ 0 <= w_beta w.

Lemma W_cons w H lvl t : W (w :: H) lvl t = wov lvl t w + W H lvl t.
Proof. reflexivity. Qed.

Lemma wov_nonneg lvl t w : 0 <= w_beta w -> 0 <= wov lvl t w.
Proof. intros. unfold wov. pose proof (ov_nonneg t (t + pow10 lvl) (w_a w) (w_b w)). nia. Qed.

Lemma W_nonneg H lvl t : Forall good_write H -> 0 <= W H lvl t.
Proof.
  induction 1 as [|w H Hw _ IH]; [cbn; lia|]. rewrite W_cons.
  pose proof (wov_nonneg lvl t w (proj2 Hw)). lia.
Qed.

Fixpoint ninv (E : store) (H : list write) (lvl : nat) (n : snode) {struct lvl} : Prop :=
  match n with
  | SNode t p s w ch =>
      0 <= content E lvl (SNode t p s w ch) <= W H lvl t /\
      (p = true -> subsum E lvl (SNode t p s w ch) <= E (lvl, t)) /\
      (p = true -> ~ absorbed H lvl t -> subsum E lvl (SNode t p s w ch) = E (lvl, t)) /\
      match lvl with
      | O => True
      | S l => oall (ninv E H l) ch
      end
  end.

Lemma subsum_cong lvl n E1 E2 : wf lvl n ->
  (forall k, under k lvl (sn_time n) -> E1 k = E2 k) -> subsum E1 lvl n = subsum E2 lvl n.
Proof.
  destruct lvl as [|l]; [reflexivity|]. destruct n as [t p s w ch]. cbn [subsum sn_ch sn_time].
  intros Hwf He. destruct Hwf as [_ [Hlen Hs]]. unfold osum. f_equal. apply map_ext_in. intros o Ho.
  destruct o as [c|]; [|reflexivity]. cbn [ocontent].
  pose proof (slots_In _ _ _ _ _ Hs Ho) as Hwc.
  pose proof (slots_bounds _ _ (pow10_pos l) _ _ _ Hs Ho) as [Hb1 Hb2]. rewrite Hlen in Hb2.
  apply content_cong; [exact Hwc|]. intros k Hk. apply He.
  eapply under_child; [exact Hk|lia|rewrite pow10_S; lia].
Qed.

Lemma ninv_cong H : forall lvl n E1 E2, wf lvl n ->
  (forall k, under k lvl (sn_time n) -> E1 k = E2 k) -> ninv E1 H lvl n -> ninv E2 H lvl n.
Proof.
  induction lvl as [|l IH]; intros [t p s w ch] E1 E2 Hwf He Hn.
  - cbn [ninv] in *. rewrite <- (content_cong 0 _ E1 E2 Hwf He).
    rewrite <- (subsum_cong 0 _ E1 E2 Hwf He). rewrite <- (He (0%nat, t)) by apply under_self. exact Hn.
  - cbn [ninv] in *. rewrite <- (content_cong (S l) _ E1 E2 Hwf He).
    rewrite <- (subsum_cong (S l) _ E1 E2 Hwf He). rewrite <- (He (S l, t)) by apply under_self.
    destruct Hn as (N1 & N2 & N3 & N4). split; [exact N1|]. split; [exact N2|]. split; [exact N3|].
    destruct Hwf as [_ [Hlen Hs]]. unfold oall in *. rewrite Forall_forall in *. intros o Ho.
    specialize (N4 o Ho). destruct o as [c|]; [|exact I].
    pose proof (slots_In _ _ _ _ _ Hs Ho) as Hwc.
    pose proof (slots_bounds _ _ (pow10_pos l) _ _ _ Hs Ho) as [Hb1 Hb2]. rewrite Hlen in Hb2.
    eapply IH; [exact Hwc| |exact N4]. intros k Hk. apply He. cbn [sn_time].
    eapply under_child; [exact Hk|lia|rewrite pow10_S; lia].
Qed.

Lemma ninv_new_node E H lvl t : Forall good_write H -> ninv E H lvl (new_node t lvl).
Proof.
  intros HH. pose proof (W_nonneg H lvl t HH) as HW. pose proof (content_new_node E lvl t) as Hc.
  destruct lvl as [|l]; unfold new_node in *; cbn [ninv].
  - rewrite Hc. split; [lia|]. split; [discriminate|]. split; [discriminate|exact I].
  - rewrite Hc. split; [lia|]. split; [discriminate|]. split; [discriminate|apply oall_repeat_None].
Qed.

(* a write that misses the bucket changes nothing *)
Lemma ninv_outside E H w : good_write w -> forall lvl n, wf lvl n ->
  (sn_time n + pow10 lvl <= w_a w \/ w_b w <= sn_time n) -> ninv E H lvl n -> ninv E (w :: H) lvl n.
Proof.
  intros [Hw1 Hw2]. induction lvl as [|l IH]; intros [t p s w0 ch] Hwf Hout Hn; cbn [sn_time] in *.
  - cbn [ninv] in *. rewrite W_cons. unfold wov at 1.
    assert (ov t (t + pow10 0) (w_a w) (w_b w) = 0) by (unfold ov; lia). rewrite H0.
    destruct Hn as (N1 & N2 & N3 & N4). repeat split; auto; try lia.
    intros Hp Ha. apply N3; [exact Hp|]. intros [w' [Hin Hc]]. apply Ha. exists w'. split; [right; exact Hin|exact Hc].
  - cbn [ninv] in *. rewrite W_cons. unfold wov at 1. pose proof (pow10_pos (S l)) as HpS.
    assert (ov t (t + pow10 (S l)) (w_a w) (w_b w) = 0) by (unfold ov; lia). rewrite H0.
    destruct Hn as (N1 & N2 & N3 & N4). repeat split; auto; try lia.
    + intros Hp Ha. apply N3; [exact Hp|]. intros [w' [Hin Hc]]. apply Ha. exists w'. split; [right; exact Hin|exact Hc].
    + destruct Hwf as [_ [Hlen Hs]]. unfold oall in *. rewrite Forall_forall in *. intros o Ho.
      specialize (N4 o Ho). destruct o as [c|]; [|exact I].
      pose proof (slots_In _ _ _ _ _ Hs Ho) as Hwc.
      pose proof (slots_bounds _ _ (pow10_pos l) _ _ _ Hs Ho) as [Hb1 Hb2]. rewrite Hlen in Hb2.
      apply IH; [exact Hwc| |exact N4]. rewrite pow10_S in *. lia.
Qed.

(* ---------- one put preserves the node invariant ---------- *)
Lemma children_transfer l a b smp beta (P : store -> snode -> Prop) :
  (forall c E1 E2, wf l c -> (forall k, under k l (sn_time c) -> E1 k = E2 k) -> P E1 c -> P E2 c) ->
  forall ch t0 E E', slots (wf l) (pow10 l) t0 ch -> pslots l a b smp beta E E' t0 ch ->
    (forall c, In (Some c) ch -> P (apply_cbs beta E (cbs_of l a b smp c)) (fst (s_put_node l a b smp c))) ->
    oall (P E') (map fst (map (put_child l a b smp) ch)).
Proof.
  intros Hloc. induction ch as [|o ch IH]; intros t0 E E' Hs Hp HP; [constructor|].
  cbn [slots pslots] in *. destruct Hs as [Ho Hsr]. destruct Hp as [Hpo Hpr]. cbn [map]. constructor.
  - destruct o as [c|]; cbn [put_child]; [|exact I]. destruct Ho as [Ht Hw].
    pose proof (HP c (or_introl eq_refl)) as HPc.
    pose proof (put_node_wf l a b smp c Hw) as Hw'. pose proof (put_node_time l a b smp c) as Ht'.
    destruct (s_put_node l a b smp c) as [c' cbs] eqn:Ep. cbn [fst] in *.
    eapply Hloc; [exact Hw'| |exact HPc]. intros k Hk. symmetry. apply Hpo. rewrite Ht', Ht in Hk. exact Hk.
  - eapply IH; [exact Hsr|exact Hpr|]. intros c Hc. apply HP. right. exact Hc.
Qed.

Lemma put_S_view a b smp beta l t p s w ch E : wf (S l) (SNode t p s w ch) ->
  is_outside (relationship t (t + pow10 (S l)) a b) = false ->
  let ch1 := ch1_of l t a b ch in
  let E' := apply_cbs beta E (snd (s_put_node (S l) a b smp (SNode t p s w ch))) in
  slots (wf l) (pow10 l) t ch1 /\ length ch1 = 10%nat /\ pslots l a b smp beta E E' t ch1 /\
  exists p' s' w', fst (s_put_node (S l) a b smp (SNode t p s w ch)) =
                   SNode t p' s' w' (map fst (map (put_child l a b smp) ch1)).
Proof.
  intros [Hm [Hlen Hs]] Eo. cbv zeta. rewrite put_node_S. cbv zeta. rewrite Eo. cbn [fst snd].
  destruct (ch1_slots l t a b ch Hm Hs) as [Hs1 Hlen1]. rewrite Hlen in Hlen1.
  set (ch1 := ch1_of l t a b ch) in *.
  split; [exact Hs1|]. split; [exact Hlen1|]. split; [|eexists; eexists; eexists; reflexivity].
  rewrite apply_cbs_app. fold (child_cbs l a b smp ch1).
  match goal with |- pslots _ _ _ _ _ _ (apply_cbs _ (apply_cbs _ _ ?o) _) _ _ => set (own := o) end.
  set (E1 := apply_cbs beta E own).
  assert (HE1 : forall k, k <> (S l, t) -> E1 k = E k).
  { intros k Hk. unfold E1, own. destruct (covers _ || _ || p); [|reflexivity]. cbn [apply_cbs fold_left].
    apply apply_cb_other. unfold pc_key. cbn [pc_lvl pc_t]. intros Heq. apply Hk. symmetry. exact Heq. }
  destruct (children_apply l a b smp beta ch1 t E1 Hs1) as [HF HP].
  eapply pslots_base_change; [exact Hs1| |exact HP]. intros k K1 K2. apply HE1. intros ->. cbn in K1. lia.
Qed.

Lemma qslots_In (Q : snode -> Prop) C w : forall ch t c, qslots Q C w t ch -> In (Some c) ch -> Q c.
Proof.
  induction ch as [|o ch IH]; intros t c Hq Hin; [destruct Hin|].
  cbn in Hq. destruct Hq as [Ho Hr]. destruct Hin as [H|H]; [subst o; exact Ho|eapply IH; eauto].
Qed.

Lemma oall_In (P : snode -> Prop) ch c : oall P ch -> In (Some c) ch -> P c.
Proof. unfold oall. rewrite Forall_forall. intros H Hin. exact (H _ Hin). Qed.

Section PutInv.
  Variables (a b : Z) (smp : N) (beta : Z) (H : list write).
  Hypothesis Hab : a < b.
  Hypothesis Hbeta : 0 <= beta.
  Hypothesis HH : Forall good_write H.
  Let wnew : write := {| w_a := a; w_b := b; w_smp := smp; w_beta := beta |}.

  Lemma put_ninv : forall lvl n E, wf lvl n -> quiet E lvl n -> ninv E H lvl n ->
    ninv (apply_cbs beta E (snd (s_put_node lvl a b smp n))) (wnew :: H) lvl (fst (s_put_node lvl a b smp n)).
  Proof.
    induction lvl as [|l IH]; intros [t p s w ch] E Hwf Hq Hn.
    - (* level 0 *)
      pose proof (put_delta a b smp beta Hab Hbeta 0 _ E Hwf Hq) as (D1 & D2 & D3 & D4).
      cbv zeta in D1, D2, D3, D4. cbn [sn_time] in *.
      pose proof (rel_unit t a b Hab) as Hu. pose proof (rel_spec t (t + 1) a b ltac:(lia) Hab) as Hr.
      change (pow10 0) with 1 in *.
      destruct (is_outside (relationship t (t + 1) a b)) eqn:Eo.
      { rewrite put_node_unfold_0. cbv zeta. change (pow10 0) with 1. rewrite Eo. cbn [fst snd apply_cbs fold_left].
        apply ninv_outside; [split; assumption|exact Hwf| |exact Hn].
        cbn [sn_time w_a w_b wnew]. change (pow10 0) with 1.
        destruct (relationship t (t + 1) a b); cbn in Eo; try discriminate. lia. }
      assert (Hcov : a <= t /\ t + 1 <= b /\ covers (relationship t (t + 1) a b) = true).
      { destruct (relationship t (t + 1) a b); cbn in Eo |- *; try discriminate; try contradiction; repeat split; lia. }
      destruct Hcov as (Hc1 & Hc2 & Hc3).
      assert (Hshape : exists s' w', fst (s_put_node 0 a b smp (SNode t p s w ch)) = SNode t true s' w' ch).
      { rewrite put_node_unfold_0. cbv zeta. change (pow10 0) with 1. rewrite Eo, Hc3. cbn [orb fst].
        rewrite orb_true_r. eexists; eexists; reflexivity. }
      destruct Hshape as (s' & w' & Hshape). rewrite Hshape in *.
      set (E' := apply_cbs beta E _) in *.
      destruct Hn as (N1 & N2 & N3 & _).
      cbn [ninv]. rewrite W_cons. unfold wov at 1. cbn [w_a w_b w_beta wnew]. change (pow10 0) with 1.
      rewrite D2. pose proof (ov_nonneg t (t + 1) a b) as Hov.
      split; [nia|].
      assert (HE' : E' (0%nat, t) = content E' 0 (SNode t true s' w' ch)) by reflexivity.
      split; [|split; [|exact I]].
      + intros _. cbn [subsum]. rewrite HE', D2. nia.
      + intros _ Hna. exfalso. apply Hna. exists wnew. split; [left; reflexivity|].
        cbn [w_a w_b wnew]. change (pow10 0) with 1. lia.
    - (* level S l *)
      pose proof (put_delta a b smp beta Hab Hbeta (S l) _ E Hwf Hq) as (D1 & D2 & D3 & D4).
      cbv zeta in D1, D2, D3, D4. cbn [sn_time] in *.
      pose proof (pow10_pos (S l)) as HpS. pose proof (pow10_pos l) as Hp.
      pose proof (rel_spec t (t + pow10 (S l)) a b ltac:(lia) Hab) as Hr.
      destruct (is_outside (relationship t (t + pow10 (S l)) a b)) eqn:Eo.
      { rewrite put_node_S in *. cbv zeta in *. rewrite Eo in *. cbn [fst snd apply_cbs fold_left] in *.
        apply ninv_outside; [split; assumption|exact Hwf| |exact Hn].
        cbn [sn_time w_a w_b wnew]. destruct (relationship t (t + pow10 (S l)) a b); cbn in Eo; try discriminate. lia. }
      destruct (put_S_view a b smp beta l t p s w ch E Hwf Eo) as (Hs1 & Hlen1 & HP & p' & s' & w' & Hshape).
      set (E' := apply_cbs beta E _) in *. rewrite Hshape in *.
      set (ch1 := ch1_of l t a b ch) in *. set (ch2 := map fst (map (put_child l a b smp) ch1)) in *.
      destruct Hn as (N1 & N2 & N3 & N4). destruct Hq as [Hq0 Hqs]. destruct Hwf as [Hm [Hlen Hs]].
      cbn [ninv]. rewrite W_cons. unfold wov at 1. cbn [w_a w_b w_beta wnew]. rewrite D2.
      assert (Hsc : subsum E (S l) (SNode t p s w ch) <= content E (S l) (SNode t p s w ch)).
      { rewrite content_unfold. destruct p; [apply N2; reflexivity|lia]. }
      split; [pose proof (ov_nonneg t (t + pow10 (S l)) a b); nia|].
      split; [|split].
      + intros Hp'. replace (E' (S l, t)) with (content E' (S l) (SNode t p' s' w' ch2))
          by (rewrite content_unfold, Hp'; reflexivity). rewrite D2. lia.
      + intros Hp' Hna. replace (E' (S l, t)) with (content E' (S l) (SNode t p' s' w' ch2))
          by (rewrite content_unfold, Hp'; reflexivity). rewrite D2.
        assert (Hna0 : ~ absorbed H (S l) t).
        { intros [w0 [Hin Hc]]. apply Hna. exists w0. split; [right; exact Hin|exact Hc]. }
        assert (Hnc : ~ (a <= t /\ t + pow10 (S l) <= b)).
        { intros Hc. apply Hna. exists wnew. split; [left; reflexivity|exact Hc]. }
        assert (Hcr : creates (relationship t (t + pow10 (S l)) a b) = true).
        { destruct (relationship t (t + pow10 (S l)) a b); cbn in Eo |- *; try discriminate; try reflexivity; exfalso; apply Hnc; lia. }
        rewrite (D4 Hcr).
        assert (subsum E (S l) (SNode t p s w ch) = content E (S l) (SNode t p s w ch)); [|lia].
        rewrite content_unfold. destruct p; [apply N3; [reflexivity|exact Hna0]|reflexivity].
      + (* children *)
        assert (Hq1 : qslots (quiet E l) (clean E l) (pow10 l) t ch1).
        { unfold ch1, ch1_of. destruct (creates _); [|exact Hqs].
          rewrite (trunc_to_aligned _ _ Hm).
          replace t with (t + 0 * pow10 l) at 1 by lia. replace t with (t + 0 * pow10 l) at 3 by lia.
          apply qslots_fill. replace (t + 0 * pow10 l) with t by lia. exact Hqs. }
        assert (Hn1 : oall (ninv E H l) ch1).
        { unfold ch1, ch1_of. destruct (creates _); [|exact N4].
          apply oall_fill_children; [intros; apply ninv_new_node; exact HH|exact N4]. }
        apply (children_transfer l a b smp beta (fun E0 c => ninv E0 (wnew :: H) l c)) with (t0 := t) (E := E).
        * intros c E1 E2 Hwc He Hc. eapply ninv_cong; eauto.
        * exact Hs1.
        * exact HP.
        * intros c Hc. apply IH.
          -- exact (slots_In _ _ _ _ _ Hs1 Hc).
          -- exact (qslots_In _ _ _ _ _ _ Hq1 Hc).
          -- exact (oall_In _ _ _ Hn1 Hc).
  Qed.
End PutInv.

(* ---------- segments: growTree and Put preserve the store invariant ---------- *)
Definition hist_in (lvl : nat) (t : Z) (H : list write) : Prop :=
  Forall (fun w => good_write w /\ t <= w_a w /\ w_b w <= t + pow10 lvl) H.

Definition store_ok (E : store) (H : list write) (lvl : nat) (n : snode) : Prop :=
  quiet E lvl n /\ ninv E H lvl n /\
  (forall k, ~ under k lvl (sn_time n) -> E k = 0) /\
  content E lvl n = W H lvl (sn_time n) /\ hist_in lvl (sn_time n) H.

Definition sinv (K : Z) (s : segment) (E : store) (H : list write) : Prop :=
  match s_root s with
  | None => H = [] /\ forall k, E k = 0
  | Some (lvl, n) => node_ok K lvl n /\ store_ok E H lvl n
  end.

Lemma hist_in_good lvl t H : hist_in lvl t H -> Forall good_write H.
Proof. intros Hh. eapply Forall_impl; [|exact Hh]. cbn. tauto. Qed.

Lemma W_grow H lvl t lvl' t' : hist_in lvl t H -> t' <= t -> t + pow10 lvl <= t' + pow10 lvl' ->
  W H lvl' t' = W H lvl t.
Proof.
  intros Hh H1 H2. unfold W. f_equal. apply map_ext_Forall. eapply Forall_impl; [|exact Hh].
  intros w [[G1 G2] [G3 G4]]. unfold wov, ov. f_equal. lia.
Qed.

Lemma qslots_repeat_gen (Q : snode -> Prop) (C : Z -> Prop) w : forall n t0,
  (forall j, 0 <= j < Z.of_nat n -> C (t0 + j * w)) -> qslots Q C w t0 (repeat None n).
Proof.
  induction n as [|n IH]; intros t0 HC; [exact I|]. cbn [repeat qslots]. split.
  - replace t0 with (t0 + 0 * w) by lia. apply HC. lia.
  - apply IH. intros j Hj. replace (t0 + w + j * w) with (t0 + (j + 1) * w) by lia. apply HC. lia.
Qed.

Lemma qslots_list_set (Q : snode -> Prop) (C : Z -> Prop) w c : Q c -> forall n i ch' t0,
  list_set i (Some c) (repeat None n) = Some ch' ->
  (forall j, 0 <= j < Z.of_nat n -> j <> Z.of_nat i -> C (t0 + j * w)) -> qslots Q C w t0 ch'.
Proof.
  intros HQ. induction n as [|n IH]; intros i ch' t0 Hl HC; cbn in Hl; [discriminate|].
  destruct i as [|i].
  - inversion Hl; subst. cbn [qslots]. split; [exact HQ|].
    apply qslots_repeat_gen. intros j Hj. replace (t0 + w + j * w) with (t0 + (j + 1) * w) by lia. apply HC; lia.
  - destruct (list_set i (Some c) (repeat None n)) eqn:El; [|discriminate]. inversion Hl; subst.
    cbn [qslots]. split.
    + replace t0 with (t0 + 0 * w) by lia. apply HC; lia.
    + apply (IH i); [exact El|]. intros j Hj Hne.
      replace (t0 + w + j * w) with (t0 + (j + 1) * w) by lia. apply HC; lia.
Qed.

Lemma osum_list_set E l c : forall n i ch', list_set i (Some c) (repeat None n) = Some ch' ->
  osum E l ch' = content E l c.
Proof.
  unfold osum. induction n as [|n IH]; intros i ch' Hl; cbn in Hl; [discriminate|].
  destruct i as [|i].
  - inversion Hl; subst. cbn [map]. rewrite sumZ_cons. cbn [ocontent].
    assert (sumZ (map (ocontent E l) (repeat None n)) = 0); [|lia].
    clear. induction n; cbn in *; [reflexivity|]. unfold sumZ in *. cbn. exact IHn.
  - destruct (list_set i (Some c) (repeat None n)) eqn:El; [|discriminate]. inversion Hl; subst.
    cbn [map]. rewrite sumZ_cons. cbn [ocontent]. rewrite (IH _ _ El). lia.
Qed.

Lemma grow_step_store K E H lvl n root1 : node_ok K lvl n -> store_ok E H lvl n ->
  sn_replace lvl (SNode (trunc_to (S lvl) (sn_time n)) false (sn_samples n) (sn_writes n) (repeat None 10)) n = Some root1 ->
  store_ok E H (S lvl) root1.
Proof.
  intros (Hl & Hwf & Htwo & Hblk) (Hq & Hn & Hout & Hroot & Hh) Hrep.
  pose proof (wf_time_mod _ _ Hwf) as Hm.
  pose proof (replace_idx_grid lvl (sn_time n) Hm) as Hidx. cbv zeta in Hidx.
  unfold sn_replace in Hrep. set (T := trunc_to (S lvl) (sn_time n)) in *.
  set (i := replace_idx lvl T (sn_time n)) in *. destruct Hidx as [Hi Ht].
  replace (i <? 0) with false in Hrep by lia.
  destruct (list_set (Z.to_nat i) (Some n) (repeat None 10)) as [ch'|] eqn:El; [|discriminate].
  inversion Hrep; subst root1. clear Hrep.
  pose proof (pow10_pos lvl) as Hp. pose proof (pow10_S lvl) as HS.
  assert (HW : W H (S lvl) T = W H lvl (sn_time n)) by (apply (W_grow H lvl (sn_time n)); [exact Hh|nia|nia]).
  assert (Hcont : content E (S lvl) (SNode T false (sn_samples n) (sn_writes n) ch') = content E lvl n).
  { cbn [content]. fold (ocontent E lvl). fold (osum E lvl ch'). eapply osum_list_set. exact El. }
  assert (HE0 : forall k, ~ under k lvl (sn_time n) -> E k = 0) by exact Hout.
  unfold store_ok. cbn [sn_time]. split; [|split; [|split; [|split]]].
  - cbn [quiet]. split.
    + intros _. apply HE0. unfold under. cbn. lia.
    + eapply qslots_list_set; [exact Hq|exact El|].
      intros j Hj Hne k Hk. apply HE0. rewrite Z2Nat.id in Hne by lia. unfold under in *. nia.
  - cbn [ninv]. rewrite Hcont, HW, <- Hroot.
    pose proof (hist_in_good _ _ _ Hh) as HG. pose proof (W_nonneg H lvl (sn_time n) HG).
    split; [lia|]. split; [discriminate|]. split; [discriminate|].
    eapply list_set_oall; [exact Hn|exact El].
  - intros k Hk. apply HE0. intros Hu. apply Hk. unfold under in *. nia.
  - rewrite Hcont, HW. exact Hroot.
  - eapply Forall_impl; [|exact Hh]. intros w0 (G1 & G2 & G3). split; [exact G1|]. nia.
Qed.

Lemma grow_loop_store K E H a b : forall fuel lvl n, node_ok K lvl n -> store_ok E H lvl n ->
  a < b -> K * pow10 8 <= a -> b <= (K + 1) * pow10 8 -> fuel = (8 - lvl)%nat ->
  let '(lvl', n') := s_grow_loop fuel a b lvl n in store_ok E H lvl' n'.
Proof.
  induction fuel as [|f IH]; intros lvl n Hok Hst Hab Ha Hb Hf; cbn [s_grow_loop].
  - destruct (relationship _ _ a b); exact Hst.
  - destruct (relationship _ _ a b); try exact Hst;
      (destruct (sn_replace lvl _ n) as [root1|] eqn:Er; [|exact Hst];
       pose proof (grow_step_store K E H lvl n root1 Hok Hst Er) as Hst1;
       assert (Hok1 : node_ok K (S lvl) root1);
       [ destruct Hok as (Hl & Hwf & Htwo & Hblk);
         pose proof (wf_time_mod _ _ Hwf) as Hm;
         pose proof (replace_idx_grid lvl (sn_time n) Hm) as Hidx; cbv zeta in Hidx;
         unfold sn_replace in Er;
         destruct Hidx as [Hi Ht];
         replace (replace_idx lvl (trunc_to (S lvl) (sn_time n)) (sn_time n) <? 0) with false in Er by lia;
         destruct (list_set _ (Some n) (repeat None 10)) as [ch'|] eqn:El; [|discriminate];
         inversion Er; subst root1;
         destruct Hblk as [Hb1 Hb2]; pose proof (pow10_pos lvl);
         pose proof (block_trunc (S lvl) K (sn_time n) ltac:(lia) ltac:(lia)) as [Hc1 Hc2];
         split; [lia|]; split; [|split];
         [ cbn [wf]; split; [apply trunc_to_mod|]; split;
           [ rewrite (list_set_length _ _ _ _ El); apply repeat_length
           | eapply list_set_repeat_slots; [exact Hwf|exact El|]; rewrite Z2Nat.id by lia; exact Ht ]
         | cbn [two]; split;
           [ intros H2; rewrite (list_set_count_one _ _ _ _ El) in H2; lia
           | eapply list_set_oall; [exact Htwo|exact El] ]
         | split; cbn [sn_time]; lia ]
       | specialize (IH (S lvl) root1 Hok1 Hst1 Hab Ha Hb ltac:(lia));
         destruct (s_grow_loop f a b (S lvl) root1); exact IH ]).
Qed.

Lemma s_grow_store K a b s E H : valid_range K a b -> sinv K s E H ->
  match s_root (s_grow a b s) with
  | Some (lvl, n) => node_ok K lvl n /\ store_ok E H lvl n /\ sn_time n <= a /\ b <= sn_time n + pow10 lvl
  | None => False
  end.
Proof.
  intros Hv Hs. pose proof Hv as (Hab & Ha & Hb).
  assert (Hsok : seg_ok K s).
  { unfold sinv, seg_ok in *. destruct (s_root s) as [[lvl n]|]; [apply Hs|exact I]. }
  pose proof (s_grow_ok_holds K a b s Hv Hsok) as G.
  unfold s_grow, sinv in *. destruct (s_root s) as [[lvl n]|]; cbn [s_root] in *.
  - destruct Hs as [Hok Hst]. pose proof (pow10_pos lvl).
    destruct Hok as (Hl & Hwf & Htwo & Hb1 & Hb2).
    pose proof (grow_loop_store K E H (Z.min a (sn_time n)) (Z.max b (sn_time n + pow10 lvl))
                  (max_level - lvl)%nat lvl n (conj Hl (conj Hwf (conj Htwo (conj Hb1 Hb2)))) Hst
                  ltac:(lia) ltac:(lia) ltac:(lia) eq_refl) as GS.
    destruct (s_grow_loop _ _ _ lvl n) as [lvl' n']. destruct G as (G1 & G2 & G3). auto.
  - destruct Hs as [HH HE]. subst H.
    assert (Hn : node_ok K 0 (new_node a 0)).
    { split; [unfold max_level; lia|]. split; [apply wf_new_node; change (pow10 0) with 1; apply Z.mod_1_r|].
      split; [apply two_new_node|]. unfold in_blk. cbn [new_node sn_time]. change (pow10 0) with 1. lia. }
    assert (Hst : store_ok E [] 0 (new_node a 0)).
    { split; [apply quiet_new_node; intros k _; apply HE|].
      split; [apply ninv_new_node; constructor|].
      split; [intros k _; apply HE|]. split; [rewrite content_new_node; reflexivity|constructor]. }
    pose proof (grow_loop_store K E [] a b max_level 0%nat (new_node a 0) Hn Hst Hab Ha Hb eq_refl) as GS.
    destruct (s_grow_loop _ _ _ _ _) as [lvl' n']. destruct G as (G1 & G2 & G3). auto.
Qed.

Definition mk_write (a b : Z) (smp : N) (beta : Z) : write := {| w_a := a; w_b := b; w_smp := smp; w_beta := beta |}.

Lemma s_put_store K a b smp beta s E H : valid_range K a b -> 0 <= beta -> sinv K s E H ->
  sinv K (fst (s_put a b smp s)) (apply_cbs beta E (snd (s_put a b smp s))) (mk_write a b smp beta :: H).
Proof.
  intros Hv Hbeta Hs. pose proof Hv as (Hab & Ha & Hb).
  pose proof (s_grow_store K a b s E H Hv Hs) as G. unfold s_put.
  destruct (s_root (s_grow a b s)) as [[lvl n]|]; [|contradiction].
  destruct G as ((Hl & Hwf & Htwo & Hb1 & Hb2) & (Hq & Hn & Hout & Hroot & Hh) & Hin1 & Hin2).
  pose proof (hist_in_good _ _ _ Hh) as HG.
  pose proof (put_delta a b smp beta Hab Hbeta lvl n E Hwf Hq) as (D1 & D2 & _ & _). cbv zeta in D1, D2.
  pose proof (put_ninv a b smp beta H Hab Hbeta HG lvl n E Hwf Hq Hn) as PN.
  pose proof (put_local lvl a b smp n Hwf) as PL.
  pose proof (put_node_wf lvl a b smp n Hwf) as Hwf'. pose proof (put_node_two lvl a b smp n Htwo) as Htwo'.
  pose proof (put_node_time lvl a b smp n) as Ht'.
  destruct (s_put_node lvl a b smp n) as [n' cbs]. cbn [fst snd] in *.
  unfold sinv. cbn [s_root]. split.
  - split; [exact Hl|]. split; [exact Hwf'|]. split; [exact Htwo'|]. unfold in_blk. lia.
  - unfold store_ok. rewrite Ht'. split; [exact D1|]. split; [exact PN|]. split; [|split].
    + intros k Hk. rewrite (apply_cbs_frame beta lvl (sn_time n)); [apply Hout; exact Hk|exact PL|exact Hk].
    + rewrite D2, Hroot, W_cons. unfold wov, mk_write. cbn [w_a w_b w_beta]. lia.
    + constructor; [|exact Hh]. unfold good_write, mk_write. cbn [w_a w_b w_beta]. repeat split; lia.
Qed.

(* ---------- histories ---------- *)
Lemma run_sinv K : forall ws s E H, Forall (valid_write K) ws -> sinv K s E H ->
  let sE := fold_left put_step ws (s, E) in sinv K (fst sE) (snd sE) (rev ws ++ H).
Proof.
  induction ws as [|w ws IH]; intros s E H Hv Hs; cbn [fold_left rev app]; [exact Hs|].
  inversion Hv as [|w0 ws0 [Hw1 Hw2] Hvs]; subst.
  pose proof (s_put_store K (w_a w) (w_b w) (w_smp w) (w_beta w) s E H Hw1 Hw2 Hs) as Hstep.
  assert (Heq : put_step (s, E) w = (fst (s_put (w_a w) (w_b w) (w_smp w) s),
                                     apply_cbs (w_beta w) E (snd (s_put (w_a w) (w_b w) (w_smp w) s)))).
  { unfold put_step. cbn [fst snd]. destruct (s_put (w_a w) (w_b w) (w_smp w) s). reflexivity. }
  rewrite Heq.
  specialize (IH _ _ _ Hvs Hstep).
  cbv zeta in IH. rewrite <- app_assoc. cbn [app].
  replace (mk_write (w_a w) (w_b w) (w_smp w) (w_beta w)) with w in IH by (destruct w; reflexivity).
  exact IH.
Qed.

Lemma run_writes_sinv K ws : Forall (valid_write K) ws ->
  sinv K (fst (run_writes ws)) (snd (run_writes ws)) (rev ws).
Proof.
  intros Hv. pose proof (run_sinv K ws s_empty store0 [] Hv) as G.
  rewrite app_nil_r in G. apply G. unfold sinv. cbn. split; [reflexivity|reflexivity].
Qed.
