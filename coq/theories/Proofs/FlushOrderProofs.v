(* FlushOrderProofs.v — the flush order of Storage.Close keeps every symbol name; the swapped order can lose names. *)
From Coq Require Import List NArith Arith Lia.
From Pyro Require Import Model.FlushOrder.
Import ListNotations.

Lemma d_index_nth : forall n d i, d_index n d = Some i -> nth_error d i = Some n.
Proof.
  induction d as [|x d IH]; cbn; intros i H; [discriminate|].
  destruct (N.eqb x n) eqn:E.
  - inversion H; subst. apply N.eqb_eq in E. subst. reflexivity.
  - destruct (d_index n d) as [j|]; [|discriminate]. inversion H; subst. cbn. apply IH. reflexivity.
Qed.

Lemma d_put_spec : forall n d d' i, d_put n d = (d', i) -> (exists ext, d' = d ++ ext) /\ nth_error d' i = Some n.
Proof.
  intros n d d' i H. unfold d_put in H. destruct (d_index n d) as [j|] eqn:E; inversion H; subst.
  - split; [exists []; rewrite app_nil_r; reflexivity | apply d_index_nth; exact E].
  - split; [exists [n]; reflexivity|]. rewrite nth_error_app2 by lia. rewrite Nat.sub_diag. reflexivity.
Qed.

Lemma nth_ext : forall (d ext : dict) i n, nth_error d i = Some n -> nth_error (d ++ ext) i = Some n.
Proof.
  intros d ext i n H. rewrite nth_error_app1; [exact H|]. apply nth_error_Some. congruence.
Qed.

Lemma t_deser_ext : forall ks d ext t, t_deser ks d = Some t -> t_deser ks (d ++ ext) = Some t.
Proof.
  induction ks as [|i ks IH]; cbn; intros d ext t H; [exact H|].
  destruct (nth_error d i) as [n|] eqn:E; [|discriminate].
  destruct (t_deser ks d) as [t'|] eqn:E2; [|discriminate].
  rewrite (nth_ext _ ext _ _ E), (IH _ ext _ E2). exact H.
Qed.

Lemma t_ser_spec : forall t d d' ks, t_ser t d = (d', ks) -> (exists ext, d' = d ++ ext) /\ t_deser ks d' = Some t.
Proof.
  induction t as [|n t IH]; cbn; intros d d' ks H.
  - inversion H; subst. split; [exists []; rewrite app_nil_r; reflexivity | reflexivity].
  - destruct (d_put n d) as [d1 i] eqn:E1. destruct (t_ser t d1) as [d2 ks'] eqn:E2. inversion H; subst.
    destruct (d_put_spec _ _ _ _ E1) as [[e1 ->] N1]. destruct (IH _ _ _ E2) as [[e2 ->] D2].
    split; [exists (e1 ++ e2); rewrite app_assoc; reflexivity|].
    cbn. rewrite (nth_ext _ e2 _ _ N1), D2. reflexivity.
Qed.

Lemma deser_all_ext : forall kss d ext ts, deser_all kss d = Some ts -> deser_all kss (d ++ ext) = Some ts.
Proof.
  induction kss as [|ks kss IH]; cbn; intros d ext ts H; [exact H|].
  destruct (t_deser ks d) as [t|] eqn:E; [|discriminate].
  destruct (deser_all kss d) as [ts'|] eqn:E2; [|discriminate].
  rewrite (t_deser_ext _ _ ext _ E), (IH _ ext _ E2). exact H.
Qed.

Lemma ser_all_spec : forall ts d d' kss, ser_all ts d = (d', kss) ->
  (exists ext, d' = d ++ ext) /\ deser_all kss d' = Some ts.
Proof.
  induction ts as [|t ts IH]; cbn; intros d d' kss H.
  - inversion H; subst. split; [exists []; rewrite app_nil_r; reflexivity | reflexivity].
  - destruct (t_ser t d) as [d1 ks] eqn:E1. destruct (ser_all ts d1) as [d2 kss'] eqn:E2. inversion H; subst.
    destruct (t_ser_spec _ _ _ _ E1) as [[e1 ->] D1]. destruct (IH _ _ _ E2) as [[e2 ->] D2].
    split; [exists (e1 ++ e2); rewrite app_assoc; reflexivity|].
    cbn. rewrite (t_deser_ext _ _ e2 _ D1), D2. reflexivity.
Qed.

(* trees, then dictionaries: after Close + New every tree decodes to exactly its names, whatever the trees and
   whatever the dictionary contained before *)
Theorem close_real_keeps_names : forall m, reopen (close_real m) = Some (m_trees m).
Proof.
  intros [ts d]. unfold reopen, close_real. cbn [m_trees m_dict].
  destruct (ser_all ts d) as [d' kss] eqn:E. cbn. exact (proj2 (ser_all_spec _ _ _ _ E)).
Qed.

(* dictionaries, then trees: a name that first appears at flush time is lost *)
Theorem close_swapped_loses_names :
  exists m, reopen (close_swapped m) <> Some (m_trees m).
Proof. exists {| m_trees := [[1; 2]%N]; m_dict := [1%N] |}. vm_compute. discriminate. Qed.
