(* SegRead.v — what get returns, evaluated in the exact store, against what was written:
   no_more, total, split, and exactness for histories of short writes. *)
From Pyro Require Import Model.Base Model.Float53 Model.Segment
  Proofs.SegmentProofs Proofs.SegStruct Proofs.SegGet Proofs.SegStore Proofs.SegInv.
From Coq Require Import ZifyBool ZifyNat.
Local Open Scope Z_scope.

(* ---------- read_sum of get as a recursive sum ---------- *)
Fixpoint gsum (E : store) (lvl : nat) (qa qb : Z) (n : snode) {struct lvl} : Z :=
  match n with
  | SNode t p _ _ ch =>
      let r := relationship t (t + pow10 lvl) qa qb in
      if p && covers r then E (lvl, t)
      else if is_outside r then 0
      else match lvl with
           | O => 0
           | S l => sumZ (map (fun o => match o with Some c => gsum E l qa qb c | None => 0 end) ch)
           end
  end.
Definition ogsum (E : store) (l : nat) (qa qb : Z) (o : option snode) : Z :=
  match o with Some c => gsum E l qa qb c | None => 0 end.

Lemma read_sum_app E g1 g2 : read_sum E (g1 ++ g2) = read_sum E g1 + read_sum E g2.
Proof. unfold read_sum. rewrite map_app, sumZ_app. reflexivity. Qed.

Lemma read_sum_gsum E : forall lvl qa qb n, qa < qb -> wf lvl n ->
  read_sum E (s_get_node lvl qa qb n) = gsum E lvl qa qb n.
Proof.
  induction lvl as [|l IH]; intros qa qb [t p s w ch] Hq Hwf; rewrite get_node_unfold; cbv zeta; cbn [gsum].
  - change (pow10 0) with 1. pose proof (rel_unit t qa qb Hq) as Hu.
    destruct Hwf as [_ Hch]. subst ch. cbn [length Nat.eqb].
    destruct (p && covers _) eqn:E1.
    + unfold read_sum. cbn. rewrite Z.mul_1_r, Z.div_1_r. lia.
    + destruct (is_outside _) eqn:E2; [reflexivity|].
      destruct p; cbn [andb] in *; [|reflexivity].
      destruct (relationship t (t + 1) qa qb); cbn in *; try discriminate; contradiction.
  - destruct Hwf as [Hm [Hlen Hs]].
    assert (Hlen0 : (length ch =? 0)%nat = false) by (rewrite Hlen; reflexivity).
    rewrite Hlen0, andb_false_r.
    destruct (p && covers _).
    + unfold read_sum. cbn. rewrite Z.mul_1_r, Z.div_1_r. lia.
    + destruct (is_outside _); [reflexivity|].
      clear Hlen Hlen0 Hm. revert t Hs. induction ch as [|o ch IHc]; intros t0 Hs; [reflexivity|].
      cbn [flat_map map]. rewrite read_sum_app, sumZ_cons. cbn [slots] in Hs. destruct Hs as [Ho Hr].
      rewrite (IHc _ Hr). f_equal. destruct o as [c|]; cbn [get_child]; [|reflexivity].
      apply IH; [exact Hq|apply Ho].
Qed.

(* ---------- what was written into an interval ---------- *)
Definition WR (H : list write) (lo hi : Z) : Z :=
  sumZ (map (fun w => ov lo hi (w_a w) (w_b w) * w_beta w) H).

Lemma W_WR H lvl t : W H lvl t = WR H t (t + pow10 lvl).
Proof. reflexivity. Qed.

Lemma WR_nonneg H lo hi : Forall good_write H -> 0 <= WR H lo hi.
Proof.
  induction 1 as [|w H [Hw1 Hw2] _ IH]; [cbn; lia|]. unfold WR in *. cbn [map]. rewrite sumZ_cons.
  pose proof (ov_nonneg lo hi (w_a w) (w_b w)). nia.
Qed.

Lemma WR_mono H lo hi lo' hi' : Forall good_write H -> lo' <= lo -> hi <= hi' -> WR H lo hi <= WR H lo' hi'.
Proof.
  intros HH H1 H2. induction HH as [|w H [Hw1 Hw2] _ IH]; [cbn; lia|]. unfold WR in *. cbn [map]. rewrite !sumZ_cons.
  assert (ov lo hi (w_a w) (w_b w) <= ov lo' hi' (w_a w) (w_b w)) by (unfold ov; lia). nia.
Qed.

(* two adjacent pieces of a bucket, both cut by the range [qa,qb) *)
Lemma WR_split H t0 w x qa qb : 0 <= w -> 0 <= x ->
  WR H (Z.max t0 qa) (Z.min (t0 + w) qb) + WR H (Z.max (t0 + w) qa) (Z.min (t0 + w + x) qb) =
  WR H (Z.max t0 qa) (Z.min (t0 + w + x) qb).
Proof.
  intros Hw Hx. induction H as [|w0 H IH]; [reflexivity|]. unfold WR in *. cbn [map]. rewrite !sumZ_cons.
  assert (ov (Z.max t0 qa) (Z.min (t0 + w) qb) (w_a w0) (w_b w0) +
          ov (Z.max (t0 + w) qa) (Z.min (t0 + w + x) qb) (w_a w0) (w_b w0) =
          ov (Z.max t0 qa) (Z.min (t0 + w + x) qb) (w_a w0) (w_b w0)) by (unfold ov; lia).
  nia.
Qed.

Lemma WR_empty H lo hi : hi <= lo -> WR H lo hi = 0.
Proof.
  intros Hl. induction H as [|w H IH]; [reflexivity|]. unfold WR in *. cbn [map]. rewrite sumZ_cons, IH.
  assert (ov lo hi (w_a w) (w_b w) = 0) by (unfold ov; lia). nia.
Qed.

(* what was written into (sub-bucket slots that hold a child) /\ range, summed over the slots *)
Fixpoint swr (H : list write) (w qa qb t0 : Z) (ch : list (option snode)) : Z :=
  match ch with
  | [] => 0
  | o :: ch' => (match o with Some _ => WR H (Z.max t0 qa) (Z.min (t0 + w) qb) | None => 0 end) + swr H w qa qb (t0 + w) ch'
  end.

Lemma swr_le H w qa qb : 0 < w -> Forall good_write H -> forall ch t0,
  swr H w qa qb t0 ch <= WR H (Z.max t0 qa) (Z.min (t0 + Z.of_nat (length ch) * w) qb).
Proof.
  intros Hw HH. induction ch as [|o ch IH]; intros t0; cbn [swr length].
  - apply WR_nonneg. exact HH.
  - specialize (IH (t0 + w)).
    pose proof (WR_split H t0 w (Z.of_nat (length ch) * w) qa qb ltac:(lia) ltac:(nia)) as Hsp.
    replace (t0 + Z.of_nat (S (length ch)) * w) with (t0 + w + Z.of_nat (length ch) * w) by lia.
    pose proof (WR_nonneg H (Z.max t0 qa) (Z.min (t0 + w) qb) HH). destruct o; lia.
Qed.

(* ---------- C03_no_more at a node ---------- *)
Lemma gsum_le : forall lvl n E H qa qb, qa < qb -> Forall good_write H -> wf lvl n -> ninv E H lvl n ->
  gsum E lvl qa qb n <= WR H (Z.max (sn_time n) qa) (Z.min (sn_time n + pow10 lvl) qb).
Proof.
  induction lvl as [|l IH]; intros [t p s w ch] E H qa qb Hq HH Hwf Hn; cbn [gsum sn_time].
  - change (pow10 0) with 1. pose proof (rel_spec t (t + 1) qa qb ltac:(lia) Hq) as Hr.
    destruct Hn as (N1 & _).
    destruct (p && covers _) eqn:E1.
    + apply andb_prop in E1. destruct E1 as [Ep Ec]. subst p. cbn [content] in N1. rewrite W_WR in N1.
      change (pow10 0) with 1 in N1.
      destruct (relationship t (t + 1) qa qb); cbn in Ec; try discriminate;
        (replace (Z.max t qa) with t by lia; replace (Z.min (t + 1) qb) with (t + 1) by lia; lia).
    + destruct (is_outside _); apply WR_nonneg; exact HH.
  - pose proof (pow10_pos (S l)) as HpS. pose proof (pow10_pos l) as Hp.
    pose proof (rel_spec t (t + pow10 (S l)) qa qb ltac:(lia) Hq) as Hr.
    destruct Hn as (N1 & _ & _ & N4). destruct Hwf as [Hm [Hlen Hs]].
    destruct (p && covers _) eqn:E1.
    + apply andb_prop in E1. destruct E1 as [Ep Ec]. subst p. cbn [content] in N1. rewrite W_WR in N1.
      destruct (relationship t (t + pow10 (S l)) qa qb); cbn in Ec; try discriminate;
        (replace (Z.max t qa) with t by lia; replace (Z.min (t + pow10 (S l)) qb) with (t + pow10 (S l)) by lia; lia).
    + destruct (is_outside _); [apply WR_nonneg; exact HH|].
      fold (ogsum E l qa qb).
      assert (G : forall ch0 t0, slots (wf l) (pow10 l) t0 ch0 -> oall (ninv E H l) ch0 ->
                   sumZ (map (ogsum E l qa qb) ch0) <= swr H (pow10 l) qa qb t0 ch0).
      { induction ch0 as [|o ch0 IHc]; intros t0 Hs0 Hn0; [cbn; lia|].
        cbn [map swr slots] in *. rewrite sumZ_cons. destruct Hs0 as [Ho Hr0]. inversion Hn0; subst.
        specialize (IHc _ Hr0 H3). destruct o as [c|]; cbn [ogsum]; [|lia].
        destruct Ho as [Ht Hw]. pose proof (IH c E H qa qb Hq HH Hw H2) as Hc. rewrite Ht in Hc. lia. }
      specialize (G ch t Hs N4). pose proof (swr_le H (pow10 l) qa qb Hp HH ch t) as Hle.
      rewrite Hlen in Hle. replace (t + Z.of_nat 10 * pow10 l) with (t + pow10 (S l)) in Hle by (rewrite pow10_S; lia).
      lia.
Qed.

(* ---------- generic: termwise <= and equal sums force termwise equality ---------- *)
Lemma sum_le_map {X} (f g : X -> Z) l : (forall x, In x l -> f x <= g x) -> sumZ (map f l) <= sumZ (map g l).
Proof.
  induction l as [|x l IH]; intros Hl; [cbn; lia|]. cbn [map]. rewrite !sumZ_cons.
  pose proof (Hl x (or_introl eq_refl)). assert (forall y, In y l -> f y <= g y) by (intros; apply Hl; right; auto).
  specialize (IH H0). lia.
Qed.

Lemma sum_squeeze {X} (f g : X -> Z) l : (forall x, In x l -> f x <= g x) ->
  sumZ (map g l) <= sumZ (map f l) -> forall x, In x l -> f x = g x.
Proof.
  induction l as [|y l IH]; intros Hl Hs x Hx; [destruct Hx|].
  cbn [map] in Hs. rewrite !sumZ_cons in Hs.
  pose proof (Hl y (or_introl eq_refl)) as Hy.
  assert (Hl' : forall z, In z l -> f z <= g z) by (intros; apply Hl; right; auto).
  pose proof (sum_le_map f g l Hl') as Hle.
  destruct Hx as [Hx|Hx]; [subst; lia|]. apply IH; auto. lia.
Qed.

(* what was written into the slots that hold a child (no range) *)
Definition oW (H : list write) (l : nat) (o : option snode) : Z :=
  match o with Some c => W H l (sn_time c) | None => 0 end.

Lemma oW_sum_le H l : Forall good_write H -> forall ch t0, slots (wf l) (pow10 l) t0 ch ->
  sumZ (map (oW H l) ch) <= WR H t0 (t0 + Z.of_nat (length ch) * pow10 l).
Proof.
  intros HH. pose proof (pow10_pos l) as Hp. induction ch as [|o ch IH]; intros t0 Hs.
  - cbn. apply WR_nonneg. exact HH.
  - cbn [slots map length] in *. rewrite sumZ_cons. destruct Hs as [Ho Hr]. specialize (IH _ Hr).
    pose proof (WR_split H t0 (pow10 l) (Z.of_nat (length ch) * pow10 l) t0 (t0 + Z.of_nat (S (length ch)) * pow10 l)
                  ltac:(lia) ltac:(nia)) as Hsp.
    replace (Z.max t0 t0) with t0 in Hsp by lia.
    replace (Z.min (t0 + pow10 l) (t0 + Z.of_nat (S (length ch)) * pow10 l)) with (t0 + pow10 l) in Hsp by nia.
    replace (Z.max (t0 + pow10 l) t0) with (t0 + pow10 l) in Hsp by lia.
    replace (Z.min (t0 + pow10 l + Z.of_nat (length ch) * pow10 l) (t0 + Z.of_nat (S (length ch)) * pow10 l))
      with (t0 + pow10 l + Z.of_nat (length ch) * pow10 l) in Hsp by nia.
    replace (t0 + Z.of_nat (S (length ch)) * pow10 l) with (t0 + pow10 l + Z.of_nat (length ch) * pow10 l) by lia.
    pose proof (WR_nonneg H t0 (t0 + pow10 l) HH).
    destruct o as [c|]; cbn [oW]; [|lia]. destruct Ho as [Ht _]. rewrite W_WR, Ht. lia.
Qed.

(* children of an exact node whose content is the sum of its children's are exact (squeeze) *)
Lemma children_exact E H l t ch : Forall good_write H ->
  slots (wf l) (pow10 l) t ch -> length ch = 10%nat -> oall (ninv E H l) ch ->
  osum E l ch = W H (S l) t ->
  (forall c, In (Some c) ch -> content E l c = W H l (sn_time c)) /\
  sumZ (map (oW H l) ch) = W H (S l) t.
Proof.
  intros HH Hs Hlen Hn Hsum.
  pose proof (oW_sum_le H l HH ch t Hs) as Hle. rewrite Hlen in Hle.
  replace (t + Z.of_nat 10 * pow10 l) with (t + pow10 (S l)) in Hle by (rewrite pow10_S; lia).
  rewrite <- W_WR in Hle.
  assert (Hterm : forall o, In o ch -> ocontent E l o <= oW H l o).
  { intros o Ho. destruct o as [c|]; cbn; [|lia]. pose proof (oall_In _ _ _ Hn Ho) as Hc.
    destruct c as [tc pc sc wc chc]. cbn [sn_time]. destruct l; cbn [ninv] in Hc; apply Hc. }
  unfold osum in Hsum.
  pose proof (sum_le_map _ _ ch Hterm) as Hle2.
  assert (Hsq : sumZ (map (oW H l) ch) <= sumZ (map (ocontent E l) ch)) by lia.
  split; [|lia].
  intros c Hc. exact (sum_squeeze _ _ ch Hterm Hsq (Some c) Hc).
Qed.

(* ---------- C03_total at a node ---------- *)
Definition all_inside (H : list write) (qa qb : Z) : Prop := Forall (fun w => qa <= w_a w /\ w_b w <= qb) H.

Lemma W_outside_range H lvl t qa qb : all_inside H qa qb -> Forall good_write H ->
  (t + pow10 lvl <= qa \/ qb <= t) -> W H lvl t = 0.
Proof.
  intros Ha HH Hout. unfold W. induction Ha as [|w H [Hw1 Hw2] _ IH]; [reflexivity|].
  inversion HH as [|w0 H0 [G1 G2] HH']; subst. cbn [map]. rewrite sumZ_cons, (IH HH'). unfold wov.
  assert (ov t (t + pow10 lvl) (w_a w) (w_b w) = 0) by (unfold ov; lia). nia.
Qed.

Lemma gsum_total : forall lvl n E H qa qb, qa < qb -> Forall good_write H -> all_inside H qa qb ->
  wf lvl n -> ninv E H lvl n -> content E lvl n = W H lvl (sn_time n) ->
  gsum E lvl qa qb n = W H lvl (sn_time n).
Proof.
  induction lvl as [|l IH]; intros [t p s w ch] E H qa qb Hq HH Hin Hwf Hn Hex; cbn [gsum sn_time] in *.
  - change (pow10 0) with 1 in *. pose proof (rel_spec t (t + 1) qa qb ltac:(lia) Hq) as Hr.
    pose proof (rel_unit t qa qb Hq) as Hu. cbn [content] in Hex.
    destruct p; cbn [andb].
    + destruct (relationship t (t + 1) qa qb); cbn [covers is_outside]; try contradiction; try exact Hex.
      symmetry. apply (W_outside_range H 0 t qa qb Hin HH). change (pow10 0) with 1. lia.
    + destruct (is_outside _); lia.
  - pose proof (pow10_pos (S l)) as HpS. pose proof (pow10_pos l) as Hp.
    pose proof (rel_spec t (t + pow10 (S l)) qa qb ltac:(lia) Hq) as Hr.
    destruct Hwf as [Hm [Hlen Hs]]. pose proof Hn as (N1 & N2 & N3 & N4).
    destruct (p && covers _) eqn:E1.
    { apply andb_prop in E1. destruct E1 as [Ep _]. subst p. exact Hex. }
    destruct (is_outside _) eqn:E2.
    { symmetry. apply (W_outside_range H (S l) t qa qb Hin HH).
      destruct (relationship t (t + pow10 (S l)) qa qb); cbn in E2; try discriminate. lia. }
    (* the node is cut by the range, or not present: its children carry everything *)
    assert (Hsub : osum E l ch = W H (S l) t).
    { rewrite content_unfold in Hex. destruct p; [|exact Hex].
      cbn [andb] in E1. rewrite <- Hex. apply N3; [reflexivity|].
      intros [w0 [Hw0 Hc]]. unfold all_inside in Hin. rewrite Forall_forall in Hin. specialize (Hin w0 Hw0).
      destruct (relationship t (t + pow10 (S l)) qa qb); cbn in E1, E2; try discriminate; lia. }
    destruct (children_exact E H l t ch HH Hs Hlen N4 Hsub) as [Hce HsumW].
    fold (ogsum E l qa qb). rewrite <- HsumW. f_equal. apply map_ext_in. intros o Ho.
    destruct o as [c|]; cbn [ogsum oW]; [|reflexivity].
    apply IH; auto.
    + exact (slots_In _ _ _ _ _ Hs Ho).
    + exact (oall_In _ _ _ N4 Ho).
Qed.

(* ---------- C03_split at a node ---------- *)
Lemma ninv_content_nonneg E H lvl n : ninv E H lvl n -> 0 <= content E lvl n.
Proof. destruct n, lvl; cbn [ninv]; intros (N1 & _); lia. Qed.

Lemma gsum_nonneg : forall lvl n E H qa qb, wf lvl n -> ninv E H lvl n -> 0 <= gsum E lvl qa qb n.
Proof.
  induction lvl as [|l IH]; intros [t p s w ch] E H qa qb Hwf Hn; cbn [gsum].
  - pose proof (ninv_content_nonneg _ _ _ _ Hn) as Hc. cbn [content] in Hc.
    destruct p; cbn [andb]; [destruct (covers _); [exact Hc|]|]; destruct (is_outside _); lia.
  - pose proof (ninv_content_nonneg _ _ _ _ Hn) as Hc. cbn [content] in Hc.
    destruct Hn as (_ & _ & _ & N4). destruct Hwf as [_ [_ Hs]].
    assert (0 <= sumZ (map (fun o => match o with Some c => gsum E l qa qb c | None => 0 end) ch)).
    { clear Hc. revert t Hs. induction ch as [|o ch IHc]; intros t0 Hs; [cbn; lia|].
      cbn [map slots] in *. rewrite sumZ_cons. destruct Hs as [Ho Hr]. inversion N4; subst.
      specialize (IHc H3 _ Hr). destruct o as [c|]; [|lia].
      pose proof (IH c E H qa qb (proj2 Ho) H2). lia. }
    destruct p; cbn [andb]; [destruct (covers _); [exact Hc|]|]; destruct (is_outside _); lia.
Qed.

Lemma subsum_le_content E H lvl n : ninv E H lvl n -> subsum E lvl n <= content E lvl n.
Proof.
  destruct n as [t p s w ch]. intros Hn. rewrite content_unfold.
  destruct p; [|lia]. destruct lvl; cbn [ninv] in Hn; apply Hn; reflexivity.
Qed.

(* two adjacent ranges never take more out of a node than it holds *)
Lemma gsum_two_le_content : forall lvl n E H s m e, s < m -> m < e -> wf lvl n -> ninv E H lvl n ->
  gsum E lvl s m n + gsum E lvl m e n <= content E lvl n.
Proof.
  induction lvl as [|l IH]; intros [t p s0 w ch] E H s m e Hsm Hme Hwf Hn.
  - pose proof (ninv_content_nonneg _ _ _ _ Hn) as Hc. cbn [gsum content] in *. change (pow10 0) with 1.
    pose proof (rel_spec t (t + 1) s m ltac:(lia) Hsm) as R1. pose proof (rel_spec t (t + 1) m e ltac:(lia) Hme) as R2.
    destruct p; cbn [andb];
      destruct (relationship t (t + 1) s m), (relationship t (t + 1) m e); cbn [covers is_outside]; lia.
  - pose proof (pow10_pos (S l)) as HpS.
    pose proof (ninv_content_nonneg _ _ _ _ Hn) as Hc. pose proof (subsum_le_content _ _ _ _ Hn) as Hsc.
    pose proof (rel_spec t (t + pow10 (S l)) s m ltac:(lia) Hsm) as R1.
    pose proof (rel_spec t (t + pow10 (S l)) m e ltac:(lia) Hme) as R2.
    destruct Hn as (_ & _ & _ & N4). pose proof Hwf as [_ [_ Hs]].
    assert (Hkids : sumZ (map (ogsum E l s m) ch) + sumZ (map (ogsum E l m e) ch) <= subsum E (S l) (SNode t p s0 w ch)
                    /\ 0 <= sumZ (map (ogsum E l s m) ch) /\ 0 <= sumZ (map (ogsum E l m e) ch)).
    { cbn [subsum sn_ch]. unfold osum. clear Hc Hsc R1 R2 Hwf. revert t Hs.
      induction ch as [|o ch IHc]; intros t0 Hs; [cbn; lia|].
      cbn [map slots] in *. rewrite !sumZ_cons. destruct Hs as [Ho Hr]. inversion N4; subst.
      specialize (IHc H3 _ Hr). destruct o as [c|]; cbn [ogsum ocontent]; [|lia].
      pose proof (IH c E H s m e Hsm Hme (proj2 Ho) H2).
      pose proof (gsum_nonneg l c E H s m (proj2 Ho) H2). pose proof (gsum_nonneg l c E H m e (proj2 Ho) H2). lia. }
    destruct Hkids as (K1 & K2 & K3).
    cbn [gsum]. fold (ogsum E l s m). fold (ogsum E l m e).
    rewrite content_unfold in Hc, Hsc |- *.
    destruct p; cbn [andb].
    + destruct (relationship t (t + pow10 (S l)) s m), (relationship t (t + pow10 (S l)) m e);
        cbn [covers is_outside]; lia.
    + destruct (is_outside (relationship t (t + pow10 (S l)) s m)), (is_outside (relationship t (t + pow10 (S l)) m e)); lia.
Qed.

Lemma gsum_split : forall lvl n E H s m e, s < m -> m < e -> wf lvl n -> ninv E H lvl n ->
  gsum E lvl s m n + gsum E lvl m e n <= gsum E lvl s e n.
Proof.
  induction lvl as [|l IH]; intros [t p s0 w ch] E H s m e Hsm Hme Hwf Hn.
  - pose proof (ninv_content_nonneg _ _ _ _ Hn) as Hc. cbn [gsum content] in *. change (pow10 0) with 1.
    pose proof (rel_spec t (t + 1) s m ltac:(lia) Hsm) as R1. pose proof (rel_spec t (t + 1) m e ltac:(lia) Hme) as R2.
    pose proof (rel_spec t (t + 1) s e ltac:(lia) ltac:(lia)) as R.
    destruct p; cbn [andb];
      destruct (relationship t (t + 1) s m), (relationship t (t + 1) m e), (relationship t (t + 1) s e);
      cbn [covers is_outside]; lia.
  - pose proof (pow10_pos (S l)) as HpS.
    pose proof (gsum_two_le_content (S l) _ E H s m e Hsm Hme Hwf Hn) as L1.
    pose proof (ninv_content_nonneg _ _ _ _ Hn) as Hc.
    pose proof (rel_spec t (t + pow10 (S l)) s m ltac:(lia) Hsm) as R1.
    pose proof (rel_spec t (t + pow10 (S l)) m e ltac:(lia) Hme) as R2.
    pose proof (rel_spec t (t + pow10 (S l)) s e ltac:(lia) ltac:(lia)) as R.
    destruct Hn as (_ & _ & _ & N4). pose proof Hwf as [_ [_ Hs]].
    assert (Hkids : sumZ (map (ogsum E l s m) ch) + sumZ (map (ogsum E l m e) ch) <= sumZ (map (ogsum E l s e) ch)
                    /\ 0 <= sumZ (map (ogsum E l s m) ch) /\ 0 <= sumZ (map (ogsum E l m e) ch)).
    { clear L1 Hc R1 R2 R Hwf. revert t Hs.
      induction ch as [|o ch IHc]; intros t0 Hs; [cbn; lia|].
      cbn [map slots] in *. rewrite !sumZ_cons. destruct Hs as [Ho Hr]. inversion N4; subst.
      specialize (IHc H3 _ Hr). destruct o as [c|]; cbn [ogsum]; [|lia].
      pose proof (IH c E H s m e Hsm Hme (proj2 Ho) H2).
      pose proof (gsum_nonneg l c E H s m (proj2 Ho) H2). pose proof (gsum_nonneg l c E H m e (proj2 Ho) H2). lia. }
    destruct Hkids as (K1 & K2 & K3).
    cbn [gsum] in *. fold (ogsum E l s m) in *. fold (ogsum E l m e) in *. fold (ogsum E l s e).
    rewrite content_unfold in Hc, L1.
    destruct p; cbn [andb] in *.
    + destruct (relationship t (t + pow10 (S l)) s m), (relationship t (t + pow10 (S l)) m e),
               (relationship t (t + pow10 (S l)) s e); cbn [covers is_outside] in *; lia.
    + destruct (relationship t (t + pow10 (S l)) s m), (relationship t (t + pow10 (S l)) m e),
               (relationship t (t + pow10 (S l)) s e); cbn [covers is_outside] in *; lia.
Qed.

(* ---------- histories ---------- *)
Lemma sumZ_rev l : sumZ (rev l) = sumZ l.
Proof. induction l as [|x l IH]; [reflexivity|]. cbn [rev]. rewrite sumZ_app, IH. unfold sumZ. cbn [fold_right]. lia. Qed.

Lemma WR_rev ws lo hi : WR (rev ws) lo hi = WR ws lo hi.
Proof. unfold WR. rewrite map_rev. apply sumZ_rev. Qed.

Lemma valid_good K ws : Forall (valid_write K) ws -> Forall good_write ws.
Proof. intros H. eapply Forall_impl; [|exact H]. intros w [[H1 _] H2]. split; assumption. Qed.

(* the facts about the reached root that the read-side lemmas need *)
Lemma run_root K ws : Forall (valid_write K) ws ->
  match s_root (fst (run_writes ws)) with
  | None => ws = []
  | Some (lvl, n) =>
      wf lvl n /\ ninv (snd (run_writes ws)) (rev ws) lvl n /\
      content (snd (run_writes ws)) lvl n = W (rev ws) lvl (sn_time n) /\
      hist_in lvl (sn_time n) (rev ws)
  end.
Proof.
  intros Hv. pose proof (run_writes_sinv K ws Hv) as G. unfold sinv in G.
  destruct (s_root (fst (run_writes ws))) as [[lvl n]|].
  - destruct G as ((_ & Hwf & _) & (_ & Hn & _ & Hroot & Hh)). auto.
  - destruct G as [G _]. destruct ws as [|w ws]; [reflexivity|].
    cbn [rev] in G. destruct (rev ws); discriminate.
Qed.

Theorem no_more K ws qa qb : Forall (valid_write K) ws -> qa < qb ->
  read_sum (snd (run_writes ws)) (s_get qa qb (fst (run_writes ws))) <= WR ws qa qb.
Proof.
  intros Hv Hq. pose proof (run_root K ws Hv) as G. pose proof (valid_good K ws Hv) as HG.
  unfold s_get. destruct (s_root (fst (run_writes ws))) as [[lvl n]|].
  - destruct G as (Hwf & Hn & _ & _). rewrite read_sum_gsum by assumption.
    assert (HGr : Forall good_write (rev ws)) by (apply Forall_rev; exact HG).
    pose proof (gsum_le lvl n _ _ qa qb Hq HGr Hwf Hn) as Hle.
    pose proof (WR_mono (rev ws) (Z.max (sn_time n) qa) (Z.min (sn_time n + pow10 lvl) qb) qa qb HGr ltac:(lia) ltac:(lia)).
    rewrite !WR_rev in *. lia.
  - cbn. apply WR_nonneg. exact HG.
Qed.

Theorem total K ws qa qb : Forall (valid_write K) ws -> qa < qb ->
  Forall (fun w => qa <= w_a w /\ w_b w <= qb) ws ->
  read_sum (snd (run_writes ws)) (s_get qa qb (fst (run_writes ws))) =
  sumZ (map (fun w => (w_b w - w_a w) * w_beta w) ws).
Proof.
  intros Hv Hq Hin. pose proof (run_root K ws Hv) as G. pose proof (valid_good K ws Hv) as HG.
  unfold s_get. destruct (s_root (fst (run_writes ws))) as [[lvl n]|].
  - destruct G as (Hwf & Hn & Hroot & Hh). rewrite read_sum_gsum by assumption.
    assert (HGr : Forall good_write (rev ws)) by (apply Forall_rev; exact HG).
    assert (Hinr : all_inside (rev ws) qa qb) by (apply Forall_rev; exact Hin).
    rewrite (gsum_total lvl n _ _ qa qb Hq HGr Hinr Hwf Hn Hroot).
    rewrite <- sumZ_rev, <- map_rev. unfold W. f_equal. apply map_ext_Forall.
    eapply Forall_impl; [|exact Hh]. intros w ((G1 & G2) & G3 & G4). unfold wov, ov. f_equal. lia.
  - subst ws. reflexivity.
Qed.

Theorem split K ws s m e : Forall (valid_write K) ws -> s < m -> m < e ->
  read_sum (snd (run_writes ws)) (s_get s m (fst (run_writes ws))) +
  read_sum (snd (run_writes ws)) (s_get m e (fst (run_writes ws))) <=
  read_sum (snd (run_writes ws)) (s_get s e (fst (run_writes ws))).
Proof.
  intros Hv Hsm Hme. pose proof (run_root K ws Hv) as G.
  unfold s_get. destruct (s_root (fst (run_writes ws))) as [[lvl n]|]; [|cbn; lia].
  destruct G as (Hwf & Hn & _ & _). rewrite !read_sum_gsum by (assumption || lia).
  eapply gsum_split; eauto.
Qed.

(* ---------- exactness on sub-ranges for histories of short writes (for C01) ---------- *)
Lemma swr_eq H l qa qb : Forall good_write H -> forall ch t0, slots (wf l) (pow10 l) t0 ch ->
  sumZ (map (oW H l) ch) = WR H t0 (t0 + Z.of_nat (length ch) * pow10 l) ->
  swr H (pow10 l) qa qb t0 ch = WR H (Z.max t0 qa) (Z.min (t0 + Z.of_nat (length ch) * pow10 l) qb).
Proof.
  intros HH. pose proof (pow10_pos l) as Hp. induction ch as [|o ch IH]; intros t0 Hs Hsum.
  - cbn [swr length]. symmetry. apply WR_empty. lia.
  - cbn [slots map length swr] in *. rewrite sumZ_cons in Hsum. destruct Hs as [Ho Hr].
    set (L := Z.of_nat (length ch) * pow10 l) in *. assert (HL : 0 <= L) by (unfold L; nia).
    replace (t0 + Z.of_nat (S (length ch)) * pow10 l) with (t0 + pow10 l + L) in * by (unfold L; lia).
    pose proof (WR_split H t0 (pow10 l) L t0 (t0 + pow10 l + L) ltac:(lia) HL) as Hsp.
    replace (Z.max t0 t0) with t0 in Hsp by lia.
    replace (Z.min (t0 + pow10 l) (t0 + pow10 l + L)) with (t0 + pow10 l) in Hsp by lia.
    replace (Z.max (t0 + pow10 l) t0) with (t0 + pow10 l) in Hsp by lia.
    replace (Z.min (t0 + pow10 l + L) (t0 + pow10 l + L)) with (t0 + pow10 l + L) in Hsp by lia.
    pose proof (oW_sum_le H l HH ch (t0 + pow10 l) Hr) as Htail. fold L in Htail.
    pose proof (WR_nonneg H t0 (t0 + pow10 l) HH) as Hn0.
    assert (Hhead : oW H l o <= WR H t0 (t0 + pow10 l)).
    { destruct o as [c|]; cbn [oW]; [|exact Hn0]. destruct Ho as [Ht _]. rewrite W_WR, Ht. lia. }
    assert (Heq1 : oW H l o = WR H t0 (t0 + pow10 l)) by lia.
    assert (Heq2 : sumZ (map (oW H l) ch) = WR H (t0 + pow10 l) (t0 + pow10 l + L)) by lia.
    rewrite (IH _ Hr Heq2). fold L.
    rewrite <- (WR_split H t0 (pow10 l) L qa qb ltac:(lia) HL). f_equal.
    destruct o as [c|]; [reflexivity|]. cbn [oW] in Heq1.
    pose proof (WR_mono H (Z.max t0 qa) (Z.min (t0 + pow10 l) qb) t0 (t0 + pow10 l) HH ltac:(lia) ltac:(lia)).
    pose proof (WR_nonneg H (Z.max t0 qa) (Z.min (t0 + pow10 l) qb) HH). lia.
Qed.

Definition short_writes (H : list write) : Prop := Forall (fun w => w_b w - w_a w < 10) H.

Lemma gsum_exact : forall lvl n E H qa qb, qa < qb -> Forall good_write H -> short_writes H ->
  wf lvl n -> ninv E H lvl n -> content E lvl n = W H lvl (sn_time n) ->
  gsum E lvl qa qb n = WR H (Z.max (sn_time n) qa) (Z.min (sn_time n + pow10 lvl) qb).
Proof.
  induction lvl as [|l IH]; intros [t p s w ch] E H qa qb Hq HH Hshort Hwf Hn Hex; cbn [gsum sn_time] in *.
  - change (pow10 0) with 1 in *. pose proof (rel_spec t (t + 1) qa qb ltac:(lia) Hq) as Hr.
    pose proof (rel_unit t qa qb Hq) as Hu. cbn [content] in Hex. rewrite W_WR in Hex. change (pow10 0) with 1 in Hex.
    destruct p; cbn [andb];
      destruct (relationship t (t + 1) qa qb); cbn [covers is_outside]; try contradiction;
      try (replace (Z.max t qa) with t by lia; replace (Z.min (t + 1) qb) with (t + 1) by lia; lia);
      try (symmetry; apply WR_empty; lia).
  - pose proof (pow10_pos (S l)) as HpS. pose proof (pow10_pos l) as Hp.
    pose proof (rel_spec t (t + pow10 (S l)) qa qb ltac:(lia) Hq) as Hr.
    destruct Hwf as [Hm [Hlen Hs]]. pose proof Hn as (N1 & N2 & N3 & N4).
    destruct (p && covers _) eqn:E1.
    { apply andb_prop in E1. destruct E1 as [Ep Ec]. subst p. cbn [content] in Hex. rewrite Hex, W_WR.
      destruct (relationship t (t + pow10 (S l)) qa qb); cbn in Ec; try discriminate;
        (replace (Z.max t qa) with t by lia; replace (Z.min (t + pow10 (S l)) qb) with (t + pow10 (S l)) by lia; reflexivity). }
    destruct (is_outside _) eqn:E2.
    { symmetry. apply WR_empty.
      destruct (relationship t (t + pow10 (S l)) qa qb); cbn in E2; try discriminate. lia. }
    assert (Hsub : osum E l ch = W H (S l) t).
    { rewrite content_unfold in Hex. destruct p; [|exact Hex].
      rewrite <- Hex. apply N3; [reflexivity|].
      intros [w0 [Hw0 Hc]]. unfold short_writes in Hshort. rewrite Forall_forall in Hshort. specialize (Hshort w0 Hw0).
      rewrite pow10_S in Hc. lia. }
    destruct (children_exact E H l t ch HH Hs Hlen N4 Hsub) as [Hce HsumW].
    fold (ogsum E l qa qb).
    assert (Hsw : sumZ (map (ogsum E l qa qb) ch) = swr H (pow10 l) qa qb t ch).
    { clear Hsub HsumW Hlen Hm E1 E2 Hr N1 N2 N3 Hex Hn. revert t Hs.
      induction ch as [|o ch IHc]; intros t0 Hs; [reflexivity|].
      cbn [map swr slots] in *. rewrite sumZ_cons. destruct Hs as [Ho Hr0]. inversion N4; subst.
      rewrite (IHc H3 (fun c Hc => Hce c (or_intror Hc)) _ Hr0). f_equal.
      destruct o as [c|]; cbn [ogsum]; [|reflexivity]. destruct Ho as [Ht Hw].
      rewrite (IH c E H qa qb Hq HH Hshort Hw H2 (Hce c (or_introl eq_refl))). rewrite Ht. reflexivity. }
    rewrite Hsw. rewrite W_WR in HsumW.
    pose proof (swr_eq H l qa qb HH ch t Hs) as Hse. rewrite Hlen in Hse.
    replace (t + Z.of_nat 10 * pow10 l) with (t + pow10 (S l)) in Hse by (rewrite pow10_S; lia).
    apply Hse. exact HsumW.
Qed.

(* the corollary C01 needs: for a history of writes of 1..9 slots inside one epoch block, every aligned
   range reads exactly what was written into it, and every get callback has ratio 1/1 *)
Theorem seg_read_exact K ws qa qb : Forall (valid_write K) ws -> qa < qb ->
  Forall (fun w => w_b w - w_a w < 10) ws ->
  read_sum (snd (run_writes ws)) (s_get qa qb (fst (run_writes ws))) =
    sumZ (map (fun w => w_beta w * ov (w_a w) (w_b w) qa qb) ws) /\
  Forall (fun c => gc_m c = 1 /\ gc_d c = 1) (s_get qa qb (fst (run_writes ws))).
Proof.
  intros Hv Hq Hshort. split.
  - pose proof (run_root K ws Hv) as G. pose proof (valid_good K ws Hv) as HG.
    assert (Hflip : WR ws qa qb = sumZ (map (fun w => w_beta w * ov (w_a w) (w_b w) qa qb) ws)).
    { unfold WR. f_equal. apply map_ext. intros w. unfold ov. rewrite Z.mul_comm. f_equal. lia. }
    unfold s_get. destruct (s_root (fst (run_writes ws))) as [[lvl n]|].
    + destruct G as (Hwf & Hn & Hroot & Hh). rewrite read_sum_gsum by assumption.
      assert (HGr : Forall good_write (rev ws)) by (apply Forall_rev; exact HG).
      assert (Hsr : short_writes (rev ws)) by (apply Forall_rev; exact Hshort).
      rewrite (gsum_exact lvl n _ _ qa qb Hq HGr Hsr Hwf Hn Hroot). rewrite <- Hflip, <- (WR_rev ws qa qb).
      (* all writes lie inside the root bucket, so cutting the range by it loses nothing *)
      unfold WR. f_equal. apply map_ext_Forall. eapply Forall_impl; [|exact Hh].
      intros w ((G1 & G2) & G3 & G4). unfold ov. f_equal. lia.
    + subst ws. reflexivity.
  - pose proof (get_sound K ws qa qb Hv Hq) as [_ G]. cbv zeta in G.
    eapply Forall_impl; [|exact G]. intros c (_ & _ & H3 & H4 & _). auto.
Qed.

(* ---------- per write: tag one write of the history with amount 1 per slot, all others with 0 ---------- *)
Definition set_beta (v : Z) (w : write) : write :=
  {| w_a := w_a w; w_b := w_b w; w_smp := w_smp w; w_beta := v |}.
Fixpoint tag (k : nat) (ws : list write) : list write :=
  match ws with
  | [] => []
  | w :: ws' => match k with
                | O => set_beta 1 w :: map (set_beta 0) ws'
                | S k' => set_beta 0 w :: tag k' ws'
                end
  end.

Lemma WR_zero ws lo hi : WR (map (set_beta 0) ws) lo hi = 0.
Proof. induction ws as [|w ws IH]; [reflexivity|]. unfold WR in *. cbn [map]. rewrite sumZ_cons, IH. cbn. lia. Qed.

Lemma WR_tag lo hi : forall ws k,
  WR (tag k ws) lo hi = match nth_error ws k with Some w => ov lo hi (w_a w) (w_b w) | None => 0 end.
Proof.
  induction ws as [|w ws IH]; intros k; [destruct k; reflexivity|].
  destruct k as [|k]; cbn [tag nth_error].
  - unfold WR. cbn [map]. rewrite sumZ_cons. fold (WR (map (set_beta 0) ws) lo hi). rewrite WR_zero. cbn. lia.
  - unfold WR. cbn [map]. rewrite sumZ_cons. fold (WR (tag k ws) lo hi). rewrite IH. cbn. lia.
Qed.

Definition in_block_w (K : Z) (w : write) : Prop := valid_range K (w_a w) (w_b w).

Lemma valid_tag K : forall ws k, Forall (in_block_w K) ws -> Forall (valid_write K) (tag k ws).
Proof.
  induction ws as [|w ws IH]; intros k Hv; [destruct k; constructor|]. inversion Hv; subst.
  destruct k; cbn [tag]; constructor.
  - split; [exact H1|cbn; lia].
  - clear -H2. induction H2; cbn; constructor; auto. split; [exact H|cbn; lia].
  - split; [exact H1|cbn; lia].
  - apply IH. exact H2.
Qed.

Lemma seg_after_ext ws ws' : Forall2 (fun w w' => w_a w = w_a w' /\ w_b w = w_b w' /\ w_smp w = w_smp w') ws ws' ->
  forall s, seg_after ws s = seg_after ws' s.
Proof.
  induction 1 as [|w w' ws ws' (H1 & H2 & H3) _ IH]; intros s; [reflexivity|].
  cbn. rewrite H1, H2, H3. apply IH.
Qed.

Lemma tag_same_shape : forall ws k,
  Forall2 (fun w w' => w_a w = w_a w' /\ w_b w = w_b w' /\ w_smp w = w_smp w') (tag k ws) ws.
Proof.
  induction ws as [|w ws IH]; intros k; [destruct k; constructor|].
  destruct k; cbn [tag]; constructor; cbn; auto.
  clear. induction ws; cbn; constructor; cbn; auto.
Qed.

Lemma seg_tag ws k : fst (run_writes (tag k ws)) = fst (run_writes ws).
Proof. unfold run_writes. rewrite !run_fst. apply seg_after_ext. apply tag_same_shape. Qed.

Lemma ov_comm t1 t2 a b : ov t1 t2 a b = ov a b t1 t2.
Proof. unfold ov. lia. Qed.

Theorem no_more_per_write K ws k w qa qb : Forall (in_block_w K) ws -> nth_error ws k = Some w -> qa < qb ->
  read_sum (snd (run_writes (tag k ws))) (s_get qa qb (fst (run_writes ws))) <= ov (w_a w) (w_b w) qa qb.
Proof.
  intros Hv Hk Hq. pose proof (no_more K (tag k ws) qa qb (valid_tag K ws k Hv) Hq) as G.
  rewrite seg_tag, WR_tag, Hk, ov_comm in G. exact G.
Qed.

Theorem total_per_write K ws k w qa qb : Forall (in_block_w K) ws -> nth_error ws k = Some w -> qa < qb ->
  Forall (fun w => qa <= w_a w /\ w_b w <= qb) ws ->
  read_sum (snd (run_writes (tag k ws))) (s_get qa qb (fst (run_writes ws))) = w_b w - w_a w.
Proof.
  intros Hv Hk Hq Hin.
  assert (Hin' : Forall (fun w => qa <= w_a w /\ w_b w <= qb) (tag k ws)).
  { pose proof (tag_same_shape ws k) as F. clear -F Hin. revert Hin. induction F as [|x y l l' (H1 & H2 & _) _ IH]; intros Hin; [constructor|].
    inversion Hin; subst. constructor; [lia|auto]. }
  pose proof (total K (tag k ws) qa qb (valid_tag K ws k Hv) Hq Hin') as G.
  rewrite seg_tag in G. rewrite G.
  assert (Hw : sumZ (map (fun w0 => (w_b w0 - w_a w0) * w_beta w0) (tag k ws)) = WR (tag k ws) qa qb).
  { unfold WR. f_equal. apply map_ext_in. intros w0 Hw0.
    pose proof (valid_tag K ws k Hv) as Vt. rewrite Forall_forall in Vt, Hin'.
    specialize (Vt w0 Hw0). specialize (Hin' w0 Hw0). destruct Vt as [[V1 _] _].
    f_equal. unfold ov. lia. }
  rewrite Hw, WR_tag, Hk. unfold ov.
  rewrite Forall_forall in Hv, Hin. pose proof (nth_error_In _ _ Hk) as Hi.
  specialize (Hv w Hi). specialize (Hin w Hi). destruct Hv as (V1 & _). lia.
Qed.
