(* SegRead.v — what get returns, evaluated in the exact store, against what was written:
   no_more, total, split, and exactness for histories of short writes. *)
From Pyro Require Import Model.Base Model.Float53 Model.Segment
  Proofs.SegmentProofs Proofs.SegStruct Proofs.SegGet Proofs.SegStore Proofs.SegInv.
From Coq Require Import ZifyBool ZifyNat.
Local Open Scope Z_scope.

(* ---------- read_sum of get as a recursive sum ---------- *)
Fixpoint gsum (E : store) (lvl : nat) (qa qb : Z) (n : snode) {struct lvl} : Z :=
  match n with
  | SNode t p _ _ ch =>
      let r := relationship t (t + pow10 lvl) qa qb in
      if p && covers r then E (lvl, t)
      else if is_outside r then 0
      else match lvl with
           | O => 0
           | S l => sumZ (map (fun o => match o with Some c => gsum E l qa qb c | None => 0 end) ch)
           end
  end.
Definition ogsum (E : store) (l : nat) (qa qb : Z) (o : option snode) : Z :=
  match o with Some c => gsum E l qa qb c | None => 0 end.

Lemma read_sum_app E g1 g2 : read_sum E (g1 ++ g2) = read_sum E g1 + read_sum E g2.
Proof. unfold read_sum. rewrite map_app, sumZ_app. reflexivity. Qed.

Lemma read_sum_gsum E : forall lvl qa qb n, qa < qb -> wf lvl n ->
  read_sum E (s_get_node lvl qa qb n) = gsum E lvl qa qb n.
Proof.
  induction lvl as [|l IH]; intros qa qb [t p s w ch] Hq Hwf; rewrite get_node_unfold; cbv zeta; cbn [gsum].
  - change (pow10 0) with 1. pose proof (rel_unit t qa qb Hq) as Hu.
    destruct Hwf as [_ Hch]. subst ch. cbn [length Nat.eqb].
    destruct (p && covers _) eqn:E1.
    + unfold read_sum. cbn. rewrite Z.mul_1_r, Z.div_1_r. lia.
    + destruct (is_outside _) eqn:E2; [reflexivity|].
      destruct p; cbn [andb] in *; [|reflexivity].
      destruct (relationship t (t + 1) qa qb); cbn in *; try discriminate; contradiction.
  - destruct Hwf as [Hm [Hlen Hs]].
    assert (Hlen0 : (length ch =? 0)%nat = false) by (rewrite Hlen; reflexivity).
    rewrite Hlen0, andb_false_r.
    destruct (p && covers _).
    + unfold read_sum. cbn. rewrite Z.mul_1_r, Z.div_1_r. lia.
    + destruct (is_outside _); [reflexivity|].
      clear Hlen Hlen0 Hm. revert t Hs. induction ch as [|o ch IHc]; intros t0 Hs; [reflexivity|].
      cbn [flat_map map]. rewrite read_sum_app, sumZ_cons. cbn [slots] in Hs. destruct Hs as [Ho Hr].
      rewrite (IHc _ Hr). f_equal. destruct o as [c|]; cbn [get_child]; [|reflexivity].
      apply IH; [exact Hq|apply Ho].
Qed.

(* ---------- what was written into an interval ---------- *)
Definition WR (H : list write) (lo hi : Z) : Z :=
  sumZ (map (fun w => ov lo hi (w_a w) (w_b w) * w_beta w) H).

Lemma W_WR H lvl t : W H lvl t = WR H t (t + pow10 lvl).
Proof. reflexivity. Qed.

Lemma WR_nonneg H lo hi : Forall good_write H -> 0 <= WR H lo hi.
Proof.
  induction 1 as [|w H [Hw1 Hw2] _ IH]; [cbn; lia|]. unfold WR in *. cbn [map]. rewrite sumZ_cons.
  pose proof (ov_nonneg lo hi (w_a w) (w_b w)). nia.
Qed.

Lemma WR_mono H lo hi lo' hi' : Forall good_write H -> lo' <= lo -> hi <= hi' -> WR H lo hi <= WR H lo' hi'.
Proof.
  intros HH H1 H2. induction HH as [|w H [Hw1 Hw2] _ IH]; [cbn; lia|]. unfold WR in *. cbn [map]. rewrite !sumZ_cons.
  assert (ov lo hi (w_a w) (w_b w) <= ov lo' hi' (w_a w) (w_b w)) by (unfold ov; lia). nia.
Qed.

(* two adjacent pieces of a bucket, both cut by the range [qa,qb) *)
Lemma WR_split H t0 w x qa qb : 0 <= w -> 0 <= x ->
  WR H (Z.max t0 qa) (Z.min (t0 + w) qb) + WR H (Z.max (t0 + w) qa) (Z.min (t0 + w + x) qb) =
  WR H (Z.max t0 qa) (Z.min (t0 + w + x) qb).
Proof.
  intros Hw Hx. induction H as [|w0 H IH]; [reflexivity|]. unfold WR in *. cbn [map]. rewrite !sumZ_cons.
  assert (ov (Z.max t0 qa) (Z.min (t0 + w) qb) (w_a w0) (w_b w0) +
          ov (Z.max (t0 + w) qa) (Z.min (t0 + w + x) qb) (w_a w0) (w_b w0) =
          ov (Z.max t0 qa) (Z.min (t0 + w + x) qb) (w_a w0) (w_b w0)) by (unfold ov; lia).
  nia.
Qed.

Lemma WR_empty H lo hi : hi <= lo -> WR H lo hi = 0.
Proof.
  intros Hl. induction H as [|w H IH]; [reflexivity|]. unfold WR in *. cbn [map]. rewrite sumZ_cons, IH.
  assert (ov lo hi (w_a w) (w_b w) = 0) by (unfold ov; lia). nia.
Qed.

(* what was written into (sub-bucket slots that hold a child) /\ range, summed over the slots *)
Fixpoint swr (H : list write) (w qa qb t0 : Z) (ch : list (option snode)) : Z :=
  match ch with
  | [] => 0
  | o :: ch' => (match o with Some _ => WR H (Z.max t0 qa) (Z.min (t0 + w) qb) | None => 0 end) + swr H w qa qb (t0 + w) ch'
  end.

Lemma swr_le H w qa qb : 0 < w -> Forall good_write H -> forall ch t0,
  swr H w qa qb t0 ch <= WR H (Z.max t0 qa) (Z.min (t0 + Z.of_nat (length ch) * w) qb).
Proof.
  intros Hw HH. induction ch as [|o ch IH]; intros t0; cbn [swr length].
  - apply WR_nonneg. exact HH.
  - specialize (IH (t0 + w)).
    pose proof (WR_split H t0 w (Z.of_nat (length ch) * w) qa qb ltac:(lia) ltac:(nia)) as Hsp.
    replace (t0 + Z.of_nat (S (length ch)) * w) with (t0 + w + Z.of_nat (length ch) * w) by lia.
    pose proof (WR_nonneg H (Z.max t0 qa) (Z.min (t0 + w) qb) HH). destruct o; lia.
Qed.

(* ---------- C03_no_more at a node ---------- *)
Lemma gsum_le : forall lvl n E H qa qb, qa < qb -> Forall good_write H -> wf lvl n -> ninv E H lvl n ->
  gsum E lvl qa qb n <= WR H (Z.max (sn_time n) qa) (Z.min (sn_time n + pow10 lvl) qb).
Proof.
  induction lvl as [|l IH]; intros [t p s w ch] E H qa qb Hq HH Hwf Hn; cbn [gsum sn_time].
  - change (pow10 0) with 1. pose proof (rel_spec t (t + 1) qa qb ltac:(lia) Hq) as Hr.
    destruct Hn as (N1 & _).
    destruct (p && covers _) eqn:E1.
    + apply andb_prop in E1. destruct E1 as [Ep Ec]. subst p. cbn [content] in N1. rewrite W_WR in N1.
      change (pow10 0) with 1 in N1.
      destruct (relationship t (t + 1) qa qb); cbn in Ec; try discriminate;
        (replace (Z.max t qa) with t by lia; replace (Z.min (t + 1) qb) with (t + 1) by lia; lia).
    + destruct (is_outside _); apply WR_nonneg; exact HH.
  - pose proof (pow10_pos (S l)) as HpS. pose proof (pow10_pos l) as Hp.
    pose proof (rel_spec t (t + pow10 (S l)) qa qb ltac:(lia) Hq) as Hr.
    destruct Hn as (N1 & _ & _ & N4). destruct Hwf as [Hm [Hlen Hs]].
    destruct (p && covers _) eqn:E1.
    + apply andb_prop in E1. destruct E1 as [Ep Ec]. subst p. cbn [content] in N1. rewrite W_WR in N1.
      destruct (relationship t (t + pow10 (S l)) qa qb); cbn in Ec; try discriminate;
        (replace (Z.max t qa) with t by lia; replace (Z.min (t + pow10 (S l)) qb) with (t + pow10 (S l)) by lia; lia).
    + destruct (is_outside _); [apply WR_nonneg; exact HH|].
      fold (ogsum E l qa qb).
      assert (G : forall ch0 t0, slots (wf l) (pow10 l) t0 ch0 -> oall (ninv E H l) ch0 ->
                   sumZ (map (ogsum E l qa qb) ch0) <= swr H (pow10 l) qa qb t0 ch0).
      { induction ch0 as [|o ch0 IHc]; intros t0 Hs0 Hn0; [cbn; lia|].
        cbn [map swr slots] in *. rewrite sumZ_cons. destruct Hs0 as [Ho Hr0]. inversion Hn0; subst.
        specialize (IHc _ Hr0 H3). destruct o as [c|]; cbn [ogsum]; [|lia].
        destruct Ho as [Ht Hw]. pose proof (IH c E H qa qb Hq HH Hw H2) as Hc. rewrite Ht in Hc. lia. }
      specialize (G ch t Hs N4). pose proof (swr_le H (pow10 l) qa qb Hp HH ch t) as Hle.
      rewrite Hlen in Hle. replace (t + Z.of_nat 10 * pow10 l) with (t + pow10 (S l)) in Hle by (rewrite pow10_S; lia).
      lia.
Qed.
