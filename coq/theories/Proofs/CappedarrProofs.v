(* CappedarrProofs.v — the capped array keeps, in ascending order, the maxSize largest values pushed. *)
From Pyro Require Import Model.Base Model.Tree Model.Cappedarr.
From Coq Require Import ZifyN ZifyNat ZifyBool.

(* the last n elements of a list *)
Definition keep_last {A} (n : nat) (l : list A) : list A := skipn (length l - n) l.

Fixpoint ascending (l : list N) : Prop :=
  match l with
  | [] => True
  | x :: l' => Forall (fun y => x <= y) l' /\ ascending l'
  end.

Definition isort (vs : list N) : list N := fold_left (fun acc v => ca_insert v acc) vs [].

Definition ca_pushes (vs : list N) (c : capped) : capped := fold_left (fun c v => snd (ca_push v c)) vs c.

Lemma ca_insert_length v l : length (ca_insert v l) = S (length l).
Proof. induction l as [|x l IH]; cbn [ca_insert length]; [reflexivity|]. destruct (N.ltb x v); cbn [length]; lia. Qed.

Lemma ca_insert_zero l : ca_insert 0 l = 0 :: l.
Proof. destruct l as [|x l]; [reflexivity|]. cbn [ca_insert]. destruct (N.ltb_spec x 0); [lia|reflexivity]. Qed.

Lemma keep_last_all {A} n (l : list A) : (length l <= n)%nat -> keep_last n l = l.
Proof. intros H. unfold keep_last. replace (length l - n)%nat with O by lia. reflexivity. Qed.

Lemma keep_last_cons {A} n (x : A) l : (n <= length l)%nat -> keep_last n (x :: l) = keep_last n l.
Proof. intros H. unfold keep_last. cbn [length]. replace (S (length l) - n)%nat with (S (length l - n)) by lia. reflexivity. Qed.

Lemma keep_last_app {A} n (a b : list A) : (n <= length b)%nat -> keep_last n (a ++ b) = keep_last n b.
Proof. induction a as [|x a IH]; intros H; [reflexivity|]. cbn [app]. rewrite keep_last_cons; [auto|]. rewrite app_length. lia. Qed.

Lemma keep_last_length {A} n (l : list A) : length (keep_last n l) = Nat.min n (length l).
Proof. unfold keep_last. rewrite skipn_length. lia. Qed.

(* one Push = sorted insertion, then keep the last maxSize elements; the result says whether the value entered *)
Lemma ca_push_vals v c : (1 <= ca_max c)%nat -> (length (ca_vals c) <= ca_max c)%nat ->
  ca_vals (snd (ca_push v c)) = keep_last (ca_max c) (ca_insert v (ca_vals c)) /\
  ca_max (snd (ca_push v c)) = ca_max c.
Proof.
  intros Hm Hl. unfold ca_push. destruct (Nat.ltb_spec (length (ca_vals c)) (ca_max c)) as [Hlt|Hge].
  - destruct (N.eqb_spec v 0) as [->|Hne]; cbn [snd ca_vals ca_max]; (split; [|reflexivity]).
    + rewrite ca_insert_zero, keep_last_all; [reflexivity|cbn [length]; lia].
    + rewrite keep_last_all; [reflexivity|rewrite ca_insert_length; lia].
  - destruct (ca_vals c) as [|w0 r] eqn:E; [cbn [length] in *; lia|].
    destruct (N.leb_spec v w0) as [Hle|Hgt]; cbn [snd ca_vals ca_max]; (split; [|reflexivity]).
    + rewrite E. cbn [ca_insert]. destruct (N.ltb_spec w0 v); [lia|].
      rewrite keep_last_cons, keep_last_all; [reflexivity| |]; lia.
    + unfold keep_last. rewrite ca_insert_length. replace (S (length (w0 :: r)) - ca_max c)%nat with 1%nat by lia.
      destruct (ca_insert v (w0 :: r)); reflexivity.
Qed.

Lemma ca_insert_app_lt v a b : Forall (fun x => x < v) a -> ca_insert v (a ++ b) = a ++ ca_insert v b.
Proof.
  induction 1 as [|x a Hx _ IH]; [reflexivity|]. cbn [app ca_insert].
  destruct (N.ltb_spec x v); [|lia]. rewrite IH. reflexivity.
Qed.

Lemma ca_insert_app_ge v a b : Exists (fun x => v <= x) a -> ca_insert v (a ++ b) = ca_insert v a ++ b.
Proof.
  induction a as [|x a IH]; intros H; [inversion H|]. cbn [app ca_insert].
  destruct (N.ltb_spec x v) as [Hlt|Hge]; [|reflexivity].
  inversion H as [? ? Hx|? ? Hx]; subst; [lia|]. rewrite IH by exact Hx. reflexivity.
Qed.

Lemma ca_insert_ascending v l : ascending l -> ascending (ca_insert v l).
Proof.
  induction l as [|x l IH]; intros H; cbn [ca_insert]; [cbn; auto|].
  cbn [ascending] in H. destruct H as [H1 H2]. destruct (N.ltb_spec x v) as [Hlt|Hge].
  - cbn [ascending]. split; [|apply IH, H2].
    clear IH H2. induction l as [|y l IHl]; cbn [ca_insert]; [constructor; [lia|constructor]|].
    inversion H1; subst. destruct (N.ltb y v); constructor; auto; lia.
  - cbn [ascending]. repeat split; auto. constructor; [exact Hge|]. eapply Forall_impl; [|exact H1]. cbn. intros; lia.
Qed.

Lemma ascending_app_inv a b : ascending (a ++ b) -> forall x y, In x a -> In y b -> x <= y.
Proof.
  induction a as [|z a IH]; intros H x y Hx Hy; [inversion Hx|]. cbn [app ascending] in H. destruct H as [H1 H2].
  destruct Hx as [<-|Hx]; [|eapply IH; eauto].
  rewrite Forall_forall in H1. apply H1, in_or_app. right. exact Hy.
Qed.

Lemma firstn_skipn_keep {A} n (l : list A) : l = firstn (length l - n) l ++ keep_last n l.
Proof. unfold keep_last. symmetry. apply firstn_skipn. Qed.

Lemma forallb_false_ex {A} (f : A -> bool) l : forallb f l = false -> exists x, In x l /\ f x = false.
Proof.
  induction l as [|x l IH]; cbn [forallb]; [discriminate|]. destruct (f x) eqn:E.
  - intros H. destruct (IH H) as (y & Hy & Hf). exists y. split; [right; exact Hy|exact Hf].
  - intros _. exists x. split; [left; reflexivity|exact E].
Qed.

Lemma keep_last_insert n v S : (1 <= n)%nat -> ascending S ->
  keep_last n (ca_insert v (keep_last n S)) = keep_last n (ca_insert v S).
Proof.
  intros Hn Hs. destruct (Nat.le_gt_cases (length S) n) as [Hle|Hgt].
  - rewrite (keep_last_all n S) by exact Hle. reflexivity.
  - set (A := firstn (length S - n) S). set (B := keep_last n S).
    assert (HS : S = A ++ B) by apply firstn_skipn_keep.
    assert (HB : length B = n) by (unfold B; rewrite keep_last_length; lia).
    rewrite HS. rewrite HS in Hs. clearbody A B. clear HS Hgt S.
    destruct (forallb (fun x => N.ltb x v) A) eqn:Hall.
    + rewrite forallb_forall in Hall. rewrite ca_insert_app_lt.
      * rewrite keep_last_app; [reflexivity|]. rewrite ca_insert_length. lia.
      * apply Forall_forall. intros x Hx. apply N.ltb_lt, Hall, Hx.
    + apply forallb_false_ex in Hall. destruct Hall as (x & Hx & Hxv). apply N.ltb_ge in Hxv.
      rewrite ca_insert_app_ge by (apply Exists_exists; exists x; split; assumption).
      rewrite keep_last_app, (keep_last_all n B) by lia.
      destruct B as [|b0 B']; [cbn [length] in HB; lia|].
      assert (x <= b0) by (apply (ascending_app_inv A (b0 :: B') Hs); [exact Hx|left; reflexivity]).
      cbn [ca_insert]. destruct (N.ltb_spec b0 v); [lia|].
      rewrite keep_last_cons, keep_last_all; [reflexivity| |]; lia.
Qed.

Lemma isort_snoc vs v : isort (vs ++ [v]) = ca_insert v (isort vs).
Proof. unfold isort. rewrite fold_left_app. reflexivity. Qed.

Lemma isort_ascending vs : ascending (isort vs).
Proof.
  induction vs as [|v vs IH] using rev_ind; [exact I|]. rewrite isort_snoc. apply ca_insert_ascending, IH.
Qed.

Lemma isort_length vs : length (isort vs) = length vs.
Proof.
  induction vs as [|v vs IH] using rev_ind; [reflexivity|]. rewrite isort_snoc, ca_insert_length, app_length, IH. cbn. lia.
Qed.

(* the window after any sequence of pushes = the maxSize largest pushed values, ascending *)
Lemma ca_pushes_vals n vs : (1 <= n)%nat ->
  ca_vals (ca_pushes vs (ca_new n)) = keep_last n (isort vs) /\ ca_max (ca_pushes vs (ca_new n)) = n.
Proof.
  intros Hn. induction vs as [|v vs IH] using rev_ind; [split; reflexivity|].
  destruct IH as [IH1 IH2]. unfold ca_pushes in *. rewrite fold_left_app. cbn [fold_left].
  set (c := fold_left (fun c v => snd (ca_push v c)) vs (ca_new n)) in *.
  destruct (ca_push_vals v c) as [H1 H2]; [lia| |].
  - rewrite IH1, IH2, keep_last_length. lia.
  - rewrite H1, H2, IH2, IH1, isort_snoc. split; [|reflexivity]. apply keep_last_insert; [exact Hn|apply isort_ascending].
Qed.

(* MinValue after at least maxSize pushes = the maxSize-th largest pushed value *)
Lemma ca_min_nth n vs : (1 <= n)%nat -> (n <= length vs)%nat ->
  ca_min (ca_pushes vs (ca_new n)) = nth (length vs - n) (isort vs) 0.
Proof.
  intros Hn Hl. unfold ca_min. destruct (ca_pushes_vals n vs Hn) as [-> _].
  unfold keep_last. rewrite isort_length.
  pose proof (isort_length vs) as Hlen. revert Hlen. generalize (isort vs) as S. intros S Hlen.
  assert (Hk : (length vs - n < length S)%nat) by lia. revert Hk. generalize (length vs - n)%nat as k.
  clear. intros k. revert S. induction k as [|k IH]; intros [|x S] Hk; cbn [length] in Hk; try lia.
  - reflexivity.
  - cbn [skipn nth]. apply IH. lia.
Qed.

(* ---- the pruned walk of Tree.minValue: the sequence of totals it pushes ------------------------ *)

Section tnode_ind2.
  Variable P : tnode -> Prop.
  Hypothesis Hnode : forall n s t ch, Forall P ch -> P (TNode n s t ch).
  Fixpoint tnode_ind2 (t : tnode) : P t :=
    match t with
    | TNode n s tot ch =>
        Hnode n s tot ch
          ((fix go (l : list tnode) : Forall P l :=
              match l with
              | [] => Forall_nil P
              | c :: l' => Forall_cons c (tnode_ind2 c) (go l')
              end) ch)
    end.
End tnode_ind2.

Fixpoint mv_seq (t : tnode) (c : capped) {struct t} : list N :=
  match t with
  | TNode _ _ tot ch =>
      tot ::
      (if fst (ca_push tot c) then
         (fix go (l : list tnode) (c : capped) {struct l} : list N :=
            match l with
            | [] => []
            | x :: rest => mv_seq x c ++ go rest (ca_pushes (mv_seq x c) c)
            end) ch (snd (ca_push tot c))
       else [])
  end.

Fixpoint mv_seq_children (l : list tnode) (c : capped) : list N :=
  match l with
  | [] => []
  | x :: rest => mv_seq x c ++ mv_seq_children rest (ca_pushes (mv_seq x c) c)
  end.

Lemma mv_seq_eq t c :
  mv_seq t c = t_total t :: (if fst (ca_push (t_total t) c) then mv_seq_children (t_ch t) (snd (ca_push (t_total t) c)) else []).
Proof.
  destruct t as [n s tot ch]. reflexivity.
Qed.

Lemma ca_pushes_app a b c : ca_pushes (a ++ b) c = ca_pushes b (ca_pushes a c).
Proof. unfold ca_pushes. apply fold_left_app. Qed.

Lemma mv_visit_seq : forall t c k,
  mv_visit t (c, k) = (ca_pushes (mv_seq t c) c, (k + length (mv_seq t c))%nat).
Proof.
  induction t as [n s tot ch IH] using tnode_ind2. intros c k.
  rewrite mv_seq_eq. cbn [t_total t_ch]. cbn [mv_visit fst snd].
  destruct (ca_push tot c) as [ok c'] eqn:E. cbn [fst snd].
  assert (Hp : forall l, ca_pushes (tot :: l) c = ca_pushes l c').
  { intros l. unfold ca_pushes. cbn [fold_left]. rewrite E. reflexivity. }
  destruct ok.
  - rewrite Hp. cbn [length].
    assert (H : forall c0 k0,
      (fix go (ch0 : list tnode) (st : capped * nat) {struct ch0} : capped * nat :=
         match ch0 with [] => st | c1 :: rest => go rest (mv_visit c1 st) end) ch (c0, k0)
      = (ca_pushes (mv_seq_children ch c0) c0, (k0 + length (mv_seq_children ch c0))%nat)).
    { induction IH as [|x ch Hx _ IHch]; intros c0 k0.
      - cbn. f_equal. lia.
      - cbn [mv_seq_children]. rewrite Hx, IHch, ca_pushes_app, app_length. f_equal. lia. }
    rewrite H. f_equal. lia.
  - rewrite Hp. cbn. f_equal. lia.
Qed.

(* the threshold: 0 when the pruned walk visited at most n nodes, otherwise the n-th largest of the
   totals it visited (isort is ascending: index len - n) *)
Lemma t_minval_nth n t : (1 <= n)%nat ->
  let vs := mv_seq t (ca_new n) in
  t_minval n t = if Nat.leb (length vs) n then 0 else nth (length vs - n) (isort vs) 0.
Proof.
  intros Hn vs. unfold t_minval. rewrite mv_visit_seq. cbn [fst snd]. fold vs. rewrite Nat.add_0_l.
  destruct (Nat.leb_spec (length vs) n) as [Hle|Hgt]; [reflexivity|].
  apply ca_min_nth; lia.
Qed.
