(* StorageCachedAllProofs.v — the all-stores twin (Model/StorageCachedAll.v) returns exactly the outputs of the storage
   over the same trees store with the segments in the plain table (generic in the trees store); instantiated with
   tree-b's store (tree bytes + dictionaries cache) and composed with tree-b's refines_dict and cached_storage_refines,
   this is C02_refines_all_partial.  The proof is the one of Proofs/StorageCached2Proofs.v with the trees store opaque. *)
From Coq Require Import List Arith ZArith NArith Bool Lia.
From Pyro Require Import Model.Base Model.Tree Model.Lfu Model.Cache Proofs.CacheProofs.
From Pyro Require Import Model.Segment Model.SegCodec Model.MetaJson Model.Timeline Model.Storage.
From Pyro Require Import Model.StorageCached Model.StorageCached2 Model.StorageCachedDict Model.StorageCachedAll.
From Pyro Require Import Proofs.BcmpProofs Proofs.StorageProofs Proofs.RetentionProofs Proofs.C02StorageReload.
From Pyro Require Import Proofs.StorageCachedProofs Proofs.CacheView Proofs.StorageCached2Proofs Proofs.C02DictTwin.
Import ListNotations.

Notation bdec := StorageCached2.bytes_dec.

Section AllProofs.
Context {S M : Type}.
Context (ts_read : tkey -> S -> S * tnode) (ts_put : tkey -> tnode -> S -> S) (ts_del : tkey -> S -> S)
        (ts_drop : bytes -> S -> S) (ts_maint : M -> S -> S).
Notation astate := (a_state (S:=S)).
Notation gstate := (gst (S:=S)).

Record RA (a : astate) (g : gstate) : Prop := mkRA {
  ra_store : g_store g = a_store a;
  ra_index : a_index a = map fst (g_segs g);
  ra_sorted : segs_sorted (g_segs g);
  ra_wf : swf (a_segs a);
  ra_in : forall ks, In ks (g_segs g) -> sv (a_segs a) (key ks) = snd ks;
  ra_out : forall kb, (forall ks, In ks (g_segs g) -> key ks <> kb) -> sv (a_segs a) kb = Segment.s_empty
}.
Arguments ra_store {a g}. Arguments ra_index {a g}. Arguments ra_sorted {a g}.
Arguments ra_wf {a g}. Arguments ra_in {a g}. Arguments ra_out {a g}.

Lemma a_lookup_view : forall a g k, RA a g ->
  match seg_lookup k (g_segs g) with Some s => s | None => Segment.s_empty end = sv (a_segs a) (sid_key k).
Proof.
  intros a g k R. destruct (seg_lookup k (g_segs g)) as [s|] eqn:E.
  - destruct (seg_lookup_in _ _ _ E) as (ks & Hi & Hk & Hs). rewrite <- Hs, <- (ra_in R ks Hi). unfold key. rewrite Hk. reflexivity.
  - symmetry. apply (ra_out R). intros ks Hi. apply (seg_lookup_none _ _ E ks Hi).
Qed.

Lemma a_put_go_sim : forall pi a g, RA a g ->
  RA (fst (a_put_go ts_read ts_put pi a)) (fst (gst_put_go ts_read ts_put pi g)) /\
  snd (a_put_go ts_read ts_put pi a) = snd (gst_put_go ts_read ts_put pi g).
Proof.
  intros pi a g R. unfold a_put_go, gst_put_go.
  destruct (StorageCached2.s_read (sid_key (pi_sid pi)) (a_segs a)) as [sc1 seg] eqn:RD.
  destruct (sread _ _ _ _ (ra_wf R) RD) as (-> & W1 & V1 & _).
  rewrite (a_lookup_view a g (pi_sid pi) R).
  destruct (s_put_unix (pi_from pi) (pi_until pi) (t_total (pi_tree pi))
              (s_set_meta (pi_meta pi) (sv (a_segs a) (sid_key (pi_sid pi))))) as [seg' cbs].
  cbn [fst snd]. split; [|reflexivity].
  destruct (gput_spec bdec sc_dflt sc_enc sc_dec (sid_key (pi_sid pi)) seg' sc1 W1) as [W2 V2].
  constructor; cbn [g_store g_segs a_store a_index a_segs].
  - rewrite (ra_store R). reflexivity.
  - rewrite store_index, (ra_index R). reflexivity.
  - apply seg_store_sorted, (ra_sorted R).
  - exact W2.
  - intros ks Hi. unfold StorageCached2.s_put. rewrite V2.
    destruct (bdec (key ks) (sid_key (pi_sid pi))) as [E|N].
    + assert (ks = (pi_sid pi, seg')) as ->; [|reflexivity].
      apply (sorted_key_inj (seg_store (pi_sid pi) seg' (g_segs g))); auto.
      * apply seg_store_sorted, (ra_sorted R).
      * apply store_has.
    + rewrite V1. apply seg_store_in in Hi. destruct Hi as [->|Hi]; [unfold key in N; cbn in N; congruence|].
      apply (ra_in R). exact Hi.
  - intros kb H. unfold StorageCached2.s_put. rewrite V2.
    destruct (bdec kb (sid_key (pi_sid pi))) as [->|N].
    + exfalso. apply (H (pi_sid pi, seg')); [apply store_has | reflexivity].
    + rewrite V1. apply (ra_out R). intros ks Hi E. apply (H ks); [|exact E].
      apply store_keeps; [exact Hi | congruence].
Qed.

Lemma a_put_sim : forall rt pi a g, RA a g ->
  RA (fst (a_put ts_read ts_put rt pi a)) (fst (gst_put ts_read ts_put rt pi g)) /\
  snd (a_put ts_read ts_put rt pi a) = snd (gst_put ts_read ts_put rt pi g).
Proof.
  intros rt pi a g R. destruct rt as [thr|]; cbn [a_put gst_put]; [|apply a_put_go_sim; exact R].
  destruct (pi_from pi <? thr)%Z; [cbn; auto | apply a_put_go_sim; exact R].
Qed.

Lemma a_get_sim : forall sel from until a g, RA a g ->
  RA (fst (a_get ts_read sel from until a)) (fst (gst_get ts_read sel from until g)) /\
  snd (a_get ts_read sel from until a) = snd (gst_get ts_read sel from until g).
Proof.
  intros sel from until a g R. unfold a_get, gst_get.
  destruct (s_normalize_unix (from, until)) as [x y].
  set (Mt := filter (fun ks => sel_matches sel (fst ks)) (g_segs g)).
  assert (IDS : filter (sel_matches sel) (a_index a) = map fst Mt).
  { unfold Mt. rewrite (ra_index R). symmetry. apply (filter_index (sel_matches sel)). }
  rewrite IDS.
  destruct (StorageCached2.s_reads (map sid_key (map fst Mt)) (a_segs a)) as [sc' ss] eqn:RS.
  destruct (greads_spec bdec sc_dflt sc_enc sc_dec _ _ _ _ (ra_wf R) RS) as (-> & W' & V').
  assert (MM : combine (map fst Mt) (map (sv (a_segs a)) (map sid_key (map fst Mt))) = Mt).
  { apply rebuild. intros ks Hi. apply (ra_in R). unfold Mt in Hi. apply filter_In in Hi. tauto. }
  rewrite MM. rewrite <- (ra_store R).
  destruct (StorageCachedDict.g_reads ts_read (map item_key (get_items x y Mt)) (g_store g)) as [s' vals]. cbn [fst snd].
  split; [|reflexivity].
  constructor; cbn [g_store g_segs a_store a_index a_segs]; try apply R; auto.
  - intros ks Hi. rewrite V'. apply (ra_in R). exact Hi.
  - intros kb H. rewrite V'. apply (ra_out R). exact H.
Qed.

Lemma a_delete_one_sim : forall a g ks, RA a g -> In ks (g_segs g) ->
  RA (a_delete_one ts_del ts_drop a (fst ks)) (gst_delete_series ts_del ts_drop g ks).
Proof.
  intros a g ks R Hi. unfold a_delete_one, gst_delete_series.
  destruct (StorageCached2.s_read (sid_key (fst ks)) (a_segs a)) as [sc1 seg] eqn:RD.
  destruct (sread _ _ _ _ (ra_wf R) RD) as (-> & W1 & V1 & _).
  pose proof (ra_in R ks Hi) as EQ0. unfold key in EQ0. rewrite EQ0.
  destruct (s_delete_before_unix max_time_unix (snd ks)) as [[seg' cbs] del].
  destruct (gdel_spec bdec sc_dflt sc_enc sc_dec (sid_key (fst ks)) sc1 W1) as [W2 V2].
  constructor; cbn [g_store g_segs a_store a_index a_segs].
  - rewrite (ra_store R). reflexivity.
  - rewrite remove_index, (ra_index R). reflexivity.
  - apply remove_sorted, (ra_sorted R).
  - exact W2.
  - intros x0 Hx. apply remove_in in Hx. destruct Hx as [Hx N]. unfold StorageCached2.s_del. rewrite V2.
    destruct (bdec (key x0) (sid_key (fst ks))); [contradiction|]. rewrite V1. apply (ra_in R). exact Hx.
  - intros kb H. unfold StorageCached2.s_del. rewrite V2. destruct (bdec kb (sid_key (fst ks))) as [->|N]; [reflexivity|].
    rewrite V1. apply (ra_out R). intros x0 Hx E. apply (H x0); [|exact E]. apply remove_in. split; [exact Hx | congruence].
Qed.

Lemma a_retention_one_sim : forall thr a g ks, RA a g -> In ks (g_segs g) ->
  RA (a_retention_one ts_del ts_drop thr a (fst ks)) (gst_retention_series ts_del ts_drop thr g ks).
Proof.
  intros thr a g ks R Hi. unfold a_retention_one, gst_retention_series.
  destruct (StorageCached2.s_read (sid_key (fst ks)) (a_segs a)) as [sc1 seg] eqn:RD.
  destruct (sread _ _ _ _ (ra_wf R) RD) as (-> & W1 & V1 & PR).
  pose proof (ra_in R ks Hi) as EQ0. unfold key in EQ0. rewrite EQ0.
  destruct (s_delete_before_unix thr (snd ks)) as [[seg' cbs] del].
  destruct del.
  - destruct (gdel_spec bdec sc_dflt sc_enc sc_dec (sid_key (fst ks)) sc1 W1) as [W2 V2].
    constructor; cbn [g_store g_segs a_store a_index a_segs].
    + rewrite (ra_store R). reflexivity.
    + rewrite remove_index, (ra_index R). reflexivity.
    + apply remove_sorted, (ra_sorted R).
    + exact W2.
    + intros x0 Hx. apply remove_in in Hx. destruct Hx as [Hx N]. unfold StorageCached2.s_del. rewrite V2.
      destruct (bdec (key x0) (sid_key (fst ks))); [contradiction|]. rewrite V1. apply (ra_in R). exact Hx.
    + intros kb H. unfold StorageCached2.s_del. rewrite V2. destruct (bdec kb (sid_key (fst ks))) as [->|N]; [reflexivity|].
      rewrite V1. apply (ra_out R). intros x0 Hx E. apply (H x0); [|exact E]. apply remove_in. split; [exact Hx | congruence].
  - destruct (gpoke_spec bdec sc_dflt sc_enc sc_dec (sid_key (fst ks)) (fun _ => seg') sc1 W1 PR) as [W2 V2].
    destruct (in_split _ _ Hi) as (Rp & l2 & ES).
    pose proof (ra_sorted R) as SS. rewrite ES in SS.
    assert (ST : seg_store (fst ks) seg' (g_segs g) = Rp ++ (fst ks, seg') :: l2)
      by (rewrite ES; apply seg_store_mid; exact SS).
    destruct (sorted_app_inv Rp ks l2 SS) as [G1 G2]. rewrite Forall_forall in G1, G2.
    assert (OTHER : forall x0, In x0 Rp \/ In x0 l2 -> key x0 <> sid_key (fst ks)).
    { intros x0 [Hx|Hx] E; [specialize (G1 x0 Hx) | specialize (G2 x0 Hx)]; unfold key in E;
        [rewrite E in G1 | rewrite E in G2]; rewrite bcmp_refl in *; discriminate. }
    constructor; cbn [g_store g_segs a_store a_index a_segs].
    + rewrite (ra_store R). reflexivity.
    + rewrite ST, (ra_index R), ES, !map_app. reflexivity.
    + rewrite ST. apply sorted_app_replace. exact SS.
    + exact W2.
    + intros x0 Hx. rewrite ST in Hx. unfold StorageCached2.s_poke. rewrite V2.
      apply in_app_or in Hx. destruct Hx as [Hx|[<-|Hx]].
      * destruct (bdec (key x0) (sid_key (fst ks))) as [E|N]; [exfalso; apply (OTHER x0); auto|].
        rewrite V1. apply (ra_in R). rewrite ES. apply in_or_app. left. exact Hx.
      * unfold key. cbn [fst snd]. destruct (bdec (sid_key (fst ks)) (sid_key (fst ks))); [reflexivity | congruence].
      * destruct (bdec (key x0) (sid_key (fst ks))) as [E|N]; [exfalso; apply (OTHER x0); auto|].
        rewrite V1. apply (ra_in R). rewrite ES. apply in_or_app. right. right. exact Hx.
    + intros kb H. unfold StorageCached2.s_poke. rewrite V2.
      destruct (bdec kb (sid_key (fst ks))) as [->|N].
      * exfalso. apply (H (fst ks, seg')); [rewrite ST; apply in_or_app; right; left; reflexivity | reflexivity].
      * rewrite V1. apply (ra_out R). intros x0 Hx E. rewrite ES in Hx. apply in_app_or in Hx.
        destruct Hx as [Hx|[<-|Hx]].
        -- apply (H x0); [rewrite ST; apply in_or_app; left; exact Hx | exact E].
        -- apply N. symmetry. exact E.
        -- apply (H x0); [rewrite ST; apply in_or_app; right; right; exact Hx | exact E].
Qed.

Lemma a_pass_sim : forall (f2 : astate -> sid -> astate) (f1 : gstate -> sid * segment -> gstate),
  (forall a g ks, RA a g -> In ks (g_segs g) -> RA (f2 a (fst ks)) (f1 g ks)) ->
  (forall g ks x0, In x0 (g_segs g) -> key x0 <> key ks -> In x0 (g_segs (f1 g ks))) ->
  forall T a g, RA a g -> segs_sorted T -> (forall ks, In ks T -> In ks (g_segs g)) ->
  RA (fold_left f2 (map fst T) a) (fold_left f1 T g).
Proof.
  intros f2 f1 ONE KEEP. induction T as [|ks T IH]; intros a g R ST IN; [exact R|].
  cbn [map fold_left]. cbn [segs_sorted] in ST. destruct ST as [S1 S2]. rewrite Forall_forall in S1.
  apply IH; [apply ONE; [exact R | apply IN; left; reflexivity] | exact S2 |].
  intros x0 Hx. apply KEEP; [apply IN; right; exact Hx |].
  intros E. specialize (S1 x0 Hx). unfold key in E. rewrite E, bcmp_refl in S1. discriminate.
Qed.

Lemma a_delete_sim : forall sel a g, RA a g -> RA (a_delete ts_del ts_drop sel a) (gst_delete ts_del ts_drop sel g).
Proof.
  intros sel a g R. unfold a_delete, gst_delete.
  rewrite (ra_index R), <- (filter_index (sel_matches sel)).
  apply (a_pass_sim (a_delete_one ts_del ts_drop) (gst_delete_series ts_del ts_drop)).
  - intros; apply a_delete_one_sim; assumption.
  - intros g0 ks x0 Hx N. unfold gst_delete_series.
    destruct (s_delete_before_unix max_time_unix (snd ks)) as [[seg' cbs] del]. cbn [g_segs].
    apply remove_in. split; [exact Hx | exact N].
  - exact R.
  - apply filter_sorted, (ra_sorted R).
  - intros ks Hi. apply filter_In in Hi. tauto.
Qed.

Lemma a_retention_sim : forall thr a g, RA a g -> RA (a_retention ts_del ts_drop thr a) (gst_retention ts_del ts_drop thr g).
Proof.
  intros thr a g R. unfold a_retention, gst_retention. rewrite (ra_index R).
  apply (a_pass_sim (a_retention_one ts_del ts_drop thr) (gst_retention_series ts_del ts_drop thr)).
  - intros; apply a_retention_one_sim; assumption.
  - intros g0 ks x0 Hx N. unfold gst_retention_series.
    destruct (s_delete_before_unix thr (snd ks)) as [[seg' cbs] del]. destruct del; cbn [g_segs].
    + apply remove_in. split; [exact Hx | exact N].
    + apply store_keeps; [exact Hx | exact N].
  - exact R.
  - apply (ra_sorted R).
  - auto.
Qed.

Theorem a_step_commutes : forall rt o a g, RA a g ->
  RA (fst (a_step ts_read ts_put ts_del ts_drop rt a o)) (fst (gst_step ts_read ts_put ts_del ts_drop rt g o)) /\
  snd (a_step ts_read ts_put ts_del ts_drop rt a o) = snd (gst_step ts_read ts_put ts_del ts_drop rt g o).
Proof.
  intros rt o a g R. destruct o as [pi|sel f u|sel|thr]; cbn [a_step gst_step].
  - destruct (a_put_sim rt pi a g R) as [R' E].
    destruct (a_put ts_read ts_put rt pi a) as [a' ok]. destruct (gst_put ts_read ts_put rt pi g) as [g' ok']. cbn in *. subst. auto.
  - destruct (a_get_sim sel f u a g R) as [R' E].
    destruct (a_get ts_read sel f u a) as [a' r]. destruct (gst_get ts_read sel f u g) as [g' r']. cbn in *. subst. auto.
  - split; [apply a_delete_sim; exact R | reflexivity].
  - split; [apply a_retention_sim; exact R | reflexivity].
Qed.

(* ---------- maintenance ---------- *)
Definition gsegs_rt (g : gstate) : Prop := forall ks, In ks (g_segs g) -> rt_ok (snd ks).

Lemma a_maint_sim : forall m a g, RA a g ->
  match m with
  | AMStore ms => RA (a_maint ts_maint m a) (gr_maint ts_maint ms g)
  | _ => gsegs_rt g -> RA (a_maint ts_maint m a) g
  end.
Proof.
  intros m a g R.
  assert (SEG : forall cm, is_maint_cop cm -> gsegs_rt g ->
            RA {| a_index := a_index a; a_segs := g_maint bdec sc_dflt sc_enc sc_dec cm (a_segs a); a_store := a_store a |} g).
  { intros cm Hcm RT. destruct (gmaint_spec bdec sc_dflt sc_enc sc_dec cm (a_segs a) Hcm (ra_wf R)) as [W' [sel V']].
    constructor; cbn [a_store a_index a_segs]; try apply R; auto.
    - intros ks Hi. rewrite V'. rewrite (ra_in R ks Hi). destruct (sel (key ks)); [apply (RT ks Hi) | reflexivity].
    - intros kb H. rewrite V'. rewrite (ra_out R kb H). destruct (sel kb); [apply rt_empty | reflexivity]. }
  destruct m as [ms|num den order|].
  - unfold a_maint, gr_maint. constructor; cbn [g_store g_segs a_store a_index a_segs]; try apply R.
    rewrite (ra_store R). reflexivity.
  - intros RT. apply (SEG (CEvict num den order) I RT).
  - intros RT. apply (SEG CFlushReopen I RT).
Qed.

Fixpoint gsegs_rt_at_maint (rt : option Z) (h : list (ahop (M:=M))) (g : gstate) : Prop :=
  match h with
  | [] => True
  | AO o :: r => gsegs_rt_at_maint rt r (fst (gst_step ts_read ts_put ts_del ts_drop rt g o))
  | AM (AMStore m) :: r => gsegs_rt_at_maint rt r (gr_maint ts_maint m g)
  | AM _ :: r => gsegs_rt g /\ gsegs_rt_at_maint rt r g
  end.

Theorem a_run_sim : forall rt h a g, RA a g -> gsegs_rt_at_maint rt h g ->
  snd (a_run ts_read ts_put ts_del ts_drop ts_maint rt h a) =
  snd (gr_run ts_read ts_put ts_del ts_drop ts_maint rt (agmap h) g).
Proof.
  induction h as [|x h IH]; intros a g R OK; [reflexivity|].
  destruct x as [o|m].
  - destruct (a_step_commutes rt o a g R) as [R' E]. cbn [gsegs_rt_at_maint] in OK.
    change (agmap (AO o :: h)) with (GO (M:=M) o :: agmap h). cbn [a_run gr_run].
    specialize (IH _ _ R' OK).
    destruct (a_step ts_read ts_put ts_del ts_drop rt a o) as [a1 out].
    destruct (gst_step ts_read ts_put ts_del ts_drop rt g o) as [g1 out']. cbn [fst snd] in *. subst out'.
    destruct (a_run ts_read ts_put ts_del ts_drop ts_maint rt h a1) as [a2 outs].
    destruct (gr_run ts_read ts_put ts_del ts_drop ts_maint rt (agmap h) g1) as [g2 outs']. cbn [snd] in *. congruence.
  - pose proof (a_maint_sim m a g R) as MS. destruct m as [ms|num den order|].
    + change (agmap (AM (AMStore ms) :: h)) with (GM ms :: agmap h). cbn [a_run gr_run gsegs_rt_at_maint] in *.
      apply IH; assumption.
    + change (agmap (AM (AMSegEvict num den order) :: h)) with (agmap h). cbn [a_run gsegs_rt_at_maint] in *.
      destruct OK as [RT OK]. apply IH; [apply MS; exact RT | exact OK].
    + change (agmap (AM AMSegFlushReopen :: h)) with (agmap h). cbn [a_run gsegs_rt_at_maint] in *.
      destruct OK as [RT OK]. apply IH; [apply MS; exact RT | exact OK].
Qed.

End AllProofs.

(* ---------- the instance: tree bytes + dictionaries cache + segments cache ---------- *)
Definition ghop_dhop (x : ghop (M:=dmaint)) : dhop := match x with GO o => DO o | GM m => DM m end.

Lemma agmap_admap : forall h, map ghop_dhop (agmap h) = admap h.
Proof.
  induction h as [|x h IH]; [reflexivity|]. unfold agmap, admap in *. cbn [flat_map]. rewrite map_app, IH.
  destruct x as [o|[m|n d order|]]; reflexivity.
Qed.

Lemma gr_run_d_run : forall cap rt l g,
  gr_run b_read b_put b_del b_drop (b_maint cap) rt l g = d_run cap rt (map ghop_dhop l) g.
Proof.
  induction l as [|x l IH]; intros g; [reflexivity|]. destruct x as [o|m]; cbn [map ghop_dhop gr_run d_run].
  - unfold dst_step. destruct (gst_step b_read b_put b_del b_drop rt g o) as [g1 out]. rewrite IH. reflexivity.
  - rewrite IH. f_equal.
Qed.

Lemma RA_init : RA all_init dst_init.
Proof. constructor; cbn; auto; try tauto. apply gcwf_empty. Qed.

Definition all_segs_ok (cap : nat) (rt : option Z) (h : list (ahop (M:=dmaint))) : Prop :=
  gsegs_rt_at_maint b_read b_put b_del b_drop (b_maint cap) rt h dst_init.

(* C02_refines_all_partial: trees (real bytes), dictionaries and segments all behind caches, maintenance of all three
   anywhere in one history; under the two side conditions (segments round-trip when their store is evicted; tree-b's
   flag `dok`) the outputs are those of tree-b's twin, of the first twin, and equivalent to st_run *)
Theorem all_refines : forall cap rt h,
  all_segs_ok cap rt h ->
  dok (fst (d_run cap rt (admap h) dst_init)) = true ->
  Forall ok_op (cstrip (dmap (admap h))) ->
  snd (all_run cap rt h all_init) = snd (d_run cap rt (admap h) dst_init) /\
  Forall2 out_equiv (snd (all_run cap rt h all_init)) (snd (st_run rt (cstrip (dmap (admap h))) st_init)).
Proof.
  intros cap rt h OK DOK HOK.
  assert (E : snd (all_run cap rt h all_init) = snd (d_run cap rt (admap h) dst_init)).
  { unfold all_run. etransitivity; [apply (a_run_sim b_read b_put b_del b_drop (b_maint cap) rt h all_init dst_init RA_init OK)|].
    rewrite gr_run_d_run, agmap_admap. reflexivity. }
  split; [exact E|]. rewrite E. exact (proj2 (refines_dict cap rt (admap h) DOK HOK)).
Qed.

(* ---------- non-vacuity: all three stores are evicted / flushed in one history ---------- *)
Definition exa_hist : list (ahop (M:=dmaint)) :=
  [ AO (OpPut (ex_up 1600000000 1600000020 [([97;59;98]%N, 3%N); ([97;59;99]%N, 5%N)]));
    AM (AMStore DClose);
    AM AMSegFlushReopen;
    AO (OpPut (ex_up 1600000010 1600000020 [([97;59;98]%N, 1%N); ([97;59;100;100]%N, 2%N)]));
    AM (AMStore (DEvictTrees 1 1 [(ex_key, 1%nat, 6373559680%Z); (ex_key, 0%nat, 6373559681%Z)]));
    AM (AMStore (DEvictDicts 1 1 [[102;111;111]%N]));
    AM (AMSegEvict 1 1 [ex_key]);
    AO (OpGet ex_sid 1600000000 1600000020) ].

Example all_refines_nonvacuous :
  all_segs_ok 1024 None exa_hist /\
  dok (fst (d_run 1024 None (admap exa_hist) dst_init)) = true /\
  Forall ok_op (cstrip (dmap (admap exa_hist))) /\
  (* before the query nothing is in memory in any of the three stores *)
  (let a := fst (all_run 1024 None (firstn 7 exa_hist) all_init) in
   c_lfu (a_segs a) = [] /\ b_lfu (a_store a) = [] /\ c_lfu (b_dicts (a_store a)) = []) /\
  match snd (all_run 1024 None exa_hist all_init) with
  | [OutPut true; OutPut true; OutGet (Some r)] => t_self_at [[97]%N; [98]%N] (go_tree r) = 3%N
  | _ => False
  end.
Proof.
  split; [|split; [vm_compute; reflexivity|split; [|split; [vm_compute; auto | vm_compute; reflexivity]]]].
  - unfold all_segs_ok, exa_hist. cbn [gsegs_rt_at_maint]. split; [|split; [|exact I]].
    + intros ks Hi. vm_compute in Hi. destruct Hi as [<-|[]]. vm_compute. reflexivity.
    + intros ks Hi. vm_compute in Hi. destruct Hi as [<-|[]]. vm_compute. reflexivity.
  - change (admap exa_hist) with exd_hist.
    destruct refines_dict_nonvacuous as (_ & _ & _ & _).
    unfold exd_hist. cbn [dmap flat_map dmap1 app cstrip].
    destruct storage_reload_nonvacuous as [H _]. unfold ex_pops in H.
    inversion H as [|? ? H1 H2]; subst.
    repeat constructor; try exact H1.
Qed.
