(* SegmentProofs.v — basic lemmas about Model/Segment.v: the five-way classification, slot counts. *)
From Pyro Require Import Model.Base Model.Float53 Model.Segment.
From Coq Require Import ZifyBool.
Local Open Scope Z_scope.

(* rel_spec: for a non-empty node [t1,t2) and a non-empty range [st,et) the classification is exactly
   the set-theoretic relation between the two intervals *)
Lemma rel_spec t1 t2 st et : t1 < t2 -> st < et ->
  match relationship t1 t2 st et with
  | Match => t1 = st /\ t2 = et
  | Inside => t1 <= st /\ et <= t2 /\ ~ (t1 = st /\ t2 = et)          (* range properly inside the node *)
  | Contain => st <= t1 /\ t2 <= et /\ ~ (t1 = st /\ t2 = et)         (* node properly inside the range *)
  | Outside => t2 <= st \/ et <= t1                                   (* disjoint *)
  | Overlap => (t1 < st /\ st < t2 /\ t2 < et) \/ (st < t1 /\ t1 < et /\ et < t2)   (* properly cut *)
  end.
Proof.
  intros H1 H2. unfold relationship.
  destruct (t1 =? st) eqn:E1, (t2 =? et) eqn:E2, (t1 <=? st) eqn:E3, (et <=? t2) eqn:E4,
           (st <=? t1) eqn:E5, (t2 <=? et) eqn:E6, (t2 <=? st) eqn:E7, (et <=? t1) eqn:E8; cbn; lia.
Qed.

Lemma ov_nonneg t1 t2 st et : 0 <= ov t1 t2 st et.
Proof. unfold ov. lia. Qed.
