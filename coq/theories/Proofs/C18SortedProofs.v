(* C18SortedProofs.v — sort.Search (binary search) is correct on monotone predicates; trieNode.insert puts a child
   with a fresh first byte at its sorted place; findNodeAt / Insert keep the children of every node sorted. *)
From Pyro Require Import Model.Base Model.Varint Model.TTrie Proofs.TTrieProofs.
From Coq Require Import ZifyN ZifyNat ZifyBool Sorting.Sorted Permutation.
Ltac Zify.zify_post_hook ::= Z.div_mod_to_equations.

Local Open Scope N_scope.

(* ---- sort.Search ---- *)
Lemma div2_bounds i j : (i < j)%nat -> (i <= Nat.div2 (i + j) < j)%nat.
Proof. intros H. rewrite Nat.div2_div. split; [apply Nat.div_le_lower_bound|apply Nat.div_lt_upper_bound]; lia. Qed.

Lemma go_search_spec f : forall fuel i j, (i <= j)%nat -> (j - i <= fuel)%nat ->
  (forall a b, (a <= b < j)%nat -> f a = true -> f b = true) ->
  let r := go_search fuel f i j in
  (i <= r <= j)%nat /\ (forall h, (i <= h < r)%nat -> f h = false) /\ (forall h, (r <= h < j)%nat -> f h = true).
Proof.
  induction fuel as [|fu IH]; intros i j Hij Hf Hm; cbn [go_search].
  - assert (i = j) by lia. subst. repeat split; try lia; intros; lia.
  - destruct (Nat.ltb_spec i j) as [Hlt|Hge].
    + pose proof (div2_bounds i j Hlt) as Hb. set (h := Nat.div2 (i + j)) in *.
      destruct (f h) eqn:Eh.
      * destruct (IH i h) as (A & B & C); [lia|lia|intros a b Hab; apply Hm; lia|].
        cbn zeta in *. repeat split; try lia; [exact B|].
        intros h' Hh'. destruct (Nat.lt_ge_cases h' h); [apply C; lia|]. apply (Hm h h'); [lia|exact Eh].
      * destruct (IH (S h) j) as (A & B & C); [lia|lia|exact Hm|].
        cbn zeta in *. repeat split; try lia; [|exact C].
        intros h' Hh'. destruct (Nat.lt_ge_cases h h'); [apply B; lia|].
        destruct (f h') eqn:E; [|reflexivity]. rewrite (Hm h' h) in Eh; [discriminate|lia|exact E].
    + assert (i = j) by lia. subst. repeat split; try lia; intros; lia.
Qed.

(* ---- sorted children ---- *)
Definition olt (a b : option byte) : Prop := match a, b with Some x, Some y => x < y | _, _ => False end.
Definition chs_sorted (ch : list ttnode) : Prop := ~ In None (fbs ch) /\ StronglySorted olt (fbs ch).

Lemma olt_trans : Relations_1.Transitive olt.
Proof. intros [a|] [b|] [c|]; cbn; try tauto. lia. Qed.

Lemma first_byte_name c x nm : tt_name c = x :: nm -> first_byte c = Some x.
Proof. intros E. unfold first_byte. now rewrite E. Qed.
Lemma first_byte_nil c : tt_name c = [] -> first_byte c = None.
Proof. intros E. unfold first_byte. now rewrite E. Qed.

Lemma fb_sorted_spec ch : fb_sorted ch = true <-> chs_sorted ch.
Proof.
  unfold chs_sorted. split.
  - intros H. assert (G : ~ In None (fbs ch) /\ Sorted olt (fbs ch)); [|destruct G; split; [assumption|now apply Sorted_StronglySorted; [apply olt_trans|]]].
    induction ch as [|c ch IH]; [split; [cbn; tauto|constructor]|].
    cbn [fb_sorted] in H. destruct (tt_name c) as [|x nm] eqn:En; [discriminate|].
    apply andb_true_iff in H. destruct H as [Hh Ht]. destruct (IH Ht) as [I1 I2].
    cbn [fbs map]. fold (fbs ch). rewrite (first_byte_name _ _ _ En).
    split; [intros [E|E]; [discriminate|contradiction]|].
    constructor; [exact I2|]. destruct ch as [|c' ch']; [constructor|]. cbn [fbs map].
    destruct (tt_name c') as [|y nm'] eqn:En'; [discriminate|]. rewrite (first_byte_name _ _ _ En').
    constructor. cbn. lia.
  - intros [Hn Hs]. apply StronglySorted_Sorted in Hs.
    induction ch as [|c ch IH]; [reflexivity|].
    cbn [fb_sorted]. cbn [fbs map] in Hn, Hs. fold (fbs ch) in Hn, Hs.
    destruct (tt_name c) as [|x nm] eqn:En; [exfalso; apply Hn; left; now apply first_byte_nil|].
    rewrite (first_byte_name _ _ _ En) in Hs.
    inversion Hs as [|? ? Hs' Hhd]; subst. apply andb_true_iff. split.
    + destruct ch as [|c' ch']; [reflexivity|]. cbn [fbs map] in Hhd.
      destruct (tt_name c') as [|y nm'] eqn:En'.
      * rewrite (first_byte_nil _ En') in Hhd. inversion Hhd as [|? ? Ho]; subst. destruct Ho.
      * rewrite (first_byte_name _ _ _ En') in Hhd. inversion Hhd as [|? ? Ho]; subst. cbn in Ho. lia.
    + apply IH; [intros E; apply Hn; now right|exact Hs'].
Qed.

Definition tt_sorted (t : ttnode) : Prop := tt_sortedb t = true.

Lemma tt_sorted_unfold n v ch : tt_sorted (TT n v ch) <-> chs_sorted ch /\ Forall tt_sorted ch.
Proof.
  unfold tt_sorted at 1. cbn [tt_sortedb]. rewrite andb_true_iff, fb_sorted_spec, forallb_forall, Forall_forall. reflexivity.
Qed.

Lemma StronglySorted_app_inv {A} (R : A -> A -> Prop) l1 l2 :
  StronglySorted R (l1 ++ l2) -> StronglySorted R l1 /\ StronglySorted R l2 /\ forall a b, In a l1 -> In b l2 -> R a b.
Proof.
  induction l1 as [|x l1 IH]; cbn; intros H; [repeat split; [constructor|exact H|tauto]|].
  inversion H as [|? ? Hs Hf]; subst. destruct (IH Hs) as (A1 & A2 & A3). rewrite Forall_app in Hf. destruct Hf as [F1 F2].
  repeat split; [constructor; assumption|exact A2|]. intros a b [<-|Ha] Hb; [rewrite Forall_forall in F2; auto|auto].
Qed.

Lemma StronglySorted_insert {A} (R : A -> A -> Prop) l1 x l2 :
  StronglySorted R (l1 ++ l2) -> (forall a, In a l1 -> R a x) -> (forall b, In b l2 -> R x b) ->
  StronglySorted R (l1 ++ x :: l2).
Proof.
  induction l1 as [|y l1 IH]; cbn; intros H H1 H2.
  - constructor; [exact H|]. now apply Forall_forall.
  - inversion H as [|? ? Hs Hf]; subst. constructor; [apply IH; auto|].
    rewrite Forall_app in *. destruct Hf as [F1 F2]. split; [exact F1|]. constructor; [apply H1; now left|exact F2].
Qed.

Lemma sorted_replace l1 c l2 x' : first_byte x' = first_byte c -> chs_sorted (l1 ++ c :: l2) -> chs_sorted (l1 ++ x' :: l2).
Proof. intros E. unfold chs_sorted. rewrite !fbs_app. cbn [fbs map]. now rewrite E. Qed.

(* nth_error through firstn / skipn *)
Lemma nth_error_firstn_some {A} (l : list A) : forall r h c, nth_error (firstn r l) h = Some c -> nth_error l h = Some c /\ (h < r)%nat.
Proof.
  induction l as [|x l IH]; intros [|r] [|h] c H; cbn in *; try discriminate.
  - split; [exact H|lia].
  - destruct (IH r h c H). split; [assumption|lia].
Qed.

Lemma nth_error_skipn_eq {A} (l : list A) : forall r h, nth_error (skipn r l) h = nth_error l (r + h).
Proof. induction l as [|x l IH]; intros [|r] h; cbn; try reflexivity; [now destruct h|apply IH]. Qed.

(* bytes.Compare against a key with another first byte is decided by the first bytes *)
Lemma bltb_first x nm k0 key' : x <> k0 -> bltb (x :: nm) (k0 :: key') = (x <? k0).
Proof.
  intros H. unfold bltb. cbn [bcmp]. destruct (N.compare_spec x k0); [contradiction| |];
    destruct (N.ltb_spec x k0); try reflexivity; lia.
Qed.

Lemma sorted_nth_lt ch : chs_sorted ch -> forall a b ca cb x y, (a < b)%nat ->
  nth_error ch a = Some ca -> nth_error ch b = Some cb -> first_byte ca = Some x -> first_byte cb = Some y -> x < y.
Proof.
  intros [_ Hs]. induction ch as [|c ch IH]; intros a b ca cb x y Hab Ha Hb Hx Hy; [destruct a; discriminate|].
  cbn [fbs map] in Hs. inversion Hs as [|? ? Hs' Hf]; subst.
  destruct b as [|b]; [lia|]. cbn in Hb. destruct a as [|a].
  - cbn in Ha. inversion Ha; subst. rewrite Forall_forall in Hf.
    assert (In (first_byte cb) (fbs ch)) by (apply in_map; eapply nth_error_In; eauto).
    specialize (Hf _ H). rewrite Hx, Hy in Hf. exact Hf.
  - cbn in Ha. apply (IH Hs' a b ca cb x y); try assumption. lia.
Qed.

(* trieNode.insert of a child whose first byte is new among the siblings keeps them sorted *)
Lemma ch_insert_sorted k0 key' x ch :
  first_byte x = Some k0 -> chs_sorted ch -> ~ In (Some k0) (fbs ch) ->
  chs_sorted (ch_insert_named (k0 :: key') x ch).
Proof.
  intros Hx Hs Hnin. pose proof Hs as [Hn Hss].
  unfold ch_insert_named, ch_insert_at, ch_pos, sort_search.
  set (f := fun i => match nth_error ch i with Some c => negb (bltb (tt_name c) (k0 :: key')) | None => true end).
  (* what f says about the child at position i *)
  assert (Hf : forall i c y, nth_error ch i = Some c -> first_byte c = Some y -> f i = (k0 <? y)).
  { intros i c y Hi Hy. unfold f. rewrite Hi.
    assert (y <> k0).
    { intros ->. apply Hnin. rewrite <- Hy. apply in_map. eapply nth_error_In; eauto. }
    pose proof Hy as Hy'. unfold first_byte in Hy'. destruct (tt_name c) as [|y' nm] eqn:En; [discriminate|].
    inversion Hy'; subst y'.
    rewrite bltb_first by assumption. destruct (N.ltb_spec y k0), (N.ltb_spec k0 y); cbn; try reflexivity; lia. }
  assert (Hfb : forall i c, nth_error ch i = Some c -> exists y, first_byte c = Some y).
  { intros i c Hi. destruct (first_byte c) eqn:E; [eauto|]. exfalso. apply Hn. rewrite <- E. apply in_map. eapply nth_error_In; eauto. }
  destruct (go_search_spec f (S (length ch)) 0 (length ch)) as (R1 & R2 & R3); [lia|lia| |].
  { intros a b Hab Fa. destruct (nth_error ch a) as [ca|] eqn:Ea; [|apply nth_error_None in Ea; lia].
    destruct (nth_error ch b) as [cb|] eqn:Eb; [|apply nth_error_None in Eb; lia].
    destruct (Hfb _ _ Ea) as [xa Hxa]. destruct (Hfb _ _ Eb) as [xb Hxb].
    rewrite (Hf _ _ _ Ea Hxa) in Fa. rewrite (Hf _ _ _ Eb Hxb).
    destruct (Nat.eq_dec a b) as [->|]; [congruence|].
    pose proof (sorted_nth_lt ch Hs a b ca cb xa xb ltac:(lia) Ea Eb Hxa Hxb). lia. }
  set (r := go_search (S (length ch)) f 0 (length ch)) in *.
  split.
  - rewrite fbs_app. cbn [fbs map]. rewrite Hx. intros Hin. apply in_app_or in Hin.
    apply Hn. rewrite <- (firstn_skipn r ch), fbs_app. apply in_or_app.
    destruct Hin as [H|[H|H]]; [now left|discriminate|now right].
  - rewrite fbs_app. cbn [fbs map]. rewrite Hx. apply StronglySorted_insert.
    + rewrite <- fbs_app, firstn_skipn. exact Hss.
    + intros a Ha. unfold fbs in Ha. apply in_map_iff in Ha. destruct Ha as (c & <- & Hc).
      apply In_nth_error in Hc. destruct Hc as [h Hh]. apply nth_error_firstn_some in Hh. destruct Hh as [Hh Hlt].
      destruct (Hfb _ _ Hh) as [y Hy]. rewrite Hy. cbn.
      pose proof (R2 h ltac:(lia)) as F. rewrite (Hf _ _ _ Hh Hy) in F.
      assert (y <> k0). { intros ->. apply Hnin. rewrite <- Hy. apply in_map. eapply nth_error_In; eauto. }
      lia.
    + intros b Hb. unfold fbs in Hb. apply in_map_iff in Hb. destruct Hb as (c & <- & Hc).
      apply In_nth_error in Hc. destruct Hc as [h Hh]. rewrite nth_error_skipn_eq in Hh.
      destruct (Hfb _ _ Hh) as [y Hy]. rewrite Hy. cbn.
      assert (Hlen : (r + h < length ch)%nat) by (apply nth_error_Some; congruence).
      pose proof (R3 (r + h)%nat ltac:(lia)) as F. rewrite (Hf _ _ _ Hh Hy) in F. lia.
Qed.

(* ---- findNodeAt keeps every node's children sorted ---- *)
Lemma find_node_at_sorted : forall fuel key f tn,
  (length key < fuel)%nat -> tt_sorted tn ->
  (forall d, tt_sorted d -> tt_sorted (f d) /\ tt_name (f d) = tt_name d) ->
  tt_sorted (tt_find_node_at_fuel fuel key f tn) /\ tt_name (tt_find_node_at_fuel fuel key f tn) = tt_name tn.
Proof.
  induction fuel as [|fuel IH]; intros key f tn Hfuel Hs Hf; [lia|].
  destruct key as [|k0 key']; [cbn; now apply Hf|].
  cbn [tt_find_node_at_fuel]. destruct tn as [n v ch].
  pose proof Hs as Hs0. apply tt_sorted_unfold in Hs. destruct Hs as [Hch Hall].
  destruct (lead_split k0 ch) as [[[l1 c] l2]|] eqn:EL.
  - apply lead_split_some in EL. destruct EL as [-> Hc]. destruct c as [lk cv cch].
    assert (Hwc : tt_sorted (TT lk cv cch)).
    { apply Forall_app in Hall. destruct Hall as [_ H2]. now inversion H2. }
    assert (Hlk : exists lk', lk = k0 :: lk').
    { unfold first_byte in Hc. cbn in Hc. destruct lk; [discriminate|]. inversion Hc. eauto. }
    destruct Hlk as [lk' ->].
    (* in every sub-case the lead child is replaced by a sorted node starting with the same byte *)
    assert (Hrep : forall x', tt_sorted x' -> first_byte x' = Some k0 ->
                   tt_sorted (TT n v (l1 ++ x' :: l2)) /\ tt_name (TT n v (l1 ++ x' :: l2)) = n).
    { intros x' Hx1 Hx2. split; [|reflexivity]. apply tt_sorted_unfold. split.
      - eapply sorted_replace; [|exact Hch]. now rewrite Hx2, Hc.
      - apply Forall_app in Hall. destruct Hall as [A1 A2]. inversion A2; subst.
        apply Forall_app. split; [assumption|]. constructor; assumption. }
    pose proof (key_cmp_spec (k0 :: key') (k0 :: lk')) as Hcmp.
    assert (Hsingle : forall a b, a <> [] -> b <> [] -> tt_sorted (TT a 0 [TT b cv cch])).
    { intros a b Ha Hb. apply tt_sorted_unfold. split; [|constructor; [|constructor]].
      - unfold chs_sorted. cbn. unfold first_byte. cbn. destruct b; [congruence|].
        split; [intros [H|H]; [discriminate|contradiction]|constructor; constructor].
      - apply tt_sorted_unfold in Hwc. apply tt_sorted_unfold. exact Hwc. }
    destruct (key_cmp (k0 :: key') (k0 :: lk')) as [|rest|a b kr|b] eqn:EC.
    + destruct (Hf _ Hwc) as [H1 H2]. cbn [tt_name] in H2. apply Hrep; [exact H1|unfold first_byte; now rewrite H2].
    + destruct Hcmp as [Hk Hr].
      destruct (IH rest f (TT (k0 :: lk') cv cch)) as [I1 I2]; try assumption.
      { apply (f_equal (@length _)) in Hk. rewrite app_length in Hk. cbn in Hk, Hfuel. lia. }
      cbn [tt_name] in I2. apply Hrep; [exact I1|unfold first_byte; now rewrite I2].
    + destruct Hcmp as (Hlk & Hk & Hh).
      assert (Ha : exists a', a = k0 :: a').
      { destruct a as [|a0 a']; [|cbn in Hk; inversion Hk; eauto]. cbn in Hlk, Hk. subst b kr. cbn in Hh. congruence. }
      destruct Ha as [a' ->]. assert (Hb : b <> []) by (destruct b; [destruct Hh|discriminate]).
      destruct (IH kr f (TT (k0 :: a') 0 [TT b cv cch])) as [I1 I2]; try assumption.
      { apply (f_equal (@length _)) in Hk. rewrite app_length in Hk. cbn in Hk, Hfuel. lia. }
      { apply Hsingle; [discriminate|exact Hb]. }
      cbn [tt_name] in I2. apply Hrep; [exact I1|unfold first_byte; now rewrite I2].
    + destruct Hcmp as [Hlk Hb].
      assert (Hfn : tt_find_node_at_fuel fuel [] f (TT (k0 :: key') 0 [TT b cv cch]) = f (TT (k0 :: key') 0 [TT b cv cch]))
        by (destruct fuel; reflexivity).
      rewrite Hfn. destruct (Hf (TT (k0 :: key') 0 [TT b cv cch])) as [H1 H2]; [apply Hsingle; [discriminate|exact Hb]|].
      cbn [tt_name] in H2. apply Hrep; [exact H1|unfold first_byte; now rewrite H2].
  - apply lead_split_none in EL.
    destruct (Hf (tt_new (k0 :: key'))) as [H1 H2]; [reflexivity|]. cbn [tt_name tt_new] in H2.
    split; [|reflexivity]. apply tt_sorted_unfold. split.
    + apply ch_insert_sorted; [unfold first_byte; now rewrite H2|exact Hch|exact EL].
    + unfold ch_insert_named, ch_insert_at. rewrite <- (firstn_skipn (ch_pos (k0 :: key') ch) ch) in Hall.
      apply Forall_app in Hall. destruct Hall as [A1 A2]. apply Forall_app. split; [exact A1|]. constructor; assumption.
Qed.

Theorem tt_insert_sorted key v merge t : tt_sorted t -> tt_sorted (tt_insert key v merge t).
Proof.
  intros H. unfold tt_insert, tt_find_node_at. apply find_node_at_sorted; [lia|exact H|].
  intros d Hd. destruct merge, d; split; try reflexivity; exact Hd.
Qed.

Theorem tt_of_multiset_sorted ms : tt_sorted (tt_of_multiset ms).
Proof.
  unfold tt_of_multiset. assert (H : tt_sorted tt_empty) by reflexivity. revert H. generalize tt_empty.
  induction ms as [|kv ms IH]; intros t H; [exact H|]. cbn [fold_left]. apply IH. now apply tt_insert_sorted.
Qed.

(* sorted children have distinct first bytes: sorted tries are well formed *)
Lemma chs_sorted_nodup ch : chs_sorted ch -> NoDup (fbs ch).
Proof.
  intros [_ H]. induction H as [|a l Hs IH Hf]; constructor; [|exact IH].
  intros Hin. rewrite Forall_forall in Hf. specialize (Hf a Hin). destruct a; cbn in Hf; [lia|exact Hf].
Qed.

Theorem tt_sorted_wf t : tt_sorted t -> tt_wf t.
Proof.
  induction t as [n v ch IH] using ttnode_ind'. intros H. apply tt_sorted_unfold in H. destruct H as [Hc Hall].
  apply tt_wf_unfold. split; [split; [apply Hc|now apply chs_sorted_nodup]|].
  rewrite Forall_forall in *. auto.
Qed.

(* ---------------------------------------------------------------------------------------------- *)
(* exact round trip for sorted tries: Deserialize re-inserts every child at the end of its parent's list *)
From Pyro Require Import Proofs.VarintProofs.

Lemma chs_sorted_ext a b : fbs a = fbs b -> chs_sorted a -> chs_sorted b.
Proof. unfold chs_sorted. now intros ->. Qed.

Lemma ch_insert_end x acc : chs_sorted (acc ++ [x]) -> ch_insert x acc = acc ++ [x].
Proof.
  intros Hs. pose proof Hs as [Hn Hss]. rewrite fbs_app in Hn, Hss. cbn [fbs map] in Hn, Hss.
  destruct (tt_name x) as [|k0 key'] eqn:En; [exfalso; apply Hn, in_or_app; right; left; now apply first_byte_nil|].
  pose proof (first_byte_name _ _ _ En) as Hx. rewrite Hx in Hss.
  apply StronglySorted_app_inv in Hss. destruct Hss as (_ & _ & Hlt).
  unfold ch_insert, ch_insert_named, ch_insert_at, ch_pos, sort_search. rewrite En.
  set (f := fun i => match nth_error acc i with Some c => negb (bltb (tt_name c) (k0 :: key')) | None => true end).
  assert (Hf : forall i, (i < length acc)%nat -> f i = false).
  { intros i Hi. unfold f. destruct (nth_error acc i) as [c|] eqn:E; [|apply nth_error_None in E; lia].
    assert (Hin : In (first_byte c) (fbs acc)) by (apply in_map; eapply nth_error_In; eauto).
    specialize (Hlt _ (Some k0) Hin (or_introl eq_refl)).
    destruct (tt_name c) as [|y nm] eqn:Ec; [rewrite (first_byte_nil _ Ec) in Hlt; destruct Hlt|].
    rewrite (first_byte_name _ _ _ Ec) in Hlt. cbn in Hlt. rewrite bltb_first by lia.
    destruct (N.ltb_spec y k0); [reflexivity|lia]. }
  destruct (go_search_spec f (S (length acc)) 0 (length acc)) as (R1 & R2 & R3); [lia|lia| |].
  { intros a b Hab Fa. rewrite Hf in Fa by lia. discriminate. }
  set (r := go_search (S (length acc)) f 0 (length acc)) in *.
  assert (r = length acc).
  { destruct (Nat.eq_dec r (length acc)); [assumption|]. pose proof (R3 r ltac:(lia)) as T. rewrite Hf in T by lia. discriminate. }
  rewrite H, firstn_all, skipn_all. reflexivity.
Qed.

Definition parses_exact (m d : N) (f : nat) (c : ttnode) : Prop :=
  forall rest, (length (tt_serialize m d c) < f)%nat -> tt_sorted c -> tt_fitsb m d c = true ->
    tt_parse f (tt_serialize m d c ++ rest) = Some (tt_map_values (tt_scale_val m d) c, rest).

Lemma parse_kids_exact m d f : forall cs acc rest,
  Forall (parses_exact m d f) cs -> Forall tt_sorted cs -> Forall (fun c => tt_fitsb m d c = true) cs ->
  (forall c, In c cs -> (length (tt_serialize m d c) < f)%nat) ->
  chs_sorted (acc ++ cs) ->
  parse_kids f (length cs) acc (flat_map (tt_serialize m d) cs ++ rest) =
  Some (acc ++ map (tt_map_values (tt_scale_val m d)) cs, rest).
Proof.
  induction cs as [|c cs IH]; intros acc rest HP Hs Hfit Hlen Hsort.
  - cbn. now rewrite app_nil_r.
  - inversion HP as [|? ? HPc HPcs]; subst. inversion Hs as [|? ? Hsc Hscs]; subst. inversion Hfit as [|? ? Hfc Hfcs]; subst.
    cbn [flat_map length parse_kids]. rewrite <- app_assoc.
    rewrite (HPc _ (Hlen c (or_introl eq_refl)) Hsc Hfc).
    set (c' := tt_map_values (tt_scale_val m d) c).
    assert (Hfb : first_byte c' = first_byte c) by (unfold first_byte, c'; now rewrite tt_map_values_name).
    rewrite ch_insert_end.
    + rewrite IH; try assumption.
      * cbn [map]. now rewrite <- app_assoc.
      * intros x Hx. apply Hlen. now right.
      * eapply chs_sorted_ext; [|exact Hsort]. rewrite <- app_assoc. cbn [app]. rewrite !fbs_app. cbn [fbs map]. now rewrite Hfb.
    + destruct Hsort as [Hn Hss]. rewrite fbs_app in Hn, Hss. cbn [fbs map] in Hn, Hss. fold (fbs cs) in Hn, Hss.
      split; rewrite fbs_app; cbn [fbs map]; rewrite Hfb.
      * intros H. apply Hn. apply in_app_or in H. apply in_or_app. destruct H as [H|[H|[]]]; [now left|right; now left].
      * change (first_byte c :: fbs cs) with ([first_byte c] ++ fbs cs) in Hss. rewrite app_assoc in Hss.
        now apply StronglySorted_app_inv in Hss.
Qed.

Lemma tt_parse_serialize_exact m d t : forall f, parses_exact m d f t.
Proof.
  induction t as [n v ch IH] using ttnode_ind'. intros f rest Hlen Hs Hfit.
  destruct f as [|f]; [lia|].
  apply tt_fitsb_unfold in Hfit. destruct Hfit as (F1 & F2 & F3 & F4).
  apply tt_sorted_unfold in Hs. destruct Hs as [Hc Hall].
  rewrite tt_serialize_eq in *. rewrite !app_length in Hlen.
  rewrite <- !app_assoc. rewrite tt_parse_S.
  rewrite uvarint_roundtrip by exact F1.
  replace (Nlen (n ++ _) <? Nlen n) with false
    by (symmetry; apply N.ltb_ge; unfold Nlen; rewrite app_length; lia).
  replace (N.to_nat (Nlen n)) with (length n) by (unfold Nlen; now rewrite Nat2N.id).
  rewrite take_bytes_app.
  rewrite uvarint_roundtrip by exact F2.
  rewrite uvarint_roundtrip by exact F3.
  replace (Nlen (flat_map _ ch ++ rest) <? Nlen ch) with false
    by (symmetry; apply N.ltb_ge; unfold Nlen; rewrite app_length; pose proof (flat_map_ser_len m d ch); lia).
  replace (N.to_nat (Nlen ch)) with (length ch) by (unfold Nlen; now rewrite Nat2N.id).
  rewrite (parse_kids_exact m d f ch [] rest); try assumption; [reflexivity| |].
  - rewrite Forall_forall in *. intros c Hc0. apply IH, Hc0.
  - intros c Hc0. pose proof (child_ser_len m d c ch Hc0).
    pose proof (uvarint_enc_len (Nlen n)). pose proof (uvarint_enc_len (tt_scale_val m d v)).
    pose proof (uvarint_enc_len (Nlen ch)). lia.
Qed.

Lemma tt_map_values_id t : tt_map_values (tt_scale_val 1 1) t = t.
Proof.
  induction t as [n v ch IH] using ttnode_ind'. cbn [tt_map_values]. f_equal.
  rewrite <- (map_id ch) at 2. apply map_ext_in. rewrite Forall_forall in IH. exact IH.
Qed.

(* Deserialize (Serialize t) is t itself, scaled: structure, order and therefore the Iterate sequence *)
Theorem tt_roundtrip_exact m d t : tt_sorted t -> tt_fitsb m d t = true ->
  tt_deserialize (tt_serialize m d t) = Some (tt_map_values (tt_scale_val m d) t).
Proof.
  intros Hs Hfit. unfold tt_deserialize.
  pose proof (tt_parse_serialize_exact m d t (S (length (tt_serialize m d t))) [] ltac:(lia) Hs Hfit) as H.
  rewrite app_nil_r in H. now rewrite H.
Qed.

Theorem ttrie_roundtrip_iterate : forall ms, tt_fitsb 1 1 (tt_of_multiset ms) = true ->
  option_map tt_iterate (tt_deserialize (tt_serialize 1 1 (tt_of_multiset ms))) = Some (tt_iterate (tt_of_multiset ms)).
Proof.
  intros ms Hfit. rewrite tt_roundtrip_exact by (assumption || apply tt_of_multiset_sorted).
  cbn [option_map]. now rewrite tt_map_values_id.
Qed.
