(* C08Multi.v — C08's own quantifier: N writers each owning its series, M readers, tasks; several series at once.
   The instrumented fine model tracks ONE series s at a time (Model/ConcData.v: the segment tree of s and the profile
   trees that belong to s); the fine schedule and the configuration do not depend on which series is tracked, so the
   statements below hold for every series s simultaneously.
   - threads of any series satisfy the writer discipline of EVERY series s: their own series' by C08Full, any other
     series' because they write none of its locations (frame property, [foreign_put_writes_nothing]);
   - a render of series s among threads of all series observes exactly a duplicate-free prefix S of the section order
     of the writers OF s ([atomic_read_multi]);
   - a selector render takes ONE read section PER matching series (Storage.Get: one GetWithTimeline per segment, in
     the loop over the segment keys): each series' part of the answer is atomic, the answer as a whole is NOT a
     cross-series snapshot ([selector_not_a_snapshot]);
   - once every thread has finished, every series holds exactly its writers, each whole ([quiescent_sum_multi]). *)
From Pyro Require Import Model.Base Model.Conc Model.ConcData Proofs.ConcProofs Proofs.C08Reduction Proofs.C08Full.
From Coq Require Import Lia Arith.
Open Scope nat_scope.

Ltac side_tac := solve [ cbn; rewrite ?Nat.eqb_refl, ?andb_false_r, ?andb_true_r, ?orb_true_r; cbn; reflexivity ].

(* the trees a Put merges into belong to its own series *)
Definition owns (sj : nat) (cbs : list (nat * list nat * bool)) : bool :=
  forallb (fun cb => Nat.eqb (tree_series (fst (fst cb))) sj) cbs.

(* ---- frame: a writer of another series -------------------------------------------------------------------------------- *)
Lemma foreign_callbacks_wn : forall s sj h cbs,
  sj <> s -> owns sj cbs = true ->
  wn s false h (flat_map (fun cb : nat * list nat * bool => put_callback (fst (fst cb)) (snd (fst cb)) (snd cb)) cbs).
Proof.
  intros s sj h cbs Hne Ho. induction cbs as [|[[t addons] miss] cbs IH]; [apply wn_nil|].
  cbn [owns forallb fst snd] in Ho. apply andb_true_iff in Ho as [Ht Ho]. apply Nat.eqb_eq in Ht.
  cbn [flat_map fst snd]. apply wn_app; [|apply IH; exact Ho].
  assert (Hq : is_twrite s (Acc (LocTree t) true) = false).
  { cbn [is_twrite tracked]. rewrite Ht. apply Nat.eqb_neq. exact Hne. }
  unfold put_callback.
  repeat first
    [ apply wn_nil
    | apply wn_locked; [side_tac|]
    | apply wn_acc_quiet; [first [side_tac | exact Hq] |]
    | apply wn_flat_map; intro
    | apply wn_app
    | match goal with |- wn _ _ _ (if ?b then _ else _) => destruct b end
    | match goal with |- wn _ _ _ (?f _ _ _) => unfold f | |- wn _ _ _ (?f _ _) => unfold f | |- wn _ _ _ (?f _) => unfold f
                    | |- wn _ _ _ ?f => unfold f end ].
Qed.

Theorem foreign_put_wdisc : forall s sj ds cbs,
  sj <> s -> owns sj cbs = true -> wdisc s false [] (put_thread sj ds cbs) = true.
Proof.
  intros s sj ds cbs Hne Ho. apply wn_wdisc. unfold put_thread.
  assert (Hq : is_twrite s (Acc (LocSegTree sj) true) = false).
  { cbn. apply Nat.eqb_neq. exact Hne. }
  pose proof (fun h => foreign_callbacks_wn s sj h cbs Hne Ho) as CB.
  repeat first
    [ apply wn_nil
    | apply CB
    | apply wn_locked; [side_tac|]
    | apply wn_acc_quiet; [first [side_tac | exact Hq] |]
    | apply wn_flat_map; intro
    | apply wn_app
    | match goal with |- wn _ _ _ (?f _ _ _) => unfold f | |- wn _ _ _ (?f _ _) => unfold f | |- wn _ _ _ (?f _) => unfold f
                    | |- wn _ _ _ ?f => unfold f end ].
Qed.

Theorem foreign_delete_wdisc : forall s sj ds ts,
  sj <> s -> wdisc s false [] (delete_thread sj ds ts) = true.
Proof.
  intros s sj ds ts Hne. apply wn_wdisc. unfold delete_thread.
  assert (Hq : is_twrite s (Acc (LocSegTree sj) true) = false).
  { cbn. apply Nat.eqb_neq. exact Hne. }
  repeat first
    [ apply wn_nil
    | apply wn_locked; [side_tac|]
    | apply wn_acc_quiet; [first [side_tac | exact Hq] |]
    | apply wn_flat_map; intro
    | apply wn_app
    | match goal with |- wn _ _ _ (?f _ _ _) => unfold f | |- wn _ _ _ (?f _ _) => unfold f | |- wn _ _ _ (?f _) => unfold f
                    | |- wn _ _ _ ?f => unfold f end ].
Qed.

(* ---- the threads of all series ---------------------------------------------------------------------------------------------- *)
Inductive mthread : thread -> Prop :=
| mt_put : forall sj ds cbs, owns sj cbs = true -> mthread (put_thread sj ds cbs)
| mt_get : forall sj ds ts, mthread (get_thread sj ds ts)
| mt_delete : forall sj ds ts, mthread (delete_thread sj ds ts)
| mt_writeback : forall c, mthread (writeback_task c)
| mt_evict_dims : forall d, mthread (evict_task CDims (save_dimension d))
| mt_evict_segs : forall sg, mthread (evict_task CSegs (save_segment sg))
| mt_evict_dicts : forall a, mthread (evict_task CDicts (save_dict a))
| mt_evict_trees : forall t a, mthread (evict_task CTrees (save_tree t a))
| mt_save_dim : forall d, mthread (save_dimension d)
| mt_save_seg : forall sg, mthread (save_segment sg)
| mt_save_dict : forall a, mthread (save_dict a)
| mt_save_tree : forall t a, mthread (save_tree t a).

Lemma mthread_table : forall t, mthread t -> table_thread t.
Proof. intros t H. destruct H; constructor. Qed.

(* every thread satisfies the writer discipline of EVERY series *)
Lemma mthread_wdisc : forall s t, mthread t -> wdisc s false [] t = true.
Proof.
  intros s t H. destruct H.
  - destruct (Nat.eq_dec sj s) as [->|Hne]; [apply put_thread_wdisc | apply foreign_put_wdisc; auto].
  - (* a render of any series writes nothing *)
    apply wn_wdisc. unfold get_thread.
    repeat first
      [ apply wn_nil
      | apply wn_locked; [side_tac|]
      | apply wn_acc_quiet; [reflexivity|]
      | apply wn_flat_map; intro
      | apply wn_app
      | match goal with |- wn _ _ _ (?f _ _ _) => unfold f | |- wn _ _ _ (?f _ _) => unfold f | |- wn _ _ _ (?f _) => unfold f
                      | |- wn _ _ _ ?f => unfold f end ].
  - destruct (Nat.eq_dec sj s) as [->|Hne]; [apply delete_thread_wdisc | apply foreign_delete_wdisc; auto].
  - apply (tasks_wdisc s c 0 0 0 0).
  - apply (tasks_wdisc s CDims d 0 0 0).
  - apply (tasks_wdisc s CDims 0 sg 0 0).
  - apply (tasks_wdisc s CDims 0 0 a 0).
  - apply (tasks_wdisc s CDims 0 0 a t).
  - apply (tasks_wdisc s CDims d 0 0 0).
  - apply (tasks_wdisc s CDims 0 sg 0 0).
  - apply (tasks_wdisc s CDims 0 0 a 0).
  - apply (tasks_wdisc s CDims 0 0 a t).
Qed.

Lemma mthreads_ordered : forall ts, Forall mthread ts -> forallb ordered_thread ts = true.
Proof.
  intros ts F. eapply forall_forallb; [|exact F]. intros t Ht.
  apply table_thread_disciplined. apply mthread_table. exact Ht.
Qed.
Lemma mthreads_wdisc : forall s ts, Forall mthread ts -> forall i, wdisc s false [] (nth i ts []) = true.
Proof.
  intros s ts F i. destruct (nth_error ts i) as [t|] eqn:E.
  - rewrite (nth_error_nth _ _ _ E). apply mthread_wdisc. rewrite Forall_forall in F. apply F. eapply nth_error_In. exact E.
  - rewrite nth_overflow by (apply nth_error_None; exact E). reflexivity.
Qed.

(* frame, stated on the code: a Put of another series writes no location of s *)
Lemma nwrites_locked : forall s l m b, nwrites s (locked l m b) = nwrites s b.
Proof. intros. unfold locked. cbn [app nwrites is_twrite]. rewrite nwrites_app. cbn. lia. Qed.
Lemma nwrites_cons : forall s a r, nwrites s (a :: r) = (if is_twrite s a then 1 else 0) + nwrites s r.
Proof. reflexivity. Qed.

Lemma foreign_put_writes_nothing : forall s sj ds cbs,
  sj <> s -> owns sj cbs = true -> nwrites s (put_thread sj ds cbs) = 0.
Proof.
  intros s sj ds cbs Hne Ho.
  assert (Hs : is_twrite s (Acc (LocSegTree sj) true) = false) by (cbn; apply Nat.eqb_neq; exact Hne).
  assert (CB : nwrites s (flat_map (fun cb : nat * list nat * bool => put_callback (fst (fst cb)) (snd (fst cb)) (snd cb)) cbs) = 0).
  { clear Hs. induction cbs as [|[[t addons] miss] cbs IH]; [reflexivity|].
    cbn [owns forallb fst snd] in Ho. apply andb_true_iff in Ho as [Ht Ho]. apply Nat.eqb_eq in Ht.
    assert (Hq : is_twrite s (Acc (LocTree t) true) = false).
    { cbn [is_twrite tracked]. rewrite Ht. apply Nat.eqb_neq. exact Hne. }
    cbn [flat_map fst snd]. rewrite nwrites_app, (IH Ho). unfold put_callback.
    rewrite !nwrites_app, nwrites_locked, nwrites_cons, Hq.
    rewrite (nwrites_flat_map_zero s _ (fun a => cache_get_hit CTrees ++ locked (LTree a) MR [Acc (LocTree a) false]) addons)
      by (intro; reflexivity).
    destruct miss; reflexivity. }
  unfold put_thread. rewrite nwrites_locked, !nwrites_app, !nwrites_locked, !nwrites_cons, Hs, CB.
  cbn [is_twrite tracked nwrites].
  rewrite (nwrites_flat_map_zero s _ (fun d => cache_get_miss CDims [] ++ locked (LDim d) MW [Acc (LocDimKeys d) true]) ds)
    by (intro; reflexivity).
  reflexivity.
Qed.

(* C08_atomic_read_multi: threads of ALL series; g is a render of series s *)
Theorem atomic_read_multi : forall s g ts ds trs,
  Forall mthread ts -> nth_error ts g = Some (get_thread s ds trs) ->
  forall sched,
  let d := snd (drun s g sched ts) in
  forall S C T, d_snap d = Some (S, C, T) ->
    (forall x v, In (x, v) (d_obs d) -> v = after_puts s ts S x) /\
    NoDup S /\ (exists rest, d_order d = S ++ rest) /\
    (forall i, In i C -> i <> g -> 0 < nwrites s (nth i ts []) -> In i S) /\
    (forall i, In i S -> In i T) /\
    (* S consists of writers OF s only: no thread of another series is in it *)
    (forall i, In i S -> i <> g /\ 0 < nwrites s (nth i ts [])).
Proof.
  intros s g ts ds trs F Hg sched d S C T HS.
  assert (Hord := mthreads_ordered ts F).
  assert (Hwr : forall i, i <> g -> wdisc s false [] (nth i ts []) = true) by (intros; apply mthreads_wdisc; exact F).
  assert (Hrd : rdisc s false [] (nth g ts []) = true) by (rewrite (nth_error_nth _ _ _ Hg); apply get_thread_rdisc).
  destruct (atomic_read_fine s g ts Hord Hwr Hrd sched S C T HS) as [O [ND [[rest A] [Cc E]]]].
  split; [exact O|]. split; [exact ND|]. split; [exists rest; exact A|]. split; [exact Cc|]. split; [exact E|].
  intros i Hi. apply (order_only_writers s g ts Hord Hwr Hrd sched). subst d. rewrite A. apply in_or_app. left. exact Hi.
Qed.

(* C08_quiescent_sum_multi: when every thread has finished, every series holds exactly its writers, each whole *)
Theorem quiescent_sum_multi : forall s ts sched,
  Forall mthread ts ->
  let cd := drun s (length ts) sched ts in
  finished (fst cd) = true ->
  NoDup (d_order (snd cd)) /\
  (forall i, In i (d_order (snd cd)) <-> 0 < nwrites s (nth i ts [])) /\
  (forall x, tracked s x = true -> d_val (snd cd) x = after_puts s ts (d_order (snd cd)) x).
Proof.
  intros s ts sched F cd Fin.
  assert (Hord := mthreads_ordered ts F).
  assert (Hwr : forall i, i <> length ts -> wdisc s false [] (nth i ts []) = true) by (intros; apply mthreads_wdisc; exact F).
  assert (Hrd : rdisc s false [] (nth (length ts) ts []) = true) by (rewrite nth_overflow by lia; reflexivity).
  pose proof (dinv_reachable s (length ts) ts Hord Hwr Hrd sched) as D. fold cd in D.
  assert (Hcode : forall k, code_of (fst cd) k = []).
  { intro k. unfold code_of. destruct (nth_error (fst cd) k) as [t|] eqn:E; auto.
    unfold finished in Fin. rewrite forallb_forall in Fin. apply nth_error_In in E. apply Fin in E.
    destruct (ts_code t); [reflexivity | discriminate]. }
  split; [apply (di_nodup _ _ _ _ _ D)|]. split.
  - intro i. split.
    + intro Hi. apply (order_only_writers s (length ts) ts Hord Hwr Hrd sched). exact Hi.
    + intro Hn. destruct (memn i (d_order (snd cd))) eqn:M; [apply memn_in; exact M|]. exfalso.
      assert (Hig : i <> length ts).
      { intro E. subst i. rewrite nth_overflow in Hn by lia. cbn in Hn. lia. }
      destruct (di_w _ _ _ _ _ D i Hig) as [_ [_ W3]]. specialize (W3 M).
      pose proof (di_hist _ _ _ _ _ D i) as Hh. unfold init_of in Hh. rewrite Hh, Hcode, app_nil_r, W3 in Hn. lia.
  - intros x Hx. apply (val_when_complete s (length ts) ts (fst cd) (snd cd) x D Hx).
    intros k _. rewrite Hcode. reflexivity.
Qed.

(* ---- a selector render: one read section per matching series ------------------------------------------------------------------ *)
Ltac rn_core :=
  repeat first
    [ apply rn_nil
    | apply rn_locked; [side_tac|]
    | apply rn_flat_map; intro
    | apply rn_app ].

Lemma nreads_locked : forall s l m b, nreads s (locked l m b) = nreads s b.
Proof. intros. unfold locked. cbn [app nreads is_tread]. rewrite nreads_app. cbn. lia. Qed.
Lemma nreads_cons : forall s a r, nreads s (a :: r) = (if is_tread s a then 1 else 0) + nreads s r.
Proof. reflexivity. Qed.

(* a section of another series is invisible to the reader discipline of s *)
Lemma foreign_section_rn : forall s st h p,
  fst p <> s -> (forall t, In t (snd p) -> tree_series t = fst p) ->
  rn s st h (selector_section p) /\ nreads s (selector_section p) = 0.
Proof.
  intros s st h [sj trs] Hne Hown. cbn [fst snd] in *.
  assert (Hs : Nat.eqb sj s = false) by (apply Nat.eqb_neq; exact Hne).
  assert (Hl : forall stt, (lock_eqb (LSeg sj) (LSeg s) && stt) = false) by (intro; cbn; rewrite Hs; reflexivity).
  assert (Hr1 : is_tread s (Acc (LocSegTree sj) false) = false) by (cbn; exact Hs).
  assert (Htree : forall t, In t trs -> is_tread s (Acc (LocTree t) false) = false).
  { intros t Ht. cbn [is_tread tracked]. rewrite (Hown t Ht). exact Hs. }
  split.
  - unfold selector_section. cbn [fst snd].
    apply rn_app; [unfold cache_get_miss, lfu_op; rn_core; repeat (apply rn_acc_quiet; [reflexivity | reflexivity |]); apply rn_nil|].
    apply rn_app.
    + apply rn_locked; [apply Hl|]. apply rn_acc_quiet; [reflexivity | reflexivity | apply rn_nil].
    + apply rn_locked; [apply Hl|].
      apply rn_acc_quiet; [reflexivity | exact Hr1 |]. apply rn_acc_quiet; [reflexivity | exact Hr1 |].
      clear Hr1. induction trs as [|t trs IH]; [apply rn_nil|].
      cbn [flat_map]. apply rn_app; [|apply IH; intros; [apply Hown | apply Htree]; right; assumption].
      apply rn_app.
      * unfold cache_get_hit, lfu_op. apply rn_locked; [side_tac|]. apply rn_acc_quiet; [reflexivity | reflexivity | apply rn_nil].
      * apply rn_locked; [side_tac|]. apply rn_acc_quiet; [reflexivity | apply Htree; left; reflexivity | apply rn_nil].
  - unfold selector_section. cbn [fst snd]. rewrite !nreads_app.
    assert (N1 : nreads s (cache_get_miss CSegs []) = 0) by reflexivity.
    assert (N2 : nreads s (locked (LSeg sj) MR [Acc (LocSegMeta sj) false]) = 0) by reflexivity.
    rewrite N1, N2. rewrite nreads_locked, !nreads_cons, Hr1.
    assert (N3 : nreads s (flat_map (fun t => cache_get_hit CTrees ++ locked (LTree t) MR [Acc (LocTree t) false]) trs) = 0).
    { clear Hr1. induction trs as [|t trs IH]; [reflexivity|]. cbn [flat_map]. rewrite nreads_app, IH.
      - rewrite nreads_app, nreads_locked, nreads_cons, (Htree t (or_introl eq_refl)). reflexivity.
      - intros; apply Hown; right; assumption.
      - intros; apply Htree; right; assumption. }
    rewrite N3. reflexivity.
Qed.

Lemma foreign_sections_rn : forall s st h sel,
  ~ In s (map fst sel) -> (forall p, In p sel -> forall t, In t (snd p) -> tree_series t = fst p) ->
  rn s st h (flat_map selector_section sel) /\ nreads s (flat_map selector_section sel) = 0.
Proof.
  intros s st h sel Hni Hown. induction sel as [|p sel IH]; [split; [apply rn_nil | reflexivity]|].
  cbn [map] in Hni. cbn [flat_map].
  destruct (foreign_section_rn s st h p) as [A B].
  { intro E. apply Hni. left. exact E. }
  { intros t Ht. apply (Hown p (or_introl eq_refl)). exact Ht. }
  destruct IH as [C D].
  { intro Hin. apply Hni. right. exact Hin. }
  { intros q Hq. apply Hown. right. exact Hq. }
  split; [apply rn_app; auto | rewrite nreads_app, B, D; reflexivity].
Qed.

Lemma own_section_reads : forall s trs,
  rn s true [(LSeg s, MR)]
    (Acc (LocSegTree s) false :: flat_map (fun t => cache_get_hit CTrees ++ locked (LTree t) MR [Acc (LocTree t) false]) trs).
Proof.
  intros s trs.
  assert (Hh : forall l m, holds (LSeg s) ((l, m) :: [(LSeg s, MR)]) = true).
  { intros l m. rewrite holds_cons. cbn. rewrite Nat.eqb_refl. apply orb_true_r. }
  apply rn_acc_read; [cbn; rewrite Nat.eqb_refl; reflexivity|].
  induction trs as [|t trs IH]; [apply rn_nil|]. cbn [flat_map]. apply rn_app; [|exact IH].
  apply rn_app.
  - unfold cache_get_hit, lfu_op. apply rn_locked; [side_tac|]. apply rn_acc_quiet; [reflexivity | reflexivity | apply rn_nil].
  - apply rn_locked; [side_tac|]. apply rn_acc_read; [apply Hh | apply rn_nil].
Qed.

Lemma selector_tail_ok : forall s sel,
  nreads s (selector_tail sel) = 0 /\ rdisc s true [] (selector_tail sel) = true /\ rdisc s false [] (selector_tail sel) = true.
Proof.
  intros s sel. unfold selector_tail. destruct (rev sel) as [|p _]; [auto|].
  unfold locked. cbn. destruct (Nat.eqb (fst p) s); cbn; auto.
Qed.

(* the reader discipline of EVERY matched series holds for a well-formed selector render *)
Theorem get_selector_rdisc : forall s ds sel,
  selector_wf sel -> rdisc s false [] (get_selector ds sel) = true.
Proof.
  intros s ds sel [ND Hown]. unfold get_selector.
  assert (A : rn s false [] (flat_map (fun _ : nat => cache_get_miss CDims []) ds)).
  { apply rn_flat_map. intro. unfold cache_get_miss, lfu_op.
    rn_core; repeat (apply rn_acc_quiet; [reflexivity | reflexivity |]); apply rn_nil. }
  assert (B : rn s false [] (flat_map (fun d => locked (LDim d) MR [Acc (LocDimKeys d) false]) ds)).
  { apply rn_flat_map. intro. apply rn_locked; [side_tac|]. apply rn_acc_quiet; [reflexivity | reflexivity | apply rn_nil]. }
  rewrite A, B.
  destruct (selector_tail_ok s sel) as [T0 [T1 T2]].
  destruct (in_dec Nat.eq_dec s (map fst sel)) as [Hin | Hni].
  2:{ destruct (foreign_sections_rn s false [] sel Hni Hown) as [Q _]. rewrite Q. exact T2. }
  (* split the matched series out *)
  apply in_map_iff in Hin as [[s0 trs] [E Hp]]. cbn in E. subst s0.
  apply in_split in Hp as [pre [post Hsel]]. rewrite Hsel in *.
  rewrite map_app in ND. cbn [map fst] in ND.
  assert (Hpre : ~ In s (map fst pre)).
  { intro Hin. apply NoDup_remove_2 in ND. apply ND. apply in_or_app. left. exact Hin. }
  assert (Hpost : ~ In s (map fst post)).
  { intro Hin. apply NoDup_remove_2 in ND. apply ND. apply in_or_app. right. exact Hin. }
  rewrite flat_map_app. cbn [flat_map]. rewrite <- !app_assoc.
  destruct (foreign_sections_rn s false [] pre Hpre) as [Qpre _].
  { intros p Hp. apply Hown. apply in_or_app. left. exact Hp. }
  destruct (foreign_sections_rn s true [] post Hpost) as [Qpost Npost].
  { intros p Hp. apply Hown. apply in_or_app. right. right. exact Hp. }
  rewrite Qpre. unfold selector_section at 1. cbn [fst snd]. rewrite <- !app_assoc.
  assert (C : rn s false [] (cache_get_miss CSegs [])).
  { unfold cache_get_miss, lfu_op. rn_core; repeat (apply rn_acc_quiet; [reflexivity | reflexivity |]); apply rn_nil. }
  assert (D : rn s false [] (locked (LSeg s) MR [Acc (LocSegMeta s) false])).
  { apply rn_locked; [side_tac|]. apply rn_acc_quiet; [reflexivity | reflexivity | apply rn_nil]. }
  rewrite C, D. rewrite read_section.
  - rewrite nreads_app, Npost, T0. cbn [Nat.eqb andb Nat.add]. rewrite Qpost. exact T1.
  - cbn. apply Nat.eqb_refl.
  - apply own_section_reads.
Qed.

Lemma get_selector_wdisc : forall s ds sel, wdisc s false [] (get_selector ds sel) = true.
Proof.
  intros s ds sel. apply wn_wdisc. unfold get_selector.
  assert (Tl : wn s false [] (selector_tail sel)).
  { unfold selector_tail. destruct (rev sel); [apply wn_nil|].
    apply wn_locked; [side_tac|]. apply wn_acc_quiet; [reflexivity | apply wn_nil]. }
  repeat first
    [ exact Tl
    | apply wn_nil
    | apply wn_locked; [side_tac|]
    | apply wn_acc_quiet; [reflexivity|]
    | apply wn_flat_map; intro
    | apply wn_app
    | match goal with |- wn _ _ _ (?f _ _ _) => unfold f | |- wn _ _ _ (?f _ _) => unfold f | |- wn _ _ _ (?f _) => unfold f
                    | |- wn _ _ _ ?f => unfold f end ].
Qed.

Lemma get_selector_disciplined : forall ds sel,
  ordered_thread (get_selector ds sel) = true /\ lockset_thread (get_selector ds sel) = true.
Proof.
  intros ds sel. split.
  - apply neutral_ordered. unfold get_selector.
    assert (Tl : neutral [] (selector_tail sel)) by (unfold selector_tail; destruct (rev sel); neutral_tac).
    apply neutral_app; [neutral_tac | apply neutral_app; [neutral_tac | apply neutral_app; [neutral_tac | exact Tl]]].
  - apply lneutral_lockset. unfold get_selector.
    assert (Tl : lneutral [] (selector_tail sel)) by (unfold selector_tail; destruct (rev sel); lneutral_tac).
    apply lneutral_app; [lneutral_tac | apply lneutral_app; [lneutral_tac | apply lneutral_app; [lneutral_tac | exact Tl]]].
Qed.

(* all threads: those of the access table, any series, plus selector renders *)
Definition mthread2 (t : thread) : Prop := mthread t \/ exists ds sel, t = get_selector ds sel.

Lemma mthreads2_ordered : forall ts, Forall mthread2 ts -> forallb ordered_thread ts = true.
Proof.
  intros ts F. eapply forall_forallb; [|exact F]. intros t [Ht | [ds [sel ->]]].
  - apply table_thread_disciplined. apply mthread_table. exact Ht.
  - apply get_selector_disciplined.
Qed.
Lemma mthreads2_wdisc : forall s ts, Forall mthread2 ts -> forall i, wdisc s false [] (nth i ts []) = true.
Proof.
  intros s ts F i. destruct (nth_error ts i) as [t|] eqn:E.
  - rewrite (nth_error_nth _ _ _ E). rewrite Forall_forall in F.
    destruct (F t (nth_error_In _ _ E)) as [Ht | [ds [sel ->]]]; [apply mthread_wdisc; exact Ht | apply get_selector_wdisc].
  - rewrite nth_overflow by (apply nth_error_None; exact E). reflexivity.
Qed.

(* C08_atomic_read_selector: for EVERY matched series s (tracked by its own instrumentation of the same fine schedule)
   the selector render's observation of s is the content after a duplicate-free prefix S_s of the writers of s —
   per-series atomicity *)
Theorem atomic_read_selector : forall g ts ds sel,
  Forall mthread2 ts -> nth_error ts g = Some (get_selector ds sel) -> selector_wf sel ->
  forall sched s, In s (map fst sel) ->
  let d := snd (drun s g sched ts) in
  forall S C T, d_snap d = Some (S, C, T) ->
    (forall x v, In (x, v) (d_obs d) -> v = after_puts s ts S x) /\
    NoDup S /\ (exists rest, d_order d = S ++ rest) /\
    (forall i, In i C -> i <> g -> 0 < nwrites s (nth i ts []) -> In i S) /\
    (forall i, In i S -> In i T) /\
    (forall i, In i S -> i <> g /\ 0 < nwrites s (nth i ts [])).
Proof.
  intros g ts ds sel F Hg Wf sched s _ d S C T HS.
  assert (Hord := mthreads2_ordered ts F).
  assert (Hwr : forall i, i <> g -> wdisc s false [] (nth i ts []) = true) by (intros; apply mthreads2_wdisc; exact F).
  assert (Hrd : rdisc s false [] (nth g ts []) = true) by (rewrite (nth_error_nth _ _ _ Hg); apply get_selector_rdisc; exact Wf).
  destruct (atomic_read_fine s g ts Hord Hwr Hrd sched S C T HS) as [O [ND [[rest A] [Cc E]]]].
  split; [exact O|]. split; [exact ND|]. split; [exists rest; exact A|]. split; [exact Cc|]. split; [exact E|].
  intros i Hi. apply (order_only_writers s g ts Hord Hwr Hrd sched). subst d. rewrite A. apply in_or_app. left. exact Hi.
Qed.

(* the fine schedule does not depend on which series is instrumented *)
Lemma dstep_config_independent : forall s1 s2 g c d1 d2 i,
  fst (dstep s1 g (c, d1) i) = fst (dstep s2 g (c, d2) i).
Proof. intros. unfold dstep. cbn [fst snd]. destruct (step i c); reflexivity. Qed.

Lemma fold_config_independent : forall s1 s2 g sched c d1 d2,
  fst (fold_left (dstep s1 g) sched (c, d1)) = fst (fold_left (dstep s2 g) sched (c, d2)).
Proof.
  intros s1 s2 g sched. induction sched as [|i sched IH]; intros c d1 d2; cbn [fold_left]; [reflexivity|].
  pose proof (dstep_config_independent s1 s2 g c d1 d2 i) as E.
  destruct (dstep s1 g (c, d1) i) as [c1 e1]. destruct (dstep s2 g (c, d2) i) as [c2 e2]. cbn in E. subst c2.
  apply IH.
Qed.

Theorem drun_config_independent : forall s1 s2 g sched ts,
  fst (drun s1 g sched ts) = fst (drun s2 g sched ts).
Proof. intros. unfold drun. apply fold_config_independent. Qed.

(* ... but the answer as a whole is not a cross-series snapshot: two series 0 and 1, an ingest into 0 that starts after
   the render has read series 0 and is acknowledged before an ingest into 1 even begins; the render, reading series 1
   afterwards, contains the LATER ingest (into 1) but not the EARLIER one (into 0) *)
Definition snap_threads : list thread :=
  [get_selector [0] [(0, [0]); (1, [1])]; put_thread 0 [0] [(0, [], false)]; put_thread 1 [0] [(1, [], false)]].
Definition snap_sched : list nat := repeat 0 48 ++ repeat 1 120 ++ repeat 2 120 ++ repeat 0 120.

Example selector_not_a_snapshot :
  d_obs (snd (drun 0 0 snap_sched snap_threads)) = [(LocTree 0, []); (LocSegTree 0, []); (LocSegTree 0, [])] /\
  d_obs (snd (drun 1 0 snap_sched snap_threads)) = [(LocTree 1, [2]); (LocSegTree 1, [2]); (LocSegTree 1, [2])] /\
  finished (fst (drun 0 0 snap_sched snap_threads)) = true.
Proof. vm_compute. repeat split; reflexivity. Qed.
