(* C16Concrete.v — the Section of Model/Server.v instantiated with the concrete models:
     profile tree        Model/Tree.v (tnode)
     body parsers        Model/Ingest.v: tree_via_tree (Model/TreeCodec.v), tree_via_trie (Model/TTrie.v),
                         tree_via_lines, tree_via_groups (Model/TextFormats.v)
     key parser          Model/Key.v parse; the series identifier carries Normalized() as key text
     metadata            Model/Ingest.v ingest_params_of (defaults 'unknown', 100, 'samples', 'sum')
     storage             Model/Storage.v: state st_state, put = st_put (retention is decided by the handler model on the
                         same comparison, so st_put runs with its own threshold off)
   and the combination with C06 (all four wire formats yield the tree of the records) and C01 (query exactness).
   Partial: a series name is turned into runes byte by byte (exact for ASCII names; Key.v works on code points and no
   UTF-8 decoder model exists); times are handed to the storage model in whole seconds (the handler has normalised the
   window to multiples of 10 s before). *)
From Pyro Require Import Model.Base Model.Tree Model.Segment Model.Timeline Model.Storage Model.Key Model.TimeParse.
From Pyro Require Import Model.Varint Model.TTrie Model.TextFormats Model.TreeCodec.
From Pyro Require Model.Ingest.
From Pyro Require Import Model.Server.
From Pyro Require Import Proofs.TreeProofs Proofs.SegStruct Proofs.StorageProofs Proofs.C06ProfileProofs Proofs.ServerProofs.
From Coq Require Import Lia.
Local Open Scope Z_scope.

(* ---- the instance ---- *)
Definition sid_of_name (name : bytes) : sid :=
  let m := Key.parse name in
  {| sid_key := utf8 (normalized m); sid_app := utf8 (app_name m);
     sid_tags := map (fun kv => (utf8 (fst kv), utf8 (snd kv))) (tags m) |}.

Definition meta_of_query (q : Server.query) : meta :=
  let ip := Ingest.ingest_params_of q [] in
  {| m_spy := Ingest.ip_spy ip; m_rate := Ingest.ip_rate ip; m_units := Ingest.ip_units ip; m_agg := Ingest.ip_aggregation ip |}.

Definition ns_s : Z := 1000000000.

(* the PutInput the handler hands to Storage.Put: key, normalised window (ns -> s), profile, metadata *)
Definition put_input_of (k : sid) (w0 w1 : Z) (t : tnode) (m : meta) : put_input :=
  {| pi_sid := k; pi_from := w0 / ns_s; pi_until := w1 / ns_s; pi_tree := t; pi_meta := m |}.

Definition conc_put (k : sid) (w0 w1 : Z) (t : tnode) (m : meta) (st : st_state) : st_state :=
  fst (st_put None (put_input_of k w0 w1 t m) st).

Definition conc_ingest : request -> env -> st_state -> outcome * st_state :=
  Server.ingest tnode sid meta st_state sid_of_name meta_of_query
    Ingest.tree_via_tree Ingest.tree_via_trie Ingest.tree_via_lines Ingest.tree_via_groups conc_put.

Definition conc_params : request -> env -> option (Server.ingest_params sid meta) :=
  Server.ingest_params_of sid meta sid_of_name meta_of_query.

Definition conc_parser : Server.wire_format -> bytes -> option tnode :=
  Server.parser_of tnode Ingest.tree_via_tree Ingest.tree_via_trie Ingest.tree_via_lines Ingest.tree_via_groups.

(* ---- C16 on the concrete handler ---- *)
Lemma ack_concrete : forall rq e st st', conc_ingest rq e st = (Status 200, st') ->
  exists ip t w0 w1,
    conc_params rq e = Some ip /\
    conc_parser (Server.ip_format _ _ ip) (rq_body rq) = Some t /\
    w0 = floor10 (Server.ip_from _ _ ip) /\ w0 + ten_s <= w1 /\
    e_space_ok e = true /\
    (forall thr, e_retention_thr e = Some thr -> thr <= Server.ip_from _ _ ip) /\
    st' = fst (st_put None (put_input_of (sid_of_name (Server.q_get k_name (rq_query rq))) w0 w1 t (meta_of_query (rq_query rq))) st).
Proof.
  intros rq e st st' H.
  destruct (ingest_ack _ _ _ _ _ _ _ _ _ _ _ rq e st st' H) as (ip & t & w0 & w1 & Hip & Hp & Hw0 & Hw1 & Hs & Hr & Hst).
  exists ip, t, w0, w1. repeat split; auto.
  rewrite Hst. unfold conc_put.
  unfold Server.ingest_params_of in Hip.
  destruct (time_param _ _); [|discriminate]. destruct (time_param _ _); [|discriminate].
  inversion Hip; subst. reflexivity.
Qed.

Lemma reject_concrete : forall rq e st o st', conc_ingest rq e st = (o, st') -> o <> Status 200 -> st' = st.
Proof. intros rq e st o st'. apply ingest_reject. Qed.

Lemma total_concrete : forall rq e st, exists code, fst (conc_ingest rq e st) = Status code.
Proof. intros. apply ingest_total. Qed.

(* ---- with C06: whatever the wire format, a body rendered from records parses to the tree of ALL the records ---- *)
Definition body_of (f : Server.wire_format) (cap : nat) (ms : list (bytes * N)) : bytes :=
  match f with
  | Server.FTree => Ingest.tree_body cap ms
  | Server.FTrie => Ingest.trie_body ms
  | Server.FLines => render_lines ms
  | Server.FGroups => render_groups ms
  end.

Lemma whole_body : forall f cap ms, Forall entry_ok ms ->
  tt_fitsb 1 1 (tt_of_multiset ms) = true -> TreeCodecProofs.t_fitsb (Ingest.profile_of ms) = true ->
  (t_size (Ingest.profile_of ms) <= cap)%nat ->
  conc_parser f (body_of f cap ms) = Some (Ingest.profile_of ms).
Proof.
  intros f cap ms H1 H2 H3 H4. destruct (formats_agree4 cap ms H1 H2 H3 H4) as (Hg & Hl & Ht & Htr).
  destruct f; cbn; assumption.
Qed.

(* ---- with C01: a query of the request's window after the acknowledgement ---- *)
Definition answer (p : list bytes) (sel : sid) (from until : Z) (pis : list put_input) : Z :=
  match st_get sel from until (st_after pis) with
  | Some out => Z.of_N (t_self_at p (go_tree out))
  | None => 0
  end.

Lemma st_after_snoc : forall pis pi, st_after (pis ++ [pi]) = fst (st_put None pi (st_after pis)).
Proof. intros. unfold st_after. rewrite fold_left_app. reflexivity. Qed.

Lemma kv_eqb_refl : forall x, kv_eqb x x = true.
Proof. intros [a b]. unfold kv_eqb. cbn. rewrite !beqb_refl. reflexivity. Qed.

Lemma sel_matches_refl : forall s, sel_matches s s = true.
Proof.
  intros s. unfold sel_matches. rewrite beqb_refl. cbn. apply forallb_forall. intros kv Hin.
  apply existsb_exists. exists kv. split; [exact Hin|apply kv_eqb_refl].
Qed.

Lemma answer_exact : forall K pis sel from until p,
  Forall (exact_put K) pis -> key_consistent pis -> no_average pis ->
  fst (s_normalize_unix (from, until)) < snd (s_normalize_unix (from, until)) ->
  answer p sel from until pis =
  sumZ (map (contrib p (fst (s_normalize_unix (from, until))) (snd (s_normalize_unix (from, until))))
            (filter (fun pi => sel_matches sel (pi_sid pi)) pis)).
Proof.
  intros K pis sel from until p H1 H2 H3 H4. pose proof (get_exact_closed K pis sel from until p H1 H2 H3 H4) as H.
  cbv zeta in H. unfold answer. destruct (st_get sel from until (st_after pis)); [exact H|symmetry; exact H].
Qed.

Lemma Forall_app_l : forall {A} (P : A -> Prop) l1 l2, Forall P (l1 ++ l2) -> Forall P l1.
Proof. intros A P l1 l2 H. apply Forall_app in H. apply H. Qed.

(* the query of the acknowledged request's own series and (single-slot) window returns, for every stack, what it
   returned before plus the count of that stack in the request's profile *)
Lemma query_after_ack : forall K pis pi p,
  Forall (exact_put K) (pis ++ [pi]) -> key_consistent (pis ++ [pi]) -> no_average (pis ++ [pi]) ->
  snd (pi_ab pi) - fst (pi_ab pi) = 1 ->
  answer p (pi_sid pi) (pi_from pi) (pi_until pi) (pis ++ [pi]) =
  answer p (pi_sid pi) (pi_from pi) (pi_until pi) pis + Z.of_N (t_self_at p (pi_tree pi)).
Proof.
  intros K pis pi p He Hk Hn Hspan.
  assert (Hab : fst (s_normalize_unix (pi_from pi, pi_until pi)) < snd (s_normalize_unix (pi_from pi, pi_until pi))).
  { change (s_normalize_unix (pi_from pi, pi_until pi)) with (pi_ab pi). lia. }
  rewrite (answer_exact K (pis ++ [pi])) by assumption.
  rewrite (answer_exact K pis); auto.
  - rewrite filter_app, map_app, sumZ_app'. f_equal. cbn [filter]. rewrite sel_matches_refl. cbn [map sumZ fold_right].
    change (s_normalize_unix (pi_from pi, pi_until pi)) with (pi_ab pi). unfold contrib, ov.
    rewrite Hspan, Z.div_1_r. rewrite Z.min_id, Z.max_id. rewrite Hspan. lia.
  - eapply Forall_app_l; exact He.
  - intros a b Ha Hb. apply Hk; apply in_or_app; left; assumption.
  - intros a Ha. apply Hn. apply in_or_app; left; assumption.
Qed.

(* the three together: the concrete handler acknowledges on top of a history of uploads *)
Lemma ack_then_query : forall K pis rq e st' p, conc_ingest rq e (st_after pis) = (Status 200, st') ->
  exists pi t,
    st' = st_after (pis ++ [pi]) /\
    pi_sid pi = sid_of_name (Server.q_get k_name (rq_query rq)) /\ pi_tree pi = t /\ pi_meta pi = meta_of_query (rq_query rq) /\
    conc_parser (Server.select_format (Server.q_get k_format (rq_query rq)) (rq_content_type rq)) (rq_body rq) = Some t /\
    (Forall (exact_put K) (pis ++ [pi]) -> key_consistent (pis ++ [pi]) -> no_average (pis ++ [pi]) ->
     snd (pi_ab pi) - fst (pi_ab pi) = 1 ->
     answer p (pi_sid pi) (pi_from pi) (pi_until pi) (pis ++ [pi]) =
     answer p (pi_sid pi) (pi_from pi) (pi_until pi) pis + Z.of_N (t_self_at p t)).
Proof.
  intros K pis rq e st' p H.
  destruct (ack_concrete rq e (st_after pis) st' H) as (ip & t & w0 & w1 & Hip & Hp & Hw0 & Hw1 & Hs & Hr & Hst).
  set (pi := put_input_of (sid_of_name (Server.q_get k_name (rq_query rq))) w0 w1 t (meta_of_query (rq_query rq))) in *.
  exists pi, t. repeat split; auto.
  - rewrite st_after_snoc. exact Hst.
  - unfold conc_params, Server.ingest_params_of in Hip.
    destruct (time_param _ _); [|discriminate]. destruct (time_param _ _); [|discriminate].
    inversion Hip; subst ip. exact Hp.
  - intros He Hk Hn Hspan. apply (query_after_ack K pis pi p He Hk Hn Hspan).
Qed.
