(* SegCountShare.v — the samples counter for uploads of 1..9 slots whose sample count is a multiple of
   the span ("even" uploads, the proviso of C01/C13): the binary64 share of a bucket is exactly
   (slots of the upload inside the bucket) * (samples per slot). *)
From Pyro Require Import Model.Base Model.Float53 Model.Segment
  Proofs.SegStruct Proofs.SegCount Proofs.Float53Proofs Proofs.Float53Share.
From Coq Require Import ZifyBool ZifyN.
Local Open Scope Z_scope.

Definition per_slot (w : write) : N := (w_smp w / Z.to_N (w_b w - w_a w))%N.
Definition even_upload (w : write) : Prop :=
  1 <= w_b w - w_a w <= 9 /\ (w_smp w mod Z.to_N (w_b w - w_a w) = 0)%N /\ (w_smp w < 2 ^ 53)%N.

Lemma wincr_even lvl t w : even_upload w -> meets lvl t w = true ->
  wincr lvl t w = (Z.to_N (ov t (t + pow10 lvl) (w_a w) (w_b w)) * per_slot w)%N.
Proof.
  intros (Hspan & Hmod & Hlt) Hm. unfold wincr, per_slot. unfold meets in Hm. pose proof (pow10_pos lvl).
  set (n := w_b w - w_a w) in *. set (m := ov t (t + pow10 lvl) (w_a w) (w_b w)).
  assert (Hmn : 1 <= m <= n) by (unfold m, ov, n; lia).
  set (c := (w_smp w / Z.to_N n)%N).
  assert (Hsmp : w_smp w = (Z.to_N n * c)%N).
  { unfold c. pose proof (N.div_mod (w_smp w) (Z.to_N n) ltac:(lia)) as Hd. rewrite Hmod in Hd. lia. }
  rewrite Hsmp. apply share_exact_small_span; [exact Hmn|lia|]. rewrite <- Hsmp. exact Hlt.
Qed.

Lemma ssum_even H lvl t : Forall even_upload H ->
  ssum H lvl t = sumN' (map (fun w => (Z.to_N (ov t (t + pow10 lvl) (w_a w) (w_b w)) * per_slot w)%N)
                            (filter (meets lvl t) H)).
Proof.
  intros HH. unfold ssum. f_equal. induction HH as [|w H Hw _ IH]; [reflexivity|].
  cbn [filter]. destruct (meets lvl t w) eqn:Em; [|exact IH]. cbn [map]. rewrite IH.
  rewrite (wincr_even lvl t w Hw Em). reflexivity.
Qed.

(* every node and every get callback, for histories of even uploads of 1..9 slots *)
Theorem seg_counters_even K ws : Forall (valid_write K) ws -> Forall even_upload ws ->
  root_winv (fst (run_writes ws)) ws /\
  forall qa qb, qa < qb ->
    Forall (fun c => gc_writes c = nmeet ws (gc_lvl c) (gc_t c) /\
                     gc_samples c = sumN' (map (fun w => (Z.to_N (ov (gc_t c) (gc_t c + pow10 (gc_lvl c)) (w_a w) (w_b w)) * per_slot w)%N)
                                               (filter (meets (gc_lvl c) (gc_t c)) ws)))
           (s_get qa qb (fst (run_writes ws))).
Proof.
  intros Hv He.
  assert (Hsh : Forall (fun w => w_b w - w_a w < 10) ws).
  { eapply Forall_impl; [|exact He]. intros w ((H1 & H2) & _). lia. }
  destruct (seg_counters_exact K ws Hv Hsh) as [G1 G2]. split; [exact G1|].
  intros qa qb Hq. eapply Forall_impl; [|exact (G2 qa qb Hq)].
  intros c [C1 C2]. split; [exact C1|]. rewrite C2. apply ssum_even. exact He.
Qed.
