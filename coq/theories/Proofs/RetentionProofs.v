(* RetentionProofs.v — what a retention pass (Segment.DeleteDataBefore / Storage.DeleteDataBefore) does to
   later reads: C11_retention (a) reads at/after the threshold are unchanged, (b) reads before it are empty,
   (c) no read returns more than before. *)
From Pyro Require Import Model.Base Model.Tree Model.Segment Model.Timeline Model.Storage
  Proofs.TreeProofs Proofs.SegmentProofs Proofs.SegStruct Proofs.SegGet Proofs.StorageProofs Proofs.TimelineProofs.
From Coq Require Import ZifyN ZifyNat ZifyBool Lia.
Local Open Scope Z_scope.

(* ------------------------------------------------------------------------------------------ *)
(* s_del_node, unfolded                                                                        *)

Definition del_child (l : nat) (thr : Z) (o : option snode) : option snode * list (nat * Z) :=
  match o with
  | Some c => let '(c', cbs, del) := s_del_node l thr c in ((if del then None else Some c'), cbs)
  | None => (None, [])
  end.

Lemma del_node_unfold lvl thr t p s w ch :
  s_del_node lvl thr (SNode t p s w ch) =
    if thr <? t then (SNode t p s w ch, [], false)
    else
      let isb := t + pow10 lvl <=? thr in
      let own := if isb then [(lvl, t)] else [] in
      match lvl with
      | O => (SNode t p s w ch, own, isb)
      | S l => let rs := map (del_child l thr) ch in
               (SNode t p s w (map fst rs), own ++ concat (map snd rs), isb)
      end.
Proof. destruct lvl; reflexivity. Qed.

Definition dn_node (lvl : nat) (thr : Z) (n : snode) : snode := fst (fst (s_del_node lvl thr n)).
Definition dn_cbs (lvl : nat) (thr : Z) (n : snode) : list (nat * Z) := snd (fst (s_del_node lvl thr n)).
Definition dn_del (lvl : nat) (thr : Z) (n : snode) : bool := snd (s_del_node lvl thr n).

Lemma del_child_fst l thr o :
  fst (del_child l thr o) = match o with Some c => if dn_del l thr c then None else Some (dn_node l thr c) | None => None end.
Proof. destruct o as [c|]; [|reflexivity]. unfold del_child, dn_del, dn_node. destruct (s_del_node l thr c) as [[c' cbs] d]. reflexivity. Qed.

Lemma del_child_snd l thr o :
  snd (del_child l thr o) = match o with Some c => dn_cbs l thr c | None => [] end.
Proof. destruct o as [c|]; [|reflexivity]. unfold del_child, dn_cbs. destruct (s_del_node l thr c) as [[c' cbs] d]. reflexivity. Qed.

Lemma dn_time lvl thr n : sn_time (dn_node lvl thr n) = sn_time n.
Proof.
  unfold dn_node. destruct n as [t p s w ch]. rewrite del_node_unfold. destruct (thr <? t); [reflexivity|].
  destruct lvl; reflexivity.
Qed.

(* a deleted node lies entirely before the threshold; a kept one does not *)
Lemma dn_del_true lvl thr n : dn_del lvl thr n = true -> sn_time n + pow10 lvl <= thr.
Proof.
  unfold dn_del. destruct n as [t p s w ch]. rewrite del_node_unfold. destruct (thr <? t); [discriminate|].
  destruct lvl; cbn [snd sn_time]; lia.
Qed.

Lemma dn_del_false lvl thr n : dn_del lvl thr n = false -> thr < sn_time n + pow10 lvl.
Proof.
  unfold dn_del. destruct n as [t p s w ch]. rewrite del_node_unfold. pose proof (pow10_pos lvl).
  destruct (Z.ltb_spec thr t); [cbn [sn_time]; lia|]. destruct lvl; cbn [snd sn_time]; lia.
Qed.

(* every reported key is a bucket entirely before the threshold *)
Lemma dn_cbs_before : forall lvl thr n, Forall (fun c => snd c + pow10 (fst c) <= thr) (dn_cbs lvl thr n).
Proof.
  induction lvl as [|l IH]; intros thr [t p s w ch]; unfold dn_cbs; rewrite del_node_unfold;
    (destruct (thr <? t); [constructor|]); cbv zeta; cbn [fst snd].
  - destruct (Z.leb_spec (t + pow10 0) thr); repeat constructor. cbn [fst snd]. lia.
  - apply Forall_app. split.
    + destruct (Z.leb_spec (t + pow10 (S l)) thr); repeat constructor. cbn [fst snd]. lia.
    + apply Forall_forall. intros c Hc. apply in_concat in Hc. destruct Hc as (cbs & Hcbs & Hin).
      rewrite map_map in Hcbs. apply in_map_iff in Hcbs. destruct Hcbs as (o & <- & Ho).
      rewrite del_child_snd in Hin. destruct o as [c0|]; [|destruct Hin].
      pose proof (IH thr c0) as G. rewrite Forall_forall in G. apply G, Hin.
Qed.

(* ------------------------------------------------------------------------------------------ *)
(* reads                                                                                        *)

Lemma get_before_nil lvl a b n : a < b -> sn_time n + pow10 lvl <= a -> s_get_node lvl a b n = [].
Proof.
  intros Hab H. destruct n as [t p s w ch]. cbn [sn_time] in H. rewrite get_node_unfold. cbv zeta.
  pose proof (pow10_pos lvl) as Hp. pose proof (rel_spec t (t + pow10 lvl) a b ltac:(lia) Hab) as Hr.
  destruct (relationship t (t + pow10 lvl) a b); cbn [covers is_outside andb]; try lia; rewrite ?andb_false_r; reflexivity.
Qed.

Lemma get_after_nil lvl a b n : a < b -> b <= sn_time n -> s_get_node lvl a b n = [].
Proof.
  intros Hab H. destruct n as [t p s w ch]. cbn [sn_time] in H. rewrite get_node_unfold. cbv zeta.
  pose proof (pow10_pos lvl) as Hp. pose proof (rel_spec t (t + pow10 lvl) a b ltac:(lia) Hab) as Hr.
  destruct (relationship t (t + pow10 lvl) a b); cbn [covers is_outside andb]; try lia; rewrite ?andb_false_r; reflexivity.
Qed.

(* every bucket a read names ends after the start of the range *)
Lemma get_cbs_end : forall lvl a b n, a < b -> Forall (fun c => a < gc_t c + pow10 (gc_lvl c)) (s_get_node lvl a b n).
Proof.
  induction lvl as [|l IH]; intros a b [t p s w ch] Hab; rewrite get_node_unfold; cbv zeta;
    pose proof (pow10_pos 0) as Hp0; pose proof (rel_spec t (t + pow10 0) a b ltac:(lia) Hab) as Hr0.
  - destruct (relationship t (t + pow10 0) a b); cbn [covers is_outside andb]; rewrite ?andb_false_r;
      destruct p; cbn [andb]; try constructor; try (destruct (length ch =? 0)%nat); repeat constructor; cbn [gc_t gc_lvl]; lia.
  - pose proof (pow10_pos (S l)) as Hp. pose proof (rel_spec t (t + pow10 (S l)) a b ltac:(lia) Hab) as Hr.
    assert (Hch : Forall (fun c => a < gc_t c + pow10 (gc_lvl c)) (flat_map (get_child l a b) ch)).
    { apply Forall_forall. intros c Hc. apply in_flat_map in Hc. destruct Hc as ([c0|] & _ & Hin); [|destruct Hin].
      pose proof (IH a b c0 Hab) as G. rewrite Forall_forall in G. apply G, Hin. }
    destruct (relationship t (t + pow10 (S l)) a b); cbn [covers is_outside andb]; rewrite ?andb_false_r;
      destruct p; cbn [andb]; try constructor; try (destruct (length ch =? 0)%nat); try exact Hch;
      repeat constructor; cbn [gc_t gc_lvl]; lia.
Qed.

(* (a) a read that starts at or after the threshold sees the cut tree as the old one *)
Lemma get_after_cut : forall lvl thr a b n, a < b -> thr <= a ->
  s_get_node lvl a b (dn_node lvl thr n) = s_get_node lvl a b n.
Proof.
  induction lvl as [|l IH]; intros thr a b [t p s w ch] Hab Hthr; unfold dn_node; rewrite del_node_unfold;
    (destruct (thr <? t); [reflexivity|]); cbv zeta; cbn [fst]; [reflexivity|].
  rewrite !get_node_unfold. cbv zeta. rewrite !map_length.
  destruct (p && covers _); [reflexivity|]. destruct (is_outside _); [reflexivity|]. destruct (p && _); [reflexivity|].
  rewrite map_map. induction ch as [|o ch IHch]; [reflexivity|]. cbn [map flat_map]. rewrite IHch. f_equal.
  rewrite del_child_fst. destruct o as [c|]; [|reflexivity]. cbn [get_child].
  destruct (dn_del l thr c) eqn:E.
  - cbn [get_child]. symmetry. apply get_before_nil; [exact Hab|]. apply dn_del_true in E. lia.
  - cbn [get_child]. apply IH; assumption.
Qed.

Lemma populate_before_id lvl a b dl n buf : a < b -> sn_time n + pow10 lvl <= a -> tl_populate_node lvl a b dl n buf = buf.
Proof.
  intros Hab H. destruct n as [t p s w ch]. cbn [sn_time] in H. pose proof (pow10_pos lvl) as Hp.
  pose proof (rel_spec t (t + pow10 lvl) a b ltac:(lia) Hab) as Hr.
  destruct lvl; cbn [tl_populate_node]; destruct (relationship t _ a b); cbn [is_outside]; try reflexivity; lia.
Qed.

Lemma populate_after_cut : forall lvl thr a b dl n buf, a < b -> thr <= a ->
  tl_populate_node lvl a b dl (dn_node lvl thr n) buf = tl_populate_node lvl a b dl n buf.
Proof.
  induction lvl as [|l IH]; intros thr a b dl [t p s w ch] buf Hab Hthr; unfold dn_node; rewrite del_node_unfold;
    (destruct (thr <? t); [reflexivity|]); cbv zeta; cbn [fst]; [reflexivity|].
  cbn [tl_populate_node]. rewrite !map_length. destruct (is_outside _); [reflexivity|].
  destruct (negb _ && _); [|reflexivity]. rewrite map_map. revert buf.
  induction ch as [|o ch IHch]; intros buf; [reflexivity|]. cbn [map fold_left]. rewrite del_child_fst.
  destruct o as [c|]; [|apply IHch]. destruct (dn_del l thr c) eqn:E.
  - rewrite IHch. f_equal. symmetry. apply populate_before_id; [exact Hab|]. apply dn_del_true in E. lia.
  - rewrite IHch. f_equal. apply IH; assumption.
Qed.

(* (b) a read that ends at or before the threshold finds nothing in what is left *)
Lemma get_before_cut : forall lvl thr a b n, a < b -> b <= thr -> wf lvl n -> dn_del lvl thr n = false ->
  s_get_node lvl a b (dn_node lvl thr n) = [].
Proof.
  induction lvl as [|l IH]; intros thr a b [t p s w ch] Hab Hthr Hwf Hdel.
  - pose proof (dn_del_false _ _ _ Hdel) as He. cbn [sn_time] in He. rewrite pow10_0 in He.
    apply get_after_nil; [exact Hab|]. rewrite dn_time. cbn [sn_time].
    unfold dn_del in Hdel. rewrite del_node_unfold in Hdel. destruct (Z.ltb_spec thr t); [lia|]. cbn [snd] in Hdel. rewrite pow10_0 in Hdel. lia.
  - pose proof (dn_del_false _ _ _ Hdel) as He. cbn [sn_time] in He.
    unfold dn_node. rewrite del_node_unfold. destruct (Z.ltb_spec thr t) as [Hlt|Hge].
    + cbn [fst]. apply get_after_nil; [exact Hab|cbn [sn_time]; lia].
    + cbv zeta. cbn [fst]. rewrite get_node_unfold. cbv zeta. rewrite !map_length.
      pose proof (pow10_pos (S l)) as Hp. pose proof (rel_spec t (t + pow10 (S l)) a b ltac:(lia) Hab) as Hr.
      cbn [wf] in Hwf. destruct Hwf as (_ & Hlen & Hslots). rewrite Hlen. cbn [Nat.eqb]. rewrite andb_false_r.
      assert (Hch : flat_map (get_child l a b) (map fst (map (del_child l thr) ch)) = []).
      { rewrite map_map. clear Hlen Hr Hdel He Hge Hp. revert t Hslots. induction ch as [|o ch IHch]; intros t0 Hslots; [reflexivity|].
        cbn [map flat_map]. cbn [slots] in Hslots. destruct Hslots as [Ho Hrest].
        rewrite del_child_fst. destruct o as [c|].
        - destruct Ho as [_ Hwc]. destruct (dn_del l thr c) eqn:E; cbn [get_child app].
          + apply (IHch (t0 + pow10 l)), Hrest.
          + rewrite (IH thr a b c Hab Hthr Hwc E). cbn [app]. apply (IHch (t0 + pow10 l)), Hrest.
        - cbn [get_child app]. apply (IHch (t0 + pow10 l)), Hrest. }
      destruct (relationship t (t + pow10 (S l)) a b); cbn [covers is_outside andb]; rewrite ?andb_false_r; try reflexivity; try exact Hch; lia.
Qed.

(* every bucket a read of the cut tree names reaches beyond the threshold *)
Lemma get_cbs_ge lvl a b n : a < b -> wf lvl n -> Forall (fun c => sn_time n <= gc_t c) (s_get_node lvl a b n).
Proof.
  intros Hab Hwf. destruct (get_node_sound lvl a b n Hab Hwf) as [Hc _]. apply chain_lower in Hc.
  eapply Forall_impl; [|exact Hc]. cbn. intros c H. lia.
Qed.

Lemma dn_wf : forall lvl thr n, wf lvl n -> wf lvl (dn_node lvl thr n).
Proof.
  induction lvl as [|l IH]; intros thr [t p s w ch] Hwf; unfold dn_node; rewrite del_node_unfold;
    (destruct (thr <? t); [exact Hwf|]); cbv zeta; cbn [fst]; [exact Hwf|].
  cbn [wf] in *. destruct Hwf as (Hm & Hlen & Hslots). split; [exact Hm|]. split; [rewrite !map_length; exact Hlen|].
  rewrite map_map. clear Hlen Hm. revert t Hslots. induction ch as [|o ch IHch]; intros t0 Hs; [exact I|].
  cbn [map slots] in *. destruct Hs as [Ho Hr]. split; [|apply IHch, Hr].
  rewrite del_child_fst. destruct o as [c|]; [|exact I]. destruct (dn_del l thr c); [exact I|].
  destruct Ho as [Ht Hw]. split; [rewrite dn_time; exact Ht|apply IH, Hw].
Qed.

Lemma get_cut_cbs_end : forall lvl thr a b n, a < b -> wf lvl n -> dn_del lvl thr n = false ->
  Forall (fun c => thr < gc_t c + pow10 (gc_lvl c)) (s_get_node lvl a b (dn_node lvl thr n)).
Proof.
  induction lvl as [|l IH]; intros thr a b [t p s w ch] Hab Hwf Hdel;
    pose proof (dn_del_false _ _ _ Hdel) as He; cbn [sn_time] in He.
  - pose proof (get_cbs_ge 0 a b _ Hab (dn_wf 0 thr _ Hwf)) as G. rewrite dn_time in G. cbn [sn_time] in G.
    assert (Hl : Forall (fun c => gc_lvl c = O) (s_get_node 0 a b (dn_node 0 thr (SNode t p s w ch)))).
    { unfold dn_node. rewrite del_node_unfold. destruct (thr <? t); cbv zeta; cbn [fst]; rewrite get_node_unfold; cbv zeta;
        (destruct (p && covers _); [repeat constructor|]); (destruct (is_outside _); [constructor|]); destruct (p && _); repeat constructor. }
    rewrite Forall_forall in *. intros c Hc. rewrite (Hl c Hc). specialize (G c Hc). lia.
  - unfold dn_node. rewrite del_node_unfold. destruct (Z.ltb_spec thr t) as [Hlt|Hge]; cbv zeta; cbn [fst].
    + pose proof (get_cbs_ge (S l) a b _ Hab Hwf) as G. cbn [sn_time] in G.
      eapply Forall_impl; [|exact G]. intros c Hc. cbn beta in *. pose proof (pow10_pos (gc_lvl c)). lia.
    + rewrite get_node_unfold. cbv zeta. rewrite !map_length.
      destruct (p && covers _); [repeat constructor; cbn [gc_t gc_lvl]; lia|]. destruct (is_outside _); [constructor|].
      destruct (p && _); [repeat constructor; cbn [gc_t gc_lvl]; lia|].
      cbn [wf] in Hwf. destruct Hwf as (_ & _ & Hslots). rewrite map_map. apply Forall_forall. intros c Hc.
      apply in_flat_map in Hc. destruct Hc as (o' & Ho' & Hin). apply in_map_iff in Ho'. destruct Ho' as (o & <- & Ho).
      rewrite del_child_fst in Hin. destruct o as [c0|]; [|destruct Hin]. destruct (dn_del l thr c0) eqn:E; [destruct Hin|].
      cbn [get_child] in Hin. pose proof (IH thr a b c0 Hab (slots_In _ _ _ _ _ Hslots Ho) E) as G.
      rewrite Forall_forall in G. apply G, Hin.
Qed.

(* (c) what a read of the cut tree names is a sub-sequence of what it named before *)
Inductive subl {A} : list A -> list A -> Prop :=
| subl_nil : subl [] []
| subl_both x l1 l2 : subl l1 l2 -> subl (x :: l1) (x :: l2)
| subl_skip x l1 l2 : subl l1 l2 -> subl l1 (x :: l2).

Lemma subl_refl {A} (l : list A) : subl l l.
Proof. induction l; constructor; auto. Qed.
Lemma subl_nil_l {A} (l : list A) : subl [] l.
Proof. induction l; constructor; auto. Qed.
Lemma subl_app {A} (a1 a2 b1 b2 : list A) : subl a1 a2 -> subl b1 b2 -> subl (a1 ++ b1) (a2 ++ b2).
Proof. induction 1 as [|x l1 l2 Hs IH|x l1 l2 Hs IH]; intros Hb; cbn [app]; [exact Hb|constructor; auto|constructor; auto]. Qed.
Lemma subl_in {A} (l1 l2 : list A) x : subl l1 l2 -> In x l1 -> In x l2.
Proof. induction 1 as [|y l1 l2 Hs IH|y l1 l2 Hs IH]; intros Hin; [exact Hin|destruct Hin; [left; assumption|right; auto]|right; auto]. Qed.

Lemma get_cut_sub : forall lvl thr a b n, subl (s_get_node lvl a b (dn_node lvl thr n)) (s_get_node lvl a b n).
Proof.
  induction lvl as [|l IH]; intros thr a b [t p s w ch]; unfold dn_node; rewrite del_node_unfold;
    (destruct (thr <? t); [apply subl_refl|]); cbv zeta; cbn [fst]; [apply subl_refl|].
  rewrite !get_node_unfold. cbv zeta. rewrite !map_length.
  destruct (p && covers _); [apply subl_refl|]. destruct (is_outside _); [apply subl_refl|]. destruct (p && _); [apply subl_refl|].
  rewrite map_map. induction ch as [|o ch IHch]; [constructor|]. cbn [map flat_map]. apply subl_app; [|exact IHch].
  rewrite del_child_fst. destruct o as [c|]; [|constructor]. destruct (dn_del l thr c); cbn [get_child]; [apply subl_nil_l|apply IH].
Qed.

(* ------------------------------------------------------------------------------------------ *)
(* one series: Segment.DeleteDataBefore                                                        *)

Lemma s_delete_before_eq T s :
  s_delete_before T s =
    match s_root s with
    | None => (s, [], true)
    | Some (lvl, n) =>
        if dn_del lvl T n then ({| s_root := None; s_meta := s_meta s |}, dn_cbs lvl T n, true)
        else ({| s_root := Some (lvl, dn_node lvl T n); s_meta := s_meta s |}, dn_cbs lvl T n, false)
    end.
Proof.
  unfold s_delete_before, dn_del, dn_cbs, dn_node. destruct (s_root s) as [[lvl n]|]; [|reflexivity].
  destruct (s_del_node lvl T n) as [[n' cbs] del]. cbn [fst snd]. destruct del; reflexivity.
Qed.

Definition ret_seg (thr : Z) (s : segment) : segment := fst (fst (s_delete_before_unix thr s)).
Definition ret_cbs (thr : Z) (s : segment) : list (nat * Z) := snd (fst (s_delete_before_unix thr s)).
Definition ret_del (thr : Z) (s : segment) : bool := snd (s_delete_before_unix thr s).

Definition seg_wf (s : segment) : Prop := match s_root s with Some (lvl, n) => wf lvl n | None => True end.

Lemma ret_meta thr s : s_meta (ret_seg thr s) = s_meta s.
Proof.
  unfold ret_seg, s_delete_before_unix. rewrite s_delete_before_eq. destruct (s_root s) as [[lvl n]|]; [|reflexivity].
  destruct (dn_del _ _ n); reflexivity.
Qed.

(* what the kept segment answers, [] standing for a series that was dropped altogether *)
Definition ret_get (thr a b : Z) (s : segment) : list get_cb := if ret_del thr s then [] else s_get a b (ret_seg thr s).

Lemma ret_get_after thr a b s : a < b -> unix_to_slot thr <= a -> ret_get thr a b s = s_get a b s.
Proof.
  intros Hab HT. unfold ret_get, ret_del, ret_seg, s_delete_before_unix. rewrite s_delete_before_eq. unfold s_get.
  destruct (s_root s) as [[lvl n]|]; [|reflexivity]. destruct (dn_del lvl _ n) eqn:E; cbn [fst snd s_root].
  - symmetry. apply get_before_nil; [exact Hab|]. apply dn_del_true in E. lia.
  - apply get_after_cut; assumption.
Qed.

Lemma ret_get_before thr a b s : a < b -> b <= unix_to_slot thr -> seg_wf s -> ret_get thr a b s = [].
Proof.
  intros Hab HT Hwf. unfold ret_get, ret_del, ret_seg, s_delete_before_unix. rewrite s_delete_before_eq. unfold s_get, seg_wf in *.
  destruct (s_root s) as [[lvl n]|]; [|reflexivity]. destruct (dn_del lvl _ n) eqn:E; cbn [fst snd s_root]; [reflexivity|].
  apply get_before_cut; assumption.
Qed.

Lemma ret_get_sub thr a b s : subl (ret_get thr a b s) (s_get a b s).
Proof.
  unfold ret_get, ret_del, ret_seg, s_delete_before_unix. rewrite s_delete_before_eq. unfold s_get.
  destruct (s_root s) as [[lvl n]|]; [|constructor]. destruct (dn_del lvl _ n); cbn [fst snd s_root]; [apply subl_nil_l|apply get_cut_sub].
Qed.

Lemma ret_get_end thr a b s : a < b -> seg_wf s ->
  Forall (fun c => unix_to_slot thr < gc_t c + pow10 (gc_lvl c)) (ret_get thr a b s).
Proof.
  intros Hab Hwf. unfold ret_get, ret_del, ret_seg, s_delete_before_unix. rewrite s_delete_before_eq. unfold s_get, seg_wf in *.
  destruct (s_root s) as [[lvl n]|]; [|constructor]. destruct (dn_del lvl _ n) eqn:E; cbn [fst snd s_root]; [constructor|].
  apply get_cut_cbs_end; assumption.
Qed.

Lemma ret_cbs_before thr s : Forall (fun c => snd c + pow10 (fst c) <= unix_to_slot thr) (ret_cbs thr s).
Proof.
  unfold ret_cbs, s_delete_before_unix. rewrite s_delete_before_eq. destruct (s_root s) as [[lvl n]|]; [|constructor].
  destruct (dn_del lvl _ n); cbn [fst snd]; apply dn_cbs_before.
Qed.

Lemma ret_populate_after thr s tl : tl_st tl < tl_et tl -> unix_to_slot thr <= tl_st tl ->
  (if ret_del thr s then tl else tl_populate (ret_seg thr s) tl) = tl_populate s tl.
Proof.
  intros Hab HT. unfold ret_del, ret_seg, s_delete_before_unix. rewrite s_delete_before_eq. unfold tl_populate.
  destruct (s_root s) as [[lvl n]|]; [|reflexivity]. destruct (dn_del lvl _ n) eqn:E; cbn [fst snd s_root].
  - rewrite populate_before_id; [destruct tl; reflexivity|exact Hab|]. apply dn_del_true in E. lia.
  - rewrite populate_after_cut by assumption. reflexivity.
Qed.

(* ------------------------------------------------------------------------------------------ *)
(* the series table under a pass                                                                *)

Lemma sorted_app_inv R : forall ks l2, segs_sorted (R ++ ks :: l2) ->
  Forall (fun r => bcmp (sid_key (fst r)) (sid_key (fst ks)) = Lt) R /\
  Forall (fun x => bcmp (sid_key (fst ks)) (sid_key (fst x)) = Lt) l2.
Proof.
  induction R as [|r R IH]; intros ks l2 H; cbn [app segs_sorted] in H.
  - destruct H as [H _]. split; [constructor|exact H].
  - destruct H as [H1 H2]. destruct (IH ks l2 H2) as [G1 G2]. split; [|exact G2]. constructor; [|exact G1].
    rewrite Forall_forall in H1. apply H1. apply in_or_app. right. left. reflexivity.
Qed.

Lemma sorted_app_drop R : forall ks l2, segs_sorted (R ++ ks :: l2) -> segs_sorted (R ++ l2).
Proof.
  induction R as [|r R IH]; intros ks l2 H; cbn [app segs_sorted] in *; [tauto|]. destruct H as [H1 H2]. split; [|eapply IH; eauto].
  apply Forall_forall. intros x Hx. rewrite Forall_forall in H1. apply H1. apply in_app_or in Hx. apply in_or_app.
  destruct Hx; [left; assumption|right; right; assumption].
Qed.

Lemma sorted_app_replace R : forall ks s' l2, segs_sorted (R ++ ks :: l2) -> segs_sorted (R ++ (fst ks, s') :: l2).
Proof.
  induction R as [|r R IH]; intros ks s' l2 H; cbn [app segs_sorted fst] in *; [exact H|]. destruct H as [H1 H2]. split; [|apply IH, H2].
  apply Forall_forall. intros x Hx. rewrite Forall_forall in H1. apply in_app_or in Hx. destruct Hx as [Hx|[<-|Hx]].
  - apply H1. apply in_or_app. left. exact Hx.
  - cbn [fst]. apply (H1 ks). apply in_or_app. right. left. reflexivity.
  - apply H1. apply in_or_app. right. right. exact Hx.
Qed.

Lemma seg_remove_mid R ks l2 : segs_sorted (R ++ ks :: l2) -> seg_remove (fst ks) (R ++ ks :: l2) = R ++ l2.
Proof.
  intros H. destruct (sorted_app_inv R ks l2 H) as [G1 G2]. unfold seg_remove. rewrite filter_app. cbn [filter].
  unfold sid_eqb at 2. rewrite beqb_refl. cbn [negb]. f_equal; apply filter_all; intros x Hx; unfold sid_eqb.
  - rewrite Forall_forall in G1. rewrite beqb_sym, (beqb_false_lt _ _ (G1 x Hx)). reflexivity.
  - rewrite Forall_forall in G2. rewrite (beqb_false_lt _ _ (G2 x Hx)). reflexivity.
Qed.

Lemma seg_store_mid R : forall ks s' l2, segs_sorted (R ++ ks :: l2) ->
  seg_store (fst ks) s' (R ++ ks :: l2) = R ++ (fst ks, s') :: l2.
Proof.
  induction R as [|[k1 s1] R IH]; intros ks s' l2 H; cbn [app seg_store].
  - destruct ks as [k s]. cbn [fst]. rewrite bcmp_refl. reflexivity.
  - destruct (sorted_app_inv ((k1, s1) :: R) ks l2 H) as [G1 _]. inversion G1 as [|? ? Hlt _]; subst. cbn [fst] in Hlt.
    apply bcmp_lt_gt in Hlt. rewrite Hlt. f_equal. apply IH. cbn [app segs_sorted] in H. tauto.
Qed.

Definition ret_entry (thr : Z) (ks : sid * segment) : list (sid * segment) :=
  if ret_del thr (snd ks) then [] else [(fst ks, ret_seg thr (snd ks))].
Definition ret_hits (thr : Z) (l : list (sid * segment)) (kb : bytes) (lv : nat) (t : Z) : bool :=
  existsb (fun ks => beqb (sid_key (fst ks)) kb && cb_hits lv t (ret_cbs thr (snd ks))) l.

Lemma st_retention_series_eq thr st ks :
  st_retention_series thr st ks =
    {| st_segs := if ret_del thr (snd ks) then seg_remove (fst ks) (st_segs st)
                  else seg_store (fst ks) (ret_seg thr (snd ks)) (st_segs st);
       st_trees := fold_left (fun tr c => tree_remove (sid_key (fst ks), fst c, snd c) tr) (ret_cbs thr (snd ks)) (st_trees st) |}.
Proof.
  unfold st_retention_series, ret_del, ret_seg, ret_cbs. destruct (s_delete_before_unix thr (snd ks)) as [[s' cbs] d].
  cbn [fst snd]. destruct d; reflexivity.
Qed.

Lemma ret_fold thr l2 : forall R st0, st_segs st0 = R ++ l2 -> segs_sorted (R ++ l2) ->
  let st' := fold_left (st_retention_series thr) l2 st0 in
  st_segs st' = R ++ flat_map (ret_entry thr) l2 /\
  forall kb lv t, tree_lookup (kb, lv, t) (st_trees st') =
                  if ret_hits thr l2 kb lv t then None else tree_lookup (kb, lv, t) (st_trees st0).
Proof.
  induction l2 as [|ks l2 IH]; intros R st0 Hs Hsort; cbn zeta.
  - cbn [fold_left flat_map ret_hits existsb]. split; [exact Hs|reflexivity].
  - cbn [fold_left]. set (st1 := st_retention_series thr st0 ks).
    assert (Hs1 : st_segs st1 = (R ++ ret_entry thr ks) ++ l2).
    { unfold st1. rewrite st_retention_series_eq. cbn [st_segs]. rewrite Hs. unfold ret_entry.
      destruct (ret_del thr (snd ks)); [rewrite seg_remove_mid, app_nil_r by exact Hsort; reflexivity|].
      rewrite seg_store_mid by exact Hsort. rewrite <- app_assoc. reflexivity. }
    assert (Hsort1 : segs_sorted ((R ++ ret_entry thr ks) ++ l2)).
    { unfold ret_entry. destruct (ret_del thr (snd ks)); [rewrite app_nil_r; eapply sorted_app_drop; exact Hsort|].
      rewrite <- app_assoc. cbn [app]. apply sorted_app_replace, Hsort. }
    destruct (IH _ st1 Hs1 Hsort1) as [I1 I2]. cbn zeta in I1, I2. split.
    + rewrite I1, <- app_assoc. reflexivity.
    + intros kb lv t. rewrite I2. unfold st1 at 1. rewrite st_retention_series_eq. cbn [st_trees].
      rewrite tree_lookup_removes. unfold ret_hits. cbn [existsb].
      destruct (beqb (sid_key (fst ks)) kb && cb_hits lv t (ret_cbs thr (snd ks))); cbn [orb];
        [destruct (existsb _ l2); reflexivity|reflexivity].
Qed.

Lemma st_retention_spec thr st : segs_sorted (st_segs st) ->
  st_segs (st_retention thr st) = flat_map (ret_entry thr) (st_segs st) /\
  forall kb lv t, tree_lookup (kb, lv, t) (st_trees (st_retention thr st)) =
                  if ret_hits thr (st_segs st) kb lv t then None else tree_lookup (kb, lv, t) (st_trees st).
Proof. intros H. apply (ret_fold thr (st_segs st) [] st); [reflexivity|exact H]. Qed.

(* ------------------------------------------------------------------------------------------ *)
(* queries after a pass                                                                         *)

Lemma matching_ret thr sel l :
  filter (fun ks => sel_matches sel (fst ks)) (flat_map (ret_entry thr) l) =
  flat_map (ret_entry thr) (filter (fun ks => sel_matches sel (fst ks)) l).
Proof.
  induction l as [|ks l IH]; [reflexivity|]. cbn [flat_map filter]. rewrite filter_app, IH.
  destruct (sel_matches sel (fst ks)) eqn:Em; cbn [flat_map]; f_equal || idtac;
    unfold ret_entry; destruct (ret_del thr (snd ks)); cbn [filter fst app]; rewrite ?Em; reflexivity.
Qed.

Definition part_of (trees : list (tkey * tnode)) (ks : sid * segment) (c : get_cb) : tnode * N :=
  (t_clone (Z.to_N (gc_m c)) (Z.to_N (gc_d c)) (tree_get (sid_key (fst ks), gc_lvl c, gc_t c) trees), gc_writes c).

Lemma get_parts_eq a b m trees : get_parts a b m trees = flat_map (fun ks => map (part_of trees ks) (s_get a b (snd ks))) m.
Proof. reflexivity. Qed.

Lemma parts_ret thr a b trees m :
  get_parts a b (flat_map (ret_entry thr) m) trees =
  flat_map (fun ks => map (part_of trees ks) (ret_get thr a b (snd ks))) m.
Proof.
  induction m as [|ks m IH]; [reflexivity|]. cbn [flat_map]. rewrite <- IH. unfold ret_entry, ret_get.
  destruct (ret_del thr (snd ks)); [reflexivity|]. reflexivity.
Qed.

Lemma s_get_cbs_end a b s : a < b -> Forall (fun c => a < gc_t c + pow10 (gc_lvl c)) (s_get a b s).
Proof. intros H. unfold s_get. destruct (s_root s) as [[lvl n]|]; [apply get_cbs_end, H|constructor]. Qed.

(* a tree whose bucket reaches beyond the threshold is not touched by the pass *)
Lemma ret_tree_kept thr st kb lv t : segs_sorted (st_segs st) -> unix_to_slot thr < t + pow10 lv ->
  tree_get (kb, lv, t) (st_trees (st_retention thr st)) = tree_get (kb, lv, t) (st_trees st).
Proof.
  intros HS He. destruct (st_retention_spec thr st HS) as [_ H]. unfold tree_get. rewrite H.
  destruct (ret_hits thr (st_segs st) kb lv t) eqn:E; [|reflexivity]. exfalso.
  unfold ret_hits in E. apply existsb_exists in E. destruct E as (ks & _ & Hb). apply andb_true_iff in Hb. destruct Hb as [_ Hb].
  unfold cb_hits in Hb. apply existsb_exists in Hb. destruct Hb as (c & Hc & Hcb).
  pose proof (ret_cbs_before thr (snd ks)) as G. rewrite Forall_forall in G. specialize (G c Hc).
  apply andb_true_iff in Hcb. destruct Hcb as [H1 H2]. apply Nat.eqb_eq in H1. apply Z.eqb_eq in H2. rewrite H1, H2 in G. lia.
Qed.

Lemma has_average_ret thr m : has_average m = false -> has_average (flat_map (ret_entry thr) m) = false.
Proof.
  unfold has_average. induction m as [|ks m IH]; [reflexivity|]. cbn [existsb flat_map]. intros H.
  apply orb_false_iff in H. destruct H as [H1 H2]. rewrite existsb_app, (IH H2), orb_false_r.
  unfold ret_entry. destruct (ret_del thr (snd ks)); [reflexivity|]. cbn [existsb snd]. rewrite ret_meta, H1. reflexivity.
Qed.

Lemma st_matching_ret thr sel st : segs_sorted (st_segs st) ->
  st_matching sel (st_retention thr st) = flat_map (ret_entry thr) (st_matching sel st).
Proof. intros HS. unfold st_matching. destruct (st_retention_spec thr st HS) as [-> _]. apply matching_ret. Qed.

Lemma populate_fold_ret thr m : forall tl, tl_st tl < tl_et tl -> unix_to_slot thr <= tl_st tl ->
  fold_left (fun tl ks => tl_populate (snd ks) tl) (flat_map (ret_entry thr) m) tl =
  fold_left (fun tl ks => tl_populate (snd ks) tl) m tl.
Proof.
  induction m as [|ks m IH]; intros tl Hab HT; [reflexivity|]. cbn [flat_map fold_left]. rewrite fold_left_app.
  assert (E : fold_left (fun tl ks0 => tl_populate (snd ks0) tl) (ret_entry thr ks) tl = tl_populate (snd ks) tl).
  { rewrite <- (ret_populate_after thr (snd ks) tl Hab HT). unfold ret_entry. destruct (ret_del thr (snd ks)); reflexivity. }
  rewrite E. destruct (tl_populate_shape (snd ks) tl) as (G1 & G2 & _). apply IH; rewrite G1, ?G2; assumption.
Qed.

(* (a) *)
Lemma retention_after thr sel from until st : segs_sorted (st_segs st) ->
  let ab := s_normalize_unix (from, until) in
  fst ab < snd ab -> unix_to_slot thr <= fst ab -> has_average (st_matching sel st) = false ->
  option_map (fun o => (go_tree o, go_timeline o)) (st_get sel from until (st_retention thr st)) =
  option_map (fun o => (go_tree o, go_timeline o)) (st_get sel from until st).
Proof.
  intros HS ab Hab HT Havg. rewrite !st_get_eq. cbv zeta. fold ab. rewrite (st_matching_ret thr sel st HS).
  set (m := st_matching sel st) in *.
  assert (HP : get_parts (fst ab) (snd ab) (flat_map (ret_entry thr) m) (st_trees (st_retention thr st)) =
               get_parts (fst ab) (snd ab) m (st_trees st)).
  { rewrite parts_ret, get_parts_eq. induction m as [|ks m IHm]; [reflexivity|]. cbn [flat_map].
    cbn [has_average existsb] in Havg. unfold has_average in Havg, IHm. cbn [existsb] in Havg. apply orb_false_iff in Havg.
    rewrite (IHm (proj2 Havg)). f_equal. rewrite (ret_get_after thr _ _ _ Hab HT).
    apply map_ext_in. intros c Hc. unfold part_of. f_equal. f_equal.
    apply ret_tree_kept; [exact HS|]. pose proof (s_get_cbs_end _ _ (snd ks) Hab) as G. rewrite Forall_forall in G. specialize (G c Hc). lia. }
  rewrite HP. destruct (merge_serial _) as [t|]; [|reflexivity]. cbn [option_map go_tree go_timeline].
  rewrite (has_average_ret thr m Havg), Havg, !andb_false_r. f_equal. f_equal.
  apply populate_fold_ret; cbn [tl_generate tl_st tl_et]; assumption.
Qed.

(* (b) *)
Lemma retention_before thr sel from until st : segs_sorted (st_segs st) ->
  (forall ks, In ks (st_segs st) -> seg_wf (snd ks)) ->
  let ab := s_normalize_unix (from, until) in
  fst ab < snd ab -> snd ab <= unix_to_slot thr ->
  st_get sel from until (st_retention thr st) = None.
Proof.
  intros HS Hwf ab Hab HT. rewrite st_get_eq. cbv zeta. fold ab. rewrite (st_matching_ret thr sel st HS), parts_ret.
  replace (flat_map _ (st_matching sel st)) with (@nil (tnode * N)); [reflexivity|]. symmetry.
  assert (H : forall ks, In ks (st_matching sel st) -> In ks (st_segs st)) by (intros ks Hk; apply filter_In in Hk; tauto).
  induction (st_matching sel st) as [|ks m IHm]; [reflexivity|]. cbn [flat_map].
  rewrite (ret_get_before thr _ _ (snd ks) Hab HT) by (apply Hwf, H; left; reflexivity). cbn [map app].
  apply IHm. intros x Hx. apply H. right. exact Hx.
Qed.

(* (c) *)
Lemma subl_map {A B} (f : A -> B) l1 l2 : subl l1 l2 -> subl (map f l1) (map f l2).
Proof. induction 1; cbn [map]; constructor; auto. Qed.

Lemma subl_sumN (l1 l2 : list N) : subl l1 l2 -> (sumN l1 <= sumN l2)%N.
Proof.
  induction 1 as [|x l1 l2 _ IH|x l1 l2 _ IH]; [reflexivity| |];
    change (sumN (x :: ?l)) with (x + sumN l)%N; lia.
Qed.

Lemma subl_nil_r {A} (l : list A) : subl l [] -> l = [].
Proof. intros H. inversion H. reflexivity. Qed.

Definition get_self (p : list bytes) (r : option get_output) : N :=
  match r with Some o => t_self_at p (go_tree o) | None => 0%N end.

Lemma TW_retention thr st : segs_sorted (st_segs st) -> TW (st_trees st) -> TW (st_trees (st_retention thr st)).
Proof.
  intros HS HT [[kb lv] t] tr H. destruct (st_retention_spec thr st HS) as [_ G]. rewrite G in H.
  destruct (ret_hits _ _ _ _ _); [discriminate|]. eapply HT, H.
Qed.

Lemma retention_le thr sel from until st p : segs_sorted (st_segs st) -> TW (st_trees st) ->
  (forall ks, In ks (st_segs st) -> seg_wf (snd ks)) ->
  let ab := s_normalize_unix (from, until) in
  fst ab < snd ab -> has_average (st_matching sel st) = false ->
  (get_self p (st_get sel from until (st_retention thr st)) <= get_self p (st_get sel from until st))%N.
Proof.
  intros HS HT Hwf ab Hab Havg. rewrite !st_get_eq. cbv zeta. fold ab. rewrite (st_matching_ret thr sel st HS).
  set (m := st_matching sel st) in *.
  assert (Hm : forall ks, In ks m -> In ks (st_segs st)) by (intros ks Hk; apply filter_In in Hk; tauto).
  set (parts := get_parts (fst ab) (snd ab) m (st_trees st)).
  set (parts' := get_parts (fst ab) (snd ab) (flat_map (ret_entry thr) m) (st_trees (st_retention thr st))).
  assert (Hsub : subl parts' parts).
  { unfold parts, parts'. rewrite parts_ret, get_parts_eq. clear Havg. induction m as [|ks m IHm]; [constructor|].
    cbn [flat_map]. apply subl_app; [|apply IHm; intros x Hx; apply Hm; right; exact Hx].
    replace (map (part_of (st_trees (st_retention thr st)) ks) (ret_get thr (fst ab) (snd ab) (snd ks)))
      with (map (part_of (st_trees st) ks) (ret_get thr (fst ab) (snd ab) (snd ks))); [apply subl_map, ret_get_sub|].
    apply map_ext_in. intros c Hc. unfold part_of. f_equal. f_equal. symmetry. apply ret_tree_kept; [exact HS|].
    pose proof (ret_get_end thr _ _ (snd ks) Hab (Hwf ks (Hm ks (or_introl eq_refl)))) as G.
    rewrite Forall_forall in G. apply G, Hc. }
  assert (HW' : Forall (inW []) (map fst parts')) by (apply parts_inW, TW_retention; assumption).
  assert (HW : Forall (inW []) (map fst parts)) by (apply parts_inW, HT).
  rewrite (has_average_ret thr m Havg), Havg, !andb_false_r.
  destruct (merge_serial (map fst parts')) as [t'|] eqn:E'; cbn [get_self go_tree]; [|apply N.le_0_l].
  destruct (merge_serial (map fst parts)) as [t|] eqn:E.
  - cbn [get_self go_tree]. rewrite (merge_serial_self_at p _ t' HW' E'), (merge_serial_self_at p _ t HW E).
    apply subl_sumN, subl_map, subl_map, Hsub.
  - exfalso. destruct parts; [|discriminate]. apply subl_nil_r in Hsub. rewrite Hsub in E'. discriminate E'.
Qed.

(* ------------------------------------------------------------------------------------------ *)
(* the hypotheses hold after every history of ingests                                          *)

Lemma TW_put_cb k prof trees c : TW trees -> inW [] prof -> TW (put_cb_apply k prof trees c).
Proof.
  intros HT Hp. unfold put_cb_apply. apply TW_store; [exact HT|]. apply inW_merge; [apply TW_get, HT|].
  destruct (addons_fold k [] trees (pc_addons c) HT _ (inW_clone (Z.to_N (pc_m c)) (Z.to_N (pc_d c)) prof Hp)) as [H _]. exact H.
Qed.

Lemma TW_after pis : Forall (fun pi => inW [] (pi_tree pi)) pis -> TW (st_trees (st_after pis)).
Proof.
  induction pis as [|pi pis IH] using rev_ind; intros H; [intros key tr; discriminate|].
  apply Forall_app in H. destruct H as [H1 H2]. inversion H2 as [|? ? Hp _]; subst.
  rewrite st_after_snoc, st_put_none. cbn [fst st_trees]. specialize (IH H1). revert IH.
  generalize (st_trees (st_after pis)). induction (snd (pi_res pi (st_after pis))) as [|c cbs IHc]; intros trees HT; [exact HT|].
  cbn [fold_left]. apply IHc, TW_put_cb; assumption.
Qed.

Lemma seg_wf_after K pis : Forall (valid_put K) pis -> forall ks, In ks (st_segs (st_after pis)) -> seg_wf (snd ks).
Proof.
  intros Hv ks Hks. pose proof (segs_ok_after K pis Hv ks Hks) as H. unfold seg_ok, seg_wf in *.
  destruct (s_root (snd ks)) as [[lvl n]|]; [|exact I]. apply H.
Qed.

Lemma sorted_after pis : segs_sorted (st_segs (st_after pis)).
Proof. apply Inv2_after. Qed.

Lemma retention_hyps K pis : Forall (valid_put K) pis -> Forall (fun pi => inW [] (pi_tree pi)) pis ->
  segs_sorted (st_segs (st_after pis)) /\ TW (st_trees (st_after pis)) /\
  forall ks, In ks (st_segs (st_after pis)) -> seg_wf (snd ks).
Proof. intros Hv Hw. exact (conj (sorted_after pis) (conj (TW_after pis Hw) (seg_wf_after K pis Hv))). Qed.

(* ------------------------------------------------------------------------------------------ *)
(* the invariants hold after EVERY history (ingests, queries, deletes, retention passes)          *)

Definition st_good (K : Z) (st : st_state) : Prop :=
  segs_sorted (st_segs st) /\ TW (st_trees st) /\ forall ks, In ks (st_segs st) -> seg_ok K (snd ks).

Lemma dn_count l thr ch : (count_some (map fst (map (del_child l thr) ch)) <= count_some ch)%nat.
Proof.
  induction ch as [|o ch IH]; [cbn; lia|]. cbn [map]. rewrite !count_some_cons, del_child_fst.
  destruct o as [c|]; [destruct (dn_del l thr c)|]; lia.
Qed.

Lemma dn_two : forall lvl thr n, two lvl n -> two lvl (dn_node lvl thr n).
Proof.
  induction lvl as [|l IH]; intros thr [t p s w ch] H; unfold dn_node; rewrite del_node_unfold;
    (destruct (thr <? t); [exact H|]); cbv zeta; cbn [fst]; [exact H|].
  cbn [two] in *. destruct H as [H1 H2]. split.
  - intros Hc. apply H1. pose proof (dn_count l thr ch). lia.
  - unfold oall in *. rewrite map_map. apply Forall_forall. intros o Ho. apply in_map_iff in Ho. destruct Ho as (o0 & <- & Ho0).
    rewrite del_child_fst. destruct o0 as [c|]; [|exact I]. destruct (dn_del l thr c); [exact I|].
    rewrite Forall_forall in H2. apply IH. exact (H2 _ Ho0).
Qed.

Lemma ret_seg_ok K thr s : seg_ok K s -> seg_ok K (ret_seg thr s).
Proof.
  unfold ret_seg, s_delete_before_unix. rewrite s_delete_before_eq. unfold seg_ok.
  destruct (s_root s) as [[lvl n]|] eqn:E; [|intros _; cbn [fst]; rewrite E; exact I].
  destruct (dn_del lvl _ n); cbn [fst s_root]; [intros _; exact I|]. intros (Hl & Hwf & Htwo & Hb1 & Hb2).
  split; [exact Hl|]. split; [apply dn_wf, Hwf|]. split; [apply dn_two, Htwo|]. unfold in_blk. rewrite dn_time. split; assumption.
Qed.

Lemma sorted_ret thr l : segs_sorted l -> segs_sorted (flat_map (ret_entry thr) l).
Proof.
  induction l as [|ks l IH]; intros H; [exact I|]. cbn [segs_sorted] in H. destruct H as [H1 H2]. cbn [flat_map].
  assert (Hall : Forall (fun x => bcmp (sid_key (fst ks)) (sid_key (fst x)) = Lt) (flat_map (ret_entry thr) l)).
  { apply Forall_forall. intros x Hx. apply in_flat_map in Hx. destruct Hx as (y & Hy & Hx). unfold ret_entry in Hx.
    destruct (ret_del thr (snd y)); [destruct Hx|]. destruct Hx as [<-|[]]. cbn [fst]. rewrite Forall_forall in H1. apply H1, Hy. }
  unfold ret_entry at 1. destruct (ret_del thr (snd ks)); cbn [app]; [apply IH, H2|]. cbn [segs_sorted fst]. split; [exact Hall|apply IH, H2].
Qed.

Lemma TW_removes {A} (f : A -> tkey) cbs : forall trees, TW trees -> TW (fold_left (fun tr c => tree_remove (f c) tr) cbs trees).
Proof. induction cbs as [|c cbs IH]; intros trees H; [exact H|]. cbn [fold_left]. apply IH, TW_remove, H. Qed.

Lemma good_init K : st_good K st_init.
Proof. split; [exact I|]. split; [intros key tr; discriminate|intros ks []]. Qed.

Lemma good_put K rt pi st : valid_put K pi -> inW [] (pi_tree pi) -> st_good K st -> st_good K (fst (st_put rt pi st)).
Proof.
  intros Hv Hw (HS & HT & HK).
  assert (Hnone : st_good K (fst (st_put None pi st))).
  { rewrite st_put_none. cbn [fst]. split; [|split]; cbn [st_segs st_trees].
    - apply seg_store_sorted, HS.
    - revert HT. generalize (st_trees st). induction (snd (pi_res pi st)) as [|c cbs IHc]; intros trees HT; [exact HT|].
      cbn [fold_left]. apply IHc, TW_put_cb; assumption.
    - intros ks Hks. apply seg_store_in in Hks. destruct Hks as [->|Hks]; [|apply HK, Hks]. cbn [snd]. unfold pi_res.
      apply s_put_ok; [exact Hv|]. unfold pi_seg0. destruct (seg_lookup (pi_sid pi) (st_segs st)) as [s|] eqn:E; [|exact I].
      destruct (seg_lookup_in _ _ _ E) as (ks & Hks & _ & <-). exact (HK ks Hks). }
  destruct rt as [thr|]; [|exact Hnone]. destruct (Z.ltb_spec (pi_from pi) thr) as [H|H].
  - rewrite retention_reject by exact H. exact (conj HS (conj HT HK)).
  - rewrite retention_accept by exact H. exact Hnone.
Qed.

Lemma good_delete K sel st : st_good K st -> st_good K (st_delete sel st).
Proof.
  intros (HS & HT & HK). unfold st_delete. set (ms := filter _ (st_segs st)).
  destruct (delete_fold ms st) as (_ & _ & D3). cbn zeta in D3. split; [|split].
  - rewrite D3. apply filter_sorted, HS.
  - clear D3. revert HT. generalize st. induction ms as [|ks ms IH]; intros st0 HT0; [exact HT0|]. cbn [fold_left]. apply IH.
    rewrite st_delete_series_eq. cbn [st_trees]. apply TW_removes, HT0.
  - intros ks Hks. rewrite D3 in Hks. apply filter_In in Hks. apply HK, Hks.
Qed.

Lemma good_retention K thr st : st_good K st -> st_good K (st_retention thr st).
Proof.
  intros (HS & HT & HK). destruct (st_retention_spec thr st HS) as [E _]. split; [|split].
  - rewrite E. apply sorted_ret, HS.
  - apply TW_retention; assumption.
  - intros ks Hks. rewrite E in Hks. apply in_flat_map in Hks. destruct Hks as (y & Hy & Hks). unfold ret_entry in Hks.
    destruct (ret_del thr (snd y)); [destruct Hks|]. destruct Hks as [<-|[]]. cbn [snd]. apply ret_seg_ok, HK, Hy.
Qed.

Definition good_op (K : Z) (o : st_op) : Prop :=
  match o with OpPut pi => valid_put K pi /\ inW [] (pi_tree pi) | _ => True end.

Lemma good_step K rt st o : good_op K o -> st_good K st -> st_good K (fst (st_step rt st o)).
Proof.
  intros Ho H. destruct o as [pi|sel f u|sel|thr]; cbn [st_step].
  - destruct Ho as [Hv Hw]. pose proof (good_put K rt pi st Hv Hw H) as G. destruct (st_put rt pi st). exact G.
  - exact H.
  - apply good_delete, H.
  - apply good_retention, H.
Qed.

Lemma good_run K rt ops : Forall (good_op K) ops -> forall st, st_good K st -> st_good K (fst (st_run rt ops st)).
Proof.
  induction 1 as [|o ops Ho _ IH]; intros st H; [exact H|]. cbn [st_run].
  pose proof (good_step K rt st o Ho H) as G. destruct (st_step rt st o) as [st1 out]. cbn [fst] in G.
  specialize (IH st1 G). destruct (st_run rt ops st1). exact IH.
Qed.

Lemma good_hyps K st : st_good K st ->
  segs_sorted (st_segs st) /\ TW (st_trees st) /\ forall ks, In ks (st_segs st) -> seg_wf (snd ks).
Proof.
  intros (HS & HT & HK). split; [exact HS|]. split; [exact HT|]. intros ks Hks. specialize (HK ks Hks).
  unfold seg_ok, seg_wf in *. destruct (s_root (snd ks)) as [[lvl n]|]; [apply HK|exact I].
Qed.

(* the three clauses after an arbitrary history *)
Lemma retention_run K rt ops thr sel from until p : Forall (good_op K) ops ->
  let st := fst (st_run rt ops st_init) in
  let ab := s_normalize_unix (from, until) in
  fst ab < snd ab -> has_average (st_matching sel st) = false ->
  (unix_to_slot thr <= fst ab ->
     option_map (fun o => (go_tree o, go_timeline o)) (st_get sel from until (st_retention thr st)) =
     option_map (fun o => (go_tree o, go_timeline o)) (st_get sel from until st)) /\
  (snd ab <= unix_to_slot thr -> st_get sel from until (st_retention thr st) = None) /\
  (get_self p (st_get sel from until (st_retention thr st)) <= get_self p (st_get sel from until st))%N.
Proof.
  intros Hops st ab Hab Havg. destruct (good_hyps K st (good_run K rt ops Hops st_init (good_init K))) as (HS & HT & HW).
  split; [|split].
  - intros HT1. apply retention_after; assumption.
  - intros HT2. apply retention_before; assumption.
  - apply retention_le; assumption.
Qed.

(* ------------------------------------------------------------------------------------------ *)
(* clause (a), metadata: the metadata of a multi-series answer is taken from the LAST matching series of
   the table; a pass keeps every series' metadata but may drop whole series                      *)

Definition last_meta (l : list (sid * segment)) : meta :=
  match rev l with ks :: _ => s_meta (snd ks) | [] => meta0 end.

Lemma get_meta_last sel from until st o : st_get sel from until st = Some o -> go_meta o = last_meta (st_matching sel st).
Proof. rewrite st_get_eq. cbv zeta. destruct (merge_serial _); [|discriminate]. intros [= <-]. reflexivity. Qed.

(* after the pass: the metadata of the last matching series that survives (meta0 if none: then the answer is None
   anyway, because every surviving... see retention_after for the tree) *)
Lemma retention_meta thr sel from until st o' : segs_sorted (st_segs st) ->
  st_get sel from until (st_retention thr st) = Some o' ->
  go_meta o' = last_meta (flat_map (ret_entry thr) (st_matching sel st)).
Proof. intros HS H. rewrite (get_meta_last _ _ _ _ _ H), (st_matching_ret thr sel st HS). reflexivity. Qed.

(* so the metadata is unchanged exactly when the last matching series is not dropped entirely *)
Lemma retention_meta_same thr sel from until st o o' m0 ks : segs_sorted (st_segs st) ->
  st_matching sel st = m0 ++ [ks] -> ret_del thr (snd ks) = false ->
  st_get sel from until st = Some o -> st_get sel from until (st_retention thr st) = Some o' ->
  go_meta o' = go_meta o.
Proof.
  intros HS Hm Hd Ho Ho'. rewrite (retention_meta thr sel from until st o' HS Ho'), (get_meta_last _ _ _ _ _ Ho), Hm.
  unfold last_meta. rewrite flat_map_app, !rev_app_distr. cbn [flat_map rev app]. unfold ret_entry at 1. rewrite Hd.
  cbn [app rev snd]. apply ret_meta.
Qed.

(* ... and a dropped last series really changes it: witness in Props/C11.v (C11_retention_meta_refuted) *)
