(* TTrieProofs.v — lemmas about Model/TTrie.v: denotation of findNodeAt / Insert / Diff / Iterate. *)
From Pyro Require Import Model.Base Model.Varint Model.TTrie.
From Coq Require Import ZifyN ZifyNat ZifyBool Permutation.

Local Open Scope N_scope.

(* ---------------------------------------------------------------------------------------------- *)
(* strip_prefix *)

Lemma strip_prefix_app a b k :
  strip_prefix (a ++ b) k = match strip_prefix a k with Some r => strip_prefix b r | None => None end.
Proof.
  revert k. induction a as [|x a IH]; intros k; cbn; [reflexivity|].
  destruct k as [|y k]; [reflexivity|]. destruct (N.eqb x y); [apply IH|reflexivity].
Qed.

Lemma strip_prefix_self p r : strip_prefix p (p ++ r) = Some r.
Proof. induction p as [|x p IH]; cbn; [reflexivity|]. rewrite N.eqb_refl. exact IH. Qed.

Lemma strip_prefix_some p k r : strip_prefix p k = Some r -> k = p ++ r.
Proof.
  revert k. induction p as [|x p IH]; intros k H; cbn in *.
  - now inversion H.
  - destruct k as [|y k]; [discriminate|]. destruct (N.eqb_spec x y) as [->|]; [|discriminate].
    f_equal. now apply IH.
Qed.

Lemma strip_prefix_head x p y k : x <> y -> strip_prefix (x :: p) (y :: k) = None.
Proof. intros H. cbn. destruct (N.eqb_spec x y); [contradiction|reflexivity]. Qed.

(* ---------------------------------------------------------------------------------------------- *)
(* denotation, unfolded one level *)

Definition under (c : ttnode) (k : bytes) : N :=
  match strip_prefix (tt_name c) k with Some r => tt_den c r | None => 0 end.
Definition den_ch (ch : list ttnode) (k : bytes) : N := sumN (map (fun c => under c k) ch).

Lemma tt_den_unfold n v ch k : tt_den (TT n v ch) k = (if is_nil k then v else 0) + den_ch ch k.
Proof. reflexivity. Qed.

Lemma tt_den_eq t k : tt_den t k = (if is_nil k then tt_value t else 0) + den_ch (tt_ch t) k.
Proof. destruct t; reflexivity. Qed.

Lemma den_ch_cons c l k : den_ch (c :: l) k = under c k + den_ch l k.
Proof. reflexivity. Qed.

Lemma den_ch_app l1 l2 k : den_ch (l1 ++ l2) k = den_ch l1 k + den_ch l2 k.
Proof.
  induction l1 as [|c l1 IH]; [reflexivity|]. cbn [app]. rewrite !den_ch_cons, IH. lia.
Qed.

Lemma den_ch_insert_at i x ch k : den_ch (ch_insert_at i x ch) k = under x k + den_ch ch k.
Proof.
  unfold ch_insert_at. rewrite den_ch_app, den_ch_cons.
  rewrite <- (firstn_skipn i ch) at 3. rewrite den_ch_app. lia.
Qed.

(* ---------------------------------------------------------------------------------------------- *)
(* well-formedness at the Prop level: first bytes of siblings *)

Definition fbs (ch : list ttnode) : list (option byte) := map first_byte ch.
Definition tt_wf (t : ttnode) : Prop := tt_wfb t = true.

Lemma fb_is_first b c : fb_is b c = true <-> first_byte c = Some b.
Proof.
  unfold fb_is, first_byte. destruct (tt_name c) as [|x l]; [split; discriminate|].
  destruct (N.eqb_spec x b) as [->|H]; split; intros E; try reflexivity; try discriminate.
  inversion E; contradiction.
Qed.

Lemma existsb_fb_is x ch : existsb (fb_is x) ch = true <-> In (Some x) (fbs ch).
Proof.
  rewrite existsb_exists. unfold fbs. rewrite in_map_iff. split.
  - intros (c & Hin & H). exists c. split; [now apply fb_is_first|exact Hin].
  - intros (c & H & Hin). exists c. split; [exact Hin|now apply fb_is_first].
Qed.

Lemma fb_distinct_spec ch : fb_distinct ch = true <-> (~ In None (fbs ch) /\ NoDup (fbs ch)).
Proof.
  induction ch as [|c ch IH].
  - cbn. split; [intros _; split; [tauto|constructor]|reflexivity].
  - cbn [fb_distinct fbs map]. fold (fbs ch).
    destruct (tt_name c) as [|x l] eqn:E.
    + assert (Hfc : first_byte c = None) by (unfold first_byte; now rewrite E). rewrite Hfc.
      split; [discriminate|]. intros [H _]. exfalso. apply H. now left.
    + assert (Hfc : first_byte c = Some x) by (unfold first_byte; now rewrite E). rewrite Hfc.
      rewrite andb_true_iff, negb_true_iff, IH. split.
      * intros (Hx & Hn & Hd). split.
        -- intros [H|H]; [discriminate|contradiction].
        -- constructor; [|exact Hd]. intros Hin. apply existsb_fb_is in Hin. congruence.
      * intros (Hn & Hd). inversion Hd as [|? ? Hx Hd']; subst. split; [|split].
        -- destruct (existsb (fb_is x) ch) eqn:Ex; [|reflexivity].
           exfalso. apply Hx. now apply existsb_fb_is.
        -- intros H. apply Hn. now right.
        -- exact Hd'.
Qed.

Lemma tt_wf_unfold n v ch :
  tt_wf (TT n v ch) <-> (~ In None (fbs ch) /\ NoDup (fbs ch)) /\ Forall tt_wf ch.
Proof.
  unfold tt_wf at 1. cbn [tt_wfb]. rewrite andb_true_iff, fb_distinct_spec, forallb_forall, Forall_forall.
  reflexivity.
Qed.

Lemma fbs_app l1 l2 : fbs (l1 ++ l2) = fbs l1 ++ fbs l2.
Proof. apply map_app. Qed.

Lemma fbs_insert_at_perm i x ch : Permutation (fbs (ch_insert_at i x ch)) (first_byte x :: fbs ch).
Proof.
  unfold ch_insert_at. rewrite fbs_app. cbn [fbs map].
  rewrite <- (firstn_skipn i ch) at 3. rewrite fbs_app.
  symmetry. apply Permutation_middle.
Qed.

(* a child whose first byte differs from the head of k contributes nothing *)
Lemma under_other c y k : first_byte c <> None -> first_byte c <> Some y -> under c (y :: k) = 0.
Proof.
  unfold under, first_byte. destruct (tt_name c) as [|x l]; [congruence|]. intros _ H.
  rewrite strip_prefix_head; [reflexivity|congruence].
Qed.

Lemma under_nil c : first_byte c <> None -> under c [] = 0.
Proof. unfold under, first_byte. destruct (tt_name c); [congruence|reflexivity]. Qed.

Lemma den_ch_other ch y k :
  ~ In None (fbs ch) -> ~ In (Some y) (fbs ch) -> den_ch ch (y :: k) = 0.
Proof.
  induction ch as [|c ch IH]; intros Hn Hy; [reflexivity|].
  rewrite den_ch_cons. cbn in Hn, Hy. rewrite under_other, IH; try tauto; try (intros E; rewrite E in *; tauto); try reflexivity.
Qed.

Lemma den_ch_nil ch : ~ In None (fbs ch) -> den_ch ch [] = 0.
Proof.
  induction ch as [|c ch IH]; intros Hn; [reflexivity|].
  rewrite den_ch_cons. cbn in Hn. rewrite under_nil, IH; try tauto; try (intros E; rewrite E in *; tauto); try reflexivity.
Qed.

Lemma tt_den_nil t : tt_wf t -> tt_den t [] = tt_value t.
Proof.
  destruct t as [n v ch]. intros H. apply tt_wf_unfold in H. destruct H as [[Hn _] _].
  rewrite tt_den_unfold, den_ch_nil by assumption. cbn. lia.
Qed.

(* ---------------------------------------------------------------------------------------------- *)
(* lead_split, key_cmp *)

Lemma lead_split_some b ch l1 c l2 :
  lead_split b ch = Some (l1, c, l2) -> ch = l1 ++ c :: l2 /\ first_byte c = Some b.
Proof.
  revert l1. induction ch as [|c0 ch IH]; intros l1 H; cbn in H; [discriminate|].
  destruct (lead_split b ch) as [[[l1' x] l2']|] eqn:E.
  - inversion H; subst. destruct (IH _ eq_refl) as [-> Hf]. split; [reflexivity|exact Hf].
  - destruct (fb_is b c0) eqn:F; [|discriminate]. inversion H; subst.
    split; [reflexivity|now apply fb_is_first].
Qed.

Lemma lead_split_none b ch : lead_split b ch = None -> ~ In (Some b) (fbs ch).
Proof.
  induction ch as [|c0 ch IH]; intros H; cbn in *; [tauto|].
  destruct (lead_split b ch) as [[[l1' x] l2']|] eqn:E; [discriminate|].
  destruct (fb_is b c0) eqn:F; [discriminate|].
  intros [Hc|Hc]; [|now apply IH].
  apply fb_is_first in Hc. congruence.
Qed.

Definition heads_differ (b kr : bytes) : Prop :=
  match b, kr with x :: _, y :: _ => x <> y | _, _ => False end.

Lemma key_cmp_spec key lk :
  match key_cmp key lk with
  | KEqual => key = lk
  | KLonger rest => key = lk ++ rest /\ rest <> []
  | KDiverge a b kr => lk = a ++ b /\ key = a ++ kr /\ heads_differ b kr
  | KShorter b => lk = key ++ b /\ b <> []
  end.
Proof.
  revert lk. induction key as [|x key IH]; intros [|y lk]; cbn.
  - reflexivity.
  - split; [reflexivity|discriminate].
  - split; [reflexivity|discriminate].
  - destruct (N.eqb_spec x y) as [->|Hxy].
    + specialize (IH lk). destruct (key_cmp key lk) as [|r|a b kr|b].
      * now subst.
      * destruct IH as [-> Hr]. split; [reflexivity|exact Hr].
      * destruct IH as (-> & -> & Hd). repeat split; assumption.
      * destruct IH as [-> Hb]. split; [reflexivity|exact Hb].
    + repeat split. cbn. congruence.
Qed.

(* ---------------------------------------------------------------------------------------------- *)
(* replacing the lead child *)

Lemma NoDup_mid_notin {A} (l1 l2 : list A) x : NoDup (l1 ++ x :: l2) -> ~ In x (l1 ++ l2).
Proof. intros H. now apply NoDup_remove_2. Qed.

Lemma replace_child n v l1 c l2 x' b key (G : bytes -> N) :
  tt_wf (TT n v (l1 ++ c :: l2)) ->
  first_byte c = Some b -> first_byte x' = Some b ->
  (exists key', key = b :: key') ->
  tt_wf x' ->
  (forall k, under x' k = match strip_prefix key k with Some r => G r | None => under c k end) ->
  tt_wf (TT n v (l1 ++ x' :: l2)) /\
  forall k, tt_den (TT n v (l1 ++ x' :: l2)) k =
            match strip_prefix key k with Some r => G r | None => tt_den (TT n v (l1 ++ c :: l2)) k end.
Proof.
  intros Hwf Hc Hx (key' & ->) Hwx Hu.
  apply tt_wf_unfold in Hwf. destruct Hwf as [[Hn Hd] Hall].
  assert (Hfbs : fbs (l1 ++ x' :: l2) = fbs (l1 ++ c :: l2)).
  { rewrite !fbs_app. cbn. now rewrite Hc, Hx. }
  split.
  - apply tt_wf_unfold. rewrite Hfbs. split; [tauto|].
    apply Forall_app in Hall. destruct Hall as [H1 H2]. inversion H2; subst.
    apply Forall_app. split; [assumption|]. constructor; assumption.
  - intros k. rewrite !tt_den_unfold, !den_ch_app, !den_ch_cons, Hu.
    destruct (strip_prefix (b :: key') k) as [r|] eqn:E; [|reflexivity].
    apply strip_prefix_some in E. subst k. cbn [is_nil app].
    rewrite fbs_app in Hn, Hd. cbn in Hn, Hd. rewrite Hc in Hd.
    pose proof (NoDup_mid_notin _ _ _ Hd) as Hnot.
    rewrite !den_ch_other.
    + specialize (Hu ((b :: key') ++ r)). rewrite strip_prefix_self in Hu.
      cbn [app] in Hu. lia.
    + intros H. apply Hn. apply in_or_app. right. now right.
    + intros H. apply Hnot. apply in_or_app. now right.
    + intros H. apply Hn. apply in_or_app. now left.
    + intros H. apply Hnot. apply in_or_app. now left.
Qed.

(* below a well-formed node, a key starting with the lead child's first byte is found under it *)
Lemma den_via_lead n v l1 c l2 b k :
  tt_wf (TT n v (l1 ++ c :: l2)) -> first_byte c = Some b ->
  tt_den (TT n v (l1 ++ c :: l2)) (b :: k) = under c (b :: k).
Proof.
  intros Hwf Hc. apply tt_wf_unfold in Hwf. destruct Hwf as [[Hn Hd] _].
  rewrite fbs_app in Hn, Hd. cbn in Hn, Hd. rewrite Hc in Hd.
  pose proof (NoDup_mid_notin _ _ _ Hd) as Hnot.
  rewrite tt_den_unfold, den_ch_app, den_ch_cons. cbn [is_nil].
  rewrite !den_ch_other; [lia| | | |].
  - intros H. apply Hn. apply in_or_app. right. now right.
  - intros H. apply Hnot. apply in_or_app. now right.
  - intros H. apply Hn. apply in_or_app. now left.
  - intros H. apply Hnot. apply in_or_app. now left.
Qed.

(* ---------------------------------------------------------------------------------------------- *)
(* findNodeAt *)

Definition fn_ok (f : ttnode -> ttnode) (tn : ttnode) (key : bytes) (G : bytes -> N) : Prop :=
  forall d, tt_wf d -> (forall r, tt_den d r = tt_den tn (key ++ r)) ->
            tt_wf (f d) /\ tt_name (f d) = tt_name d /\ forall r, tt_den (f d) r = G r.

Lemma same_children_den n1 n2 v ch k : tt_den (TT n1 v ch) k = tt_den (TT n2 v ch) k.
Proof. reflexivity. Qed.

Lemma find_node_at_spec : forall fuel key f tn G,
  (length key < fuel)%nat -> tt_wf tn -> fn_ok f tn key G ->
  let tn' := tt_find_node_at_fuel fuel key f tn in
  tt_wf tn' /\ tt_name tn' = tt_name tn /\
  forall k, tt_den tn' k = match strip_prefix key k with Some r => G r | None => tt_den tn k end.
Proof.
  induction fuel as [|fuel IH]; intros key f tn G Hfuel Hwf Hf; [lia|].
  destruct key as [|k0 key'].
  - (* len(key) == 0 *)
    cbn. destruct (Hf tn Hwf) as (H1 & H2 & H3); [intros r; reflexivity|].
    repeat split; assumption.
  - cbn [tt_find_node_at_fuel]. destruct tn as [n v ch].
    destruct (lead_split k0 ch) as [[[l1 c] l2]|] eqn:EL.
    + (* a lead exists *)
      apply lead_split_some in EL. destruct EL as [-> Hc].
      destruct c as [lk cv cch].
      pose proof Hwf as Hwf0.
      apply tt_wf_unfold in Hwf. destruct Hwf as [[Hn Hd] Hall].
      assert (Hwc : tt_wf (TT lk cv cch)).
      { apply Forall_app in Hall. destruct Hall as [_ H2]. now inversion H2. }
      assert (Hlk : exists lk', lk = k0 :: lk').
      { unfold first_byte in Hc. cbn in Hc. destruct lk; [discriminate|]. inversion Hc. eauto. }
      destruct Hlk as [lk' ->].
      pose proof (key_cmp_spec (k0 :: key') (k0 :: lk')) as Hcmp.
      (* what the key denotes below tn *)
      assert (Hden : forall r, tt_den (TT n v (l1 ++ TT (k0 :: lk') cv cch :: l2)) ((k0 :: key') ++ r)
                               = under (TT (k0 :: lk') cv cch) ((k0 :: key') ++ r)).
      { intros r. cbn [app]. apply den_via_lead; assumption. }
      destruct (key_cmp (k0 :: key') (k0 :: lk')) as [|rest|a b kr|b] eqn:EC.
      * (* case 2 *)
        inversion Hcmp; subst lk'. clear Hcmp.
        destruct (Hf (TT (k0 :: key') cv cch) Hwc) as (H1 & H2 & H3).
        { intros r. rewrite Hden. unfold under. cbn [tt_name]. now rewrite strip_prefix_self. }
        cbn [tt_name] in H2.
        destruct (replace_child n v l1 (TT (k0 :: key') cv cch) l2 (f (TT (k0 :: key') cv cch)) k0 (k0 :: key') G)
          as [R1 R2]; try assumption; eauto.
        { unfold first_byte. now rewrite H2. }
        { intros k. unfold under. rewrite H2. cbn [tt_name].
          destruct (strip_prefix (k0 :: key') k); [apply H3|reflexivity]. }
        all: try (cbv zeta; repeat split; assumption).
      * (* case 4 *)
        destruct Hcmp as [Hk Hr].
        assert (Hlen : (length rest < fuel)%nat).
        { apply (f_equal (@length _)) in Hk. rewrite app_length in Hk. cbn in Hk, Hfuel. lia. }
        destruct (IH rest f (TT (k0 :: lk') cv cch) G Hlen Hwc) as (I1 & I2 & I3).
        { intros d Hd1 Hd2. apply Hf; [exact Hd1|]. intros r. rewrite Hd2, Hden, Hk.
          unfold under. cbn [tt_name]. now rewrite <- app_assoc, strip_prefix_self. }
        cbn [tt_name] in I2.
        destruct (replace_child n v l1 (TT (k0 :: lk') cv cch) l2
                    (tt_find_node_at_fuel fuel rest f (TT (k0 :: lk') cv cch)) k0 (k0 :: key') G)
          as [R1 R2]; try assumption; eauto.
        { unfold first_byte. now rewrite I2. }
        { intros k. unfold under at 1. rewrite I2. rewrite Hk, strip_prefix_app.
          unfold under. cbn [tt_name].
          destruct (strip_prefix (k0 :: lk') k) as [k''|]; [|reflexivity].
          rewrite I3. reflexivity. }
        all: try (cbv zeta; repeat split; assumption).
      * (* case 3 *)
        destruct Hcmp as (Hlk & Hk & Hh).
        assert (Ha : exists a', a = k0 :: a').
        { destruct a as [|a0 a']; [|cbn in Hk; inversion Hk; eauto].
          cbn in Hlk, Hk. subst b kr. cbn in Hh. congruence. }
        destruct Ha as [a' ->].
        assert (Hb : b <> []). { destruct b; [destruct Hh|discriminate]. }
        set (newTn := TT (k0 :: a') 0 [TT b cv cch]).
        assert (Hwn : tt_wf newTn).
        { apply tt_wf_unfold. cbn. unfold first_byte. cbn. destruct b as [|b0 b']; [congruence|].
          split; [split|].
          - intros [H|H]; [discriminate|contradiction].
          - constructor; [tauto|constructor].
          - constructor; [|constructor]. exact Hwc. }
        assert (Hstrip : forall r, strip_prefix b (kr ++ r) = None).
        { intros r. destruct b as [|b0 b']; [congruence|]. destruct kr as [|y kr']; [destruct Hh|].
          cbn [app]. apply strip_prefix_head. exact Hh. }
        assert (Hlen : (length kr < fuel)%nat).
        { apply (f_equal (@length _)) in Hk. rewrite app_length in Hk. cbn in Hk, Hfuel. lia. }
        destruct (IH kr f newTn G Hlen Hwn) as (I1 & I2 & I3).
        { intros d Hd1 Hd2. apply Hf; [exact Hd1|]. intros r. rewrite Hd2, Hden.
          unfold newTn. rewrite tt_den_unfold, den_ch_cons. unfold under. cbn [tt_name].
          rewrite Hk, Hlk, <- app_assoc, strip_prefix_app, strip_prefix_self, !Hstrip.
          destruct (kr ++ r); cbn; lia. }
        cbn [tt_name newTn] in I2.
        destruct (replace_child n v l1 (TT (k0 :: lk') cv cch) l2
                    (tt_find_node_at_fuel fuel kr f newTn) k0 (k0 :: key') G)
          as [R1 R2]; try assumption; eauto.
        { unfold first_byte. now rewrite I2. }
        { intros k. unfold under at 1. rewrite I2. rewrite Hk, strip_prefix_app.
          unfold under. cbn [tt_name]. rewrite Hlk, strip_prefix_app.
          destruct (strip_prefix (k0 :: a') k) as [k''|]; [|reflexivity].
          rewrite I3. destruct (strip_prefix kr k'') as [r|]; [reflexivity|].
          unfold newTn. rewrite tt_den_unfold, den_ch_cons. unfold under. cbn [tt_name].
          destruct (strip_prefix b k'') as [r'|].
          - rewrite (same_children_den b (k0 :: lk')). destruct k''; cbn; lia.
          - destruct k''; cbn; lia. }
        all: try (cbv zeta; repeat split; assumption).
      * (* case 3.2 *)
        destruct Hcmp as [Hlk Hb].
        set (newTn := TT (k0 :: key') 0 [TT b cv cch]).
        assert (Hwn : tt_wf newTn).
        { apply tt_wf_unfold. cbn. unfold first_byte. cbn. destruct b as [|b0 b']; [congruence|].
          split; [split|].
          - intros [H|H]; [discriminate|contradiction].
          - constructor; [tauto|constructor].
          - constructor; [|constructor]. exact Hwc. }
        assert (Hfn : tt_find_node_at_fuel fuel [] f newTn = f newTn) by (destruct fuel; reflexivity).
        rewrite Hfn.
        destruct (Hf newTn Hwn) as (H1 & H2 & H3).
        { intros r. rewrite Hden. unfold newTn. rewrite tt_den_unfold, den_ch_cons.
          unfold under. cbn [tt_name]. rewrite Hlk, strip_prefix_app, strip_prefix_self.
          destruct (strip_prefix b r) as [r'|].
          - rewrite (same_children_den b (k0 :: key' ++ b)). destruct r; cbn; lia.
          - destruct r; cbn; lia. }
        cbn [tt_name newTn] in H2.
        destruct (replace_child n v l1 (TT (k0 :: lk') cv cch) l2 (f newTn) k0 (k0 :: key') G)
          as [R1 R2]; try assumption; eauto.
        { unfold first_byte. now rewrite H2. }
        { intros k. unfold under. rewrite H2. cbn [tt_name]. rewrite Hlk, strip_prefix_app.
          destruct (strip_prefix (k0 :: key') k); [apply H3|reflexivity]. }
        all: try (cbv zeta; repeat split; assumption).
    + (* case 1: no lead *)
      apply lead_split_none in EL.
      pose proof Hwf as Hwf0.
      apply tt_wf_unfold in Hwf. destruct Hwf as [[Hn Hd] Hall].
      assert (Hzero : forall r, tt_den (TT n v ch) ((k0 :: key') ++ r) = 0).
      { intros r. cbn [app]. rewrite tt_den_unfold, den_ch_other by assumption. cbn. lia. }
      destruct (Hf (tt_new (k0 :: key'))) as (H1 & H2 & H3).
      { apply tt_wf_unfold. cbn. split; [split; [tauto|constructor]|constructor]. }
      { intros r. rewrite Hzero. unfold tt_new. rewrite tt_den_unfold. cbn. destruct r; reflexivity. }
      cbn [tt_name tt_new] in H2.
      unfold ch_insert_named. set (i := ch_pos (k0 :: key') ch).
      set (x := f (tt_new (k0 :: key'))) in *.
      assert (Hfx : first_byte x = Some k0) by (unfold first_byte; now rewrite H2).
      split; [|split; [reflexivity|]].
      * apply tt_wf_unfold. split; [split|].
        -- intros H. eapply Permutation_in in H; [|apply fbs_insert_at_perm].
           rewrite Hfx in H. destruct H as [H|H]; [discriminate|contradiction].
        -- eapply Permutation_NoDup; [symmetry; apply fbs_insert_at_perm|].
           rewrite Hfx. constructor; assumption.
        -- unfold ch_insert_at. rewrite <- (firstn_skipn i ch) in Hall.
           apply Forall_app in Hall. destruct Hall as [A1 A2].
           apply Forall_app. split; [exact A1|]. constructor; assumption.
      * intros k. rewrite tt_den_unfold, den_ch_insert_at. unfold under at 1. rewrite H2.
        destruct (strip_prefix (k0 :: key') k) as [r|] eqn:E.
        -- apply strip_prefix_some in E. subst k. rewrite H3.
           specialize (Hzero r). rewrite tt_den_unfold in Hzero. cbn [app is_nil] in *. lia.
        -- rewrite tt_den_unfold. lia.
Qed.

(* ---------------------------------------------------------------------------------------------- *)
(* byte-string equality *)

Lemma bcmp_eq a b : bcmp a b = Eq <-> a = b.
Proof.
  revert b. induction a as [|x a IH]; intros [|y b]; cbn; try (split; [discriminate|discriminate]); [tauto|].
  destruct (N.compare_spec x y) as [->|H|H].
  - rewrite IH. split; [now intros ->|now inversion 1].
  - split; [discriminate|]. inversion 1; lia.
  - split; [discriminate|]. inversion 1; lia.
Qed.

Lemma beqb_true_iff a b : beqb a b = true <-> a = b.
Proof. unfold beqb. rewrite <- bcmp_eq. destruct (bcmp a b); split; congruence. Qed.

Lemma beqb_refl a : beqb a a = true.
Proof. now apply beqb_true_iff. Qed.

(* ---------------------------------------------------------------------------------------------- *)
(* Insert *)

Lemma tt_set_value_wf v d : tt_wf d -> tt_wf (tt_set_value v d).
Proof. destruct d; exact (fun H => H). Qed.

Theorem tt_insert_spec key v merge t :
  tt_wf t ->
  tt_wf (tt_insert key v merge t) /\ tt_name (tt_insert key v merge t) = tt_name t /\
  forall k, tt_den (tt_insert key v merge t) k =
            if beqb k key then (if merge then tt_den t key + v else v) else tt_den t k.
Proof.
  intros Hwf. unfold tt_insert, tt_find_node_at.
  set (f := fun tn : ttnode => if merge then tt_set_value (tt_value tn + v) tn else tt_set_value v tn).
  set (G := fun r : bytes => if is_nil r then (if merge then tt_den t key + v else v) else tt_den t (key ++ r)).
  destruct (find_node_at_spec (S (length key)) key f t G) as (H1 & H2 & H3); [lia|exact Hwf| |].
  - intros d Hd Hr. split; [|split].
    + unfold f. destruct merge; now apply tt_set_value_wf.
    + unfold f. destruct merge, d; reflexivity.
    + intros r. unfold G. pose proof (tt_den_nil d Hd) as Hnil.
      pose proof (Hr []) as Hr0. rewrite app_nil_r in Hr0.
      destruct d as [n dv ch]. apply tt_wf_unfold in Hd. destruct Hd as [[Hn _] _].
      destruct r as [|r0 r].
      * cbn [is_nil]. unfold f. cbn [tt_value tt_set_value] in *.
        destruct merge; cbn [tt_set_value]; rewrite tt_den_unfold, den_ch_nil by assumption; cbn [is_nil]; lia.
      * cbn [is_nil]. rewrite <- Hr. unfold f.
        destruct merge; cbn [tt_set_value]; rewrite !tt_den_unfold; reflexivity.
  - split; [exact H1|split; [exact H2|]]. intros k. rewrite H3.
    destruct (beqb k key) eqn:E.
    + apply beqb_true_iff in E. subst k.
      assert (S0 : strip_prefix key key = Some []).
      { pose proof (strip_prefix_self key []) as S0. now rewrite app_nil_r in S0. }
      rewrite S0. reflexivity.
    + destruct (strip_prefix key k) as [r|] eqn:S; [|reflexivity].
      apply strip_prefix_some in S. subst k. unfold G. destruct r as [|r0 r]; [|reflexivity].
      rewrite app_nil_r, beqb_refl in E. discriminate.
Qed.

(* counts of a key in a list of (key, count) *)
Definition ms_count (ms : list (bytes * N)) (k : bytes) : N :=
  sumN (map snd (filter (fun kv => beqb (fst kv) k) ms)).

Lemma ms_count_cons kv ms k :
  ms_count (kv :: ms) k = (if beqb (fst kv) k then snd kv else 0) + ms_count ms k.
Proof. unfold ms_count. cbn [filter]. destruct (beqb (fst kv) k); reflexivity. Qed.

Lemma beqb_sym a b : beqb a b = beqb b a.
Proof.
  destruct (beqb a b) eqn:E1, (beqb b a) eqn:E2; try reflexivity.
  - apply beqb_true_iff in E1. subst. rewrite beqb_refl in E2. discriminate.
  - apply beqb_true_iff in E2. subst. rewrite beqb_refl in E1. discriminate.
Qed.

Lemma tt_fold_insert_spec ms : forall t, tt_wf t ->
  let t' := fold_left (fun t kv => tt_insert (fst kv) (snd kv) true t) ms t in
  tt_wf t' /\ tt_name t' = tt_name t /\ forall k, tt_den t' k = tt_den t k + ms_count ms k.
Proof.
  induction ms as [|[key v] ms IH]; intros t Hwf; cbn [fold_left].
  - repeat split; [exact Hwf|]. intros k. unfold ms_count. cbn. lia.
  - destruct (tt_insert_spec key v true t Hwf) as (H1 & H2 & H3).
    destruct (IH _ H1) as (I1 & I2 & I3). cbn [fst snd] in *.
    split; [exact I1|split; [congruence|]]. intros k. rewrite I3, H3, ms_count_cons. cbn [fst snd].
    rewrite (beqb_sym key k). destruct (beqb k key) eqn:E; [|lia].
    apply beqb_true_iff in E. subst. lia.
Qed.

Lemma tt_empty_wf : tt_wf tt_empty.
Proof. reflexivity. Qed.

Theorem tt_of_multiset_spec ms :
  tt_wf (tt_of_multiset ms) /\ tt_name (tt_of_multiset ms) = [] /\
  forall k, tt_den (tt_of_multiset ms) k = ms_count ms k.
Proof.
  destruct (tt_fold_insert_spec ms tt_empty tt_empty_wf) as (H1 & H2 & H3).
  split; [exact H1|split; [exact H2|]]. intros k. unfold tt_of_multiset. rewrite H3.
  destruct k; reflexivity.
Qed.

(* ---------------------------------------------------------------------------------------------- *)
(* induction on tries *)

Fixpoint ttnode_ind' (P : ttnode -> Prop)
  (H : forall n v ch, Forall P ch -> P (TT n v ch)) (t : ttnode) {struct t} : P t :=
  match t with
  | TT n v ch =>
      H n v ch ((fix go (ch : list ttnode) : Forall P ch :=
                   match ch with
                   | [] => Forall_nil P
                   | c :: r => Forall_cons c (ttnode_ind' P H c) (go r)
                   end) ch)
  end.

(* ---------------------------------------------------------------------------------------------- *)
(* Diff *)

Lemma tt_clip_sub_spec sv d :
  tt_clip_sub sv d = tt_set_value (tt_value d - sv) d.
Proof.
  unfold tt_clip_sub. destruct (N.ltb_spec (tt_value d) sv); [|reflexivity].
  f_equal. lia.
Qed.

Lemma tt_diff_node_spec st : forall dt, tt_wf dt ->
  tt_wf (tt_diff_node st dt) /\ tt_name (tt_diff_node st dt) = tt_name dt /\
  forall k, tt_den (tt_diff_node st dt) k = tt_den dt k - den_ch (tt_ch st) k.
Proof.
  induction st as [sn sv sch IH] using ttnode_ind'. cbn [tt_diff_node tt_ch].
  induction sch as [|c rest IHr]; intros dt Hwf.
  - repeat split; [exact Hwf|]. intros k. cbn. lia.
  - inversion IH as [|? ? IHc IHrest]; subst.
    set (f := fun d : ttnode => tt_diff_node c (tt_clip_sub (tt_value c) d)).
    set (G := fun r : bytes => tt_den dt (tt_name c ++ r) - tt_den c r).
    destruct (find_node_at_spec (S (length (tt_name c))) (tt_name c) f dt G) as (H1 & H2 & H3);
      [lia|exact Hwf| |].
    + intros d Hd Hr. unfold f. rewrite tt_clip_sub_spec.
      destruct (IHc (tt_set_value (tt_value d - tt_value c) d) (tt_set_value_wf _ _ Hd)) as (J1 & J2 & J3).
      split; [exact J1|split]. { rewrite J2. destruct d; reflexivity. }
      intros r. rewrite J3. unfold G. rewrite <- Hr. rewrite (tt_den_eq c r).
      pose proof Hd as Hd'. destruct d as [dn dv dch]. apply tt_wf_unfold in Hd'. destruct Hd' as [[Hn _] _].
      cbn [tt_set_value tt_value]. rewrite !tt_den_unfold.
      destruct r as [|r0 r]; cbn [is_nil].
      * rewrite (den_ch_nil dch) by assumption. lia.
      * lia.
    + fold (tt_find_node_at (tt_name c) f dt) in *.
      destruct (IHr IHrest _ H1) as (K1 & K2 & K3).
      split; [exact K1|split; [congruence|]]. intros k. rewrite K3, H3, den_ch_cons.
      unfold G, under. destruct (strip_prefix (tt_name c) k) as [r|] eqn:S.
      * apply strip_prefix_some in S. subst k. lia.
      * lia.
Qed.

Theorem tt_diff_spec cur prev :
  tt_wf cur ->
  tt_wf (tt_diff cur prev) /\ tt_name (tt_diff cur prev) = tt_name cur /\
  forall k, k <> [] -> tt_den (tt_diff cur prev) k = tt_den cur k - tt_den prev k.
Proof.
  intros Hwf. destruct (tt_diff_node_spec prev cur Hwf) as (H1 & H2 & H3).
  split; [exact H1|split; [exact H2|]]. intros k Hk. unfold tt_diff. rewrite H3, (tt_den_eq prev k).
  destruct k; [congruence|]. cbn [is_nil]. lia.
Qed.

(* the value under the empty key (the root's own value) is not visited by Diff *)
Lemma tt_diff_root cur prev : tt_wf cur -> tt_wf prev ->
  tt_den (tt_diff cur prev) [] = tt_den cur [].
Proof.
  intros Hwf Hwp. destruct (tt_diff_node_spec prev cur Hwf) as (_ & _ & H3).
  unfold tt_diff. rewrite H3. destruct prev as [pn pv pch]. apply tt_wf_unfold in Hwp.
  destruct Hwp as [[Hn _] _]. cbn [tt_ch]. rewrite den_ch_nil by assumption. lia.
Qed.

(* ---------------------------------------------------------------------------------------------- *)
(* Iterate *)

Lemma in_flat_map_iff {A B} (f : A -> list B) l y : In y (flat_map f l) <-> exists x, In x l /\ In y (f x).
Proof. apply in_flat_map. Qed.

(* every reported pair is (full key, value stored under it) *)
Lemma tt_iter_all_sound t : forall p K v, tt_wf t -> In (K, v) (tt_iter_all p t) ->
  exists k, K = p ++ tt_name t ++ k /\ tt_den t k = v.
Proof.
  induction t as [n tv ch IH] using ttnode_ind'. intros p K v Hwf Hin.
  pose proof Hwf as Hwf0. apply tt_wf_unfold in Hwf. destruct Hwf as [[Hn Hd] Hall].
  cbn [tt_iter_all] in Hin. destruct Hin as [Hin|Hin].
  - inversion Hin; subst. exists []. cbn [tt_name]. rewrite app_nil_r. split; [reflexivity|].
    now rewrite (tt_den_nil _ Hwf0).
  - apply in_flat_map in Hin. destruct Hin as (c & Hc & Hin).
    apply in_split in Hc. destruct Hc as (l1 & l2 & ->).
    apply Forall_app in IH. destruct IH as [_ IH]. inversion IH as [|? ? IHc _]; subst.
    apply Forall_app in Hall. destruct Hall as [_ Hall]. inversion Hall as [|? ? Hwc _]; subst.
    destruct (IHc _ _ _ Hwc Hin) as (k & -> & Hk).
    exists (tt_name c ++ k). cbn [tt_name]. split; [now rewrite <- !app_assoc|].
    destruct (tt_name c) as [|b nm] eqn:En.
    + exfalso. apply Hn. rewrite fbs_app. apply in_or_app. right. left. unfold first_byte. now rewrite En.
    + cbn [app]. rewrite (den_via_lead n tv l1 c l2 b (nm ++ k) Hwf0).
      * unfold under. rewrite En. change (b :: nm ++ k) with ((b :: nm) ++ k).
        now rewrite strip_prefix_self.
      * unfold first_byte. now rewrite En.
Qed.

(* a positive value under a key is reported *)
Lemma den_ch_pos ch k : 0 < den_ch ch k -> exists c, In c ch /\ 0 < under c k.
Proof.
  induction ch as [|c ch IH]; intros H; [cbn in H; lia|].
  rewrite den_ch_cons in H. destruct (N.ltb_spec 0 (under c k)).
  - exists c. split; [now left|assumption].
  - destruct IH as (c' & Hc' & Hp); [lia|]. exists c'. split; [now right|assumption].
Qed.

Lemma tt_iter_all_complete t : forall p k, tt_wf t -> 0 < tt_den t k ->
  In (p ++ tt_name t ++ k, tt_den t k) (tt_iter_all p t).
Proof.
  induction t as [n tv ch IH] using ttnode_ind'. intros p k Hwf Hpos.
  pose proof Hwf as Hwf0. apply tt_wf_unfold in Hwf. destruct Hwf as [[Hn Hd] Hall].
  cbn [tt_iter_all tt_name]. destruct k as [|b k].
  - left. rewrite (tt_den_nil _ Hwf0), app_nil_r. reflexivity.
  - right. rewrite tt_den_unfold in Hpos. cbn [is_nil] in Hpos.
    destruct (den_ch_pos ch (b :: k)) as (c & Hc & Hp); [lia|].
    apply in_split in Hc. destruct Hc as (l1 & l2 & ->).
    assert (Hfc : first_byte c = Some b).
    { unfold under in Hp. unfold first_byte. destruct (tt_name c) as [|x nm] eqn:En.
      - exfalso. apply Hn. rewrite fbs_app. apply in_or_app. right. left. unfold first_byte. now rewrite En.
      - cbn in Hp. destruct (N.eqb_spec x b) as [->|]; [reflexivity|lia]. }
    rewrite (den_via_lead n tv l1 c l2 b k Hwf0 Hfc).
    apply Forall_app in IH. destruct IH as [_ IH]. inversion IH as [|? ? IHc _]; subst.
    apply Forall_app in Hall. destruct Hall as [_ Hall]. inversion Hall as [|? ? Hwc _]; subst.
    unfold under in *. destruct (strip_prefix (tt_name c) (b :: k)) as [r|] eqn:S; [|lia].
    apply strip_prefix_some in S. rewrite S.
    apply in_flat_map. exists c. split; [apply in_or_app; right; now left|].
    specialize (IHc (p ++ n) r Hwc Hp). now rewrite <- !app_assoc in IHc.
Qed.

Theorem tt_iterate_spec t K v : tt_wf t -> tt_name t = [] ->
  (In (K, v) (tt_iterate t) <-> (0 < v /\ tt_den t K = v)).
Proof.
  intros Hwf Hroot. unfold tt_iterate. rewrite filter_In. cbn [snd]. split.
  - intros [Hin Hp]. destruct (tt_iter_all_sound t [] K v Hwf Hin) as (k & -> & Hk).
    rewrite Hroot. cbn [app]. split; [lia|exact Hk].
  - intros [Hp Hk]. split; [|lia]. subst v.
    pose proof (tt_iter_all_complete t [] K Hwf Hp) as H. now rewrite Hroot in H.
Qed.

(* ---------------------------------------------------------------------------------------------- *)
(* headline forms for C18 *)

Lemma ttrie_den_insert : forall key v merge t, tt_wf t ->
  tt_wf (tt_insert key v merge t) /\
  forall k, tt_den (tt_insert key v merge t) k =
            if beqb k key then (if merge then tt_den t key + v else v) else tt_den t k.
Proof. intros key v merge t H. destruct (tt_insert_spec key v merge t H) as (A & _ & B). now split. Qed.

Lemma ttrie_insert_accumulates : forall ms,
  tt_wf (tt_of_multiset ms) /\ forall k, tt_den (tt_of_multiset ms) k = ms_count ms k.
Proof. intros ms. destruct (tt_of_multiset_spec ms) as (A & _ & B). now split. Qed.

Lemma ttrie_diff_den : forall cur prev, tt_wf cur ->
  tt_wf (tt_diff cur prev) /\
  forall k, k <> [] -> tt_den (tt_diff cur prev) k = tt_den cur k - tt_den prev k.
Proof. intros cur prev H. destruct (tt_diff_spec cur prev H) as (A & _ & B). now split. Qed.

(* what the agent uploads: Iterate over the diff reports exactly the positive clipped differences *)
Lemma ttrie_diff_iterate : forall cur prev K v, tt_wf cur -> tt_name cur = [] -> K <> [] ->
  (In (K, v) (tt_iterate (tt_diff cur prev)) <-> (0 < v /\ v = tt_den cur K - tt_den prev K)).
Proof.
  intros cur prev K v Hwf Hroot HK.
  destruct (tt_diff_spec cur prev Hwf) as (A & B & C).
  rewrite tt_iterate_spec by (assumption || congruence). rewrite (C K HK). split; intros [H1 H2]; split; congruence.
Qed.

Lemma ttrie_prev_only_silent : forall cur prev K, tt_wf cur -> tt_name cur = [] -> K <> [] ->
  tt_den cur K = 0 -> forall v, ~ In (K, v) (tt_iterate (tt_diff cur prev)).
Proof.
  intros cur prev K Hwf Hroot HK Hz v Hin.
  apply ttrie_diff_iterate in Hin; try assumption. lia.
Qed.

Lemma ttrie_diff_empty_key_untouched : forall cur prev, tt_wf cur -> tt_wf prev ->
  tt_den (tt_diff cur prev) [] = tt_den cur [].
Proof. exact tt_diff_root. Qed.

Lemma ttrie_diff_empty_key_refuted :
  exists cur prev, tt_wf cur /\ tt_wf prev /\
    tt_den (tt_diff cur prev) [] <> tt_den cur [] - tt_den prev [].
Proof.
  exists (tt_of_multiset [([], 5); ([97], 4)]), (tt_of_multiset [([], 3); ([97], 1)]).
  split; [reflexivity|split; [reflexivity|]]. vm_compute. discriminate.
Qed.

(* ---------------------------------------------------------------------------------------------- *)
(* Iterate as a multiset: the counts reported for a key add up to its denotation (no hypothesis) *)

Lemma ms_count_app l1 l2 k : ms_count (l1 ++ l2) k = ms_count l1 k + ms_count l2 k.
Proof.
  unfold ms_count. rewrite filter_app, map_app. induction (map snd (filter _ l1)) as [|x l IH]; cbn; [reflexivity|].
  cbn in IH. unfold sumN in *. lia.
Qed.

Lemma beqb_false_iff a b : beqb a b = false <-> a <> b.
Proof. rewrite <- beqb_true_iff. destruct (beqb a b); split; congruence. Qed.

Lemma ms_count_flat_map {A} (f : A -> list (bytes * N)) l K :
  ms_count (flat_map f l) K = sumN (map (fun x => ms_count (f x) K) l).
Proof.
  induction l as [|x l IH]; [reflexivity|]. cbn [flat_map map]. rewrite ms_count_app, IH. reflexivity.
Qed.

Lemma sumN_map_ext {A} (f g : A -> N) l : (forall x, In x l -> f x = g x) -> sumN (map f l) = sumN (map g l).
Proof.
  induction l as [|x l IH]; intros H; [reflexivity|]. cbn. rewrite (H x) by now left.
  unfold sumN in IH. rewrite IH; [reflexivity|]. intros y Hy. apply H. now right.
Qed.

Lemma ms_count_iter_all t : forall p K,
  ms_count (tt_iter_all p t) K =
  match strip_prefix (p ++ tt_name t) K with Some k => tt_den t k | None => 0 end.
Proof.
  induction t as [n v ch IH] using ttnode_ind'. intros p K. cbn [tt_iter_all tt_name].
  rewrite ms_count_cons, ms_count_flat_map. cbn [fst snd].
  rewrite Forall_forall in IH.
  destruct (strip_prefix (p ++ n) K) as [k|] eqn:S.
  - apply strip_prefix_some in S. subst K. rewrite tt_den_unfold.
    assert (Hb : beqb (p ++ n) ((p ++ n) ++ k) = is_nil k).
    { destruct k as [|k0 k]; cbn [is_nil].
      - rewrite app_nil_r. apply beqb_refl.
      - apply beqb_false_iff. intros E. rewrite <- (app_nil_r (p ++ n)) in E at 1.
        apply app_inv_head in E. discriminate. }
    rewrite Hb. f_equal. unfold den_ch. apply sumN_map_ext. intros c Hc.
    rewrite (IH c Hc). rewrite strip_prefix_app, strip_prefix_self. reflexivity.
  - assert (Hb : beqb (p ++ n) K = false).
    { apply beqb_false_iff. intros E. subst K.
      pose proof (strip_prefix_self (p ++ n) []) as S'. rewrite app_nil_r in S'. congruence. }
    rewrite Hb. replace (sumN _) with 0; [reflexivity|].
    symmetry. rewrite (sumN_map_ext _ (fun _ => 0)).
    + induction ch; [reflexivity|]. cbn. apply IHch. intros; apply IH; now right.
    + intros c Hc. rewrite (IH c Hc), strip_prefix_app, S. reflexivity.
Qed.

Lemma ms_count_filter_pos l K : ms_count (filter (fun kv => 0 <? snd kv) l) K = ms_count l K.
Proof.
  induction l as [|[k v] l IH]; [reflexivity|]. cbn [filter snd].
  destruct (N.ltb_spec 0 v).
  - rewrite !ms_count_cons, IH. reflexivity.
  - rewrite ms_count_cons, IH. cbn [fst snd]. destruct (beqb k K); lia.
Qed.

(* the counts Iterate reports for a key add up to the key's denotation; no hypothesis on the trie *)
Theorem ms_count_iterate t K : tt_name t = [] -> ms_count (tt_iterate t) K = tt_den t K.
Proof.
  intros Hroot. unfold tt_iterate. rewrite ms_count_filter_pos, ms_count_iter_all, Hroot. reflexivity.
Qed.

Lemma tt_iterate_pos t K v : In (K, v) (tt_iterate t) -> 0 < v.
Proof. unfold tt_iterate. rewrite filter_In. cbn. intros [_ H]. lia. Qed.

(* ---------------------------------------------------------------------------------------------- *)
(* mapping the values (scaling on serialization) *)

Lemma tt_map_values_name g t : tt_name (tt_map_values g t) = tt_name t.
Proof. destruct t; reflexivity. Qed.

Lemma fbs_map_values g ch : fbs (map (tt_map_values g) ch) = fbs ch.
Proof.
  unfold fbs. rewrite map_map. apply map_ext. intros c. unfold first_byte. now rewrite tt_map_values_name.
Qed.

Lemma tt_map_values_wf g t : tt_wf t -> tt_wf (tt_map_values g t).
Proof.
  induction t as [n v ch IH] using ttnode_ind'. intros H. apply tt_wf_unfold in H. destruct H as [H1 H2].
  cbn [tt_map_values]. apply tt_wf_unfold. rewrite fbs_map_values. split; [exact H1|].
  rewrite Forall_forall in *. intros c' Hc'. apply in_map_iff in Hc'. destruct Hc' as (c & <- & Hc). auto.
Qed.

Lemma opt_byte_dec (a b : option byte) : {a = b} + {a <> b}.
Proof. decide equality. apply N.eq_dec. Defined.

Lemma tt_map_values_den g t : g 0 = 0 -> forall k, tt_wf t -> tt_den (tt_map_values g t) k = g (tt_den t k).
Proof.
  intros Hg. induction t as [n v ch IH] using ttnode_ind'. intros k Hwf.
  pose proof Hwf as Hwf0. apply tt_wf_unfold in Hwf. destruct Hwf as [[Hn Hd] Hall].
  destruct k as [|b k].
  - rewrite (tt_den_nil _ (tt_map_values_wf g _ Hwf0)), (tt_den_nil _ Hwf0). reflexivity.
  - cbn [tt_map_values]. destruct (in_dec opt_byte_dec (Some b) (fbs ch)) as [Hin|Hnin].
    + unfold fbs in Hin. apply in_map_iff in Hin. destruct Hin as (c & Hfc & Hc).
      apply in_split in Hc. destruct Hc as (l1 & l2 & ->).
      rewrite (den_via_lead n v l1 c l2 b k Hwf0 Hfc).
      rewrite map_app. cbn [map].
      assert (Hwm : tt_wf (TT n (g v) (map (tt_map_values g) l1 ++ tt_map_values g c :: map (tt_map_values g) l2))).
      { pose proof (tt_map_values_wf g _ Hwf0) as W. cbn [tt_map_values] in W. now rewrite map_app in W. }
      rewrite (den_via_lead n (g v) _ (tt_map_values g c) _ b k Hwm)
        by (unfold first_byte in *; now rewrite tt_map_values_name).
      unfold under. rewrite tt_map_values_name.
      apply Forall_app in IH. destruct IH as [_ IH]. inversion IH as [|? ? IHc _]; subst.
      apply Forall_app in Hall. destruct Hall as [_ Hall]. inversion Hall as [|? ? Hwc _]; subst.
      destruct (strip_prefix (tt_name c) (b :: k)); [apply IHc, Hwc|now rewrite Hg].
    + rewrite !tt_den_unfold. cbn [is_nil]. rewrite !den_ch_other; try assumption; try (rewrite fbs_map_values; assumption).
      cbn. now rewrite Hg.
Qed.

(* ---------------------------------------------------------------------------------------------- *)
(* Serialize / Deserialize *)
From Pyro Require Import Proofs.VarintProofs.

Definition parse_kids (f : nat) :=
  fix kids (n : nat) (acc : list ttnode) (bs : bytes) {struct n} : option (list ttnode * bytes) :=
    match n with
    | O => Some (acc, bs)
    | S n' => match tt_parse f bs with
              | None => None
              | Some (c, bs') => kids n' (ch_insert c acc) bs'
              end
    end.

Lemma tt_parse_S f bs : tt_parse (S f) bs =
  match uvarint_dec bs with None => None | Some (nl, bs1) =>
  if Nlen bs1 <? nl then None else
  match take_bytes (N.to_nat nl) bs1 with None => None | Some (name, bs2) =>
  match uvarint_dec bs2 with None => None | Some (v, bs3) =>
  match uvarint_dec bs3 with None => None | Some (nc, bs4) =>
  if Nlen bs4 <? nc then None else
  match parse_kids f (N.to_nat nc) [] bs4 with
  | None => None
  | Some (ch, rest) => Some (TT name v ch, rest)
  end end end end end.
Proof. reflexivity. Qed.

Lemma uvarint_enc_len n : (1 <= length (uvarint_enc n))%nat.
Proof.
  unfold uvarint_enc. destruct (N.to_nat (N.log2 n)); cbn [uvarint_enc_fuel]; [cbn; lia|].
  destruct (n <? 128); cbn; lia.
Qed.

Lemma tt_serialize_eq m d n v ch :
  tt_serialize m d (TT n v ch) =
  uvarint_enc (Nlen n) ++ n ++ uvarint_enc (tt_scale_val m d v) ++ uvarint_enc (Nlen ch)
    ++ flat_map (tt_serialize m d) ch.
Proof. reflexivity. Qed.

Lemma tt_serialize_len m d t : (1 <= length (tt_serialize m d t))%nat.
Proof. destruct t. rewrite tt_serialize_eq, app_length. pose proof (uvarint_enc_len (Nlen name)). lia. Qed.

Lemma flat_map_ser_len m d ch : (length ch <= length (flat_map (tt_serialize m d) ch))%nat.
Proof.
  induction ch as [|c ch IH]; [cbn; lia|]. cbn [flat_map length]. rewrite app_length.
  pose proof (tt_serialize_len m d c). lia.
Qed.

Lemma child_ser_len m d c ch : In c ch -> (length (tt_serialize m d c) <= length (flat_map (tt_serialize m d) ch))%nat.
Proof.
  induction ch as [|x ch IH]; intros H; [destruct H|]. cbn [flat_map]. rewrite app_length.
  destruct H as [->|H]; [lia|]. specialize (IH H). lia.
Qed.

Definition tt_sim (a b : ttnode) : Prop :=
  tt_wf a /\ tt_name a = tt_name b /\ forall k, tt_den a k = tt_den b k.

Definition parses_back (m d : N) (f : nat) (c : ttnode) : Prop :=
  forall rest, (length (tt_serialize m d c) < f)%nat -> tt_wf c -> tt_fitsb m d c = true ->
    exists c', tt_parse f (tt_serialize m d c ++ rest) = Some (c', rest) /\
               tt_sim c' (tt_map_values (tt_scale_val m d) c).

Lemma under_sim a b k : tt_name a = tt_name b -> (forall r, tt_den a r = tt_den b r) -> under a k = under b k.
Proof. intros Hn Hd. unfold under. rewrite Hn. destruct (strip_prefix (tt_name b) k); auto. Qed.

Lemma parse_kids_spec m d f : forall cs acc rest,
  Forall (parses_back m d f) cs -> Forall tt_wf cs -> Forall (fun c => tt_fitsb m d c = true) cs ->
  (forall c, In c cs -> (length (tt_serialize m d c) < f)%nat) -> Forall tt_wf acc ->
  exists chs, parse_kids f (length cs) acc (flat_map (tt_serialize m d) cs ++ rest) = Some (chs, rest) /\
    Permutation (fbs chs) (fbs cs ++ fbs acc) /\ Forall tt_wf chs /\
    forall k, den_ch chs k = den_ch acc k + den_ch (map (tt_map_values (tt_scale_val m d)) cs) k.
Proof.
  induction cs as [|c cs IH]; intros acc rest HP Hwf Hfit Hlen Hacc.
  - exists acc. cbn. repeat split; [reflexivity|exact Hacc|]. intros k. cbn [map]. replace (den_ch [] k) with 0 by reflexivity. lia.
  - inversion HP as [|? ? HPc HPcs]; subst. inversion Hwf as [|? ? Hwc Hwcs]; subst.
    inversion Hfit as [|? ? Hfc Hfcs]; subst.
    cbn [flat_map length parse_kids]. rewrite <- app_assoc.
    destruct (HPc (flat_map (tt_serialize m d) cs ++ rest)) as (c' & Hp & Hs1 & Hs2 & Hs3);
      [apply Hlen; now left|exact Hwc|exact Hfc|].
    rewrite Hp.
    destruct (IH (ch_insert c' acc) rest HPcs Hwcs Hfcs) as (chs & Hk & Hperm & Hwchs & Hden).
    { intros x Hx. apply Hlen. now right. }
    { unfold ch_insert, ch_insert_named, ch_insert_at.
      rewrite <- (firstn_skipn (ch_pos (tt_name c') acc) acc) in Hacc.
      apply Forall_app in Hacc. destruct Hacc as [A1 A2]. apply Forall_app. split; [exact A1|].
      constructor; assumption. }
    exists chs. split; [exact Hk|]. split; [|split; [exact Hwchs|]].
    + rewrite Hperm. unfold ch_insert, ch_insert_named. rewrite fbs_insert_at_perm.
      cbn [fbs map]. fold (fbs cs).
      assert (Hfc' : first_byte c' = first_byte c).
      { unfold first_byte. rewrite Hs2, tt_map_values_name. reflexivity. }
      rewrite Hfc'. symmetry. apply Permutation_middle.
    + intros k. rewrite Hden. unfold ch_insert, ch_insert_named. rewrite den_ch_insert_at.
      cbn [map]. rewrite den_ch_cons. rewrite (under_sim c' _ k Hs2 Hs3). lia.
Qed.

Lemma tt_fitsb_unfold m d n v ch :
  tt_fitsb m d (TT n v ch) = true ->
  Nlen n < 2 ^ 64 /\ tt_scale_val m d v < 2 ^ 64 /\ Nlen ch < 2 ^ 64 /\ Forall (fun c => tt_fitsb m d c = true) ch.
Proof.
  cbn [tt_fitsb]. rewrite !andb_true_iff, !N.ltb_lt, forallb_forall, Forall_forall. tauto.
Qed.

Lemma tt_parse_serialize m d t : forall f, parses_back m d f t.
Proof.
  induction t as [n v ch IH] using ttnode_ind'. intros f rest Hlen Hwf Hfit.
  destruct f as [|f]; [lia|].
  apply tt_fitsb_unfold in Hfit. destruct Hfit as (F1 & F2 & F3 & F4).
  pose proof Hwf as Hwf0. apply tt_wf_unfold in Hwf. destruct Hwf as [[Hn Hd] Hall].
  rewrite tt_serialize_eq in *. rewrite !app_length in Hlen.
  rewrite <- !app_assoc. rewrite tt_parse_S.
  rewrite uvarint_roundtrip by exact F1.
  replace (Nlen (n ++ _) <? Nlen n) with false
    by (symmetry; apply N.ltb_ge; unfold Nlen; rewrite app_length; lia).
  replace (N.to_nat (Nlen n)) with (length n) by (unfold Nlen; now rewrite Nat2N.id).
  rewrite take_bytes_app.
  rewrite uvarint_roundtrip by exact F2.
  rewrite uvarint_roundtrip by exact F3.
  replace (Nlen (flat_map _ ch ++ rest) <? Nlen ch) with false
    by (symmetry; apply N.ltb_ge; unfold Nlen; rewrite app_length; pose proof (flat_map_ser_len m d ch); lia).
  replace (N.to_nat (Nlen ch)) with (length ch) by (unfold Nlen; now rewrite Nat2N.id).
  destruct (parse_kids_spec m d f ch [] rest) as (chs & Hk & Hperm & Hwchs & Hden);
    try assumption; try constructor.
  { rewrite Forall_forall in *. intros c Hc. apply IH, Hc. }
  { intros c Hc. pose proof (child_ser_len m d c ch Hc).
    pose proof (uvarint_enc_len (Nlen n)). pose proof (uvarint_enc_len (tt_scale_val m d v)).
    pose proof (uvarint_enc_len (Nlen ch)). lia. }
  rewrite Hk. eexists. split; [reflexivity|].
  rewrite app_nil_r in Hperm.
  split; [|split; [reflexivity|]].
  - apply tt_wf_unfold. split; [split|exact Hwchs].
    + intros H. apply Hn. eapply Permutation_in; [exact Hperm|exact H].
    + eapply Permutation_NoDup; [symmetry; exact Hperm|exact Hd].
  - intros k. cbn [tt_map_values]. rewrite !tt_den_unfold, Hden. unfold den_ch at 1. cbn. lia.
Qed.

Theorem tt_deserialize_serialize m d t :
  tt_wf t -> tt_fitsb m d t = true ->
  exists t', tt_deserialize (tt_serialize m d t) = Some t' /\ tt_sim t' (tt_map_values (tt_scale_val m d) t).
Proof.
  intros Hwf Hfit. unfold tt_deserialize.
  destruct (tt_parse_serialize m d t (S (length (tt_serialize m d t))) []) as (t' & Hp & Hs); try assumption; [lia|].
  rewrite app_nil_r in Hp. rewrite Hp. exists t'. split; [reflexivity|exact Hs].
Qed.

Lemma tt_scale_val_0 m d : tt_scale_val m d 0 = 0.
Proof. unfold tt_scale_val. destruct (_ || _); reflexivity. Qed.

(* scaling on serialization floors each count; the decoded trie reports exactly the scaled counts *)
Lemma ttrie_serialize_scaled : forall m d t,
  tt_wf t -> tt_name t = [] -> tt_fitsb m d t = true ->
  exists t', tt_deserialize (tt_serialize m d t) = Some t' /\ tt_wf t' /\ tt_name t' = [] /\
    (forall k, tt_den t' k = tt_scale_val m d (tt_den t k)) /\
    (forall K v, In (K, v) (tt_iterate t') <-> (0 < v /\ v = tt_scale_val m d (tt_den t K))).
Proof.
  intros m d t Hwf Hroot Hfit.
  destruct (tt_deserialize_serialize m d t Hwf Hfit) as (t' & Hd & Hw & Hn & Hden).
  rewrite tt_map_values_name, Hroot in Hn.
  assert (Hden' : forall k, tt_den t' k = tt_scale_val m d (tt_den t k)).
  { intros k. rewrite Hden. apply tt_map_values_den; [apply tt_scale_val_0|exact Hwf]. }
  exists t'. repeat split; try assumption.
  - apply tt_iterate_spec in H; try assumption. tauto.
  - apply tt_iterate_spec in H; try assumption. destruct H. now rewrite <- Hden'.
  - intros [H1 H2]. apply tt_iterate_spec; try assumption. split; [exact H1|]. now rewrite Hden'.
Qed.

Lemma tt_scale_val_11 v : tt_scale_val 1 1 v = v.
Proof. reflexivity. Qed.

(* the wire format loses nothing: the decoded trie stores and reports the same counts *)
Lemma ttrie_roundtrip : forall t,
  tt_wf t -> tt_name t = [] -> tt_fitsb 1 1 t = true ->
  exists t', tt_deserialize (tt_serialize 1 1 t) = Some t' /\ tt_wf t' /\ tt_name t' = [] /\
    (forall k, tt_den t' k = tt_den t k) /\
    (forall K v, In (K, v) (tt_iterate t') <-> In (K, v) (tt_iterate t)).
Proof.
  intros t Hwf Hroot Hfit.
  destruct (ttrie_serialize_scaled 1 1 t Hwf Hroot Hfit) as (t' & H1 & H2 & H3 & H4 & H5).
  exists t'. repeat split; try assumption.
  - intros H. apply H5 in H. apply tt_iterate_spec; try assumption. rewrite tt_scale_val_11 in H. destruct H; split; congruence.
  - intros H. apply H5. apply tt_iterate_spec in H; try assumption. rewrite tt_scale_val_11. destruct H; split; congruence.
Qed.
