(* TTrieProofs.v — lemmas about Model/TTrie.v *)
From Pyro Require Import Model.Base Model.Varint Model.TTrie.
From Coq Require Import ZifyN ZifyNat ZifyBool.

Lemma tt_den_empty k : tt_den tt_empty k = 0.
Proof. destruct k; reflexivity. Qed.
