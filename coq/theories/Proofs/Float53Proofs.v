(* Float53Proofs.v — the facts about the binary64 model that the counters need:
   float64(n) is exact below 2^53, RN(1/1) = 1.0, x * 1.0 = x, hence a share of 1/1 adds n exactly. *)
From Pyro Require Import Model.Base Model.Float53.
From Coq Require Import ZifyBool ZifyN.
Local Open Scope Z_scope.

Lemma rne_div_1 x : 0 <= x -> rne_div x 1 = x.
Proof.
  intros Hx. unfold rne_div. rewrite Z.div_1_r, Z.mod_1_r. cbn. reflexivity.
Qed.

Lemma rne53_one : rne53 1 1 = {| fm := 2 ^ 52; fe := -52 |}.
Proof. vm_compute. reflexivity. Qed.

(* float64(n) for 0 < n < 2^53 is exact: mantissa n * 2^(52-log2 n), exponent log2 n - 52 *)
Lemma rne53_exact n : 0 < n < 2 ^ 53 ->
  rne53 n 1 = {| fm := n * 2 ^ (52 - Z.log2 n); fe := Z.log2 n - 52 |}.
Proof.
  intros Hn. unfold rne53. replace (n <=? 0) with false by lia.
  change (Z.log2 1) with 0. set (lp := Z.log2 n).
  pose proof (Z.log2_spec n ltac:(lia)) as Hs. fold lp in Hs.
  assert (Hlp0 : 0 <= lp) by apply Z.log2_nonneg.
  assert (Hlp : lp <= 52).
  { assert (lp < 53); [|lia]. apply Z.log2_lt_pow2; lia. }
  change (2 ^ 0) with 1. rewrite !Z.mul_1_r, Z.mul_1_l.
  replace (2 ^ lp <=? n) with true by lia.
  replace (lp - 0 - 52) with (lp - 52) by lia.
  assert (Hm : rne_scaled n 1 (lp - 52) = n * 2 ^ (52 - lp)).
  { unfold rne_scaled. destruct (0 <=? lp - 52) eqn:E.
    - assert (lp = 52) by lia. replace (lp - 52) with 0 by lia. replace (52 - lp) with 0 by lia.
      change (2 ^ 0) with 1. rewrite !Z.mul_1_r. apply rne_div_1. lia.
    - replace (- (lp - 52)) with (52 - lp) by lia. apply rne_div_1.
      assert (0 < 2 ^ (52 - lp)) by (apply Z.pow_pos_nonneg; lia). nia. }
  rewrite Hm.
  assert (Hlt : n * 2 ^ (52 - lp) < 2 ^ 53).
  { replace (2 ^ 53) with (2 ^ Z.succ lp * 2 ^ (52 - lp)).
    - assert (0 < 2 ^ (52 - lp)) by (apply Z.pow_pos_nonneg; lia). nia.
    - rewrite <- Z.pow_add_r by lia. f_equal. lia. }
  replace (n * 2 ^ (52 - lp) =? 2 ^ 53) with false by lia. reflexivity.
Qed.

Lemma rne53_exact_mant n : 0 < n < 2 ^ 53 -> 2 ^ 52 <= n * 2 ^ (52 - Z.log2 n) < 2 ^ 53.
Proof.
  intros Hn. set (lp := Z.log2 n). pose proof (Z.log2_spec n ltac:(lia)) as Hs. fold lp in Hs.
  assert (Hlp0 : 0 <= lp) by apply Z.log2_nonneg.
  assert (Hlp : lp <= 52) by (assert (lp < 53); [apply Z.log2_lt_pow2; lia|lia]).
  assert (H52 : 2 ^ 52 = 2 ^ lp * 2 ^ (52 - lp)) by (rewrite <- Z.pow_add_r by lia; f_equal; lia).
  assert (H53 : 2 ^ 53 = 2 ^ Z.succ lp * 2 ^ (52 - lp)) by (rewrite <- Z.pow_add_r by lia; f_equal; lia).
  assert (0 < 2 ^ (52 - lp)) by (apply Z.pow_pos_nonneg; lia).
  rewrite H52, H53. nia.
Qed.

(* x * 1.0 = x for a normalised x *)
Lemma f53_mul_one m e : 2 ^ 52 <= m < 2 ^ 53 ->
  f53_mul {| fm := m; fe := e |} (rne53 1 1) = {| fm := m; fe := e |}.
Proof.
  intros Hm. rewrite rne53_one. unfold f53_mul. cbn [fm fe].
  assert (Hlog : Z.log2 (m * 2 ^ 52) = 104).
  { rewrite Z.log2_mul_pow2 by lia. assert (Z.log2 m = 52); [|lia].
    apply Z.log2_unique; [lia|]. change (Z.succ 52) with 53. lia. }
  assert (Hr : rne53 (m * 2 ^ 52) 1 = {| fm := m; fe := 52 |}).
  { unfold rne53. replace (m * 2 ^ 52 <=? 0) with false by lia. rewrite Hlog. change (Z.log2 1) with 0.
    change (2 ^ 0) with 1. rewrite !Z.mul_1_r, Z.mul_1_l.
    replace (2 ^ 104 <=? m * 2 ^ 52) with true by lia.
    change (104 - 0 - 52) with 52. unfold rne_scaled. change (0 <=? 52) with true. cbv iota. rewrite Z.mul_1_l.
    unfold rne_div. rewrite Z.div_mul by lia. rewrite Z.mod_mul by lia. change (2 * 0 <? 2 ^ 52) with true. cbv iota.
    replace (m =? 2 ^ 53) with false by lia. reflexivity. }
  rewrite Hr. cbn [fm fe]. replace (m =? 0) with false by lia. f_equal. lia.
Qed.

(* uint64(float64(n) * RN(1/1)) = n below 2^53: a write whose share of a bucket is 1/1 adds its whole
   sample count to that bucket's counter *)
Theorem samples_incr_one n : (n < 2 ^ 53)%N -> samples_incr n 1 1 = n.
Proof.
  intros Hn. unfold samples_incr, f53_of_N, f53_of_rat.
  destruct (N.eq_dec n 0) as [->|Hz]; [vm_compute; reflexivity|].
  assert (Hz' : 0 < Z.of_N n < 2 ^ 53) by lia.
  rewrite (rne53_exact _ Hz'). rewrite (f53_mul_one _ _ (rne53_exact_mant _ Hz')).
  unfold f53_trunc. cbn [fm fe]. set (lp := Z.log2 (Z.of_N n)).
  assert (Hlp0 : 0 <= lp) by apply Z.log2_nonneg.
  assert (Hlp : lp <= 52) by (assert (lp < 53); [apply Z.log2_lt_pow2; lia|lia]).
  destruct (0 <=? lp - 52) eqn:E.
  - assert (lp = 52) by lia. replace (52 - lp) with 0 by lia. replace (lp - 52) with 0 by lia.
    change (2 ^ 0) with 1. rewrite !Z.mul_1_r. lia.
  - replace (- (lp - 52)) with (52 - lp) by lia. rewrite Z.div_mul; [lia|].
    assert (0 < 2 ^ (52 - lp)) by (apply Z.pow_pos_nonneg; lia). lia.
Qed.
