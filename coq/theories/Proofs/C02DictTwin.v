(* C02DictTwin.v — the cached storage with real tree bytes and the dictionaries store (Model/StorageCachedDict.v)
   refines builder cache's cached twin (Model/StorageCached.v), hence the storage over plain maps.

   Part A: storage.go over an abstract trees store — a simulation between two stores lifts to Put/Get/Delete/
           DeleteDataBefore.
   Part B: cache's twin is the instance over Model/Cache.v with the abstracted codec.
   Part C: client-level simulation of a Model/Cache.v object store by a plain map (from Proofs/CacheProofs.v),
           instantiated for the dictionaries store (codec of Model/Dict.v, Proofs/DictProofs.v).
   Part D: the bytes store simulates cache's trees cache: every load returns what was last saved under the key,
           reloaded (t_reload), because the bytes decode stably while the dictionary only grows
           (Proofs/TreeCodecProofs.v: serialize_stable, which rests on C12's key stability).
   Part E: maintenance, histories, C02_refines_dict_partial. *)
From Coq Require Import List Arith ZArith NArith Bool Lia RelationClasses.
From Pyro Require Import Model.Base Model.Varint Model.Tree Model.Cappedarr Model.TreeCodec Model.Dict Model.Lfu Model.Cache.
From Pyro Require Import Model.Segment Model.Timeline Model.Storage Model.StorageCached Model.StorageCachedDict.
From Pyro Require Import Proofs.CacheProofs Proofs.DictProofs Proofs.TreeCodecProofs Proofs.TreeReloadProofs.
From Pyro Require Import Proofs.StorageProofs Proofs.C02StorageReload Proofs.StorageCachedProofs.
Import ListNotations.

(* ================= Part A ================= *)
Section FoldSim.
Context {X1 X2 A : Type} (f1 : X1 -> A -> X1) (f2 : X2 -> A -> X2) (RX : X1 -> X2 -> Prop) (okX : X1 -> bool).
Hypothesis Hstep : forall x1 x2 a, RX x1 x2 -> okX (f1 x1 a) = true -> RX (f1 x1 a) (f2 x2 a).
Hypothesis Hmono : forall x1 a, okX (f1 x1 a) = true -> okX x1 = true.

Lemma fold_mono : forall l x1, okX (fold_left f1 l x1) = true -> okX x1 = true.
Proof. induction l as [|a l IH]; intros x1 H; [exact H|]. cbn in H. eapply Hmono, IH, H. Qed.

Lemma fold_sim : forall l x1 x2, RX x1 x2 -> okX (fold_left f1 l x1) = true ->
  RX (fold_left f1 l x1) (fold_left f2 l x2).
Proof.
  induction l as [|a l IH]; intros x1 x2 R H; [exact R|]. cbn [fold_left] in *.
  apply IH; [|exact H]. apply Hstep; [exact R|]. eapply fold_mono; eauto.
Qed.
End FoldSim.

Section GenSim.
Context {S1 S2 : Type}.
Context (rA : tkey -> S1 -> S1 * tnode) (pA : tkey -> tnode -> S1 -> S1) (dA : tkey -> S1 -> S1) (xA : bytes -> S1 -> S1).
Context (rB : tkey -> S2 -> S2 * tnode) (pB : tkey -> tnode -> S2 -> S2) (dB : tkey -> S2 -> S2) (xB : bytes -> S2 -> S2).
Context (Rr : S1 -> S2 -> Prop) (okf : S1 -> bool).
Hypothesis Hread : forall k s1 s2, Rr s1 s2 -> okf (fst (rA k s1)) = true ->
  snd (rA k s1) = snd (rB k s2) /\ Rr (fst (rA k s1)) (fst (rB k s2)).
Hypothesis Hput : forall k v s1 s2, Rr s1 s2 -> okf (pA k v s1) = true -> Rr (pA k v s1) (pB k v s2).
Hypothesis Hdel : forall k s1 s2, Rr s1 s2 -> okf (dA k s1) = true -> Rr (dA k s1) (dB k s2).
Hypothesis Hdrop : forall k s1 s2, Rr s1 s2 -> okf (xA k s1) = true -> Rr (xA k s1) (xB k s2).
Hypothesis Mread : forall k s1, okf (fst (rA k s1)) = true -> okf s1 = true.
Hypothesis Mput : forall k v s1, okf (pA k v s1) = true -> okf s1 = true.
Hypothesis Mdel : forall k s1, okf (dA k s1) = true -> okf s1 = true.
Hypothesis Mdrop : forall k s1, okf (xA k s1) = true -> okf s1 = true.

Notation stA := (gst (S:=S1)).
Notation stB := (gst (S:=S2)).
Definition Rst (a : stA) (b : stB) : Prop := g_segs a = g_segs b /\ Rr (g_store a) (g_store b).
Definition okst (a : stA) : bool := okf (g_store a).

(* reads *)
Lemma reads_mono : forall keys s1, okf (fst (g_reads rA keys s1)) = true -> okf s1 = true.
Proof.
  induction keys as [|k r IH]; intros s1 H; [exact H|]. cbn [g_reads] in H.
  destruct (rA k s1) as [s1' v] eqn:E1. destruct (g_reads rA r s1') as [s1'' vs] eqn:E2. cbn [fst] in H.
  apply (Mread k). rewrite E1. cbn [fst]. apply IH. rewrite E2. exact H.
Qed.

Lemma reads_sim : forall keys s1 s2, Rr s1 s2 -> okf (fst (g_reads rA keys s1)) = true ->
  snd (g_reads rA keys s1) = snd (g_reads rB keys s2) /\ Rr (fst (g_reads rA keys s1)) (fst (g_reads rB keys s2)).
Proof.
  induction keys as [|k r IH]; intros s1 s2 R H; [cbn; auto|]. cbn [g_reads] in *.
  destruct (rA k s1) as [s1' v] eqn:E1. destruct (rB k s2) as [s2' v'] eqn:E2.
  destruct (g_reads rA r s1') as [s1'' vs] eqn:E3. destruct (g_reads rB r s2') as [s2'' vs'] eqn:E4. cbn [fst snd] in *.
  assert (H1 : okf s1' = true). { apply (reads_mono r). rewrite E3. exact H. }
  destruct (Hread k s1 s2 R) as [Hv Hr]; [rewrite E1; exact H1|]. rewrite E1, E2 in Hv, Hr. cbn [fst snd] in Hv, Hr.
  destruct (IH s1' s2' Hr) as [Hvs Hr']; [rewrite E3; exact H|]. rewrite E3, E4 in Hvs, Hr'. cbn [fst snd] in *.
  subst. auto.
Qed.

(* addons *)
Definition RXa (x1 : S1 * tnode) (x2 : S2 * tnode) : Prop := Rr (fst x1) (fst x2) /\ snd x1 = snd x2.
Definition okXa (x1 : S1 * tnode) : bool := okf (fst x1).

Lemma addon_mono : forall k x1 a, okXa (g_addon rA k x1 a) = true -> okXa x1 = true.
Proof.
  intros k [s1 t] a H. unfold g_addon, okXa in *. cbn [fst snd] in *.
  destruct (rA (k, fst a, snd a) s1) as [s' v] eqn:E. cbn [fst] in H. apply (Mread (k, fst a, snd a)). rewrite E. exact H.
Qed.

Lemma addon_sim : forall k x1 x2 a, RXa x1 x2 -> okXa (g_addon rA k x1 a) = true -> RXa (g_addon rA k x1 a) (g_addon rB k x2 a).
Proof.
  intros k [s1 t] [s2 t'] a [R E] H. unfold g_addon, okXa, RXa in *. cbn [fst snd] in *. subst t'.
  destruct (rA (k, fst a, snd a) s1) as [s1' v] eqn:E1. destruct (rB (k, fst a, snd a) s2) as [s2' v'] eqn:E2. cbn [fst snd] in *.
  destruct (Hread (k, fst a, snd a) s1 s2 R) as [Hv Hr]; [rewrite E1; exact H|]. rewrite E1, E2 in Hv, Hr. cbn [fst snd] in *.
  subst. auto.
Qed.

(* one segment callback of Put *)
Lemma put_cb_mono : forall k prof s1 cb, okf (g_put_cb rA pA k prof s1 cb) = true -> okf s1 = true.
Proof.
  intros k prof s1 cb H. unfold g_put_cb in H.
  destruct (rA (k, pc_lvl cb, pc_t cb) s1) as [s1' cached] eqn:E1.
  destruct (fold_left (g_addon rA k) (pc_addons cb) (s1', t_clone (Z.to_N (pc_m cb)) (Z.to_N (pc_d cb)) prof)) as [s1'' cl] eqn:E2.
  apply Mput in H.
  assert (H2 : okXa (s1', t_clone (Z.to_N (pc_m cb)) (Z.to_N (pc_d cb)) prof) = true).
  { eapply (fold_mono (g_addon rA k) okXa (addon_mono k)). rewrite E2. exact H. }
  apply (Mread (k, pc_lvl cb, pc_t cb)). rewrite E1. exact H2.
Qed.

Lemma put_cb_sim : forall k prof s1 s2 cb, Rr s1 s2 -> okf (g_put_cb rA pA k prof s1 cb) = true ->
  Rr (g_put_cb rA pA k prof s1 cb) (g_put_cb rB pB k prof s2 cb).
Proof.
  intros k prof s1 s2 cb R H. unfold g_put_cb in *.
  destruct (rA (k, pc_lvl cb, pc_t cb) s1) as [s1' cached] eqn:E1.
  destruct (rB (k, pc_lvl cb, pc_t cb) s2) as [s2' cached'] eqn:E2.
  set (cl0 := t_clone (Z.to_N (pc_m cb)) (Z.to_N (pc_d cb)) prof) in *.
  destruct (fold_left (g_addon rA k) (pc_addons cb) (s1', cl0)) as [s1'' cl] eqn:E3.
  destruct (fold_left (g_addon rB k) (pc_addons cb) (s2', cl0)) as [s2'' cl'] eqn:E4.
  pose proof (Mput _ _ _ H) as H3.
  assert (H2 : okXa (s1', cl0) = true).
  { eapply (fold_mono (g_addon rA k) okXa (addon_mono k)). rewrite E3. exact H3. }
  destruct (Hread (k, pc_lvl cb, pc_t cb) s1 s2 R) as [Hv Hr]; [rewrite E1; exact H2|].
  rewrite E1, E2 in Hv, Hr. cbn [fst snd] in Hv, Hr. subst cached'.
  assert (F : RXa (fold_left (g_addon rA k) (pc_addons cb) (s1', cl0)) (fold_left (g_addon rB k) (pc_addons cb) (s2', cl0))).
  { apply (fold_sim (g_addon rA k) (g_addon rB k) RXa okXa (addon_sim k) (addon_mono k)); [split; auto|]. rewrite E3. exact H3. }
  rewrite E3, E4 in F. destruct F as [F1 F2]. cbn [fst snd] in F1, F2. subst cl'.
  apply Hput; assumption.
Qed.

Lemma del_cbs_mono : forall k cbs s1, okf (g_del_cbs dA k cbs s1) = true -> okf s1 = true.
Proof.
  intros k cbs s1 H. unfold g_del_cbs in H.
  eapply (fold_mono (fun s cb => dA (k, fst cb, snd cb) s) okf); [|exact H]. intros x a H1. cbn beta in *. eapply Mdel; eauto.
Qed.

Lemma del_cbs_sim : forall k cbs s1 s2, Rr s1 s2 -> okf (g_del_cbs dA k cbs s1) = true ->
  Rr (g_del_cbs dA k cbs s1) (g_del_cbs dB k cbs s2).
Proof.
  intros k cbs s1 s2 R H. unfold g_del_cbs in *.
  apply (fold_sim (fun s cb => dA (k, fst cb, snd cb) s) (fun s cb => dB (k, fst cb, snd cb) s) Rr okf);
    [intros x1 x2 a R1 H1; cbn beta in *; apply Hdel; assumption
    |intros x a H1; cbn beta in *; eapply Mdel; eauto | exact R | exact H].
Qed.

(* ---- the four storage operations ---- *)
Lemma put_mono : forall rt pi st, okst (fst (gst_put rA pA rt pi st)) = true -> okst st = true.
Proof.
  intros rt pi st H. unfold gst_put, gst_put_go, okst in *.
  assert (G : okf (g_store (fst (let '(seg', cbs) := s_put_unix (pi_from pi) (pi_until pi) (t_total (pi_tree pi))
               (s_set_meta (pi_meta pi) match seg_lookup (pi_sid pi) (g_segs st) with Some s => s | None => Segment.s_empty end) in
             ({| g_segs := seg_store (pi_sid pi) seg' (g_segs st);
                 g_store := fold_left (g_put_cb rA pA (sid_key (pi_sid pi)) (pi_tree pi)) cbs (g_store st) |}, true)))) = true
          -> okf (g_store st) = true).
  { destruct (s_put_unix _ _ _ _) as [seg' cbs]. cbn [fst g_store]. intros G.
    eapply (fold_mono (g_put_cb rA pA (sid_key (pi_sid pi)) (pi_tree pi)) okf); [|exact G]. intros x a. apply put_cb_mono. }
  destruct rt as [thr|]; [destruct (pi_from pi <? thr)%Z; [exact H|]|]; apply G; exact H.
Qed.

Lemma put_sim : forall rt pi stA0 stB0, Rst stA0 stB0 -> okst (fst (gst_put rA pA rt pi stA0)) = true ->
  snd (gst_put rA pA rt pi stA0) = snd (gst_put rB pB rt pi stB0) /\
  Rst (fst (gst_put rA pA rt pi stA0)) (fst (gst_put rB pB rt pi stB0)).
Proof.
  intros rt pi a b [Hs R] H. unfold gst_put, gst_put_go, okst in *.
  assert (G : okf (g_store (fst (let '(seg', cbs) := s_put_unix (pi_from pi) (pi_until pi) (t_total (pi_tree pi))
               (s_set_meta (pi_meta pi) match seg_lookup (pi_sid pi) (g_segs a) with Some s => s | None => Segment.s_empty end) in
             ({| g_segs := seg_store (pi_sid pi) seg' (g_segs a);
                 g_store := fold_left (g_put_cb rA pA (sid_key (pi_sid pi)) (pi_tree pi)) cbs (g_store a) |}, true)))) = true ->
     snd (let '(seg', cbs) := s_put_unix (pi_from pi) (pi_until pi) (t_total (pi_tree pi))
               (s_set_meta (pi_meta pi) match seg_lookup (pi_sid pi) (g_segs a) with Some s => s | None => Segment.s_empty end) in
             ({| g_segs := seg_store (pi_sid pi) seg' (g_segs a);
                 g_store := fold_left (g_put_cb rA pA (sid_key (pi_sid pi)) (pi_tree pi)) cbs (g_store a) |}, true)) =
     snd (let '(seg', cbs) := s_put_unix (pi_from pi) (pi_until pi) (t_total (pi_tree pi))
               (s_set_meta (pi_meta pi) match seg_lookup (pi_sid pi) (g_segs b) with Some s => s | None => Segment.s_empty end) in
             ({| g_segs := seg_store (pi_sid pi) seg' (g_segs b);
                 g_store := fold_left (g_put_cb rB pB (sid_key (pi_sid pi)) (pi_tree pi)) cbs (g_store b) |}, true)) /\
     Rst (fst (let '(seg', cbs) := s_put_unix (pi_from pi) (pi_until pi) (t_total (pi_tree pi))
               (s_set_meta (pi_meta pi) match seg_lookup (pi_sid pi) (g_segs a) with Some s => s | None => Segment.s_empty end) in
             ({| g_segs := seg_store (pi_sid pi) seg' (g_segs a);
                 g_store := fold_left (g_put_cb rA pA (sid_key (pi_sid pi)) (pi_tree pi)) cbs (g_store a) |}, true)))
         (fst (let '(seg', cbs) := s_put_unix (pi_from pi) (pi_until pi) (t_total (pi_tree pi))
               (s_set_meta (pi_meta pi) match seg_lookup (pi_sid pi) (g_segs b) with Some s => s | None => Segment.s_empty end) in
             ({| g_segs := seg_store (pi_sid pi) seg' (g_segs b);
                 g_store := fold_left (g_put_cb rB pB (sid_key (pi_sid pi)) (pi_tree pi)) cbs (g_store b) |}, true)))).
  { rewrite <- Hs. destruct (s_put_unix _ _ _ _) as [seg' cbs]. cbn [fst snd g_store g_segs]. intros G.
    split; [reflexivity|]. split; [cbn; reflexivity|]. cbn [g_store].
    apply (fold_sim (g_put_cb rA pA (sid_key (pi_sid pi)) (pi_tree pi)) (g_put_cb rB pB (sid_key (pi_sid pi)) (pi_tree pi)) Rr okf);
      [intros x1 x2 c; apply put_cb_sim | intros x c; apply put_cb_mono | exact R | exact G]. }
  destruct rt as [thr|]; [destruct (pi_from pi <? thr)%Z; [split; [reflexivity|split; assumption]|]|]; apply G; exact H.
Qed.

Lemma get_mono : forall sel f u st, okst (fst (gst_get rA sel f u st)) = true -> okst st = true.
Proof.
  intros sel f u st H. unfold gst_get, okst in *. destruct (s_normalize_unix (f, u)) as [a b].
  destruct (g_reads rA _ (g_store st)) as [s' vals] eqn:E. cbn [fst g_store] in H.
  eapply reads_mono. rewrite E. exact H.
Qed.

Lemma get_sim : forall sel f u stA0 stB0, Rst stA0 stB0 -> okst (fst (gst_get rA sel f u stA0)) = true ->
  snd (gst_get rA sel f u stA0) = snd (gst_get rB sel f u stB0) /\
  Rst (fst (gst_get rA sel f u stA0)) (fst (gst_get rB sel f u stB0)).
Proof.
  intros sel f u x y [Hs R] H. unfold gst_get, okst in *. rewrite <- Hs. destruct (s_normalize_unix (f, u)) as [a b].
  set (matching := filter (fun ks => sel_matches sel (fst ks)) (g_segs x)) in *.
  set (keys := map item_key (get_items a b matching)) in *.
  destruct (g_reads rA keys (g_store x)) as [s1 vals] eqn:E1. destruct (g_reads rB keys (g_store y)) as [s2 vals'] eqn:E2.
  cbn [fst snd g_store g_segs] in *.
  destruct (reads_sim keys _ _ R) as [Hv Hr]; [rewrite E1; exact H|]. rewrite E1, E2 in Hv, Hr. cbn [fst snd] in *. subst vals'.
  split; [reflexivity|]. split; [reflexivity|exact Hr].
Qed.

Lemma delete_series_mono : forall st ks, okst (gst_delete_series dA xA st ks) = true -> okst st = true.
Proof.
  intros st ks H. unfold gst_delete_series, okst in *. destruct (s_delete_before_unix max_time_unix (snd ks)) as [[x cbs] y].
  cbn [g_store] in H. eapply del_cbs_mono, Mdrop, H.
Qed.

Lemma delete_series_sim : forall x y ks, Rst x y -> okst (gst_delete_series dA xA x ks) = true ->
  Rst (gst_delete_series dA xA x ks) (gst_delete_series dB xB y ks).
Proof.
  intros x y ks [Hs R] H. unfold gst_delete_series, okst in *. destruct (s_delete_before_unix max_time_unix (snd ks)) as [[z cbs] w].
  cbn [g_store] in H. split; [cbn [g_segs]; rewrite Hs; reflexivity|]. cbn [g_store].
  apply Hdrop; [|exact H]. apply del_cbs_sim; [exact R|]. eapply Mdrop, H.
Qed.

Lemma delete_mono : forall sel st, okst (gst_delete dA xA sel st) = true -> okst st = true.
Proof.
  intros sel st H. unfold gst_delete in H. eapply (fold_mono (gst_delete_series dA xA) okst); [|exact H].
  intros x a. apply delete_series_mono.
Qed.

Lemma delete_sim : forall sel x y, Rst x y -> okst (gst_delete dA xA sel x) = true ->
  Rst (gst_delete dA xA sel x) (gst_delete dB xB sel y).
Proof.
  intros sel x y R H. unfold gst_delete in *. destruct R as [Hs R]. rewrite <- Hs.
  apply (fold_sim (gst_delete_series dA xA) (gst_delete_series dB xB) Rst okst);
    [intros a b ks; apply delete_series_sim | intros a ks; apply delete_series_mono | split; assumption | exact H].
Qed.

Lemma retention_series_mono : forall thr st ks, okst (gst_retention_series dA xA thr st ks) = true -> okst st = true.
Proof.
  intros thr st ks H. unfold gst_retention_series, okst in *. destruct (s_delete_before_unix thr (snd ks)) as [[seg' cbs] rd].
  destruct rd; cbn [g_store] in H; [eapply del_cbs_mono, Mdrop, H | eapply del_cbs_mono, H].
Qed.

Lemma retention_series_sim : forall thr x y ks, Rst x y -> okst (gst_retention_series dA xA thr x ks) = true ->
  Rst (gst_retention_series dA xA thr x ks) (gst_retention_series dB xB thr y ks).
Proof.
  intros thr x y ks [Hs R] H. unfold gst_retention_series, okst in *. destruct (s_delete_before_unix thr (snd ks)) as [[seg' cbs] rd].
  destruct rd; cbn [g_store] in H; (split; [cbn [g_segs]; rewrite Hs; reflexivity|]); cbn [g_store].
  - apply Hdrop; [|exact H]. apply del_cbs_sim; [exact R|]. eapply Mdrop, H.
  - apply del_cbs_sim; assumption.
Qed.

Lemma retention_mono : forall thr st, okst (gst_retention dA xA thr st) = true -> okst st = true.
Proof.
  intros thr st H. unfold gst_retention in H. eapply (fold_mono (gst_retention_series dA xA thr) okst); [|exact H].
  intros x a. apply retention_series_mono.
Qed.

Lemma retention_sim : forall thr x y, Rst x y -> okst (gst_retention dA xA thr x) = true ->
  Rst (gst_retention dA xA thr x) (gst_retention dB xB thr y).
Proof.
  intros thr x y R H. unfold gst_retention in *. destruct R as [Hs R]. rewrite <- Hs.
  apply (fold_sim (gst_retention_series dA xA thr) (gst_retention_series dB xB thr) Rst okst);
    [intros a b ks; apply retention_series_sim | intros a ks; apply retention_series_mono | split; assumption | exact H].
Qed.

Theorem gst_step_mono : forall rt st o, okst (fst (gst_step rA pA dA xA rt st o)) = true -> okst st = true.
Proof.
  intros rt st o H. destruct o as [pi|sel f u|sel|thr]; cbn [gst_step] in H.
  - destruct (gst_put rA pA rt pi st) as [st' ok] eqn:E. cbn [fst] in H. eapply put_mono. rewrite E. exact H.
  - destruct (gst_get rA sel f u st) as [st' r] eqn:E. cbn [fst] in H. eapply get_mono. rewrite E. exact H.
  - eapply delete_mono, H.
  - eapply retention_mono, H.
Qed.

Theorem gst_step_sim : forall rt x y o, Rst x y -> okst (fst (gst_step rA pA dA xA rt x o)) = true ->
  snd (gst_step rA pA dA xA rt x o) = snd (gst_step rB pB dB xB rt y o) /\
  Rst (fst (gst_step rA pA dA xA rt x o)) (fst (gst_step rB pB dB xB rt y o)).
Proof.
  intros rt x y o R H. destruct o as [pi|sel f u|sel|thr]; cbn [gst_step] in *.
  - destruct (gst_put rA pA rt pi x) as [x' ok] eqn:E1. destruct (gst_put rB pB rt pi y) as [y' ok'] eqn:E2. cbn [fst snd] in *.
    destruct (put_sim rt pi x y R) as [A B]; [rewrite E1; exact H|]. rewrite E1, E2 in A, B. cbn [fst snd] in *. subst. auto.
  - destruct (gst_get rA sel f u x) as [x' r] eqn:E1. destruct (gst_get rB sel f u y) as [y' r'] eqn:E2. cbn [fst snd] in *.
    destruct (get_sim sel f u x y R) as [A B]; [rewrite E1; exact H|]. rewrite E1, E2 in A, B. cbn [fst snd] in *. subst. auto.
  - split; [reflexivity|]. apply delete_sim; assumption.
  - split; [reflexivity|]. apply retention_sim; assumption.
Qed.
End GenSim.

(* ================= Part B: cache's twin is the instance over Model/Cache.v ================= *)
Definition c_nodrop (k : bytes) (c : tcache) : tcache := c.
Definition to_cst (g : gst (S:=tcache)) : cst_state := {| cs_segs := g_segs g; cs_trees := g_store g |}.
Definition cg_step := gst_step c_read c_put c_del c_nodrop.

Lemma cg_reads : forall keys c, g_reads c_read keys c = c_reads keys c.
Proof. induction keys as [|k r IH]; intros c; cbn; [reflexivity|]. destruct (c_read k c). rewrite IH. reflexivity. Qed.

Lemma cg_put_cb : forall k prof c cb, g_put_cb c_read c_put k prof c cb = c_put_cb k prof c cb.
Proof. reflexivity. Qed.

Lemma cg_del_cbs : forall k cbs c, g_del_cbs c_del k cbs c = c_del_cbs k cbs c.
Proof. reflexivity. Qed.

Lemma fold_to_cst : forall {A} (f : gst (S:=tcache) -> A -> gst (S:=tcache)) (g : cst_state -> A -> cst_state),
  (forall x a, to_cst (f x a) = g (to_cst x) a) ->
  forall l x, to_cst (fold_left f l x) = fold_left g l (to_cst x).
Proof. intros A f g H. induction l as [|a l IH]; intros x; cbn; [reflexivity|]. rewrite IH, H. reflexivity. Qed.

Lemma cg_step_eq : forall rt g o,
  cst_step rt (to_cst g) o = (to_cst (fst (cg_step rt g o)), snd (cg_step rt g o)).
Proof.
  intros rt g o. destruct o as [pi|sel f u|sel|thr]; unfold cg_step; cbn [gst_step cst_step].
  - unfold cst_put, gst_put, cst_put_go, gst_put_go. cbn [to_cst cs_segs cs_trees].
    destruct rt as [thr|]; [destruct (pi_from pi <? thr)%Z; [reflexivity|]|];
      destruct (s_put_unix _ _ _ _) as [seg' cbs]; reflexivity.
  - unfold cst_get, gst_get. cbn [to_cst cs_segs cs_trees]. destruct (s_normalize_unix (f, u)) as [a b].
    set (keys := map item_key (get_items a b (filter (fun ks => sel_matches sel (fst ks)) (g_segs g)))).
    pose proof (cg_reads keys (g_store g)) as E. destruct (g_reads c_read keys (g_store g)) as [c1 v1].
    destruct (c_reads keys (g_store g)) as [c' vals]. inversion E; subst. reflexivity.
  - cbn [fst snd]. f_equal. unfold cst_delete, gst_delete. cbn [to_cst cs_segs].
    symmetry. apply fold_to_cst. intros x ks. unfold gst_delete_series, cst_delete_series.
    destruct (s_delete_before_unix max_time_unix (snd ks)) as [[z cbs] w]. reflexivity.
  - cbn [fst snd]. f_equal. unfold cst_retention, gst_retention. cbn [to_cst cs_segs].
    symmetry. apply fold_to_cst. intros x ks. unfold gst_retention_series, cst_retention_series.
    destruct (s_delete_before_unix thr (snd ks)) as [[seg' cbs] rd]. destruct rd; reflexivity.
Qed.

(* ================= Part C: a Model/Cache.v object store, one client-level operation at a time ================= *)
Section CopSim.
Context {K V D : Type}.
Context (keq : forall a b : K, {a = b} + {a <> b}).
Context (dflt : K -> V) (enc : K -> V -> D) (dec : K -> D -> V).
Context (Req : V -> V -> Prop).
Context (R_dflt : forall k, Req (dflt k) (dflt k)).
Context (R_codec : forall k v v', Req v v' -> Req (dec k (enc k v)) v').

Lemma inv_any_rest : forall (c : cache (K:=K) (V:=V) (D:=D)) m r r',
  nopers c -> CacheProofs.Inv keq dec Req c m r -> CacheProofs.Inv keq dec Req c m r'.
Proof.
  intros c m r r' NP [Hq Hl Hn]. constructor; auto.
  intros k e Hi. destruct (Hl k e Hi) as (v' & A & B & C). exists v'. repeat split; auto.
  intros P. rewrite (NP k e Hi) in P. discriminate.
Qed.

Lemma inv_ext : forall (c : cache (K:=K) (V:=V) (D:=D)) m m' r,
  (forall k, m' k = m k) -> CacheProofs.Inv keq dec Req c m r -> CacheProofs.Inv keq dec Req c m' r.
Proof.
  intros c m m' r E [Hq Hl Hn]. constructor.
  - intros k v Hi. rewrite E. exact (Hq k v Hi).
  - intros k e Hi. rewrite E. exact (Hl k e Hi).
  - intros k F. rewrite E. exact (Hn k F).
Qed.

Lemma cop_sim : forall (c : cache (K:=K) (V:=V) (D:=D)) m (o : cop (K:=K) (V:=V)),
  CacheProofs.Inv keq dec Req c m [] -> cclean c -> is_sync o = true -> Forall (congr_op Req) (lower1 o) ->
  Forall2 (out_rel Req) (fst (run keq dflt enc dec c (lower1 o))) (fst (spec_run keq dflt m (lower1 o))) /\
  CacheProofs.Inv keq dec Req (snd (run keq dflt enc dec c (lower1 o))) (snd (spec_run keq dflt m (lower1 o))) [] /\
  cclean (snd (run keq dflt enc dec c (lower1 o))).
Proof.
  intros c m o HI CC S CG. destruct (@sync1 _ _ _ keq dflt enc dec c o CC S) as (A & B & C).
  destruct CC as (E & W & NP).
  pose proof (@admissible0_admissible _ _ _ keq dflt enc dec (lower1 o) c NP B A) as AD.
  destruct (@refines_general _ _ _ keq dflt enc dec Req R_dflt R_codec (lower1 o) c m (inv_any_rest c m [] _ NP HI) AD CG) as [F I'].
  auto.
Qed.
End CopSim.

(* ---- the dictionaries store ---- *)
Definition dreq (a b : trie) : Prop := a = b /\ tr_weight a < dict_limit.
Definition dmap_t := smap (K:=bytes) (V:=trie).
Definition dmget (m : dmap_t) (app : bytes) : trie := match m app with Some d => d | None => d_new end.
Definition dinv (dc : dcache) (m : dmap_t) : Prop := CacheProofs.Inv bytes_dec dc_dec dreq dc m [] /\ cclean dc.

Lemma dreq_dflt : forall k, dreq (dc_dflt k) (dc_dflt k).
Proof. intros k. split; [reflexivity|]. vm_compute. reflexivity. Qed.

Lemma dreq_codec : forall k v v', dreq v v' -> dreq (dc_dec k (dc_enc k v)) v'.
Proof.
  intros k v v' [-> H]. unfold dc_dec, dc_enc. rewrite d_codec_roundtrip; [split; auto|].
  unfold dict_limit in H. change (2 ^ 64)%N with 18446744073709551616%N. lia.
Qed.

Lemma dinv_empty : dinv c_empty (@Cache.s_empty bytes trie).
Proof. split; [apply inv_init|apply cclean_empty]. Qed.

Lemma dmget_valid : forall dc m app, dinv dc m -> tr_weight (dmget m app) < dict_limit.
Proof.
  intros dc m app [[Hq Hl Hn] (E & W & NP)]. unfold dmget. destruct (m app) as [d|] eqn:Em; [|vm_compute; reflexivity].
  destruct (l_find bytes_dec app (c_lfu dc)) as [e|] eqn:F.
  - destruct (Hl app e (l_find_In bytes_dec _ _ F)) as (v' & A & [B1 B2] & _). rewrite Em in A. injection A as <-. rewrite <- B1. exact B2.
  - specialize (Hn app F). rewrite Em in Hn. destruct Hn as [U|(x & _ & [B1 B2])].
    + unfold inflight in U. rewrite E, W in U. destruct U.
    + rewrite <- B1. exact B2.
Qed.

Definition dc_ops_run (dc : dcache) (o : cop (K:=bytes) (V:=trie)) := dc_run dc (lower1 o).

Lemma dict_op : forall dc m o, dinv dc m -> is_sync o = true -> Forall (congr_op dreq) (lower1 o) ->
  Forall2 (out_rel dreq) (fst (dc_ops_run dc o)) (fst (spec_run bytes_dec dc_dflt m (lower1 o))) /\
  dinv (snd (dc_ops_run dc o)) (snd (spec_run bytes_dec dc_dflt m (lower1 o))).
Proof.
  intros dc m o [HI CC] S CG.
  destruct (cop_sim bytes_dec dc_dflt dc_enc dc_dec dreq dreq_dflt dreq_codec dc m o HI CC S CG) as (A & B & C).
  split; [exact A|split; assumption].
Qed.

Lemma s_set_get : forall (m : dmap_t) k x k', s_set bytes_dec k x m k' = if bytes_dec k' k then x else m k'.
Proof. reflexivity. Qed.

(* dicts.Get(app) *)
Lemma dict_read : forall dc m app, dinv dc m ->
  exists m', first_ret (fst (dc_ops_run dc (CRead app))) = dmget m app /\
             dinv (snd (dc_ops_run dc (CRead app))) m' /\ (forall a, dmget m' a = dmget m a).
Proof.
  intros dc m app HD.
  destruct (dict_op dc m (CRead app) HD eq_refl) as [F HD']; [repeat constructor|].
  cbn [lower1 spec_run spec_step] in F, HD'. unfold dc_ops_run, dc_run in *. cbn [lower1] in *.
  destruct (run bytes_dec dc_dflt dc_enc dc_dec dc [ORead app]) as [outs dc'] eqn:ER. cbn [fst snd] in *.
  destruct (m app) as [d|] eqn:Em; cbn [fst snd] in F, HD'.
  - exists m. inversion F as [|x y xs ys R F']; subst. destruct x; cbn in R; try contradiction.
    destruct R as [-> _]. split; [unfold dmget; rewrite Em; reflexivity|]. split; [exact HD'|auto].
  - exists (s_set bytes_dec app (Some (dc_dflt app)) m). inversion F as [|x y xs ys R F']; subst. destruct x; cbn in R; try contradiction.
    destruct R as [-> _]. split; [unfold dmget; rewrite Em; reflexivity|]. split; [exact HD'|].
    intros a. unfold dmget. rewrite s_set_get. destruct (bytes_dec a app) as [->|]; [rewrite Em; reflexivity|reflexivity].
Qed.

Lemma dinv_ext : forall dc m m', (forall k, m' k = m k) -> dinv dc m -> dinv dc m'.
Proof. intros dc m m' E [HI CC]. split; [eapply inv_ext; eauto|exact CC]. Qed.

(* dicts.Get(app) followed by an in-place mutation of the object *)
Lemma dict_mutate : forall dc m app f, dinv dc m ->
  (forall a, tr_weight a < dict_limit -> tr_weight (f a) < dict_limit) ->
  exists m', first_ret (fst (dc_ops_run dc (CMutate app f))) = dmget m app /\
             dinv (snd (dc_ops_run dc (CMutate app f))) m' /\
             (forall a, dmget m' a = if bytes_dec a app then f (dmget m app) else dmget m a).
Proof.
  intros dc m app f HD Hf.
  destruct (dict_op dc m (CMutate app f) HD eq_refl) as [F HD'].
  { cbn [lower1]. constructor; [exact I|]. constructor; [|constructor]. intros a b [-> H]. split; [reflexivity|apply Hf; exact H]. }
  cbn [lower1] in F, HD'. unfold dc_ops_run, dc_run in *. cbn [lower1] in *.
  destruct (run bytes_dec dc_dflt dc_enc dc_dec dc [ORead app; OMutate app f]) as [outs dc'] eqn:ER. cbn [fst snd] in *.
  cbn [spec_run spec_step] in F, HD'.
  destruct (m app) as [d|] eqn:Em; cbn [fst snd spec_step] in F, HD'.
  - rewrite Em in F, HD'. cbn [fst snd] in F, HD'.
    inversion F as [|x y xs ys R F']; subst. destruct x; cbn in R; try contradiction. destruct R as [-> _].
    eexists. split; [unfold dmget; rewrite Em; reflexivity|]. split; [exact HD'|].
    intros a. unfold dmget. rewrite s_set_get, Em. destruct (bytes_dec a app); reflexivity.
  - rewrite s_set_get in F, HD'. destruct (bytes_dec app app) as [_|N]; [|congruence]. cbn [fst snd] in F, HD'.
    inversion F as [|x y xs ys R F']; subst. destruct x; cbn in R; try contradiction. destruct R as [-> _].
    eexists. split; [unfold dmget; rewrite Em; reflexivity|]. split; [exact HD'|].
    intros a. unfold dmget. rewrite !s_set_get, Em. destruct (bytes_dec a app); reflexivity.
Qed.

(* dicts.Delete(key) *)
Lemma dict_delete : forall dc m key, dinv dc m ->
  exists m', dinv (snd (dc_ops_run dc (CDelete key))) m' /\
             (forall a, dmget m' a = if bytes_dec a key then d_new else dmget m a).
Proof.
  intros dc m key HD.
  destruct (dict_op dc m (CDelete key) HD eq_refl) as [_ HD']; [repeat constructor|].
  cbn [lower1 spec_run spec_step snd] in HD'. eexists. split; [exact HD'|].
  intros a. unfold dmget. rewrite s_set_get. destruct (bytes_dec a key); reflexivity.
Qed.

(* dicts.Evict + completion of its saves, dicts.Flush + reopen: invisible *)
Lemma dict_maint : forall dc m o, dinv dc m -> is_maint o = true -> dinv (snd (dc_ops_run dc o)) m.
Proof.
  intros dc m o HD M.
  assert (S : is_sync o = true) by (destruct o; try discriminate; reflexivity).
  destruct (dict_op dc m o HD S) as [_ HD'].
  { destruct o; try discriminate; cbn [lower1].
    - constructor; [exact I|]. apply Forall_forall. intros x Hx. apply repeat_spec in Hx. subst x. exact I.
    - repeat constructor. }
  destruct (@spec_maint _ _ bytes_dec dc_dflt o m M) as [_ E]. rewrite E in HD'. exact HD'.
Qed.

(* ================= Part D: the bytes store simulates cache's trees cache ================= *)
Definition disk_rel (m : dmap_t) (bd : tkey -> option bytes) (cd : tkey -> option tnode) : Prop :=
  forall k, match bd k, cd k with
            | None, None => True
            | Some bs, Some v => decodes_stably (dmget m (dict_key k)) bs v
            | _, _ => False
            end.

Definition brel (s : bstore) (c : tcache) : Prop :=
  cwf c /\ b_lfu s = c_lfu c /\ exists m, dinv (b_dicts s) m /\ disk_rel m (b_disk s) (c_disk c).

Lemma brel_empty : brel b_empty c_empty.
Proof.
  split; [apply cwf_empty|]. split; [reflexivity|]. exists (@Cache.s_empty bytes trie). split; [apply dinv_empty|].
  intros k. cbn. exact I.
Qed.

Lemma disk_rel_ext : forall m m' bd cd, (forall a, dmget m' a = dmget m a) -> disk_rel m bd cd -> disk_rel m' bd cd.
Proof. intros m m' bd cd E H k. specialize (H k). destruct (bd k), (cd k); auto. rewrite E. exact H. Qed.

Lemma names_bytes_eq : forall t, names_bytes t = names_weight 0 t.
Proof.
  induction t as [n s tot ch IH] using TreeProofs.tnode_ind'. cbn [names_bytes names_weight]. f_equal.
  destruct (0 <? tot)%N; [|reflexivity]. induction IH as [|c ch Hc _ IHc]; [reflexivity|]. cbn [fold_right]. rewrite Hc, IHc. reflexivity.
Qed.

Lemma tree_fitsb_eq : forall t, tree_fitsb t = t_fitsb t.
Proof.
  intros t. reflexivity.
Qed.

Section BytesSim.
Variable cap : nat.

(* what the side conditions give for one save *)
Lemma side_ok_spec : forall t d, side_ok cap t d = true ->
  t_wfb t = true /\ t_fitsb t = true /\ (t_size t <= cap)%nat /\ (tr_weight d + names_weight 0 t < two55)%N /\
  t_minval cap t = 0%N.
Proof.
  intros t d H. unfold side_ok in H. repeat (apply andb_prop in H; destruct H as [H ?]).
  rewrite tree_fitsb_eq in *. rewrite names_bytes_eq in *. apply Nat.leb_le in H1.
  repeat split; auto; [unfold dict_limit, two55 in *; apply N.ltb_lt; assumption | apply t_minval_fits; exact H1].
Qed.

Lemma save_mut_valid : forall t a, (tr_weight a < dict_limit)%N -> (tr_weight (save_mut cap t a) < dict_limit)%N.
Proof.
  intros t a Ha. unfold save_mut. destruct (side_ok cap t a) eqn:S; [|exact Ha].
  destruct (side_ok_spec t a S) as (Hwf & Hfit & Hsz & Hb & Hm).
  destruct (tc_serialize cap t a) as [bs d1] eqn:E. cbn [snd].
  destruct (serialize_stable cap t a bs d1 Hwf Hfit) as (_ & Hw & _); [rewrite Hm; exact Hb|exact E|].
  rewrite Hm in Hw. unfold dict_limit, two55 in *. lia.
Qed.

(* one save: treeBytes + write to the trees disk, against Cache.save with the abstracted codec *)
Lemma save_sim : forall s (cd : tkey -> option tnode) k v m,
  dinv (b_dicts s) m -> disk_rel m (b_disk s) cd -> b_ok (b_save cap s (k, v)) = true ->
  b_lfu (b_save cap s (k, v)) = b_lfu s /\
  exists m', dinv (b_dicts (b_save cap s (k, v))) m' /\
             disk_rel m' (b_disk (b_save cap s (k, v))) (save tkey_dec ct_enc (k, v) cd).
Proof.
  intros s cd k v m HD HR Hok. unfold b_save in *.
  destruct (dict_mutate (b_dicts s) m (dict_key k) (save_mut cap v) HD (save_mut_valid v)) as (m' & Hd & HD' & Hm').
  unfold dc_ops_run in *.
  destruct (dc_run (b_dicts s) (lower1 (CMutate (dict_key k) (save_mut cap v)))) as [outs dc'] eqn:ER. cbn [fst snd] in *.
  cbn [b_ok b_lfu b_dicts b_disk] in *. apply andb_prop in Hok. destruct Hok as [Hok0 Hside]. rewrite Hd in Hside |- *.
  split; [reflexivity|]. exists m'. split; [exact HD'|].
  destruct (side_ok_spec v _ Hside) as (Hwf & Hfit & Hsz & Hb & Hmv).
  destruct (tc_serialize cap v (dmget m (dict_key k))) as [bs d1] eqn:E.
  destruct (serialize_stable cap v (dmget m (dict_key k)) bs d1 Hwf Hfit) as (Hext & _ & Hst); [rewrite Hmv; exact Hb|exact E|].
  rewrite Hmv in Hst.
  assert (Hd1 : save_mut cap v (dmget m (dict_key k)) = d1) by (unfold save_mut; rewrite Hside, E; reflexivity).
  intros k'. unfold save, d_set. cbn [fst snd]. destruct (tkey_dec k' k) as [->|N].
  - rewrite Hm'. destruct (bytes_dec (dict_key k) (dict_key k)) as [_|N]; [|congruence]. rewrite Hd1. exact Hst.
  - specialize (HR k'). destruct (b_disk s k') as [bs'|], (cd k') as [v'|]; auto.
    rewrite Hm'. destruct (bytes_dec (dict_key k') (dict_key k)) as [Ek|Nk]; [|exact HR].
    rewrite Hd1. rewrite Ek in HR. eapply decodes_stably_mono; eauto.
Qed.

Lemma save_mono : forall s kv, b_ok (b_save cap s kv) = true -> b_ok s = true.
Proof.
  intros s [k v] H. unfold b_save in H. destruct (dc_run _ _) as [outs dc']. cbn [b_ok] in H.
  apply andb_prop in H. tauto.
Qed.

(* ---- the four primitives ---- *)
Lemma b_read_mono : forall k s, b_ok (fst (b_read k s)) = true -> b_ok s = true.
Proof.
  intros k s H. unfold b_read in H. destruct (l_get tkey_dec k (b_lfu s)) as [[v|] l']; [exact H|].
  destruct (b_disk s k) as [bs|]; [|exact H].
  destruct (dc_run (b_dicts s) (lower1 (CRead (dict_key k)))) as [outs dc'].
  destruct (tc_deserialize (first_ret outs) bs); [exact H|discriminate].
Qed.

Lemma b_read_sim : forall k s c, brel s c -> b_ok (fst (b_read k s)) = true ->
  snd (b_read k s) = snd (c_read k c) /\ brel (fst (b_read k s)) (fst (c_read k c)).
Proof.
  intros k s c (Hcwf & Hl & m & HD & HR) _.
  destruct (c_read k c) as [c' v'] eqn:EC. destruct (read_spec k c c' v' Hcwf EC) as (_ & Hcwf' & _).
  unfold c_read, ct_step in EC. cbn [Cache.step] in EC. rewrite <- Hl in EC. unfold b_read.
  destruct (l_get tkey_dec k (b_lfu s)) as [[v|] l'] eqn:EL.
  - inversion EC; subst. cbn [fst snd]. split; [reflexivity|]. split; [exact Hcwf'|]. split; [reflexivity|].
    exists m. split; assumption.
  - pose proof (HR k) as HRk. destruct (b_disk s k) as [bs|] eqn:EB; destruct (c_disk c k) as [v0|] eqn:ECd; try contradiction.
    + destruct (dict_read (b_dicts s) m (dict_key k) HD) as (m' & Hd & HD' & Hm'). unfold dc_ops_run in *.
      destruct (dc_run (b_dicts s) (lower1 (CRead (dict_key k)))) as [outs dc'] eqn:ER. cbn [fst snd] in *.
      rewrite Hd, (decodes_stably_now _ _ _ HRk). unfold ct_dec in EC. inversion EC; subst. cbn [fst snd].
      split; [reflexivity|]. split; [exact Hcwf'|]. split; [reflexivity|]. exists m'. split; [exact HD'|].
      cbn [b_disk c_disk]. eapply disk_rel_ext; eauto.
    + unfold ct_dflt in EC. inversion EC; subst. cbn [fst snd]. split; [reflexivity|]. split; [exact Hcwf'|]. split; [reflexivity|].
      exists m. split; assumption.
Qed.

Lemma b_put_sim : forall k v s c, brel s c -> b_ok (b_put k v s) = true -> brel (b_put k v s) (c_put k v c).
Proof.
  intros k v s c (Hcwf & Hl & m & HD & HR) _. destruct (put_spec k v c Hcwf) as [Hcwf' _].
  split; [exact Hcwf'|]. unfold c_put, ct_step, b_put. cbn [Cache.step fst b_lfu c_lfu b_dicts b_disk c_disk].
  split; [rewrite Hl; reflexivity|]. exists m. split; assumption.
Qed.

Lemma b_del_sim : forall k s c, brel s c -> b_ok (b_del k s) = true -> brel (b_del k s) (c_del k c).
Proof.
  intros k s c (Hcwf & Hl & m & HD & HR) _. destruct (del_spec k c Hcwf) as [Hcwf' _].
  split; [exact Hcwf'|]. unfold c_del, ct_step, b_del. cbn [Cache.step fst b_lfu c_lfu b_dicts b_disk c_disk].
  split; [rewrite Hl; reflexivity|]. exists m. split; [exact HD|].
  intros k'. unfold d_set. destruct (tkey_dec k' k); [exact I|apply HR].
Qed.

Lemma app_of_no_brace : forall k, existsb (N.eqb 123) (app_of k) = false.
Proof.
  induction k as [|b k IH]; [reflexivity|]. cbn [app_of]. destruct (N.eqb b 123) eqn:E; [reflexivity|].
  cbn [existsb]. rewrite N.eqb_sym, E. exact IH.
Qed.

Lemma b_drop_sim : forall key s c, brel s c -> b_ok (b_drop key s) = true -> brel (b_drop key s) (c_nodrop key c).
Proof.
  intros key s c (Hcwf & Hl & m & HD & HR) Hok. unfold b_drop, c_nodrop in *. cbn [b_ok] in Hok.
  apply andb_prop in Hok. destruct Hok as [_ Hbrace].
  destruct (dict_delete (b_dicts s) m key HD) as (m' & HD' & Hm'). unfold dc_ops_run in *.
  split; [exact Hcwf|]. split; [exact Hl|]. exists m'. cbn [b_dicts b_disk]. split; [exact HD'|].
  intros k. specialize (HR k). destruct (b_disk s k), (c_disk c k); auto. rewrite Hm'.
  destruct (bytes_dec (dict_key k) key) as [E|]; [|exact HR].
  (* an application name does not contain '{' *)
  exfalso. rewrite <- E in Hbrace. unfold dict_key in Hbrace. rewrite app_of_no_brace in Hbrace. discriminate.
Qed.

Lemma b_put_mono : forall k v s, b_ok (b_put k v s) = true -> b_ok s = true. Proof. intros; assumption. Qed.
Lemma b_del_mono : forall k s, b_ok (b_del k s) = true -> b_ok s = true. Proof. intros; assumption. Qed.
Lemma b_drop_mono : forall key s, b_ok (b_drop key s) = true -> b_ok s = true.
Proof. intros key s H. unfold b_drop in H. cbn [b_ok] in H. apply andb_prop in H. tauto. Qed.

(* ================= Part E: steps, maintenance, histories ================= *)
Definition drel (x : dst_state) (y : cst_state) : Prop := g_segs x = cs_segs y /\ brel (g_store x) (cs_trees y).
Definition dok (x : dst_state) : bool := b_ok (g_store x).

Lemma drel_init : drel dst_init cst_init.
Proof. split; [reflexivity|apply brel_empty]. Qed.

Lemma dst_step_mono : forall rt x o, dok (fst (dst_step rt x o)) = true -> dok x = true.
Proof.
  intros rt x o H. unfold dst_step, dok in *.
  exact (gst_step_mono b_read b_put b_del b_drop b_ok b_read_mono b_put_mono b_del_mono b_drop_mono rt x o H).
Qed.

Lemma dst_step_sim : forall rt x y o, drel x y -> dok (fst (dst_step rt x o)) = true ->
  snd (dst_step rt x o) = snd (cst_step rt y o) /\ drel (fst (dst_step rt x o)) (fst (cst_step rt y o)).
Proof.
  intros rt x y o [Hs Hb] H.
  set (g := {| g_segs := cs_segs y; g_store := cs_trees y |} : gst (S:=tcache)).
  assert (Ey : y = to_cst g) by (destruct y; reflexivity).
  rewrite Ey, cg_step_eq. cbn [fst snd]. unfold dst_step, cg_step, dok in *.
  destruct (gst_step_sim b_read b_put b_del b_drop c_read c_put c_del c_nodrop brel b_ok
              b_read_sim b_put_sim b_del_sim b_drop_sim b_read_mono b_put_mono b_del_mono b_drop_mono rt x g o) as [A [B1 B2]].
  - split; [exact Hs|exact Hb].
  - exact H.
  - split; [exact A|]. split; [exact B1|exact B2].
Qed.

(* ---- maintenance of cache's trees cache, in closed form ---- *)
Lemma ct_evict_explicit : forall n d order c, cwf c ->
  snd (ct_run c (lower1 (CEvict n d order))) =
  match d with
  | O => c
  | S _ => match l_evict tkey_dec order (l_len (c_lfu c) * n / d) (c_lfu c) with
           | Some (l', sends) => mkC l' (complete tkey_dec ct_enc sends (c_disk c)) [] []
           | None => c
           end
  end.
Proof.
  intros n d order c (E & W & NP & ND). cbn [lower1]. unfold ct_run.
  rewrite (@run_cons_snd _ _ _ tkey_dec ct_dflt ct_enc ct_dec).
  fold (ct_run (fst (Cache.step tkey_dec ct_dflt ct_enc ct_dec c (OEvict n d order))) (repeat (OSaveCompletes false) (length order))).
  rewrite drain_spec. cbn [Cache.step].
  assert (Same : mkC (c_lfu c) (complete tkey_dec ct_enc (firstn (length order) (c_evq c)) (c_disk c))
                     (skipn (length order) (c_evq c)) (c_wbq c) = c).
  { rewrite E, firstn_nil, skipn_nil. cbn [complete fold_left]. destruct c; cbn in *; subst; reflexivity. }
  destruct d as [|d']; [exact Same|].
  destruct (l_evict tkey_dec order (l_len (c_lfu c) * n / S d') (c_lfu c)) as [[l' sends]|] eqn:EV; [|exact Same].
  cbn [fst c_lfu c_disk c_evq c_wbq]. rewrite E, W. cbn [app].
  pose proof (@evict_len _ _ tkey_dec _ _ _ _ _ EV) as LEN.
  rewrite firstn_all2, skipn_all2 by exact LEN. reflexivity.
Qed.

Lemma ct_flush_explicit : forall c, cwf c ->
  snd (ct_run c (lower1 CFlushReopen)) = mkC [] (complete tkey_dec ct_enc (flush_sends (c_lfu c)) (c_disk c)) [] [].
Proof.
  intros c (E & W & NP & ND). cbn [lower1]. unfold ct_run. cbn [Cache.run Cache.step snd]. rewrite E, W. reflexivity.
Qed.

(* a batch of saves *)
Definition saves_rel (l' : lfu (K:=tkey) (V:=tnode)) (s : bstore) (cd : tkey -> option tnode) : Prop :=
  b_lfu s = l' /\ exists m, dinv (b_dicts s) m /\ disk_rel m (b_disk s) cd.

Lemma saves_sim : forall l' sends s cd, saves_rel l' s cd -> b_ok (fold_left (b_save cap) sends s) = true ->
  saves_rel l' (fold_left (b_save cap) sends s) (complete tkey_dec ct_enc sends cd).
Proof.
  intros l' sends s cd R H. unfold complete.
  apply (fold_sim (b_save cap) (fun d kv => save tkey_dec ct_enc kv d) (saves_rel l') b_ok);
    [|intros x a; apply save_mono|exact R|exact H].
  intros x cd0 [k v] (Hl & m & HD & HR) Hok.
  destruct (save_sim x cd0 k v m HD HR Hok) as (Hl' & m' & HD' & HR').
  split; [rewrite Hl'; exact Hl|]. exists m'. split; assumption.
Qed.

Lemma saves_mono : forall sends s, b_ok (fold_left (b_save cap) sends s) = true -> b_ok s = true.
Proof. intros sends s H. eapply (fold_mono (b_save cap) b_ok); [|exact H]. intros x a. apply save_mono. Qed.

Lemma b_evict_trees_mono : forall n d order s, b_ok (b_evict_trees cap n d order s) = true -> b_ok s = true.
Proof.
  intros n d order s H. unfold b_evict_trees in H. destruct d; [exact H|].
  destruct (l_evict tkey_dec order _ (b_lfu s)) as [[l' sends]|]; [|exact H]. apply saves_mono in H. exact H.
Qed.

Lemma b_evict_trees_sim : forall n d order s c, brel s c -> b_ok (b_evict_trees cap n d order s) = true ->
  brel (b_evict_trees cap n d order s) (snd (ct_run c (lower1 (CEvict n d order)))).
Proof.
  intros n d order s c R H. pose proof R as (Hcwf & Hl & m & HD & HR).
  rewrite (ct_evict_explicit n d order c Hcwf). unfold b_evict_trees in *. destruct d as [|d']; [exact R|].
  rewrite Hl in *. destruct (l_evict tkey_dec order (l_len (c_lfu c) * n / S d') (c_lfu c)) as [[l' sends]|] eqn:EV; [|exact R].
  destruct Hcwf as (E & W & NP & ND). destruct (evict_exact _ _ _ _ _ NP ND EV) as (NP' & ND' & _ & _).
  destruct (saves_sim l' sends {| b_lfu := l'; b_disk := b_disk s; b_dicts := b_dicts s; b_ok := b_ok s |} (c_disk c)) as (A & m' & B & C).
  - split; [reflexivity|]. exists m. split; assumption.
  - exact H.
  - split; [repeat split; auto|]. split; [exact A|]. exists m'. split; assumption.
Qed.

Lemma b_evict_dicts_sim : forall n d order s c, brel s c -> brel (b_evict_dicts n d order s) c.
Proof.
  intros n d order s c (Hcwf & Hl & m & HD & HR). split; [exact Hcwf|]. split; [exact Hl|]. exists m.
  split; [|exact HR]. exact (dict_maint (b_dicts s) m (CEvict n d order) HD eq_refl).
Qed.

Lemma b_close_mono : forall s, b_ok (b_close cap s) = true -> b_ok s = true.
Proof. intros s H. unfold b_close in H. cbn [b_ok] in H. apply saves_mono in H. exact H. Qed.

Lemma b_close_sim : forall s c, brel s c -> b_ok (b_close cap s) = true ->
  brel (b_close cap s) (snd (ct_run c (lower1 CFlushReopen))).
Proof.
  intros s c (Hcwf & Hl & m & HD & HR) H. rewrite (ct_flush_explicit c Hcwf). unfold b_close in *. cbn [b_ok] in H.
  destruct (saves_sim (b_lfu s) (flush_sends (b_lfu s)) s (c_disk c)) as (A & m' & B & C).
  - split; [reflexivity|]. exists m. split; assumption.
  - exact H.
  - split; [repeat split; cbn; auto; [intros k e []|constructor]|]. split; [reflexivity|]. exists m'. cbn [b_dicts b_disk].
    split; [exact (dict_maint _ m' CFlushReopen B eq_refl)|]. rewrite <- Hl. exact C.
Qed.
End BytesSim.

(* ---- histories ---- *)
Lemma dst_maint_mono : forall cap m x, dok (dst_maint cap m x) = true -> dok x = true.
Proof.
  intros cap m x H. unfold dst_maint, dok in *. cbn [g_store] in H. destruct m as [n d order|n d order|].
  - eapply b_evict_trees_mono; eauto.
  - exact H.
  - eapply b_close_mono; eauto.
Qed.

Lemma d_run_mono : forall cap rt h x, dok (fst (d_run cap rt h x)) = true -> dok x = true.
Proof.
  induction h as [|a h IH]; intros x H; [exact H|]. destruct a as [o|m]; cbn [d_run] in H.
  - destruct (dst_step rt x o) as [x1 out] eqn:E. destruct (d_run cap rt h x1) as [x2 outs] eqn:E2. cbn [fst] in H.
    apply (dst_step_mono rt x o). rewrite E. cbn [fst]. apply IH. rewrite E2. exact H.
  - eapply dst_maint_mono, IH, H.
Qed.

Lemma d_run_sim : forall cap rt h x y, drel x y -> dok (fst (d_run cap rt h x)) = true ->
  snd (d_run cap rt h x) = snd (c_run rt (dmap h) y).
Proof.
  induction h as [|a h IH]; intros x y R H; [reflexivity|]. destruct a as [o|m]; cbn [d_run dmap flat_map dmap1] in *.
  - cbn [app c_run]. destruct (dst_step rt x o) as [x1 out] eqn:E1. destruct (cst_step rt y o) as [y1 out'] eqn:E2.
    destruct (d_run cap rt h x1) as [x2 outs] eqn:E3. cbn [fst snd] in *.
    assert (H1 : dok x1 = true). { eapply d_run_mono. rewrite E3. exact H. }
    destruct (dst_step_sim rt x y o R) as [A B]; [rewrite E1; exact H1|]. rewrite E1, E2 in A, B. cbn [fst snd] in A, B. subst out'.
    specialize (IH x1 y1 B). rewrite E3 in IH. cbn [fst snd] in IH. fold (dmap h).
    destruct (c_run rt (dmap h) y1) as [y2 outs']. cbn [snd] in *. rewrite IH by exact H. reflexivity.
  - assert (H1 : dok (dst_maint cap m x) = true) by (eapply d_run_mono; exact H).
    destruct R as [Hs Hb]. unfold dst_maint, dok in H1. cbn [g_store] in H1.
    destruct m as [n d order|n d order|]; cbn [app c_run]; fold (dmap h); apply IH; try exact H.
    + split; [exact Hs|]. cbn [g_store cst_maint cs_trees]. apply b_evict_trees_sim; assumption.
    + split; [exact Hs|]. cbn [g_store]. apply b_evict_dicts_sim. exact Hb.
    + split; [exact Hs|]. cbn [g_store cst_maint cs_trees]. apply b_close_sim; assumption.
Qed.

(* The cached storage with real tree bytes and the dictionaries store refines the storage over plain maps:
   maintenance steps of BOTH stores inserted anywhere (evictions of trees, evictions of dictionaries, Close+New with
   trees flushed before dictionaries) are invisible — Put results, timelines and metadata literally, profiles up to the
   self value of every stack — whenever the run keeps its side conditions (final flag true). *)
Theorem refines_dict : forall cap rt h,
  dok (fst (d_run cap rt h dst_init)) = true ->
  Forall ok_op (cstrip (dmap h)) ->
  snd (d_run cap rt h dst_init) = snd (c_run rt (dmap h) cst_init) /\
  Forall2 out_equiv (snd (d_run cap rt h dst_init)) (snd (st_run rt (cstrip (dmap h)) st_init)).
Proof.
  intros cap rt h H OK. pose proof (d_run_sim cap rt h dst_init cst_init drel_init H) as E.
  split; [exact E|]. rewrite E. apply cached_storage_refines. exact OK.
Qed.

(* the statement about one key, spelled out: after a save of (k, v) that kept the side conditions, and after ANY
   further saves (of other keys or the same application: the dictionary only grows) and any maintenance of the
   dictionaries store, a load of k from the disk returns t_reload v *)
Lemma load_after_save : forall (s : bstore) (c : tcache) k v,
  brel s c -> c_disk c k = Some (t_reload v) -> l_find tkey_dec k (b_lfu s) = None ->
  snd (b_read k s) = t_reload v.
Proof.
  intros s c k v (Hcwf & Hl & m & HD & HR) Hd Hf. unfold b_read, l_get. rewrite Hf.
  specialize (HR k). rewrite Hd in HR. destruct (b_disk s k) as [bs|]; [|contradiction].
  destruct (dict_read (b_dicts s) m (dict_key k) HD) as (m' & Hdr & _ & _). unfold dc_ops_run in Hdr.
  destruct (dc_run (b_dicts s) (lower1 (CRead (dict_key k)))) as [outs dc']. cbn [fst] in Hdr.
  rewrite Hdr, (decodes_stably_now _ _ _ HR). reflexivity.
Qed.

(* ---- non-vacuity: real bytes, a dictionary that is evicted and reloaded, trees reloaded against it ---- *)
Definition exd_hist : list dhop :=
  [ DO (OpPut (ex_up 1600000000 1600000020 [([97;59;98]%N, 3%N); ([97;59;99]%N, 5%N)]));
    DM DClose;
    DO (OpPut (ex_up 1600000010 1600000020 [([97;59;98]%N, 1%N); ([97;59;100;100]%N, 2%N)]));
    DM (DEvictTrees 1 1 [(ex_key, 1%nat, 6373559680%Z); (ex_key, 0%nat, 6373559681%Z)]);
    DM (DEvictDicts 1 1 [[102;111;111]%N]);
    DO (OpGet ex_sid 1600000000 1600000020) ].

Example refines_dict_nonvacuous :
  let fin := fst (d_run 1024 None exd_hist dst_init) in
  dok fin = true /\
  (* before the query both LFUs are empty: the query reloads the dictionary from its bytes and the trees from theirs *)
  (let s := g_store (fst (d_run 1024 None (firstn 5 exd_hist) dst_init)) in b_lfu s = [] /\ c_lfu (b_dicts s) = []) /\
  (* the dictionary on disk holds the names of both uploads *)
  (match c_disk (b_dicts (g_store fin)) [102;111;111]%N with
   | Some bs => match d_deserialize bs with Some d => tr_weight d | None => 0%N end
   | None => 0%N
   end = 10%N) /\
  snd (d_run 1024 None exd_hist dst_init) = snd (c_run None (dmap exd_hist) cst_init).
Proof. vm_compute. repeat split. Qed.
