(* C08Reduction.v — from the fine lock-step model to "sections are single steps", for one series.
   What is mechanised: on the fine model of Model/Conc.v instrumented with data (Model/ConcData.v), for ANY
   schedule and ANY set of threads in which every thread but the reader g keeps its tracked writes inside ONE
   segment write section ([wdisc]) and g keeps its tracked reads inside ONE segment read section ([rdisc]) and
   all respect the lock order: everything g's read section observes is the content after exactly the writers that
   entered their write section before it, each of them WHOLE, in section order (no interleaving, no torn mixture),
   and that set lies between "finished before the read section began" and "begun before it".
   Left out (stated in Props/C08.v): a commutation / permutation argument producing an explicit coarse schedule —
   the theorem is proved directly by an invariant over the fine run, which gives the same observational statement;
   trees are not partitioned by series (all threads work on the one series s); Badger / lfu contents are not data. *)
From Pyro Require Import Model.Base Model.Conc Model.ConcData Proofs.ConcProofs.
From Coq Require Import Lia Arith.
Open Scope nat_scope.

(* ---- counting ---------------------------------------------------------------------------------------------------- *)
Lemma contrib_app : forall s x a b, contrib s x (a ++ b) = contrib s x a + contrib s x b.
Proof.
  intros s x a b. induction a as [|[l m|l m|y w] a IH]; cbn; auto. destruct w; auto. rewrite IH. lia.
Qed.
Lemma nwrites_app : forall s a b, nwrites s (a ++ b) = nwrites s a + nwrites s b.
Proof. intros s a b. induction a as [|x a IH]; cbn [app nwrites]; auto. rewrite IH. lia. Qed.
Lemma nreads_app : forall s a b, nreads s (a ++ b) = nreads s a + nreads s b.
Proof. intros s a b. induction a as [|x a IH]; cbn [app nreads]; auto. rewrite IH. lia. Qed.

Lemma nwrites_zero_contrib : forall s x code, nwrites s code = 0 -> contrib s x code = 0.
Proof.
  intros s x code. induction code as [|[l m|l m|y w] r IH]; cbn; auto.
  destruct w; cbn; auto. destruct (tracked s y); cbn; [discriminate | auto].
Qed.

Lemma contrib_snoc_quiet : forall s x h a, is_twrite s a = false -> contrib s x (h ++ [a]) = contrib s x h.
Proof.
  intros s x h a H. rewrite contrib_app. destruct a as [| |y w]; cbn; try lia.
  destruct w; cbn in *; try lia. rewrite H. cbn. lia.
Qed.

Lemma loc_eqb_refl : forall x, loc_eqb x x = true.
Proof. destruct x; cbn; auto using Nat.eqb_refl, cache_eqb_refl. Qed.
Lemma loc_eqb_eq : forall x y, loc_eqb x y = true -> x = y.
Proof.
  destruct x, y; cbn; intro H; try discriminate; try (apply Nat.eqb_eq in H; congruence).
  apply cache_eqb_eq in H. congruence.
Qed.

(* ---- accessors ------------------------------------------------------------------------------------------------------ *)
Definition code_of (c : config) (i : nat) : thread :=
  match nth_error c i with Some t => ts_code t | None => [] end.
Definition held_of (c : config) (i : nat) : held :=
  match nth_error c i with Some t => ts_held t | None => [] end.

Lemma code_set_same : forall c i t t', nth_error c i = Some t -> code_of (set_at i t' c) i = ts_code t'.
Proof. intros. unfold code_of. erewrite nth_set_at_same; eauto. Qed.
Lemma held_set_same : forall c i t t', nth_error c i = Some t -> held_of (set_at i t' c) i = ts_held t'.
Proof. intros. unfold held_of. erewrite nth_set_at_same; eauto. Qed.
Lemma code_set_other : forall c i j t', i <> j -> code_of (set_at i t' c) j = code_of c j.
Proof. intros. unfold code_of. rewrite nth_set_at_other; auto. Qed.
Lemma held_set_other : forall c i j t', i <> j -> held_of (set_at i t' c) j = held_of c j.
Proof. intros. unfold held_of. rewrite nth_set_at_other; auto. Qed.

(* ---- the shape of a step --------------------------------------------------------------------------------------------- *)
Lemma step_shape : forall i c c', step i c = Some c' ->
  exists t t', nth_error c i = Some t /\ c' = set_at i t' c /\
    ((ts_code t' = ts_code t /\ ts_held t' = ts_held t) \/
     (exists a r, ts_code t = a :: r /\ ts_code t' = r /\ ts_held t' = apply_held a (ts_held t))).
Proof.
  intros i c c' H. unfold step in H.
  destruct (nth_error c i) as [t|] eqn:Hi; [|discriminate].
  exists t. destruct (ts_code t) as [|a r] eqn:Hc; [discriminate|].
  destruct a as [l m | l m | x w].
  - destruct m.
    + destruct (existsb _ (others i c)); [discriminate|]. inversion H; subst.
      eexists. split; [reflexivity|]. split; [reflexivity|]. right. exists (Acq l MR), r. cbn. auto.
    + destruct (ts_pending t).
      * destruct (existsb _ (others i c)); [discriminate|]. inversion H; subst.
        eexists. split; [reflexivity|]. split; [reflexivity|]. right. exists (Acq l MW), r. cbn. auto.
      * inversion H; subst. eexists. split; [reflexivity|]. split; [reflexivity|]. left. cbn. auto.
  - inversion H; subst. eexists. split; [reflexivity|]. split; [reflexivity|]. right. exists (Rel l m), r. cbn. auto.
  - inversion H; subst. eexists. split; [reflexivity|]. split; [reflexivity|]. right. exists (Acc x w), r. cbn. auto.
Qed.

Lemma consumed_pop : forall i c t t' a r,
  nth_error c i = Some t -> ts_code t = a :: r -> ts_code t' = r -> consumed i c (set_at i t' c) = Some a.
Proof.
  intros i c t t' a r Hi Hc Hc'. unfold consumed. rewrite Hi, (nth_set_at_same _ _ _ _ _ Hi), Hc, Hc'.
  cbn [length]. destruct (Nat.ltb_spec (length r) (S (length r))); [reflexivity | lia].
Qed.
Lemma consumed_same : forall i c t t',
  nth_error c i = Some t -> ts_code t' = ts_code t -> consumed i c (set_at i t' c) = None.
Proof.
  intros i c t t' Hi Hc'. unfold consumed. rewrite Hi, (nth_set_at_same _ _ _ _ _ Hi), Hc'.
  destruct (ts_code t); auto. rewrite Nat.ltb_irrefl. reflexivity.
Qed.

(* ---- held sets under other releases ----------------------------------------------------------------------------------- *)
Lemma holds_w_remove_other : forall L l m h,
  (lock_eqb l L && mode_eqb m MW) = false -> holds_w L h = true -> holds_w L (remove_held l m h) = true.
Proof.
  intros L l m. unfold holds_w. induction h as [|p h IH]; intros Hne H; cbn in H |- *; [discriminate|].
  destruct (lock_eqb (fst p) l && mode_eqb (snd p) m) eqn:E.
  - apply orb_true_iff in H as [H | H]; auto.
    apply andb_true_iff in E as [E1 E2]. apply andb_true_iff in H as [H1 H2].
    apply lock_eqb_eq in E1, H1. apply mode_eqb_eq in E2, H2.
    assert (Hl : l = L) by congruence. assert (Hm : m = MW) by congruence.
    rewrite Hl, Hm, lock_eqb_refl in Hne. discriminate Hne.
  - cbn. apply orb_true_iff in H as [H | H]; [rewrite H; auto | rewrite IH; auto using orb_true_r].
Qed.
Lemma holds_remove_other : forall L l m h,
  lock_eqb l L = false -> holds L h = true -> holds L (remove_held l m h) = true.
Proof.
  intros L l m. unfold holds. induction h as [|p h IH]; intros Hne H; cbn in H |- *; [discriminate|].
  destruct (lock_eqb (fst p) l && mode_eqb (snd p) m) eqn:E.
  - apply orb_true_iff in H as [H | H]; auto.
    apply andb_true_iff in E as [E1 _]. apply lock_eqb_eq in E1, H. subst. rewrite lock_eqb_refl in Hne. discriminate.
  - cbn. apply orb_true_iff in H as [H | H]; [rewrite H; auto | rewrite IH; auto using orb_true_r].
Qed.

Lemma memn_app : forall i a b, memn i (a ++ b) = memn i a || memn i b.
Proof. intros. unfold memn. apply existsb_app. Qed.

Lemma flat_map_ext_in : forall A B (f g : A -> list B) l, (forall a, In a l -> f a = g a) -> flat_map f l = flat_map g l.
Proof.
  intros A B f g l H. induction l as [|a l IH]; cbn; auto.
  rewrite (H a) by (left; reflexivity). rewrite IH; auto. intros b Hb. apply H. right. exact Hb.
Qed.

(* ---- the data invariant ---------------------------------------------------------------------------------------------------- *)
Section Reduction.
Variables (s g : nat) (ts : list thread).

Definition init_of (i : nat) : thread := nth i ts [].
Definition done_val (d : dstate) (x : locid) : list nat :=
  flat_map (fun i => repeat i (contrib s x (d_hist d i))) (d_order d).
Definition has_snap (d : dstate) : bool := match d_snap d with Some _ => true | None => false end.

Record dinv (c : config) (d : dstate) : Prop := {
  di_len : length c = length ts;
  di_hist : forall i, init_of i = d_hist d i ++ code_of c i;
  di_val : forall x, tracked s x = true -> d_val d x = done_val d x;
  di_nodup : NoDup (d_order d);
  di_front : forall o j i, d_order d = o ++ [j] -> In i o -> nwrites s (code_of c i) = 0;
  di_inorder : forall i, In i (d_order d) -> i < length c /\ i <> g /\ 0 < nwrites s (d_hist d i);
  di_w : forall i, i <> g ->
         wdisc s (memn i (d_order d)) (held_of c i) (code_of c i) = true /\
         (memn i (d_order d) = true -> 0 < nwrites s (code_of c i) -> holds_w (LSeg s) (held_of c i) = true) /\
         (memn i (d_order d) = false -> nwrites s (d_hist d i) = 0);
  di_r : rdisc s (has_snap d) (held_of c g) (code_of c g) = true /\
         (has_snap d = true -> 0 < nreads s (code_of c g) -> holds (LSeg s) (held_of c g) = true);
  di_snap_none : d_snap d = None -> d_obs d = [];
  di_snap : forall S C T, d_snap d = Some (S, C, T) ->
      (exists rest, d_order d = S ++ rest) /\
      (0 < nreads s (code_of c g) -> d_order d = S) /\
      (forall x v, In (x, v) (d_obs d) -> v = after_puts s ts S x) /\
      (forall i, In i C -> i <> g -> 0 < nwrites s (init_of i) -> In i S) /\
      (forall i, In i S -> In i T)
}.

Lemma code_of_init : forall i, code_of (init_config ts) i = init_of i.
Proof.
  intro i. unfold code_of, init_of, init_config. rewrite nth_error_map.
  destruct (nth_error ts i) as [t|] eqn:E; cbn.
  - symmetry. apply nth_error_nth. exact E.
  - symmetry. apply nth_overflow. apply nth_error_None. exact E.
Qed.
Lemma held_of_init : forall i, held_of (init_config ts) i = [].
Proof.
  intro i. unfold held_of, init_config. rewrite nth_error_map. destruct (nth_error ts i); reflexivity.
Qed.

Lemma dinv_init :
  (forall i, i <> g -> wdisc s false [] (init_of i) = true) -> rdisc s false [] (init_of g) = true ->
  dinv (init_config ts) d_init.
Proof.
  intros Hw Hr. constructor; cbn.
  - unfold init_config. apply map_length.
  - intro i. rewrite code_of_init. reflexivity.
  - reflexivity.
  - constructor.
  - intros o j i H. destruct o; discriminate.
  - intros i [].
  - intros i Hi. rewrite code_of_init, held_of_init. split; [auto | split; [discriminate | reflexivity]].
  - rewrite code_of_init, held_of_init. split; [auto | discriminate].
  - reflexivity.
  - intros; discriminate.
Qed.

(* a step that changes nobody's code or held set (the announcement of a write-acquire) *)
Lemma dinv_same : forall c c' d,
  length c' = length c -> (forall j, code_of c' j = code_of c j) -> (forall j, held_of c' j = held_of c j) ->
  dinv c d -> dinv c' d.
Proof.
  intros c c' d L HC HH I. destruct I.
  constructor; intros; rewrite ?L, ?HC, ?HH in *; eauto.
Qed.

Lemma upd_hist_same : forall f i v, upd_hist f i v i = v.
Proof. intros. unfold upd_hist. rewrite Nat.eqb_refl. reflexivity. Qed.
Lemma upd_hist_other : forall f i v j, j <> i -> upd_hist f i v j = f j.
Proof. intros. unfold upd_hist. destruct (Nat.eqb_spec j i); [contradiction | reflexivity]. Qed.

Lemma holds_w_apply : forall a h started r,
  wdisc s started h (a :: r) = true -> started = true -> 0 < nwrites s r ->
  holds_w (LSeg s) h = true -> holds_w (LSeg s) (apply_held a h) = true.
Proof.
  intros a h started r W St Hn Hh. destruct a as [l m | l m | x w]; cbn [apply_held]; auto.
  - rewrite holds_w_cons. rewrite Hh. apply orb_true_r.
  - apply holds_w_remove_other; auto.
    cbn [wdisc] in W. apply andb_true_iff in W as [W _]. apply andb_true_iff in W as [_ W].
    destruct m; [rewrite andb_false_r; reflexivity|].
    destruct (lock_eqb l (LSeg s)) eqn:E; auto. subst started. cbn in W. apply Nat.eqb_eq in W. lia.
Qed.

Lemma holds_apply : forall a h started r,
  rdisc s started h (a :: r) = true -> started = true -> 0 < nreads s r ->
  holds (LSeg s) h = true -> holds (LSeg s) (apply_held a h) = true.
Proof.
  intros a h started r W St Hn Hh. destruct a as [l m | l m | x w]; cbn [apply_held]; auto.
  - rewrite holds_cons. rewrite Hh. apply orb_true_r.
  - apply holds_remove_other; auto.
    cbn [rdisc] in W. apply andb_true_iff in W as [W _]. apply andb_true_iff in W as [_ W].
    destruct (lock_eqb l (LSeg s)) eqn:E; auto. subst started. cbn in W. apply Nat.eqb_eq in W. lia.
Qed.

Lemma wdisc_tail : forall a h started r,
  wdisc s started h (a :: r) = true -> wdisc s (started || is_twrite s a) (apply_held a h) r = true.
Proof. intros a h started r W. cbn [wdisc] in W. apply andb_true_iff in W. tauto. Qed.
Lemma rdisc_tail : forall a h started r,
  rdisc s started h (a :: r) = true -> rdisc s (started || is_tread s a) (apply_held a h) r = true.
Proof. intros a h started r W. cbn [rdisc] in W. apply andb_true_iff in W. tauto. Qed.

Lemma dinv_quiet : forall c c' d i a r,
  dinv c d -> i < length c ->
  code_of c i = a :: r -> code_of c' i = r -> held_of c' i = apply_held a (held_of c i) ->
  (forall j, j <> i -> code_of c' j = code_of c j /\ held_of c' j = held_of c j) -> length c' = length c ->
  is_twrite s a = false -> (is_tread s a && Nat.eqb i g) = false ->
  dinv c' {| d_val := d_val d; d_order := d_order d; d_hist := upd_hist (d_hist d) i (d_hist d i ++ [a]);
             d_obs := d_obs d; d_snap := d_snap d |}.
Proof.
  intros c c' d i a r I Hi F1 F2 F3 FO L Hw Hrd. destruct I.
  assert (NW : nwrites s (a :: r) = nwrites s r) by (cbn [nwrites]; rewrite Hw; reflexivity).
  constructor; cbn [d_val d_order d_hist d_obs d_snap].
  - congruence.
  - intro j. destruct (Nat.eq_dec j i) as [->|Hne].
    + rewrite upd_hist_same, F2, <- app_assoc. cbn. rewrite <- F1. apply di_hist0.
    + rewrite upd_hist_other by auto. rewrite (proj1 (FO j Hne)). apply di_hist0.
  - intros x Hx. rewrite (di_val0 x Hx). unfold done_val. cbn [d_order d_hist].
    apply flat_map_ext_in. intros k Hk. destruct (Nat.eq_dec k i) as [->|Hne].
    + rewrite upd_hist_same, contrib_snoc_quiet; auto.
    + rewrite upd_hist_other; auto.
  - exact di_nodup0.
  - intros o j k Ho Hk. destruct (Nat.eq_dec k i) as [->|Hne].
    + rewrite F2. pose proof (di_front0 o j i Ho Hk) as Q. rewrite F1, NW in Q. exact Q.
    + rewrite (proj1 (FO k Hne)). eauto.
  - intros k Hk. destruct (di_inorder0 k Hk) as [A [B C]]. split; [lia|]. split; auto.
    destruct (Nat.eq_dec k i) as [->|Hne].
    + rewrite upd_hist_same, nwrites_app. lia.
    + rewrite upd_hist_other; auto.
  - intros j Hj. destruct (di_w0 j Hj) as [W1 [W2 W3]]. destruct (Nat.eq_dec j i) as [->|Hne].
    + rewrite F2, F3, upd_hist_same. rewrite F1 in W1, W2. split; [|split].
      * pose proof (wdisc_tail _ _ _ _ W1) as T. rewrite Hw, orb_false_r in T. exact T.
      * intros M Hn. eapply holds_w_apply; eauto. apply W2; auto. rewrite NW. exact Hn.
      * intro M. rewrite nwrites_app, (W3 M). cbn [nwrites]. rewrite Hw. reflexivity.
    + destruct (FO j Hne) as [E1 E2]. rewrite E1, E2, upd_hist_other by auto. auto.
  - destruct di_r0 as [R1 R2]. destruct (Nat.eq_dec g i) as [->|Hne].
    + rewrite Nat.eqb_refl, andb_true_r in Hrd.
      rewrite F2, F3. rewrite F1 in R1, R2. split.
      * pose proof (rdisc_tail _ _ _ _ R1) as T. rewrite Hrd, orb_false_r in T. exact T.
      * intros M Hn. eapply holds_apply; eauto. apply R2; auto. cbn [nreads]. rewrite Hrd. exact Hn.
    + destruct (FO g Hne) as [E1 E2]. rewrite E1, E2. auto.
  - exact di_snap_none0.
  - intros S C T HS. destruct (di_snap0 S C T HS) as [A [B [C0 [D E]]]].
    split; [exact A|]. split; [|auto].
    intro Hn. apply B. destruct (Nat.eq_dec g i) as [->|Hne].
    + rewrite Nat.eqb_refl, andb_true_r in Hrd. rewrite F2 in Hn. rewrite F1. cbn [nreads]. rewrite Hrd. exact Hn.
    + rewrite (proj1 (FO g Hne)) in Hn. exact Hn.
Qed.

Lemma excl_of : forall c i j l,
  inv c -> i <> j -> holds_w l (held_of c i) = true -> holds l (held_of c j) = false.
Proof.
  intros c i j l I Hne H. unfold held_of in *.
  destruct (nth_error c i) as [t|] eqn:Ei; [|discriminate].
  destruct (nth_error c j) as [u|] eqn:Ej; [|reflexivity].
  eapply (inv_excl c I i j); eauto.
Qed.

Lemma memn_In : forall i l, memn i l = true <-> In i l.
Proof. apply memn_in. Qed.
Lemma memn_not_In : forall i l, memn i l = false -> ~ In i l.
Proof. intros i l H Hin. apply memn_In in Hin. congruence. Qed.

(* while some thread i holds the segment lock (in any mode), every OTHER writer that has entered its write section
   has completed it *)
Lemma others_complete : forall c d i,
  inv c -> dinv c d -> holds (LSeg s) (held_of c i) = true ->
  forall k, In k (d_order d) -> k <> i -> nwrites s (code_of c k) = 0.
Proof.
  intros c d i I D Hh k Hk Hne. destruct D.
  destruct (exists_last (l := d_order d)) as [o [j Ho]]; [intro E; rewrite E in Hk; contradiction|].
  rewrite Ho in Hk. apply in_app_or in Hk as [Hk | [<- | []]]; [eauto|].
  destruct (nwrites s (code_of c j)) eqn:En; auto. exfalso.
  assert (Hj : In j (d_order d)) by (rewrite Ho; apply in_or_app; right; left; reflexivity).
  destruct (di_inorder0 j Hj) as [_ [Hg _]].
  destruct (di_w0 j Hg) as [_ [W2 _]].
  assert (Hw : holds_w (LSeg s) (held_of c j) = true).
  { apply W2; [apply memn_In; exact Hj | lia]. }
  rewrite (excl_of c j i (LSeg s) I Hne Hw) in Hh. discriminate.
Qed.

Lemma loc_eqb_sym : forall x y, loc_eqb x y = loc_eqb y x.
Proof.
  intros x y. destruct (loc_eqb x y) eqn:E.
  - apply loc_eqb_eq in E. subst. symmetry. apply loc_eqb_refl.
  - destruct (loc_eqb y x) eqn:E2; auto. apply loc_eqb_eq in E2. subst. rewrite loc_eqb_refl in E. discriminate.
Qed.

Lemma repeat_snoc : forall (i n : nat), repeat i (n + 1) = repeat i n ++ [i].
Proof. intros i n. induction n as [|n IH]; cbn; auto. rewrite IH. reflexivity. Qed.

Lemma contrib_snoc_write : forall x y h, tracked s x = true ->
  contrib s y (h ++ [Acc x true]) = contrib s y h + (if loc_eqb x y then 1 else 0).
Proof. intros x y h Hx. rewrite contrib_app. cbn. rewrite Hx. cbn. lia. Qed.

Lemma dinv_write : forall c c' d i x r,
  inv c -> dinv c d -> i < length c ->
  code_of c i = Acc x true :: r -> tracked s x = true -> code_of c' i = r -> held_of c' i = held_of c i ->
  (forall j, j <> i -> code_of c' j = code_of c j /\ held_of c' j = held_of c j) -> length c' = length c ->
  dinv c' {| d_val := upd_loc (d_val d) x (d_val d x ++ [i]);
             d_order := if memn i (d_order d) then d_order d else d_order d ++ [i];
             d_hist := upd_hist (d_hist d) i (d_hist d i ++ [Acc x true]);
             d_obs := d_obs d; d_snap := d_snap d |}.
Proof.
  intros c c' d i x r I D Hi F1 Hx F2 F3 FO L.
  pose proof (others_complete c d i I D) as OC.
  destruct D.
  (* the writer is not the reader, and holds the segment's write lock *)
  assert (Hig : i <> g).
  { intro E. subst i. destruct di_r0 as [R1 _]. rewrite F1 in R1. cbn [rdisc is_twrite] in R1. rewrite Hx in R1.
    cbn in R1. discriminate. }
  destruct (di_w0 i Hig) as [W1 [W2 W3]]. rewrite F1 in W1.
  assert (HW : holds_w (LSeg s) (held_of c i) = true).
  { cbn [wdisc is_twrite] in W1. rewrite Hx in W1. apply andb_true_iff in W1 as [W1 _].
    apply andb_true_iff in W1 as [W1 _]. exact W1. }
  assert (HWt : wdisc s true (held_of c i) r = true).
  { pose proof (wdisc_tail _ _ _ _ W1) as T. cbn [is_twrite apply_held] in T. rewrite Hx, orb_true_r in T. exact T. }
  specialize (OC (holds_w_holds _ _ HW)).
  (* if already in the order, it is the last one *)
  assert (Last : memn i (d_order d) = true -> exists o, d_order d = o ++ [i] /\ ~ In i o).
  { intro M. apply memn_In in M.
    destruct (exists_last (l := d_order d)) as [o [j Ho]]; [intro E; rewrite E in M; contradiction|].
    rewrite Ho in M. apply in_app_or in M as [M | [<- | []]].
    - pose proof (di_front0 o j i Ho M) as Q. rewrite F1 in Q. cbn [nwrites is_twrite] in Q. rewrite Hx in Q. discriminate.
    - exists o. split; auto. rewrite Ho in di_nodup0. intro Hin.
      apply NoDup_remove_2 in di_nodup0. apply di_nodup0. rewrite app_nil_r. exact Hin. }
  constructor; cbn [d_val d_order d_hist d_obs d_snap].
  - congruence.
  - intro j. destruct (Nat.eq_dec j i) as [->|Hne].
    + rewrite upd_hist_same, F2, <- app_assoc. cbn. rewrite <- F1. apply di_hist0.
    + rewrite upd_hist_other by auto. rewrite (proj1 (FO j Hne)). apply di_hist0.
  - (* contents *)
    intros y Hy. unfold upd_loc, done_val. cbn [d_order d_hist].
    destruct (memn i (d_order d)) eqn:M.
    + destruct (Last eq_refl) as [o [Ho Hno]]. rewrite Ho. rewrite flat_map_app. cbn [flat_map]. rewrite app_nil_r.
      rewrite upd_hist_same, contrib_snoc_write by auto.
      rewrite (flat_map_ext_in _ _ (fun k => repeat k (contrib s y (upd_hist (d_hist d) i (d_hist d i ++ [Acc x true]) k)))
                               (fun k => repeat k (contrib s y (d_hist d k))) o).
      2:{ intros k Hk. rewrite upd_hist_other; auto. intro E. subst. contradiction. }
      rewrite (loc_eqb_sym x y). destruct (loc_eqb y x) eqn:E.
      * apply loc_eqb_eq in E. subst y. rewrite (di_val0 x Hx). unfold done_val. rewrite Ho, flat_map_app. cbn [flat_map].
        rewrite app_nil_r, repeat_snoc, app_assoc. reflexivity.
      * rewrite Nat.add_0_r. rewrite (di_val0 y Hy). unfold done_val. rewrite Ho, flat_map_app. cbn [flat_map].
        rewrite app_nil_r. reflexivity.
    + pose proof (memn_not_In _ _ M) as Hni. rewrite flat_map_app. cbn [flat_map]. rewrite app_nil_r.
      rewrite upd_hist_same, contrib_snoc_write by auto.
      rewrite (nwrites_zero_contrib s y (d_hist d i) (W3 eq_refl)).
      rewrite (flat_map_ext_in _ _ (fun k => repeat k (contrib s y (upd_hist (d_hist d) i (d_hist d i ++ [Acc x true]) k)))
                               (fun k => repeat k (contrib s y (d_hist d k))) (d_order d)).
      2:{ intros k Hk. rewrite upd_hist_other; auto. intro E. subst. contradiction. }
      rewrite (loc_eqb_sym x y). destruct (loc_eqb y x) eqn:E.
      * apply loc_eqb_eq in E. subst y. rewrite (di_val0 x Hx). reflexivity.
      * cbn. rewrite app_nil_r. apply (di_val0 y Hy).
  - destruct (memn i (d_order d)) eqn:M; auto. apply nodup_snoc; auto. apply memn_not_In. exact M.
  - (* everybody before the last one has completed *)
    intros o' j' k Ho' Hk.
    assert (Hki : k <> i /\ In k (d_order d)).
    { destruct (memn i (d_order d)) eqn:M.
      - destruct (Last eq_refl) as [o [Ho Hno]]. rewrite Ho in Ho'. apply app_inj_tail in Ho' as [<- <-].
        split; [intro E; subst; contradiction|]. rewrite Ho. apply in_or_app. left. exact Hk.
      - apply app_inj_tail in Ho' as [<- <-]. split; auto. intro E. subst. apply (memn_not_In _ _ M). exact Hk. }
    destruct Hki as [Hne Hin]. rewrite (proj1 (FO k Hne)). apply OC; auto.
  - intros k Hk.
    assert (Hcases : In k (d_order d) \/ k = i).
    { destruct (memn i (d_order d)); auto. apply in_app_or in Hk as [Hk | [<- | []]]; auto. }
    destruct (Nat.eq_dec k i) as [->|Hne].
    + split; [lia|]. split; auto. rewrite upd_hist_same, nwrites_app. cbn [nwrites is_twrite]. rewrite Hx. lia.
    + destruct Hcases as [Hin | ->]; [|contradiction].
      destruct (di_inorder0 k Hin) as [A [B C]]. split; [lia|]. split; auto. rewrite upd_hist_other; auto.
  - intros j Hj. destruct (Nat.eq_dec j i) as [->|Hne].
    + assert (M' : memn i (if memn i (d_order d) then d_order d else d_order d ++ [i]) = true).
      { destruct (memn i (d_order d)) eqn:M; auto. rewrite memn_app. cbn. rewrite Nat.eqb_refl. apply orb_true_r. }
      rewrite M', F2, F3. split; [exact HWt|]. split; [auto | discriminate].
    + assert (M' : memn j (if memn i (d_order d) then d_order d else d_order d ++ [i]) = memn j (d_order d)).
      { destruct (memn i (d_order d)); auto. rewrite memn_app. cbn.
        destruct (Nat.eqb_spec j i); [contradiction|]. cbn. apply orb_false_r. }
      destruct (FO j Hne) as [E1 E2]. rewrite M', E1, E2, upd_hist_other by auto. apply di_w0. exact Hj.
  - destruct (FO g (not_eq_sym Hig)) as [E1 E2]. rewrite E1, E2. exact di_r0.
  - exact di_snap_none0.
  - intros S C T HS. destruct (di_snap0 S C T HS) as [[rest A] [B [C0 [Dd E]]]].
    destruct (FO g (not_eq_sym Hig)) as [E1 E2]. rewrite E1.
    split; [|split; [|auto]].
    + destruct (memn i (d_order d)); [exists rest; auto|]. exists (rest ++ [i]). rewrite A, app_assoc. reflexivity.
    + intro Hn. destruct (memn i (d_order d)) eqn:M; [auto|]. exfalso.
      destruct di_r0 as [_ R2]. unfold has_snap in R2. rewrite HS in R2. specialize (R2 eq_refl Hn).
      rewrite (excl_of c i g (LSeg s) I Hig HW) in R2. discriminate.
Qed.

(* what a location holds when every writer in the order has completed: the content after exactly those Puts *)
Lemma val_when_complete : forall c d x,
  dinv c d -> tracked s x = true ->
  (forall k, In k (d_order d) -> nwrites s (code_of c k) = 0) ->
  d_val d x = after_puts s ts (d_order d) x.
Proof.
  intros c d x D Hx HC. destruct D. rewrite (di_val0 x Hx). unfold done_val, after_puts.
  apply flat_map_ext_in. intros k Hk. f_equal.
  fold (init_of k). rewrite (di_hist0 k), contrib_app.
  rewrite (nwrites_zero_contrib s x (code_of c k) (HC k Hk)). lia.
Qed.

Lemma dinv_read : forall c c' d x r,
  inv c -> dinv c d -> g < length c ->
  code_of c g = Acc x false :: r -> tracked s x = true -> code_of c' g = r -> held_of c' g = held_of c g ->
  (forall j, j <> g -> code_of c' j = code_of c j /\ held_of c' j = held_of c j) -> length c' = length c ->
  dinv c' {| d_val := d_val d; d_order := d_order d;
             d_hist := upd_hist (d_hist d) g (d_hist d g ++ [Acc x false]);
             d_obs := (x, d_val d x) :: d_obs d;
             d_snap := match d_snap d with
                       | None => Some (d_order d, finished_threads c, begun_threads d (length c))
                       | sn => sn
                       end |}.
Proof.
  intros c c' d x r I D Hg F1 Hx F2 F3 FO L.
  pose proof (others_complete c d g I D) as OC.
  pose proof (val_when_complete c d x D Hx) as VC.
  destruct D.
  destruct di_r0 as [R1 R2]. rewrite F1 in R1.
  assert (HH : holds (LSeg s) (held_of c g) = true).
  { cbn [rdisc is_tread is_twrite] in R1. rewrite Hx in R1. cbn in R1.
    apply andb_true_iff in R1 as [R1 _]. apply andb_true_iff in R1 as [R1 _]. exact R1. }
  assert (HRt : rdisc s true (held_of c g) r = true).
  { pose proof (rdisc_tail _ _ _ _ R1) as T. cbn [is_tread apply_held] in T. rewrite Hx, orb_true_r in T. exact T. }
  assert (Complete : forall k, In k (d_order d) -> nwrites s (code_of c k) = 0).
  { intros k Hk. apply OC; auto. apply (di_inorder0 k Hk). }
  specialize (VC Complete).
  constructor; cbn [d_val d_order d_hist d_obs d_snap].
  - congruence.
  - intro j. destruct (Nat.eq_dec j g) as [->|Hne].
    + rewrite upd_hist_same, F2, <- app_assoc. cbn. rewrite <- F1. apply di_hist0.
    + rewrite upd_hist_other by auto. rewrite (proj1 (FO j Hne)). apply di_hist0.
  - intros y Hy. rewrite (di_val0 y Hy). unfold done_val. cbn [d_order d_hist].
    apply flat_map_ext_in. intros k Hk. destruct (Nat.eq_dec k g) as [->|Hne].
    + rewrite upd_hist_same, contrib_snoc_quiet; auto.
    + rewrite upd_hist_other; auto.
  - exact di_nodup0.
  - intros o j k Ho Hk.
    assert (Hne : k <> g).
    { apply (di_inorder0 k). rewrite Ho. apply in_or_app. left. exact Hk. }
    rewrite (proj1 (FO k Hne)). eauto.
  - intros k Hk. destruct (di_inorder0 k Hk) as [A [B C]]. split; [lia|]. split; auto.
    rewrite upd_hist_other; auto.
  - intros j Hj. destruct (FO j Hj) as [E1 E2]. rewrite E1, E2, upd_hist_other by auto. apply di_w0. exact Hj.
  - assert (HS : has_snap {| d_val := d_val d; d_order := d_order d;
                              d_hist := upd_hist (d_hist d) g (d_hist d g ++ [Acc x false]);
                              d_obs := (x, d_val d x) :: d_obs d;
                              d_snap := match d_snap d with
                                        | None => Some (d_order d, finished_threads c, begun_threads d (length c))
                                        | sn => sn
                                        end |} = true).
    { unfold has_snap. cbn. destruct (d_snap d); reflexivity. }
    rewrite HS, F2, F3. split; auto.
  - destruct (d_snap d); discriminate.
  - intros S C T HS.
    assert (Hn : 0 < nreads s (code_of c g)).
    { rewrite F1. cbn [nreads is_tread]. rewrite Hx. lia. }
    destruct (d_snap d) as [[[S0 C0] T0]|] eqn:Sn.
    + inversion HS; subst S0 C0 T0; clear HS.
      destruct (di_snap0 S C T eq_refl) as [A [B [Cc [Dd E]]]].
      pose proof (B Hn) as Eo.
      split; [exact A|]. split; [auto|]. split; [|auto].
      intros y v [Heq | Hin]; [|eauto]. inversion Heq; subst y v. rewrite VC, Eo. reflexivity.
    + inversion HS; subst S C T; clear HS.
      split; [exists []; rewrite app_nil_r; reflexivity|]. split; [auto|]. split; [|split].
      * rewrite (di_snap_none0 eq_refl). intros y v [Heq | []]. inversion Heq; subst y v. exact VC.
      * intros i Hi Hig Hnw.
        apply filter_In in Hi as [_ Hi].
        assert (Hc : code_of c i = []).
        { unfold code_of. destruct (nth_error c i) as [t|]; auto. destruct (ts_code t); [reflexivity | discriminate]. }
        destruct (memn i (d_order d)) eqn:M; [apply memn_In; exact M|]. exfalso.
        destruct (di_w0 i Hig) as [_ [_ W3]]. specialize (W3 M).
        rewrite (di_hist0 i), Hc, app_nil_r, W3 in Hnw. lia.
      * intros i Hi. destruct (di_inorder0 i Hi) as [A [_ Cc]].
        apply filter_In. split; [apply in_seq; lia|]. destruct (d_hist d i); [cbn in Cc; lia | reflexivity].
Qed.

Lemma dinv_step : forall c d i c' d',
  inv c -> dinv c d -> dstep s g (c, d) i = (c', d') -> inv c' /\ dinv c' d'.
Proof.
  intros c d i c' d' I D H. unfold dstep in H. cbn [fst snd] in H.
  destruct (step i c) as [c1|] eqn:E.
  2:{ inversion H; subst. auto. }
  pose proof (inv_step c i c1 I E) as I1.
  destruct (step_shape i c c1 E) as [t [t' [Hi [Hc1 Sh]]]].
  assert (Hlt : i < length c) by (apply nth_error_Some; congruence).
  assert (Ci : code_of c i = ts_code t) by (unfold code_of; rewrite Hi; reflexivity).
  assert (Hh : held_of c i = ts_held t) by (unfold held_of; rewrite Hi; reflexivity).
  assert (C1 : code_of c1 i = ts_code t') by (subst c1; eapply code_set_same; eauto).
  assert (H1 : held_of c1 i = ts_held t') by (subst c1; eapply held_set_same; eauto).
  assert (FO : forall j, j <> i -> code_of c1 j = code_of c j /\ held_of c1 j = held_of c j).
  { intros j Hj. subst c1. rewrite code_set_other, held_set_other by auto. auto. }
  assert (L : length c1 = length c) by (subst c1; apply length_set_at).
  destruct Sh as [[Sc Shd] | [a [r [Sc [Sc' Shd]]]]].
  - (* announcement *)
    rewrite Hc1 in H. rewrite (consumed_same i c t t' Hi Sc) in H. inversion H; subst c' d'. split; [rewrite <- Hc1; exact I1|].
    rewrite <- Hc1. apply (dinv_same c c1 d); auto.
    + intro j. destruct (Nat.eq_dec j i) as [->|Hne]; [congruence | apply FO; auto].
    + intro j. destruct (Nat.eq_dec j i) as [->|Hne]; [congruence | apply FO; auto].
  - rewrite Hc1 in H. rewrite (consumed_pop i c t t' a r Hi Sc Sc') in H. inversion H; subst c' d'.
    rewrite <- Hc1. split; [exact I1|].
    rewrite Sc in Ci. rewrite Sc' in C1. rewrite Shd, <- Hh in H1.
    destruct a as [l m | l m | x w].
    + apply (dinv_quiet c c1 d i (Acq l m) r); auto.
    + apply (dinv_quiet c c1 d i (Rel l m) r); auto.
    + destruct w.
      * cbn [record]. destruct (tracked s x) eqn:Tx.
        -- apply (dinv_write c c1 d i x r); auto.
        -- apply (dinv_quiet c c1 d i (Acc x true) r); auto.
      * cbn [record]. destruct (tracked s x && Nat.eqb i g) eqn:Tx.
        -- apply andb_true_iff in Tx as [Tx Eg]. apply Nat.eqb_eq in Eg. subst i.
           apply (dinv_read c c1 d x r); auto.
        -- apply (dinv_quiet c c1 d i (Acc x false) r); auto.
Qed.

Lemma dinv_run_from : forall sched c d,
  inv c -> dinv c d ->
  inv (fst (fold_left (dstep s g) sched (c, d))) /\ dinv (fst (fold_left (dstep s g) sched (c, d))) (snd (fold_left (dstep s g) sched (c, d))).
Proof.
  induction sched as [|i sched IH]; intros c d I D; cbn [fold_left]; auto.
  destruct (dstep s g (c, d) i) as [c1 d1] eqn:E.
  destruct (dinv_step c d i c1 d1 I D E) as [I1 D1]. apply IH; auto.
Qed.

Hypothesis Hord : forallb ordered_thread ts = true.
Hypothesis Hwr : forall i, i <> g -> wdisc s false [] (nth i ts []) = true.
Hypothesis Hrd : rdisc s false [] (nth g ts []) = true.

Lemma dinv_reachable : forall sched,
  dinv (fst (drun s g sched ts)) (snd (drun s g sched ts)).
Proof.
  intro sched. unfold drun. apply dinv_run_from.
  - apply inv_init. exact Hord.
  - apply dinv_init; auto.
Qed.

(* C08_atomic_read_fine *)
Theorem atomic_read_fine : forall sched,
  let d := snd (drun s g sched ts) in
  forall S C T, d_snap d = Some (S, C, T) ->
    (* everything the read section saw is the content after exactly the writers in S, each whole, in order *)
    (forall x v, In (x, v) (d_obs d) -> v = after_puts s ts S x) /\
    (* S: the writers whose write section began before the read section, a prefix of the final section order *)
    NoDup S /\ (exists rest, d_order d = S ++ rest) /\
    (* at least every writer that had finished when the read section began ... *)
    (forall i, In i C -> i <> g -> 0 < nwrites s (nth i ts []) -> In i S) /\
    (* ... and at most the threads that had begun *)
    (forall i, In i S -> In i T).
Proof.
  intros sched d S C T HS. pose proof (dinv_reachable sched) as D. fold d in D. destruct D.
  destruct (di_snap0 S C T HS) as [[rest A] [_ [Cc [Dd E]]]].
  split; [exact Cc|]. split.
  - rewrite A in di_nodup0. clear - di_nodup0. induction S as [|a S IH]; [constructor|].
    cbn in di_nodup0. inversion di_nodup0; subst. constructor; auto. intro Hin. apply H1. apply in_or_app. auto.
  - split; [exists rest; exact A|]. split; auto.
Qed.

(* only writers of the series are ever in the section order: S consists of threads that write tracked locations of s *)
Theorem order_only_writers : forall sched i,
  In i (d_order (snd (drun s g sched ts))) -> i <> g /\ 0 < nwrites s (nth i ts []).
Proof.
  intros sched i Hi. pose proof (dinv_reachable sched) as D. destruct D.
  destruct (di_inorder0 i Hi) as [_ [Hg Hn]]. split; auto.
  fold (init_of i). rewrite (di_hist0 i), nwrites_app. lia.
Qed.

(* nothing is observed without the snapshot: the theorem above covers every observation *)
Theorem no_observation_without_snapshot : forall sched,
  d_snap (snd (drun s g sched ts)) = None -> d_obs (snd (drun s g sched ts)) = [].
Proof. intros sched H. apply (di_snap_none _ _ (dinv_reachable sched)). exact H. Qed.

End Reduction.

(* ---- the section-only threads of one series satisfy the disciplines, for all parameters --------------------------------- *)
Lemma wdisc_tree_writes : forall s trees h tail,
  holds_w (LSeg s) h = true ->
  wdisc s true h (flat_map (fun t => locked (LTree t) MW [Acc (LocTree t) true]) trees ++ tail) = wdisc s true h tail.
Proof.
  intros s trees h tail Hh. induction trees as [|t trees IH]; [reflexivity|].
  cbn [flat_map]. unfold locked at 1. cbn [app]. rewrite <- ?app_assoc. cbn [app].
  cbn [wdisc is_twrite tracked apply_held orb andb lock_eqb].
  rewrite holds_w_cons, Hh, orb_true_r.
  destruct (Nat.eqb (tree_series t) s); cbn [andb];
  rewrite remove_held_head; exact IH.
Qed.

Lemma put_core_wdisc : forall s trees, wdisc s false [] (put_core s trees) = true.
Proof.
  intros s trees. unfold put_core, locked. cbn [app]. rewrite <- ?app_assoc. cbn [app].
  cbn [wdisc is_twrite tracked apply_held orb andb lock_eqb holds_w existsb fst snd mode_eqb].
  rewrite !Nat.eqb_refl. cbn [andb orb].
  rewrite wdisc_tree_writes by (cbn; rewrite Nat.eqb_refl; reflexivity).
  cbn. rewrite !Nat.eqb_refl. reflexivity.
Qed.

Lemma rdisc_tree_reads : forall s trees h tail,
  holds (LSeg s) h = true ->
  rdisc s true h (flat_map (fun t => locked (LTree t) MR [Acc (LocTree t) false]) trees ++ tail) = rdisc s true h tail.
Proof.
  intros s trees h tail Hh. induction trees as [|t trees IH]; [reflexivity|].
  cbn [flat_map]. unfold locked at 1. cbn [app]. rewrite <- ?app_assoc. cbn [app].
  cbn [rdisc is_twrite is_tread tracked apply_held orb andb negb lock_eqb].
  rewrite holds_cons, Hh, orb_true_r.
  destruct (Nat.eqb (tree_series t) s); cbn [andb];
  rewrite remove_held_head; exact IH.
Qed.

Lemma get_core_rdisc : forall s trees, rdisc s false [] (get_core s trees) = true.
Proof.
  intros s trees. unfold get_core, locked. cbn [app]. rewrite <- ?app_assoc. cbn [app].
  cbn [rdisc is_twrite is_tread tracked apply_held orb andb negb lock_eqb holds existsb fst snd].
  rewrite !Nat.eqb_refl. cbn [andb orb negb].
  rewrite rdisc_tree_reads by (cbn; rewrite Nat.eqb_refl; reflexivity).
  cbn. rewrite !Nat.eqb_refl. reflexivity.
Qed.

Lemma put_core_ordered : forall s trees, ordered_thread (put_core s trees) = true.
Proof. intros. apply neutral_ordered. unfold put_core. neutral_tac. Qed.
Lemma get_core_ordered : forall s trees, ordered_thread (get_core s trees) = true.
Proof. intros. apply neutral_ordered. unfold get_core. neutral_tac. Qed.

(* k ingests (each merging into any list of trees) and one render (reading any list of trees) of series s *)
Definition core_threads (s : nat) (puts : list (list nat)) (reads : list nat) : list thread :=
  map (put_core s) puts ++ [get_core s reads].

Theorem atomic_read_fine_core : forall s puts reads sched,
  let ts := core_threads s puts reads in
  let g := length puts in
  let d := snd (drun s g sched ts) in
  forall S C T, d_snap d = Some (S, C, T) ->
    (forall x v, In (x, v) (d_obs d) -> v = after_puts s ts S x) /\
    NoDup S /\ (exists rest, d_order d = S ++ rest) /\
    (forall i, In i C -> i <> g -> 0 < nwrites s (nth i ts []) -> In i S) /\
    (forall i, In i S -> In i T).
Proof.
  intros s puts reads sched ts g d. apply (atomic_read_fine s g ts).
  - unfold ts, core_threads. rewrite forallb_app. apply andb_true_iff. split.
    + apply forallb_forall. intros t Ht. apply in_map_iff in Ht as [tr [<- _]]. apply put_core_ordered.
    + cbn [forallb]. rewrite get_core_ordered. reflexivity.
  - intros i Hi. unfold ts, core_threads.
    destruct (Nat.lt_ge_cases i (length puts)) as [Hlt | Hge].
    + rewrite app_nth1 by (rewrite map_length; exact Hlt).
      rewrite (nth_indep _ [] (put_core s [])) by (rewrite map_length; exact Hlt).
      rewrite map_nth. apply put_core_wdisc.
    + rewrite app_nth2 by (rewrite map_length; exact Hge). rewrite map_length.
      destruct (i - length puts) as [|[|n]] eqn:E; [unfold g in Hi; lia | reflexivity | reflexivity].
  - unfold ts, core_threads, g. rewrite app_nth2 by (rewrite map_length; lia).
    rewrite map_length, Nat.sub_diag. cbn. apply get_core_rdisc.
Qed.

(* the FULL templates of the access table (with the cache / lfu / dimension steps) satisfy both disciplines on
   instances (checked by computation; the parametric statement is proved for the section-only threads above) *)
Example full_templates_disciplined_instance :
  wdisc 0 false [] (put_thread 0 [0; 1] [(0, [1; 2], true); (3, [], false)]) = true /\
  rdisc 0 false [] (get_thread 0 [0; 1] [0; 3]) = true /\
  wdisc 0 false [] (delete_thread 0 [0; 1] [0; 3]) = true /\
  wdisc 0 false [] (evict_task CTrees (save_tree 1 0)) = true.
Proof. repeat split; reflexivity. Qed.

(* non-vacuity: two ingests and a render, a schedule in which the render's read section falls between them *)
Example fine_nonvacuous :
  let r := drun 0 2 [0;0;0;0;0;0; 2;2; 1;1;1; 0;0;0;0;0;0;0;0;0;0;0;0; 2;2;2;2; 1;1;1;1;1;1;1;1;1;1; 2;2;2;2;2;2;2;2;2;2;2]
                (core_threads 0 [[2; 4]; [4]] [2; 4]) in
  d_obs (snd r) = [(LocTree 4, [0]); (LocTree 2, [0]); (LocSegTree 0, [0]); (LocSegTree 0, [0])] /\
  d_snap (snd r) = Some ([0], [0], [0; 2]).
Proof. vm_compute. split; reflexivity. Qed.
