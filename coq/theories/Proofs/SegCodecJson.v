(* SegCodecJson.v — the segment codec instantiated with the concrete metadata JSON codec
   (Model/MetaJson.v): no hypothesis about encoding/json is left. *)
From Pyro Require Import Model.Base Model.Varint Model.Float53 Model.Segment Model.SegCodec Model.MetaJson
  Proofs.VarintProofs Proofs.SegStruct Proofs.SegCodecProofs Proofs.MetaJsonProofs.
From Coq Require Import ZifyBool ZifyN ZifyNat.
Local Open Scope N_scope.

(* size of the JSON block: every source byte becomes at most six *)
Lemma jq_body_length : forall f s, (length (jq_body f s) <= 6 * length s)%nat.
Proof.
  induction f as [|f IH]; intros s; [cbn; lia|]. destruct s as [|b r]; [cbn; lia|]. cbn [jq_body].
  destruct (b <? 128) eqn:Eb.
  - rewrite app_length. specialize (IH r). assert (length (esc_ascii b) <= 6)%nat.
    { unfold esc_ascii. repeat match goal with |- context [if ?c then _ else _] => destruct c end; cbn; lia. }
    cbn [length]. lia.
  - destruct (u8dec (b :: r)) as [[rb r']|] eqn:Ed.
    + destruct (u8dec_spec _ _ _ Ed) as (Hbs & (b0 & rb' & Hrb & _) & _).
      rewrite app_length. specialize (IH r').
      assert (Hl : length (b :: r) = (length rb + length r')%nat) by (rewrite Hbs, app_length; reflexivity).
      assert (length (esc_rune rb) <= 6 * length rb)%nat.
      { unfold esc_rune. destruct (list_eqb N.eqb rb ls_rune) eqn:E1; [apply list_eqb_N_eq in E1; subst rb; rewrite E1; cbn; lia|].
        destruct (list_eqb N.eqb rb ps_rune) eqn:E2; [apply list_eqb_N_eq in E2; rewrite E2; cbn; lia|]. lia. }
      lia.
    + rewrite app_length. specialize (IH r). cbn [esc_bad length]. lia.
Qed.

Lemma to_dec_f_length : forall fuel n, (length (to_dec_f fuel n) <= S fuel)%nat.
Proof.
  induction fuel as [|f IH]; intros n; cbn [to_dec_f]; [cbn; lia|].
  destruct (n <? 10); [cbn; lia|]. rewrite app_length. specialize (IH (n / 10)). cbn [length]. lia.
Qed.

Lemma write_meta_length m : m_rate m < 2 ^ 32 ->
  (length (write_meta m) <= 300 + 6 * (length (m_spy m) + length (m_units m) + length (m_agg m)))%nat.
Proof.
  intros Hr. unfold write_meta. do 12 (rewrite ?length_wq, ?app_length; cbn [length]).
  pose proof (jq_body_length (S (length (m_spy m))) (m_spy m)).
  pose proof (jq_body_length (S (length (m_units m))) (m_units m)).
  pose proof (jq_body_length (S (length (m_agg m))) (m_agg m)).
  pose proof (jq_body_length (S (length key_agg)) key_agg). pose proof (jq_body_length (S (length key_rate)) key_rate).
  pose proof (jq_body_length (S (length key_spy)) key_spy). pose proof (jq_body_length (S (length key_units)) key_units).
  assert (length (to_dec (m_rate m)) <= 33)%nat.
  { unfold to_dec. pose proof (to_dec_f_length (N.to_nat (N.log2 (m_rate m))) (m_rate m)).
    assert (N.log2 (m_rate m) < 32) by (destruct (N.eq_dec (m_rate m) 0) as [->|]; [cbn; lia|apply N.log2_lt_pow2; lia]). lia. }
  cbn [key_agg key_rate key_spy key_units length] in *. lia.
Qed.

(* metadata that json and the length prefix carry faithfully: valid UTF-8, uint32 rate, not absurdly long *)
Definition meta_ok (m : meta) : Prop :=
  meta_validb m = true /\ Nlen (m_spy m) + Nlen (m_units m) + Nlen (m_agg m) < 2 ^ 60.

Lemma meta_short m : m_rate m < 2 ^ 32 -> Nlen (m_spy m) + Nlen (m_units m) + Nlen (m_agg m) < 2 ^ 60 ->
  Nlen (write_meta m) < 2 ^ 64.
Proof.
  intros Hr Hl. pose proof (write_meta_length m Hr). unfold Nlen in *. lia.
Qed.

Theorem codec_roundtrip_json K s : seg_ok K s -> seg_bounded s -> s_root s <> None -> meta_ok (s_meta s) ->
  s_deserialize read_meta (s_serialize write_meta s) = Some s.
Proof.
  intros Hok Hb Hne [Hv Hl]. apply (codec_roundtrip_at write_meta read_meta K); auto.
  - apply meta_json_roundtrip. exact Hv.
  - apply meta_short; [|exact Hl]. unfold meta_validb in Hv. repeat (apply andb_prop in Hv; destruct Hv as [Hv ?]). lia.
Qed.

(* arbitrary metadata bytes: what comes back is the segment with malformed UTF-8 replaced by U+FFFD —
   the known finding metadata-invalid-utf8, as a theorem about the model *)
Theorem codec_roundtrip_json_fix K s : seg_ok K s -> seg_bounded s -> s_root s <> None ->
  m_rate (s_meta s) < 2 ^ 32 ->
  Nlen (m_spy (s_meta s)) + Nlen (m_units (s_meta s)) + Nlen (m_agg (s_meta s)) < 2 ^ 60 ->
  s_deserialize read_meta (s_serialize write_meta s) = Some {| s_root := s_root s; s_meta := fix_meta (s_meta s) |}.
Proof.
  intros Hok Hb Hne Hr Hl. apply (codec_roundtrip_meta write_meta read_meta K); auto.
  - apply read_write_meta. exact Hr.
  - apply meta_short; assumption.
Qed.

Corollary codec_roundtrip_json_reachable K s : reachable K s -> seg_bounded s -> s_root s <> None -> meta_ok (s_meta s) ->
  s_deserialize read_meta (s_serialize write_meta s) = Some s.
Proof. intros Hr. apply (codec_roundtrip_json K). apply reachable_ok. exact Hr. Qed.
